#!/usr/bin/env python3
"""Coverage accounting for the correspondence ties (DESIGN.md section 4, "Coverage accounting").

    python3 tools/coverage.py Cxx [Cyy ...] [--tier quick|thorough] [--seed N]
    python3 tools/coverage.py Cxx --report-only      # re-read the gcda data of the last run
    python3 tools/coverage.py --summary              # markdown table from coverage/*.json

For one property the tool

 1. wraps vlib.build so that, for this process only, every library source of the working tree of
    /repo (VERIF_REPO is honoured) and the harness are compiled with `--coverage -O0
    -fprofile-update=atomic` (ASan is kept: several harnesses use its runtime interface; UBSan is
    dropped because its front-end checks add ~20 % artificial, never-taken branches to gcov's
    branch table -- pass --keep-ubsan to keep it).  The instrumented objects live in a cache entry
    of their own, /verif/.cache/cov/_build/<flags+tree hash>/<src_path_mangled>.o (stable names, one
    directory per flag set, shared by all properties); the *data* of a run is private: the harness
    processes inherit GCOV_PREFIX=/verif/.cache/cov/<Cxx>/data, so every .gcda is written (merged
    under libgcov's file lock by the many parallel harness processes) below that directory;
 2. runs the property module's run(ctx) exactly as ./check does -- same Ctx, same seed rule, same
    tier -- but without the Lean proof step and without common.finish (no evidence/, replays/ are
    written).  ctx.driver_ok is True iff the driver binaries named by EXTRA_TARGETS already exist
    under lean/.lake/build/bin, so the generated scripts are those of a normal run;
 3. runs `gcov --json-format --stdout -b -c` on every data file, merges the records of all flag
    sets used by the run, resolves the property's anchors (properties.jsonl: anchors.files,
    anchors.mechanism[].where / .name; line numbers there refer to the base snapshot of /repo and
    are mapped to the working tree through `git diff -U0 <base>`) to functions of the current tree;
 4. writes coverage/Cxx.json and coverage/Cxx.txt.

Nothing outside /verif/.cache/cov and /verif/coverage is written by the tool itself.
"""
import argparse, collections, glob, importlib, json, os, re, shutil, subprocess, sys, time, traceback

HERE = os.path.dirname(os.path.abspath(__file__))
VERIF = os.path.dirname(HERE)
sys.path.insert(0, VERIF)
from vlib import build, common  # noqa: E402

REPO = build.REPO
COV = os.path.join(build.CACHE, "cov")
OUT = os.path.join(VERIF, "coverage")
COVFLAGS = ["--coverage", "-O0", "-fprofile-update=atomic"]
ASAN_ONLY = ["-fsanitize=address", "-fno-omit-frame-pointer"]

_state = {"san": ASAN_ONLY, "tags": [], "log": []}

# Several harnesses leave through _exit() (to skip the library's shutdown path, or from a watchdog
# signal handler); libgcov writes its counters from an exit-time destructor, so such a process would
# leave no data at all; the same holds for a process ended by a sanitizer report.  The coverage
# build therefore links this definition of _exit (and a sanitizer death callback) into every
# harness executable (a definition in the executable wins over libc's): dump, then really exit.
COVEXIT_C = r"""
#include <unistd.h>
#include <sys/syscall.h>
extern void __gcov_dump(void);
extern void __sanitizer_set_death_callback(void (*)(void)) __attribute__((weak));
static volatile int once;
static void dump_once(void) { if (!once) { once = 1; __gcov_dump(); } }
void _exit(int rc) {
  dump_once();
  syscall(SYS_exit_group, rc);
  for (;;) {}
}
/* a sanitizer report ends the process without running destructors: keep the counters of that run too
   (a harness that installs its own death callback later replaces this one and leaves through _exit) */
__attribute__((constructor)) static void covexit_init(void) {
  if (__sanitizer_set_death_callback) __sanitizer_set_death_callback(dump_once);
}
"""


def say(msg):
    sys.stderr.write("[coverage] %s\n" % msg)
    sys.stderr.flush()


# ------------------------------------------------------------------------------------ build wrap
def _mangle(src):
    return re.sub(r"[^A-Za-z0-9]+", "_", src[:-2]) + ".o"


def _lib_flags(san, extra):
    return (["-O1", "-g", "-w", "-fPIC"] + build.DEFS + build.incs()
            + (_state["san"] if san else []) + list(extra) + COVFLAGS)


def _tagdir(flags):
    tag = build._sha(" ".join(flags), build.headers_hash())
    return tag, os.path.join(COV, "_build", tag)


def cov_build_libs(san=True, extra=()):
    """replacement of vlib.build.build_libs: instrumented archives in a private cache entry"""
    from concurrent.futures import ThreadPoolExecutor
    flags = _lib_flags(san, extra)
    tag, d = _tagdir(flags)
    sa, ca = os.path.join(d, "libvs.a"), os.path.join(d, "libvc.a")
    if tag not in _state["tags"]:
        _state["tags"].append(tag)
    if os.environ.get("GCOV_PREFIX"):
        # libgcov would create the missing directories itself, but harnesses that interpose
        # mkdir/open would see (and log or refuse) those calls: create the tree beforehand
        os.makedirs(os.environ["GCOV_PREFIX"] + d, exist_ok=True)
    with build.Lock("covbuild"):
        if os.path.exists(os.path.join(d, "STAMP")):
            os.utime(d, None)
            return sa, ca
        t0 = time.time()
        os.makedirs(d, exist_ok=True)
        srcs = list(dict.fromkeys(build.SERVER_SRCS + build.CLIENT_SRCS))

        def one(src):
            obj = os.path.join(d, _mangle(src))
            rc, out = build.run(["gcc", "-std=gnu90", "-c", os.path.join(REPO, src), "-o", obj] + flags)
            return (obj, None) if rc == 0 else (None, "compile failed: %s\n%s" % (src, out))

        with ThreadPoolExecutor(max_workers=8) as ex:
            res = list(ex.map(one, srcs))
        errs = [e for (_, e) in res if e]
        if errs:
            raise RuntimeError("\n".join(errs))
        objs = dict(zip(srcs, [o for (o, _) in res]))
        for arch, lst in ((sa, build.SERVER_SRCS), (ca, build.CLIENT_SRCS)):
            if os.path.exists(arch):
                os.remove(arch)
            rc, out = build.run(["ar", "rcs", arch] + [objs[s] for s in lst])
            if rc != 0:
                raise RuntimeError(out)
        with open(os.path.join(d, "flags.txt"), "w") as f:
            f.write(" ".join(flags) + "\nrepo=%s\n" % REPO)
        with open(os.path.join(d, "STAMP"), "w") as f:
            f.write(str(time.time()))
        say("instrumented libraries built in %.1fs -> %s" % (time.time() - t0, d))
        _gc_builds()
    return sa, ca


def cov_build_harness(name, san=True, extra=(), libs=("server",), cxx=False):
    """replacement of vlib.build.build_harness (same signature, same link line + --coverage)"""
    sa, ca = cov_build_libs(san=san, extra=extra)
    d = os.path.dirname(sa)
    src = os.path.join(VERIF, "harness", name + (".cc" if cxx else ".c"))
    with open(src, "rb") as f:
        stext = f.read()
    comm = b""
    for f in sorted(glob.glob(os.path.join(VERIF, "harness", "common", "*"))):
        with open(f, "rb") as fh:
            comm += fh.read()
    flags = (["-O1", "-g", "-w"] + build.DEFS + build.incs() + (_state["san"] if san else [])
             + list(extra) + COVFLAGS)
    key = build._sha(name, stext, comm, " ".join(flags), build.headers_hash(), ",".join(libs), COVEXIT_C)
    exe = os.path.join(d, "h-%s-%s" % (name, key))
    with build.Lock("covh-" + name):
        if os.path.exists(exe):
            return exe
        obj = os.path.join(d, "harness_%s_%s.o" % (name, key))
        cc = ["g++"] if cxx else ["gcc", "-std=gnu99"]
        cflags = [x for x in flags if not x.startswith("-l")]
        rc, out = build.run(cc + ["-c", src, "-o", obj] + cflags)
        if rc != 0:
            raise RuntimeError("harness compile failed: %s\n%s" % (name, out))
        archives = ([sa] if "server" in libs else []) + ([ca] if "client" in libs else [])
        xsrc, xobj = os.path.join(d, "covexit.c"), os.path.join(d, "covexit.o")
        if not os.path.exists(xobj):
            with open(xsrc, "w") as f:
                f.write(COVEXIT_C)
            rc, out = build.run(["gcc", "-O1", "-c", xsrc, "-o", xobj + ".tmp%d" % os.getpid()])
            if rc != 0:
                raise RuntimeError("covexit compile failed\n" + out)
            os.replace(xobj + ".tmp%d" % os.getpid(), xobj)
        tmp = exe + ".tmp%d" % os.getpid()
        rc, out = build.run(cc[:1] + [obj, xobj, "-o", tmp] + flags + archives + build.LIBS)
        if rc != 0:
            raise RuntimeError("harness link failed: %s\n%s" % (name, out))
        os.replace(tmp, exe)
    return exe


def _gc_builds(keep=6):
    ds = sorted(glob.glob(os.path.join(COV, "_build", "*")), key=os.path.getmtime, reverse=True)
    for d in ds[keep:]:
        shutil.rmtree(d, ignore_errors=True)


# ------------------------------------------------------------------------------------ the run
def run_property(pid, tier, seed, replay=None):
    """-> info dict.  Side effect: .gcda files below COV/<pid>/data"""
    data = os.path.join(COV, pid, "data")
    shutil.rmtree(os.path.join(COV, pid), ignore_errors=True)
    os.makedirs(data, exist_ok=True)
    os.environ["GCOV_PREFIX"] = data
    os.environ.pop("GCOV_PREFIX_STRIP", None)
    build.build_libs = cov_build_libs
    build.build_harness = cov_build_harness
    _state["tags"] = []
    mod = importlib.import_module("vlib.props." + pid.lower())
    ctx = common.Ctx(pid, tier, seed, replay=replay)
    drivers = [ctx.driver(t) for t in getattr(mod, "EXTRA_TARGETS", ())]
    ctx.driver_ok = bool(drivers) and all(os.path.exists(p) for p in drivers)
    info = {"property": pid, "tier": tier, "seed": seed, "driver_ok": ctx.driver_ok,
            "repo": REPO, "repo_head": git(["rev-parse", "HEAD"]).strip(),
            "tree_hash": build.headers_hash(),
            "repo_dirty": bool(git(["status", "--porcelain", "--untracked-files=no"]).strip())}
    t0 = time.time()
    try:
        res = mod.run(ctx)
        fails = res.get("failures", [])
        info.update(evaluations=res.get("evaluations", 0),
                    distinct_nontrivial=res.get("distinct_nontrivial", 0),
                    failures=[{"kind": f.get("kind"), "what": str(f.get("what"))[:200],
                               "finding": f.get("finding")} for f in fails[:10]],
                    n_failures=len(fails),
                    n_failures_known=sum(1 for f in fails if f.get("finding") in
                                         {k["id"] for k in ctx.known if k.get("status") == "known"}))
    except Exception:
        tb = traceback.format_exc()
        sys.stderr.write(tb)
        info.update(exception=tb[-3000:])
    info["run_wall_s"] = round(time.time() - t0, 1)
    info["build_tags"] = list(_state["tags"])
    info["cflags"] = " ".join(COVFLAGS + _state["san"])
    with open(os.path.join(COV, pid, "run.json"), "w") as f:
        json.dump(info, f, indent=1)
    return info


def git(args, repo=None):
    r = subprocess.run(["git", "-C", repo or REPO] + args, stdout=subprocess.PIPE,
                       stderr=subprocess.DEVNULL, text=True)
    return r.stdout


# ------------------------------------------------------------------------------------ gcov
class FileCov:
    """merged gcov records of one source file"""

    def __init__(self, path):
        self.path = path
        self.funcs = {}        # name -> dict(start, end, calls)
        self.lines = {}        # (func, line) -> dict(count, branches=[counts] or None)

    def add(self, jf):
        for fn in jf.get("functions", []):
            d = self.funcs.setdefault(fn["name"], {"start": fn["start_line"], "end": fn["end_line"],
                                                  "calls": 0})
            d["calls"] += fn.get("execution_count", 0)
        for ln in jf.get("lines", []):
            k = (ln.get("function_name") or "", ln["line_number"])
            br = [b["count"] for b in ln.get("branches", []) if not b.get("throw")]
            d = self.lines.get(k)
            if d is None:
                self.lines[k] = {"count": ln["count"], "branches": br}
            else:
                d["count"] += ln["count"]
                if len(d["branches"]) == len(br):
                    d["branches"] = [a + b for a, b in zip(d["branches"], br)]
                elif len(br) > len(d["branches"]) and not any(d["branches"]):
                    d["branches"] = br


def collect(pid):
    """run gcov over every .gcda of the run (+ .gcno of objects never loaded) -> {abs path: FileCov}"""
    data = os.path.join(COV, pid, "data")
    info = json.load(open(os.path.join(COV, pid, "run.json")))
    files = {}
    for tag in info["build_tags"]:
        bdir = os.path.join(COV, "_build", tag)
        ddir = data + bdir
        os.makedirs(ddir, exist_ok=True)
        # objects that were never linked into a running harness have no .gcda: gcov then reports
        # their lines with count 0 from the .gcno alone, which is what we want (never executed)
        for gcno in glob.glob(os.path.join(bdir, "*.gcno")):
            base = os.path.basename(gcno)
            if base.startswith("harness_"):
                continue
            link = os.path.join(ddir, base)
            if not os.path.exists(link):
                os.symlink(gcno, link)
        names = sorted(os.path.basename(x) for x in glob.glob(os.path.join(ddir, "*.gcno")))
        for i in range(0, len(names), 12):
            r = subprocess.run(["gcov", "--json-format", "--stdout", "-b", "-c"] + names[i:i + 12],
                               cwd=ddir, stdout=subprocess.PIPE, stderr=subprocess.PIPE, text=True)
            for doc in r.stdout.splitlines():
                doc = doc.strip()
                if not doc.startswith("{"):
                    continue
                try:
                    j = json.loads(doc)
                except ValueError:
                    continue
                for jf in j.get("files", []):
                    p = os.path.normpath(os.path.join(j.get("current_working_directory", "/"), jf["file"]))
                    if not p.startswith(REPO + "/"):
                        continue
                    files.setdefault(p, FileCov(p)).add(jf)
    return files, info


# ------------------------------------------------------------------------------------ anchors
def base_rev():
    r = git(["rev-list", "--max-parents=0", "HEAD"]).split()
    return r[-1] if r else "HEAD"


def line_mapper(rel, base):
    """old (base snapshot) line number -> line number in the working tree"""
    hunks = []
    for l in git(["diff", "-U0", base, "--", rel]).splitlines():
        m = re.match(r"@@ -(\d+)(?:,(\d+))? \+(\d+)(?:,(\d+))? @@", l)
        if m:
            a, b = int(m.group(1)), int(m.group(2) or 1)
            c, d = int(m.group(3)), int(m.group(4) or 1)
            hunks.append((a, b, c, d))

    def f(old):
        off = 0
        for a, b, c, d in hunks:
            o_end = a + b if b else a + 1       # first old line after the hunk
            n_end = c + d if d else c + 1
            first = a if b else a + 1
            if old < first:
                break
            if b and a <= old < a + b:
                return min(c + (old - a), c + d - 1) if d else c + 1
            off = n_end - o_end
        return old + off
    return f


WHERE = re.compile(r"([\w./\-]+\.(?:c|h))(?::(\d[\d,\-]*))?")


def parse_where(text):
    out = []
    for m in WHERE.finditer(text or ""):
        spans = []
        for part in (m.group(2) or "").strip(",").split(","):
            if not part:
                continue
            ab = part.split("-")
            try:
                a = int(ab[0])
                b = int(ab[1]) if len(ab) > 1 and ab[1] else a
            except ValueError:
                continue
            spans.append((a, b))
        out.append((m.group(1), spans))
    return out


_srccache = {}


def case_block(path, line, fstart, fend):
    """innermost `case`/`default` block of a switch that contains `line` -> (first, last) line"""
    if path not in _srccache:
        try:
            _srccache[path] = open(path, errors="replace").read().split("\n")
        except OSError:
            _srccache[path] = []
    src = _srccache[path]
    lab = re.compile(r"^(\s*)(?:case\b.*|default\s*):")

    def ind(m):
        return len(m.group(1).expandtabs(8))
    first = None
    for n in range(min(line, len(src)), fstart, -1):
        m = lab.match(src[n - 1])
        if m:
            first, indent = n, ind(m)
            break
    if first is None:
        return (max(fstart, line - 15), min(fend, line + 15))
    while first - 1 > fstart and lab.match(src[first - 2]):      # stacked labels
        first -= 1
    last = fend
    for n in range(line + 1, min(fend, len(src)) + 1):
        m = lab.match(src[n - 1])
        if m and ind(m) <= indent:
            last = n - 1
            break
        if re.match(r"^\s*}", src[n - 1]) and len(re.match(r"^(\s*)", src[n - 1]).group(1).expandtabs(8)) < indent:
            last = n - 1           # the switch itself ends
            break
    return (first, last)


def resolve_anchors(prop, files):
    """-> per file: dict(scope='functions'|'file'|'none', funcs={name: why}, spans=[(a,b) mapped])"""
    base = base_rev()
    anc = prop["anchors"]
    res = collections.OrderedDict()
    for rel in anc.get("files", []):
        res[rel] = {"funcs": collections.OrderedDict(), "spans": [], "mech": [], "unresolved": [],
                    "whole": False}
    mappers = {}
    for mech in anc.get("mechanism", []):
        text = "%s %s" % (mech.get("name", ""), mech.get("where", ""))
        span_funcs = set()
        for rel, spans in parse_where(mech.get("where", "")):
            ent = res.setdefault(rel, {"funcs": collections.OrderedDict(), "spans": [], "mech": [],
                                       "unresolved": [], "whole": False})
            ent["mech"].append(mech.get("name", ""))
            fc = files.get(os.path.join(REPO, rel))
            if not spans:
                ent["whole"] = True
                continue
            if rel not in mappers:
                mappers[rel] = line_mapper(rel, base)
            for a, b in spans:
                na, nb = mappers[rel](a), mappers[rel](b)
                if nb < na:
                    nb = na
                old = "%d-%d" % (a, b) if b != a else str(a)
                ent["spans"].append((na, nb, old, mech.get("name", "")))
                if fc is None:
                    continue
                hit = [n for n, d in fc.funcs.items() if d["start"] <= nb and d["end"] >= na]
                if nb - na >= 6:
                    # a span that spills one or two lines into a neighbouring function does not anchor it
                    hit = [n for n in hit
                           if min(nb, fc.funcs[n]["end"]) - max(na, fc.funcs[n]["start"]) + 1 > 2]
                if not hit and a == b:
                    # the anchor names the line of the return type / a comment just above
                    nxt = [(d["start"], n) for n, d in fc.funcs.items() if na < d["start"] <= na + 6]
                    if nxt:
                        s0 = min(nxt)[0]
                        hit = [n for (s, n) in nxt if s == s0]
                if not hit:
                    ent["unresolved"].append(old)
                for n in hit:
                    d = fc.funcs[n]
                    fe = ent["funcs"].setdefault(n, {"why": [], "whole": False, "spans": []})
                    fe["why"].append("%s:%s" % (os.path.basename(rel), old))
                    ext = d["end"] - d["start"] + 1
                    inter = min(nb, d["end"]) - max(na, d["start"]) + 1
                    if a == b and ext > 120 and na > d["start"] + 6:
                        # a point in the interior of a very large function (a message dispatcher):
                        # the anchor means the `case` block (or neighbourhood) around that line
                        fe["spans"].append(case_block(os.path.join(REPO, rel), na, d["start"], d["end"]))
                        span_funcs.add((rel, n))
                    elif a == b or inter >= 0.8 * ext:
                        fe["whole"] = True      # a point anchor, or the span is (nearly) the function
                    else:
                        fe["spans"].append((max(na, d["start"]), min(nb, d["end"])))
                        span_funcs.add((rel, n))
        # function names mentioned in the free text: whole function, unless this very mechanism
        # points at a sub-range of it
        for ident in set(re.findall(r"[A-Za-z_]\w{3,}", text)):
            for rel, ent in res.items():
                fc = files.get(os.path.join(REPO, rel))
                if fc and ident in fc.funcs:
                    fe = ent["funcs"].setdefault(ident, {"why": [], "whole": False, "spans": []})
                    fe["why"].append("named in '%s'" % mech.get("name", "")[:50])
                    if (rel, ident) not in span_funcs:
                        fe["whole"] = True
    for rel, ent in res.items():
        fc = files.get(os.path.join(REPO, rel))
        if fc is None:
            ent["scope"] = "none"
        elif ent["whole"] or (ent["unresolved"] and not ent["funcs"]):
            ent["scope"] = "file"          # e.g. functions generated by a macro: report the whole file
        elif ent["funcs"]:
            ent["scope"] = "functions"
        else:
            ent["scope"] = "listed"        # in anchors.files only: whole-file totals, no detail
    return res, base


# ------------------------------------------------------------------------------------ heuristics
LOGCALL = re.compile(r"\b(rfbLog|rfbErr|rfbLogPerror|rfbClientLog|rfbClientErr|perror|rfbLogEnable)\s*\(|"
                     r"\bfprintf\s*\(\s*stderr")
ALLOC = re.compile(r"\b\w*alloc\w*\s*\(|\bstrdup\s*\(|\bsraRgnCreate\w*\s*\(|\bsraRgnBBox\s*\(|"
                   r"\b\w*(?:Create|New|Make)\w*\s*\(|\bfopen\s*\(|\bopendir\s*\(")
ALLOCASSIGN = re.compile(r"([A-Za-z_][\w>.\-\[\]]*)\s*=\s*(?:\([^()]*\)\s*)?"
                         r"(?:\w*alloc\w*|strdup|sraRgnCreate\w*|sraRgnBBox|fopen|opendir|\w+(?:Create|New)\w*)\s*\(")
IOCTL = re.compile(r"\b(?:rfbSendUpdateBuf|rfbWriteExact|rfbReadExact\w*|ReadFromRFBServer|WriteToRFBServer|"
                   r"httpWriteExact|rfbSend\w+|rfbPushClientStream|SendCompressedData|CompressData)\s*\(")
ENDIAN = re.compile(r"Swap(?:16|24|32|64)If(?:LE|BE)|rfbEndianTest|rfbClientSwap\d+IfLE")
WINCOND = re.compile(r"WIN32|_WIN64|__MINGW|_MSC_VER|WINVER|__CYGWIN")


def strip_comments_c(lines):
    """remove /* */ and // comments from a list of source lines (keeps line structure)"""
    out, inc = [], False
    for l in lines:
        s, i = "", 0
        while i < len(l):
            if inc:
                j = l.find("*/", i)
                if j < 0:
                    i = len(l)
                else:
                    inc, i = False, j + 2
            elif l.startswith("/*", i):
                inc, i = True, i + 2
            elif l.startswith("//", i):
                break
            else:
                s += l[i]
                i += 1
        out.append(s)
    return out


def remove_calls(text, rx):
    """delete every statement `name(...) ;` whose callee matches rx (paren matching)"""
    while True:
        m = rx.search(text)
        if not m:
            return text
        i = text.find("(", m.start())
        depth, j = 0, i
        while j < len(text):
            if text[j] == "(":
                depth += 1
            elif text[j] == ")":
                depth -= 1
                if depth == 0:
                    break
            elif text[j] == '"':
                j += 1
                while j < len(text) and text[j] != '"':
                    j += 2 if text[j] == "\\" else 1
            j += 1
        k = j + 1
        while k < len(text) and text[k] in " \t\n":
            k += 1
        if k < len(text) and text[k] == ";":
            k += 1
        text = text[:m.start()] + text[k:]


def classify(src, a, b, executed_before):
    """tags for the never-executed range [a,b] (1-based, inclusive) of source `src`"""
    tags = []
    body = "\n".join(strip_comments_c(src[a - 1:b]))
    rest = remove_calls(body, LOGCALL)
    rest_nolog = re.sub(r"[{}\s;]|\belse\b", "", rest)
    if LOGCALL.search(body) and rest_nolog == "":
        tags.append("log-only")
    # allocation-failure branch: a variable assigned from an allocating call within the few lines
    # before (or inside the condition itself) is tested for NULL by the `if` that guards the range
    first = strip_comments_c(src[a - 1:a])[0]
    head = [first] if re.match(r"\s*(?:}\s*else\s+)?if\b", first) else []
    pre = "\n".join(strip_comments_c(src[max(0, a - 9):a - 1]) + head)
    ctl = "\n".join(strip_comments_c(src[max(0, a - 4):a - 1]) + head)
    for m in ALLOCASSIGN.finditer(pre):
        v = re.escape(m.group(1))
        if re.search(r"if\s*\(\s*(?:!\s*%s\s*\)|%s\s*==\s*(?:NULL|0)\s*\)|NULL\s*==\s*%s\s*\))" % (v, v, v), ctl) \
                or re.search(r"if\s*\(\s*(?:!\s*)?\(\s*%s\s*=[^=]" % v, ctl):
            tags.append("alloc-fail")
            break
    # propagation of a failed read/write/send: the range only returns / jumps / frees, and the `if`
    # that guards it tests the result of an I/O helper
    ioctl = "\n".join(strip_comments_c(src[max(0, a - 4):a]))
    only_exit = re.sub(r"\b(?:return\b[^;]*|goto\s+\w+|break|continue)\s*;|\bfree\s*\([^;]*\)\s*;|"
                       r"\bsraRgn(?:Destroy|ReleaseIterator)\s*\([^;]*\)\s*;|\b(?:UN)?LOCK\s*\([^;]*\)\s*;|"
                       r"[{}\s]|\belse\b", "", rest)
    if only_exit == "" and IOCTL.search(ioctl):
        tags.append("io-fail")
    if "log-only" not in tags and re.search(r"\breturn\b|\bgoto\b|rfbCloseClient|\bbreak\b", rest) \
            and LOGCALL.search(body) and len(re.sub(r"\s", "", rest)) < 160:
        tags.append("err-path")
    return tags


_active = {}


def active_lines():
    """{abs source path: set of line numbers that survive the preprocessor} for every file that
    the compiled library sources include (plain `gcc -E` with the build's -D/-I flags)"""
    if _active:
        return _active
    from concurrent.futures import ThreadPoolExecutor
    flags = ["-w"] + build.DEFS + build.incs()
    srcs = list(dict.fromkeys(build.SERVER_SRCS + build.CLIENT_SRCS))

    def one(srcrel):
        r = subprocess.run(["gcc", "-std=gnu90", "-E", os.path.join(REPO, srcrel)] + flags,
                           stdout=subprocess.PIPE, stderr=subprocess.DEVNULL, text=True, errors="replace")
        res, cur, ln = {}, None, 0
        for l in r.stdout.split("\n"):
            m = re.match(r'# (\d+) "([^"]*)"', l)
            if m:
                ln, cur = int(m.group(1)), m.group(2)
                continue
            if cur and cur.startswith(REPO + "/") and l.strip():
                res.setdefault(cur, set()).add(ln)
            ln += 1
        return res
    with ThreadPoolExecutor(max_workers=8) as ex:
        for res in ex.map(one, srcs):
            for k, v in res.items():
                _active.setdefault(os.path.normpath(k), set()).update(v)
    return _active


def inactive_regions(src, start, end, exec_lines, act=None):
    """preprocessor-conditional regions inside [start,end] in which no line was compiled"""
    out, stack = [], []     # stack of [cond text, region start line]
    for n in range(start, end + 1):
        l = src[n - 1].strip() if n - 1 < len(src) else ""
        m = re.match(r"#\s*(if|ifdef|ifndef|elif|else|endif)\b(.*)", l)
        if not m:
            continue
        kw, cond = m.group(1), m.group(2).strip()
        if kw in ("if", "ifdef", "ifndef"):
            stack.append([("!" if kw == "ifndef" else "") + cond, n, cond])
        elif kw in ("elif", "else") and stack:
            c, s, first = stack[-1]
            out.append((s + 1, n - 1, c))
            stack[-1] = [("else of " + first) if kw == "else" else cond, n, first]
        elif kw == "endif" and stack:
            c, s, first = stack.pop()
            out.append((s + 1, n - 1, c))
    res = []
    for a, b, c in out:
        if b < a:
            continue
        code = [x for x in strip_comments_c(src[a - 1:b]) if x.strip() and not x.strip().startswith("#")]
        if not code:
            continue
        if any(a <= x <= b for x in exec_lines):
            continue
        if act is not None and any(a <= x <= b for x in act):
            continue            # declarations / case labels: compiled, just no executable line
        tags = ["not-compiled"] + (["win32"] if WINCOND.search(c) else [])
        res.append({"range": [a, b], "cond": c, "tags": tags})
    return res


# ------------------------------------------------------------------------------------ analysis
def ranges_of(lines_sorted_uncovered, exec_lines_sorted):
    """group uncovered executable lines into ranges; a covered executable line ends a range"""
    if not lines_sorted_uncovered:
        return []
    unc = set(lines_sorted_uncovered)
    out, cur = [], None
    for n in exec_lines_sorted:
        if n in unc:
            if cur is None:
                cur = [n, n]
            else:
                cur[1] = n
        elif cur is not None:
            out.append(cur)
            cur = None
    if cur is not None:
        out.append(cur)
    return out


def analyse_function_group(fc, names, src, spans, scope=None):
    """names: gcov functions sharing one source range (template instances) -> report dict.
    scope: None = the whole function is anchored, else list of (a,b) line spans of the current tree"""
    f0 = fc.funcs[names[0]]
    start, end = f0["start"], f0["end"]
    per_line = {}        # line -> [count, branches merged]
    for (fn, ln), d in fc.lines.items():
        if fn not in names:
            continue
        e = per_line.get(ln)
        if e is None:
            per_line[ln] = [d["count"], list(d["branches"])]
        else:
            e[0] += d["count"]
            if len(e[1]) == len(d["branches"]):
                e[1] = [x + y for x, y in zip(e[1], d["branches"])]
            elif not e[1]:
                e[1] = list(d["branches"])
    exec_lines = sorted(per_line)
    hit = [n for n in exec_lines if per_line[n][0] > 0]
    unc = [n for n in exec_lines if per_line[n][0] == 0]
    calls = sum(fc.funcs[n]["calls"] for n in names)
    btot = sum(len(per_line[n][1]) for n in exec_lines)
    btaken = sum(1 for n in exec_lines for c in per_line[n][1] if c > 0)
    rep = {"names": names, "start": start, "end": end, "calls": calls,
           "lines_total": len(exec_lines), "lines_hit": len(hit),
           "branches_total": btot, "branches_taken": btaken,
           "instances_called": [n for n in names if fc.funcs[n]["calls"] > 0],
           "instances_never_called": [n for n in names if fc.funcs[n]["calls"] == 0],
           "uncovered": [], "partial_branches": [], "not_compiled": []}

    def insc(n):
        return scope is None or any(a <= n <= b for (a, b) in scope)
    sl = [n for n in exec_lines if insc(n)]
    rep["scope"] = "function" if scope is None else [list(x) for x in scope]
    rep["scope_lines_total"] = len(sl)
    rep["scope_lines_hit"] = sum(1 for n in sl if per_line[n][0] > 0)
    rep["scope_branches_total"] = sum(len(per_line[n][1]) for n in sl)
    rep["scope_branches_taken"] = sum(1 for n in sl for c in per_line[n][1] if c > 0)
    if calls > 0:
        for a, b in ranges_of(unc, exec_lines):
            tags = classify(src, a, b, None) if src else []
            inanchor = any(sa <= b and sb >= a for (sa, sb, _, _) in spans)
            rep["uncovered"].append({"range": [a, b], "tags": tags, "in_anchor_span": inanchor,
                                     "in_scope": any(insc(n) for n in unc if a <= n <= b),
                                     "exec_lines": sum(1 for n in unc if a <= n <= b),
                                     "text": [x.rstrip().expandtabs(8) for x in src[a - 1:min(b, a + 39)]]
                                     if src else []})
        for n in exec_lines:
            c, br = per_line[n]
            if c > 0 and br and any(x == 0 for x in br):
                text = src[n - 1] if src and n - 1 < len(src) else ""
                rep["partial_branches"].append({"line": n, "taken": sum(1 for x in br if x > 0),
                                                "total": len(br), "counts": br, "in_scope": insc(n),
                                                "text": text.strip()[:160],
                                                "endian_macro": bool(ENDIAN.search(text))})
    if src:
        rep["not_compiled"] = inactive_regions(src, start, end, exec_lines, active_lines().get(fc.path))
    return rep


def analyse(pid, files, info, prop):
    anchors, base = resolve_anchors(prop, files)
    result = {"property": pid, "title": prop.get("title", ""), "run": info, "anchor_base_rev": base,
              "files": collections.OrderedDict(), "generated": time.strftime("%Y-%m-%d %H:%M:%S")}
    for rel, ent in anchors.items():
        fc = files.get(os.path.join(REPO, rel))
        fj = {"scope": ent["scope"], "mechanisms": sorted(set(ent["mech"])),
              "anchor_spans_current_tree": [[a, b, old] for (a, b, old, _) in ent["spans"]],
              "unresolved_spans": ent["unresolved"]}
        result["files"][rel] = fj
        if fc is None:
            fj["note"] = ("not compiled into the libraries under test in this configuration "
                          "(header without code, unused alternative implementation, or absent)")
            continue
        try:
            src = open(os.path.join(REPO, rel), errors="replace").read().split("\n")
        except OSError:
            src = None
        # whole-file totals (source-line level: a line counts once, hit if any instance ran it)
        allnames = list(fc.funcs)
        wl = collections.defaultdict(int)
        wb_tot = wb_tak = 0
        for (fn, ln), d in fc.lines.items():
            wl[ln] += d["count"]
        # group template instances
        groups = collections.OrderedDict()
        for n in sorted(allnames, key=lambda n: (fc.funcs[n]["start"], n)):
            groups.setdefault((fc.funcs[n]["start"], fc.funcs[n]["end"]), []).append(n)
        greps = {}
        for key, names in groups.items():
            fes = [ent["funcs"][n] for n in names if n in ent["funcs"]]
            scope = None
            if fes and ent["scope"] == "functions" and not any(fe["whole"] for fe in fes):
                scope = sorted(set(sp for fe in fes for sp in fe["spans"]))
            greps[key] = analyse_function_group(fc, names, src, ent["spans"], scope)
            wb_tot += greps[key]["branches_total"]
            wb_tak += greps[key]["branches_taken"]
        fj["whole_file"] = {"lines_total": len(wl), "lines_hit": sum(1 for v in wl.values() if v > 0),
                            "branches_total": wb_tot, "branches_taken": wb_tak,
                            "functions_total": len(groups),
                            "functions_called": sum(1 for g in greps.values() if g["calls"] > 0)}
        if ent["scope"] == "file":
            sel = list(groups)
        elif ent["scope"] == "functions":
            sel = [k for k, names in groups.items() if any(n in ent["funcs"] for n in names)]
        else:
            sel = []
        fj["anchored_functions"] = []
        for k in sel:
            g = greps[k]
            why = [w for n in g["names"] if n in ent["funcs"] for w in ent["funcs"][n]["why"]]
            g["why"] = "; ".join(dict.fromkeys(why)) or "whole file anchored"
            fj["anchored_functions"].append(g)
        scope_groups = [greps[k] for k in sel] if sel else list(greps.values())
        fj["lines_total"] = sum(g["scope_lines_total"] for g in scope_groups)
        fj["lines_hit"] = sum(g["scope_lines_hit"] for g in scope_groups)
        fj["branches_total"] = sum(g["scope_branches_total"] for g in scope_groups)
        fj["branches_taken"] = sum(g["scope_branches_taken"] for g in scope_groups)
        fj["uncovered_functions"] = [label(g) for g in scope_groups if g["calls"] == 0]
        fj["uncovered_line_ranges"] = [u["range"] for g in scope_groups if g["calls"] > 0
                                       for u in g["uncovered"] if u["in_scope"]]
        fj["uncovered_line_ranges_interesting"] = [
            u["range"] for g in scope_groups if g["calls"] > 0 for u in g["uncovered"]
            if u["in_scope"] and not ({"log-only", "alloc-fail"} & set(u["tags"]))]
        if not sel:
            # listed-only file: keep the JSON small
            fj["other_functions"] = [{"name": label(g), "lines_hit": g["lines_hit"],
                                      "lines_total": g["lines_total"], "calls": g["calls"]}
                                     for g in greps.values()]
        else:
            fj["other_functions"] = [{"name": label(greps[k]), "lines_hit": greps[k]["lines_hit"],
                                      "lines_total": greps[k]["lines_total"], "calls": greps[k]["calls"]}
                                     for k in groups if k not in sel]
    # totals over anchored scope
    tot = {"lines_total": 0, "lines_hit": 0, "branches_total": 0, "branches_taken": 0,
           "functions": 0, "functions_never_called": 0}
    for rel, fj in result["files"].items():
        if fj.get("anchored_functions"):
            for k in ("lines_total", "lines_hit", "branches_total", "branches_taken"):
                tot[k] += fj[k]
            tot["functions"] += len(fj["anchored_functions"])
            tot["functions_never_called"] += sum(1 for g in fj["anchored_functions"] if g["calls"] == 0)
    result["anchored_total"] = tot
    return result


def label(g):
    ns = g["names"]
    if len(ns) == 1:
        return ns[0]
    pre = os.path.commonprefix(ns)
    return "%s{%s}" % (pre, ",".join(n[len(pre):] for n in ns))


def pct(a, b):
    return "%5.1f%%" % (100.0 * a / b) if b else "   n/a"


# ------------------------------------------------------------------------------------ text report
def write_text(result, path, maxsrc=14):
    pid = result["property"]
    run = result["run"]
    o = []
    w = o.append
    w("Coverage of the anchored code by `./check %s --tier %s` (seed %s)" % (pid, run.get("tier"), run.get("seed")))
    w("%s — %s" % (pid, result.get("title", "")))
    w("generated %s by tools/coverage.py; repo %s @ %s%s; anchors' line numbers mapped from base %s"
      % (result["generated"], run.get("repo"), (run.get("repo_head") or "")[:10],
         " (dirty)" if run.get("repo_dirty") else "", result["anchor_base_rev"][:10]))
    w("run: evaluations=%s failures=%s driver_ok=%s wall=%ss flags=%s"
      % (run.get("evaluations"), run.get("n_failures"), run.get("driver_ok"), run.get("run_wall_s"),
         run.get("cflags")))
    if run.get("exception"):
        w("!! the property module raised an exception; coverage is that of the part that ran:")
        w("   " + run["exception"].strip().splitlines()[-1])
    if run.get("n_failures"):
        w("run() reported %d failure(s), %s of them tagged as known findings (known_findings.json); first ones:"
          % (run["n_failures"], run.get("n_failures_known", "?")))
    for f in (run.get("failures") or [])[:6]:
        w("   - %s: %s [%s]" % (f.get("kind"), (f.get("what") or "")[:110], f.get("finding") or "untagged"))
    t = result["anchored_total"]
    w("")
    w("ANCHORED FUNCTIONS TOTAL: lines %d/%d (%s)  branches %d/%d (%s)  functions %d, never called %d"
      % (t["lines_hit"], t["lines_total"], pct(t["lines_hit"], t["lines_total"]).strip(),
         t["branches_taken"], t["branches_total"], pct(t["branches_taken"], t["branches_total"]).strip(),
         t["functions"], t["functions_never_called"]))
    w("legend: [log-only] only logging in the range   [alloc-fail] allocation/creation-failure branch")
    w("        [err-path] log + return/close (informational)   [not-compiled]/[win32] inactive #if branch")
    w("        [io-fail] only propagates a failed read/write/send helper (informational)")
    w("        '*' = range overlaps a line span literally named by the anchor;  '>' marks never-executed lines")
    w("")
    w("%-58s %-7s %15s %15s" % ("file", "scope", "lines", "branches"))
    for rel, fj in result["files"].items():
        if "lines_total" not in fj:
            w("%-58s %-7s %s" % (rel, fj["scope"], "(no code compiled from this file)"))
            continue
        w("%-58s %-7s %6d/%-5d %s %5d/%-5d %s"
          % (rel, fj["scope"], fj["lines_hit"], fj["lines_total"], pct(fj["lines_hit"], fj["lines_total"]),
             fj["branches_taken"], fj["branches_total"], pct(fj["branches_taken"], fj["branches_total"])))
    for rel, fj in result["files"].items():
        if not fj.get("anchored_functions"):
            continue
        try:
            src = open(os.path.join(REPO, rel), errors="replace").read().split("\n")
        except OSError:
            src = []
        w("")
        w("=" * 100)
        w("%s   (scope: %s)" % (rel, "whole file" if fj["scope"] == "file" else "anchored functions"))
        for m in fj["mechanisms"]:
            w("   mechanism: " + m)
        if fj["anchor_spans_current_tree"]:
            w("   anchor spans (current tree <- base): "
              + ", ".join("%d-%d<-%s" % (a, b, old) for a, b, old in fj["anchor_spans_current_tree"]))
        if fj["unresolved_spans"]:
            w("   spans not inside any compiled function (macro-generated code?): " + ", ".join(fj["unresolved_spans"]))
        w("=" * 100)
        never = [g for g in fj["anchored_functions"] if g["calls"] == 0]
        for g in fj["anchored_functions"]:
            w("")
            w("-- %s  %s:%d-%d  [%s]" % (label(g), rel, g["start"], g["end"], g["why"]))
            if g["calls"] == 0:
                w("   NEVER CALLED by the check (%d executable lines, %d branches)"
                  % (g["lines_total"], g["branches_total"]))
                continue
            if g["scope"] != "function":
                w("   ANCHORED SPAN(S) %s: lines %d/%d (%s)  branches %d/%d (%s)"
                  % (", ".join("%d-%d" % tuple(x) for x in g["scope"]), g["scope_lines_hit"],
                     g["scope_lines_total"], pct(g["scope_lines_hit"], g["scope_lines_total"]).strip(),
                     g["scope_branches_taken"], g["scope_branches_total"],
                     pct(g["scope_branches_taken"], g["scope_branches_total"]).strip()))
            w("   %scalls=%d  lines %d/%d (%s)  branches %d/%d (%s)"
              % ("whole function: " if g["scope"] != "function" else "",
                 g["calls"], g["lines_hit"], g["lines_total"], pct(g["lines_hit"], g["lines_total"]).strip(),
                 g["branches_taken"], g["branches_total"], pct(g["branches_taken"], g["branches_total"]).strip()))
            if len(g["names"]) > 1 and g["instances_never_called"]:
                w("   template instances never called: " + ", ".join(g["instances_never_called"]))
            outside = [u for u in g["uncovered"] if not u["in_scope"]]
            for u in [u for u in g["uncovered"] if u["in_scope"]] + outside:
                a, b = u["range"]
                if outside and u is outside[0]:
                    w("   -- outside the anchored span(s), same function (first lines only):")
                w("   %s never executed %d-%d (%d exec lines) %s"
                  % ("*" if u["in_anchor_span"] else " ", a, b, u["exec_lines"],
                     " ".join("[%s]" % x for x in u["tags"])))
                if "log-only" in u["tags"] and b - a > 3:
                    lines = list(range(a, a + 2))
                else:
                    lines = list(range(a, b + 1))
                shown = 0
                lim = maxsrc if u["in_scope"] else 2
                for n in lines:
                    if shown >= lim:
                        w("        ... (%d more lines)" % (b - n + 1))
                        break
                    if n - a < len(u["text"]):
                        w("      > %5d: %s" % (n, u["text"][n - a]))
                        shown += 1
            pb = [p for p in g["partial_branches"] if not p.get("endian_macro") and p["in_scope"]]
            nend = sum(1 for p in g["partial_branches"] if p.get("endian_macro") and p["in_scope"])
            if nend:
                w("   (%d executed lines whose only untaken branch is the big-endian arm of a Swap..IfLE macro: omitted)" % nend)
            if pb:
                w("   executed lines with a branch outcome never taken (%d):" % len(pb))
                for p in pb[:60]:
                    n = p["line"]
                    w("        %5d: %-78s  [%d/%d: %s]"
                      % (n, p.get("text", "")[:78], p["taken"], p["total"],
                         ",".join("x" if c == 0 else "+" for c in p["counts"])))
                if len(pb) > 60:
                    w("        ... (%d more)" % (len(pb) - 60))
            for r in g["not_compiled"]:
                a, b = r["range"]
                w("   [%s] %d-%d under `#if %s`" % ("][".join(r["tags"]), a, b, r["cond"]))
        if fj.get("other_functions"):
            oth = fj["other_functions"]
            w("")
            w("   other functions of %s (not anchored): %d, of which never called: %d"
              % (rel, len(oth), sum(1 for x in oth if x["calls"] == 0)))
    # listed-only files
    lst = [(rel, fj) for rel, fj in result["files"].items() if fj["scope"] == "listed" and "whole_file" in fj]
    if lst:
        w("")
        w("=" * 100)
        w("files listed in anchors.files without a mechanism line (whole-file totals only)")
        w("=" * 100)
        for rel, fj in lst:
            wf = fj["whole_file"]
            w("%-58s lines %d/%d (%s) functions called %d/%d"
              % (rel, wf["lines_hit"], wf["lines_total"], pct(wf["lines_hit"], wf["lines_total"]).strip(),
                 wf["functions_called"], wf["functions_total"]))
            nc = [x["name"] for x in fj.get("other_functions", []) if x["calls"] == 0]
            if nc:
                w("      never called: " + ", ".join(nc[:40]) + (" ..." if len(nc) > 40 else ""))
    with open(path, "w") as f:
        f.write("\n".join(o) + "\n")


# ------------------------------------------------------------------------------------ summary
def summary_md():
    rows = []
    for p in sorted(glob.glob(os.path.join(OUT, "C*.json"))):
        r = json.load(open(p))
        t = r["anchored_total"]
        rows.append("| %s | %d | %d | %d/%d | %s | %d/%d | %s | %s | %s |"
                    % (r["property"], t["functions"], t["functions_never_called"], t["lines_hit"],
                       t["lines_total"], pct(t["lines_hit"], t["lines_total"]).strip(),
                       t["branches_taken"], t["branches_total"],
                       pct(t["branches_taken"], t["branches_total"]).strip(),
                       r["run"].get("evaluations"),
                       "%s (%s known)" % (r["run"].get("n_failures"), r["run"].get("n_failures_known", "?"))
                       if r["run"].get("n_failures") else "0"))
    print("| property | anchored functions | never called | lines | line % | branches | branch % | evaluations | failures |")
    print("|---|---|---|---|---|---|---|---|---|")
    print("\n".join(rows))


def per_property_md(pid):
    r = json.load(open(os.path.join(OUT, pid + ".json")))
    print("| function (anchored part) | file:lines | calls | lines | line % | branches | branch % |")
    print("|---|---|---|---|---|---|---|")
    for rel, fj in r["files"].items():
        for g in fj.get("anchored_functions", []):
            if g["scope"] == "function":
                where = "%s:%d-%d" % (os.path.basename(rel), g["start"], g["end"])
            else:
                where = "%s:%s (span)" % (os.path.basename(rel), ",".join("%d-%d" % tuple(x) for x in g["scope"]))
            print("| `%s` | %s | %d | %d/%d | %s | %d/%d | %s |"
                  % (label(g), where, g["calls"], g["scope_lines_hit"], g["scope_lines_total"],
                     pct(g["scope_lines_hit"], g["scope_lines_total"]).strip(), g["scope_branches_taken"],
                     g["scope_branches_total"],
                     pct(g["scope_branches_taken"], g["scope_branches_total"]).strip()))


# ------------------------------------------------------------------------------------ main
def load_prop(pid):
    for l in open(os.path.join(VERIF, "properties.jsonl")):
        l = l.strip()
        if l:
            p = json.loads(l)
            if p["id"] == pid:
                return p
    raise SystemExit("unknown property " + pid)


def main():
    ap = argparse.ArgumentParser(description=__doc__, formatter_class=argparse.RawDescriptionHelpFormatter)
    ap.add_argument("props", nargs="*")
    ap.add_argument("--tier", default=os.environ.get("VERIF_TIER", "quick"), choices=["quick", "thorough"])
    ap.add_argument("--seed", type=int, default=int(os.environ.get("VERIF_SEED", "1") or 1))
    ap.add_argument("--replay", default=None)
    ap.add_argument("--report-only", action="store_true", help="do not run; re-analyse the last run's data")
    ap.add_argument("--force", action="store_true", help="--report-only although the tree changed")
    ap.add_argument("--keep-ubsan", action="store_true", help="keep -fsanitize=undefined (inflates branch totals)")
    ap.add_argument("--summary", action="store_true", help="print a markdown table over coverage/*.json")
    ap.add_argument("--table", metavar="Cxx", help="print the markdown per-function table of one report")
    a = ap.parse_args()
    if a.summary:
        return summary_md()
    if a.table:
        return per_property_md(a.table.upper())
    if not a.props:
        ap.error("property id required")
    if a.keep_ubsan:
        _state["san"] = list(build.SAN)
    os.makedirs(OUT, exist_ok=True)
    os.chdir(VERIF)
    rc = 0
    for pid in [p.upper() for p in a.props]:
        prop = load_prop(pid)
        with build.Lock("covrun-" + pid):
            if not a.report_only:
                say("%s: running the correspondence run (tier %s, seed %d) on the instrumented build" % (pid, a.tier, a.seed))
                info = run_property(pid, a.tier, a.seed, a.replay)
                say("%s: run finished in %ss, evaluations=%s failures=%s%s"
                    % (pid, info["run_wall_s"], info.get("evaluations"), info.get("n_failures"),
                       " EXCEPTION" if info.get("exception") else ""))
            files, info = collect(pid)
            if info.get("tree_hash") != build.headers_hash():
                msg = ("%s: the sources of %s changed since the data was recorded (line numbers and source "
                       "text would not match the counters): run again without --report-only" % (pid, REPO))
                if not a.force:
                    raise SystemExit(msg)
                say("WARNING " + msg)
            result = analyse(pid, files, info, prop)
        with open(os.path.join(OUT, pid + ".json"), "w") as f:
            json.dump(result, f, indent=1)
        write_text(result, os.path.join(OUT, pid + ".txt"))
        t = result["anchored_total"]
        print("%s anchored: lines %d/%d (%s) branches %d/%d (%s) functions %d never-called %d -> coverage/%s.txt"
              % (pid, t["lines_hit"], t["lines_total"], pct(t["lines_hit"], t["lines_total"]).strip(),
                 t["branches_taken"], t["branches_total"], pct(t["branches_taken"], t["branches_total"]).strip(),
                 t["functions"], t["functions_never_called"], pid))
        if info.get("exception"):
            rc = 2
    return rc


if __name__ == "__main__":
    sys.exit(main() or 0)
