#!/bin/sh
# usage: tools/seedtest.sh <seed-dir> <Cxx> [confirm]   -- seed-dir has patch.diff, run.sh
# applies the patch in a scratch worktree of /repo HEAD; optionally confirms the demo (passes
# without, fails with); runs the check against the patched tree; cleans up.
D=$(cd "$1" && pwd); P=$2; CONF=$3
WT=/tmp/wt-seed-$$
git -C /repo worktree add -q --detach $WT ${BASE:-HEAD} || exit 2
if [ -n "$CONF" ]; then
  (cd $D && sh run.sh $WT >/tmp/seed-demo-$$.log 2>&1); echo "demo on HEAD: exit $?"
fi
if ! git -C $WT apply $D/patch.diff; then echo "PATCH DOES NOT APPLY"; git -C /repo worktree remove --force $WT; exit 3; fi
if [ -n "$CONF" ]; then
  (cd $D && sh run.sh $WT >/tmp/seed-demo-$$.log 2>&1); echo "demo with patch: exit $?"; tail -3 /tmp/seed-demo-$$.log
  rm -rf $WT/_build
fi
for s in ${SEEDS:-1 2}; do VERIF_REPO=$WT VERIF_SEED=$s ./check $P --tier ${TIER:-quick} | tail -2; done
git -C /repo worktree remove --force $WT; rm -f /tmp/seed-demo-$$.log
