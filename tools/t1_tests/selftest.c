/* Synthetic leaf functions exercising every construct of the T1 subset (tools/c2lean.py).
 * tools/t1_selftest.py translates them, evaluates the generated Lean definitions and the compiled
 * C code on the same inputs and compares the results.  Not part of any property: this tests the
 * translator (part of the trusted base) itself. */
#include <stdint.h>

struct scr { int width; int height; };

int t_sum(int n)
{
    int i, s = 0;
    for (i = 0; i < n; i++)
        s += i * i;
    return s;
}

int t_while(int a, int b)
{
    int q = 0;
    while (a >= b) {
        a -= 3;
        q++;
        if (q > 5) q += 2;
    }
    return q * 100 + a;
}

int t_down(int n, int lo)
{
    int acc = 1;
    int j;
    for (j = n; j > lo; j -= 2) {
        acc = (acc * 3 + j) % 1000;
    }
    return acc + j;
}

int t_nested(int n, int m)
{
    int i, j, c = 0;
    for (i = 0; i < n; i++) {
        for (j = i; j <= m; j++) {
            c += ((i & 7) ^ (j & 3)) | 8;
        }
    }
    return c;
}

int t_div(int a, int b)
{
    if (b == 0) return 0;
    return (a / b) * 1000 + (a % b);
}

unsigned t_unsigned(unsigned a, unsigned b)
{
    unsigned c = a - b;
    c += a * b;
    return (c >> 3) ^ (a | 5u);
}

int t_casts(int v)
{
    uint16_t a = v;
    int8_t b = v;
    uint8_t c = (uint8_t)(v >> 2);
    int64_t w = (int64_t)v * (int64_t)v;
    a += 70000;
    b--;
    c++;
    return (int)(w % 100000) + a + b + c + (int)(uint32_t)((v & 0xffff) << 3);
}

int t_ternary(int a, int b)
{
    int m = a > b ? a : b;
    int z = (a && !b) || (a < 0 && b != 3);
    return m * 2 + z + (a == b);
}

int t_inout(int *x, int *y, int k)
{
    if (*x > *y) { int t = *x; *x = *y; *y = t; }
    *x += k;
    (*y)--;
    if (*x == *y) return -1;
    return *x < *y;
}

int t_caller(int a, int b)
{
    int r;
    r = t_inout(&a, &b, 2);
    if (!t_inout(&b, &a, r)) return a - b;
    return t_div(a, b + 1000000) + t_sum(3);
}

int t_fields(struct scr *s, int x, int w)
{
    if (x < 0) { w += x; x = 0; }
    if (x + w > s->width) w = s->width - x;
    if (w <= 0 || s->height == 0) return 0;
    return w * s->height;
}

int t_fields_caller(struct scr *p, int a)
{
    return t_fields(p, a, 10) + t_fields(p, a + 1, p->width);
}

void t_void(int *a, int b)
{
    if (b < 0) return;
    *a = *a * 2 + b;
}

int t_shift(int v, int k)
{
    int a = (v & 0xfffff) << 4;
    int b = v >> 2;
    unsigned u = (unsigned)v;
    return a + b + (int)((u >> 28) & 15) + ((v & 255) << (k & 7)) + (~v);
}

int t_loop_field(struct scr *s, int n)
{
    int i, a = 0;
    for (i = 1; i <= n; i++) {
        if (i * 7 > s->width) a += s->height; else a -= i;
    }
    return a;
}
