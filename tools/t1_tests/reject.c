/* every function here uses ONE construct outside the T1 subset: tools/t1_selftest.py checks that
 * the translator refuses each of them (c2lean.Unsupported) instead of producing a definition */
#include <stdint.h>
struct scr { int width; int height; };
int g_counter;
extern int ext(int);

int r_array(int *a, int i) { return a[i]; }
int r_global(int x) { return x + g_counter; }
int r_extcall(int x) { return ext(x) + 1; }
int r_field_not_in_table(struct scr *s) { return s->width; }
int r_float(int x) { return (int)(x * 1.5); }
int r_static(int x) { static int n; n += x; return n; }
int r_switch(int x) { switch (x) { case 1: return 2; default: return 3; } }
int r_dowhile(int x) { do { x--; } while (x > 0); return x; }
int r_break(int n) { int i; for (i = 0; i < n; i++) { if (i == 3) break; } return i; }
int r_novariant(int n) { int i = 0; while (i != n) i++; return i; }
int r_cond_step(int n) { int i = 0; while (i < n) { if (n > 3) i++; } return i; }
int r_bound_changes(int n) { int i; for (i = 0; i < n; i++) n--; return i; }
int r_wrong_dir(int n) { int i; for (i = 0; i < n; i--) ; return i; }
int r_uninit(int x) { int y; if (x > 0) y = 1; return y; }
int r_assign_in_expr(int x) { int y; return (y = x) + 1; }
int r_postinc_in_expr(int x) { return x++ + 1; }
int r_comma(int x) { return (x++, x); }
int r_neg_bitand(int a, int b) { return a & b; }
int r_ptr_store(struct scr *s, int v) { s->width = v; return v; }
int r_addr(int x) { int *p = &x; return *p; }
int r_goto(int x) { if (x) goto out; x = 1; out: return x; }
int r_sizeof(int x) { return x + (int)sizeof(struct scr); }
