#!/usr/bin/env python3
"""T1: leaf-function translator  C -> Lean 4   (see docs/T1.md).

Library + CLI.  `translate(Spec(...))` asks clang for the typed AST of ONE function of the current
working tree of the repository (`vlib.build.REPO`, i.e. /repo or $VERIF_REPO) and turns the function
(or a statement range of it) into a Lean 4 definition over `Int`.  Only a deliberately small subset
of C is understood; anything else raises `Unsupported` - a function that can no longer be translated
is a broken proof obligation, never a silent default.

CLI:   c2lean.py <c-file> <function> [--name LeanName] [--table 'screen->width=width' ...]
                 [--before callee | --after callee | --reach callee] [--result a,b,c]
                 [--early none|tuple] [--ret bool|int]

Semantics of the translation (what the generated text means):
  * every C integer object is a Lean `Int` holding its mathematical value;
  * arithmetic on SIGNED types is exact (signed overflow is undefined behaviour in C: the absence
    of overflow is an assumption of every theorem about the generated definition);
  * arithmetic whose C result type is UNSIGNED wraps (`% 2^bits`);
  * conversions (casts, assignment to a narrower / unsigned object) are the two's-complement ones:
    to unsigned N bits `e % 2^N`, to signed N bits `(e + 2^(N-1)) % 2^N - 2^(N-1)`; value-preserving
    conversions are the identity;
  * `/` and `%` are C99 truncating: `Int.tdiv`, `Int.tmod` (division by zero is UB in C and 0 in
    Lean: theorems must carry the guard);
  * `x & (2^k-1)` is `x % 2^k` (exact in two's complement); other `& | ^` are only accepted when
    both operands are syntactically non-negative (unsigned type, literal, masked) and use Nat
    bit operations; `<< k` is `* 2^k`, `>> k` is floor division by `2^k` (arithmetic shift);
  * `rfbBool`-returning functions return a Lean `Bool` (value != 0);
  * `*p` of an `int*`-like parameter is an in/out variable: the definition takes its initial value
    and returns the final value: result = (outs..., return value);
  * struct fields and pointer tests are only allowed when listed in the per-function table
    (C expression key -> Lean parameter), e.g. {"screen->width": "width", "from==to": "same"}.
"""
import json, os, re, subprocess, sys

HERE = os.path.dirname(os.path.abspath(__file__))
sys.path.insert(0, os.path.dirname(HERE))
from vlib import build  # noqa: E402


class Unsupported(Exception):
    pass


# ------------------------------------------------------------------------------------------------
# clang front end
# ------------------------------------------------------------------------------------------------

def _parse_concat_json(s):
    dec = json.JSONDecoder()
    i, out = 0, []
    n = len(s)
    while True:
        while i < n and s[i].isspace():
            i += 1
        if i >= n:
            break
        o, i = dec.raw_decode(s, i)
        out.append(o)
    return out


_ast_cache = {}


def load_function(cfile, fn):
    """typed AST (FunctionDecl with a body) of `fn` in `cfile` (path relative to the repo root)"""
    path = cfile if os.path.isabs(cfile) else os.path.join(build.REPO, cfile)
    key = (path, fn)
    if key in _ast_cache:
        return _ast_cache[key]
    if not os.path.exists(path):
        raise Unsupported("source file %s not found" % path)
    cmd = ["clang", "-fsyntax-only", "-w", "-std=gnu99", "-Xclang", "-ast-dump=json",
           "-Xclang", "-ast-dump-filter=" + fn] + build.DEFS + build.incs() + [path]
    r = subprocess.run(cmd, stdout=subprocess.PIPE, stderr=subprocess.PIPE, text=True)
    if r.returncode != 0:
        raise Unsupported("clang failed on %s:\n%s" % (path, r.stderr[-2000:]))
    cands = []
    for o in _parse_concat_json(r.stdout):
        if o.get("kind") == "FunctionDecl" and o.get("name") == fn and \
           any(c.get("kind") == "CompoundStmt" for c in o.get("inner", [])):
            cands.append(o)
    if len(cands) != 1:
        raise Unsupported("function %s: %d definitions found in %s" % (fn, len(cands), path))
    with open(path, "rb") as f:
        src = f.read()
    _ast_cache[key] = (cands[0], src)
    return _ast_cache[key]


# ------------------------------------------------------------------------------------------------
# C types
# ------------------------------------------------------------------------------------------------

_BASE = {
    "char": (True, 8), "signed char": (True, 8), "unsigned char": (False, 8),
    "short": (True, 16), "unsigned short": (False, 16),
    "int": (True, 32), "unsigned int": (False, 32), "unsigned": (False, 32),
    "long": (True, 64), "unsigned long": (False, 64),
    "long long": (True, 64), "unsigned long long": (False, 64),
    # pointee types are not desugared by clang ("uint16_t *"): the fixed-width names (LP64, as checked
    # by clang itself for every non-pointer use, where desugaredQualType is available)
    "int8_t": (True, 8), "uint8_t": (False, 8), "int16_t": (True, 16), "uint16_t": (False, 16),
    "int32_t": (True, 32), "uint32_t": (False, 32), "int64_t": (True, 64), "uint64_t": (False, 64),
    "rfbBool": (True, 8),
}


def _strip_q(t):
    return re.sub(r"\b(const|volatile|restrict)\b", "", t).strip()


def ctype(node_or_type):
    """-> ('int', signed, bits) | ('ptr', pointee ctype) | ('other', text)"""
    t = node_or_type.get("type", node_or_type) if isinstance(node_or_type, dict) else node_or_type
    if isinstance(t, dict):
        q = t.get("desugaredQualType") or t.get("qualType")
    else:
        q = t
    q = _strip_q(q)
    q = re.sub(r"\s+", " ", q)
    if q in _BASE:
        return ("int",) + _BASE[q]
    if q.endswith("*"):
        return ("ptr", ctype(q[:-1].strip()))
    return ("other", q)


def is_int(t):
    return t[0] == "int"


# ------------------------------------------------------------------------------------------------
# Lean expression strings with precedence
# ------------------------------------------------------------------------------------------------

class E:
    __slots__ = ("s", "p")

    def __init__(self, s, p):
        self.s, self.p = s, p

    def at(self, minp):
        return self.s if self.p >= minp else "(" + self.s + ")"


ATOM, APP, NEG, MUL, ADD, CMP, NOT, AND, OR, LOW = 100, 90, 75, 70, 65, 50, 40, 35, 30, 0

LEAN_KEYWORDS = {"from", "to", "at", "end", "in", "do", "then", "else", "if", "let", "fun", "have",
                 "show", "match", "with", "by", "open", "def", "theorem", "where", "type", "Type",
                 "local", "instance", "class", "structure", "then", "for", "return", "mut", "this",
                 "namespace", "section", "private", "protected", "export", "import", "using",
                 "calc", "macro", "syntax", "deriving", "extends", "abbrev", "example", "variable",
                 "universe", "set_option", "attribute", "unsafe", "partial", "noncomputable", "fuel",
                 "none", "some", "true", "false", "True", "False", "Int", "Nat", "Bool", "decide"}


def lit(v):
    return E(str(v), ATOM) if v >= 0 else E("(%d)" % v, ATOM)


# ------------------------------------------------------------------------------------------------
# helpers on the AST
# ------------------------------------------------------------------------------------------------

def inner(n):
    return n.get("inner", [])


def strip(n):
    """drop parentheses and value-preserving wrappers (NOT integral casts)"""
    while True:
        k = n.get("kind")
        if k == "ParenExpr" or k == "ConstantExpr":
            n = inner(n)[0]
        elif k == "ImplicitCastExpr" and n.get("castKind") in ("LValueToRValue", "NoOp",
                                                                 "FunctionToPointerDecay"):
            n = inner(n)[0]
        else:
            return n


def strip_all_casts(n):
    while True:
        k = n.get("kind")
        if k in ("ParenExpr", "ConstantExpr", "ImplicitCastExpr", "CStyleCastExpr"):
            n = inner(n)[0]
        else:
            return n


def expr_key(n):
    """canonical C text of a (side-effect free) expression: the key of the per-function table"""
    k = n.get("kind")
    if k in ("ParenExpr", "ConstantExpr", "ImplicitCastExpr"):
        if n.get("castKind") == "NullToPointer":
            return "NULL"
        return expr_key(inner(n)[0])
    if k == "CStyleCastExpr":
        if n.get("castKind") == "NullToPointer":
            return "NULL"
        return expr_key(inner(n)[0])
    if k == "DeclRefExpr":
        return n["referencedDecl"]["name"]
    if k == "MemberExpr":
        b = expr_key(inner(n)[0])
        if b is None:
            return None
        return b + ("->" if n.get("isArrow") else ".") + n["name"]
    if k == "IntegerLiteral":
        return n["value"]
    if k == "BinaryOperator":
        a, b = expr_key(inner(n)[0]), expr_key(inner(n)[1])
        if a is None or b is None:
            return None
        return a + n["opcode"] + b
    if k == "UnaryOperator" and not n.get("isPostfix") and n["opcode"] in ("!", "-", "*", "&"):
        a = expr_key(inner(n)[0])
        return None if a is None else n["opcode"] + a
    return None


def _off(loc, end=False):
    if "expansionLoc" in loc:
        loc = loc["expansionLoc"]
    if "offset" not in loc:
        raise Unsupported("AST node without source offset")
    return loc["offset"] + (loc.get("tokLen", 0) if end else 0)


def source_text(n, src):
    r = n["range"]
    return src[_off(r["begin"]):_off(r["end"], True)].decode("utf-8", "replace")


def nows(s):
    return re.sub(r"\s+", "", s)


def walk(n):
    yield n
    for c in inner(n):
        yield from walk(c)


def calls_in(n):
    for m in walk(n):
        if m.get("kind") == "CallExpr":
            cal = strip_all_casts(inner(m)[0])
            if cal.get("kind") == "DeclRefExpr":
                yield cal["referencedDecl"]["name"], m


def contains_kind(n, kinds):
    return any(m.get("kind") in kinds for m in walk(n))


def const_value(n):
    """value of a literal-only integer expression, else None"""
    k = n.get("kind")
    if k in ("ParenExpr", "ConstantExpr"):
        return const_value(inner(n)[0])
    if k == "IntegerLiteral":
        return int(n["value"])
    if k == "CharacterLiteral":
        return int(n["value"])
    if k in ("ImplicitCastExpr", "CStyleCastExpr") and n.get("castKind") in ("IntegralCast", "NoOp"):
        v = const_value(inner(n)[0])
        t = ctype(n)
        if v is None or not is_int(t):
            return None
        return wrap_value(v, t)
    if k == "UnaryOperator" and n["opcode"] == "-":
        v = const_value(inner(n)[0])
        return None if v is None else -v
    if k == "UnaryOperator" and n["opcode"] == "+":
        return const_value(inner(n)[0])
    return None


def wrap_value(v, t):
    _, signed, bits = t
    m = 1 << bits
    v %= m
    if signed and v >= m // 2:
        v -= m
    return v


CMP_OPS = {"<": "<", ">": ">", "<=": "≤", ">=": "≥", "==": "=", "!=": "≠"}


def boolean_valued(n):
    n = strip(n)
    k = n.get("kind")
    if k == "BinaryOperator" and (n["opcode"] in CMP_OPS or n["opcode"] in ("&&", "||")):
        return True
    if k == "UnaryOperator" and n["opcode"] == "!":
        return True
    return False


# ------------------------------------------------------------------------------------------------
# specification of one translation unit
# ------------------------------------------------------------------------------------------------

class Spec:
    """what to translate.

    file, func   C source (relative to the repo root) and function name
    name         Lean name of the generated definition
    table        {C expression key: Lean parameter}; integer-typed keys become `Int` parameters,
                 comparisons (pointer tests) `Bool` parameters; a value of the form "=<lean term>"
                 substitutes a fixed term instead of a parameter (an ASSUMPTION, shown in the text)
    block        path to the compound statement to work on (default: the function body):
                 list of ("if", "<source text of the condition>") -> then-branch,
                 ("else", "<cond>") -> else-branch, ("for", k) / ("while", k) -> body of the k-th loop
    after/before callee names: the range starts after / ends before the (unique) top-level statement
                 of the block that contains a call of that function
    result       names of the variables whose final values are the result (default: the integer
                 pointer parameters, or the scalar arguments of the `before` marker call)
    early        'tuple': `return e;` yields (outs..., e)   'none': result type is Option, every
                 `return` inside the range yields `none`, reaching the end yields `some (...)`
    reach        callee name: "with which integer arguments is this function called, if at all":
                 result type Option; the (first reached) call of `reach` yields `some (integer
                 arguments)`, every path that returns or reaches the end of the range without the
                 call yields `none`.  The call may sit inside (nested) if-branches.
    table values "name" (Int parameter, or Bool for a comparison key), "name:Bool" (an integer
                 flag only ever tested for zero / non-zero becomes a Bool parameter),
                 "=<term>" (assumption).
    ret          'bool' | 'int' | None (auto: rfbBool -> bool)
    """

    def __init__(self, file, func, name=None, table=None, block=None, after=None, before=None,
                 result=None, early="tuple", ret=None, doc=None, reach=None):
        self.file, self.func, self.name = file, func, name or func
        self.table, self.table_kind = {}, {}
        for k, v in (table or {}).items():
            if v.endswith(":Bool"):
                v = v[:-5]
                self.table_kind[nows(k)] = "bool"
            self.table[nows(k)] = v
        self.block, self.after, self.before = list(block or []), after, before
        self.result, self.early, self.ret, self.doc = result, early, ret, doc
        self.reach = reach
        if reach:
            self.early = "none"


class Sig:
    """signature of a generated definition (used for calls from later translations)"""

    def __init__(self):
        self.lean_name = None
        self.params = []      # [("val", cparam index) | ("deref", cparam index) | ("table", key, kind)]
        self.outs = []        # cparam indices of in/out parameters, in result order
        self.ret = None       # 'bool' | 'int' | None
        self.whole = True


SIGS = {}   # C function name -> Sig   (whole functions translated so far, callable from later ones)


# ------------------------------------------------------------------------------------------------
# the translator
# ------------------------------------------------------------------------------------------------

UNDEF = object()


class Ctx:
    def __init__(self, spec, fdecl, src):
        self.spec, self.fdecl, self.src = spec, fdecl, src
        self.used_names = set(LEAN_KEYWORDS)
        self.decls = {}        # var key -> dict(name=, ctype=, order=)
        self.inputs = {}       # var key -> lean parameter name (free variables of the range)
        self.table_used = []
        self.aux = []          # auxiliary (loop) definitions, Lean text
        self.nloops = 0
        self.loop_depth = 0
        self.lazy_inputs = True
        self.table_params = {}  # key -> (lean name, kind)
        self.table_hits = {}
        self.assumptions = []

    def fresh(self, base):
        base = re.sub(r"[^A-Za-z0-9_]", "_", base)
        if base not in self.used_names:
            self.used_names.add(base)
            return base
        i = 1
        while "%s_%d" % (base, i) in self.used_names:
            i += 1
        nm = "%s_%d" % (base, i)
        self.used_names.add(nm)
        return nm


class Env:
    """variable key -> Lean term (string) | UNDEF; missing = not yet touched (an input)"""

    def __init__(self, ctx, d=None, inputs_ok=True):
        self.ctx, self.d, self.inputs_ok = ctx, dict(d or {}), inputs_ok

    def copy(self):
        return Env(self.ctx, self.d, self.inputs_ok)

    def get(self, key):
        if key in self.d:
            v = self.d[key]
            if v is UNDEF:
                raise Unsupported("read of possibly uninitialised variable '%s'"
                                  % self.ctx.decls[key]["name"])
            return v
        # first read of a variable that the range did not write: it is an input of the definition
        if key not in self.ctx.decls:
            raise Unsupported("reference to an undeclared object %r" % (key,))
        if key not in self.ctx.inputs:
            if not self.inputs_ok:
                raise Unsupported("internal: late input")
            self.ctx.inputs[key] = self.ctx.fresh(self.ctx.decls[key]["name"])
        return self.ctx.inputs[key]

    def set(self, key, term):
        self.d[key] = term


class Translator:
    def __init__(self, spec):
        self.spec = spec
        fdecl, src = load_function(spec.file, spec.func)
        self.fdecl, self.src = fdecl, src
        self.ctx = Ctx(spec, fdecl, src)
        self.cparams = [c for c in inner(fdecl) if c.get("kind") == "ParmVarDecl"]
        self.body = [c for c in inner(fdecl) if c.get("kind") == "CompoundStmt"][0]
        self.ret_ctype = ctype(re.sub(r"\(.*$", "", fdecl["type"]["qualType"]).strip())
        rq = fdecl["type"]["qualType"].split("(")[0].strip()
        self.ret_kind = spec.ret
        if self.ret_kind is None:
            if rq == "void":
                self.ret_kind = None
            elif rq == "rfbBool":
                self.ret_kind = "bool"
            elif is_int(self.ret_ctype):
                self.ret_kind = "int"
            elif spec.early == "none":
                self.ret_kind = None       # every `return` of the range yields `none` anyway
            else:
                raise Unsupported("return type '%s' is outside the subset" % rq)
        self.ret_cname = rq
        # reserve the Lean names of the table parameters first (stable signature)
        for key, val in spec.table.items():
            if val.startswith("="):
                self.ctx.assumptions.append("%s := %s" % (key, val[1:]))
                continue
            self.ctx.used_names.add(val)
        # declare the C parameters
        order = 0
        for i, p in enumerate(self.cparams):
            t = ctype(p)
            if is_int(t):
                self.ctx.decls[("var", p["id"])] = dict(name=p.get("name", "arg%d" % i), ctype=t,
                                                        order=order, cparam=i, kind="val")
            elif t[0] == "ptr" and is_int(t[1]):
                self.ctx.decls[("deref", p["id"])] = dict(name=p.get("name", "arg%d" % i),
                                                          ctype=t[1], order=order, cparam=i,
                                                          kind="deref")
            order += 1
        self.order = order

    # -------------------------------------------------------------------------------- lvalues
    def lvalue_key(self, n):
        n0 = n
        while n.get("kind") == "ParenExpr":
            n = inner(n)[0]
        k = n.get("kind")
        if k == "DeclRefExpr":
            key = ("var", n["referencedDecl"]["id"])
            if key in self.ctx.decls:
                return key
            raise Unsupported("assignment to '%s' (not an integer local/parameter)"
                              % n["referencedDecl"].get("name"))
        if k == "UnaryOperator" and n["opcode"] == "*":
            m = strip(inner(n)[0])
            if m.get("kind") == "DeclRefExpr":
                key = ("deref", m["referencedDecl"]["id"])
                if key in self.ctx.decls:
                    return key
        raise Unsupported("store through '%s' is outside the subset (only integer locals, "
                          "parameters and *p of integer-pointer parameters)"
                          % nows(source_text(n0, self.src)))

    # -------------------------------------------------------------------------------- table
    def table_lookup(self, n):
        """-> ('int'|'bool', E) when the expression is abstracted by the per-function table"""
        if n.get("kind") in ("IntegerLiteral", "DeclRefExpr") and \
           ("var", n.get("referencedDecl", {}).get("id")) in self.ctx.decls:
            return None
        key = expr_key(n)
        if key is None or key not in self.spec.table:
            return None
        val = self.spec.table[key]
        m = strip_all_casts(n)
        kind = "bool" if (m.get("kind") == "BinaryOperator" and m["opcode"] in CMP_OPS) else "int"
        if self.spec.table_kind.get(key) == "bool":
            kind = "flag"
        if val.startswith("="):
            return kind, E(val[1:], ATOM if re.fullmatch(r"[\w.]+", val[1:]) else LOW)
        if key not in self.ctx.table_used:
            self.ctx.table_used.append(key)
        self.ctx.table_hits[key] = self.ctx.table_hits.get(key, 0) + 1
        self.ctx.table_params[key] = (val, kind)
        return kind, E(val, ATOM)

    # -------------------------------------------------------------------------------- conversions
    def conv(self, e, src_t, dst_t, node=None):
        """C integer conversion of the VALUE e from src_t to dst_t"""
        if not (is_int(src_t) and is_int(dst_t)):
            raise Unsupported("conversion between non-integer types")
        _, ss, sb = src_t
        _, ds, db = dst_t
        if node is not None:
            cv = const_value(node)
            if cv is not None and wrap_value(cv, dst_t) == cv:
                return e
            if boolean_valued(node):
                return e
        if ds:
            if (ss and sb <= db) or ((not ss) and sb < db):
                return e
            h = 1 << (db - 1)
            return E("(%s + %d) %% %d - %d" % (e.at(ADD), h, 1 << db, h), ADD)
        else:
            if (not ss) and sb <= db:
                return e
            return E("%s %% %d" % (e.at(MUL + 1), 1 << db), MUL)

    # -------------------------------------------------------------------------------- expressions
    def nonneg(self, n):
        n = strip(n)
        t = ctype(n) if "type" in n else None
        if t and is_int(t) and not t[1]:
            return True
        cv = const_value(n)
        if cv is not None:
            return cv >= 0
        k = n.get("kind")
        if k in ("ImplicitCastExpr", "CStyleCastExpr") and n.get("castKind") == "IntegralCast":
            st = ctype(inner(n)[0])
            if is_int(st) and is_int(t) and ((not st[1] and st[2] < t[2])):
                return True
            return self.nonneg(inner(n)[0]) and is_int(st) and st[2] <= t[2]
        if k == "BinaryOperator" and n["opcode"] in ("&",):
            return self.nonneg(inner(n)[0]) or self.nonneg(inner(n)[1])
        if k == "BinaryOperator" and n["opcode"] in ("|", "^", ">>", "+", "*", "/", "%"):
            return self.nonneg(inner(n)[0]) and self.nonneg(inner(n)[1])
        return False

    def tr_int(self, n, env):
        """Lean Int term for the value of the C expression n"""
        tl = self.table_lookup(n)
        if tl:
            kind, e = tl
            if kind == "bool":
                return E("if %s = true then 1 else 0" % e.at(CMP + 1), LOW)
            if kind == "flag":
                raise Unsupported("integer value of '%s', which the table abstracts to a Bool"
                                  % expr_key(n))
            return e
        k = n.get("kind")
        if k in ("ParenExpr", "ConstantExpr"):
            return self.tr_int(inner(n)[0], env)
        if k == "IntegerLiteral" or k == "CharacterLiteral":
            return lit(int(n["value"]))
        if k in ("ImplicitCastExpr", "CStyleCastExpr"):
            ck = n.get("castKind")
            sub = inner(n)[0]
            if ck in ("LValueToRValue", "NoOp"):
                return self.tr_int(sub, env)
            if ck == "IntegralCast":
                st, dt = ctype(sub), ctype(n)
                if not (is_int(st) and is_int(dt)):
                    raise Unsupported("cast %s -> %s" % (st, dt))
                return self.conv(self.tr_int(sub, env), st, dt, sub)
            raise Unsupported("cast kind %s (%s) is outside the subset"
                              % (ck, nows(source_text(n, self.src))))
        if k == "DeclRefExpr":
            rd = n["referencedDecl"]
            key = ("var", rd["id"])
            if key in self.ctx.decls:
                return E(env.get(key), ATOM)
            raise Unsupported("reference to '%s' (%s) is outside the subset / not in the table"
                              % (rd.get("name"), rd.get("kind")))
        if k == "UnaryOperator":
            op = n["opcode"]
            sub = inner(n)[0]
            if op == "*":
                key = self.lvalue_key(n)
                return E(env.get(key), ATOM)
            if op == "-":
                cv = const_value(n)
                if cv is not None:
                    return lit(cv)
                e = self.tr_int(sub, env)
                r = E("-%s" % e.at(NEG + 1), NEG)
                return self.wrap_unsigned(r, n)
            if op == "+":
                return self.tr_int(sub, env)
            if op == "~":
                e = self.tr_int(sub, env)
                r = E("-%s - 1" % e.at(NEG + 1), ADD)
                return self.wrap_unsigned(r, n)
            if op == "!":
                return E("if %s then 1 else 0" % self.tr_cond(n, env).at(LOW + 1), LOW)
            raise Unsupported("unary operator '%s' inside an expression (%s)"
                              % (op, nows(source_text(n, self.src))))
        if k == "BinaryOperator":
            op = n["opcode"]
            a, b = inner(n)
            if op in CMP_OPS or op in ("&&", "||"):
                return E("if %s then 1 else 0" % self.tr_cond(n, env).at(LOW + 1), LOW)
            if op in ("+", "-", "*"):
                ea, eb = self.tr_int(a, env), self.tr_int(b, env)
                p = MUL if op == "*" else ADD
                r = E("%s %s %s" % (ea.at(p), op, eb.at(p + 1)), p)
                return self.wrap_unsigned(r, n)
            if op in ("/", "%"):
                ea, eb = self.tr_int(a, env), self.tr_int(b, env)
                f = "Int.tdiv" if op == "/" else "Int.tmod"
                return E("%s %s %s" % (f, ea.at(ATOM), eb.at(ATOM)), APP)
            if op == "<<":
                ea = self.tr_int(a, env)
                cv = const_value(b)
                if cv is not None:
                    if cv < 0 or cv > 63:
                        raise Unsupported("shift count %d" % cv)
                    r = E("%s * %d" % (ea.at(MUL), 1 << cv), MUL)
                else:
                    eb = self.tr_int(b, env)
                    r = E("%s * 2 ^ (%s).toNat" % (ea.at(MUL), eb.s), MUL)
                return self.wrap_unsigned(r, n)
            if op == ">>":
                ea = self.tr_int(a, env)
                cv = const_value(b)
                if cv is not None:
                    if cv < 0 or cv > 63:
                        raise Unsupported("shift count %d" % cv)
                    return E("%s / %d" % (ea.at(MUL), 1 << cv), MUL)
                eb = self.tr_int(b, env)
                return E("%s / 2 ^ (%s).toNat" % (ea.at(MUL), eb.s), MUL)
            if op in ("&", "|", "^"):
                if op == "&":
                    for x, y in ((a, b), (b, a)):
                        cv = const_value(y)
                        if cv is not None and cv >= 0 and (cv & (cv + 1)) == 0:
                            ex = self.tr_int(x, env)
                            return E("%s %% %d" % (ex.at(MUL + 1), cv + 1), MUL)
                if not (self.nonneg(a) and self.nonneg(b)):
                    raise Unsupported("bit operation '%s' on operands that are not syntactically "
                                      "non-negative (%s)" % (op, nows(source_text(n, self.src))))
                ea, eb = self.tr_int(a, env), self.tr_int(b, env)
                f = {"&": "c2l_band", "|": "c2l_bor", "^": "c2l_bxor"}[op]
                return E("%s %s %s" % (f, ea.at(ATOM), eb.at(ATOM)), APP)
            raise Unsupported("binary operator '%s' inside an expression (%s)"
                              % (op, nows(source_text(n, self.src))))
        if k == "ConditionalOperator":
            c, a, b = inner(n)
            return E("if %s then %s else %s" % (self.tr_cond(c, env).at(LOW + 1),
                                                self.tr_int(a, env).at(LOW + 1),
                                                self.tr_int(b, env).at(LOW + 1)), LOW)
        if k == "CallExpr":
            e, sig = self.tr_call(n, env, allow_outs=False)
            if sig.ret != "int":
                raise Unsupported("integer value of a call of %s (returns %s)"
                                  % (sig.lean_name, sig.ret))
            return e
        if k == "MemberExpr":
            raise Unsupported("field read '%s' is not in this function's table"
                              % expr_key(n))
        raise Unsupported("expression kind %s (%s) is outside the subset"
                          % (k, nows(source_text(n, self.src))[:80]))

    def wrap_unsigned(self, e, n):
        t = ctype(n)
        if is_int(t) and not t[1]:
            return E("%s %% %d" % (e.at(MUL + 1), 1 << t[2]), MUL)
        return e

    def tr_cond(self, n, env):
        """Lean Prop (decidable) : the C expression n is non-zero"""
        tl = self.table_lookup(n)
        if tl:
            kind, e = tl
            if kind in ("bool", "flag"):
                return E("%s = true" % e.at(CMP + 1), CMP)
            return E("%s ≠ 0" % e.at(CMP + 1), CMP)
        cv = const_value(n)
        if cv is not None:
            return E("True" if cv != 0 else "False", ATOM)
        k = n.get("kind")
        if k in ("ParenExpr", "ConstantExpr"):
            return self.tr_cond(inner(n)[0], env)
        if k in ("ImplicitCastExpr", "CStyleCastExpr") and n.get("castKind") in \
                ("LValueToRValue", "NoOp"):
            return self.tr_cond(inner(n)[0], env)
        if k in ("ImplicitCastExpr", "CStyleCastExpr") and n.get("castKind") == "IntegralCast" \
                and boolean_valued(inner(n)[0]):
            return self.tr_cond(inner(n)[0], env)
        if k == "BinaryOperator":
            op = n["opcode"]
            a, b = inner(n)
            if op in CMP_OPS:
                ta, tb = ctype(a), ctype(b)
                if not (is_int(ta) and is_int(tb)):
                    raise Unsupported("comparison '%s' of non-integers is not in this function's "
                                      "table" % expr_key(n))
                ea, eb = self.tr_int(a, env), self.tr_int(b, env)
                return E("%s %s %s" % (ea.at(CMP + 1), CMP_OPS[op], eb.at(CMP + 1)), CMP)
            if op == "&&":
                return E("%s ∧ %s" % (self.tr_cond(a, env).at(AND + 1),
                                      self.tr_cond(b, env).at(AND)), AND)
            if op == "||":
                return E("%s ∨ %s" % (self.tr_cond(a, env).at(OR + 1),
                                      self.tr_cond(b, env).at(OR)), OR)
        if k == "UnaryOperator" and n["opcode"] == "!":
            sub = strip(inner(n)[0])
            if not boolean_valued(sub) and self.table_lookup(sub) is None and \
               sub.get("kind") != "CallExpr" and is_int(ctype(sub)):
                return E("%s = 0" % self.tr_int(sub, env).at(CMP + 1), CMP)
            return E("¬%s" % self.tr_cond(inner(n)[0], env).at(NOT + 1), NOT)
        if k == "CallExpr":
            e, sig = self.tr_call(n, env, allow_outs=False)
            if sig.ret == "bool":
                return E("%s = true" % e.at(CMP + 1), CMP)
            return E("%s ≠ 0" % e.at(CMP + 1), CMP)
        e = self.tr_int(n, env)
        return E("%s ≠ 0" % e.at(CMP + 1), CMP)

    def tr_bool(self, n, env):
        """Lean Bool : the C expression n is non-zero"""
        tl = self.table_lookup(n)
        if tl:
            kind, e = tl
            if kind in ("bool", "flag"):
                return e
            return E("decide (%s ≠ 0)" % e.at(CMP + 1), APP)
        cv = const_value(n)
        if cv is not None:
            return E("true" if cv != 0 else "false", ATOM)
        k = n.get("kind")
        if k in ("ParenExpr", "ConstantExpr"):
            return self.tr_bool(inner(n)[0], env)
        if k in ("ImplicitCastExpr", "CStyleCastExpr") and n.get("castKind") in \
                ("LValueToRValue", "NoOp"):
            return self.tr_bool(inner(n)[0], env)
        if k in ("ImplicitCastExpr", "CStyleCastExpr") and n.get("castKind") == "IntegralCast" \
                and boolean_valued(inner(n)[0]):
            return self.tr_bool(inner(n)[0], env)
        if k == "BinaryOperator":
            op = n["opcode"]
            a, b = inner(n)
            if op == "&&":
                return E("%s && %s" % (self.tr_bool(a, env).at(AND + 1),
                                       self.tr_bool(b, env).at(AND)), AND)
            if op == "||":
                return E("%s || %s" % (self.tr_bool(a, env).at(OR + 1),
                                       self.tr_bool(b, env).at(OR)), OR)
            if op in CMP_OPS:
                return E("decide (%s)" % self.tr_cond(n, env).s, APP)
        if k == "UnaryOperator" and n["opcode"] == "!":
            return E("!%s" % self.tr_bool(inner(n)[0], env).at(ATOM), APP)
        if k == "CallExpr":
            e, sig = self.tr_call(n, env, allow_outs=False)
            if sig.ret == "bool":
                return e
        return E("decide (%s)" % self.tr_cond(n, env).s, APP)

    # -------------------------------------------------------------------------------- calls
    def tr_call(self, n, env, allow_outs):
        cal = strip_all_casts(inner(n)[0])
        if cal.get("kind") != "DeclRefExpr":
            raise Unsupported("indirect call")
        cname = cal["referencedDecl"]["name"]
        if cname not in SIGS:
            raise Unsupported("call of '%s', which is not a (previously translated) whitelisted "
                              "function" % cname)
        sig = SIGS[cname]
        args = inner(n)[1:]
        if sig.outs and not allow_outs:
            raise Unsupported("call of '%s' (has in/out parameters) nested inside an expression"
                              % cname)
        terms, outkeys = [], []
        for p in sig.params:
            if p[0] == "val":
                terms.append(self.tr_int(args[p[1]], env).at(ATOM))
            elif p[0] == "deref":
                a = strip(args[p[1]])
                if not (a.get("kind") == "UnaryOperator" and a["opcode"] == "&"):
                    raise Unsupported("argument %d of %s must be of the form &variable"
                                      % (p[1], cname))
                key = self.lvalue_key(inner(a)[0])
                terms.append(E(env.get(key), ATOM).at(ATOM))
            elif p[0] == "table":
                # re-key the callee's table entry with the actual arguments
                ckey, kind = p[1], p[2]
                k2 = ckey
                for i, cp in enumerate(sig.cparam_names):
                    ak = expr_key(args[i]) if i < len(args) else None
                    if ak is not None:
                        k2 = re.sub(r"(?<![\w>.])%s(?![\w])" % re.escape(cp), "\0%d\0" % i, k2)
                for i in range(len(sig.cparam_names)):
                    ak = expr_key(args[i]) if i < len(args) else None
                    if ak is not None:
                        k2 = k2.replace("\0%d\0" % i, ak)
                if k2 not in self.spec.table:
                    raise Unsupported("call of %s needs '%s' in the table of %s"
                                      % (cname, k2, self.spec.name))
                val = self.spec.table[k2]
                if val.startswith("="):
                    terms.append("(" + val[1:] + ")")
                else:
                    if k2 not in self.ctx.table_used:
                        self.ctx.table_used.append(k2)
                    self.ctx.table_hits[k2] = self.ctx.table_hits.get(k2, 0) + 1
                    self.ctx.table_params[k2] = (val, kind)
                    terms.append(val)
        allkeys = []
        for p in sig.params:
            if p[0] == "deref":
                allkeys.append(self.lvalue_key(inner(strip(args[p[1]]))[0]))
        if len(set(allkeys)) != len(allkeys):
            raise Unsupported("call of %s passes the same object for two in/out parameters "
                              "(the translation of the callee assumes they do not alias)" % cname)
        for i in sig.outs:
            a = strip(args[i])
            outkeys.append(self.lvalue_key(inner(a)[0]))
        e = E(" ".join([sig.lean_name] + terms), APP if terms else ATOM)
        if allow_outs:
            return e, sig, outkeys
        return e, sig

    # -------------------------------------------------------------------------------- statements
    def assigned_vars(self, n):
        """variable keys possibly assigned inside statement n"""
        out = []
        for m in walk(n):
            k = m.get("kind")
            tgt = None
            if k in ("BinaryOperator", "CompoundAssignOperator") and \
               (m["opcode"] == "=" or k == "CompoundAssignOperator"):
                tgt = inner(m)[0]
            elif k == "UnaryOperator" and m["opcode"] in ("++", "--"):
                tgt = inner(m)[0]
            elif k == "CallExpr":
                for a in inner(m)[1:]:
                    a = strip(a)
                    if a.get("kind") == "UnaryOperator" and a["opcode"] == "&":
                        try:
                            key = self.lvalue_key(inner(a)[0])
                        except Unsupported:
                            continue
                        if key not in out:
                            out.append(key)
            if tgt is not None:
                key = self.lvalue_key(tgt)
                if key not in out:
                    out.append(key)
        return out

    def flatten(self, n):
        if n is None:
            return []
        if n.get("kind") == "CompoundStmt":
            out = []
            for c in inner(n):
                out += self.flatten(c)
            return out
        if n.get("kind") == "NullStmt":
            return []
        return [n]

    def is_simple(self, n):
        """only assignments / nested ifs of such: can be merged per variable"""
        for s in self.flatten(n):
            k = s.get("kind")
            if k == "IfStmt":
                parts = inner(s)
                if not all(self.is_simple(p) for p in parts[1:]):
                    return False
                if contains_kind(parts[0], ("CallExpr",)) and self.has_out_call(parts[0]):
                    return False
            elif k in ("BinaryOperator", "CompoundAssignOperator", "UnaryOperator"):
                if self.has_out_call(s):
                    return False
                if k == "BinaryOperator" and s["opcode"] != "=":
                    return False
                if k == "UnaryOperator" and s["opcode"] not in ("++", "--"):
                    return False
            elif k == "DeclStmt":
                for v in inner(s):
                    if v.get("kind") != "VarDecl" or not is_int(ctype(v)) or self.has_out_call(v):
                        return False
            else:
                return False
        return True

    def has_out_call(self, n):
        for cname, m in calls_in(n):
            if cname in SIGS and SIGS[cname].outs:
                return True
        return False

    def declare_local(self, v):
        if v.get("storageClass") in ("static", "extern"):
            raise Unsupported("local '%s' has storage class %s" % (v.get("name"), v["storageClass"]))
        if re.search(r"\bvolatile\b", v.get("type", {}).get("qualType", "")):
            raise Unsupported("volatile local '%s'" % v.get("name"))
        t = ctype(v)
        if not is_int(t):
            # non-integer locals may be declared (e.g. `sraRegionPtr region;`) but never used
            return None
        key = ("var", v["id"])
        self.ctx.decls[key] = dict(name=v["name"], ctype=t, order=self.order, kind="local")
        self.order += 1
        return key

    def fresh_for(self, key):
        base = self.ctx.decls[key]["name"]
        return self.ctx.fresh(base)

    def assign_stmt(self, s, env, lines, top):
        """expression statement with a side effect on ONE variable; True when handled"""
        k = s.get("kind")
        if k == "ParenExpr":
            return self.assign_stmt(inner(s)[0], env, lines, top)
        if k == "BinaryOperator" and s["opcode"] == "=":
            lhs, rhs = inner(s)
            key = self.lvalue_key(lhs)
            r = strip(rhs)
            if r.get("kind") == "CallExpr" and self.has_out_call(r):
                if not top:
                    raise Unsupported("call with in/out parameters inside a merged branch")
                val = self.hoist_call(r, env, lines)
                e = val
                # conversion of the returned value to the type of the lhs
                if rhs.get("castKind") == "IntegralCast":
                    e = self.conv(val, ctype(inner(rhs)[0]), ctype(rhs))
            else:
                e = self.tr_int(rhs, env)
            self.bind(key, e, env, lines, top)
            return True
        if k == "CompoundAssignOperator":
            lhs, rhs = inner(s)
            key = self.lvalue_key(lhs)
            op = s["opcode"][:-1]
            lt = ctype(lhs)
            ct = ctype(s.get("computeResultType", s["type"]))
            clt = ctype(s.get("computeLHSType", s["type"]))
            cur = self.conv(E(env.get(key), ATOM), lt, clt)
            eb = self.tr_int(rhs, env)
            fake = {"kind": "BinaryOperator", "opcode": op, "type": s.get("computeResultType", s["type"])}
            e = self.binop_terms(op, cur, eb, fake, rhs)
            e = self.conv(e, ct, lt)
            self.bind(key, e, env, lines, top)
            return True
        if k == "UnaryOperator" and s["opcode"] in ("++", "--"):
            lhs = inner(s)[0]
            key = self.lvalue_key(lhs)
            lt = ctype(lhs)
            pt = lt if lt[2] >= 32 else ("int", True, 32)
            cur = E(env.get(key), ATOM)
            e = E("%s %s 1" % (cur.at(ADD), "+" if s["opcode"] == "++" else "-"), ADD)
            if not pt[1]:
                e = E("%s %% %d" % (e.at(MUL + 1), 1 << pt[2]), MUL)
            e = self.conv(e, pt, lt)
            self.bind(key, e, env, lines, top)
            return True
        return False

    def binop_terms(self, op, ea, eb, node, rhs_node):
        if op in ("+", "-", "*"):
            p = MUL if op == "*" else ADD
            return self.wrap_unsigned(E("%s %s %s" % (ea.at(p), op, eb.at(p + 1)), p), node)
        if op in ("/", "%"):
            f = "Int.tdiv" if op == "/" else "Int.tmod"
            return E("%s %s %s" % (f, ea.at(ATOM), eb.at(ATOM)), APP)
        if op in ("<<", ">>"):
            cv = const_value(rhs_node)
            if cv is None or cv < 0 or cv > 63:
                raise Unsupported("compound shift by a non-literal")
            if op == "<<":
                return self.wrap_unsigned(E("%s * %d" % (ea.at(MUL), 1 << cv), MUL), node)
            return E("%s / %d" % (ea.at(MUL), 1 << cv), MUL)
        raise Unsupported("compound assignment '%s='" % op)

    def bind(self, key, e, env, lines, top):
        if top:
            nm = self.fresh_for(key)
            lines.append("let %s := %s" % (nm, e.s))
            env.set(key, nm)
        else:
            env.set(key, e.at(ATOM))

    def hoist_call(self, call, env, lines):
        """`let r := F args` + rebinding of the in/out variables; -> E for the returned value"""
        e, sig, outkeys = self.tr_call(call, env, allow_outs=True)
        r = self.ctx.fresh("r")
        lines.append("let %s := %s" % (r, e.s))
        n = len(outkeys) + (1 if sig.ret else 0)
        for i, key in enumerate(outkeys):
            nm = self.fresh_for(key)
            lines.append("let %s := %s%s" % (nm, r, proj(i, n)))
            env.set(key, nm)
        if sig.ret:
            return E("%s%s" % (r, proj(n - 1, n)), ATOM)
        return None

    def seq(self, stmts, env, k_end, k_ret):
        """-> lines of a Lean term: the effect of the statements followed by the continuation"""
        lines = []
        i = 0
        while i < len(stmts):
            s = stmts[i]
            rest = stmts[i + 1:]
            k = s.get("kind")
            if k == "CompoundStmt":
                stmts = stmts[:i] + self.flatten(s) + rest
                continue
            if k == "NullStmt":
                i += 1
                continue
            force_cps = False
            if self.spec.reach and any(c == self.spec.reach for c, _ in calls_in(s)):
                m = s
                if k == "DeclStmt" and len(inner(s)) == 1:
                    ini = [c for c in inner(inner(s)[0])
                           if c.get("kind", "").endswith(("Expr", "Operator", "Literal"))]
                    m = ini[0] if ini else s
                m = strip_all_casts(m)
                if m.get("kind") == "BinaryOperator" and m["opcode"] == "=":
                    m = strip_all_casts(inner(m)[1])
                if m.get("kind") == "CallExpr" and \
                   strip_all_casts(inner(m)[0]).get("referencedDecl", {}).get("name") == self.spec.reach:
                    vals = [self.tr_int(a, env).s for a in inner(m)[1:] if is_int(ctype(a))]
                    self.reach_arity = len(vals)
                    return lines + ["some %s" % tuple_of(vals)]
                if k == "IfStmt" and not any(c == self.spec.reach for c, _ in calls_in(inner(s)[0])):
                    force_cps = True
                else:
                    raise Unsupported("the call of %s sits inside a statement of kind %s"
                                      % (self.spec.reach, k))
            if k == "DeclStmt":
                for v in inner(s):
                    if v.get("kind") != "VarDecl":
                        raise Unsupported("declaration of kind %s" % v.get("kind"))
                    key = self.declare_local(v)
                    init = [c for c in inner(v)
                            if c.get("kind", "").endswith(("Expr", "Operator", "Literal"))]
                    if key is None:
                        if init:
                            raise Unsupported("initialised local '%s' of non-integer type %s"
                                              % (v.get("name"), v["type"]["qualType"]))
                        continue
                    if init:
                        r = strip(init[0])
                        if r.get("kind") == "CallExpr" and self.has_out_call(r):
                            e = self.hoist_call(r, env, lines)
                        else:
                            e = self.tr_int(init[0], env)
                        self.bind(key, e, env, lines, True)
                    else:
                        env.set(key, UNDEF)
                i += 1
                continue
            if k == "ReturnStmt":
                return lines + k_ret(inner(s)[0] if inner(s) else None, env, lines)
            if k == "IfStmt":
                parts = inner(s)
                cond, th = parts[0], parts[1]
                el = parts[2] if len(parts) > 2 else None
                if not force_cps and self.is_simple(th) and (el is None or self.is_simple(el)):
                    c = self.tr_cond(cond, env)
                    e1, e2 = env.copy(), env.copy()
                    self.sym(self.flatten(th), e1)
                    self.sym(self.flatten(el), e2)
                    self.merge(c, env, e1, e2, lines, True)
                    i += 1
                    continue
                # general case: the rest of the range is the continuation of both branches
                cexpr = None
                cs = strip(cond)
                neg = False
                if cs.get("kind") == "UnaryOperator" and cs["opcode"] == "!":
                    neg, cs = True, strip(inner(cs)[0])
                if cs.get("kind") == "CallExpr" and self.has_out_call(cs):
                    v = self.hoist_call(cs, env, lines)
                    sig = SIGS[strip_all_casts(inner(cs)[0])["referencedDecl"]["name"]]
                    cexpr = E("%s = %s" % (v.at(CMP + 1), "false" if neg else "true"), CMP) \
                        if sig.ret == "bool" else \
                        E("%s %s 0" % (v.at(CMP + 1), "=" if neg else "≠"), CMP)
                elif self.has_out_call(cond):
                    raise Unsupported("call with in/out parameters inside a compound condition")
                else:
                    cexpr = self.tr_cond(cond, env)
                a = self.seq(self.flatten(th) + rest, env.copy(), k_end, k_ret)
                b = self.seq(self.flatten(el) + rest, env.copy(), k_end, k_ret)
                lines.append("if %s then" % cexpr.s)
                lines += ["  " + x for x in a]
                lines.append("else")
                lines += ["  " + x for x in b]
                return lines
            if k in ("ForStmt", "WhileStmt"):
                self.loop(s, env, lines)
                i += 1
                continue
            if k == "CallExpr":
                if self.has_out_call(s):
                    self.hoist_call(s, env, lines)
                    i += 1
                    continue
                cn = [c for c, _ in calls_in(s)]
                raise Unsupported("call statement '%s' is outside the subset"
                                  % (cn[0] if cn else "?"))
            if self.assign_stmt(s, env, lines, True):
                i += 1
                continue
            raise Unsupported("statement kind %s (%s) is outside the subset"
                              % (k, nows(source_text(s, self.src))[:80]))
        return lines + k_end(env)

    def sym(self, stmts, env):
        """symbolic execution of simple statements (no lets): updates env; the variables declared
        by these statements go out of scope at the end (they are removed from env)"""
        declared = []
        for s in stmts:
            k = s.get("kind")
            if k == "DeclStmt":
                for v in inner(s):
                    key = self.declare_local(v)
                    declared.append(key)
                    init = [c for c in inner(v) if c.get("kind", "").endswith(("Expr", "Operator", "Literal"))]
                    if init:
                        env.set(key, self.tr_int(init[0], env).at(ATOM))
                    else:
                        env.set(key, UNDEF)
            elif k == "IfStmt":
                parts = inner(s)
                c = self.tr_cond(parts[0], env)
                e1, e2 = env.copy(), env.copy()
                self.sym(self.flatten(parts[1]), e1)
                self.sym(self.flatten(parts[2]) if len(parts) > 2 else [], e2)
                self.merge(c, env, e1, e2, None, False)
            elif not self.assign_stmt(s, env, None, False):
                raise Unsupported("statement kind %s inside a merged branch" % k)
        for key in declared:
            env.d.pop(key, None)

    def merge(self, c, env, e1, e2, lines, top):
        keys = [k for k in list(e1.d.keys()) + list(e2.d.keys())]
        seen = []
        for key in keys:
            if key in seen:
                continue
            seen.append(key)
            v1 = e1.d.get(key, env.d.get(key, None))
            v2 = e2.d.get(key, env.d.get(key, None))
            if key in env.d and v1 is env.d[key] and v2 is env.d[key]:
                continue
            if v1 is v2 or (isinstance(v1, str) and v1 == v2):
                if key not in env.d or env.d[key] != v1:
                    env.set(key, v1)
                continue
            if v1 is UNDEF or v2 is UNDEF:
                env.set(key, UNDEF)
                continue
            # a branch that did not touch the variable keeps the incoming value (may create an input)
            if v1 is None:
                v1 = env.get(key)
            if v2 is None:
                v2 = env.get(key)
            e = E("if %s then %s else %s" % (c.at(LOW + 1), E(v1, ATOM).at(LOW + 1),
                                             E(v2, ATOM).at(LOW + 1)), LOW)
            self.bind(key, e, env, lines, top)

    # -------------------------------------------------------------------------------- loops
    def loop(self, s, env, lines):
        ctx = self.ctx
        k = s["kind"]
        parts = inner(s)
        if k == "ForStmt":
            # clang: [init, condvar, cond, inc, body]
            init, _cv, cond, inc, body = (parts + [None] * 5)[:5]
            if init and init.get("kind"):
                if init.get("kind") == "DeclStmt":
                    sub = self.seq([init], env, lambda e: [], None)
                    lines += sub
                elif not self.assign_stmt(init, env, lines, True):
                    raise Unsupported("for-init outside the subset")
            bstmts = self.flatten(body) + ([inc] if inc and inc.get("kind") else [])
        else:
            cond, body = parts[0], parts[1]
            bstmts = self.flatten(body)
        if cond is None or not cond.get("kind"):
            raise Unsupported("loop without a condition")
        for b in bstmts:
            if contains_kind(b, ("ReturnStmt", "BreakStmt", "ContinueStmt", "GotoStmt")):
                raise Unsupported("return/break/continue inside a loop")
        # --- syntactic variant: cond is  v REL e  with v stepped by a positive literal, e loop-invariant
        c = strip(cond)
        if not (c.get("kind") == "BinaryOperator" and c["opcode"] in ("<", "<=", ">", ">=")):
            raise Unsupported("loop condition '%s' has no syntactic variant (need v < e, v <= e, "
                              "v > e or v >= e)" % nows(source_text(cond, self.src)))
        inside = set()
        for b in bstmts:
            for m in walk(b):
                if m.get("kind") == "VarDecl":
                    inside.add(("var", m["id"]))
                    self.declare_local(m)
        state = []
        for b in bstmts:
            for key in self.assigned_vars(b):
                if key not in state and key not in inside:
                    state.append(key)
        # variables assigned in the loop but uninitialised at its entry are scratch: every iteration
        # must write them before reading them (checked: they are UNDEF at the start of the body),
        # and they are undefined again after the loop
        scratch = [key for key in state if env.d.get(key, None) is UNDEF]
        state = [key for key in state if key not in scratch]
        var = None
        for side in (0, 1):
            m = strip(inner(c)[side])
            if m.get("kind") == "DeclRefExpr" and ("var", m["referencedDecl"]["id"]) in state:
                other = inner(c)[1 - side]
                okeys = [("var", x["referencedDecl"]["id"]) for x in walk(other)
                         if x.get("kind") == "DeclRefExpr"]
                if any(kk in state for kk in okeys) or contains_kind(other, ("UnaryOperator",)) \
                        and any(x.get("opcode") == "*" for x in walk(other)):
                    continue
                var, vside, bound = ("var", m["referencedDecl"]["id"]), side, other
        if var is None:
            raise Unsupported("loop condition '%s': no loop variable compared with a loop-invariant "
                              "bound" % nows(source_text(cond, self.src)))
        op = c["opcode"]
        if vside == 1:
            op = {"<": ">", "<=": ">=", ">": "<", ">=": "<="}[op]
        up = op in ("<", "<=")
        # the loop variable must be stepped exactly once, unconditionally, at the top level of the body
        steps = 0
        for b in bstmts:
            if var in self.assigned_vars(b):
                bb = b
                while bb.get("kind") == "ParenExpr":
                    bb = inner(bb)[0]
                ok = False
                if bb.get("kind") == "UnaryOperator" and bb["opcode"] == ("++" if up else "--"):
                    ok = True
                if bb.get("kind") == "CompoundAssignOperator" and \
                   bb["opcode"] == ("+=" if up else "-="):
                    cv = const_value(inner(bb)[1])
                    ok = cv is not None and cv > 0
                if not ok or self.lvalue_key(inner(bb)[0]) != var:
                    raise Unsupported("loop variable '%s' is not stepped by a positive literal in "
                                      "the direction of the bound" % ctx.decls[var]["name"])
                steps += 1
        if steps != 1:
            raise Unsupported("loop variable stepped %d times" % steps)
        # --- fuel (evaluated before the loop, in the outer environment)
        ev, ebnd = E(env.get(var), ATOM), self.tr_int(bound, env)
        if up:
            fuel = "%s - %s" % (ebnd.at(ADD), ev.at(ADD + 1))
        else:
            fuel = "%s - %s" % (ev.at(ADD), ebnd.at(ADD + 1))
        if op in ("<=", ">="):
            fuel += " + 1"
        # --- auxiliary definition: translate the body in a fresh environment
        ctx.nloops += 1
        aux_name = "%s.loop%d" % (self.spec.name, ctx.nloops)
        saved_inputs, saved_used = ctx.inputs, ctx.used_names
        ctx.inputs, ctx.used_names = {}, set(LEAN_KEYWORDS) | {v for v, _ in ctx.table_params.values()} \
            | {v for v in self.spec.table.values() if not v.startswith("=")}
        lenv = Env(ctx)
        snames = []
        for key in state:
            nm = ctx.fresh(ctx.decls[key]["name"])
            snames.append(nm)
            lenv.set(key, nm)
        for key in scratch:
            lenv.set(key, UNDEF)
        n = len(state)

        def tup(e):
            return tuple_of([e.d[key] if e.d.get(key) is not UNDEF else "0" for key in state])

        def k_end(e):
            for key in state:
                if e.d.get(key) is UNDEF:
                    raise Unsupported("loop state variable undefined at the end of the body")
            return ["%s %s" % ("\0CALL\0", " ".join(E(e.d[key], ATOM).at(ATOM) for key in state))]

        def k_ret(node, e, lines):
            raise Unsupported("return inside a loop")

        hits0 = dict(ctx.table_hits)
        c_in = self.tr_cond(cond, lenv)
        blines = self.seq(bstmts, lenv.copy(), k_end, k_ret)
        free = sorted(ctx.inputs.items(), key=lambda kv: ctx.decls[kv[0]]["order"])
        # the table parameters the loop (or a loop nested in it) reads
        tparams = [v for key, v in self.spec.table.items()
                   if not v.startswith("=") and ctx.table_hits.get(key, 0) > hits0.get(key, 0)]
        fixed = tparams + [nm for _, nm in free]
        ent = self.table_entries()
        bools = {v for key, (v, kind) in ent.items() if kind in ("bool", "flag")}
        fixed_decl = "".join(" (%s : %s)" % (nm, "Bool" if (nm in bools and nm in tparams) else "Int")
                             for nm in fixed)
        call = " ".join([aux_name] + fixed + ["fuel"])
        blines = [x.replace("\0CALL\0", call) for x in blines]
        rty = " × ".join(["Int"] * n)
        txt = ["/-- loop of `%s` (%s): structural recursion on the fuel; state = (%s) -/"
               % (self.spec.func, nows(source_text(cond, self.src)),
                  ", ".join(ctx.decls[key]["name"] for key in state)),
               "def %s%s : Nat → %s → %s" % (aux_name, fixed_decl,
                                             " → ".join(["Int"] * n), rty),
               "  | 0, %s => %s" % (", ".join(snames), tuple_of(snames)),
               "  | fuel+1, %s =>" % ", ".join(snames),
               "    if %s then" % c_in.s]
        txt += ["      " + x for x in blines]
        txt += ["    else %s" % tuple_of(snames)]
        ctx.aux.append("\n".join(txt))
        # --- back in the outer function
        ctx.inputs, ctx.used_names = saved_inputs, saved_used
        outer_fixed = tparams + [E(env.get(key), ATOM).at(ATOM) for key, _ in free]
        init_state = []
        for key in state:
            v = env.d.get(key, None)
            if v is UNDEF:
                raise Unsupported("loop state variable '%s' is uninitialised before the loop"
                                  % ctx.decls[key]["name"])
            init_state.append(E(env.get(key), ATOM).at(ATOM))
        r = ctx.fresh("r")
        lines.append("let %s := %s" % (r, " ".join([aux_name] + outer_fixed +
                                                    ["(%s).toNat" % fuel] + init_state)))
        for i, key in enumerate(state):
            nm = self.fresh_for(key)
            lines.append("let %s := %s%s" % (nm, r, proj(i, n)))
            env.set(key, nm)
        for key in scratch:
            env.set(key, UNDEF)

    def table_entries(self):
        """{key: (lean name, kind)} for all table entries; kind guessed from the key's syntax"""
        out = {}
        for key, val in self.spec.table.items():
            if val.startswith("="):
                continue
            kind = "bool" if re.search(r"==|!=|<|>(?!\w)", key.replace("->", "")) else "int"
            if self.spec.table_kind.get(key) == "bool":
                kind = "flag"
            out[key] = (val, kind)
        return out

    # -------------------------------------------------------------------------------- driver
    def select_block(self):
        node = self.body
        for step in self.spec.block:
            kind, arg = step
            found = None
            if kind in ("if", "else"):
                for m in walk(node):
                    if m.get("kind") == "IfStmt" and \
                       nows(source_text(inner(m)[0], self.src)) == nows(arg):
                        if found is not None:
                            raise Unsupported("block selector %r matches more than once" % (step,))
                        found = m
                if found is None:
                    raise Unsupported("block selector %r: no such if statement in %s"
                                      % (step, self.spec.func))
                parts = inner(found)
                if kind == "if":
                    node = parts[1]
                else:
                    if len(parts) < 3:
                        raise Unsupported("block selector %r: no else branch" % (step,))
                    node = parts[2]
            elif kind in ("for", "while"):
                want = "ForStmt" if kind == "for" else "WhileStmt"
                ms = [m for m in walk(node) if m.get("kind") == want]
                if arg >= len(ms):
                    raise Unsupported("block selector %r: only %d loops" % (step, len(ms)))
                node = inner(ms[arg])[-1]
            else:
                raise Unsupported("bad block selector %r" % (step,))
        return node

    def translate(self):
        spec, ctx = self.spec, self.ctx
        block = self.select_block()
        stmts = inner(block) if block.get("kind") == "CompoundStmt" else [block]
        whole = not (spec.block or spec.after or spec.before or spec.reach)

        def find_marker(callee):
            if isinstance(callee, tuple):
                callee, which = callee
                idx = [i for i, s in enumerate(stmts) if any(c == callee for c, _ in calls_in(s))]
                if which >= len(idx):
                    raise Unsupported("marker: fewer than %d statements of %s call %s"
                                      % (which + 1, spec.func, callee))
                return idx[which]
            idx = [i for i, s in enumerate(stmts) if any(c == callee for c, _ in calls_in(s))]
            if len(idx) != 1:
                raise Unsupported("marker: %d top-level statements of the selected block of %s call "
                                  "%s (need exactly one)" % (len(idx), spec.func, callee))
            return idx[0]

        lo, hi = 0, len(stmts)
        marker_stmt = None
        if spec.after:
            lo = find_marker(spec.after) + 1
        if spec.before:
            hi = find_marker(spec.before)
            marker_stmt = stmts[hi]
        # locals declared in the function before the range are visible inside (as inputs)
        if not whole:
            pre_end = _off(stmts[lo]["range"]["begin"]) if lo < len(stmts) else None
            for m in walk(self.body):
                if m.get("kind") == "VarDecl" and (pre_end is None or
                                                   _off(m["range"]["begin"]) < pre_end):
                    self.declare_local(m)
        rng = stmts[lo:hi]

        # result variables
        res_keys = None
        if spec.result is not None:
            res_keys = list(spec.result)     # names: resolved against the final environment
        elif marker_stmt is not None and strip(marker_stmt).get("kind") == "CallExpr":
            res_keys = []
            for a in inner(strip(marker_stmt))[1:]:
                a2 = strip(a)
                if a2.get("kind") == "DeclRefExpr" and ("var", a2["referencedDecl"]["id"]) in ctx.decls:
                    res_keys.append(("var", a2["referencedDecl"]["id"]))
        else:
            res_keys = [k for k, d in sorted(ctx.decls.items(), key=lambda kv: kv[1]["order"])
                        if d.get("kind") == "deref"]

        def pick(nm, e):
            cands = [kk for kk, d in ctx.decls.items() if d["name"] == nm]
            touched = [kk for kk in cands if (e is not None and kk in e.d) or kk in ctx.inputs]
            if touched:
                cands = touched
            if not cands:
                raise Unsupported("result variable '%s' not found in %s" % (nm, spec.func))
            if len(cands) > 1:
                raise Unsupported("result variable '%s' is ambiguous in %s" % (nm, spec.func))
            return cands[0]

        def resolve(e):
            return [e.get(pick(k, e) if isinstance(k, str) else k) for k in res_keys]

        ret_kind = self.ret_kind

        to_end = not (spec.before or spec.block or spec.reach)   # range reaches the function's end
        if not to_end:
            ret_kind = None

        def k_ret(node, e, lines):
            if spec.early == "none":
                return ["none"]
            if not to_end:
                raise Unsupported("`return` inside a statement range that does not extend to the "
                                  "end of the function (use early='none')")
            outs = resolve(e)
            if node is None:
                if ret_kind:
                    raise Unsupported("return without a value")
                return [tuple_of(outs)]
            if ret_kind == "bool":
                rv = self.tr_bool(node, e).s
            else:
                rv = self.tr_int(node, e).s
            return [tuple_of(outs + [rv])]

        if spec.reach:
            res_keys = []

        def k_end(e):
            if spec.reach:
                return ["none"]
            outs = resolve(e)
            if spec.early == "none":
                return ["some %s" % tuple_of(outs)]
            if to_end and ret_kind:
                raise Unsupported("control reaches the end of non-void function %s" % spec.func)
            if not outs:
                raise Unsupported("nothing to return")
            return [tuple_of(outs)]

        env = Env(ctx)
        # whole functions: all C integer parameters are parameters of the definition (stable signature)
        if whole:
            for key, d in sorted(ctx.decls.items(), key=lambda kv: kv[1]["order"]):
                env.get(key)
        body_lines = self.seq(rng, env, k_end, k_ret)

        # ---------------- signature
        params = []
        sig = Sig()
        sig.lean_name = spec.name
        sig.cparam_names = [p.get("name", "") for p in self.cparams]
        for key, nm in sorted(ctx.inputs.items(), key=lambda kv: ctx.decls[kv[0]]["order"]):
            params.append((nm, "Int"))
            d = ctx.decls[key]
            if "cparam" in d:
                sig.params.append((d["kind"], d["cparam"]))
            else:
                sig.params.append(("local", d["name"]))
        entries = self.table_entries()
        for key, val in spec.table.items():
            if val.startswith("="):
                continue
            kind = ctx.table_params.get(key, entries[key])[1]
            if key not in ctx.table_used:
                raise Unsupported("table entry '%s' of %s is never used by the code: the function "
                                  "no longer reads it" % (key, spec.name))
            params.append((val, "Bool" if kind in ("bool", "flag") else "Int"))
            sig.params.append(("table", key, kind))
        sig.ret = ret_kind
        sig.whole = whole
        sig.outs = [ctx.decls[k]["cparam"] for k in res_keys
                    if not isinstance(k, str) and ctx.decls[k].get("kind") == "deref"]
        nres = len(res_keys) + (1 if (ret_kind and spec.early != "none") else 0)
        if spec.reach:
            if not hasattr(self, "reach_arity"):
                raise Unsupported("the call of %s is not reached by the selected range of %s"
                                  % (spec.reach, spec.func))
            rty = "Option (%s)" % " × ".join(["Int"] * self.reach_arity)
        elif spec.early == "none":
            comps = ["Int"] * len(res_keys)
            rty = "Option (%s)" % " × ".join(comps) if comps else "Option Unit"
        else:
            comps = ["Int"] * len(res_keys)
            if ret_kind:
                comps.append("Bool" if ret_kind == "bool" else "Int")
            rty = " × ".join(comps)
        # group parameters by type
        ps, cur, cur_t = [], [], None
        for nm, t in params:
            if t != cur_t and cur:
                ps.append("(%s : %s)" % (" ".join(cur), cur_t))
                cur = []
            cur.append(nm)
            cur_t = t
        if cur:
            ps.append("(%s : %s)" % (" ".join(cur), cur_t))
        what = "`%s`" % spec.func

        def mk(m):
            return "%s (#%d)" % m if isinstance(m, tuple) else m
        if not whole:
            what += " [%s%s%s]" % (
                ("block " + "/".join("%s(%s)" % (a, b) for a, b in spec.block) + "; ") if spec.block else "",
                ("after the call of %s" % mk(spec.after)) if spec.after else "from the start",
                (" up to the call of %s" % mk(spec.before)) if spec.before else " to the end")
        doc = ["/-- T1 translation of %s (%s)." % (what, spec.file)]
        if params:
            doc.append("parameters: " + ", ".join(
                "%s = %s" % (nm, self.describe_param(sp)) for (nm, _), sp in zip(params, sig.params)))
        resd = [ctx.decls[k]["name"] if not isinstance(k, str) else k for k in res_keys]
        resd = [("*" + nm if (not isinstance(k, str) and ctx.decls[k].get("kind") == "deref") else nm)
                for nm, k in zip(resd, res_keys)]
        if spec.reach:
            doc.append("result: `some (integer arguments of the call of %s)` when that call is reached, "
                       "else `none`" % spec.reach)
        elif spec.early == "none":
            doc.append("result: `none` when the C code returns early, else `some (%s)`" % ", ".join(resd))
        else:
            doc.append("result: (%s)" % ", ".join(resd + (["return value" + (" ≠ 0" if ret_kind == "bool" else "")]
                                                      if ret_kind else [])))
        if ctx.assumptions:
            doc.append("ASSUMED by the table: " + "; ".join(ctx.assumptions))
        doc[-1] += " -/"
        text = "\n".join(ctx.aux + ["\n".join(doc)] if ctx.aux else ["\n".join(doc)])
        text += "\ndef %s %s : %s :=\n" % (spec.name, " ".join(ps), rty)
        text += "\n".join("  " + x for x in body_lines) + "\n"
        if whole:
            SIGS[spec.func] = sig
        self.sig = sig
        return text

    def describe_param(self, sp):
        if sp[0] == "val":
            return "C parameter `%s`" % self.cparams[sp[1]].get("name")
        if sp[0] == "deref":
            return "initial `*%s`" % self.cparams[sp[1]].get("name")
        if sp[0] == "local":
            return "local `%s` on entry" % sp[1]
        return "`%s`" % sp[1]


def tuple_of(xs):
    xs = list(xs)
    if len(xs) == 1:
        return xs[0]
    return "(" + ", ".join(xs) + ")"


def proj(i, n):
    """projection of component i of an n-tuple (right-nested pairs)"""
    if n == 1:
        return ""
    s = ".2" * i
    if i < n - 1:
        s += ".1"
    return s


PRELUDE = """/-- `a & b` for NON-NEGATIVE operands (the translator only emits it for such operands) -/
def c2l_band (a b : Int) : Int := Int.ofNat (a.toNat &&& b.toNat)
/-- `a | b` for non-negative operands -/
def c2l_bor (a b : Int) : Int := Int.ofNat (a.toNat ||| b.toNat)
/-- `a ^ b` for non-negative operands -/
def c2l_bxor (a b : Int) : Int := Int.ofNat (a.toNat ^^^ b.toNat)
"""


def translate(spec):
    """-> Lean text of the definition (plus auxiliary loop definitions)"""
    try:
        return Translator(spec).translate()
    except Unsupported as e:
        raise Unsupported("T1: cannot translate %s (%s:%s): %s"
                          % (spec.name, spec.file, spec.func, e)) from None


def main(argv):
    import argparse
    ap = argparse.ArgumentParser(description=__doc__.split("\n\n")[0])
    ap.add_argument("cfile")
    ap.add_argument("function")
    ap.add_argument("--name")
    ap.add_argument("--table", action="append", default=[], metavar="CEXPR=leanparam")
    ap.add_argument("--before")
    ap.add_argument("--after")
    ap.add_argument("--reach")
    ap.add_argument("--result")
    ap.add_argument("--early", default="tuple", choices=["tuple", "none"])
    ap.add_argument("--ret", choices=["bool", "int"])
    a = ap.parse_args(argv)
    table = {}
    for t in a.table:
        k, v = t.split("=", 1) if "==" not in t else t.rsplit("=", 1)
        table[nows(k)] = v
    spec = Spec(a.cfile, a.function, a.name, table=table, before=a.before, after=a.after,
                result=a.result.split(",") if a.result else None, early=a.early, ret=a.ret, reach=a.reach)
    try:
        sys.stdout.write(translate(spec))
    except Unsupported as e:
        sys.stderr.write(str(e) + "\n")
        return 2
    return 0


if __name__ == "__main__":
    sys.exit(main(sys.argv[1:]))
