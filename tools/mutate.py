#!/usr/bin/env python3
"""Mutation campaign: small syntactic changes to the functions a property is anchored in, each run
through that property's check.  It measures what the seeded-change rounds sample by hand: which
compiling one-token changes of the anchored code does `./check Cxx` notice, and how (concrete
counterexample / broken obligation only / not at all).

  tools/mutate.py Cxx [-n 40] [--seed 1] [--tier quick] [--only file.c:func,...] [--list]

Targets: the functions that overlap the line ranges in the property's anchors (resolved on the
pinned commit the anchors were written against, then located by name in the current tree), or
--only.  Operators: relational / logical / arithmetic operator swaps, integer literal +-1,
condition negation, TRUE<->FALSE, statement deletion.  A mutant that does not compile is
discarded.  The campaign works in its own scratch worktree of /repo HEAD (removed at the end) and
never touches /repo.  It must be started from a PRIVATE COPY of /verif when other checks may run
at the same time (generated Lean modules are per tree); tools/mutcampaign.sh does that.
Result: mutation/Cxx.json (one record per mutant) and a summary line.
"""
import argparse, json, os, random, re, subprocess, sys, time

HERE = os.path.dirname(os.path.abspath(__file__))
VERIF = os.path.dirname(HERE)
REPO = "/repo"
ANCHOR_COMMIT = None   # resolved below: the root commit ("snapshot") the anchors refer to


def sh(cmd, **kw):
    r = subprocess.run(cmd, stdout=subprocess.PIPE, stderr=subprocess.STDOUT, text=True, **kw)
    return r.returncode, r.stdout


def sh_group(cmd, timeout, **kw):
    """like sh, but the command runs in its own session and the whole process group is killed when
    the time limit expires or the command ends (a mutant may leave spinning harness processes)"""
    import signal
    p = subprocess.Popen(cmd, stdout=subprocess.PIPE, stderr=subprocess.STDOUT, text=True,
                         start_new_session=True, **kw)
    try:
        out, _ = p.communicate(timeout=timeout)
        rc = p.returncode
    except subprocess.TimeoutExpired:
        rc, out = None, ""
    try:
        os.killpg(p.pid, signal.SIGKILL)
    except OSError:
        pass
    if rc is None:
        try:
            p.communicate(timeout=10)
        except Exception:
            pass
        raise subprocess.TimeoutExpired(cmd, timeout)
    return rc, out


def mask(text):
    """comments, string and char literals replaced by blanks of the same length"""
    out, i, n = list(text), 0, len(text)
    while i < n:
        c = text[i]
        if text.startswith("/*", i):
            j = text.find("*/", i + 2)
            j = n if j < 0 else j + 2
            for k in range(i, j):
                if out[k] != "\n":
                    out[k] = " "
            i = j
        elif text.startswith("//", i):
            j = text.find("\n", i)
            j = n if j < 0 else j
            for k in range(i, j):
                out[k] = " "
            i = j
        elif c == "#" and text[:i].rsplit("\n", 1)[-1].strip() == "":
            j = i
            while True:                       # directive with its continuation lines
                k = text.find("\n", j)
                k = n if k < 0 else k
                cont = text[j:k].rstrip().endswith("\\")
                j = k + 1
                if not cont or k >= n:
                    break
            for k in range(i, min(j - 1, n)):
                if out[k] != "\n":
                    out[k] = " "
            i = j - 1 if j - 1 > i else i + 1
        elif c in "\"'":
            j = i + 1
            while j < n and text[j] != c:
                j += 2 if text[j] == "\\" else 1
            for k in range(i + 1, min(j, n)):
                if out[k] != "\n":
                    out[k] = " "
            i = j + 1
        else:
            i += 1
    return "".join(out)


def functions(text):
    """[(name, first_line, last_line)] of top-level function definitions (1-based lines)"""
    m = mask(text)
    res, depth, start, name = [], 0, None, None
    line = 1
    last_top = 0       # offset after the last ';' or '}' at depth 0
    for i, c in enumerate(m):
        if c == "\n":
            line += 1
        elif c == "{":
            if depth == 0:
                head = m[last_top:i]
                mm = list(re.finditer(r"([A-Za-z_]\w*)\s*\(", head))
                if mm and not re.search(r"\b(struct|union|enum)\b[^()]*$", head) and "=" not in head.split("(")[0]:
                    name = mm[0].group(1)
                    if name in ("defined", "__attribute__") and len(mm) > 1:
                        name = mm[1].group(1)
                    start = m.count("\n", 0, last_top + len(head) - len(head.lstrip())) + 1
                else:
                    name = None
            depth += 1
        elif c == "}":
            depth -= 1
            if depth == 0:
                if name:
                    res.append((name, start, line))
                name = None
                last_top = i + 1
        elif c == ";" and depth == 0:
            last_top = i + 1
    return res


def anchor_targets(pid):
    """[(file, function, first_line, last_line)] in the current tree: the parts of functions that the
    property's anchors point into.  Anchor line numbers refer to the pinned (root) commit; they are
    carried over to the current tree by a line diff, so code inserted by later fixes inside an
    anchored range is included."""
    import difflib
    prop = None
    for l in open(os.path.join(VERIF, "properties.jsonl")):
        d = json.loads(l)
        if d["id"] == pid:
            prop = d
    root = sh(["git", "-C", REPO, "rev-list", "--max-parents=0", "HEAD"])[1].split()[0]
    want = {}
    texts = [m.get("where", "") for m in prop["anchors"].get("mechanism", [])]
    for w in texts:
        for mm in re.finditer(r"(src/[\w/.\-]+\.[ch])(?::([\d,\-]+))?", w):
            f, rng = mm.group(1), mm.group(2)
            spans = []
            if rng:
                for part in rng.split(","):
                    if "-" in part:
                        x, y = part.split("-")
                        spans.append((int(x), int(y)))
                    elif part:
                        spans.append((int(part), int(part)))
            want.setdefault(f, []).extend(spans or [(1, 10 ** 9)])
    targets = []
    for f, spans in want.items():
        rc, old = sh(["git", "-C", REPO, "show", "%s:%s" % (root, f)])
        if rc != 0 or not os.path.exists(os.path.join(REPO, f)):
            continue
        new = open(os.path.join(REPO, f)).read()
        ol, nl = old.split("\n"), new.split("\n")
        fo = functions(old)
        # a single line anchor means "the function starting / containing here"
        spans2 = []
        for (x, y) in spans:
            if x == y:
                for (nm, p, q) in fo:
                    if p - 3 <= x <= q:
                        spans2.append((p, q))
                        break
                else:
                    spans2.append((x, y))
            else:
                spans2.append((x, min(y, len(ol))))
        sm = difflib.SequenceMatcher(None, ol, nl, autojunk=False)
        omap = {}      # old line -> new line (1-based), for lines in equal blocks
        for tag, i1, i2, j1, j2 in sm.get_opcodes():
            if tag == "equal":
                for k in range(i2 - i1):
                    omap[i1 + k + 1] = j1 + k + 1
        for (x, y) in spans2:
            mapped = [omap[k] for k in range(x, y + 1) if k in omap]
            if not mapped:
                continue
            lo, hi = min(mapped), max(mapped)
            for (nm, p, q) in functions(new):
                a2, b2 = max(p, lo), min(q, hi)
                if a2 <= b2 and (f, nm, a2, b2) not in targets:
                    targets.append((f, nm, a2, b2))
    return targets


REL = [("<=", "<"), (">=", ">"), ("==", "!="), ("!=", "=="), ("<", "<="), (">", ">=")]


def sites(text, a, b):
    """mutation candidates inside lines a..b: (offset, length, replacement, operator-name)"""
    m = mask(text)
    lines = text.split("\n")
    off = sum(len(l) + 1 for l in lines[:a - 1])
    end = sum(len(l) + 1 for l in lines[:b])
    seg = m[off:end]
    out = []
    for mm in re.finditer(r"<=|>=|==|!=|&&|\|\||(?<![<>\-+=!&|*/%^])([<>])(?![<>=])", seg):
        t = mm.group(0)
        p = off + mm.start()
        if t in ("&&", "||"):
            out.append((p, 2, "||" if t == "&&" else "&&", "logical"))
        else:
            for x, y in REL:
                if t == x:
                    # '>' of '->' is excluded by the look-behind on '-'
                    out.append((p, len(t), y, "relational"))
                    break
    for mm in re.finditer(r"(?<=[\w\)\]] )([+\-])(?= [\w\(])|(?<=[\w\)\]])([+\-])(?=[\w\(])", seg):
        p = off + mm.start()
        t = mm.group(0)
        before = m[p - 1] if p else " "
        if m[p:p + 2] in ("++", "--", "->", "+=", "-=") or m[p - 1:p + 1] in ("++", "--"):
            continue
        if before in "eE" and p >= 2 and m[p - 2].isdigit():
            continue
        out.append((p, 1, "-" if t == "+" else "+", "arithmetic"))
    for mm in re.finditer(r"(?<![\w.])(\d+)(?![\w.])", seg):
        p = off + mm.start()
        v = int(mm.group(1))
        if mm.group(1).startswith("0") and len(mm.group(1)) > 1:
            continue
        out.append((p, len(mm.group(1)), str(v + 1), "const+1"))
        if v > 0:
            out.append((p, len(mm.group(1)), str(v - 1), "const-1"))
    for mm in re.finditer(r"\b(TRUE|FALSE)\b", seg):
        p = off + mm.start()
        out.append((p, len(mm.group(1)), "FALSE" if mm.group(1) == "TRUE" else "TRUE", "bool"))
    for mm in re.finditer(r"\b(if|while)\s*\(", seg):
        p = off + mm.end() - 1       # position of '('
        depth, q = 0, p
        while q < len(m):
            if m[q] == "(":
                depth += 1
            elif m[q] == ")":
                depth -= 1
                if depth == 0:
                    break
            q += 1
        if q < end:
            cond = text[p + 1:q]
            out.append((p, q - p + 1, "(!(" + cond + "))", "negate"))
    pos = off
    for ln in range(a, b + 1):
        raw = lines[ln - 1]
        mk = m[pos:pos + len(raw)]
        s = mk.strip()
        if (s.endswith(";") and s.count(";") == 1 and "{" not in s and "}" not in s and len(s) > 1
                and not re.match(r"(return|break|continue|goto|case|default|else|do|for|while|if)\b", s)
                and not re.match(r"(const\s+|static\s+|unsigned\s+|signed\s+|struct\s+|register\s+|volatile\s+)*[A-Za-z_]\w*[\s\*]+[\*\s]*[A-Za-z_]\w*\s*(=|;|,|\[)", s)
                and not re.match(r"(rfbLog|rfbErr|rfbLogPerror|rfbClientLog|rfbClientErr|fprintf|perror|printf)\b", s)):
            lead = len(raw) - len(raw.lstrip())
            out.append((pos + lead, len(raw) - lead, ";", "delete-stmt"))
        pos += len(raw) + 1
    return out


def classify(out):
    last = [l for l in out.strip().splitlines() if l.startswith(("OK ", "VIOLATION "))]
    if not last:
        return "machinery-error"
    if any(l.startswith("VIOLATION") and "no-failing-input-found" not in l for l in last):
        return "killed-counterexample"
    if any(l.startswith("VIOLATION") for l in last):
        return "killed-obligation-only"
    return "survived"


def main():
    ap = argparse.ArgumentParser()
    ap.add_argument("pid")
    ap.add_argument("-n", type=int, default=40)
    ap.add_argument("--seed", type=int, default=1)
    ap.add_argument("--tier", default="quick")
    ap.add_argument("--only", default="")
    ap.add_argument("--list", action="store_true")
    ap.add_argument("--timeout", type=int, default=1800)
    a = ap.parse_args()
    if a.only:
        targets = []
        for x in a.only.split(","):
            f, nm = x.split(":")
            for (n2, p, q) in functions(open(os.path.join(REPO, f)).read()):
                if n2 == nm:
                    targets.append((f, nm, p, q))
    else:
        targets = anchor_targets(a.pid)
    if a.list:
        for t in targets:
            print("%s:%s:%d-%d" % t)
        return
    rng = random.Random(a.seed * 1000003 + int(a.pid[1:]))
    wt = "/tmp/wt-mut-%s-%d" % (a.pid, os.getpid())
    rc, out = sh(["git", "-C", REPO, "worktree", "add", "-q", "--detach", wt, "HEAD"])
    if rc != 0:
        print(out)
        sys.exit(2)
    recs = []
    try:
        cand = []
        for (f, nm, x, y) in targets:
            text = open(os.path.join(wt, f)).read()
            for s in sites(text, x, y):
                cand.append((f, nm) + s)
        # spread over operators and functions: sample without replacement, at most 3 per (function, operator)
        rng.shuffle(cand)
        chosen, per = [], {}
        for c in cand:
            k = (c[0], c[1], c[5])
            if per.get(k, 0) >= 3:
                continue
            per[k] = per.get(k, 0) + 1
            chosen.append(c)
        rng.shuffle(chosen)
        env = dict(os.environ, VERIF_REPO=wt, VERIF_SEED=str(a.seed))
        sys.path.insert(0, VERIF)
        done = 0
        for (f, nm, p, ln, rep, op) in chosen:
            if done >= a.n:
                break
            path = os.path.join(wt, f)
            text = open(path).read()
            line = text.count("\n", 0, p) + 1
            mutated = text[:p] + rep + text[p + ln:]
            open(path, "w").write(mutated)
            # does it compile?  (syntax + types of this translation unit; templates are #included
            # by their users, so compile the users: cheap proxy = build all objects through the cache)
            rc, out = sh([sys.executable, os.path.join(VERIF, "vlib", "build.py")], env=env, cwd=VERIF)
            if rc != 0:
                open(path, "w").write(text)
                continue
            t0 = time.time()
            try:
                rc, out = sh_group([os.path.join(VERIF, "check"), a.pid, "--tier", a.tier], a.timeout,
                                   env=env, cwd=VERIF)
                res = classify(out)
            except subprocess.TimeoutExpired:
                res, out = "timeout", ""
            open(path, "w").write(text)
            rec = {"file": f, "function": nm, "line": line, "operator": op,
                   "before": text[p:p + ln][:120], "after": rep[:120], "result": res,
                   "wall": round(time.time() - t0, 1),
                   "context": text.split("\n")[line - 1].strip()[:160]}
            if res in ("survived", "machinery-error"):
                rec["tail"] = out.strip().splitlines()[-3:]
            recs.append(rec)
            done += 1
            print("%-24s %s:%d %-12s %s" % (res, f.split("/")[-1], line, op, rec["context"][:70]), flush=True)
    finally:
        sh(["git", "-C", REPO, "worktree", "remove", "--force", wt])
    os.makedirs(os.path.join(VERIF, "mutation"), exist_ok=True)
    summ = {}
    for r in recs:
        summ[r["result"]] = summ.get(r["result"], 0) + 1
    head = sh(["git", "-C", REPO, "log", "--format=%h", "-1"])[1].strip()
    json.dump({"property": a.pid, "repo_head": head, "seed": a.seed, "tier": a.tier,
               "targets": ["%s:%s:%d-%d" % t for t in targets], "summary": summ, "mutants": recs},
              open(os.path.join(VERIF, "mutation", a.pid + ".json"), "w"), indent=1)
    print("SUMMARY %s %s" % (a.pid, json.dumps(summ)))


if __name__ == "__main__":
    main()
