#!/usr/bin/env python3
"""Regenerate section 12 of DESIGN.md from docs/DESIGN12.tmpl + known_findings.json + seeded/*/meta.json."""
import json, glob, os
ROOT = os.path.dirname(os.path.dirname(os.path.abspath(__file__)))
os.chdir(ROOT)
s = open('DESIGN.md').read()
k = json.load(open('known_findings.json'))['findings']
rows, seen = [], set()
for f in k:
    if f['status'] == 'fixed' and f['commit'] not in seen:
        seen.add(f['commit'])
        rows.append("| `%s` | %s | `%s` | %s |" % (f['commit'], f['property'], f['id'], f['what'].replace('|', '/')))
WHY = {"cpixel-depth": "interoperability (see below)", "ws-lone-control-frame-timeout": "no small repair",
       "c03-nrects-16bit": "protocol field width", "c03-softcursor-outside-announced": "repair not small"}
known = ["| %s | `%s` | %s | %s |" % (f['property'], f['id'], f['what'].replace('|', '/'), WHY.get(f['id'], f.get('why', '')))
         for f in k if f['status'] == 'known']
seeds = ["| seed | property | what it changes (short) | needs | result |", "|---|---|---|---|---|"]
for d in sorted(glob.glob('seeded/*/meta.json')):
    m = json.load(open(d))
    sid = os.path.basename(os.path.dirname(d))
    res = m.get('final_result') or m.get('first_result') or m.get('detected_by', '')
    seeds.append("| %s | %s | %s | %s | %s |" % (sid, m.get('property', sid[:3]), m.get('what', '').replace('|', '/').replace('\n', ' ')[:260],
                                              m.get('needs', '').replace('|', '/').replace('\n', ' ')[:200], res.replace('|', '/')))
sec = (open('docs/DESIGN12.tmpl').read().replace('@@FIXED@@', "\n".join(rows)).replace('@@KNOWN@@', "\n".join(known))
       .replace('@@NFIX@@', str(len(seen))).replace('@@SEEDS@@', "\n".join(seeds)))
import re
def _obl(m):
    try:
        e = json.load(open('evidence/%s.json' % m.group(1)))
        def find(o, k):
            if isinstance(o, dict):
                if k in o:
                    return o[k]
                for v in o.values():
                    r = find(v, k)
                    if r is not None:
                        return r
            if isinstance(o, list):
                for v in o:
                    r = find(v, k)
                    if r is not None:
                        return r
            return None
        n = find(e, 'obligations')
        if isinstance(n, list):
            n = len(n)
        return str(n if n is not None else '?')
    except Exception:
        return '?'
sec = re.sub(r'@@OBL:(C\d\d)@@', _obl, sec)
if '## 12. As built' in s:
    s = s[:s.index('## 12. As built')].rstrip() + "\n\n"
else:
    s = s.rstrip() + "\n\n---------------------------------------------------------------------------------------------------\n\n"
open('DESIGN.md', 'w').write(s + sec)
print("DESIGN.md section 12 regenerated: %d fixes, %d known, %d seeds" % (len(seen), len(known), len(seeds) - 2))
