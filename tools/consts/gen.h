/* helpers for T0 probe programs: each tools/consts/<name>.c is a C program compiled against
   /repo's current headers (and may #include repo .c files to see file-local macros); it prints a
   Lean module body to stdout, which becomes lean/VncModel/Gen/<Name>.lean */
#ifndef VERIF_GEN_H
#define VERIF_GEN_H
#include <stdio.h>
#define LNAT(name, val) printf("def %s : Nat := %llu\n", name, (unsigned long long)(val))
#define LINT(name, val) printf("def %s : Int := %lld\n", name, (long long)(val))
#define N(x) LNAT(#x, x)
static void lnat_table(const char *name, const unsigned long long *t, int n) {
  int i; printf("def %s : List Nat := [", name);
  for (i = 0; i < n; i++) printf("%s%llu", i ? ", " : "", t[i]);
  printf("]\n");
}
#endif
