/* T0 probe for C18 (Clip): protocol constants of the cut-text messages, from /repo's current
 * headers.  Output: Lean definitions (first part of VncModel.Gen.C18).  Literals that are not
 * macros (the 1 MiB limits, default capabilities, the fixed caps/notify messages) are extracted
 * from the function bodies by tools/consts/c18.py. */
#include <rfb/rfb.h>
#include <rfb/rfbclient.h>
#include "gen.h"

static int bit_of(unsigned long v, const char *name) {
  int i;
  for (i = 0; i < 32; i++) if (v == (1ul << i)) return i;
  fprintf(stderr, "%s is not a single bit: %#lx\n", name, v);
  exit(1);
}
#define BIT(lean, macro) do { LNAT(lean, bit_of((unsigned long)(macro), #macro)); } while (0)

int main(void) {
  LNAT("msgClientCutText", rfbClientCutText);
  LNAT("msgServerCutText", rfbServerCutText);
  LNAT("msgSetEncodings", rfbSetEncodings);
  LNAT("msgBell", rfbBell);
  LNAT("szClientCutTextMsg", sz_rfbClientCutTextMsg);
  LNAT("szServerCutTextMsg", sz_rfbServerCutTextMsg);
  LNAT("szSetEncodingsMsg", sz_rfbSetEncodingsMsg);
  LNAT("encExtendedClipboard", (unsigned long)(uint32_t)rfbEncodingExtendedClipboard);
  /* bit numbers of the flag word (the model uses Nat.testBit) */
  BIT("bText", rfbExtendedClipboard_Text);
  BIT("bCaps", rfbExtendedClipboard_Caps);
  BIT("bRequest", rfbExtendedClipboard_Request);
  BIT("bPeek", rfbExtendedClipboard_Peek);
  BIT("bNotify", rfbExtendedClipboard_Notify);
  BIT("bProvide", rfbExtendedClipboard_Provide);
  /* the layout the model relies on: type byte, 3 pad bytes, BE32 length */
  if (sz_rfbClientCutTextMsg != 8 || sz_rfbServerCutTextMsg != 8 || sz_rfbSetEncodingsMsg != 4 ||
      (size_t)&((rfbClientCutTextMsg *)0)->length != 4 || (size_t)&((rfbServerCutTextMsg *)0)->length != 4 ||
      (size_t)&((rfbSetEncodingsMsg *)0)->nEncodings != 2 ||
      sizeof(((rfbClientRec *)0)->extClipboardMaxUnsolicitedSize) != 4 ||
      sizeof(((rfbClientRec *)0)->extClipboardUserCap) != 4) {
    fprintf(stderr, "cut-text message layout changed\n");
    return 1;
  }
  return 0;
}
