"""T0 extractor for C01: file-local literals of the encoders (anchored regular expressions on the
source text; a pattern that no longer matches raises = broken obligation)."""
import os, re


def must(pat, text, what):
    m = re.search(pat, text, re.S)
    if not m:
        raise RuntimeError("C01 T0: pattern for %s no longer matches" % what)
    return m


def gen(repo):
    src = lambda p: open(os.path.join(repo, "src", "libvncserver", p)).read()
    out = []
    z = src("zrleencodetemplate.c")
    m = must(r"static const int bitsPerPackedPixel\[\]\s*=\s*\{([^}]*)\}", z, "bitsPerPackedPixel")
    tbl = [int(x) for x in m.group(1).replace("\n", " ").split(",") if x.strip()]
    out.append("def bitsPerPackedPixelTable : List Nat := [%s]" % ", ".join(map(str, tbl)))
    hx = src("hextile.c")
    m = must(r"for \(y = ry; y < ry\+rh; y \+= (\d+)\)", hx, "hextile tile height")
    out.append("def hextileTile : Nat := %s" % m.group(1))
    m = must(r"\(cl->ublen \+ 1 \+ \((\d+) \+ (\d+) \* (\d+)\) \* \(bpp/8\)\) >\s*\\\s*UPDATE_BUF_SIZE", hx, "hextile flush test")
    out.append("def hextileFlushReserve : Nat × Nat × Nat := (%s, %s, %s)" % m.groups())
    rs = src("rfbserver.c")
    m = must(r"cl->correMaxWidth = (\d+);\s*cl->correMaxHeight = (\d+);", rs, "correMaxWidth/Height defaults")
    out.append("def correMaxDefault : Nat × Nat := (%s, %s)" % m.groups())
    t = src("tight.c")
    m = must(r"#define TIGHT_MIN_TO_COMPRESS (\d+)", t, "TIGHT_MIN_TO_COMPRESS")
    out.append("def TIGHT_MIN_TO_COMPRESS : Nat := %s" % m.group(1))
    for name in ("MIN_SPLIT_RECT_SIZE", "MIN_SOLID_SUBRECT_SIZE", "MAX_SPLIT_TILE_SIZE", "TIGHT_MAX_RECT_SIZE",
                 "TIGHT_MAX_RECT_WIDTH"):
        m = must(r"#define %s\s+(\d+)" % name, t, name)
        out.append("def %s : Nat := %s" % (name, m.group(1)))
    m = must(r"static TIGHT_CONF tightConf\[4\] = \{\s*\{([^}]*)\}[^{]*\{([^}]*)\}", t, "tightConf rows 0,1")
    rows = [[int(x) for x in g.split(",")] for g in m.groups()]
    out.append("def tightConfRows : List (List Nat) := %s" % str(rows).replace("'", ""))
    must(r"else if \(cl->tightCompressLevel > 1\) cl->tightCompressLevel = 1;", t, "tight level clamp without JPEG")
    zo = src("zrleoutstream.c")
    must(r"deflate\(&os->zs, Z_SYNC_FLUSH\)", zo, "zrleOutStreamFlush sync flush")
    return "\n".join(out) + "\n"
