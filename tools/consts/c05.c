/* T0 probe for C05: constants of the handshake / VNC authentication the Lean model and theorems use.
 * vncauth.c is #included to see its file-local `fixedkey`; its crypto calls are stubbed (never run). */
#include "gen.h"
#include <rfb/rfb.h>
#include "crypto.h"
int encrypt_rfbdes(void *out, int *out_len, const unsigned char key[8], const void *in, const size_t in_len) { return 0; }
int decrypt_rfbdes(void *out, int *out_len, const unsigned char key[8], const void *in, const size_t in_len) { return 0; }
void random_bytes(void *out, size_t len) { }
char rfbEndianTest = (1==1);   /* as in main.c; needed by Swap32IfLE in SetCapInfo */
#include "vncauth.c"
#include "tightvnc-filetransfer/rfbtightproto.h"

int main(void) {
  int i;
  rfbClientRec cl;
  N(CHALLENGESIZE);
  N(sz_rfbProtocolVersionMsg);
  N(sz_rfbClientInitMsg);
  N(sz_rfbServerInitMsg);
  N(rfbProtocolMajorVersion);
  N(rfbProtocolMinorVersion);
  N(rfbSecTypeInvalid);
  N(rfbSecTypeNone);
  N(rfbSecTypeVncAuth);
  N(rfbVncAuthOK);
  N(rfbVncAuthFailed);
  LNAT("sizeofAuthChallenge", sizeof cl.authChallenge);
  printf("def rfbProtocolVersionFormat : String := \"");
  for (i = 0; rfbProtocolVersionFormat[i]; i++) {
    if (rfbProtocolVersionFormat[i] == '\n') printf("\\n"); else putchar(rfbProtocolVersionFormat[i]);
  }
  printf("\"\n");
  {
    rfbCapabilityInfo cap; unsigned char *p = (unsigned char *)&cap;
    SetCapInfo(&cap, rfbAuthVNC, rfbStandardVendor);
    printf("/-- the capability record rfbSendAuthCaps writes for VNC authentication -/\n");
    printf("def tightCapAuthVNC : List UInt8 := [");
    for (i = 0; i < (int)sz_rfbCapabilityInfo; i++) printf("%s%u", i ? ", " : "", p[i]);
    printf("]\n");
  }
  N(rfbSecTypeTight);
  N(rfbAuthVNC);
  N(sz_rfbTunnelingCapsMsg);
  N(sz_rfbAuthenticationCapsMsg);
  N(sz_rfbCapabilityInfo);
  N(sz_rfbInteractionCapsMsg);
  printf("def fixedkey : List UInt8 := [");
  for (i = 0; i < 8; i++) printf("%s%u", i ? ", " : "", fixedkey[i]);
  printf("]\n");
  return 0;
}
