"""T0 extractor for C16: what the library's default setDesktopSizeHook answers (the value a client
gets when the application installed no hook).  Taken from the source text of
rfbDefaultSetDesktopSize in main.c and the macro's value in rfbproto.h; a pattern that no longer
matches raises (broken obligation), it never falls back to a default."""
import os, re


def gen(repo):
    src = open(os.path.join(repo, "src", "libvncserver", "main.c"), encoding="latin-1").read()
    m = re.search(r"static\s+int\s+rfbDefaultSetDesktopSize\s*\([^)]*\)\s*\{(.*?)\n\}", src, flags=re.S)
    if not m:
        raise RuntimeError("C16/T0: rfbDefaultSetDesktopSize not found in main.c")
    body = re.sub(r"/\*.*?\*/", " ", m.group(1), flags=re.S)
    rets = re.findall(r"return\s+([A-Za-z_0-9]+)\s*;", body)
    if len(rets) != 1 or re.search(r"\b(if|for|while|switch)\b", body):
        raise RuntimeError("C16/T0: rfbDefaultSetDesktopSize is no longer a single `return CONST;` (%r)" % rets)
    name = rets[0]
    if re.fullmatch(r"[0-9]+", name):
        val = int(name)
    else:
        hdr = open(os.path.join(repo, "include", "rfb", "rfbproto.h"), encoding="latin-1").read()
        d = re.findall(r"#define\s+%s\s+([0-9]+)\b" % re.escape(name), hdr)
        if len(d) != 1:
            raise RuntimeError("C16/T0: macro %s not found exactly once in rfbproto.h" % name)
        val = int(d[0])
    if not re.search(r"screen->setDesktopSizeHook\s*=\s*rfbDefaultSetDesktopSize\s*;", src):
        raise RuntimeError("C16/T0: rfbGetScreen no longer installs rfbDefaultSetDesktopSize")
    # does rfbNewFramebuffer raise newFBSizePending for every client it updates, or only for those that have
    # already announced resize support?  (fixes/C16-late-setencodings-size.diff makes it unconditional)
    m2 = re.search(r"\nvoid rfbNewFramebuffer\s*\(.*?\n\}\n", src, flags=re.S)
    if not m2:
        raise RuntimeError("C16/T0: rfbNewFramebuffer not found in main.c")
    nb = re.sub(r"/\*.*?\*/", " ", m2.group(0), flags=re.S)
    sets = re.findall(r"(if\s*\(\s*cl->useNewFBSize\s*\)\s*)?cl->newFBSizePending\s*=\s*TRUE\s*;", nb)
    if len(sets) != 1:
        raise RuntimeError("C16/T0: expected exactly one `cl->newFBSizePending = TRUE;` in rfbNewFramebuffer, found %d" % len(sets))
    pend_all = "false" if sets[0] else "true"
    extra = ("/-- rfbNewFramebuffer raises newFBSizePending for EVERY client it updates (true) or only for clients\n"
             "that already announced NewFBSize / ExtendedDesktopSize (false) -/\ndef pendingForAll : Bool := %s\n" % pend_all)
    return extra + "/-- return value of rfbDefaultSetDesktopSize (`return %s;`) -/\ndef defaultHookResult : Int := %d\n" % (name, val)
