"""T1 extractor: Lean definitions of whitelisted leaf functions, REGENERATED from the current
working tree on every run by tools/c2lean.py (clang typed AST -> Lean over Int).

Output: lean/VncModel/Gen/Leaf.lean (namespace VncModel.Gen.Leaf).  The theorems in
lean/VncModel/Leaf/Equiv*.lean state that each generated definition equals the hand-written model
definition the property proofs are about; a change of the C code that alters one of these functions
changes the generated text, and `lake build` of the Equiv module that mentions it fails.

A function that can no longer be located / translated is NOT replaced by a default: its definition
is simply absent from the generated file (a comment says why), so exactly the Equiv module that
mentions it stops compiling (the other consumers of this shared file are not affected).
See docs/T1.md.
"""
import os, sys

HERE = os.path.dirname(os.path.abspath(__file__))
sys.path.insert(0, os.path.dirname(HERE))
import c2lean  # noqa: E402
from c2lean import Spec  # noqa: E402

S = "src/libvncserver/"


def whitelist():
    scale_tbl_x = {"from==to": "same", "from==NULL": "fromNull", "to==NULL": "toNull",
                   "to->width": "toW", "from->width": "fromW"}
    scale_tbl_y = {"from==to": "same", "from==NULL": "fromNull", "to==NULL": "toNull",
                   "to->height": "toH", "from->height": "fromH"}
    wl = [
        # ---- rfbregion.c (consumer: C11, Leaf/EquivRegion.lean)
        Spec(S + "rfbregion.c", "sraClipRect"),
        Spec(S + "rfbregion.c", "sraClipRect2"),
        # the degenerate-rectangle guard of sraRgnCreateRect: everything before the first allocation
        Spec(S + "rfbregion.c", "sraRgnCreateRect", name="sraRgnCreateRect_guard",
             before=("sraSpanListCreate", 0), early="none", result=["x1", "y1", "x2", "y2"]),
        # ---- main.c / rfbserver.c / cursor.c (consumer: C02, Leaf/EquivUpdate.lean)
        Spec(S + "main.c", "rfbMarkRectAsModified", name="rfbMarkRectAsModified_clip",
             before="rfbScaledScreenUpdate", early="none",
             table={"screen->width": "width", "screen->height": "height"}),
        Spec(S + "rfbserver.c", "rectSwapIfLEAndClip", name="rectSwapIfLEAndClip_tail",
             after="rfbScaledCorrection",
             table={"cl->screen->width": "width", "cl->screen->height": "height"}),
        Spec(S + "cursor.c", "rfbRedrawAfterHideCursor", name="rfbRedrawAfterHideCursor_rect",
             block=[("if", "c")], reach="sraRgnCreateRect",
             table={"cl->cursorX": "cursorX", "cl->cursorY": "cursorY", "c->xhot": "xhot",
                    "c->yhot": "yhot", "c->width": "cw", "c->height": "ch",
                    "s->width": "width", "s->height": "height"}),
        # ---- scale.c (consumer: C17, Leaf/EquivScale.lean)
        Spec(S + "scale.c", "pad4"),
        Spec(S + "scale.c", "ScaleX", table=scale_tbl_x),
        Spec(S + "scale.c", "ScaleY", table=scale_tbl_y),
        # ---- rectangle counts of rfbSendFramebufferUpdate (consumer: C03, Leaf/EquivWire.lean)
        Spec(S + "tight.c", "rfbNumCodedRectsTight",
             table={"cl->enableLastRectEncoding": "lastRect:Bool"}),
        Spec(S + "rfbserver.c", "rfbSendFramebufferUpdate", name="rectCount_CoRRE",
             block=[("if", "cl->preferredEncoding == rfbEncodingCoRRE"), ("for", 0)],
             after="rfbScaledCorrection", result=["nUpdateRegionRects"],
             table={"cl->correMaxWidth": "correMaxWidth", "cl->correMaxHeight": "correMaxHeight"}),
        Spec(S + "rfbserver.c", "rfbSendFramebufferUpdate", name="rectCount_Ultra",
             block=[("if", "cl->preferredEncoding == rfbEncodingUltra"), ("for", 0)],
             after="rfbScaledCorrection", result=["nUpdateRegionRects"]),
        Spec(S + "rfbserver.c", "rfbSendFramebufferUpdate", name="rectCount_Zlib",
             block=[("if", "cl->preferredEncoding == rfbEncodingZlib"), ("for", 0)],
             after="rfbScaledCorrection", result=["nUpdateRegionRects"]),
        # ---- ws_decode.c (consumer: C09, Leaf/EquivWs.lean)
        Spec(S + "ws_decode.c", "hybiRemaining",
             table={"wsctx->header.payloadLen": "payloadLen", "wsctx->nReadPayload": "nReadPayload"}),
        # ---- translate.c (consumer: C10, Leaf/EquivTranslate.lean): the guard that refuses client
        # colour channels which do not fit the pixel (keeps every later `<< shift` defined)
        Spec(S + "translate.c", "rfbChannelFitsPixel"),
    ]
    return wl


def gen(repo):
    # c2lean reads the tree through vlib.build.REPO (= $VERIF_REPO or /repo), the same root
    # gen_consts.py passes here
    c2lean.build.REPO = repo
    c2lean.SIGS.clear()
    c2lean._ast_cache.clear()
    out = ["set_option linter.unusedVariables false\n",
           "/-! T1: definitions translated from the C sources by tools/c2lean.py (docs/T1.md).",
           "`Int` = mathematical value of the C object; signed overflow is assumed absent (UB);",
           "conversions to narrower/unsigned types are explicit `%`; `/` `%` are `Int.tdiv` `Int.tmod`. -/\n",
           c2lean.PRELUDE]
    failed = []
    for spec in whitelist():
        try:
            out.append(c2lean.translate(spec))
        except c2lean.Unsupported as e:
            msg = str(e).replace("-/", "- /")
            failed.append(msg)
            out.append("/- BROKEN OBLIGATION: `%s` is absent.\n%s -/\n" % (spec.name, msg))
            print(msg)
    if failed:
        print("T1: %d whitelisted function(s) could not be translated; the Equiv theorems about "
              "them will fail to build" % len(failed))
    return "\n".join(out)


if __name__ == "__main__":
    from vlib import build
    sys.stdout.write(gen(build.REPO))
