"""T0 extractor for C07/C08: literals of LibVNCClient that are not visible to a C probe (file-local
macros of the template decoders, the `1<<20` length caps, stack array sizes).  Every pattern is
anchored; a pattern that no longer matches raises (broken obligation), never a default."""
import os, re


def _one(text, pat, what):
    m = re.findall(pat, text, re.S)
    if len(m) != 1:
        raise RuntimeError("C07 T0: pattern for %s matched %d times" % (what, len(m)))
    return m[0]


def _expr(e):
    e = e.strip()
    if not re.fullmatch(r"[0-9x<>*+() ]+", e):
        raise RuntimeError("C07 T0: unexpected constant expression %r" % e)
    return int(eval(e))


def gen(repo):
    rd = lambda p: open(os.path.join(repo, p)).read()
    rc, tight, cursor = rd("src/libvncclient/rfbclient.c"), rd("src/libvncclient/tight.c"), rd("src/libvncclient/cursor.c")
    trle, zrle = rd("src/libvncclient/trle.c"), rd("src/libvncclient/zrle.c")
    out = []
    out.append("def reasonCap : Nat := %d" % _expr(_one(rc, r"if\s*\(\s*reasonLen\s*>\s*([^)]+)\)", "reason length cap")))
    out.append("def nameCap : Nat := %d" % _expr(_one(rc, r"if\s*\(\s*client->si\.nameLength\s*>\s*([^)]+)\)", "desktop name cap")))
    out.append("def cutTextCap : Nat := %d" % _expr(_one(rc, r"if\s*\(\s*msg\.sct\.length\s*>\s*([^)]+)\)", "cut text cap")))
    out.append("def textChatCap : Nat := %d" % _expr(_one(rc, r"#define\s+MAX_TEXTCHAT_SIZE\s+(\d+)", "text chat cap")))
    out.append("def tightMinToCompress : Nat := %d" % _expr(_one(tight, r"#define\s+TIGHT_MIN_TO_COMPRESS\s+(\d+)", "TIGHT_MIN_TO_COMPRESS")))
    out.append("def maxCursorSize : Nat := %d" % _expr(_one(cursor, r"#define\s+MAX_CURSOR_SIZE\s+(\d+)", "MAX_CURSOR_SIZE")))
    rows = re.findall(r"uint(?:8|16)_t\s+thisRow\[([^\]]+)\]", tight)
    if len(rows) != 2 or len(set(_expr(r) for r in rows)) != 1:
        raise RuntimeError("C07 T0: thisRow declarations changed: %r" % rows)
    out.append("def tightThisRowCells : Nat := %d" % _expr(rows[0]))
    out.append("def trlePaletteCells : Nat := %d" % _expr(_one(trle, r"CARDBPP\s+palette\[(\d+)\]", "trle palette")))
    pz = re.findall(r"CARDBPP\s+palette\[(\d+)\]", zrle)
    if len(pz) != 2 or pz[0] != pz[1]:
        raise RuntimeError("C07 T0: zrle palette declarations changed: %r" % pz)
    out.append("def zrlePaletteCells : Nat := %d" % int(pz[0]))
    return "\n".join(out) + "\n"
