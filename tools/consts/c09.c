/* T0 probe for C09: constants of the WebSocket layer the theorems depend on.
   ws_decode.c is #included so that its file-local macros are visible. */
#include <rfb/rfb.h>
#include "gen.h"
rfbLogProc rfbLog = 0, rfbErr = 0;
#include "base64.c"
#include "ws_decode.c"

int main(void) {
  ws_ctx_t *w = 0;
  LNAT("decodeBufSize", sizeof w->codeBufDecode);
  LNAT("encodeBufSize", sizeof w->codeBufEncode);
  LNAT("carryBufSize", sizeof w->carryBuf);
  LNAT("wsHLenMax", WSHLENMAX);
  LNAT("hdrLenShort", WS_HYBI_HEADER_LEN_SHORT);
  LNAT("hdrLenExtended", WS_HYBI_HEADER_LEN_EXTENDED);
  LNAT("hdrLenLong", WS_HYBI_HEADER_LEN_LONG);
  LNAT("maskLen", WS_HYBI_MASK_LEN);
  LNAT("updateBufSize", UPDATE_BUF_SIZE);
  LNAT("b64LenUpdateBuf", B64LEN(UPDATE_BUF_SIZE));
  LNAT("opContinuation", WS_OPCODE_CONTINUATION);
  LNAT("opText", WS_OPCODE_TEXT_FRAME);
  LNAT("opBinary", WS_OPCODE_BINARY_FRAME);
  LNAT("opClose", WS_OPCODE_CLOSE);
  LNAT("opPing", WS_OPCODE_PING);
  LNAT("opPong", WS_OPCODE_PONG);
  LNAT("opInvalid", WS_OPCODE_INVALID);
  LNAT("stHeaderPending", WS_HYBI_STATE_HEADER_PENDING);
  LNAT("stDataAvailable", WS_HYBI_STATE_DATA_AVAILABLE);
  LNAT("stDataNeeded", WS_HYBI_STATE_DATA_NEEDED);
  LNAT("stFrameComplete", WS_HYBI_STATE_FRAME_COMPLETE);
  LNAT("stCloseReasonPending", WS_HYBI_STATE_CLOSE_REASON_PENDING);
  LNAT("stErr", WS_HYBI_STATE_ERR);
  return 0;
}
