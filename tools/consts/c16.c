/* T0 probe for C16: protocol constants of the desktop-size negotiation the model / theorems use */
#include "gen.h"
#include <rfb/rfb.h>
int main(void) {
  LINT("reasonGeneric", rfbExtDesktopSize_GenericChange);
  LINT("reasonClient", rfbExtDesktopSize_ClientRequestedChange);
  LINT("reasonOther", rfbExtDesktopSize_OtherClientRequestedChange);
  LINT("statusSuccess", rfbExtDesktopSize_Success);
  LINT("statusProhibited", rfbExtDesktopSize_ResizeProhibited);
  LINT("statusOutOfResources", rfbExtDesktopSize_OutOfResources);
  LINT("statusInvalidLayout", rfbExtDesktopSize_InvalidScreenLayout);
  N(UPDATE_BUF_SIZE);
  N(sz_rfbFramebufferUpdateMsg);
  N(sz_rfbFramebufferUpdateRectHeader);
  N(sz_rfbExtDesktopSizeMsg);
  N(sz_rfbExtDesktopScreen);
  N(sz_rfbSetDesktopSizeMsg);
  LNAT("maxScreensInRequest", (uint8_t)~0);   /* numberOfScreens is a uint8_t */
  LNAT("encNewFBSize", (uint32_t)rfbEncodingNewFBSize);
  LNAT("encExtDesktopSize", (uint32_t)rfbEncodingExtDesktopSize);
  LNAT("msgSetDesktopSize", rfbSetDesktopSize);
  LNAT("msgResizeFrameBuffer", rfbResizeFrameBuffer);
  return 0;
}
