"""T0 extractor for C09: literals of websockets.c that are not reachable from a linked probe
(file-local macros / literals inside static functions).  A pattern that no longer matches raises
-> broken obligation, never a default."""
import os, re


def _one(pat, text, what):
    m = re.search(pat, text, re.S)
    if not m:
        raise RuntimeError("C09 T0: pattern for %s no longer matches websockets.c" % what)
    return m


def lean_str(s):
    return '"' + s.replace("\\", "\\\\").replace('"', '\\"').replace("\r", "\\r").replace("\n", "\\n") + '"'


def c_unescape(s):
    s = re.sub(r"\\\n", "", s)          # line continuations inside the macro
    return s.replace("\\r", "\r").replace("\\n", "\n").replace('\\"', '"')


def gen(repo):
    t = open(os.path.join(repo, "src", "libvncserver", "websockets.c")).read()
    out = []
    guid = _one(r'#define\s+GUID\s+"([^"]+)"', t, "GUID").group(1)
    out.append("def guid : String := %s" % lean_str(guid))
    out.append("def maxHandshakeLen : Nat := %s" %
               _one(r"#define\s+WEBSOCKETS_MAX_HANDSHAKE_LEN\s+(\d+)", t, "WEBSOCKETS_MAX_HANDSHAKE_LEN").group(1))
    h1 = _one(r'#define\s+SERVER_HANDSHAKE_HYBI\s+"((?:[^"\\]|\\.|\\\n)*)"', t, "SERVER_HANDSHAKE_HYBI").group(1)
    h2 = _one(r'#define\s+SERVER_HANDSHAKE_HYBI_NO_PROTOCOL\s+"((?:[^"\\]|\\.|\\\n)*)"', t,
              "SERVER_HANDSHAKE_HYBI_NO_PROTOCOL").group(1)
    out.append("def handshakeFmt : String := %s" % lean_str(c_unescape(h1)))
    out.append("def handshakeFmtNoProto : String := %s" % lean_str(c_unescape(h2)))
    # length-class selection of webSocketsEncodeHybi: `if (blen <= A) ... else if (blen <= B)`
    m = _one(r"if\s*\(\s*blen\s*<=\s*(\d+)\s*\)\s*\{[^}]*sz\s*=\s*2\s*;[^}]*\}\s*else\s+if\s*\(\s*blen\s*<=\s*(\d+)\s*\)\s*\{[^}]*sz\s*=\s*4\s*;",
             t, "encoder length classes")
    out.append("def encShortMax : Nat := %s" % m.group(1))
    out.append("def encExtMax : Nat := %s" % m.group(2))
    _one(r"if\s*\(\s*len\s*>\s*UPDATE_BUF_SIZE\s*\)", t, "encoder UPDATE_BUF_SIZE guard")
    s = open(os.path.join(repo, "src", "libvncserver", "sockets.c")).read()
    if not re.search(r"while\s*\(\s*len\s*>\s*UPDATE_BUF_SIZE\s*\)", s):
        raise RuntimeError("C09 T0: rfbWriteExact chunking loop not found in sockets.c")
    return "\n".join(out) + "\n"
