"""T0 extractor for C20: function-local array sizes and literals of src/libvncserver/httpd.c.

Everything here is obtained by anchored regular expressions on the source text; a pattern that no
longer matches raises (broken obligation: the model's constants can no longer be regenerated), it
never falls back to a default.  Output is appended to lean/VncModel/Gen/C20.lean (after c20.c's).
"""
import os, re


def _cstr(lit):
    """decode the body of a C string literal (the escapes httpd.c uses) -> bytes"""
    out, i = bytearray(), 0
    esc = {"n": 10, "r": 13, "t": 9, "\\": 92, '"': 34, "0": 0, "'": 39}
    while i < len(lit):
        c = lit[i]
        if c == "\\":
            i += 1
            if lit[i] not in esc:
                raise ValueError("unsupported escape \\%s in %r" % (lit[i], lit))
            out.append(esc[lit[i]])
        else:
            out.append(ord(c))
        i += 1
    return bytes(out)


def _lb(name, b, doc=None):
    s = ""
    if doc:
        s += "/-- %s -/\n" % doc
    return s + "def %s : List UInt8 := [%s]\n" % (name, ", ".join(str(x) for x in b))


def _one(pat, text, what, flags=0):
    m = re.findall(pat, text, flags)
    if len(m) != 1:
        raise ValueError("C20 extractor: pattern for %s matched %d times (expected exactly 1): %s"
                         % (what, len(m), pat))
    return m[0]


def _arith(expr):
    if not re.fullmatch(r"[0-9+\-* ()]+", expr):
        raise ValueError("C20 extractor: not a constant expression: %r" % expr)
    return int(eval(expr, {"__builtins__": {}}, {}))


def gen(repo):
    src = open(os.path.join(repo, "src", "libvncserver", "httpd.c")).read()
    m = re.search(r"\nhttpProcessInput\(rfbScreenInfoPtr rfbScreen\)\n\{(.*?)\n\}\n", src, re.S)
    if not m:
        raise ValueError("C20 extractor: httpProcessInput body not found")
    body = m.group(1)
    m = re.search(r"\nparseParams\(const char \*request, char \*result, int max_bytes\)\n\{(.*?)\n\}\n", src, re.S)
    if not m:
        raise ValueError("C20 extractor: parseParams body not found")
    pp = m.group(1)
    m = re.search(r"\nvalidateString\(char \*str\)\n\{(.*?)\n\}\n", src, re.S)
    if not m:
        raise ValueError("C20 extractor: validateString body not found")
    vs = m.group(1)
    out = ["\n/- function-local sizes and literals (tools/consts/c20.py) -/\n"]

    def nat(name, val, doc):
        out.append("/-- %s -/\ndef %s : Nat := %d\n" % (doc, name, val))

    nat("fullFnameSize", _arith(_one(r"\n\s*char fullFname\[([^\]]+)\];", body, "fullFname")), "char fullFname[..]")
    nat("paramsSize", _arith(_one(r"\n\s*char params\[([^\]]+)\];", body, "params")), "char params[..]")
    nat("strSize", _arith(_one(r"\n\s*char str\[([^\]]+)\];", body, "str")), "char str[..]")
    nat("paramRequestSize", _arith(_one(r"\n\s*char param_request\[([^\]]+)\];", pp, "param_request")), "char param_request[..]")
    nat("paramFormattedSize", _arith(_one(r"\n\s*char param_formatted\[([^\]]+)\];", pp, "param_formatted")), "char param_formatted[..]")
    nat("dirMax", int(_one(r"if \(strlen\(rfbScreen->httpDir\) > (\d+)\) \{", body, "httpDir length guard")),
        "strlen(httpDir) > dirMax is refused")
    nat("fnameMaxBase", int(_one(r"maxFnameLen = (\d+) - strlen\(fullFname\);", body, "maxFnameLen")),
        "maxFnameLen = fnameMaxBase - strlen(fullFname)")
    nat("parseParamsMax", int(_one(r"parseParams\(&ptr\[1\], params, (\d+)\)", body, "parseParams max_bytes")),
        "max_bytes passed to parseParams")
    rd = _one(r"got = read \(rfbScreen->httpSock, buf \+ buf_filled,\s*sizeof \(buf\) - buf_filled - (\d+)\);", body, "read size")
    nat("readSlack", int(rd), "read(.., sizeof(buf) - buf_filled - readSlack)")
    _one(r"\n\s*buf_filled=0;\n\s*/\* Read data from the HTTP client until we get a complete request\. \*/", body,
         "buf_filled reset at the start of every call")
    _one(r"buf_filled \+= got;\s*buf\[buf_filled\] = '\\0';", body, "NUL termination after read")
    fr = _one(r"int n = fread\(buf, 1, BUF_SIZE-(\d+), fd\);", body, "fread size")
    nat("freadSlack", int(fr), "fread(buf, 1, BUF_SIZE - freadSlack, fd)")

    # request terminators, in the order tested
    t = _one(r'if \(strstr \(buf, "([^"]*)"\) \|\| strstr \(buf, "([^"]*)"\) \|\|\s*strstr \(buf, "([^"]*)"\) \|\| strstr \(buf, "([^"]*)"\)\)\s*break;',
             body, "terminator test")
    out.append("/-- blank-line patterns that complete a request -/\ndef terminators : List (List UInt8) := [%s]\n"
               % ", ".join("[%s]" % ", ".join(str(x) for x in _cstr(x)) for x in t))

    out.append(_lb("proxyOkStr", _cstr(_one(r'const static char\* PROXY_OK_STR = "([^"]*)";', body, "PROXY_OK_STR"))))
    c = _one(r'if\(!strncmp\(buf, "([^"]*)", (\d+)\)\) \{', body, "CONNECT test")
    if len(_cstr(c[0])) != int(c[1]):
        raise ValueError("C20 extractor: CONNECT strncmp length differs from literal length")
    out.append(_lb("litConnect", _cstr(c[0])))
    g = _one(r'if \(!strncmp\(buf, "([^"]*)",(\d+)\) && !?\(?\s*(?:slash && )?!strncmp\((?:strchr\(buf,\'/\'\)|slash),"([^"]*)", (\d+)\)\) \{',
             body, "proxied GET test")
    if len(_cstr(g[0])) != int(g[1]) or len(_cstr(g[2])) != int(g[3]):
        raise ValueError("C20 extractor: proxied GET strncmp lengths differ from literal lengths")
    out.append(_lb("litProxied", _cstr(g[2])))
    g2 = _one(r'\n    if \(strncmp\(buf, "([^"]*)", (\d+)\)\) \{\s*rfbErr\("httpd: no GET line', body, "GET test")
    if _cstr(g2[0]) != _cstr(g[0]) or len(_cstr(g2[0])) != int(g2[1]):
        raise ValueError("C20 extractor: the two GET literals differ")
    out.append(_lb("litGet", _cstr(g2[0])))
    out.append(_lb("lineEnds", _cstr(_one(r'buf\[strcspn\(buf, "([^"]*)"\)\] = \'\\0\';', body, "first-line cut"))))
    fmt = _one(r'if \(sscanf\(buf, "([^"]*)", fname\) != 1\) \{', body, "sscanf format")
    if fmt != "GET %s HTTP/1.":
        raise ValueError("C20 extractor: sscanf format changed: %r (the model's scanGet mirrors 'GET %%s HTTP/1.')" % fmt)
    _one(r"if \(strlen\(buf\) > maxFnameLen\) \{", body, "GET line length test")
    _one(r"if \(fname\[0\] != '/'\) \{", body, "leading slash test")
    _one(r"ptr = strchr\(fname, '\?'\);", body, "query split")
    out.append(_lb("litDotDot", _cstr(_one(r'if \(strstr\(fname, "([^"]*)"\)\) \{', body, "'..' test"))))
    ix = _one(r'if \(strcmp\(fname, "([^"]*)"\) == 0\) \{\s*strcpy\(fname, "([^"]*)"\);', body, "index rule")
    out.append(_lb("litRoot", _cstr(ix[0])))
    out.append(_lb("litIndex", _cstr(ix[1])))
    sx = _one(r'if \(strlen\(fname\) >= (\d+) && strcmp\(&fname\[strlen\(fname\)-(\d+)\], "([^"]*)"\) == 0\) \{', body, ".vnc test")
    if not (int(sx[0]) == int(sx[1]) == len(_cstr(sx[2]))):
        raise ValueError("C20 extractor: .vnc suffix test lengths inconsistent")
    out.append(_lb("litSubstExt", _cstr(sx[2])))

    # content types, in the order tested
    cts = re.findall(r'if\(ext && strcasecmp\(ext, "([^"]*)"\) == 0\)\s*contentType = "([^"]*)";', body)
    if len(cts) != 4:
        raise ValueError("C20 extractor: expected 4 content-type rules, found %d" % len(cts))
    out.append("/-- (extension, header line) in the order tested; strcasecmp -/\n"
               "def contentTypes : List (List UInt8 × List UInt8) := [%s]\n" % ", ".join(
                   "([%s], [%s])" % (", ".join(str(x) for x in _cstr(a)), ", ".join(str(x) for x in _cstr(b)))
                   for a, b in cts))

    # substitution variables, in the order tested
    vars_ = re.findall(r'compareAndSkip\(&ptr, "(\$[A-Z$]*)"\)', body)
    want = ["$WIDTH", "$HEIGHT", "$APPLETWIDTH", "$APPLETHEIGHT", "$PORT", "$DESKTOP", "$DISPLAY", "$USER",
            "$PARAMS", "$$"]
    if vars_ != want:
        raise ValueError("C20 extractor: substitution variable list changed: %r" % (vars_,))
    out.append("/-- $-variables in the order tested by the substitution loop (the last is the escape) -/\n"
               "def substVars : List (List UInt8) := [%s]\n" % ", ".join(
                   "[%s]" % ", ".join(str(x) for x in v.encode()) for v in vars_))
    nat("appletHeightExtra", int(_one(r'sprintf\(str, "%d", rfbScreen->height \+ (\d+)\);', body, "APPLETHEIGHT")),
        "$APPLETHEIGHT = height + this")
    nat("displayBase", int(_one(r'sprintf\(str, "%s:%d", rfbScreen->thisHost, rfbScreen->port-(\d+)\);', body, "DISPLAY")),
        "$DISPLAY = thisHost:port-this")

    # parseParams
    pf = _one(r'len = sprintf\(param_formatted,\s*"([^\n]*)",\s*param_request, value_str\);', pp, "param format")
    parts = _cstr(pf).split(b"%s")
    if len(parts) != 3:
        raise ValueError("C20 extractor: param format no longer has two %s")
    out.append(_lb("paramFmtA", parts[0]))
    out.append(_lb("paramFmtB", parts[1]))
    out.append(_lb("paramFmtC", parts[2]))
    _one(r"delim_ptr = strchr\(\(char \*\)tail, '&'\);", pp, "parameter delimiter")
    _one(r"value_str = strchr\(&param_request\[1\], '='\);", pp, "name/value split")
    _one(r"if \(strlen\(tail\) >= sizeof\(param_request\)\) \{", pp, "last parameter length guard")
    _one(r"if \(len >= sizeof\(param_request\)\) \{", pp, "parameter length guard")
    _one(r"if \(cur_bytes \+ len \+ 1 > max_bytes\) \{", pp, "result length guard")
    al = _one(r"if \(!isalnum\(\*ptr\) && ((?:\*ptr != '.'\s*&&\s*)*\*ptr != '.'\s*)\) \{\s*if \(\*ptr == '(.)'\) \{\s*\*ptr = '(.)';",
              vs, "validateString alphabet")
    extra = re.findall(r"\*ptr != '(.)'", al[0])
    out.append(_lb("alphaExtra", "".join(extra).encode(), "bytes accepted besides isalnum"))
    nat("alphaFrom", ord(al[1]), "this byte is accepted and replaced ...")
    nat("alphaTo", ord(al[2]), "... by this one")
    return "".join(out)


if __name__ == "__main__":
    import sys
    print(gen(sys.argv[1] if len(sys.argv) > 1 else "/repo"))
