/* T0 probe for C10: constants of translate.c that enter the C10 theorems.
 * translate.c is #included so that the file-local `BGR233Format` and the template instantiations are
 * visible; the few library symbols it references are stubbed (never called by the probe). */
#include <rfb/rfb.h>
#include "gen.h"

/* stubs: only to make the translation unit link */
static void stub_log(const char *f, ...) { (void)f; }
rfbLogProc rfbLog = stub_log, rfbErr = stub_log;
#ifdef LIBVNCSERVER_WORDS_BIGENDIAN
char rfbEndianTest = (1 == 0);       /* same definition as main.c:52-56 */
#else
char rfbEndianTest = (1 == 1);
#endif
void rfbLogPerror(const char *s) { (void)s; }
static int closed_flag = 0;
void rfbCloseClient(rfbClientPtr cl) { (void)cl; closed_flag = 1; }
int rfbWriteExact(rfbClientPtr cl, const char *b, int n) { (void)cl; (void)b; return n; }
rfbBool rfbSendSetColourMapEntries(rfbClientPtr cl, int a, int b) { (void)cl; (void)a; (void)b; return TRUE; }
rfbClientIteratorPtr rfbGetClientIterator(rfbScreenInfoPtr s) { (void)s; return NULL; }
rfbClientPtr rfbClientIteratorNext(rfbClientIteratorPtr i) { (void)i; return NULL; }
void rfbReleaseClientIterator(rfbClientIteratorPtr i) { (void)i; }
void sraRgnDestroy(sraRegionPtr r) { (void)r; }
sraRegionPtr sraRgnCreateRect(int a, int b, int c, int d) { (void)a; (void)b; (void)c; (void)d; return NULL; }

#include "translate.c"

int main(void) {
  int one = 1;
  int hostLE = *(char *)&one ? 1 : 0;
  printf("/-- `BGR233Format` of translate.c (format forced on colour-map clients) -/\n");
  LNAT("bgr233_bpp", BGR233Format.bitsPerPixel);
  LNAT("bgr233_depth", BGR233Format.depth);
  LNAT("bgr233_bigEndian", BGR233Format.bigEndian);
  LNAT("bgr233_trueColour", BGR233Format.trueColour);
  LNAT("bgr233_redMax", BGR233Format.redMax);
  LNAT("bgr233_greenMax", BGR233Format.greenMax);
  LNAT("bgr233_blueMax", BGR233Format.blueMax);
  LNAT("bgr233_redShift", BGR233Format.redShift);
  LNAT("bgr233_greenShift", BGR233Format.greenShift);
  LNAT("bgr233_blueShift", BGR233Format.blueShift);
  printf("/-- message type and fixed header size of SetColourMapEntries -/\n");
  LNAT("msgSetColourMapEntries", rfbSetColourMapEntries);
  LNAT("szSetColourMapEntriesMsg", sz_rfbSetColourMapEntriesMsg);
  printf("/-- byte order: `rfbEndianTest` as main.c defines it, and the order this machine really has -/\n");
  printf("def rfbEndianTestLE : Bool := %s\n", rfbEndianTest ? "true" : "false");
  printf("def hostLittleEndian : Bool := %s\n", hostLE ? "true" : "false");
  printf("/-- LIBVNCSERVER_ALLOW24BPP: 24 is an accepted bits-per-pixel value -/\n");
#ifdef LIBVNCSERVER_ALLOW24BPP
  printf("def allow24bpp : Bool := true\n");
  LNAT("countOffsets", COUNT_OFFSETS);
#else
  printf("def allow24bpp : Bool := false\n");
  LNAT("countOffsets", COUNT_OFFSETS);
#endif
  /* behavioural probe: does rfbSetTranslateFunction refuse a true-colour client format whose
     channel does not fit into the pixel (red max 255 at shift 31 of 32 bits)?  The tree as received
     accepts it (defined behaviour on the RGB-table path); a validation may be added later
     (fixes/C04-pixfmt-validate.diff).  The model follows whichever the tree does. */
  {
    static rfbScreenInfo scr; static rfbClientRec cl;
    rfbPixelFormat f = { 32, 24, 0, 1, 255, 255, 255, 16, 8, 0, 0, 0 };
    rfbBool ok;
    memset(&scr, 0, sizeof scr); memset(&cl, 0, sizeof cl);
    scr.serverFormat = f;
    cl.screen = &scr; cl.host = (char *)"probe"; cl.sock = -1;
    cl.format = f; cl.format.redShift = 31; cl.format.greenShift = 0; cl.format.blueShift = 8;
    closed_flag = 0;
    ok = rfbSetTranslateFunction(&cl);
    printf("/-- rfbSetTranslateFunction refuses true-colour client channels that do not fit the pixel -/\n");
    printf("def validatesChannelFit : Bool := %s\n", (!ok && closed_flag) ? "true" : "false");
    if (ok && closed_flag) { fprintf(stderr, "inconsistent probe result\n"); return 1; }
  }
  return 0;
}
