/* T0 probe for C07/C08: constants of LibVNCClient the client model and its theorems depend on */
#include <stdio.h>
#include <stddef.h>
#include <rfb/rfbclient.h>
#define N(name, v) printf("def %s : Nat := %lu\n", name, (unsigned long)(v))
int main(void) {
  N("rfbBufferSize", RFB_BUFFER_SIZE);
  N("rfbBufSize", RFB_BUF_SIZE);
  N("zlibBufferSize", ZLIB_BUFFER_SIZE);
  N("maxEncodings", MAX_ENCODINGS);
  N("szSetPixelFormat", sz_rfbSetPixelFormatMsg);
  N("szSetEncodings", sz_rfbSetEncodingsMsg);
  N("szFramebufferUpdateRequest", sz_rfbFramebufferUpdateRequestMsg);
  N("szFramebufferUpdate", sz_rfbFramebufferUpdateMsg);
  N("szRectHeader", sz_rfbFramebufferUpdateRectHeader);
  N("szServerInit", sz_rfbServerInitMsg);
  N("szPixelFormat", sz_rfbPixelFormat);
  N("szProtocolVersion", sz_rfbProtocolVersionMsg);
  N("szRREHeader", sz_rfbRREHeader);
  N("szRectangle", sz_rfbRectangle);
  N("szCopyRect", sz_rfbCopyRect);
  N("szZlibHeader", sz_rfbZlibHeader);
  N("szZRLEHeader", sz_rfbZRLEHeader);
  N("szServerCutText", sz_rfbServerCutTextMsg);
  N("szXCursorColors", sz_rfbXCursorColors);
  N("szExtDesktopSize", sz_rfbExtDesktopSizeMsg);
  N("szExtDesktopScreen", sz_rfbExtDesktopScreen);
  N("szSupportedMessages", sz_rfbSupportedMessages);
  N("msgSetPixelFormat", rfbSetPixelFormat);
  N("msgSetEncodings", rfbSetEncodings);
  N("msgFramebufferUpdateRequest", rfbFramebufferUpdateRequest);
  N("msgFramebufferUpdate", rfbFramebufferUpdate);
  N("msgSetColourMapEntries", rfbSetColourMapEntries);
  N("msgBell", rfbBell);
  N("msgServerCutText", rfbServerCutText);
  N("encRaw", rfbEncodingRaw); N("encCopyRect", rfbEncodingCopyRect); N("encRRE", rfbEncodingRRE);
  N("encCoRRE", rfbEncodingCoRRE); N("encHextile", rfbEncodingHextile); N("encZlib", rfbEncodingZlib);
  N("encTight", rfbEncodingTight); N("encZlibHex", rfbEncodingZlibHex); N("encUltra", rfbEncodingUltra);
  N("encTRLE", rfbEncodingTRLE); N("encZRLE", rfbEncodingZRLE); N("encZYWRLE", rfbEncodingZYWRLE);
  N("encUltraZip", (uint32_t)rfbEncodingUltraZip);
  N("encXCursor", (uint32_t)rfbEncodingXCursor); N("encRichCursor", (uint32_t)rfbEncodingRichCursor);
  N("encPointerPos", (uint32_t)rfbEncodingPointerPos); N("encLastRect", (uint32_t)rfbEncodingLastRect);
  N("encNewFBSize", (uint32_t)rfbEncodingNewFBSize); N("encExtDesktopSize", (uint32_t)rfbEncodingExtDesktopSize);
  N("encKeyboardLedState", (uint32_t)rfbEncodingKeyboardLedState);
  N("encSupportedMessages", (uint32_t)rfbEncodingSupportedMessages);
  N("encSupportedEncodings", (uint32_t)rfbEncodingSupportedEncodings);
  N("encServerIdentity", (uint32_t)rfbEncodingServerIdentity);
  N("encXvp", (uint32_t)rfbEncodingXvp); N("encQemuExtendedKeyEvent", (uint32_t)rfbEncodingQemuExtendedKeyEvent);
  N("encExtendedClipboard", (uint32_t)rfbEncodingExtendedClipboard);
  N("encCompressLevel0", (uint32_t)rfbEncodingCompressLevel0); N("encQualityLevel0", (uint32_t)rfbEncodingQualityLevel0);
  N("hextileRaw", rfbHextileRaw); N("hextileBackgroundSpecified", rfbHextileBackgroundSpecified);
  N("hextileForegroundSpecified", rfbHextileForegroundSpecified); N("hextileAnySubrects", rfbHextileAnySubrects);
  N("hextileSubrectsColoured", rfbHextileSubrectsColoured);
  N("zrleTileWidth", rfbZRLETileWidth); N("zrleTileHeight", rfbZRLETileHeight);
  N("tightExplicitFilter", rfbTightExplicitFilter); N("tightFill", rfbTightFill); N("tightJpeg", rfbTightJpeg);
  N("tightNoZlib", rfbTightNoZlib); N("tightMaxSubencoding", rfbTightMaxSubencoding);
  N("tightFilterCopy", rfbTightFilterCopy); N("tightFilterPalette", rfbTightFilterPalette);
  N("tightFilterGradient", rfbTightFilterGradient);
  N("tightPaletteBytes", sizeof(((rfbClient *)0)->tightPalette));
  N("tightPrevRowBytes", sizeof(((rfbClient *)0)->tightPrevRow));
  N("sizeMax", (unsigned long)SIZE_MAX);
  N("defaultReadTimeout", DEFAULT_READ_TIMEOUT);
  return 0;
}
