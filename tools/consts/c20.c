/* T0 probe for C20: file-scope constants and macros of src/libvncserver/httpd.c (included, so that
   file-local macros and statics are visible).  Function-local sizes/literals: tools/consts/c20.py. */
/* the probe only prints constants; the library functions httpd.c calls stay unresolved (weak) */
#pragma weak rfbLog
#pragma weak rfbErr
#pragma weak rfbLogPerror
#pragma weak rfbWriteExact
#pragma weak rfbNewClientConnection
#pragma weak rfbSetNonBlocking
#pragma weak rfbListenOnTCPPort
#pragma weak rfbListenOnTCP6Port
#pragma weak rfbCloseSocket
#include "httpd.c"
#include "gen.h"

static void lbytes(const char *name, const char *s) {
  size_t i, n = strlen(s);
  printf("def %s : List UInt8 := [", name);
  for (i = 0; i < n; i++) printf("%s%u", i ? ", " : "", (unsigned)(unsigned char)s[i]);
  printf("]\n");
}

int main(void) {
  N(BUF_SIZE);
  LNAT("sizeofBuf", sizeof buf);
  lbytes("notFoundStr", NOT_FOUND_STR);
  lbytes("invalidRequestStr", INVALID_REQUEST_STR);
  lbytes("okStr", OK_STR);
  LNAT("thisHostSize", sizeof(((rfbScreenInfoPtr)0)->thisHost));

  return 0;
}
