/* T0 probe for C01: constants of the encoders the Lean models/theorems depend on */
#include <rfb/rfb.h>
#include "gen.h"
#include "zrlepalettehelper.h"
int main(void) {
  N(UPDATE_BUF_SIZE);
  N(sz_rfbFramebufferUpdateMsg);
  N(sz_rfbFramebufferUpdateRectHeader);
  N(sz_rfbRREHeader);
  N(sz_rfbRectangle);
  N(sz_rfbCoRRERectangle);
  N(sz_rfbZlibHeader);
  N(sz_rfbZRLEHeader);
  N(rfbZRLETileWidth);
  N(rfbZRLETileHeight);
  N(ZRLE_PALETTE_MAX_SIZE);
  N(VNC_ENCODE_ZLIB_MIN_COMP_SIZE);
  N(ZLIB_MAX_RECT_SIZE);
  N(ULTRA_MAX_RECT_SIZE);
  LNAT("zlibMaxSize_w1", ZLIB_MAX_SIZE(1));
  LNAT("zlibMaxSize_w20000", ZLIB_MAX_SIZE(20000));
  N(rfbEncodingRaw); N(rfbEncodingCopyRect); N(rfbEncodingRRE); N(rfbEncodingCoRRE);
  N(rfbEncodingHextile); N(rfbEncodingZlib); N(rfbEncodingTight); N(rfbEncodingUltra);
  N(rfbEncodingTRLE); N(rfbEncodingZRLE); N(rfbEncodingZYWRLE);
  LNAT("rfbEncodingTightPng", (unsigned long long)(uint32_t)rfbEncodingTightPng);
  LNAT("rfbEncodingLastRect", (unsigned long long)(uint32_t)rfbEncodingLastRect);
  N(rfbHextileRaw); N(rfbHextileBackgroundSpecified); N(rfbHextileForegroundSpecified);
  N(rfbHextileAnySubrects); N(rfbHextileSubrectsColoured);
  LNAT("hextilePackXY_3_5", rfbHextilePackXY(3, 5));
  LNAT("hextilePackWH_3_5", rfbHextilePackWH(3, 5));
  N(rfbTightExplicitFilter); N(rfbTightFill); N(rfbTightJpeg); N(rfbTightNoZlib); N(rfbTightPng);
  N(rfbTightFilterCopy); N(rfbTightFilterPalette); N(rfbTightFilterGradient);
  return 0;
}
