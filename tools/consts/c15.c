/* T0 probe for C15: wire constants the cursor model / theorems depend on */
#include "gen.h"
#include <rfb/rfb.h>
int main(void) {
  N(UPDATE_BUF_SIZE);
  N(sz_rfbFramebufferUpdateMsg);
  N(sz_rfbFramebufferUpdateRectHeader);
  N(sz_rfbXCursorColors);
  LNAT("encRaw", (uint32_t)rfbEncodingRaw);
  LNAT("encXCursor", (uint32_t)rfbEncodingXCursor);
  LNAT("encRichCursor", (uint32_t)rfbEncodingRichCursor);
  LNAT("encPointerPos", (uint32_t)rfbEncodingPointerPos);
  return 0;
}
