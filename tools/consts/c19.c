/* T0 probe for C19: protocol numbers and sizes the file-transfer model depends on, from the
   current headers.  (File-local items of rfbserver.c - MAX_PATH, RFB_FIND_DATA, the local path
   buffers - are extracted by tools/consts/c19.py.) */
#include <limits.h>
#include <rfb/rfb.h>
#include "tightvnc-filetransfer/rfbtightproto.h"
#include "gen.h"
int main(void) {
  printf("/- from include/rfb/rfbproto.h -/\n");
  N(rfbFileTransfer); N(sz_rfbFileTransferMsg); N(sz_rfbBlockSize);
  N(rfbDirContentRequest); N(rfbDirPacket); N(rfbFileTransferRequest); N(rfbFileHeader);
  N(rfbFilePacket); N(rfbEndOfFile); N(rfbAbortFileTransfer); N(rfbFileTransferOffer);
  N(rfbFileAcceptHeader); N(rfbCommand); N(rfbCommandReturn); N(rfbFileChecksums);
  N(rfbFileTransferAccess);
  N(rfbRDirContent); N(rfbRDrivesList); N(rfbADirectory); N(rfbADrivesList);
  N(rfbADirCreate); N(rfbAFileDelete); N(rfbAFileRename);
  N(rfbCDirCreate); N(rfbCFileDelete); N(rfbCFileRename);
  LINT("rfbTRUE", TRUE); LINT("rfbFALSE", FALSE);
  LNAT("intMax", INT_MAX);
  printf("/- from tightvnc-filetransfer/rfbtightproto.h and limits.h -/\n");
  LNAT("PATH_MAX", PATH_MAX);
  N(rfbSecTypeTight);
  N(rfbFileListRequest); N(rfbFileDownloadRequest); N(rfbFileUploadRequest); N(rfbFileUploadData);
  N(rfbFileDownloadCancel); N(rfbFileUploadFailed); N(rfbFileCreateDirRequest);
  N(rfbFileListData); N(rfbFileDownloadData); N(rfbFileUploadCancel); N(rfbFileDownloadFailed);
  N(sz_rfbFileListRequestMsg); N(sz_rfbFileDownloadRequestMsg); N(sz_rfbFileUploadRequestMsg);
  N(sz_rfbFileUploadDataMsg); N(sz_rfbFileDownloadCancelMsg); N(sz_rfbFileUploadFailedMsg);
  N(sz_rfbFileCreateDirRequestMsg);
  N(sz_rfbFileListDataMsg); N(sz_rfbFileDownloadDataMsg); N(sz_rfbFileUploadCancelMsg);
  N(sz_rfbFileDownloadFailedMsg);
  return 0;
}
