"""T0 extractor for C03: file-local macros of tight.c (via `gcc -dM -E`) and literals of
rfbserver.c / main.c that the planning model depends on.  A pattern that no longer matches raises
(broken obligation), never a default."""
import os, re, subprocess, sys
sys.path.insert(0, os.path.dirname(os.path.dirname(os.path.dirname(os.path.abspath(__file__)))))
from vlib import build


def _macros(repo, rel):
    cmd = ["gcc", "-std=gnu99", "-w", "-dM", "-E", os.path.join(repo, rel)] + build.DEFS + build.incs()
    r = subprocess.run(cmd, stdout=subprocess.PIPE, stderr=subprocess.PIPE, text=True)
    if r.returncode != 0:
        raise RuntimeError("cpp failed on %s: %s" % (rel, r.stderr[-800:]))
    d = {}
    for line in r.stdout.splitlines():
        m = re.match(r"#define\s+(\w+)\s+(.*)$", line)
        if m:
            d[m.group(1)] = m.group(2).strip()
    return d


def _intmacro(d, name):
    if name not in d:
        raise RuntimeError("macro %s not found" % name)
    v = d[name]
    if not re.fullmatch(r"\(?\s*(0[xX][0-9a-fA-F]+|\d+)\s*\)?", v):
        raise RuntimeError("macro %s is not an integer literal: %r" % (name, v))
    return int(v.strip("() "), 0)


def _one(text, pat, what):
    ms = re.findall(pat, text)
    if len(ms) != 1:
        raise RuntimeError("pattern for %s matched %d times" % (what, len(ms)))
    return int(ms[0], 0)


def gen(repo):
    out = []
    d = _macros(repo, "src/libvncserver/tight.c")
    for n in ("TIGHT_MIN_TO_COMPRESS", "MIN_SPLIT_RECT_SIZE", "MIN_SOLID_SUBRECT_SIZE",
              "MAX_SPLIT_TILE_SIZE", "TIGHT_MAX_RECT_SIZE", "TIGHT_MAX_RECT_WIDTH"):
        out.append("def %s : Nat := %d" % (n, _intmacro(d, n)))
    # the emitter's guard must be the exact complement of the counter's "unknown" condition:
    # rfbNumCodedRectsTight returns 0 iff (enableLastRectEncoding && w*h >= MIN_SPLIT_RECT_SIZE)   [T1 proves this side]
    # SendRectEncodingTight goes straight to SendRectSimple iff (!enableLastRectEncoding || w*h < MIN_SPLIT_RECT_SIZE)
    tight = open(os.path.join(repo, "src/libvncserver/tight.c")).read()
    pat = (r"if \(!cl->enableLastRectEncoding \|\| w \* h < MIN_SPLIT_RECT_SIZE\)\s*"
           r"return SendRectSimple\(cl, x, y, w, h\);")
    if len(re.findall(pat, tight)) != 1:
        raise RuntimeError("SendRectEncodingTight: the guard in front of the solid-area search changed")
    # ... and nothing but SendRectEncodingTight itself (recursion inside the search) and the two entry
    # points call SendRectEncodingTight
    ncalls = len(re.findall(r"\bSendRectEncodingTight\(cl,", tight))
    if ncalls != 5:
        raise RuntimeError("SendRectEncodingTight call sites changed (%d)" % ncalls)
    out.append("/-- checked on the C text by tools/consts/c03.py: SendRectEncodingTight searches for solid areas\n"
               "exactly when `!(!enableLastRectEncoding || w*h < MIN_SPLIT_RECT_SIZE)` -/")
    out.append("def tightSearchGuardChecked : Bool := true")
    # rfbSendCompressedDataTight: from which length on the second / third byte of Tight's compact
    # length is written (the conditions are read from the C text, whatever way they are spelled)
    body = tight[tight.index("rfbBool rfbSendCompressedDataTight("):]
    body = body[:body.index("portionLen = UPDATE_BUF_SIZE")]
    conds = re.findall(r"if \(compressedLen\s*(>=|>)\s*([0-9a-fA-Fx<\s()]+?)\)\s*\{", body)
    if len(conds) != 2:
        raise RuntimeError("rfbSendCompressedDataTight: expected two length tests, found %d" % len(conds))
    froms = []
    for op_, ex in conds:
        if not re.fullmatch(r"[0-9a-fA-Fx<\s()]+", ex):
            raise RuntimeError("unreadable length bound %r" % ex)
        v = int(eval(ex, {"__builtins__": {}}, {}))
        froms.append(v if op_ == ">=" else v + 1)
    masks = re.findall(r"compressedLen\s*(?:>>\s*(\d+)\s*)?&\s*(0x[0-9A-Fa-f]+)", body)
    if [(m[0] or "0", m[1].lower()) for m in masks] != [("0", "0x7f"), ("7", "0x7f"), ("14", "0xff")]:
        raise RuntimeError("rfbSendCompressedDataTight: byte extraction changed: %r" % (masks,))
    out.append("/-- rfbSendCompressedDataTight writes a second length byte for lengths ≥ this -/")
    out.append("def compactTwoFrom : Nat := %d" % froms[0])
    out.append("/-- … and a third one for lengths ≥ this -/")
    out.append("def compactThreeFrom : Nat := %d" % froms[1])
    srv = open(os.path.join(repo, "src/libvncserver/rfbserver.c")).read()
    out.append("def correMaxWidth : Nat := %d" % _one(srv, r"cl->correMaxWidth\s*=\s*(\d+)\s*;", "correMaxWidth"))
    out.append("def correMaxHeight : Nat := %d" % _one(srv, r"cl->correMaxHeight\s*=\s*(\d+)\s*;", "correMaxHeight"))
    # the sentinel compared with nUpdateRegionRects and stored in fu->nRects
    n = len(re.findall(r"nUpdateRegionRects\s*(?:=|!=|==)\s*0xFFFF\b", srv))
    if n < 4:
        raise RuntimeError("0xFFFF sentinel pattern changed (%d matches)" % n)
    out.append("def nRectsSentinel : Nat := 0xFFFF")
    mainc = open(os.path.join(repo, "src/libvncserver/main.c")).read()
    out.append("def defaultMaxRectsPerUpdate : Nat := %d" %
               _one(mainc, r"screen->maxRectsPerUpdate\s*=\s*(\d+)\s*;", "maxRectsPerUpdate default"))
    return "\n".join(out) + "\n"
