"""T0 (C15): the library's built-in default cursor `myCursor` of main.c -> Lean definitions.
A pattern that no longer matches raises (broken obligation), never a default."""
import os, re


def _octal_bytes(lit):
    out, i = [], 0
    while i < len(lit):
        if lit[i] != "\\":
            out.append(ord(lit[i])); i += 1; continue
        m = re.match(r"\\([0-7]{1,3})", lit[i:])
        if not m:
            raise ValueError("unsupported escape in default cursor literal: %r" % lit[i:i + 4])
        out.append(int(m.group(1), 8)); i += len(m.group(0))
    return out


def parse_default_cursor(repo):
    src = open(os.path.join(repo, "src", "libvncserver", "main.c")).read()
    m = re.search(r"static\s+rfbCursor\s+myCursor\s*=\s*\{\s*FALSE,\s*FALSE,\s*FALSE,\s*FALSE,\s*"
                  r"\(unsigned char\*\)\"([^\"]*)\",\s*\(unsigned char\*\)\"([^\"]*)\",\s*"
                  r"(\d+),\s*(\d+),\s*(\d+),\s*(\d+),\s*"
                  r"(\w+),\s*(\w+),\s*(\w+),\s*(\w+),\s*(\w+),\s*(\w+),\s*NULL\s*\}", src)
    if not m:
        raise ValueError("main.c: positional initialiser of myCursor not found")
    g = m.groups()
    c = {"src": _octal_bytes(g[0]), "mask": _octal_bytes(g[1]),
         "w": int(g[2]), "h": int(g[3]), "xh": int(g[4]), "yh": int(g[5]),
         "fg": tuple(int(x, 0) for x in g[6:9]), "bg": tuple(int(x, 0) for x in g[9:12])}
    rb = (c["w"] + 7) // 8
    if len(c["src"]) != rb * c["h"] or len(c["mask"]) != rb * c["h"]:
        raise ValueError("myCursor bitmaps do not have (w+7)/8*h bytes")
    return c


def gen(repo):
    c = parse_default_cursor(repo)
    L = lambda xs: "[" + ", ".join(str(x) for x in xs) + "]"
    return ("def defCursorW : Nat := %d\ndef defCursorH : Nat := %d\ndef defCursorXhot : Nat := %d\n"
            "def defCursorYhot : Nat := %d\ndef defCursorSource : List Nat := %s\n"
            "def defCursorMask : List Nat := %s\ndef defCursorFore : List Nat := %s\n"
            "def defCursorBack : List Nat := %s\n"
            % (c["w"], c["h"], c["xh"], c["yh"], L(c["src"]), L(c["mask"]), L(c["fg"]), L(c["bg"])))
