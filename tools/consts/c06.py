"""T0 extractor for C06: the classic ClientCutText length limit is a bare literal in
rfbProcessClientNormalMessage (`if (msg.cct.length > 1<<20)`).  It is pulled out of the source text
with an anchored pattern; a pattern that no longer matches exactly once raises (broken obligation),
it never falls back to a default."""
import os, re


def _block(text, start_pat, end_pat):
    m = re.search(start_pat, text)
    if not m:
        raise RuntimeError("C06/T0: anchor %r not found in rfbserver.c" % start_pat)
    e = re.search(end_pat, text[m.end():])
    if not e:
        raise RuntimeError("C06/T0: end anchor %r not found after %r" % (end_pat, start_pat))
    return text[m.end():m.end() + e.start()]


def _strip_comments(s):
    s = re.sub(r"/\*.*?\*/", " ", s, flags=re.S)
    return re.sub(r"//[^\n]*", " ", s)


def gen(repo):
    src = open(os.path.join(repo, "src", "libvncserver", "rfbserver.c"), encoding="latin-1").read()
    # the body of `case rfbClientCutText:` inside rfbProcessClientNormalMessage
    fn = _block(src, r"\nrfbProcessClientNormalMessage\s*\(rfbClientPtr cl\)\s*\{", r"\n\}\n")
    blk = _strip_comments(_block(fn, r"case\s+rfbClientCutText\s*:", r"case\s+rfbPalmVNCSetScaleFactor\s*:"))
    ms = re.findall(r"if\s*\(\s*msg\.cct\.length\s*(>=|>)\s*([0-9xXa-fA-F<\s()*+uUlL]+?)\s*\)\s*\{", blk)
    if len(ms) != 1:
        raise RuntimeError("C06/T0: expected exactly one `if (msg.cct.length > LIMIT) {` in the "
                           "ClientCutText case, found %d" % len(ms))
    op, expr = ms[0]
    expr_py = re.sub(r"(?<=[0-9a-fA-F])[uUlL]+", "", expr)
    if not re.fullmatch(r"[0-9xXa-fA-F<\s()*+]+", expr_py):
        raise RuntimeError("C06/T0: limit expression %r not a constant expression" % expr)
    lim = int(eval(expr_py, {"__builtins__": {}}, {}))
    if lim <= 0 or lim >= 2 ** 31:
        raise RuntimeError("C06/T0: implausible cut text limit %d" % lim)
    max_ok = lim if op == ">" else lim - 1
    # the escape test of the extended clipboard: (msg.cct.length & 0x80000000)
    esc = re.findall(r"cl->enableExtendedClipboard\s*&&\s*\(\s*msg\.cct\.length\s*&\s*(0x[0-9a-fA-F]+)\s*\)", blk)
    if len(esc) != 1:
        raise RuntimeError("C06/T0: extended clipboard escape test not found exactly once")
    # the view-only guards: each of the three input callbacks must be called under `if(!cl->viewOnly)`
    out = []
    out.append("/-- largest classic ClientCutText length the code accepts (`if (msg.cct.length %s %s)` closes) -/"
               % (op, expr.strip()))
    out.append("def cutTextMaxAccepted : Nat := %d" % max_ok)
    out.append("def cutTextExtEscapeMask : Nat := %d" % int(esc[0], 16))
    return "\n".join(out) + "\n"
