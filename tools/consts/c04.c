/* T0 probe for C04: message sizes, limits and type numbers the Robust model's theorems depend on. */
#include <limits.h>
#include <rfb/rfb.h>
#include "tightvnc-filetransfer/rfbtightproto.h"
#include "gen.h"
int main(void) {
  N(sz_rfbSetPixelFormatMsg); N(sz_rfbFixColourMapEntriesMsg); N(sz_rfbSetEncodingsMsg);
  N(sz_rfbFramebufferUpdateRequestMsg); N(sz_rfbKeyEventMsg); N(sz_rfbPointerEventMsg);
  N(sz_rfbClientCutTextMsg); N(sz_rfbFileTransferMsg); N(sz_rfbSetScaleMsg); N(sz_rfbSetServerInputMsg);
  N(sz_rfbSetSWMsg); N(sz_rfbTextChatMsg); N(sz_rfbXvpMsg); N(sz_rfbSetDesktopSizeMsg);
  N(sz_rfbExtDesktopScreen); N(sz_rfbProtocolVersionMsg); N(sz_rfbClientInitMsg);
  N(sz_rfbFramebufferUpdateRectHeader); N(sz_rfbCopyRect); N(sz_rfbFramebufferUpdateMsg);
  N(sz_rfbSetColourMapEntriesMsg); N(sz_rfbBlockSize);
  N(rfbTextMaxSize); N(rfbTextChatOpen); N(rfbTextChatClose); N(rfbTextChatFinished);
  N(UPDATE_BUF_SIZE); N(CHALLENGESIZE);
  LNAT("intMax", INT_MAX); LNAT("pathMax", PATH_MAX);
  LNAT("sizeofClientRec", sizeof(rfbClientRec)); LNAT("sizeofScreenInfo", sizeof(rfbScreenInfo));
  LNAT("updateBufOffsetOk", sizeof(((rfbClientRec *)0)->updateBuf) == UPDATE_BUF_SIZE);
  /* message type numbers */
  N(rfbSetPixelFormat); N(rfbFixColourMapEntries); N(rfbSetEncodings); N(rfbFramebufferUpdateRequest);
  N(rfbKeyEvent); N(rfbPointerEvent); N(rfbClientCutText); N(rfbFileTransfer); N(rfbSetScale);
  N(rfbSetServerInput); N(rfbSetSW); N(rfbTextChat); N(rfbPalmVNCSetScaleFactor); N(rfbXvp); N(rfbSetDesktopSize);
  /* UltraVNC file transfer content types */
  N(rfbDirContentRequest); N(rfbDirPacket); N(rfbFileTransferRequest); N(rfbFileHeader); N(rfbFilePacket);
  N(rfbEndOfFile); N(rfbAbortFileTransfer); N(rfbFileTransferOffer); N(rfbCommand);
  N(rfbRDirContent); N(rfbRDrivesList);
  /* TightVNC file-transfer extension */
  N(rfbSecTypeNone); N(rfbSecTypeVncAuth); N(rfbSecTypeTight); N(rfbAuthVNC);
  N(rfbFileListRequest); N(rfbFileDownloadRequest); N(rfbFileUploadRequest); N(rfbFileUploadData);
  N(rfbFileDownloadCancel); N(rfbFileUploadFailed); N(rfbFileCreateDirRequest);
  N(sz_rfbFileListRequestMsg); N(sz_rfbFileDownloadRequestMsg); N(sz_rfbFileUploadRequestMsg);
  N(sz_rfbFileUploadDataMsg); N(sz_rfbFileDownloadCancelMsg); N(sz_rfbFileUploadFailedMsg);
  N(sz_rfbFileCreateDirRequestMsg);
  /* encodings that change what the handlers do */
  N(rfbEncodingXvp); N(rfbEncodingExtendedClipboard); N(rfbEncodingNewFBSize); N(rfbEncodingExtDesktopSize);
  N(rfbExtendedClipboard_Text); N(rfbExtendedClipboard_Caps); N(rfbExtendedClipboard_Request);
  N(rfbExtendedClipboard_Peek); N(rfbExtendedClipboard_Notify); N(rfbExtendedClipboard_Provide);
  N(rfbProtocolMajorVersion);
  return 0;
}
