"""T0 extractor for C18 (Clip): literals inside function bodies of rfbserver.c / rfbclient.c.

Every pattern is anchored inside the function it belongs to; a pattern that no longer matches raises
(-> broken obligation, never a default).  Comparison operators are part of the patterns: changing
`>` to `>=` at a limit makes the extractor fail loudly (and the correspondence run would flag it too).
"""
import os, re


def _body(text, name, path):
    """text of the definition of function `name` (from its signature to the matching brace)"""
    m = re.search(r"^%s\s*\([^;{]*\)\s*\{" % re.escape(name), text, re.M)
    if not m:
        raise RuntimeError("C18: function %s not found in %s" % (name, path))
    i, depth = m.end(), 1
    while depth and i < len(text):
        c = text[i]
        depth += (c == "{") - (c == "}")
        i += 1
    if depth:
        raise RuntimeError("C18: unbalanced braces in %s" % name)
    return text[m.start():i]


def _expr(s):
    s = s.strip()
    if not re.fullmatch(r"[0-9a-fA-FxX()<*+\s]+", s):
        raise RuntimeError("C18: unexpected constant expression %r" % s)
    return int(eval(s, {"__builtins__": {}}, {}))


def _one(pat, body, what, flags=0):
    ms = re.findall(pat, body, flags)
    if len(ms) != 1:
        raise RuntimeError("C18: expected exactly one match for %s (%r), got %d" % (what, pat, len(ms)))
    return ms[0]


def _bytes_array(body, what):
    m = re.search(r"char\s+buf\[(\d+)\]\s*=\s*\{(.*?)\};", body, re.S)
    if not m:
        raise RuntimeError("C18: message array not found in " + what)
    txt = re.sub(r"/\*.*?\*/", "", m.group(2), flags=re.S)
    vals = [int(t, 0) for t in re.findall(r"0[xX][0-9a-fA-F]+|\d+", txt)]
    if len(vals) != int(m.group(1)):
        raise RuntimeError("C18: %s: %d initialisers for buf[%s]" % (what, len(vals), m.group(1)))
    if not re.search(r"rfbWriteExact\(cl,\s*buf,\s*sizeof\(buf\)\)", body):
        raise RuntimeError("C18: %s no longer writes sizeof(buf)" % what)
    return vals


FL = {"rfbExtendedClipboard_Text": "bText", "rfbExtendedClipboard_Caps": "bCaps",
      "rfbExtendedClipboard_Request": "bRequest", "rfbExtendedClipboard_Peek": "bPeek",
      "rfbExtendedClipboard_Notify": "bNotify", "rfbExtendedClipboard_Provide": "bProvide"}


def _flags_expr(s, what):
    parts = [p.strip() for p in s.split("|")]
    if not parts or any(p not in FL for p in parts) or len(set(parts)) != len(parts):
        raise RuntimeError("C18: unexpected flag expression %r in %s" % (s, what))
    return " + ".join("2 ^ %s" % FL[p] for p in parts)


def gen(repo):
    sp = os.path.join(repo, "src/libvncserver/rfbserver.c")
    cp = os.path.join(repo, "src/libvncclient/rfbclient.c")
    s, c = open(sp).read(), open(cp).read()
    out = []

    # ---- server: ClientCutText handler
    h = _body(s, "rfbProcessClientNormalMessage", sp)
    i = h.index("case rfbClientCutText:")
    j = h.index("case rfbPalmVNCSetScaleFactor:", i)
    h = h[i:j]
    out.append("def srvMsgLimit : Nat := %d" % _expr(_one(r"if \(msg\.cct\.length > ([^)]+)\) \{", h, "server message limit")))
    _one(r"if \(cl->enableExtendedClipboard && \(msg\.cct\.length & 0x80000000\)\) \{\s*msg\.cct\.length = -msg\.cct\.length;", h, "sign-encoded length")
    out.append("def extMinLen : Nat := %d" % _expr(_one(r"if \(msg\.cct\.length < (\d+)\) \{", h, "minimum extended length")))
    out.append("def nFormatBits : Nat := %d" % _expr(_one(r"for \(i = 0; i < (\d+); i\+\+\) \{\s*if \(extClipboardFlags & \(1 << i\)\)", h, "format bit count")))
    a, b = _one(r"msg\.cct\.length != (\d+) \+ extClipboardFormats \* (\d+)", h, "caps length formula")
    if (int(a), int(b)) != (4, 4):
        raise RuntimeError("C18: caps length formula changed")
    for pat, what in ((r"\} else if \(extClipboardFlags & rfbExtendedClipboard_Request\) \{", "request branch"),
                      (r"\} else if \(extClipboardFlags & rfbExtendedClipboard_Peek\) \{", "peek branch"),
                      (r"\} else if \(extClipboardFlags & rfbExtendedClipboard_Provide\) \{", "provide branch"),
                      (r"if \(extClipboardFlags & rfbExtendedClipboard_Caps\) \{", "caps branch")):
        _one(pat, h, what)

    # ---- server: record inside the zlib stream
    p = _body(s, "rfbProcessExtendedServerCutTextData", sp)
    out.append("def srvRecLimit : Nat := %d" % _expr(_one(r"if \(size > \(([^)]+)\)\) \{", p, "server record limit")))
    if _expr(_one(r"for \(i = 0; i < (\d+); i\+\+\) \{", p, "format loop")) != 16:
        raise RuntimeError("C18: format loop bound changed")

    # ---- server: defaults of a new client
    n = _body(s, "rfbNewTCPOrUDPClient", sp)
    out.append("def defaultUserCap : Nat := %d" % _expr(_one(r"cl->extClipboardUserCap = ([^;]+);", n, "default user caps")))
    out.append("def defaultMaxUnsolicited : Nat := %d" % _expr(_one(r"cl->extClipboardMaxUnsolicitedSize = ([^;]+);", n, "default max unsolicited")))
    _one(r"cl->enableExtendedClipboard = FALSE;", n, "default disabled")

    # ---- server: fixed messages
    caps = _bytes_array(_body(s, "rfbSendExtendedClipboardCapability", sp), "caps message")
    ntf = _bytes_array(_body(s, "rfbSendExtendedClipboardNotify", sp), "notify message")
    out.append("def srvCapsMsg : List Nat := %s" % caps)
    out.append("def srvNotifyMsg : List Nat := %s" % ntf)
    d = _body(s, "rfbSendExtendedServerCutTextData", sp)
    out.append("def srvProvideFlags : Nat := %s" % _flags_expr(_one(r"tmpInt = Swap32IfLE\((rfbExtendedClipboard_\w+(?: \| rfbExtendedClipboard_\w+)*)\);", d, "server provide flags"), "server provide"))
    _one(r"tmpInt = Swap32IfLE\(-\(4 \+ size\)\);", d, "server provide length")
    u = _body(s, "rfbSendServerCutTextUTF8", sp)
    _one(r"if \(\(cl->extClipboardUserCap & rfbExtendedClipboard_Provide\) && len <= cl->extClipboardMaxUnsolicitedSize\) \{", u, "unsolicited provide guard")
    _one(r"\} else if \(cl->extClipboardUserCap & rfbExtendedClipboard_Notify\) \{", u, "notify guard")
    _one(r"cl->extClipboardDataSize = len \+ 1;", u, "cached size")
    # handshake clients are skipped first thing in both publish loops (before LOCK / cache update)
    _one(r"while \(\(cl = rfbClientIteratorNext\(iterator\)\) != NULL\) \{\s*(?:/\*.*?\*/\s*)?if \(cl->state != RFB_NORMAL\)\s*continue;",
         u, "UTF8 publish skips handshake clients", re.S)
    _one(r"while \(\(cl = rfbClientIteratorNext\(iterator\)\) != NULL\) \{\s*(?:/\*.*?\*/\s*)?if \(cl->state != RFB_NORMAL\)\s*continue;",
         _body(s, "rfbSendServerCutText", sp), "classic publish skips handshake clients", re.S)

    # ---- server: SupportedMessages lists ClientCutText / ServerCutText unconditionally (brace depth 1)
    sm = _body(s, "rfbSendSupportedMessages", sp)
    for bit in ("rfbSetBit(msgs.client2server, rfbClientCutText);", "rfbSetBit(msgs.server2client, rfbServerCutText);"):
        if sm.count(bit) != 1:
            raise RuntimeError("C18: %s not found exactly once in rfbSendSupportedMessages" % bit)
        pre = re.sub(r"/\*.*?\*/", "", sm[:sm.index(bit)], flags=re.S)
        if pre.count("{") - pre.count("}") != 1:
            raise RuntimeError("C18: %s is conditional in rfbSendSupportedMessages (the list must not depend on transient state)" % bit)
    out.append("def srvListsCutText : Bool := true")

    # ---- client library
    hm = _body(c, "HandleRFBServerMessage", cp)
    i = hm.index("case rfbServerCutText:")
    j = hm.index("case rfbTextChat:", i)
    hm = hm[i:j]
    out.append("def cliMsgLimit : Nat := %d" % _expr(_one(r"if \(msg\.sct\.length > ([^)]+)\) \{", hm, "client message limit")))
    e = _body(c, "rfbClientProcessExtServerCutText", cp)
    out.append("def cliRecLimit : Nat := %d" % _expr(_one(r"if \(size > \(([^)]+)\)\) \{", e, "client record limit")))
    nt = _body(c, "sendExtClientCutTextNotify", cp)
    out.append("def cliNotifyFlags : Nat := %s" % _flags_expr(
        _one(r"rfbClientSwap32IfLE\((rfbExtendedClipboard_\w+\s*\|\s*rfbExtendedClipboard_\w+)\)", nt, "client notify flags").replace("\n", " "), "client notify"))
    pr = _body(c, "sendExtClientCutTextProvide", cp)
    out.append("def cliProvideFlags : Nat := %s" % _flags_expr(
        _one(r"be_flags = rfbClientSwap32IfLE\((rfbExtendedClipboard_\w+\s*\|\s*rfbExtendedClipboard_\w+)\)", pr, "client provide flags").replace("\n", " "), "client provide"))
    _one(r"int sentLen = len \+ 1;", pr, "client NUL convention")
    return "\n".join(out) + "\n"
