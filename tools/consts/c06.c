/* T0 probe for C06 (input events): client->server message sizes, type numbers and field offsets,
 * handshake message sizes, text limits, as the CURRENT /repo headers define them.  Printed as Lean
 * definitions -> lean/VncModel/Gen/C06.lean.  The cut-text limit is a bare literal inside
 * rfbProcessClientNormalMessage and is extracted by tools/consts/c06.py. */
#include <stddef.h>
#include <rfb/rfb.h>
#include "gen.h"

#define OFF(name, T, f) LNAT(name, offsetof(T, f))
#define LBOOL(name, v) printf("def %s : Bool := %s\n", name, (v) ? "true" : "false")

int main(void) {
  rfbClientCutTextMsg cct; rfbTextChatMsg tc;
  /* message type numbers */
  N(rfbSetPixelFormat); N(rfbFixColourMapEntries); N(rfbSetEncodings); N(rfbFramebufferUpdateRequest);
  N(rfbKeyEvent); N(rfbPointerEvent); N(rfbClientCutText); N(rfbFileTransfer); N(rfbSetScale);
  N(rfbSetServerInput); N(rfbSetSW); N(rfbTextChat); N(rfbPalmVNCSetScaleFactor); N(rfbXvp);
  N(rfbSetDesktopSize);
  /* sizes */
  N(sz_rfbSetPixelFormatMsg); N(sz_rfbFixColourMapEntriesMsg); N(sz_rfbSetEncodingsMsg);
  N(sz_rfbFramebufferUpdateRequestMsg); N(sz_rfbKeyEventMsg); N(sz_rfbPointerEventMsg);
  N(sz_rfbClientCutTextMsg); N(sz_rfbFileTransferMsg); N(sz_rfbSetScaleMsg);
  N(sz_rfbSetServerInputMsg); N(sz_rfbSetSWMsg); N(sz_rfbTextChatMsg); N(sz_rfbXvpMsg);
  N(sz_rfbSetDesktopSizeMsg); N(sz_rfbExtDesktopScreen);
  N(sz_rfbProtocolVersionMsg); N(sz_rfbClientInitMsg); N(CHALLENGESIZE);
  N(rfbProtocolMajorVersion);
  N(rfbSecTypeNone); N(rfbSecTypeVncAuth);
  /* field offsets actually used by the handlers */
  OFF("off_ke_down", rfbKeyEventMsg, down); OFF("off_ke_key", rfbKeyEventMsg, key);
  OFF("off_pe_buttonMask", rfbPointerEventMsg, buttonMask);
  OFF("off_pe_x", rfbPointerEventMsg, x); OFF("off_pe_y", rfbPointerEventMsg, y);
  OFF("off_cct_length", rfbClientCutTextMsg, length);
  OFF("off_se_nEncodings", rfbSetEncodingsMsg, nEncodings);
  OFF("off_ssc_scale", rfbSetScaleMsg, scale);
  OFF("off_tc_length", rfbTextChatMsg, length);
  OFF("off_sdm_numberOfScreens", rfbSetDesktopSizeMsg, numberOfScreens);
  OFF("off_spf_bitsPerPixel", rfbSetPixelFormatMsg, format.bitsPerPixel);
  OFF("off_spf_trueColour", rfbSetPixelFormatMsg, format.trueColour);
  /* field widths / signedness the length checks rely on */
  LNAT("width_cct_length", sizeof cct.length);
  cct.length = 0; cct.length--; LBOOL("cct_length_unsigned", cct.length > 0);
  LNAT("width_tc_length", sizeof tc.length);
  tc.length = 0; tc.length--; LBOOL("tc_length_unsigned", tc.length > 0);
#ifdef LIBVNCSERVER_ALLOW24BPP
  LBOOL("allow24bpp", 1);
#else
  LBOOL("allow24bpp", 0);
#endif
  /* text chat */
  N(rfbTextMaxSize); N(rfbTextChatOpen); N(rfbTextChatClose); N(rfbTextChatFinished);
  /* extended clipboard */
  LNAT("rfbEncodingExtendedClipboard", (uint32_t)rfbEncodingExtendedClipboard);
  N(rfbExtendedClipboard_Text); N(rfbExtendedClipboard_Caps); N(rfbExtendedClipboard_Request);
  N(rfbExtendedClipboard_Peek); N(rfbExtendedClipboard_Notify); N(rfbExtendedClipboard_Provide);
  return 0;
}
