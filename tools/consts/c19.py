"""T0 extractor for C19: file-local constants of src/libvncserver/rfbserver.c and of the TightVNC
extension that the theorems depend on.  Anchored regular expressions on the source text; a pattern
that no longer matches raises (broken obligation), never a default."""
import os, re, subprocess, tempfile


def _one(pat, text, what, flags=re.M):
    m = re.findall(pat, text, flags)
    if len(m) != 1:
        raise RuntimeError("C19 T0: expected exactly one match for %s, found %d" % (what, len(m)))
    return m[0]


def _func(text, name):
    """body text of function `name` (from its definition line to the closing brace in column 0)"""
    m = re.search(r"^(?:[A-Za-z_][^\n;]*?[\s*])?%s\s*\([^;{]*\)\s*\{" % re.escape(name), text, re.M | re.S)
    if not m:
        raise RuntimeError("C19 T0: function %s not found" % name)
    end = text.find("\n}\n", m.end())
    if end < 0:
        raise RuntimeError("C19 T0: end of %s not found" % name)
    return text[m.start():end + 3]


def gen(repo):
    src = open(os.path.join(repo, "src/libvncserver/rfbserver.c")).read()
    out = ["/- from src/libvncserver/rfbserver.c (file-local) -/"]
    maxpath = int(_one(r"^#define\s+MAX_PATH\s+(\d+)\s*$", src, "#define MAX_PATH"))
    out.append("def MAX_PATH : Nat := %d" % maxpath)

    # local path buffers and the size each rfbFilenameTranslate2UNIX call passes
    pft = _func(src, "rfbProcessFileTransfer")
    sdc = _func(src, "rfbSendDirContent")
    sizes = {}
    for fn, body, names in (("rfbProcessFileTransfer", pft, ("filename1", "filename2")),
                            ("rfbSendDirContent", sdc, ("path",))):
        for nm in names:
            dim = _one(r"^\s*char\s+%s\[\s*([A-Za-z_0-9* ]+?)\s*\];" % nm, body, "char %s[...] in %s" % (nm, fn))
            if dim != "MAX_PATH":
                if not re.fullmatch(r"\d+", dim):
                    raise RuntimeError("C19 T0: dimension of %s is %r (neither MAX_PATH nor a literal)" % (nm, dim))
                sizes[nm] = dim
            else:
                sizes[nm] = "MAX_PATH"
    out.append("def filename1Size : Nat := %s" % sizes["filename1"])
    out.append("def filename2Size : Nat := %s" % sizes["filename2"])
    out.append("def dirPathSize : Nat := %s" % sizes["path"])
    calls = re.findall(r"rfbFilenameTranslate2UNIX\s*\(\s*cl\s*,\s*([^,]+?)\s*,\s*([A-Za-z_0-9]+)\s*,\s*([^)]*\))\s*\)", pft + sdc)
    want = [("buffer", "path"), ("buffer", "filename1"), ("buffer", "filename1"), ("buffer", "filename1"),
            ("buffer", "filename1"), ("buffer", "filename1"), ("p+1", "filename2")]
    got = sorted((a.replace(" ", ""), d) for a, d, _ in calls)
    if got != sorted(want):
        raise RuntimeError("C19 T0: rfbFilenameTranslate2UNIX call sites changed: %r" % (calls,))
    for a, d, sz in calls:
        if sz.replace(" ", "") != "sizeof(%s)" % d:
            raise RuntimeError("C19 T0: translate call for %s passes %r, not sizeof(%s)" % (d, sz, d))
    out.append("def translateCallSites : Nat := %d" % len(calls))
    # the length guards of rfbFilenameTranslate2UNIX itself
    tr = _func(src, "rfbFilenameTranslate2UNIX")
    _one(r"if\s*\(\s*strlen\(path\)\s*>=\s*unixPathMaxLen\s*\)\s*return\s+FALSE;", tr, "first length guard of rfbFilenameTranslate2UNIX", re.S)
    _one(r"if\s*\(\s*\(\s*strlen\(path\)\s*\+\s*strlen\(home\)\s*\+\s*1\s*\)\s*>=\s*unixPathMaxLen\s*\)\s*return\s+FALSE;", tr,
         "second length guard of rfbFilenameTranslate2UNIX", re.S)

    # RFB_FIND_DATA layout: compile the typedefs as they are in the file
    tdefs = _one(r"(typedef struct \{\s*uint32_t dwLowDateTime;.*?\} RFB_FIND_DATA;)", src, "RFB_FIND_DATA typedefs", re.S)
    prog = ("#include <stdint.h>\n#include <stddef.h>\n#include <stdio.h>\n#define MAX_PATH %d\n%s\n"
            "int main(void){printf(\"%%zu %%zu %%zu %%zu\\n\", sizeof(RFB_FIND_DATA), offsetof(RFB_FIND_DATA,cFileName),"
            " offsetof(RFB_FIND_DATA,nFileSizeLow), offsetof(RFB_FIND_DATA,dwFileAttributes));return 0;}\n" % (maxpath, tdefs))
    with tempfile.TemporaryDirectory() as td:
        c = os.path.join(td, "p.c")
        open(c, "w").write(prog)
        subprocess.run(["gcc", "-w", c, "-o", os.path.join(td, "p")], check=True)
        r = subprocess.run([os.path.join(td, "p")], stdout=subprocess.PIPE, text=True, check=True)
    szfd, offname, offsize, offattr = (int(x) for x in r.stdout.split())
    _one(r"nOptLen\s*=\s*sizeof\(RFB_FIND_DATA\)\s*-\s*MAX_PATH\s*-\s*14\s*\+\s*strlen\(", sdc, "nOptLen formula")
    out.append("def findDataSize : Nat := %d" % szfd)
    out.append("def findDataNameOff : Nat := %d" % offname)
    out.append("def findDataSizeLowOff : Nat := %d" % offsize)
    out.append("def findDataAttrOff : Nat := %d" % offattr)
    out.append("/-- `nOptLen - strlen(name)` = sizeof(RFB_FIND_DATA) - MAX_PATH - 14 -/")
    out.append("def findDataFixed : Nat := %d" % (szfd - maxpath - 14))
    attr = {k: int(v, 16) for k, v in re.findall(r"^#define\s+RFB_FILE_ATTRIBUTE_(NORMAL|DIRECTORY)\s+0x([0-9a-fA-F]+)", src, re.M)}
    if set(attr) != {"NORMAL", "DIRECTORY"}:
        raise RuntimeError("C19 T0: RFB_FILE_ATTRIBUTE_* not found")
    out.append("def attrNormal : Nat := %d" % attr["NORMAL"])
    out.append("def attrDirectory : Nat := %d" % attr["DIRECTORY"])

    # TightVNC extension: every path buffer handed to ConvertPath is PATH_MAX long
    h = open(os.path.join(repo, "src/libvncserver/tightvnc-filetransfer/handlefiletransferrequest.c")).read()
    cp = _func(h, "ConvertPath")
    _one(r"strlen\(path\)\s*\+\s*strlen\(ftproot\)\s*>\s*PATH_MAX\s*-\s*1", cp, "ConvertPath length guard")
    out.append("/- from tightvnc-filetransfer/handlefiletransferrequest.c -/")
    out.append("def convertPathGuardsSeen : Nat := 1")
    return "\n".join(out) + "\n"
