"""T0 extractor for C05.

1. Anchored patterns on auth.c / main.c / vncauth.c for literals that are not macros visible to a
   probe: MAX_SECURITY_TYPES, the two reason strings, the default authPasswdFirstViewOnly.
2. The DES keys the installed libgcrypt refuses with GPG_ERR_WEAK_KEY (asked from the library itself
   through ctypes, over all 4^8 keys built from the bytes weak keys are made of).  Used by the
   documentation theorems about the unfixed back-end and by the generator (weak-key passwords).
A pattern that no longer matches raises: broken obligation, never a default.
"""
import ctypes, ctypes.util, itertools, os, re


def _must(pat, text, what):
    m = re.search(pat, text, re.S)
    if not m:
        raise RuntimeError("C05 T0: pattern for %s no longer matches" % what)
    return m


def lean_bytes(s):
    return "[" + ", ".join(str(b) for b in s.encode()) + "]"


def gcry_refused():
    name = ctypes.util.find_library("gcrypt") or "libgcrypt.so.20"
    g = ctypes.CDLL(name)
    g.gcry_check_version.restype = ctypes.c_char_p
    g.gcry_check_version(None)
    GCRY_CIPHER_DES, ECB, WEAK = 302, 1, 43
    hd = ctypes.c_void_p()
    if g.gcry_cipher_open(ctypes.byref(hd), GCRY_CIPHER_DES, ECB, 0) & 0xffff:
        raise RuntimeError("C05 T0: libgcrypt cannot open DES")
    out = []
    first = (0x00, 0x1e, 0xe0, 0xfe)
    second = (0x00, 0x0e, 0xf0, 0xfe)
    for k in itertools.product(first, first, first, first, second, second, second, second):
        kb = bytes(k)
        rc = g.gcry_cipher_setkey(hd, kb, 8) & 0xffff
        if rc == WEAK:
            out.append(k)
        elif rc != 0:
            raise RuntimeError("C05 T0: unexpected libgcrypt error %d" % rc)
    g.gcry_cipher_close(hd)
    return out


def gen(repo):
    auth = open(os.path.join(repo, "src/libvncserver/auth.c")).read()
    main = open(os.path.join(repo, "src/libvncserver/main.c")).read()
    out = []
    m = _must(r"#define\s+MAX_SECURITY_TYPES\s+(\d+)", auth, "MAX_SECURITY_TYPES")
    out.append("def MAX_SECURITY_TYPES : Nat := %s" % m.group(1))
    m = _must(r'char\*\s*reason\s*=\s*"([^"]*)";\s*rfbClientSendString\(cl,\s*reason\)', auth, "no-auth-mode reason")
    out.append("def reasonNoAuthMode : List UInt8 := %s" % lean_bytes(m.group(1)))
    m = _must(r'rfbVncAuthFailed\).*?rfbClientSendString\(cl,\s*"([^"]*)"\)', auth, "password-failed reason")
    out.append("def reasonPwFailed : List UInt8 := %s" % lean_bytes(m.group(1)))
    m = _must(r"screen->authPasswdFirstViewOnly\s*=\s*(-?\d+)\s*;", main, "default authPasswdFirstViewOnly")
    out.append("def defaultFirstViewOnly : Int := %s" % m.group(1))
    tight = open(os.path.join(repo, "src/libvncserver/tightvnc-filetransfer/rfbtightserver.c")).read()
    ncaps = 0
    for nm in ("N_SMSG_CAPS", "N_CMSG_CAPS", "N_ENC_CAPS"):
        m = _must(r"#define\s+%s\s+(\d+)" % nm, tight, nm)
        out.append("def %s : Nat := %s" % (nm, m.group(1)))
        ncaps += int(m.group(1))
    out.append("/-- bytes rfbSendInteractionCaps writes after the ServerInit of a TightVNC-extension client -/")
    out.append("def tightInteractionCapsLen : Nat := sz_rfbInteractionCapsMsg + sz_rfbCapabilityInfo * %d" % ncaps)
    keys = gcry_refused()
    out.append("/-- DES keys (parity bits cleared) libgcrypt's gcry_cipher_setkey refuses as weak -/")
    out.append("def gcryRefusedKeys : List (List UInt8) := [\n  " +
               ",\n  ".join("[" + ", ".join(str(b) for b in k) + "]" for k in keys) + "]")
    return "\n".join(out) + "\n"
