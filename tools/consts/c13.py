"""T0 probe for C13: the synchronisation skeleton of the anchored functions, regenerated on every run.

For each anchored function the sequence (textual order) of synchronisation-relevant tokens is
extracted from the current working tree: LOCK/UNLOCK/WAIT/TSIGNAL with the mutex / condition name,
thread create/join, reference counting, iterator calls, rfbCloseClient / rfbClientConnectionGone
calls, writes to the notify pipes, `return`, `break`, `continue`.  The Lean side
(`VncModel/Threads/Skeleton.lean`) holds the skeleton the model was built from; the theorem
`skeleton_matches` in Props/C13.lean compares the two by `decide`.  Dropping an UNLOCK on an error
path, moving a reference decrement, removing a TSIGNAL, re-ordering shutdown ... changes this text
and breaks that obligation whether or not the randomised schedules happen to reach the path.
A function that can no longer be located is an error (broken obligation), never a default.
"""
import os, re

FUNCS = [
    ("src/libvncserver/main.c", "clientOutput"),
    ("src/libvncserver/main.c", "clientInput"),
    ("src/libvncserver/main.c", "listenerRun"),
    ("src/libvncserver/main.c", "rfbStartOnHoldClient"),
    ("src/libvncserver/main.c", "rfbMarkRegionAsModified"),
    ("src/libvncserver/main.c", "rfbScheduleCopyRegion"),
    ("src/libvncserver/main.c", "rfbNewFramebuffer"),
    ("src/libvncserver/main.c", "rfbShutdownServer"),
    ("src/libvncserver/main.c", "rfbScreenCleanup"),
    ("src/libvncserver/main.c", "rfbRunEventLoop"),
    ("src/libvncserver/rfbserver.c", "rfbIncrClientRef"),
    ("src/libvncserver/rfbserver.c", "rfbDecrClientRef"),
    ("src/libvncserver/rfbserver.c", "rfbClientIteratorNext"),
    ("src/libvncserver/rfbserver.c", "rfbReleaseClientIterator"),
    ("src/libvncserver/rfbserver.c", "rfbNewTCPOrUDPClient"),
    ("src/libvncserver/rfbserver.c", "rfbClientConnectionGone"),
    ("src/libvncserver/rfbserver.c", "rfbProcessClientInitMessage"),
    ("src/libvncserver/rfbserver.c", "rfbSendBell"),
    ("src/libvncserver/rfbserver.c", "rfbSendServerCutText"),
    ("src/libvncserver/rfbserver.c", "rfbSendServerCutTextUTF8"),
    ("src/libvncserver/sockets.c", "rfbCloseClient"),
    ("src/libvncserver/sockets.c", "rfbWriteExact"),
]

TOKEN = re.compile(
    r"\b(LOCK|UNLOCK|TSIGNAL|INIT_MUTEX|TINI_MUTEX|INIT_COND|TINI_COND)\s*\(\s*([^()]*?)\s*\)"
    r"|\bWAIT\s*\(\s*([^(),]*?)\s*,\s*([^()]*?)\s*\)"
    r"|\b(pthread_create|pthread_join|THREAD_JOIN|rfbIncrClientRef|rfbDecrClientRef|rfbClientIteratorNext|"
    r"rfbGetClientIteratorWithClosed|rfbGetClientIterator|rfbReleaseClientIterator|rfbCloseClient|rfbClientConnectionGone|rfbWriteExact|"
    r"rfbShutdownSockets|rfbStartOnHoldClient|rfbNewClient|rfbMarkRectAsModified|free)\s*\("
    r"|\bwrite\s*\(\s*([a-zA-Z_>\-\.]*pipe_notify[a-z_]*)"
    r"|\b(return|break|continue)\b"
    r"|(cl->state\s*=\s*RFB_SHUTDOWN|cl->sock\s*=\s*RFB_INVALID_SOCKET|cl->state\s*(?:==|!=)\s*RFB_SHUTDOWN|cl->state\s*!=\s*RFB_NORMAL)"
    # the same tests on a client reached through another pointer (iterator filter, other clients)
    r"|(->state\s*(?:==|!=)\s*RFB_SHUTDOWN|->state\s*(?:==|!=)\s*RFB_NORMAL|->sock\s*<\s*0|->sock\s*==\s*RFB_INVALID_SOCKET)")


def strip_comments(t):
    t = re.sub(r"/\*.*?\*/", lambda m: " " * 0 + "".join("\n" if c == "\n" else " " for c in m.group(0)), t, flags=re.S)
    t = re.sub(r"//[^\n]*", "", t)
    return t


def active_text(t):
    """drop the branches of the preprocessor conditionals that are not compiled on this platform
    (WIN32, FUZZING_BUILD_MODE..., #if 0); keeps everything else"""
    out, stack = [], []
    for line in t.split("\n"):
        s = line.strip()
        m = re.match(r"#\s*(if|ifdef|ifndef|elif|else|endif)\b(.*)", s)
        if m:
            d, rest = m.group(1), m.group(2).strip()
            if d in ("if", "ifdef", "ifndef"):
                off = None
                if d == "ifdef" and rest in ("WIN32", "FUZZING_BUILD_MODE_UNSAFE_FOR_PRODUCTION"): off = True
                elif d == "ifndef" and rest in ("WIN32", "FUZZING_BUILD_MODE_UNSAFE_FOR_PRODUCTION"): off = False
                elif d == "if" and rest == "0": off = True
                elif d == "if" and "defined(LIBVNCSERVER_HAVE_WIN32THREADS)" in rest and "LIBPTHREAD" not in rest: off = True
                stack.append(off)
            elif d == "elif":
                if stack and stack[-1] is not None:
                    # "#ifdef PTHREAD ... #elif WIN32THREADS": the elif branch is off when the first was on
                    stack[-1] = True if stack[-1] is False else stack[-1]
                elif stack and "LIBVNCSERVER_HAVE_WIN32THREADS" in rest:
                    stack[-1] = True
            elif d == "else":
                if stack and stack[-1] is not None:
                    stack[-1] = not stack[-1]
            elif d == "endif":
                if stack: stack.pop()
            out.append("")
            continue
        out.append("" if any(x is True for x in stack) else line)
    return "\n".join(out)


def body_of(text, name):
    m = None
    for mm in re.finditer(r"^(?:static\s+)?[A-Za-z_][A-Za-z0-9_ \*]*?\b%s\s*\(" % re.escape(name), text, flags=re.M):
        # definition: followed (after the parameter list) by '{', not ';'
        i = text.index("(", mm.start() + len(mm.group(0)) - 1)
        depth = 0
        j = i
        while j < len(text):
            if text[j] == "(": depth += 1
            elif text[j] == ")":
                depth -= 1
                if depth == 0: break
            j += 1
        k = j + 1
        while k < len(text) and text[k] in " \t\r\n": k += 1
        if k < len(text) and text[k] == "{":
            m = k
            break
    if m is None:
        # K&R style:  name(args)\n{   with the return type on the previous line
        mm = re.search(r"^%s\s*\([^;{]*?\)\s*\{" % re.escape(name), text, flags=re.M | re.S)
        if not mm:
            raise RuntimeError("C13 T0: definition of %s not found" % name)
        m = mm.end() - 1
    depth, j = 0, m
    while j < len(text):
        if text[j] == "{": depth += 1
        elif text[j] == "}":
            depth -= 1
            if depth == 0:
                return text[m:j + 1]
        j += 1
    raise RuntimeError("C13 T0: unbalanced body of %s" % name)


def skeleton(body):
    toks = []
    for m in TOKEN.finditer(body):
        if m.group(1):
            arg = re.sub(r"\s+", "", m.group(2))
            arg = re.sub(r"^.*(->|\.)", "", arg)
            toks.append("%s %s" % (m.group(1), arg))
        elif m.group(3) is not None:
            c = re.sub(r"^.*(->|\.)", "", re.sub(r"\s+", "", m.group(3)))
            mu = re.sub(r"^.*(->|\.)", "", re.sub(r"\s+", "", m.group(4)))
            toks.append("WAIT %s %s" % (c, mu))
        elif m.group(5):
            toks.append(m.group(5))
        elif m.group(6):
            toks.append("pipewrite " + ("listener" if "listener" in m.group(6) else "client"))
        elif m.group(7):
            toks.append(m.group(7))
        elif m.group(8):
            toks.append(re.sub(r"\s+", "", m.group(8)))
        elif m.group(9):
            toks.append("*" + re.sub(r"\s+", "", m.group(9)))
    return toks


def gen(repo):
    out = ["/-- synchronisation skeleton of the anchored functions, in textual order (T0, regenerated) -/",
           "def skeleton : List (String × List String) := ["]
    rows = []
    cache = {}
    for path, fn in FUNCS:
        if path not in cache:
            with open(os.path.join(repo, path), errors="replace") as f:
                cache[path] = active_text(strip_comments(f.read()))
        toks = skeleton(body_of(cache[path], fn))
        rows.append('  ("%s", [%s])' % (fn, ", ".join('"%s"' % t for t in toks)))
    out.append(",\n".join(rows))
    out.append("]")
    return "\n".join(out) + "\n"


if __name__ == "__main__":
    import sys
    print(gen(sys.argv[1] if len(sys.argv) > 1 else "/repo"))
