"""T0 extractor for C04: literals that are not macros.  Every pattern must match exactly the
expected number of times in the current tree, otherwise this raises (a broken obligation, never a
silent default)."""
import os, re


def _src(repo, rel):
    return open(os.path.join(repo, rel)).read()


def _one(text, pat, what, count=1):
    m = re.findall(pat, text)
    if len(m) != count:
        raise RuntimeError("C04 T0: pattern for %s matched %d times (expected %d): %s" % (what, len(m), count, pat))
    return m


def _val(expr):
    expr = expr.strip().strip("()")
    m = re.fullmatch(r"(\d+)\s*<<\s*(\d+)", expr)
    if m:
        return int(m.group(1)) << int(m.group(2))
    return int(expr, 0)


def gen(repo):
    out = []
    rs = _src(repo, "src/libvncserver/rfbserver.c")
    # classic + extended cut text limit (one guard serves both branches)
    g = _one(rs, r"if\s*\(\s*msg\.cct\.length\s*>\s*([^)]+?)\s*\)\s*\{", "cut text length guard")
    out.append("def cutTextMax : Nat := %d" % _val(g[0]))
    # extended clipboard: per-format inflated size limit
    g = _one(rs, r"if\s*\(\s*size\s*>\s*\(([^)]+)\)\s*\)\s*\{\s*\n\s*rfbLog\(\"rfbProcessExtendedServerCutTextData", "extended clipboard size guard")
    out.append("def extClipMax : Nat := %d" % _val(g[0]))
    # the allocation that follows the guard
    _one(rs, r"str\s*=\s*\(char \*\)calloc\(msg\.cct\.length \? msg\.cct\.length : 1, 1\);", "cut text calloc")
    _one(rs, r"if \(\(msg\.tc\.length>0\) && \(msg\.tc\.length<rfbTextMaxSize\)\)", "text chat guard")
    _one(rs, r"str = \(char \*\)malloc\(msg\.tc\.length\);", "text chat malloc")
    _one(rs, r"malloc\(msg\.sdm\.numberOfScreens \* sz_rfbExtDesktopScreen\)", "SetDesktopSize malloc")
    _one(rs, r"if\(length == SIZE_MAX \|\| length > INT_MAX\)", "file transfer length guard")
    _one(rs, r"buffer=malloc\(\(size_t\)length\+1\);", "file transfer malloc")
    _one(rs, r"if \(msg\.ssc\.scale == 0\)", "scale guard", 2)
    g = _one(rs, r"#define MAX_PATH (\d+)", "MAX_PATH")
    out.append("def maxPath : Nat := %d" % int(g[0]))
    so = _src(repo, "src/libvncserver/sockets.c")
    g = _one(so, r"int rfbMaxClientWait = (\d+);", "rfbMaxClientWait")
    out.append("def defaultClientWait : Nat := %d" % int(g[0]))
    g = _one(so, r"tv\.tv_sec = (\d+);\s*\n\s*tv\.tv_usec = 0;\s*\n\s*n = select\(sock\+1, NULL, &fds", "write retry interval")
    a = int(g[0]) * 1000
    g = _one(so, r"totalTimeWaited \+= (\d+);", "write wait increment")
    if int(g[0]) != a:
        raise RuntimeError("C04 T0: write retry select interval %d ms and accounting increment %s ms differ" % (a, g[0]))
    out.append("def writeRetryMs : Nat := %d" % a)
    _one(so, r"if \(totalTimeWaited >= timeout\)", "write timeout comparison")
    ws = _src(repo, "src/libvncserver/websockets.c")
    g = _one(ws, r"#define WEBSOCKETS_CLIENT_CONNECT_WAIT_MS (\d+)", "ws connect wait")
    out.append("def wsConnectWaitMs : Nat := %d" % int(g[0]))
    tr = _src(repo, "src/libvncserver/translate.c")
    g = _one(tr, r"static const rfbPixelFormat BGR233Format = \{\s*([^}]+)\}", "BGR233Format")
    vals = [int(x) for x in g[0].replace("\n", " ").split(",")]
    out.append("def bgr233 : List Nat := %s" % vals[:10])
    sc = _src(repo, "src/libvncserver/scale.c")
    fixed = len(re.findall(r"if \(width == 0 \|\| height == 0 \|\| allocSize >= SIZE_MAX / height\)", sc))
    orig = len(re.findall(r"if \(height == 0 \|\| allocSize >= SIZE_MAX / height\)", sc))
    if fixed + orig != 1:
        raise RuntimeError("C04 T0: rfbScaledScreenAllocate guard not recognised")
    out.append("def scaleRejectsZeroWidth : Bool := %s" % ("true" if fixed else "false"))
    pf = len(re.findall(r"rfbChannelFitsPixel\(cl->format\.redMax, cl->format\.redShift, cl->format\.bitsPerPixel\)", tr))
    out.append("def pixfmtChannelsChecked : Bool := %s" % ("true" if pf else "false"))
    cr = re.search(r"rfbSendCopyRegion\(rfbClientPtr cl,.*?\n}\n", rs, re.S)
    if not cr:
        raise RuntimeError("C04 T0: rfbSendCopyRegion not found")
    out.append("def copyRegionFlushes : Bool := %s" % ("true" if "rfbSendUpdateBuf" in cr.group(0) else "false"))
    return "\n".join(out) + "\n"
