"""T0 extractor for C14: the option table of rfbProcessArguments (src/libvncserver/cargs.c).

The command-line path is one of the two ways the three sharing switches get set.  What matters for
the policy is which tokens the loop treats as options and how many tokens each one swallows (an
option that takes a value swallows a following `-nevershared`; an extension option must not).
This extractor reads the if/else-if chain from the current source, after the preprocessor has
resolved the #ifdefs of this build but without macro expansion (`-fdirectives-only`), classifies
every branch (help / option with value / plain flag), finds the three sharing flags by the field
they set, and checks the text of the extension fallback and of the purge step literally.  Anything
that no longer has the expected shape raises: a broken obligation, never a default.
"""
import os, re, subprocess, sys
sys.path.insert(0, os.path.dirname(os.path.dirname(os.path.dirname(os.path.abspath(__file__)))))
from vlib import build

EXT_TAIL = ("rfbProtocolExtension*extension;inthandled=0;"
            "for(extension=rfbGetExtensionIterator();handled==0&&extension;extension=extension->next)"
            "if(extension->processArgument)handled=extension->processArgument(*argc-i,argv+i);"
            "rfbReleaseExtensionIterator();"
            "if(handled==0){i++;i1=i;continue;}"
            "i+=handled-1;}"
            "rfbPurgeArguments(argc,&i1,i-i1+1,argv);i=i1;}returnTRUE;}")
PURGE = ("voidrfbPurgeArguments(int*argc,int*position,intcount,char*argv[]){"
         "intamount=(*argc)-(*position)-count;"
         "if(amount)memmove(argv+(*position),argv+(*position)+count,sizeof(char*)*amount);"
         "(*argc)-=count;}")
HEAD = "inti,i1;if(!argc)returnTRUE;for(i=i1=1;i<*argc;){"
GUARD = "if(i+1>=*argc){rfbUsage();returnFALSE;}"


def _strip_comments(t):
    t = re.sub(r"/\*.*?\*/", " ", t, flags=re.S)
    return re.sub(r"//[^\n]*", " ", t)


def lean_list(xs):
    return "[" + ", ".join('"%s"' % x for x in xs) + "]"


def gen(repo):
    src = os.path.join(repo, "src/libvncserver/cargs.c")
    cmd = ["gcc", "-std=gnu99", "-w", "-E", "-P", "-fdirectives-only", src] + build.DEFS + build.incs()
    r = subprocess.run(cmd, stdout=subprocess.PIPE, stderr=subprocess.PIPE, text=True)
    if r.returncode != 0:
        raise RuntimeError("cpp failed on cargs.c: %s" % r.stderr[-800:])
    t = r.stdout
    k = t.rfind("rfbUsage(void)")      # everything before is headers (their strings may contain "/*")
    if k < 0:
        raise RuntimeError("rfbUsage not found")
    t = _strip_comments(t[k:])
    flat = re.sub(r"\s+", "", t)
    if PURGE not in flat:
        raise RuntimeError("rfbPurgeArguments no longer has the expected text")
    a = flat.find("rfbProcessArguments(rfbScreenInfoPtrrfbScreen,int*argc,char*argv[]){")
    b = flat.find("rfbBoolrfbProcessSizeArguments(")
    if a < 0 or b < a:
        raise RuntimeError("rfbProcessArguments not found")
    body = flat[a:b]
    body = body[body.index("{") + 1:]
    if not body.startswith(HEAD):
        raise RuntimeError("rfbProcessArguments: loop head changed")
    body = body[len(HEAD):]
    if not body.endswith(EXT_TAIL):
        raise RuntimeError("rfbProcessArguments: extension fallback / purge step changed")
    chain = body[:-len(EXT_TAIL)]
    if not chain.endswith("}else{"):
        raise RuntimeError("rfbProcessArguments: chain does not end in the extension fallback")
    chain = chain[:-len("else{")]
    # branches: (if|elseif)(<cond>){<body>}
    heads = [m for m in re.finditer(r'(?:^|\}else)if\(((?:strcmp\(argv\[i\],"[^"]+"\)==0(?:\|\|)?)+)\)\{', chain)]
    if not heads or heads[0].start() != 0:
        raise RuntimeError("rfbProcessArguments: cannot parse the option chain")
    helpo, valo, flago, field = [], [], [], {}
    for k, m in enumerate(heads):
        end = heads[k + 1].start() if k + 1 < len(heads) else len(chain) - 1
        bd = chain[m.end():end]
        names = re.findall(r'strcmp\(argv\[i\],"([^"]+)"\)==0', m.group(1))
        if "argv[++i]" in bd:
            if bd.count("argv[++i]") != 1 or "argv[i" in bd.replace("argv[++i]", ""):
                raise RuntimeError("option %r consumes an unexpected number of tokens" % names)
            if GUARD not in bd and "||i+1>=*argc){rfbUsage();free(passwds);returnFALSE;}" not in bd:
                raise RuntimeError("option %r lost its missing-value guard" % names)
            valo += names
        elif bd == "rfbUsage();returnFALSE;":
            helpo += names
        else:
            mm = re.fullmatch(r"rfbScreen->(\w+)=TRUE;", bd)
            if not mm or len(names) != 1:
                raise RuntimeError("option %r: unexpected body %r" % (names, bd[:80]))
            flago += names
            field[mm.group(1)] = names[0]
    for f in ("alwaysShared", "neverShared", "dontDisconnect"):
        if f not in field:
            raise RuntimeError("no option sets rfbScreen->%s" % f)
    allo = helpo + valo + flago
    if len(set(allo)) != len(allo):
        raise RuntimeError("an option name occurs twice in the chain")
    out = ["/-- options of rfbProcessArguments that print the usage and stop -/",
           "def argHelp : List String := " + lean_list(helpo),
           "/-- options that swallow the following token as their value (and stop when it is missing) -/",
           "def argValue : List String := " + lean_list(valo),
           "/-- plain flags (one token) -/",
           "def argFlag : List String := " + lean_list(flago),
           'def argAlwaysShared : String := "%s"' % field["alwaysShared"],
           'def argNeverShared : String := "%s"' % field["neverShared"],
           'def argDontDisconnect : String := "%s"' % field["dontDisconnect"],
           "/-- checked literally on the C text: loop head, extension fallback (`i+=handled-1`), purge of\n"
           "`i-i1+1` tokens at `i1`, rfbPurgeArguments itself -/",
           "def argLoopShapeChecked : Bool := true", ""]
    return "\n".join(out)


# ---------------------------------------------------------------------------------------------
# the policy block at the end of rfbProcessClientInitMessage: its three conditions are translated
# into Lean (the theorems `exclusive_matches_source` / `other_matches_source` in Props/C14.lean prove
# that the hand-written model uses exactly these), everything else is compared literally.

POLICY_SHAPE = ("if(@COND@){if(cl->screen->dontDisconnect){iterator=rfbGetClientIterator(cl->screen);"
                "while((otherCl=rfbClientIteratorNext(iterator))!=NULL){if(@O1@){rfbCloseClient(cl);"
                "rfbReleaseClientIterator(iterator);return;}}rfbReleaseClientIterator(iterator);}else{"
                "iterator=rfbGetClientIterator(cl->screen);rfbClientPtrnextCl,otherCl=rfbClientIteratorNext(iterator);"
                "while(otherCl){nextCl=rfbClientIteratorNext(iterator);if(@O2@){rfbCloseClient(otherCl);}"
                "otherCl=nextCl;}rfbReleaseClientIterator(iterator);}}}")
ATOMS = {"cl->reverseConnection": "rev", "cl->screen->neverShared": "never",
         "cl->screen->alwaysShared": "always", "ci.shared": "shared",
         "otherCl!=cl": "notMe", "otherCl->state==RFB_NORMAL": "normal"}


def _bool_expr(src, allowed):
    """C boolean expression over the known atoms -> Lean Bool expression (recursive descent)"""
    toks = re.findall(r"\|\||&&|!(?!=)|\(|\)|[^|&!()]+(?:!=[^|&!()]+)?", src)
    pos = [0]

    def peek():
        return toks[pos[0]] if pos[0] < len(toks) else None

    def eat(t=None):
        x = peek()
        if x is None or (t is not None and x != t):
            raise RuntimeError("policy condition: cannot parse %r at %r" % (src, x))
        pos[0] += 1
        return x

    def atom():
        x = peek()
        if x == "!":
            eat()
            return "!" + atom()
        if x == "(":
            eat()
            # "(otherCl != cl)" style atoms arrive as one token inside parentheses
            e = disj()
            eat(")")
            return "(" + e + ")"
        x = eat()
        if x not in ATOMS or ATOMS[x] not in allowed:
            raise RuntimeError("policy condition: unknown operand %r in %r" % (x, src))
        return ATOMS[x]

    def conj():
        e = atom()
        while peek() == "&&":
            eat()
            e = e + " && " + atom()
        return e

    def disj():
        e = conj()
        while peek() == "||":
            eat()
            e = e + " || " + conj()
        return e
    e = disj()
    if pos[0] != len(toks):
        raise RuntimeError("policy condition: trailing tokens in %r" % src)
    return e


def gen_policy(repo):
    t = open(os.path.join(repo, "src/libvncserver/rfbserver.c")).read()
    k = t.find("\nrfbProcessClientInitMessage(")
    if k < 0:
        raise RuntimeError("rfbProcessClientInitMessage not found")
    body = t[k:]
    k2 = body.find("cl->state = RFB_NORMAL;")
    e = body.find("\n}\n", k2)
    if k2 < 0 or e < 0:
        raise RuntimeError("policy block not found")
    blk = _strip_comments(body[k2 + len("cl->state = RFB_NORMAL;"):e + 3])
    blk = re.sub(r'rfbLog\s*\((?:[^;"]|"(?:[^"\\]|\\.)*")*\)\s*;', "", blk)      # logging is not behaviour
    flat = re.sub(r"\s+", "", blk)
    rx = re.escape(POLICY_SHAPE)
    for name in ("COND", "O1", "O2"):
        rx = rx.replace(re.escape("@%s@" % name), "(?P<%s>.+?)" % name)
    m = re.fullmatch(rx, flat)
    if not m:
        raise RuntimeError("the sharing-policy block of rfbProcessClientInitMessage changed shape")
    cond = _bool_expr(m.group("COND"), {"rev", "never", "always", "shared"})
    o1 = _bool_expr(m.group("O1"), {"notMe", "normal"})
    o2 = _bool_expr(m.group("O2"), {"notMe", "normal"})
    return "\n".join([
        "/-- the guard of the policy block, translated from rfbserver.c -/",
        "def exclusiveGen (rev never always shared : Bool) : Bool := " + cond,
        "/-- `-dontdisconnect` loop: which other client makes the newcomer be refused -/",
        "def otherRefuseGen (notMe normal : Bool) : Bool := " + o1,
        "/-- default loop: which other clients are closed -/",
        "def otherCloseGen (notMe normal : Bool) : Bool := " + o2,
        "/-- checked literally (comments and rfbLog calls removed): the two loops, what they close, the\n"
        "iterator get/release pairing, the early return -/",
        "def policyShapeChecked : Bool := true", ""])


_gen_args = gen


def gen(repo):
    return _gen_args(repo) + "\n" + gen_policy(repo)


if __name__ == "__main__":
    print(gen(build.REPO))
