/* T0 probe for C03 (Wire): constants of the RFB wire format and of the rectangle-planning code,
 * taken from /repo's current headers.  Output: Lean definitions (body of VncModel.Gen.C03).
 * File-local macros of tight.c / literals of rfbserver.c are extracted by tools/consts/c03.py. */
#include <rfb/rfb.h>
#include "gen.h"

/* The function-like macros ZLIB_MAX_SIZE / ULTRA_MAX_SIZE are modelled in Lean as
 *   maxSize R w = if 2*w > R then 2*w else R        (R = *_MAX_RECT_SIZE)
 * the probe refuses to generate anything if the C macro disagrees with that shape. */
static int shape_ok(void) {
  long w;
  for (w = 0; w <= 140000; w++) {
    long z = ZLIB_MAX_SIZE(w), u = ULTRA_MAX_SIZE(w);
    long ez = (2 * w > ZLIB_MAX_RECT_SIZE) ? 2 * w : ZLIB_MAX_RECT_SIZE;
    long eu = (2 * w > ULTRA_MAX_RECT_SIZE) ? 2 * w : ULTRA_MAX_RECT_SIZE;
    if (z != ez || u != eu) { fprintf(stderr, "MAX_SIZE macro shape changed at w=%ld\n", w); return 0; }
  }
  return 1;
}

int main(void) {
  if (!shape_ok()) return 1;
  N(UPDATE_BUF_SIZE);
  N(ZLIB_MAX_RECT_SIZE);
  N(ULTRA_MAX_RECT_SIZE);
  N(VNC_ENCODE_ZLIB_MIN_COMP_SIZE);
  N(CHALLENGESIZE);
  N(rfbTextMaxSize);
  /* sizes */
  N(sz_rfbProtocolVersionMsg); N(sz_rfbPixelFormat); N(sz_rfbServerInitMsg);
  N(sz_rfbFramebufferUpdateMsg); N(sz_rfbRectangle); N(sz_rfbFramebufferUpdateRectHeader);
  N(sz_rfbCopyRect); N(sz_rfbRREHeader); N(sz_rfbCoRRERectangle);
  N(sz_rfbZlibHeader); N(sz_rfbZRLEHeader); N(sz_rfbXCursorColors); N(sz_rfbSupportedMessages);
  N(sz_rfbExtDesktopSizeMsg); N(sz_rfbExtDesktopScreen);
  N(sz_rfbSetColourMapEntriesMsg); N(sz_rfbBellMsg); N(sz_rfbServerCutTextMsg);
  N(sz_rfbResizeFrameBufferMsg); N(sz_rfbPalmVNCReSizeFrameBufferMsg);
  N(sz_rfbXvpMsg); N(sz_rfbTextChatMsg); N(sz_rfbFileTransferMsg);
  /* server -> client message types */
  N(rfbFramebufferUpdate); N(rfbSetColourMapEntries); N(rfbBell); N(rfbServerCutText);
  N(rfbResizeFrameBuffer); N(rfbPalmVNCReSizeFrameBuffer); N(rfbFileTransfer); N(rfbTextChat);
  N(rfbXvp);
  LNAT("rfbTextChatOpen", (uint32_t)rfbTextChatOpen);
  LNAT("rfbTextChatClose", (uint32_t)rfbTextChatClose);
  LNAT("rfbTextChatFinished", (uint32_t)rfbTextChatFinished);
  /* security */
  N(rfbSecTypeInvalid); N(rfbSecTypeNone); N(rfbSecTypeVncAuth);
  N(rfbVncAuthOK); N(rfbVncAuthFailed); N(rfbConnFailed);
  /* encodings (as unsigned 32-bit numbers) */
#define E(x) LNAT(#x, (uint32_t)(x))
  E(rfbEncodingRaw); E(rfbEncodingCopyRect); E(rfbEncodingRRE); E(rfbEncodingCoRRE);
  E(rfbEncodingHextile); E(rfbEncodingZlib); E(rfbEncodingTight); E(rfbEncodingTightPng);
  E(rfbEncodingUltra); E(rfbEncodingZRLE); E(rfbEncodingZYWRLE); E(rfbEncodingUltraZip);
  E(rfbEncodingXCursor); E(rfbEncodingRichCursor); E(rfbEncodingPointerPos);
  E(rfbEncodingLastRect); E(rfbEncodingNewFBSize); E(rfbEncodingExtDesktopSize);
  E(rfbEncodingKeyboardLedState); E(rfbEncodingSupportedMessages);
  E(rfbEncodingSupportedEncodings); E(rfbEncodingServerIdentity);
  E(rfbEncodingXvp); E(rfbEncodingExtendedClipboard);
  E(rfbEncodingCompressLevel0); E(rfbEncodingCompressLevel9);
  E(rfbEncodingQualityLevel0); E(rfbEncodingQualityLevel9);
  E(rfbEncodingFineQualityLevel0); E(rfbEncodingFineQualityLevel100);
  E(rfbEncodingSubsamp1X); E(rfbEncodingSubsampGray);
  /* hextile sub-encoding bits */
  N(rfbHextileRaw); N(rfbHextileBackgroundSpecified); N(rfbHextileForegroundSpecified);
  N(rfbHextileAnySubrects); N(rfbHextileSubrectsColoured);
  /* tight control byte */
  N(rfbTightExplicitFilter); N(rfbTightFill); N(rfbTightJpeg); N(rfbTightNoZlib); N(rfbTightPng);
  N(rfbTightMaxSubencoding); N(rfbTightFilterCopy); N(rfbTightFilterPalette); N(rfbTightFilterGradient);
  /* ext desktop size */
  N(rfbExtDesktopSize_GenericChange); N(rfbExtDesktopSize_ClientRequestedChange);
  N(rfbExtDesktopSize_OtherClientRequestedChange);
  N(rfbExtDesktopSize_ResizeProhibited);
  /* extended clipboard */
  LNAT("rfbExtendedClipboard_Text", (uint32_t)rfbExtendedClipboard_Text);
  LNAT("rfbExtendedClipboard_Caps", (uint32_t)rfbExtendedClipboard_Caps);
  LNAT("rfbExtendedClipboard_Request", (uint32_t)rfbExtendedClipboard_Request);
  LNAT("rfbExtendedClipboard_Peek", (uint32_t)rfbExtendedClipboard_Peek);
  LNAT("rfbExtendedClipboard_Notify", (uint32_t)rfbExtendedClipboard_Notify);
  LNAT("rfbExtendedClipboard_Provide", (uint32_t)rfbExtendedClipboard_Provide);
  return 0;
}
