#!/usr/bin/env python3
"""Differential self-test of the T1 translator (tools/c2lean.py).

Translates the synthetic functions of tools/t1_tests/selftest.c (one per construct of the subset)
and the exported whitelist functions sraClipRect / sraClipRect2 (via #include of rfbregion.c), evaluates the generated Lean definitions with `lean --run`-free `#eval` and the compiled
C code (gcc -fwrapv is NOT used: inputs are kept in ranges without signed overflow) on the same
inputs and compares all results.  Exit code 0 = all equal.

This is a test of the translator (trusted base), not a proof obligation; it is not run by ./check.
Usage: python3 tools/t1_selftest.py [seed]
"""
import os, random, subprocess, sys, tempfile

HERE = os.path.dirname(os.path.abspath(__file__))
sys.path.insert(0, HERE)
sys.path.insert(0, os.path.dirname(HERE))
import c2lean  # noqa: E402
from vlib import build  # noqa: E402

ST = os.path.join(HERE, "t1_tests", "selftest.c")
TBL = {"s->width": "width", "s->height": "height"}
TBLP = {"p->width": "width", "p->height": "height"}

# name, file, arg kinds (i: int, u: unsigned, p: int* in/out, s: struct scr*), returns value?, table, range
FUNCS = [
    ("t_sum", ST, "i", True, {}, (-3, 40)),
    ("t_while", ST, "ii", True, {}, (-50, 200)),
    ("t_down", ST, "ii", True, {}, (-30, 60)),
    ("t_nested", ST, "ii", True, {}, (-2, 12)),
    ("t_div", ST, "ii", True, {}, (-1000, 1000)),
    ("t_unsigned", ST, "uu", True, {}, (0, 4294967295)),
    ("t_casts", ST, "i", True, {}, (-40000, 40000)),
    ("t_ternary", ST, "ii", True, {}, (-4, 4)),
    ("t_inout", ST, "ppi", True, {}, (-20, 20)),
    ("t_caller", ST, "ii", True, {}, (-20, 20)),
    ("t_fields", ST, "sii", True, TBL, (-30, 130)),
    ("t_fields_caller", ST, "si", True, TBLP, (-30, 130)),
    ("t_void", ST, "pi", False, {}, (-100, 100)),
    ("t_shift", ST, "ii", True, {}, (-100000, 100000)),
    ("t_loop_field", ST, "si", True, TBL, (-5, 40)),
    ("sraClipRect", "src/libvncserver/rfbregion.c", "ppppiiii", True, {}, (-40, 40)),
    ("sraClipRect2", "src/libvncserver/rfbregion.c", "ppppiiii", True, {}, (-40, 40)),
]


def gen_inputs(rng, kinds, lo, hi, n):
    out = []
    nargs = sum(2 if k == "s" else 1 for k in kinds)
    edge = [lo, hi, 0, 1, -1, 2, 3, 4, 5, 7, 8] if lo < 0 else [lo, hi, 0, 1, 2, 3, 5, 8, 2**31, 2**31 - 1]
    edge = [e for e in edge if lo <= e <= hi]
    for _ in range(n):
        v = []
        for _ in range(nargs):
            v.append(rng.choice(edge) if rng.random() < 0.3 else rng.randint(lo, hi))
        out.append(v)
    return out


def rejects():
    """every function of t1_tests/reject.c must be refused"""
    import re
    rj = os.path.join(HERE, "t1_tests", "reject.c")
    names = re.findall(r"^int (r_\w+)\(", open(rj).read(), re.M)
    bad = 0
    for nm in names:
        try:
            txt = c2lean.translate(c2lean.Spec(rj, nm))
            print("NOT REJECTED: %s\n%s" % (nm, txt))
            bad += 1
        except c2lean.Unsupported:
            pass
    print("T1 selftest: %d constructs outside the subset, %d wrongly accepted" % (len(names), bad))
    return bad


def main():
    seed = int(sys.argv[1]) if len(sys.argv) > 1 else 1
    rng = random.Random(seed)
    if rejects():
        return 1
    lean = ["set_option linter.unusedVariables false", c2lean.PRELUDE]
    cdrv = ['#include <stdio.h>', '#include <stdint.h>', '#include <rfb/rfb.h>',
            '#include "%s"' % ST, '#include "rfbregion.c"', 'rfbLogProc rfbErr = 0;', 'int main(void){', 'struct scr S;']
    evals = []
    total = 0
    for name, file, kinds, hasret, table, (lo, hi) in FUNCS:
        spec = c2lean.Spec(file, name, name=name, table=table)
        lean.append(c2lean.translate(spec))
        ins = gen_inputs(rng, kinds, lo, hi, 60)
        for v in ins:
            total += 1
            it = iter(v)
            cargs, largs, pre, post = [], [], [], []
            tbl_args = []
            pi = 0
            for k in kinds:
                if k in "iu":
                    x = next(it)
                    cargs.append(("%du" % x) if k == "u" else "(%d)" % x)
                    largs.append("(%d)" % x)
                elif k == "p":
                    x = next(it)
                    pre.append("int q%d = %d;" % (pi, x))
                    cargs.append("&q%d" % pi)
                    largs.append("(%d)" % x)
                    post.append("q%d" % pi)
                    pi += 1
                elif k == "s":
                    w, h = next(it), next(it)
                    pre.append("S.width = %d; S.height = %d;" % (w, h))
                    cargs.append("&S")
                    tbl_args += ["(%d)" % w, "(%d)" % h]
            call = "%s(%s)" % (name, ", ".join(cargs))
            fmt = " ".join(["%lld"] * (len(post) + (1 if hasret else 0)))
            if hasret:
                stmt = "{ %s long long r = (long long)%s; printf(\"%s\\n\", %s); }" % (
                    " ".join(pre), call, fmt,
                    ", ".join(["(long long)%s" % q for q in post] + ["r"]))
            else:
                stmt = "{ %s %s; printf(\"%s\\n\", %s); }" % (
                    " ".join(pre), call, fmt, ", ".join("(long long)%s" % q for q in post))
            cdrv.append(stmt)
            n = len(post) + (1 if hasret else 0)
            comps = []
            sig = c2lean.SIGS[name]
            for i in range(n):
                pr = c2lean.proj(i, n)
                if i == n - 1 and hasret and sig.ret == "bool":
                    comps.append("(if r%s then 1 else 0 : Int)" % pr)
                else:
                    comps.append("r%s" % pr)
            evals.append("#eval let r := %s %s; s!\"%s\"" % (
                name, " ".join(largs + tbl_args), " ".join("{%s}" % c for c in comps)))
    cdrv.append("return 0;}")
    with tempfile.TemporaryDirectory(prefix="t1self") as d:
        cf, lf, exe = os.path.join(d, "d.c"), os.path.join(d, "T.lean"), os.path.join(d, "d")
        open(cf, "w").write("\n".join(cdrv))
        open(lf, "w").write("\n".join(lean) + "\n" + "\n".join(evals) + "\n")
        r = subprocess.run(["gcc", "-std=gnu99", "-w", "-O0", "-fsanitize=undefined",
                            "-fno-sanitize-recover=all", cf, "-o", exe] + build.DEFS + build.incs(),
                           stdout=subprocess.PIPE, stderr=subprocess.STDOUT, text=True)
        if r.returncode:
            print(r.stdout[-3000:])
            return 2
        rc = subprocess.run([exe], stdout=subprocess.PIPE, stderr=subprocess.STDOUT, text=True)
        if rc.returncode:
            print("C driver failed (UB in a test input?):\n" + rc.stdout[-2000:])
            return 2
        rl = subprocess.run(["lake", "env", "lean", lf], cwd=os.path.join(build.VERIF, "lean"),
                            stdout=subprocess.PIPE, stderr=subprocess.STDOUT, text=True)
        cl = rc.stdout.split("\n")
        ll = [x.strip('"') for x in rl.stdout.split("\n") if x.startswith('"')]
        # bool-returning C functions: compare as != 0
        bad = 0
        idx = 0
        for name, file, kinds, hasret, table, _ in FUNCS:
            isb = c2lean.SIGS[name].ret == "bool"
            for _ in range(60):
                a, b = cl[idx].split(), ll[idx].split() if idx < len(ll) else []
                if isb and a:
                    a[-1] = "1" if a[-1] != "0" else "0"
                if a != b:
                    bad += 1
                    if bad < 10:
                        print("MISMATCH %s case %d: C=%s Lean=%s" % (name, idx, cl[idx], ll[idx] if idx < len(ll) else None))
                idx += 1
        if rl.returncode and not bad:
            print(rl.stdout[-3000:])
            return 2
        print("T1 selftest: %d cases, %d mismatches" % (total, bad))
        return 1 if bad else 0


if __name__ == "__main__":
    sys.exit(main())
