#!/bin/sh
# usage: tools/mutcampaign.sh Cxx [N] [seed]   -- mutation campaign for one property in a PRIVATE copy
# of /verif (generated Lean modules, build caches and evidence of the copy only are touched), so it can
# run next to ordinary checks.  Result: /verif/mutation/Cxx.json.  The copy is removed afterwards.
P=$1; N=${2:-40}; S=${3:-1}
V=$(cd "$(dirname "$0")/.." && pwd)
C=/tmp/vmut-$P-$$
mkdir -p $C || exit 2
rsync -a --exclude .git --exclude replays --exclude '.cache/bin' --exclude '.cache/lib' --exclude '.cache/audit' "$V"/ $C/
rc=$?; [ $rc -eq 0 ] || [ $rc -eq 24 ] || exit 2     # 24: files vanished while copying (a build running in /verif)
(cd $C && python3 tools/mutate.py $P -n $N --seed $S) 2>&1 | grep -v -i "conda\|^$"
mkdir -p "$V/mutation" && cp $C/mutation/$P.json "$V/mutation/$P.json" 2>/dev/null
rm -rf $C
