#!/usr/bin/env python3
"""tools/storeseed.py <delivered-dir> <Cxx> <n> <first_result>  -- keep a confirmed seeded change as
seeded/Cxx-n (patch.diff, demonstration, meta.json with the integrator's fields added).
tools/storeseed.py --final <Cxx-n> <text> records what the check does after strengthening."""
import json, os, shutil, sys

V = os.path.dirname(os.path.dirname(os.path.abspath(__file__)))
CONF = ("tools/seedtest.sh: demo exit 0 on a /repo HEAD worktree, non-zero with patch.diff applied; "
        "./check %s --tier quick against the patched worktree (VERIF_REPO) at VERIF_SEED=1,2")


def main():
    if sys.argv[1] == "--final":
        d = os.path.join(V, "seeded", sys.argv[2])
        m = json.load(open(os.path.join(d, "meta.json")))
        m["final_result"] = sys.argv[3]
        json.dump(m, open(os.path.join(d, "meta.json"), "w"), indent=1)
        return
    src, prop, n, first = sys.argv[1:5]
    dst = os.path.join(V, "seeded", "%s-%s" % (prop, n))
    if os.path.exists(dst):
        shutil.rmtree(dst)
    shutil.copytree(src, dst, ignore=shutil.ignore_patterns("_build", "*.o", "demo", "a.out", "*.log"))
    mp = os.path.join(dst, "meta.json")
    try:
        m = json.load(open(mp))
    except Exception:
        m = {}
    m["property"] = prop
    m["round"] = 2
    m["confirmed_by_integrator"] = CONF % prop
    m["first_result"] = first
    json.dump(m, open(mp, "w"), indent=1)


main()
