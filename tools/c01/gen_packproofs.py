#!/usr/bin/env python3
"""Generates lean/VncModel/Enc/PackProofs.lean: the bit-packing lemmas for ZRLE packed-palette rows
(bits per index b = 1, 2, 4).  The three cases are the same proof with different literals; generating
the text avoids copy errors.  The output is an ordinary, committed Lean file (kernel-checked like
every other file); this script only has to be re-run if the proof text is to be changed."""
import sys

def names(k):
    return ["c%d" % t for t in range(k)]

def pat(cs, more=None):
    if more is None:
        return "[" + ", ".join(cs) + "]"
    return " :: ".join(cs + [more])

def value(cs, b):
    e = cs[0]
    for c in cs[1:]:
        e = "(%s) * %d + %s" % (e, 2 ** b, c)
    return e

def nested(cs, b):
    e = "s"
    for c in cs:
        e = "((%s) * 2 ^ %d + %s) %% 256" % (e, b, c)
    return e

def row_lemma(cs, b, full):
    """the bytes packRow produces for one (partial or full) group of indices, as a clean polynomial"""
    m = 8 // b
    k = len(cs)
    P = 2 ** b
    V = value(cs, b)
    L = []
    args = " ".join(cs)
    hyps = " ".join("(h%s : %s < %d)" % (c, c, P) for c in cs)
    if full:
        L.append("theorem pack%d_row_full (s %s : Nat) (more : List Nat) %s :" % (b, args, hyps))
        L.append("    packRow %d (%s) s 0 = UInt8.ofNat (%s) :: packRow %d more (%s) 0 := by" % (b, pat(cs, "more"), V, b, V))
    else:
        L.append("theorem pack%d_row_%d (s %s : Nat) %s :" % (b, k, args, hyps))
        L.append("    packRow %d %s s 0 = [UInt8.ofNat ((%s) * %d)] := by" % (b, pat(cs), V, 2 ** (8 - k * b)))
    for c in cs:
        L.append("  have e%s : %s %% 256 = %s := by omega" % (c, c, c))
    L.append("  simp only [packRow, %s]" % ", ".join("e" + c for c in cs))
    first = True
    for c in cs:
        L.append("  rw [or_small %s %d %s (by simpa using h%s)]" % ("s" if first else "_", b, c, c))
        first = False
    if full:
        L.append("  have hv : %s = %s := by omega" % (nested(cs, b), V))
        L.append("  simp [hv]")
    else:
        L.append("  have hv : ((%s) * %d) %% 256 = (%s) * %d := by omega" % (nested(cs, b), 2 ** (8 - k * b), V, 2 ** (8 - k * b)))
        L.append("  simp [Nat.shiftLeft_eq, hv]")
    L.append("")
    return L

def gen(b):
    m = 8 // b
    P = 2 ** b
    L = []
    for k in range(1, m):
        L += row_lemma(names(k), b, False)
    L += row_lemma(names(m), b, True)
    L.append("/-- digit `i` of the row produced by `packRow %d` (indices below %d) -/" % (b, P))
    L.append("theorem pack%d_digit : ∀ (n : Nat) (idxs : List Nat) (s i : Nat), idxs.length ≤ n →" % b)
    L.append("    (∀ x ∈ idxs, x < %d) → i < idxs.length →" % P)
    L.append("    ((packRow %d idxs s 0).getD (i * %d / 8) 0).toNat >>> (8 - %d - i * %d %% 8) %% 2 ^ %d = idxs.getD i 0 := by" % (b, b, b, b, b))
    L.append("  intro n")
    L.append("  induction n with")
    L.append("  | zero => intro idxs s i h _ hi; omega")
    L.append("  | succ n ih =>")
    L.append("    intro idxs s i hlen hx hi")
    L.append("    match idxs with")
    L.append("    | [] => simp at hi")
    for k in range(1, m + 1):
        cs = names(k)
        full = (k == m)
        L.append("    | %s =>" % (pat(cs, "more") if full else pat(cs)))
        for c in cs:
            L.append("      have h%s := hx %s (by simp)" % (c, c))
        V = value(cs, b)
        if not full:
            L.append("      rw [pack%d_row_%d s %s %s]" % (b, k, " ".join(cs), " ".join("h" + c for c in cs)))
            L.append("      have hV : (%s) * %d < 256 := by omega" % (V, 2 ** (8 - k * b)))
            L.append("      simp only [List.length_cons, List.length_nil] at hi")
            L.append("      have hcase : %s := by omega" % " ∨ ".join("i = %d" % t for t in range(k)))
            L.append("      rcases hcase with %s" % " | ".join(["rfl"] * k))
            L.append("      all_goals (simp [toNat_ofNat_lt hV, Nat.shiftRight_eq_div_pow]; omega)")
        else:
            L.append("      rw [pack%d_row_full s %s more %s]" % (b, " ".join(cs), " ".join("h" + c for c in cs)))
            L.append("      have hV : %s < 256 := by omega" % V)
            L.append("      by_cases hlt : i < %d" % m)
            L.append("      · have hcase : %s := by omega" % " ∨ ".join("i = %d" % t for t in range(m)))
            L.append("        rcases hcase with %s" % " | ".join(["rfl"] * m))
            L.append("        all_goals (simp [toNat_ofNat_lt hV, Nat.shiftRight_eq_div_pow]; omega)")
            L.append("      · obtain ⟨j, rfl⟩ : ∃ j, i = j + %d := ⟨i - %d, by omega⟩" % (m, m))
            L.append("        have e1 : (j + %d) * %d / 8 = j * %d / 8 + 1 := by omega" % (m, b, b))
            L.append("        have e2 : (j + %d) * %d %% 8 = j * %d %% 8 := by omega" % (m, b, b))
            L.append("        rw [e1, e2, getD_cons_succ]")
            L.append("        have := ih more (%s) j (by simp only [List.length_cons] at hlen; omega)" % V)
            L.append("          (fun x hx' => hx x (by simp [hx'])) (by simp only [List.length_cons] at hi; omega)")
            L.append("        rw [this]")
            L.append("        simp [List.getD_eq_getElem?_getD]")
    L.append("")
    cs = names(m)
    L.append("theorem pack%d_length : ∀ (n : Nat) (idxs : List Nat) (s : Nat), idxs.length ≤ n →" % b)
    L.append("    (packRow %d idxs s 0).length = (idxs.length * %d + 7) / 8 := by" % (b, b))
    L.append("  intro n")
    L.append("  induction n with")
    L.append("  | zero => intro idxs s h; have : idxs = [] := by cases idxs <;> simp_all")
    L.append("            subst this; simp [packRow]")
    L.append("  | succ n ih =>")
    L.append("    intro idxs s hlen")
    L.append("    match idxs with")
    L.append("    | [] => simp [packRow]")
    for k in range(1, m):
        L.append("    | %s => simp [packRow]" % pat(names(k)))
    L.append("    | %s =>" % pat(cs, "more"))
    L.append("      simp only [packRow, Nat.reduceAdd, Nat.reduceLeDiff, ge_iff_le, ↓reduceIte, Nat.le_refl,")
    L.append("        List.length_cons]")
    L.append("      rw [ih more _ (by simp only [List.length_cons] at hlen; omega)]")
    L.append("      omega")
    L.append("")
    return "\n".join(L)

HEADER = '''import VncModel.Enc.ZRLEProofs
/-!
GENERATED by tools/c01/gen_packproofs.py (three instances of one proof, b = 1, 2, 4) — then checked
by Lean like any other file.

Bit packing of ZRLE packed-palette rows: `unpackRow b n (packRow b idxs s 0) = idxs`, the length of
a packed row, and from them `PackLaw` (`decodePackedRows ∘ packRows = id`).
-/
namespace VncModel.Enc.Server
open VncModel.Enc VncModel.Enc.Spec

theorem or_small (s b i : Nat) (h : i < 2 ^ b) : (s <<< b) ||| i = s * 2 ^ b + i := by
  rw [← Nat.shiftLeft_add_eq_or_of_lt h, Nat.shiftLeft_eq]

theorem getD_cons_succ (a : UInt8) (l : Bytes) (k : Nat) : (a :: l).getD (k + 1) 0 = l.getD k 0 := by
  simp [List.getD_eq_getElem?_getD]

'''

FOOTER = '''
/-- the three widths together -/
theorem pack_digit (b : Nat) (hb : b = 1 ∨ b = 2 ∨ b = 4) (idxs : List Nat) (s i : Nat)
    (hx : ∀ x ∈ idxs, x < 2 ^ b) (hi : i < idxs.length) :
    ((packRow b idxs s 0).getD (i * b / 8) 0).toNat >>> (8 - b - i * b % 8) % 2 ^ b = idxs.getD i 0 := by
  rcases hb with rfl | rfl | rfl
  · exact pack1_digit idxs.length idxs s i (Nat.le_refl _) (by simpa using hx) hi
  · exact pack2_digit idxs.length idxs s i (Nat.le_refl _) (by simpa using hx) hi
  · exact pack4_digit idxs.length idxs s i (Nat.le_refl _) (by simpa using hx) hi

theorem pack_length (b : Nat) (hb : b = 1 ∨ b = 2 ∨ b = 4) (idxs : List Nat) (s : Nat) :
    (packRow b idxs s 0).length = (idxs.length * b + 7) / 8 := by
  rcases hb with rfl | rfl | rfl
  · exact pack1_length idxs.length idxs s (Nat.le_refl _)
  · exact pack2_length idxs.length idxs s (Nat.le_refl _)
  · exact pack4_length idxs.length idxs s (Nat.le_refl _)

/-- unpacking a packed row gives back the indices -/
theorem unpackRow_packRow (b : Nat) (hb : b = 1 ∨ b = 2 ∨ b = 4) (idxs : List Nat) (s : Nat)
    (hx : ∀ x ∈ idxs, x < 2 ^ b) :
    unpackRow b idxs.length (packRow b idxs s 0) = idxs := by
  apply List.ext_getElem
  · simp [unpackRow]
  · intro i h1 h2
    simp only [unpackRow, List.getElem_map, List.getElem_range]
    rw [pack_digit b hb idxs s i hx h2]
    simp [List.getD_eq_getElem?_getD, h2]

end VncModel.Enc.Server
'''

if __name__ == "__main__":
    out = HEADER + "\n".join(gen(b) for b in (4, 2, 1)) + FOOTER
    open(sys.argv[1], "w").write(out)
