#!/usr/bin/env python3
"""docs/MUTATION.md from mutation/Cxx.json (tools/mutate.py) and mutation/triage.json
(hand-written verdicts for mutants the check did not kill with a concrete counterexample:
"equivalent" / "outside the property" / "blind spot -> what was added")."""
import json, glob, os
V = os.path.dirname(os.path.dirname(os.path.abspath(__file__)))
tri = {}
p = os.path.join(V, "mutation", "triage.json")
if os.path.exists(p):
    tri = json.load(open(p))
out = ["# Mutation campaigns", "",
       "One-token changes (`tools/mutate.py`: relational / logical / arithmetic operator swaps, literal ±1,",
       "condition negation, TRUE/FALSE, statement deletion) inside the code the property's anchors point",
       "into (anchor line ranges carried from the pinned commit to the current tree by a line diff), each",
       "run through `./check Cxx --tier quick` against a scratch worktree (`tools/mutcampaign.sh`).",
       "*counterexample* = VIOLATION with a failing input; *obligation only* = a proof / T0 / T1 / exact",
       "correspondence broke but no failing input was found (the change may be harmless);",
       "*survived* = the check stayed quiet.  Every mutant that was not killed with a counterexample is",
       "classified by hand below.", "",
       "| property | mutants | counterexample | obligation only | survived | other |", "|---|---|---|---|---|---|"]
details = []
for f in sorted(glob.glob(os.path.join(V, "mutation", "C??.json"))):
    d = json.load(open(f))
    s = d["summary"]
    n = len(d["mutants"])
    other = n - s.get("killed-counterexample", 0) - s.get("killed-obligation-only", 0) - s.get("survived", 0)
    out.append("| %s | %d | %d | %d | %d | %d |" % (d["property"], n, s.get("killed-counterexample", 0),
               s.get("killed-obligation-only", 0), s.get("survived", 0), other))
    rows = [m for m in d["mutants"] if m["result"] != "killed-counterexample"]
    if rows:
        details += ["", "## %s (repo %s)" % (d["property"], d["repo_head"]), "",
                    "| result | where | change | verdict |", "|---|---|---|---|"]
        for m in rows:
            key = "%s:%s:%d:%s:%s" % (d["property"], m["file"].split("/")[-1], m["line"], m["operator"], m["after"][:12])
            verdict = tri.get(key) or tri.get("%s:%s:%d" % (d["property"], m["file"].split("/")[-1], m["line"])) or "(not yet classified)"
            details.append("| %s | %s:%d `%s` | %s: `%s` → `%s` | %s |" % (
                m["result"], m["file"].split("/")[-1], m["line"], m["context"][:60].replace("|", "\\|"),
                m["operator"], m["before"][:24].replace("|", "\\|"), m["after"][:24].replace("|", "\\|"), verdict))
open(os.path.join(V, "docs", "MUTATION.md"), "w").write("\n".join(out + details) + "\n")
print("docs/MUTATION.md written")
