#!/usr/bin/env python3
"""Regenerate MANIFEST.json from the property modules that exist (vlib/props/cXX.py with META)."""
import importlib, json, os, sys
HERE = os.path.dirname(os.path.abspath(__file__))
ROOT = os.path.dirname(HERE)
sys.path.insert(0, ROOT)
NA_REASONS = json.load(open(os.path.join(ROOT, "tools", "not_claimed.json")))
CLAIMED = set(json.load(open(os.path.join(ROOT, "tools", "claimed.json"))))
props = [json.loads(l) for l in open(os.path.join(ROOT, "properties.jsonl"))]
checks, na = [], []
for p in props:
    pid = p["id"]
    try:
        if pid not in CLAIMED:
            raise KeyError(pid)
        m = importlib.import_module("vlib.props." + pid.lower())
        meta = m.META
        meta["level_text"], meta["level_note"], meta["technique"]
    except Exception:
        na.append({"property_id": pid, "reason": NA_REASONS.get(pid, "check not built yet in this round (see DESIGN.md section 12, status)")})
        continue
    checks.append({
        "property_id": pid,
        "quick_cmd": "./check %s --tier quick" % pid,
        "thorough_cmd": "./check %s --tier thorough" % pid,
        "evidence_file": "/verif/evidence/%s.json" % pid,
        "replay_cmd_template": "./check %s --replay {path}" % pid,
        "engine": "lean4-proof+correspondence",
        "level_claimed": {"category": "proof", "text": meta["level_text"], "design_ref": meta.get("design_ref", "DESIGN.md section 7")},
        "level_note": meta["level_note"],
        "technique": meta["technique"],
    })
hooks = json.load(open(os.path.join(ROOT, "tools", "hooks.json")))
man = {
    "version": 1,
    "setup_cmd": "./setup.sh",
    "hooks": hooks,
    "engines": [{"name": "lean4-proof+correspondence", "path": "/verif/check",
                 "serves_properties": [c["property_id"] for c in checks],
                 "kind_free_text": "Lean 4 model + kernel-checked theorems (lean/VncModel), constants regenerated from /repo on every run (tools/gen_consts.py), differential correspondence run of the compiled Lean driver against the real code built from /repo's working tree with ASan/UBSan (harness/), model-independent property oracles, known_findings.json"}],
    "checks": checks,
    "not_applicable": na,
    "notes": "Every check: regenerate Gen/ from /repo, lake build + axiom audit of Props/<id>.lean, rebuild /repo sources with -DLIBVNC_LIBVNCSERVER_VERIF and sanitizers, correspondence + oracle run, evidence. See DESIGN.md.",
}
json.dump(man, open(os.path.join(ROOT, "MANIFEST.json"), "w"), indent=1)
print("checks:", [c["property_id"] for c in checks]); print("not claimed:", [n["property_id"] for n in na])
