#!/bin/sh
# usage: tools/muttest.sh Cxx <file-relative-to-repo> <sed-script>   -- run a check against a mutated scratch worktree
set -e
P=$1; F=$2; S=$3
WT=/tmp/wt-mut-$$
git -C /repo worktree add -q --detach $WT HEAD
sed -i "$S" $WT/$F
if git -C $WT diff --quiet; then echo "MUTATION DID NOT APPLY"; git -C /repo worktree remove --force $WT; exit 2; fi
git -C $WT diff | grep '^[-+]' | grep -v '^+++\|^---' | head -6
VERIF_REPO=$WT VERIF_SEED=${VERIF_SEED:-5} ./check $P --tier ${TIER:-quick} | tail -3 || true
git -C /repo worktree remove --force $WT
