import VncModel.Basic.Proto
import VncModel.Region.Model
import VncModel.Region.IterModel
/-! Line-protocol driver for the region model (C11).  Same script as harness/c11.c.

Registers r0..r63 hold regions (initially empty).  Every region-modifying op prints its result
followed by `= <dump>` of the destination register; `<dump>` is `n x1,y1,x2,y2 ...` (the forward
iteration) when `n ≤ 24` or verbose mode is on, else `n #<hash>` (hash of the same sequence). -/
open VncModel VncModel.Rgn VncModel.Proto

structure DState where
  regs : Array Region := Array.replicate 64 []
  verbose : Bool := false

def reg? (s : String) : Option Nat :=
  if s.startsWith "r" then
    match (s.drop 1).toString.toNat? with
    | some n => if n < 64 then some n else none
    | none => none
  else none

def showRect (r : Rect) : String := s!"{r.x1},{r.y1},{r.x2},{r.y2}"

def hashInt (h : UInt64) (v : Int) : UInt64 :=
  (h ^^^ UInt64.ofNat (v + 4294967296).toNat) * 1099511628211

def hashRects (l : List Rect) : UInt64 :=
  l.foldl (fun h r => hashInt (hashInt (hashInt (hashInt h r.x1) r.y1) r.x2) r.y2) 1469598103934665603

def showRects (verbose : Bool) (l : List Rect) : String :=
  let n := l.length
  if n ≤ 24 || verbose then
    l.foldl (fun acc r => acc ++ " " ++ showRect r) (toString n)
  else s!"{n} #{(hashRects l).toNat}"

def dump (st : DState) (r : Region) : String := showRects st.verbose (r.rects false false)

def b01 (b : Bool) : String := if b then "1" else "0"

def flag? (s : String) : Option Bool := if s = "1" then some true else if s = "0" then some false else none

def ints? (l : List String) : Option (List Int) := l.mapM parseInt?

def dstep (st : DState) (toks : List String) : DState × List String :=
  let bad := (st, ["bad-op"])
  let get (i : Nat) : Region := st.regs[i]!
  let set (i : Nat) (r : Region) (pre : String) : DState × List String :=
    ({ st with regs := st.regs.set! i r }, [pre ++ " = " ++ dump st r])
  match toks with
  | ["verbose", v] =>
    match flag? v with
    | some b => ({ st with verbose := b }, ["ok"])
    | none => bad
  | ["mk", d, a, b, c, e] | ["mkraw", d, a, b, c, e] =>
    -- `mkraw` is kept as an alias: sraRgnCreateRect is total (empty region for empty rectangles)
    match reg? d, ints? [a, b, c, e] with
    | some d, some [x1, y1, x2, y2] => set d (Region.rect x1 y1 x2 y2) "ok"
    | _, _ => bad
  | ["empty", d] =>
    match reg? d with
    | some d => set d Region.empty "ok"
    | none => bad
  | ["dup", d, s] =>
    match reg? d, reg? s with
    | some d, some s => set d (Region.dup (get s)) "ok"
    | _, _ => bad
  | ["or", d, s] =>
    match reg? d, reg? s with
    | some d, some s => set d (Region.or (get d) (get s)) "ok"
    | _, _ => bad
  | ["and", d, s] =>
    match reg? d, reg? s with
    | some d, some s => let r := Region.and (get d) (get s); set d r.1 (b01 r.2)
    | _, _ => bad
  | ["sub", d, s] =>
    match reg? d, reg? s with
    | some d, some s => let r := Region.sub (get d) (get s); set d r.1 (b01 r.2)
    | _, _ => bad
  | ["offset", d, dx, dy] =>
    match reg? d, ints? [dx, dy] with
    | some d, some [dx, dy] => set d (Region.offset (get d) dx dy) "ok"
    | _, _ => bad
  | ["bbox", d, s] =>
    match reg? d, reg? s with
    | some d, some s => set d (Region.bbox (get s)) "ok"
    | _, _ => bad
  | ["pop", d, f] =>
    match reg? d, f.toNat? with
    | some d, some f =>
      let r := Region.popRect (get d) f
      match r.2 with
      | none => set d r.1 "0"
      | some rc => set d r.1 ("1 " ++ showRect rc)
    | _, _ => bad
  | ["count", s] =>
    match reg? s with
    | some s => (st, [toString (Region.countRects (get s))])
    | none => bad
  | ["isempty", s] =>
    match reg? s with
    | some s => (st, [b01 (Region.isEmpty (get s))])
    | none => bad
  | ["iter", s, rx, ry] =>
    match reg? s, flag? rx, flag? ry with
    | some s, some rx, some ry =>
      -- the small-step model of sraRgnGetReverseIterator / sraRgnIteratorNext (IterModel.lean);
      -- Props/C11.lean `iter_refines` proves it yields `rects` on well-formed regions
      match (get s).iterAll rx ry with
      | some l => (st, [showRects st.verbose l])
      | none => (st, ["iterator-fault"])
    | _, _, _ => bad
  | ["clip", a, b, c, d, e, f, g, h] =>
    match ints? [a, b, c, d, e, f, g, h] with
    | some [x, y, w, h, cx, cy, cw, ch] =>
      let r := clipRect x y w h cx cy cw ch
      (st, [s!"{b01 r.2.2.2.2} {r.1} {r.2.1} {r.2.2.1} {r.2.2.2.1}"])
    | _ => bad
  | ["clip2", a, b, c, d, e, f, g, h] =>
    match ints? [a, b, c, d, e, f, g, h] with
    | some [x, y, x2, y2, cx, cy, cx2, cy2] =>
      let r := clipRect2 x y x2 y2 cx cy cx2 cy2
      (st, [s!"{b01 r.2.2.2.2} {r.1} {r.2.1} {r.2.2.1} {r.2.2.2.1}"])
    | _ => bad
  | _ => bad

def main : IO Unit := runDriver ({} : DState) dstep
