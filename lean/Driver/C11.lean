def main : IO Unit := IO.println "driver C11: not built yet"
