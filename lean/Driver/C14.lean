import VncModel.Basic.Proto
import VncModel.Policy.Model
import VncModel.Policy.Args
/-! Line-protocol driver for the session-policy model (C14). Same script as harness/c14.c. -/
open VncModel VncModel.Policy VncModel.Proto

structure DState where
  cfg : Cfg := ⟨false, false, false⟩
  cs : List Client := []
  ever : List Nat := []      -- ids ever connected
  hsDone : List Nat := []    -- ids that completed the handshake up to INITIALISATION
  mac : List Nat := []       -- ids that announced RFB 003.889 (implicit ClientInit, shared)

def showClient (s : DState) (id : Nat) : String :=
  match s.cs.find? (fun c => c.id == id) with
  | none => s!"{id}:gone"
  | some c =>
    let o := if c.isOpen then "open" else "closed"
    let st := match c.st with | .handshake => "hs" | .normal => "normal"
    let r := if c.reverse then "r" else "i"
    s!"{id}:{o}:{st}:{r}"

def insertSorted (x : Nat) : List Nat → List Nat
  | [] => [x]
  | y :: ys => if x ≤ y then x :: y :: ys else y :: insertSorted x ys

def b? (s : String) : Option Bool := if s = "1" then some true else if s = "0" then some false else none

def isLive (s : DState) (id : Nat) : Bool :=
  match s.cs.find? (fun c => c.id == id) with
  | some c => c.isOpen
  | none => false

def dstep (s : DState) (toks : List String) : DState × List String :=
  match toks with
  | ["cfg", a, n, d] =>
    match b? a, b? n, b? d with
    | some a, some n, some d => ({ s with cfg := ⟨a, n, d⟩ }, ["ok"])
    | _, _, _ => (s, ["bad-op"])
  | "args" :: flags =>
    -- rfbProcessArguments on the live screen, with the harness's extension registered
    let r := processArgs demoExt s.cfg [] flags
    ({ s with cfg := r.cfg }, [" ".intercalate ((if r.ok then "ok" else "fail") :: r.left)])
  | ["badconn", id, kind] =>
    -- a connection attempt that fails inside rfbNewClient: no record, nobody else affected
    match id.toNat? with
    | some id =>
      if s.ever.contains id || !(kind = "0" || kind = "1") then (s, ["bad-op"]) else
      ({ s with ever := insertSorted id s.ever }, ["refused"])
    | none => (s, ["bad-op"])
  | ["rconn", id, mode] =>
    -- the real rfbReverseConnection: 1 = a viewer listens, 0 = connection refused, 2 = the
    -- new-client hook refuses the record; a failed attempt leaves no trace
    match id.toNat? with
    | some id =>
      if s.ever.contains id then (s, ["bad-op"]) else
      if mode = "1" then
        ({ s with cs := step s.cfg s.cs (.connect id true), ever := insertSorted id s.ever }, ["ok"])
      else if mode = "0" || mode = "2" then (s, ["rc-failed"])
      else (s, ["bad-op"])
    | none => (s, ["bad-op"])
  | ["conn", id, rev] =>
    match id.toNat?, b? rev with
    | some id, some rev =>
      if s.ever.contains id then (s, ["bad-op"]) else
      ({ s with cs := step s.cfg s.cs (.connect id rev), ever := insertSorted id s.ever }, ["ok"])
    | _, _ => (s, ["bad-op"])
  | ["conn889", id, rev] =>
    match id.toNat?, b? rev with
    | some id, some rev =>
      if s.ever.contains id then (s, ["bad-op"]) else
      ({ s with cs := step s.cfg s.cs (.connect id rev), ever := insertSorted id s.ever,
                mac := id :: s.mac }, ["ok"])
    | _, _ => (s, ["bad-op"])
  | ["hs", id] =>
    match id.toNat? with
    | some id =>
      if isLive s id && !s.hsDone.contains id then
        if s.mac.contains id then
          -- RFB_INITIALISATION_SHARED: rfbProcessClientInitMessage runs at once with shared = 1
          ({ s with hsDone := id :: s.hsDone, cs := step s.cfg s.cs (.init id true) }, ["ok"])
        else ({ s with hsDone := id :: s.hsDone }, ["ok"])
      else (s, ["bad-op"])
    | none => (s, ["bad-op"])
  | ["init", id, sh] =>
    match id.toNat?, b? sh with
    | some id, some sh =>
      match s.cs.find? (fun c => c.id == id) with
      | some c =>
        if c.isOpen && c.st == .handshake && s.hsDone.contains id then
          ({ s with cs := step s.cfg s.cs (.init id sh) }, ["ok"])
        else (s, ["bad-op"])
      | none => (s, ["bad-op"])
    | _, _ => (s, ["bad-op"])
  | ["close", id] =>
    match id.toNat? with
    | some id =>
      if isLive s id then ({ s with cs := step s.cfg s.cs (.peerClose id) }, ["ok"])
      else (s, ["bad-op"])
    | none => (s, ["bad-op"])
  | ["reap"] => ({ s with cs := step s.cfg s.cs .reap }, ["ok"])
  | ["state"] => (s, [" ".intercalate (s.ever.map (showClient s))])
  | _ => (s, ["bad-op"])

def main : IO Unit := runDriver ({} : DState) dstep
