import VncModel.Basic.Proto
import VncModel.Resize.Model
/-! Line-protocol driver for the framebuffer-replacement model (C16). Same script as harness/c16.c. -/
open VncModel VncModel.Proto VncModel.Rgn VncModel.Resize
open VncModel.Update (CopyRectMsg)

structure DState where
  st : State := initState 0 0 4 0
  haveScreen : Bool := false
  nextTok : Nat := 1
  hookMode : Int := 0
  hookCode : Int := 0
  peerGone : List Nat := []      -- connections whose viewer end was closed by the script
  reaped : List Nat := []        -- closed clients freed by rfbClientConnectionGone
  nscr : Int := -1               -- application's screen-layout hook: number of screens (-1: library default)
  extFail : Int := -1            -- index at which the per-screen hook fails (-1: never)

def showRect (r : Rect) : String := s!"{r.x1},{r.y1},{r.x2},{r.y2}"

def showRegion (r : Region) : String :=
  "[" ++ ";".intercalate ((r.rects false false).map showRect) ++ "]"

def showCopy (c : CopyRectMsg) : String := s!"{c.x},{c.y},{c.w},{c.h},{c.srcX},{c.srcY}"

def b01 (b : Bool) : String := if b then "1" else "0"

def showScreen (x : Int × Int × Int × Int × Int × Int) : String :=
  match x with
  | (a, b, c, d, e, f) => s!"{a},{b},{c},{d},{e},{f}"

/-- the screen list is what the application's hooks supply: `n` screens; the
library's default hooks: one screen (1, 0, 0, w, h, 0).  More than two are abbreviated. -/
def showScreens (n : Int) (w h : Int) : String :=
  let k := if n < 0 then 1 else n.toNat
  -- the harness' hook: screen i = (id i+1, x i, y 2i+1, w, h, flags i+7); library default: (1,0,0,w,h,0)
  let scr (i : Nat) : Int × Int × Int × Int × Int × Int :=
    if n < 0 then (1, 0, 0, w, h, 0) else ((i : Int) + 1, (i : Int), 2 * (i : Int) + 1, w, h, (i : Int) + 7)
  if k ≤ 2 then ";".intercalate ((List.range k).map fun i => showScreen (scr i))
  else s!"n={k};{showScreen (scr 0)};{showScreen (scr (k - 1))}"

def showMsg (nscr : Int) : Msg → String
  | .size w h => s!"size {w} {h}"
  | .ext r s w h _ => s!"ext r={r} s={s} {w} {h} [{showScreens nscr w h}]"
  | .resize w h => s!"rsz {w} {h}"
  | .fbu cs copies raws =>
    s!"fbu cs={b01 cs} copies=[" ++ ";".intercalate (copies.map showCopy) ++ "] raws=[" ++
      ";".intercalate (raws.map showRect) ++ "]"

def showObs (nscr : Int) (o : Obs) : String :=
  if o.msgs.isEmpty then "none" else " | ".intercalate (o.msgs.map fun m => showMsg nscr m.2)

/-- the flush rule of the size-message emitters (same as `VncModel.Resize.emit`, Teardown.lean) -/
def emitRule (ublen need : Nat) : Nat × Nat :=
  if ublen + need > VncModel.Gen.C16.UPDATE_BUF_SIZE then (ublen, need) else (0, ublen + need)

def ints? (l : List String) : Option (List Int) := l.mapM parseInt?

def orRects (acc : Region) : List Int → Option Region
  | [] => some acc
  | a :: b :: c :: d :: more => orRects (acc.or (Region.rect a b c d)) more
  | _ => none

def buildRegion : List Int → Option Region
  | x1 :: y1 :: x2 :: y2 :: rest => orRects (Region.rect x1 y1 x2 y2) rest
  | _ => none

def showState (s : Resize.Screen) (c : Resize.Client) : String :=
  let b := c.base
  s!"M={showRegion b.M} C={showRegion b.C} R={showRegion b.R} d={b.dx},{b.dy} " ++
  s!"nf={b01 c.useNewFBSize} ex={b01 c.useExt} p={b01 c.pending} rq={c.reqChange} er={c.lastErr} " ++
  s!"cur={b.cursorX},{b.cursorY} xl={if c.xlate.1 == c.xlate.2 then "none" else "tab"} fmt={c.fmt} " ++
  s!"scr={s.base.width},{s.base.height},{s.bpp},{s.base.cursorX},{s.base.cursorY} ss={c.sw},{c.sh}"

def validB (b : Int) : Bool := 1 ≤ b && b ≤ 4

def dstep (s : DState) (toks : List String) : DState × List String :=
  let live (n : Nat) : Option Resize.Client :=
    if s.haveScreen && !s.reaped.contains n then
      (getClient s.st n).bind fun c => if c.base.isOpen then some c else none
    else none
  -- the viewer can still send messages
  let talk (n : Nat) : Option Resize.Client := if s.peerGone.contains n then none else live n
  let hookFails : Bool := s.nscr ≥ 0 && s.extFail ≥ 0 && s.extFail < s.nscr
  let doOp (op : Op) : DState × Obs :=
    let (st', o) := step s.st op
    ({ s with st := st' }, o)
  match toks with
  | ["screen", w, h, b] =>
    match ints? [w, h, b] with
    | some [w, h, b] =>
      if s.haveScreen then (s, ["bad-op"]) else
      -- rfbGetScreen installs the library's default cursor (8x7, hot spot 3,3) until `cursor` replaces it
      let st0 := initState w h b 0
      ({ s with st := { st0 with scr := { st0.scr with base := { st0.scr.base with cursor := ⟨8, 7, 3, 3⟩ } } },
                haveScreen := true }, ["ok"])
    | _ => (s, ["bad-op"])
  | ["cursor", w, h, xh, yh] =>
    match ints? [w, h, xh, yh] with
    | some [w, h, xh, yh] =>
      if !s.haveScreen then (s, ["bad-op"]) else
      ({ s with st := { s.st with scr := { s.st.scr with base := { s.st.scr.base with cursor := ⟨w, h, xh, yh⟩ } } } }, ["ok"])
    | _ => (s, ["bad-op"])
  | ["client", n] =>
    match n.toNat? with
    | some n =>
      if !s.haveScreen || n ≥ 8 || (getClient s.st n).isSome then (s, ["bad-op"]) else
      ((doOp (.newClient n)).1, ["ok"])
    | none => (s, ["bad-op"])
  | ["setenc", n, cr, cs, sz] =>
    match n.toNat?, ints? [cr, cs, sz] with
    | some n, some [cr, cs, sz] =>
      match talk n with
      | some _ => ((doOp (.setEncodings n (cr != 0) (cs != 0) (sz % 2 == 1) (sz / 2 % 2 == 1))).1, ["ok"])
      | none => (s, ["bad-op"])
    | _, _ => (s, ["bad-op"])
  | ["setpf", n, b] =>
    match n.toNat?, parseInt? b with
    | some n, some b =>
      match talk n with
      | some _ =>
        if 0 ≤ b && b ≤ 4 then
          -- b = 0: colour-map client, served as BGR233 after the palette was sent;
          -- the harness' client re-requests everything after changing its format
          let st1 := (step s.st (.setPixelFormat n (if b == 0 then 1 else b))).1
          let st2 := (step st1 (.request n false 0 0 65535 65535)).1
          ({ s with st := st2 }, [if b == 0 then "cmap 0 256" else "none"])
        else (s, ["bad-op"])
      | none => (s, ["bad-op"])
    | _, _ => (s, ["bad-op"])
  | "setscale" :: n :: k :: rrs =>
    match n.toNat?, parseInt? k with
    | some n, some k =>
      match talk n with
      | some _ =>
        if k ≤ 0 || rrs.length > 1 then (s, ["bad-op"]) else
        let (st1, o) := step s.st (.setScale n k)
        -- unless told otherwise (4th argument 0) the viewer asks for everything again
        let noReq := rrs == ["0"]
        let st2 := if noReq then st1 else (step st1 (.request n false 0 0 65535 65535)).1
        ({ s with st := st2 }, [showObs s.nscr o])
      | none => (s, ["bad-op"])
    | _, _ => (s, ["bad-op"])
  | ["ptr", n, x, y] =>
    match n.toNat?, ints? [x, y] with
    | some n, some [x, y] =>
      match talk n with
      | some _ => ((doOp (.pointer n x y)).1, ["ok"])
      | none => (s, ["bad-op"])
    | _, _ => (s, ["bad-op"])
  | ["draw", x1, y1, x2, y2, _seed] | ["mark", x1, y1, x2, y2] =>
    match ints? [x1, y1, x2, y2] with
    | some [x1, y1, x2, y2] =>
      if !s.haveScreen then (s, ["bad-op"]) else ((doOp (.mark x1 y1 x2 y2)).1, ["ok"])
    | _ => (s, ["bad-op"])
  | "copyrgn" :: dx :: dy :: rest =>
    match ints? [dx, dy], ints? rest with
    | some [dx, dy], some coords =>
      match buildRegion coords with
      | some rg => if !s.haveScreen then (s, ["bad-op"]) else ((doOp (.copy rg dx dy)).1, ["ok"])
      | none => (s, ["bad-op"])
    | _, _ => (s, ["bad-op"])
  | ["hook", m, c] =>
    match ints? [m, c] with
    | some [m, c] => if !s.haveScreen then (s, ["bad-op"]) else ({ s with hookMode := m, hookCode := c }, ["ok"])
    | _ => (s, ["bad-op"])
  | ["sds", n, w, h, ns] =>
    match n.toNat?, ints? [w, h, ns] with
    | some n, some [w, h, ns] =>
      match talk n with
      | some _ =>
        if ns < 0 || ns > 255 then (s, ["bad-op"]) else
        let resizes := s.hookMode == 2 && s.hookCode == 0 && w > 0 && h > 0 && w ≤ 64 && h ≤ 64 && ns != 0
        let hook : Hook :=
          if s.hookMode == 0 then none
          else if resizes then some (s.hookCode, some (w, h, s.st.scr.bpp, s.nextTok))
          else some (s.hookCode, none)
        let (s', _) := doOp (.setDesktopSize n w h ns hook)
        ({ s' with nextTok := if resizes then s.nextTok + 1 else s.nextTok }, ["ok"])
      | none => (s, ["bad-op"])
    | _, _ => (s, ["bad-op"])
  | ["newfb", w, h, b, _seed] | ["newfbraw", w, h, b, _seed] =>
    match ints? [w, h, b] with
    | some [w, h, b] =>
      if !s.haveScreen || w < 1 || h < 1 || !validB b then (s, ["bad-op"]) else
      let (s', _) := doOp (.newFramebuffer w h b s.nextTok)
      ({ s' with nextTok := s.nextTok + 1 }, ["ok"])
    | _ => (s, ["bad-op"])
  | ["req", n, incr, x, y, w, h] =>
    match n.toNat?, ints? [incr, x, y, w, h] with
    | some n, some [incr, x, y, w, h] =>
      match talk n with
      | some _ => ((doOp (.request n (incr != 0) x y w h)).1, ["ok"])
      | none => (s, ["bad-op"])
    | _, _ => (s, ["bad-op"])
  | ["update", n] =>
    match n.toNat? with
    | some n =>
      match live n with
      | some c =>
        if s.peerGone.contains n then
          -- the write (if any) fails: rfbCloseClient; a size message the application's failing
          -- screen hook makes the library drop is never written
          let (s', _) := doOp (if hookFails && extFails c then .updateExtFail n else .updateFail n)
          let closed := match getClient s'.st n with
            | some c => !c.base.isOpen
            | none => false
          (s', [if closed then "closed" else "none"])
        else
          let (s', o) := doOp (if hookFails then .updateExtFail n else .update n)
          (s', [showObs s.nscr o])
      | none => (s, ["bad-op"])
    | none => (s, ["bad-op"])
  | ["close", n] =>
    match n.toNat? with
    | some n =>
      match talk n with
      | some _ => ({ s with peerGone := n :: s.peerGone }, ["ok"])
      | none => (s, ["bad-op"])
    | none => (s, ["bad-op"])
  | ["reap", n] =>
    match n.toNat? with
    | some n =>
      match (if s.haveScreen && !s.reaped.contains n then getClient s.st n else none) with
      | some c => if c.base.isOpen then (s, ["bad-op"]) else ({ s with reaped := n :: s.reaped }, ["ok"])
      | none => (s, ["bad-op"])
    | none => (s, ["bad-op"])
  | ["sdstrunc", n, cut, ns, _rst] | ["sdstrunc", n, cut, ns] =>
    match n.toNat?, ints? [cut, ns] with
    | some n, some [cut, ns] =>
      match talk n with
      | some _ =>
        if ns < 0 || ns > 255 || cut < 0 || cut ≥ 8 + 16 * ns then (s, ["bad-op"]) else
        let (s', _) := doOp (.drop n)
        ({ s' with peerGone := n :: s.peerGone }, ["closed"])
      | none => (s, ["bad-op"])
    | _, _ => (s, ["bad-op"])
  | ["nscr", k] =>
    match parseInt? k with
    | some k => if !s.haveScreen then (s, ["bad-op"]) else ({ s with nscr := if k < 0 then -1 else k }, ["ok"])
    | none => (s, ["bad-op"])
  | ["extfail", j] =>
    match parseInt? j with
    | some j => if !s.haveScreen then (s, ["bad-op"]) else ({ s with extFail := j }, ["ok"])
    | none => (s, ["bad-op"])
  | ["dfhook", _] => if !s.haveScreen then (s, ["bad-op"]) else (s, ["ok"])
  | ["emit", n, kind, ub] =>
    match n.toNat?, ints? [kind, ub] with
    | some n, some [kind, ub] =>
      match live n with
      | some _ =>
        if ub < 0 || ub > (VncModel.Gen.C16.UPDATE_BUF_SIZE : Int) then (s, ["bad-op"]) else
        let k : Nat := if s.nscr < 0 then 1 else s.nscr.toNat
        let need : Nat := if kind != 0 then 12 + 4 + 16 * k else 12
        let r := emitRule ub.toNat need
        if s.peerGone.contains n then
          -- the viewer is gone: a needed flush fails inside the emitter (nothing appended, FALSE);
          -- otherwise the rectangle is appended and the harness' flush fails; closed either way
          let flush := r.1 != 0
          let st1 := if kind != 0 && !flush then
              modClient s.st n (fun c => { c with reqChange := 0, lastErr := 0 }) else s.st
          let st2 := (step st1 (.drop n)).1
          let line :=
            if flush then s!"emit ok=0 ub={ub} closed"
            else if kind != 0 && hookFails then s!"emit ok=0 ub={ub.toNat + 12 + 4 + 16 * s.extFail.toNat} closed"
            else s!"emit ok=1 ub={r.2} closed"
          ({ s with st := st2 }, [line])
        else
        if kind != 0 then
          -- rfbSendExtDesktopSize resets reason / status before it walks the screens
          let st1 := modClient s.st n (fun c => { c with reqChange := 0, lastErr := 0 })
          if hookFails then
            let base : Nat := if r.1 == 0 then ub.toNat else 0
            ({ s with st := st1 }, [s!"emit ok=0 ub={base + 12 + 4 + 16 * s.extFail.toNat}"])
          else ({ s with st := st1 }, [s!"emit ok=1 ub={r.2}"])
        else (s, [s!"emit ok=1 ub={r.2}"])
      | none => (s, ["bad-op"])
    | _, _ => (s, ["bad-op"])
  | ["state", n] =>
    match n.toNat? with
    | some n =>
      match live n with
      | some c => (s, [showState s.st.scr c])
      | none => (s, ["bad-op"])
    | none => (s, ["bad-op"])
  | _ => (s, ["bad-op"])

def main : IO Unit := runDriver ({} : DState) dstep
