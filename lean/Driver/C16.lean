def main : IO Unit := IO.println "driver C16: not built yet"
