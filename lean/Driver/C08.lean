/-! C08 uses the driver of C07 (`drv_c07`: the same client model, hostile scripts). -/
def main : IO Unit := IO.println "C08 uses drv_c07"
