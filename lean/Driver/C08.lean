def main : IO Unit := IO.println "driver C08: not built yet"
