import VncModel.Basic.Proto
import VncModel.Translate.Model
/-! Line-protocol driver for the pixel-translation model (C10). Same script as harness/c10.c. -/
open VncModel VncModel.Translate VncModel.Proto

structure DState where
  srv : PixelFormat := default
  cli : PixelFormat := default
  econ : Bool := false
  cm : ColourMap := ⟨false, 0, fun _ => 0⟩
  /-- colour map the lookup table was last built from -/
  tcm : ColourMap := ⟨false, 0, fun _ => 0⟩
  /-- `cl->readyForSetColourMapEntries` of the current client (set by a SetPixelFormat message) -/
  ready : Bool := false
  /-- result of the last successful `set` (cleared by any configuration change) -/
  cur : Option SetResult := none

def defaultFmt : PixelFormat :=
  { bpp := 32, depth := 24, bigEndian := hostBE, trueColour := true, redMax := 255, greenMax := 255,
    blueMax := 255, redShift := 0, greenShift := 8, blueShift := 16 }

def parseFmt (ts : List String) : Option PixelFormat :=
  match ts.map String.toNat? with
  | [some a, some b, some c, some d, some e, some f, some g, some h, some i, some j] =>
    if a > 255 || b > 255 || c > 1 || d > 1 || e > 65535 || f > 65535 || g > 65535 || h > 255 ||
       i > 255 || j > 255 then none
    else some { bpp := a, depth := b, bigEndian := c == 1, trueColour := d == 1, redMax := e,
                greenMax := f, blueMax := g, redShift := h, greenShift := i, blueShift := j }
  | _ => none

def b2n (b : Bool) : Nat := if b then 1 else 0

def showFmt (f : PixelFormat) : String :=
  s!" fmt={f.bpp},{f.depth},{b2n f.bigEndian},{b2n f.trueColour},{f.redMax},{f.greenMax},{f.blueMax},{f.redShift},{f.greenShift},{f.blueShift}"

def hexNat (bs : List Nat) : String := hex (bs.map UInt8.ofNat)

/-- pairs of a 16-bit colour-map file are big-endian in the script -/
def pairUp : List Nat → List Nat
  | a :: b :: rest => (a * 256 + b) :: pairUp rest
  | _ => []

def doSet (s : DState) (viaMsg : Bool) : DState × List String :=
  let r := setTranslate s.econ s.srv s.cli
  match r.strat with
  | .reject => ({ s with cur := none, ready := false }, ["reject"])   -- client closed; a new one follows
  | st =>
    let head := if st == .none then "none" else s!"table={tableBytes st s.srv r.fmt}"
    let tail := if r.sentCMap then " bgr233=" ++ hexNat bgr233Message else ""
    ({ s with cur := some r, tcm := s.cm, ready := s.ready || viaMsg },
     [head ++ showFmt r.fmt ++ tail])

def parseCMap (is16 cnt hx : String) : Option ColourMap :=
  match is16.toNat?, cnt.toNat?, unhex? hx with
  | some i, some c, some bytes =>
    if i > 1 || c > 65536 || bytes.length != c * 3 * (if i == 1 then 2 else 1) then none
    else
      let raw := bytes.map UInt8.toNat
      let vals := (if i == 1 then pairUp raw else raw).toArray
      some ⟨i == 1, c, fun k => vals.getD k 0⟩
  | _, _, _ => none

def dstep (s : DState) (toks : List String) : DState × List String :=
  match toks with
  | ["host"] => (s, [s!"le={b2n Gen.C10.rfbEndianTestLE}"])
  | "fmt" :: which :: rest =>
    match parseFmt rest with
    | some f =>
      if which = "server" then ({ s with srv := f, cur := none }, ["ok"])
      else if which = "client" then ({ s with cli := f, cur := none }, ["ok"])
      else (s, ["bad-op"])
    | none => (s, ["bad-op"])
  | ["cmap", is16, cnt, hx] =>
    match parseCMap is16 cnt hx with
    | some cm => ({ s with cm := cm, cur := none }, ["ok"])
    | none => (s, ["bad-op"])
  | ["recmap", is16, cnt, hx] =>
    match parseCMap is16 cnt hx, s.cur with
    | some cm, some _ =>
      if !s.srv.trueColour && s.srv.bpp > 16 then (s, ["bad-op"]) else
      ({ s with cm := cm, tcm := setClientColourMap s.ready s.srv s.tcm cm }, ["ok"])
    | _, _ => (s, ["bad-op"])
  | ["econ", e] =>
    match e.toNat? with
    | some e => ({ s with econ := e != 0, cur := none }, ["ok"])
    | none => (s, ["bad-op"])
  | ["slack", _] => (s, ["ok"])
  | ["set"] => doSet s false
  | ["setmsg"] => doSet s true
  | ["px", hx, w, h, stride] =>
    match s.cur, unhex? hx, w.toNat?, h.toNat?, stride.toNat? with
    | some r, some bytes, some w, some h, some stride =>
      if w > 1000000 || h > 1000000 || w * h > 1000000 then (s, ["bad-op"]) else
      if bytes.length < srcNeeded r.strat s.srv r.fmt stride w h then (s, ["bad-op"]) else
      if r.strat == .rgb && r.fmt.bpp == 24 then (s, ["unmodelled"]) else
      let arr := (bytes.map UInt8.toNat).toArray
      let out := translateArea hostBE r.strat s.srv r.fmt s.tcm (fun k => arr.getD k 0) stride w h
      (s, [hexNat out ++ " canary=ok"])
    | _, _, _, _, _ => (s, ["bad-op"])
  | _ => (s, ["bad-op"])

def main : IO Unit := runDriver ({ srv := defaultFmt, cli := defaultFmt } : DState) dstep
