def main : IO Unit := IO.println "driver C10: not built yet"
