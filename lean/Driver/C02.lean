def main : IO Unit := IO.println "driver C02: not built yet"
