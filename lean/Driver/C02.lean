import VncModel.Basic.Proto
import VncModel.Update.Model
import VncModel.Update.Defer
/-! Line-protocol driver for the update-scheduling model (C02). Same script as harness/c02.c. -/
open VncModel VncModel.Proto VncModel.Rgn VncModel.Update

structure DState where
  scr : Screen := { width := 0, height := 0, cursor := ⟨0, 0, 0, 0⟩, cursorX := 0, cursorY := 0,
                    progSlice := 0, maxRects := 0 }
  haveScreen : Bool := false
  clients : List (Nat × Client) := []
  timers : List (Nat × Int × Int) := []     -- per client: cl->startDeferring (sec, usec)
  defer : Int := 0                          -- screen->deferUpdateTime (ms)
  clockUs : Int := 1000000000               -- virtual clock of the harness, microseconds

def showRect (r : Rect) : String := s!"{r.x1},{r.y1},{r.x2},{r.y2}"

def showRegion (r : Region) : String :=
  "[" ++ ";".intercalate ((r.rects false false).map showRect) ++ "]"

def showCopy (c : CopyRectMsg) : String := s!"{c.x},{c.y},{c.w},{c.h},{c.srcX},{c.srcY}"

def getClient (s : DState) (n : Nat) : Option Client :=
  (s.clients.find? (fun p => p.1 == n)).map (·.2)

def setClient (s : DState) (n : Nat) (c : Client) : DState :=
  { s with clients := s.clients.map (fun p => if p.1 == n then (n, c) else p) }

def mapClients (s : DState) (f : Client → Client) : DState :=
  { s with clients := s.clients.map (fun p => (p.1, if p.2.isOpen then f p.2 else p.2)) }

def ints? (l : List String) : Option (List Int) := l.mapM parseInt?

/-- region built the way the harness builds it: first rectangle, then sraRgnOr of the others -/
def orRects (acc : Region) : List Int → Option Region
  | [] => some acc
  | a :: b :: c :: d :: more => orRects (acc.or (Region.rect a b c d)) more
  | _ => none

def buildRegion : List Int → Option Region
  | x1 :: y1 :: x2 :: y2 :: rest => orRects (Region.rect x1 y1 x2 y2) rest
  | _ => none

def dstep (s : DState) (toks : List String) : DState × List String :=
  match toks with
  | ["screen", w, h, ps, mr] =>
    match ints? [w, h, ps, mr] with
    | some [w, h, ps, mr] =>
      ({ s with scr := { s.scr with width := w, height := h, progSlice := ps, maxRects := mr },
                haveScreen := true }, ["ok"])
    | _ => (s, ["bad-op"])
  | ["cursor", w, h, xh, yh] =>
    match ints? [w, h, xh, yh] with
    | some [w, h, xh, yh] =>
      -- rfbSetCursor: also mid-session, with clients connected
      let scr' := { s.scr with cursor := ⟨w, h, xh, yh⟩ }
      let s' := mapClients s (fun cl => setCursor s.scr scr' cl)
      ({ s' with scr := scr' }, ["ok"])
    | _ => (s, ["bad-op"])
  | ["client", n] =>
    match n.toNat? with
    | some n =>
      if !s.haveScreen || (getClient s n).isSome then (s, ["bad-op"]) else
      ({ s with clients := s.clients ++ [(n, newClient s.scr)] }, ["ok"])
    | none => (s, ["bad-op"])
  | ["setenc", n, cr, cs] =>
    match n.toNat?, ints? [cr, cs] with
    | some n, some [cr, cs] =>
      match getClient s n with
      | some c => (setClient s n (setEncodings s.scr c (cr != 0) (cs != 0)), ["ok"])
      | none => (s, ["bad-op"])
    | _, _ => (s, ["bad-op"])
  | ["draw", x1, y1, x2, y2, _seed] | ["mark", x1, y1, x2, y2] =>
    match ints? [x1, y1, x2, y2] with
    | some [x1, y1, x2, y2] =>
      match markClip s.scr x1 y1 x2 y2 with
      | some (a, b, c, d) => (mapClients s (fun cl => markRegion cl (Region.rect a b c d)), ["ok"])
      | none => (s, ["ok"])
    | _ => (s, ["bad-op"])
  | "copyrgn" :: dx :: dy :: rest =>
    match ints? [dx, dy], ints? rest with
    | some [dx, dy], some coords =>
      match buildRegion coords with
      | some rg => (mapClients s (fun cl => scheduleCopy s.scr cl rg dx dy), ["ok"])
      | none => (s, ["bad-op"])
    | _, _ => (s, ["bad-op"])
  | ["req", n, incr, x, y, w, h] =>
    match n.toNat?, ints? [incr, x, y, w, h] with
    | some n, some [incr, x, y, w, h] =>
      match getClient s n with
      | some c => (setClient s n (request s.scr c (incr != 0) x y w h), ["ok"])
      | none => (s, ["bad-op"])
    | _, _ => (s, ["bad-op"])
  | ["defer", ms] =>
    match parseInt? ms with
    | some ms => ({ s with defer := ms }, ["ok"])
    | none => (s, ["bad-op"])
  | ["clock", us] =>
    match parseInt? us with
    | some us => ({ s with clockUs := s.clockUs + us }, ["ok"])
    | none => (s, ["bad-op"])
  | ["ptr", x, y] =>
    match ints? [x, y] with
    | some [x, y] =>
      if s.clients.isEmpty then (s, ["bad-op"]) else
      ({ s with scr := { s.scr with cursorX := x, cursorY := y } }, ["ok"])
    | _ => (s, ["bad-op"])
  | ["update", n] =>
    match n.toNat? with
    | some n =>
      match getClient s n with
      | some c =>
        let tm := (s.timers.find? (fun p => p.1 == n)).map (·.2) |>.getD (0, 0)
        let now : Int × Int := (s.clockUs / 1000000, s.clockUs % 1000000)
        let (t', sent) := updateClientTimed s.scr s.defer now { c := c, startSec := tm.1, startUsec := tm.2 }
        let c' := t'.c
        let s := { s with timers := (n, t'.startSec, t'.startUsec) :: s.timers.filter (fun p => p.1 != n) }
        let line := match sent with
          | none => "none"
          | some m =>
            s!"fbu cs={if m.cursorShape then 1 else 0} copies=[" ++
              ";".intercalate (m.copies.map showCopy) ++ "] raws=[" ++
              ";".intercalate (m.raws.map showRect) ++ "]"
        (setClient s n c', [line])
      | none => (s, ["bad-op"])
    | none => (s, ["bad-op"])
  | ["state", n] =>
    match n.toNat? with
    | some n =>
      match getClient s n with
      | some c =>
        (s, [s!"M={showRegion c.M} C={showRegion c.C} R={showRegion c.R} d={c.dx},{c.dy}"])
      | none => (s, ["bad-op"])
    | none => (s, ["bad-op"])
  | ["settled", n] =>
    -- pure oracle marker (the harness compares the whole decoded picture here); no state change
    match n.toNat? with
    | some n => if (getClient s n).isSome then (s, ["ok"]) else (s, ["bad-op"])
    | none => (s, ["bad-op"])
  | _ => (s, ["bad-op"])

def main : IO Unit := runDriver ({} : DState) dstep
