import VncModel.Basic.Proto
import VncModel.Input.Model
/-! Line-protocol driver for the input-event model (C06). Same script as harness/c06.c. -/
open VncModel VncModel.Input VncModel.Proto

structure DState where
  srv : Option Server := none
  ever : List Nat := []          -- ids ever connected, ascending
  reported : List Nat := []      -- ids whose `closed` line has been printed

def insertSorted (x : Nat) : List Nat → List Nat
  | [] => [x]
  | y :: ys => if x ≤ y then x :: y :: ys else y :: insertSorted x ys

def hex64 (v : UInt64) : String :=
  String.ofList ((List.range 16).map fun i => hexChar ((v >>> (UInt64.ofNat (4 * (15 - i)))).toNat % 16))

def fnvStep (h : UInt64) (b : UInt8) : UInt64 := (h ^^^ b.toUInt64) * 1099511628211
def fnv (bs : List UInt8) : UInt64 := bs.foldl fnvStep 1469598103934665603

def smNext (st : UInt64) : UInt64 × UInt64 :=
  let s := st + 0x9E3779B97F4A7C15
  let z := (s ^^^ (s >>> 30)) * 0xBF58476D1CE4E5B9
  let z := (z ^^^ (z >>> 27)) * 0x94D049BB133111EB
  (s, z ^^^ (z >>> 31))

def smBytes (seed : UInt64) (n : Nat) : List UInt8 :=
  let rec go : Nat → UInt64 → List UInt8 → List UInt8
    | 0, _, acc => acc.reverse
    | k + 1, st, acc => let (st', z) := smNext st; go k st' (z.toUInt8 :: acc)
  go n seed []

def showCb : Callback → String
  | .kbd c d k => s!"kbd c{c} {d.toNat} {k}"
  | .ptr c m x y => s!"ptr c{c} {m} {x} {y}"
  | .cut c t => s!"cut c{c} {t.length} {hex64 (fnv t)}"
  | .cutUtf8 c t => s!"cutu8 c{c} {t.length} {hex64 (fnv t)}"

def stName : St → String
  | .pv => "pv" | .sec => "sec" | .auth => "auth" | .init => "init" | .normal => "normal"

def showClient (s : Server) (i : Nat) : String :=
  match s.find i with
  | none => s!" c{i}:gone"
  | some c =>
    let o := if c.isOpen then "open" else "closed"
    let v := if c.viewOnly then "vo" else "rw"
    let oom := if c.outOfModel then ":out-of-model" else ""
    s!" c{i}:{stName c.st}:{o}:{v}{oom}"

/-- `closed cN` lines for newly closed clients + the `= ...` line -/
def report (d : DState) (s : Server) (cbs : List Callback) : DState × List String :=
  let newly := d.ever.filter fun i => !s.isLive i && !d.reported.contains i
  let lines := cbs.map showCb ++ newly.map (fun i => s!"closed c{i}") ++
    ["=" ++ String.join (d.ever.map (showClient s))]
  ({ d with srv := some s, reported := d.reported ++ newly }, lines)

def parseCuts (toks : List String) : List Nat :=
  match toks.find? (·.startsWith "cuts=") with
  | none => []
  | some t => ((t.drop 5).toString.splitOn ",").filterMap (·.toNat?)

def deliver (orc : Oracles) (d : DState) (s : Server) (i : Nat) (bs : List UInt8) (cuts : List Nat) :
    DState × List String :=
  let chunks := cutAt bs 0 cuts
  let (s', cbs) := processChunks orc (bs.length + 1) s i [] chunks
  report d s' cbs

def noAuth : Oracles := noOracles

def scaleHash (f t x0 x1 : Nat) : UInt64 :=
  let rec go : Nat → Nat → UInt64 → UInt64
    | 0, _, h => h
    | k + 1, x, h =>
      let v := scaleCoord x f t
      let h := fnvStep h (UInt8.ofNat (v % 256))
      let h := fnvStep h (UInt8.ofNat (v / 256 % 256))
      let h := fnvStep h (UInt8.ofNat (v / 65536 % 256))
      let h := fnvStep h (UInt8.ofNat (v / 16777216 % 256))
      go k (x + 1) h
  go (x1 - x0) x0 1469598103934665603

def dstep (d : DState) (toks : List String) : DState × List String :=
  match d.srv, toks with
  | none, ["screen", w, h, pw, u8, df] =>
    match w.toNat?, h.toNat?, pw.toNat?, u8.toNat?, df.toNat? with
    | some w, some h, some pw, some u8, some df =>
      if w < 1 ∨ h < 1 ∨ w > 4096 ∨ h > 4096 then (d, ["bad-op"]) else
      ({ d with srv := some { cfg := ⟨w, h, pw != 0, u8 != 0, df⟩, now := 1000000000000 } }, ["ok"])
    | _, _, _, _, _ => (d, ["bad-op"])
  | none, _ => (d, ["bad-op"])
  | some s, "conn" :: id :: tr =>
    -- `conn N ws`: WebSocket transport; the RFB layer reads the same byte stream (transport
    -- transparency is C09's theorem), so the model does not distinguish it
    match id.toNat? with
    | some i =>
      if i ≥ 16 ∨ d.ever.contains i ∨ (tr ≠ [] ∧ tr ≠ ["ws"]) then (d, ["bad-op"]) else
      report { d with ever := insertSorted i d.ever } (s.connect i) []
    | none => (d, ["bad-op"])
  | some s, "send" :: id :: hx :: rest =>
    match id.toNat?, unhex? hx with
    | some i, some bs =>
      if !s.isLive i then (d, ["bad-op"]) else deliver noAuth d s i bs (parseCuts rest)
    | _, _ => (d, ["bad-op"])
  | some s, "sendgen" :: id :: hx :: n :: seed :: rest =>
    match id.toNat?, unhex? hx, n.toNat?, seed.toNat? with
    | some i, some bs, some n, some seed =>
      if !s.isLive i ∨ n > 67108864 then (d, ["bad-op"])
      else deliver noAuth d s i (bs ++ smBytes (UInt64.ofNat seed) n) (parseCuts rest)
    | _, _, _, _ => (d, ["bad-op"])
  | some s, "auth" :: id :: kind :: rest =>
    match id.toNat? with
    | some i =>
      match s.find i with
      | some c =>
        if !c.isOpen ∨ c.st ≠ .auth then (d, ["bad-op"]) else
        let orc? : Option Oracles :=
          if kind = "full" then some ⟨fun _ => some false, fun _ => none⟩
          else if kind = "view" then some ⟨fun _ => some true, fun _ => none⟩
          else if kind = "bad" then some noOracles else none
        match orc? with
        | some orc =>
          let extra := match rest.find? (·.startsWith "extra=") with
            | some t => (unhex? (t.drop 6).toString).getD []
            | none => []
          deliver orc d s i (List.replicate 16 0 ++ extra) (parseCuts rest)
        | none => (d, ["bad-op"])
      | none => (d, ["bad-op"])
    | none => (d, ["bad-op"])
  | some s, "sendprov" :: id :: fl :: plain :: rest =>
    -- extended-clipboard Provide: the harness deflates `plain` with zlib; here the payload is the
    -- plain stream itself and the inflate oracle is the identity (law: inflate (compress s) = s)
    match id.toNat?, unhex? fl, unhex? plain with
    | some i, some fb, some pl =>
      if !s.isLive i ∨ fb.length ≠ 4 then (d, ["bad-op"]) else
      let n := 4 + pl.length
      let len32 := 4294967296 - n
      let hdr : List UInt8 := [6, 0, 0, 0, UInt8.ofNat (len32 / 16777216), UInt8.ofNat (len32 / 65536),
        UInt8.ofNat (len32 / 256), UInt8.ofNat len32]
      deliver ⟨fun _ => none, fun x => some x⟩ d s i (hdr ++ fb ++ pl) (parseCuts rest)
    | _, _, _ => (d, ["bad-op"])
  | some s, ["hookvo", v] =>
    match v.toNat? with
    | some v => report d { s with hookViewOnly := v != 0 } []
    | none => (d, ["bad-op"])
  | some s, ["viewonly", id, v] =>
    match id.toNat?, v.toNat? with
    | some i, some v =>
      if (s.find i).isNone then (d, ["bad-op"]) else report d (s.setViewOnly i (v != 0)) []
    | _, _ => (d, ["bad-op"])
  | some s, ["eof", id] =>
    match id.toNat? with
    | some i => if !s.isLive i then (d, ["bad-op"]) else report d (s.peerEof i) []
    | none => (d, ["bad-op"])
  | some s, ["pump"] =>
    let (s', cbs) := s.pump
    report d s' cbs
  | some s, ["tick", ms] =>
    match ms.toNat? with
    | some ms => report d { s with now := s.now + 1000 * ms } []
    | none => (d, ["bad-op"])
  | some _, [op, f, t, x0, x1] =>
    if op = "scalex" ∨ op = "scaley" then
      match f.toNat?, t.toNat?, x0.toNat?, x1.toNat? with
      | some f, some t, some x0, some x1 =>
        if f < 1 ∨ t < 1 ∨ x1 > 65536 then (d, ["bad-op"]) else (d, [hex64 (scaleHash f t x0 x1)])
      | _, _, _, _ => (d, ["bad-op"])
    else (d, ["bad-op"])
  | some _, _ => (d, ["bad-op"])

def main : IO Unit := runDriver ({} : DState) dstep
