def main : IO Unit := IO.println "driver C06: not built yet"
