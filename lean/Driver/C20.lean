def main : IO Unit := IO.println "driver C20: not built yet"
