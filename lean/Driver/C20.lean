import VncModel.Basic.Proto
import VncModel.Httpd.Model
/-! Line-protocol driver for the HTTP-server model (C20).  Same script as harness/c20.c.
The sandbox file system is whatever the script's `mkdir` / `file` ops created (symlink-free), the
screen is the harness's fixed one (16x8, desktop "verif desk", host "vhost", USER=vuser). -/
open VncModel VncModel.Httpd VncModel.Proto VncModel.Gen.C20

structure DState where
  dirLen : Option Nat := none
  proxy : Bool := false
  port : Int := 0
  files : List (Bytes × Bytes) := []
  dirs : List Bytes := []
  connOpen : Bool := false
  desktop : Bytes := "verif desk".toUTF8.toList
  user : Option Bytes := some "vuser".toUTF8.toList
  refuse : Bool := false

def envOf (s : DState) : Env :=
  { width := 16, height := 8, desktop := s.desktop, thisHost := "vhost".toUTF8.toList, user := s.user }

def joinSlash : List Bytes → Bytes
  | [] => []
  | [c] => c
  | c :: cs => c ++ 47 :: joinSlash cs

/-- kernel path lookup below the www directory in the symlink-free sandbox -/
def fsLookup (s : DState) (dirLen : Nat) (path : Bytes) : FsRes :=
  let f := path.drop dirLen
  let comps := splitSlash f
  let norm := comps.filter (fun c => c != [] && c != [46])
  let wantsDir := match comps.getLast? with
    | some c => c == [] || c == [46]
    | none => false
  let rel := joinSlash norm
  if norm.isEmpty then .isDir
  else if norm.any (fun c => c == [46, 46]) then .absent      -- never reached for model outcomes
  else match s.files.find? (fun p => p.1 == rel) with
    | some p => if wantsDir then .absent else .file p.2
    | none => if s.dirs.contains rel then .isDir else .absent

def fnv (bs : Bytes) : UInt64 :=
  bs.foldl (fun h b => (h ^^^ b.toUInt64) * 1099511628211) 1469598103934665603

def hex16 (x : UInt64) : String :=
  String.ofList ((List.range 16).reverse.map fun i => hexChar ((x >>> (UInt64.ofNat (4 * i))).toNat % 16))

def parseCuts (s : String) (len : Nat) : Option (List Nat) :=
  if s = "-" then some [] else
  let parts := s.splitOn ","
  let rec go : List String → Nat → List Nat → Option (List Nat)
    | [], _, acc => some acc.reverse
    | p :: ps, prev, acc =>
      match p.toNat? with
      | some c => if c < prev || c > len then none else go ps c (c :: acc)
      | none => none
  go parts 0 []

def cutChunks (b : Bytes) (cuts : List Nat) : List Bytes :=
  let rec go : Bytes → Nat → List Nat → List Bytes
    | rest, _, [] => [rest]
    | rest, prev, c :: cs => rest.take (c - prev) :: go (rest.drop (c - prev)) c cs
  go b 0 cuts

def rfbVersion : Bytes := "RFB 003.008\n".toUTF8.toList

def statusLine (r : Bytes) : Bytes := r.takeWhile (fun b => b != 13 && b != 10)

/-- bytes after the first CR LF CR LF -/
def bodyOf : Bytes → Option Bytes
  | [] => none
  | c :: t => if [13, 10, 13, 10].isPrefixOf (c :: t) then some (t.drop 3) else bodyOf t

def doReq (s : DState) (dirLen : Nat) (bytes : Bytes) (cuts : List Nat) (endk : String) (race : Bool) :
    DState × String :=
  let cfg : Cfg := { dir := List.replicate dirLen 100, proxy := s.proxy, port := s.port }
  let e : SockEnd := if endk = "keep" then .eagain else .eof
  -- an empty burst on a connection that stays open wakes nobody up: httpProcessInput is not called
  let (o, rest, _) :=
    if bytes.isEmpty && (endk = "keep" || endk = "reset") then (Outcome.pending, ([] : Bytes), ([] : List W))
    else processCallW true cfg (cutChunks bytes cuts) e
  let fs := fsLookup s dirLen
  let resp0 := respond (envOf s) cfg fs o
  -- proxy hand-over: rfbNewClient peeks 4 bytes for at most 100 ms (websockets.c)
  let accepted : Option (Bool × Nat) :=
    match o with
    | .proxyOk =>
      if rest.length ≥ 4 && "RFB ".toUTF8.toList.isPrefixOf rest then some (true, 0)
      else if rest.isEmpty then (if endk = "keep" || endk = "reset" then some (true, 100) else some (false, 0))
      else none
    | _ => some (false, 0)
  match accepted with
  | none => ({ s with connOpen := false }, "unmodelled")
  | some (handed0, wait) =>
    -- a refusing newClientHook: rfbNewClient has greeted the peer already, then tears the client down
    let resp := if handed0 then resp0 ++ rfbVersion else resp0
    let handed := handed0 && !s.refuse
    let (openS, realS) :=
      match opened o with
      | none => ("-", "-")
      | some p => ("W" ++ hex (p.drop dirLen),
                   match fs p with
                   | .absent => "-"
                   | _ => "in")
    let full := endk = "full"
    let respS :=
      if full then "resp=- len=0 hash=0 bhash=0 par=-"
      else
        let extra := match bodyOf resp with
          | none => "bhash=0 par=-"
          | some b =>
            let a := b.dropWhile (· != 1)
            let r := (a.drop 1).takeWhile (· != 2)
            let closed := ((a.drop 1).dropWhile (· != 2)).isEmpty == false
            let par := if a.isEmpty || !closed then "-" else "P" ++ hex r
            s!"bhash={hex16 (fnv b)} par={par}"
        s!"resp={hex (statusLine resp)} len={resp.length} hash={hex16 (fnv resp)} {extra}"
    let pend := match o with
      | .pending => true
      | _ => false
    -- race: the accept that follows in the same rfbHttpCheckFds call closes an old connection still open
    let connS := if handed then "handed" else if pend && !race then "open" else "closed"
    let peerS := if full then "-" else if handed then "open" else if pend && !race then "open" else "eof"
    let newS := if race then " new=open" else ""
    ({ s with connOpen := pend || race },
     s!"open={openS} real={realS} {respS} conn={connS} peer={peerS} wait={wait}{newS} leak=0 badclose=0 rfb=ok")

def dstep (s : DState) (toks : List String) : DState × List String :=
  match toks with
  | ["dir", n, l] =>
    match n.toNat?, s.dirLen with
    | some n, none => if l = "4" || l = "6" then ({ s with dirLen := some n }, ["ok sigpipe=ign"]) else (s, ["bad-op"])
    | _, _ => (s, ["bad-op"])
  | ["mkdir", p] =>
    match unhex? p, s.dirLen with
    | some p, some _ => if p.isEmpty then (s, ["bad-op"]) else ({ s with dirs := p :: s.dirs }, ["ok"])
    | _, _ => (s, ["bad-op"])
  | ["file", p, c] =>
    match unhex? p, unhex? c, s.dirLen with
    | some p, some c, some _ =>
      if p.isEmpty then (s, ["bad-op"]) else ({ s with files := (p, c) :: s.files }, ["ok"])
    | _, _, _ => (s, ["bad-op"])
  | ["cfg", pr, po] =>
    match pr.toNat?, parseInt? po with
    | some pr, some po => ({ s with proxy := pr != 0, port := po }, ["ok"])
    | _, _ => (s, ["bad-op"])
  | ["paint", _, _] => (s, ["ok"])
  | ["req", h, c, e] =>
    match unhex? h, s.dirLen with
    | some b, some dl =>
      if e != "keep" && e != "half" && e != "full" && e != "reset" then (s, ["bad-op"]) else
      match parseCuts c b.length with
      | some cuts => let (s', o) := doReq s dl b cuts e false; (s', [o])
      | none => (s, ["bad-op"])
    | _, _ => (s, ["bad-op"])
  | ["req", h, c, e, "race"] =>
    match unhex? h, s.dirLen with
    | some b, some dl =>
      if e != "keep" then (s, ["bad-op"]) else
      match parseCuts c b.length with
      | some cuts => let (s', o) := doReq s dl b cuts e true; (s', [o])
      | none => (s, ["bad-op"])
    | _, _ => (s, ["bad-op"])
  | ["env", d, u] =>
    match unhex? d with
    | some d =>
      if d.contains 0 then (s, ["bad-op"]) else
      if u = "none" then ({ s with desktop := d, user := none }, ["ok"]) else
      match unhex? u with
      | some u => if u.contains 0 then (s, ["bad-op"]) else ({ s with desktop := d, user := some u }, ["ok"])
      | none => (s, ["bad-op"])
    | none => (s, ["bad-op"])
  | ["boot", _] => (s, ["ok"])
  | ["hook", h] =>
    if h = "refuse" then ({ s with refuse := true }, ["ok"])
    else if h = "accept" then ({ s with refuse := false }, ["ok"]) else (s, ["bad-op"])
  | ["listener", l] => if l = "4" || l = "6" then (s, ["ok"]) else (s, ["bad-op"])
  | ["newconn"] =>
    match s.dirLen with
    | some _ => ({ s with connOpen := true }, ["old=eof conn=open rfb=ok"])
    | none => (s, ["bad-op"])
  | ["hangup"] =>
    match s.dirLen with
    | some _ => ({ s with connOpen := false }, ["conn=closed rfb=ok"])
    | none => (s, ["bad-op"])
  | _ => (s, ["bad-op"])

def main : IO Unit := runDriver ({} : DState) dstep
