import VncModel.Basic.Proto
import VncModel.Life.Model
/-! Line-protocol driver for the connection life-cycle model (C12).  Same script as harness/c12.c,
with two kinds of annotations added by vlib/props/c12.py from the harness' observations:
`X=cI:r|w,...` (I/O failures that closed a connection during the op) and `R=cI:z..t..j..r..b..u..x..,...`
(compression state / buffers observed on open connections after the op). -/
open VncModel VncModel.Life VncModel.Proto

structure DState where
  v : Variant := Variant.current
  w : World := {}
  httpDown : Bool := false   -- rfbShutdownServer has closed the HTTP server's sockets

def cid? (s : String) : Option Nat :=
  if s.startsWith "c" then (s.drop 1).toString.toNat? else none

def stName : St → String
  | .ver => "ver" | .sec => "sec" | .auth => "auth" | .init => "init" | .normal => "normal"

def b01 (b : Bool) : String := if b then "1" else "0"

def hookName : Hook → String
  | .accept => "accept" | .hold => "hold" | .refuse => "refuse"

def evName : Event → String
  | .new i => s!"new c{i}"
  | .hook i h => s!"hook c{i} {hookName h}"
  | .ret i ok => s!"ret c{i} {if ok then "ptr" else "null"}"
  | .close i => s!"close c{i}"
  | .gone i => s!"gone c{i}"
  | .kbd i => s!"kbd c{i}"
  | .xnew i => s!"xnew c{i}"
  | .xinit i => s!"xinit c{i}"
  | .xclose i d => s!"xclose c{i} {if d then "d" else "n"}"
  | .xdrop i => s!"xdrop c{i}"

def connTok (w : World) (i : Nat) (c : Conn) : String :=
  if w.list.contains i && !w.cleaned then
    let o := if c.sockOpen then "open" else "closed"
    let r := if c.sockOpen then
        s!"s{screenIndex w.screens c.scr}z{c.res.z}t{c.res.t}j{c.res.j}r{c.res.r}b{c.res.b}u{c.res.u}x{c.res.x}w{b01 c.wsctx}p{b01 c.wspath}f{b01 c.ftFd}e{c.exts}d{b01 c.extData}"
      else "-"
    s!"c{i}:L1:{o}:h{b01 c.onHold}:{stName c.st}:g{c.goneCalls}:k{c.closeCalls}:{r}"
  else s!"c{i}:L0:-:-:-:g{c.goneCalls}:k{c.closeCalls}:-"

def enumFrom {α : Type} (n : Nat) : List α → List (Nat × α)
  | [] => []
  | a :: as => (n, a) :: enumFrom (n + 1) as

def strayShown (w : World) : Nat := w.stray + w.conns.countP (·.ftFd)

def stateLine (w : World) : String :=
  let evs := if w.log.isEmpty then "-" else " ".intercalate (w.log.map evName)
  let cs := if w.conns.isEmpty then "-" else
    " ".intercalate ((enumFrom 0 w.conns).map fun p => connTok w p.1 p.2)
  let refs := if w.cleaned then "-" else ",".intercalate (w.screens.map fun s => toString s.refs)
  let po := if w.cleaned then "" else match w.ptrOwner with
    | some i => s!" po=c{i}"
    | none => " po=-"
  s!"{evs} | {cs} | refs={refs}{po} stray={strayShown w}"

/-- "z1t0j0r0b2u0x0" -> Res -/
def parseRes (s : String) : Option Res :=
  let rec go (cs : List Char) (key : Option Char) (acc : Nat) (r : Res) : Option Res :=
    let put (r : Res) (k : Char) (n : Nat) : Option Res :=
      match k with
      | 'z' => some { r with z := n } | 't' => some { r with t := n } | 'j' => some { r with j := n }
      | 'r' => some { r with r := n } | 'b' => some { r with b := n } | 'u' => some { r with u := n }
      | 'x' => some { r with x := n } | _ => none
    match cs with
    | [] => match key with
      | some k => put r k acc
      | none => some r
    | c :: rest =>
      if c.isDigit then go rest key (acc * 10 + (c.toNat - '0'.toNat)) r
      else match key with
        | some k => (put r k acc).bind fun r' => go rest (some c) 0 r'
        | none => go rest (some c) 0 r
  go s.toList none 0 {}

def parseAnn (toks : List String) : Ann × ResAnn × List String :=
  toks.foldl (fun (acc : Ann × ResAnn × List String) t =>
    let (xs, rs, plain) := acc
    if t.startsWith "X=" then
      let items := ((t.drop 2).toString.splitOn ",").filterMap fun it =>
        match it.splitOn ":" with
        | [c, k] => (cid? c).map fun i => (i, if k == "w" then Fail.wr else Fail.rd)
        | _ => none
      (xs ++ items, rs, plain)
    else if t.startsWith "R=" then
      let items := ((t.drop 2).toString.splitOn ",").filterMap fun it =>
        match it.splitOn ":" with
        | [c, r] => match cid? c, parseRes r with
          | some i, some rr => some (i, rr)
          | _, _ => none
        | _ => none
      (xs, rs ++ items, plain)
    else (xs, rs, plain ++ [t])) ([], [], [])

def hook? (s : String) : Option Hook :=
  if s == "hook=accept" then some .accept else if s == "hook=hold" then some .hold
  else if s == "hook=refuse" then some .refuse else none

def fin (s : DState) (w : World) : DState × List String :=
  ({ s with w := { w with log := [] } }, [stateLine w])

def exists? (s : DState) (i : Nat) : Bool := i < s.w.conns.length

/-- may the message be sent now?  (the generators only send what the protocol allows next) -/
def protoOk (w : World) (i : Nat) (m : Msg) : Bool :=
  match w.conns[i]? with
  | none => false
  | some c =>
    if !c.peerOpen then true else
    -- half a message must stay half a message
    if c.inbox.contains Msg.part then false else
    -- after a wrong authentication response the server hangs up: whatever follows is dropped
    if c.inbox.contains (Msg.auth false) then true else
    -- state the server will be in when it gets to this message
    let st := c.inbox.foldl (fun st m => match st, m with
      | St.ver, Msg.ver => St.sec | St.sec, Msg.sec => (if w.pwOn then St.auth else St.init)
      | St.auth, Msg.auth true => St.init | St.init, Msg.init _ => St.normal
      | st, _ => st) c.st
    -- a connection that is closed (or will be by then) just drops the bytes
    if !c.sockOpen then true else msgOk st m

def defects (s : DState) : String :=
  let w := s.w
  let ds := (if w.nbLost > 0 then ["nonblock-fail-leak"] else []) ++
    (if w.shutLeft > 0 || w.recLost > 0 then ["closed-unreaped-shutdown-leak"] else []) ++
    (if w.wsLostGone > 0 then ["cleanup-wspath-leak"] else []) ++
    (if w.wsLostHs > 0 then ["ws-multi-get-leak"] else []) ++
    (if w.stray > 0 then ["ft-fd-leak"] else []) ++
    (if w.extLost > 0 then ["extension-node-leak"] else []) ++
    (if w.extDataLost > 0 then ["cleanup-extension-close-skipped"] else []) ++
    (if w.extNodeLost > 0 then ["disable-extension-node-leak"] else [])
  if ds.isEmpty then "-" else ",".intercalate ds

def endLine (s : DState) : String :=
  let w := s.w
  let openleft := w.conns.countP (fun c => c.closeCalls == 0)
  let leaks := if w.nbLost + w.recLost + w.wsLostHs + w.wsLostGone + w.extLost + w.extDataLost + w.extNodeLost > 0 then 1 else 0
  s!"end openleft={openleft} stray={strayShown w} leaks={leaks} defects={defects s}"

def sendOp (s : DState) (c : String) (m : Msg) (xs : Ann) (rs : ResAnn) : DState × List String :=
  match cid? c with
  | some i =>
    if !exists? s i then (s, ["bad-op"])
    else if !protoOk s.w i m then (s, ["unmodelled"])
    else fin s (step s.v s.w (.send i m xs rs))
  | none => (s, ["bad-op"])

def dstep (s : DState) (toks0 : List String) : DState × List String :=
  let (xs, rs, toks) := parseAnn toks0
  match toks with
  | ["variant", a, b, c, d, e, f, g, h] =>
    let t (x : String) := x == "1"
    ({ s with v := ⟨t a, t b, t c, t d, t e, t f, t g, t h⟩ }, ["ok"])
  | ["end"] => (s, [endLine s])
  | _ =>
  if s.w.cleaned then (s, ["bad-op"]) else
  match toks with
  | ["fault", _, _] => (s, ["ok"])
  | "conn" :: c :: opts =>
    match cid? c with
    | some i =>
      if i != s.w.conns.length then (s, ["bad-op"]) else
      let h := (opts.filterMap hook?).head?.getD .accept
      let ws := (opts.filterMap fun o => if o.startsWith "ws=" then (o.drop 3).toString.toNat? else none).head?.getD 0
      let nb := opts.contains "nb=1"
      let x := annFail xs i
      fin s (step s.v s.w (.conn h ws nb x))
    | none => (s, ["bad-op"])
  | "hconn" :: c :: opts =>
    -- the HTTP server's proxy hand-over ends in the same rfbNewClient: same transition
    match cid? c with
    | some i =>
      if i != s.w.conns.length || s.httpDown then (s, ["bad-op"]) else
      let h := (opts.filterMap hook?).head?.getD .accept
      fin s (step s.v s.w (.conn h 0 false (annFail xs i)))
    | none => (s, ["bad-op"])
  | ["pump"] => fin s (step s.v s.w (.pump xs rs))
  | ["draw", _] => fin s (step s.v s.w (.pump xs rs))
  | ["ext"] | ["ext", _] => fin s (step s.v s.w .ext)
  | ["pw"] => fin s (step s.v s.w .pw)
  | ["cursor"] => fin s s.w
  | ["shutdown0"] => fin { s with httpDown := true } s.w
  | ["auth", c, r] => sendOp s c (.auth (r == "ok")) xs rs
  | ["ptr", c, m] => sendOp s c (.ptr (m != "0")) xs rs
  | ["ftgo", c] => sendOp s c .ftgo xs rs
  | ["shutdown"] => fin { s with httpDown := true } (step s.v s.w .shutdown)
  | ["cleanup"] => fin s (step s.v s.w .cleanup)
  | ["ver", c] => sendOp s c .ver xs rs
  | ["sec", c] => sendOp s c .sec xs rs
  | ["init", c, sh] => sendOp s c (.init (sh != "0")) xs rs
  | ["enc", c, _] => sendOp s c .enc xs rs
  | ["req", c] => sendOp s c .req xs rs
  | ["scale", c, k] => match k.toNat? with
    | some k => sendOp s c (.scale k) xs rs
    | none => (s, ["bad-op"])
  | ["pf", c] => sendOp s c .pf xs rs
  | ["key", c] => sendOp s c .key xs rs
  | ["junk", c] => sendOp s c .junk xs rs
  | ["partial", c] => sendOp s c .part xs rs
  | ["ft", c] => sendOp s c .ft xs rs
  | ["closepeer", c] | ["resetpeer", c] =>
    match cid? c with
    | some i => if exists? s i then fin s (step s.v s.w (.closePeer i xs rs)) else (s, ["bad-op"])
    | none => (s, ["bad-op"])
  | ["appclose", c] | ["start", c] | ["refuse", c] =>
    match cid? c with
    | some i =>
      if !exists? s i || !appKnows s.w i then (s, ["bad-op"])
      else fin s (step s.v s.w (match toks.head? with
        | some "appclose" => .appClose i | some "start" => .start i | _ => .refuse i))
    | none => (s, ["bad-op"])
  | ["extrefuse", c] =>
    match cid? c with
    | some i => if exists? s i then fin s (step s.v s.w (.extRefuse i)) else (s, ["bad-op"])
    | none => (s, ["bad-op"])
  | ["extdrop", c] | ["extadd", c] =>
    match cid? c with
    | some i =>
      if !exists? s i || !appKnows s.w i || !isOpen s.w i then (s, ["bad-op"])
      else fin s (step s.v s.w (if toks.head? == some "extdrop" then .extDrop i else .extAdd i))
    | none => (s, ["bad-op"])
  | ["kbdclose", c] =>
    match cid? c with
    | some i => if exists? s i then fin s (step s.v s.w (.kbdClose i)) else (s, ["bad-op"])
    | none => (s, ["bad-op"])
  | ["gonekick", c, k] =>
    match cid? c, cid? k with
    | some i, some k => if exists? s i && exists? s k then fin s (step s.v s.w (.goneKick i k)) else (s, ["bad-op"])
    | _, _ => (s, ["bad-op"])
  | ["out", c] =>
    match cid? c with
    | some i => if exists? s i then (s, [s!"out c{i}"]) else (s, ["bad-op"])
    | none => (s, ["bad-op"])
  | _ => (s, ["bad-op"])

def main : IO Unit := runDriver ({} : DState) dstep
