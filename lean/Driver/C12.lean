def main : IO Unit := IO.println "driver C12: not built yet"
