def main : IO Unit := IO.println "driver C09: not built yet"
