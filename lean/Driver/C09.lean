import VncModel.Basic.Proto
import VncModel.Ws.Decoder
import VncModel.Ws.Codec
import VncModel.Ws.Handshake
import VncModel.Ws.Sha1
/-! Line-protocol driver for the WebSocket model (C09). Same scripts as harness/c09.c (part 1). -/
open VncModel VncModel.Ws VncModel.Proto

structure DState where
  c : Ctx := Ctx.init
  e : Env := { pending := [], sched := [] }
  cyc : Bool := false
  toks : List Resp := []      -- schedule as given (for `*`)

def showOpt : Option Nat → String
  | none => "N"
  | some n => toString n

def showReq (r : Req) : String :=
  let o := match r.out with
    | .data bs => toString bs.length
    | .again => "E"
    | .closed => "X"
    | .fail => "F"
    | .bad => "BAD"
  s!"{r.off}:{r.n}:{o}"

def showRes : Res → String
  | .data bs => s!"ret={bs.length} e=0 d={hex bs}"
  | .again => "ret=-1 e=EAGAIN d=-"
  | .closed => "ret=0 e=0 d=-"
  | .err .eproto => "ret=-1 e=EPROTO d=-"
  | .err .econnreset => "ret=-1 e=ECONNRESET d=-"
  | .err .eio => "ret=-1 e=EIO d=-"
  | .ub => "ret=UB e=UB d=-"

def hex2 (b : Byte) : String := String.ofList [hexChar (b.toNat / 16), hexChar (b.toNat % 16)]

def showCall (c : Ctx) (e : Env) (r : Res) : String :=
  let reqs := ",".intercalate (e.log.reverse.map showReq)
  let m := c.mask
  s!"{showRes r} R=[{reqs}] S={c.st.toNat} nr={c.nRead} hl={c.headerLen} pl={c.payloadLen} " ++
  s!"np={c.nReadPayload} cl={c.carry.length}:{hex c.carry} wp={showOpt c.writePos} " ++
  s!"rp={showOpt c.readPos} rl={c.readlen} co={c.contOp.toNat} op={c.opcode.toNat} " ++
  s!"fin={c.fin.toNat} m={hex2 m.b0}{hex2 m.b1}{hex2 m.b2}{hex2 m.b3}"

def oneRead (s : DState) (len : Nat) : DState × String × Res :=
  let e0 := { s.e with log := [] }
  let (c, e, r) := decode s.c e0 len
  ({ s with c := c, e := e }, showCall c e r, r)

def parseTok (t : String) : Option Resp :=
  if t = "E" then some .eagain
  else if t = "X" then some .eof
  else if t = "F" then some .fail
  else match t.toNat? with
    | some (k + 1) => some (.chunk k)
    | _ => none

def parseLens (ts : List String) : Option (List Nat) :=
  ts.mapM (fun t => match t.toNat? with | some (n + 1) => some (n + 1) | _ => none)

partial def drainLoop (s : DState) (max calls : Nat) (lens : Array Nat) (acc : List String) :
    DState × List String :=
  if calls ≥ max then (s, acc.reverse) else
  let len := lens[calls % lens.size]!
  let (s, str, r) := oneRead s len
  let acc := str :: acc
  match r with
  | .data _ => drainLoop s max (calls + 1) lens acc
  | .again => if s.e.pending.isEmpty then (s, acc.reverse) else drainLoop s max (calls + 1) lens acc
  | _ => (s, acc.reverse)

/-- splitmix64 of harness/common/vh.h -/
def vhBytes (seed : UInt64) (n : Nat) : List Byte := Id.run do
  let mut st : UInt64 := seed * 0x9E3779B97F4A7C15 + 1
  let mut out : Array Byte := Array.mkEmpty n
  for _ in [0:n] do
    st := st + 0x9E3779B97F4A7C15
    let mut z := st
    z := (z ^^^ (z >>> 30)) * 0xBF58476D1CE4E5B9
    z := (z ^^^ (z >>> 27)) * 0x94D049BB133111EB
    z := z ^^^ (z >>> 31)
    out := out.push (z &&& 0xff).toUInt8
  return out.toList

def showEnc : Option (List Byte) → String
  | none => "-1 -"
  | some bs => s!"{bs.length} {hex bs}"

def dstep (s : DState) (toks : List String) : DState × List String :=
  match toks with
  | ["new"] => ({}, ["ok"])
  | ["frames", h] =>
    match unhex? h with
    | some bs => ({ s with e := { s.e with pending := s.e.pending ++ bs } }, ["ok"])
    | none => (s, ["bad-op"])
  | "sched" :: ts =>
    if ts.isEmpty then (s, ["bad-op"]) else
    let (body, cyc) := if ts.getLast? = some "*" then (ts.dropLast, true) else (ts, false)
    match body.mapM parseTok with
    | some rs =>
      -- tokens are appended to what is left of the schedule; `*` makes the whole list cyclic
      let all := s.toks ++ rs
      let e := { s.e with sched := s.e.sched ++ rs, cycle := if cyc then all else s.e.cycle }
      ({ s with e := e, toks := all, cyc := cyc }, ["ok"])
    | none => (s, ["bad-op"])
  | "read" :: ts =>
    match parseLens ts with
    | some (l :: ls) =>
      let (s, outs) := (l :: ls).foldl (fun (acc : DState × List String) len =>
        let (s, str, _) := oneRead acc.1 len
        (s, str :: acc.2)) (s, [])
      (s, [" ; ".intercalate outs.reverse])
    | _ => (s, ["bad-len"])
  | "drain" :: m :: ts =>
    match m.toNat?, parseLens ts with
    | some max, some (l :: ls) =>
      let (s, outs) := drainLoop s max 0 (l :: ls).toArray []
      (s, [" ; ".intercalate outs])
    | _, _ => (s, ["bad-len"])
  | ["enc", b, h] =>
    match unhex? h with
    | some bs => (s, [showEnc (match encodeHybi (b != "0") bs with | some [] => some [] | x => x)])
    | none => (s, ["bad-op"])
  | ["b64e", h] =>
    match unhex? h with
    | some bs => (s, [showEnc (ntopN bs (bs.length * 2 + 8))])
    | none => (s, ["bad-op"])
  | ["b64d", h, ts] =>
    match unhex? h, ts.toNat? with
    | some bs, some t => (s, [showEnc (pton bs t)])
    | _, _ => (s, ["bad-op"])
  | ["sha1", h] =>
    match unhex? h with
    | some bs => (s, [hex (Sha1.sha1 bs)])
    | none => (s, ["bad-op"])
  | "hs" :: h :: more =>
    let ending := if more = ["closed"] then some HsEnd.closed else if more = [] then some HsEnd.timeout else none
    match unhex? h, ending with
    | some bs, some ending =>
      match handshake Sha1.sha1 bs ending with
      | .fail => (s, ["hs fail resp=-"])
      | .ok resp b64 path _ =>
        let rest := match encodeHybi b64 (strBytes "RFB 003.008\n") with | some r => r | none => []
        (s, [s!"hs ok resp={hex resp} rest={hex rest} ws=1 b64={if b64 then 1 else 0} path={hex path}"])
    | _, _ => (s, ["bad-op"])
  | ["wx", b, l, sd] =>
    match l.toNat?, sd.toNat? with
    | some len, some seed =>
      match wsWrite (b != "0") (vhBytes (UInt64.ofNat seed) len) with
      | some w => (s, [s!"wx 1 {hex w}"])
      | none => (s, ["wx -1 -"])
    | _, _ => (s, ["bad-op"])
  | _ => (s, ["bad-op"])

def main : IO Unit := runDriver ({} : DState) dstep
