import VncModel.Basic.Proto
import VncModel.FileXfer.Model
/-! Line-protocol driver for the file-transfer model (C19).  Same script as harness/c19.c plus
`env` lines carrying the results of the libc calls (taken from the harness run). -/
open VncModel VncModel.FileXfer VncModel.Proto

def sandbox : Bytes := ofStr "/tmp/verif-c19-0000000"

structure Conn where
  id : Nat
  cl : Client
  peerOpen : Bool := true
  reaped : Bool := false

structure W where
  permit : Bool := false
  cbSeq : Option (List Nat) := none
  home : Option Path := some sandbox
  tightReg : Bool := false
  appReg : Bool := false
  root : Path := sandbox ++ ofStr "/root"
  tightEn : Bool := true
  calls : Nat := 0
  nextFd : Nat := 0
  conns : List Conn := []
  env : List String := []

def W.cfg (w : W) : Cfg :=
  { permit := w.permit
    cb := w.cbSeq.map fun l => fun i => if i < l.length then l.getD i 0 else l.getLastD 0
    home := w.home
    tightEn := w.tightEn
    root := w.root }

def findConn (w : W) (id : Nat) : Option Conn := w.conns.find? (·.id == id)

def putConn (w : W) (c : Conn) : W :=
  { w with conns := w.conns.map fun d => if d.id == c.id then c else d }

def insertConn (c : Conn) : List Conn → List Conn
  | [] => [c]
  | d :: ds => if c.id ≤ d.id then c :: d :: ds else d :: insertConn c ds

def cid? (t : String) : Option Nat :=
  if t.startsWith "c" then
    match (t.drop 1).toString.toNat? with
    | some n => if n < 64 then some n else none
    | none => none
  else none

/-! printing -/

def modeStr : Mode → String | .rd => "rd" | .wrct => "wr+ct"

def fsLine (e : FsEffect) (res : String) : String :=
  match e with
  | .open p m => s!"fs open {pct p} {modeStr m} -> {res}"
  | .fstat fd => s!"fs fstat #{fd} -> {res}"
  | .read fd => s!"fs read #{fd} -> {res}"
  | .write fd n h => s!"fs write #{fd} {n}:{h} -> {res}"
  | .close fd => s!"fs close #{fd}"
  | .opendir p => s!"fs opendir {pct p} -> {res}"
  | .closedir => "fs closedir"
  | .stat p => s!"fs stat {pct p} -> {res}"
  | .mkdir p => s!"fs mkdir {pct p} -> {res}"
  | .unlink p => s!"fs unlink {pct p} -> {res}"
  | .rmdir p => s!"fs rmdir {pct p} -> {res}"
  | .rename a b => s!"fs rename {pct a} {pct b} -> {res}"
  | .utime p => s!"fs utime {pct p} -> {res}"

def payloadStr (len : Nat) : Payload → String
  | .raw b => if len ≤ 600 then pct b else s!"fnv:{fnvStr b}"
  | .hdr name => s!"{pct (name ++ 44 :: List.replicate 16 84)} +h0"
  | .entry attr size name =>
    s!"E {attr} {size} {pct (name ++ List.replicate (Gen.C19.findDataFixed - Gen.C19.findDataNameOff) 0)}"
  | .digest _ h => s!"fnv:{h}"
  | .zdigest n h => s!"zfnv:{n}:{h}"

def wireLine : Wire → String
  | .ft ct cp size len pl => s!"w {ct} {cp} {size} {len} {payloadStr len pl}"
  | .tlist flags ents =>
    let ds := (ents.foldl (fun a e => a + e.2.length + 1) 0) % 65536
    let names := ents.foldl (fun a e => a ++ s!" {e.1}:{pct e.2}") ""
    s!"tw 130 {flags} {ents.length % 65536} {ds} {ds}{names}"
  | .tdata n h => s!"tw 131 0 {n} {n} fnv:{h}"
  | .tdataEnd => "tw 131 0 0 0 mtime"
  | .tcancel r => s!"tw 132 {pct (ofStr r)}"
  | .tfailed r => s!"tw 133 {pct (ofStr r)} +0"

/-- events oldest first -> lines: calls in order, then wire messages -/
def evLines (evs : List Ev) : List String :=
  let a := evs.filterMap fun
    | .q n => some s!"q {n}"
    | .fs e r => some (fsLine e r)
    | .cleanup e r => some (fsLine e r)
    | .x what n r => some s!"x {what} {n} -> {r}"
    | .envBad what => some s!"env-mismatch {what}"
    | _ => none
  let b := evs.filterMap fun
    | .wire w => some (wireLine w)
    | _ => none
  a ++ b

def fdStr : Option Nat → String | some k => s!"#{k}" | none => "-"
def b01 (b : Bool) : String := if b then "1" else "0"

def statusLine (c : Conn) : String :=
  if c.reaped then s!"= c{c.id} gone" else
  let cl := c.cl
  let t := if !cl.tightExt then "-" else
    match cl.tight with
    | none => "freed"
    | some t => s!"up:{fdStr t.up.fd}/{b01 t.up.inProgress},dn:{fdStr t.dn.fd}/{b01 t.dn.inProgress}"
  s!"= c{c.id} {if cl.isOpen then "open" else "closed"} fd={fdStr cl.xf.fd} s={b01 cl.xf.sending} r={b01 cl.xf.receiving} z={b01 cl.xf.compression} t={t}"

/-- run one model entry point on a connection -/
def runOn (w : W) (c : Conn) (f : S → S) : W × Conn × List Ev :=
  let s : S := { cl := c.cl, calls := w.calls, env := w.env, nextFd := w.nextFd, evs := [] }
  let s := f s
  let c := { c with cl := s.cl }
  ({ putConn w c with calls := s.calls, env := s.env, nextFd := s.nextFd }, c, s.evs.reverse)

/-- process messages while input is pending (harness `process`) -/
def pump (fuel : Nat) (w : W) (id : Nat) (acc : List String) : W × List String :=
  match fuel with
  | 0 => (w, acc)
  | fuel + 1 =>
    match findConn w id with
    | none => (w, acc)
    | some c =>
      if !c.cl.isOpen ∨ c.cl.inbuf.isEmpty then (w, acc)
      else
        let (w, c, evs) := runOn w c (stepMsg w.cfg)
        match evs.find? (fun e => match e with | .nonft _ => true | _ => false) with
        | some (.nonft b) => (w, acc ++ [s!"nonft {b}"])
        | _ => pump fuel w id (acc ++ evLines evs ++ [statusLine c])

def natArg? (pre : String) (t : String) : Option String :=
  if t.startsWith pre then some (t.drop pre.length).toString else none

def be32b (n : Nat) : Bytes :=
  [UInt8.ofNat (n / 16777216 % 256), UInt8.ofNat (n / 65536 % 256), UInt8.ofNat (n / 256 % 256), UInt8.ofNat (n % 256)]

def doSend (w : W) (id : Nat) (bytes : Bytes) : W × List String :=
  match findConn w id with
  | none => (w, ["bad-op", "."])
  | some c =>
    if c.reaped ∨ !c.cl.isOpen ∨ !c.peerOpen then (w, ["dead", "."])
    else
      let c := { c with cl := { c.cl with inbuf := c.cl.inbuf ++ bytes } }
      let w := putConn w c
      let (w, ls) := pump (c.cl.inbuf.length + 2) w id []
      (w, ls ++ ["."])

/-- security types offered to a 3.8 client of a password-less screen: None, TightVNC's 16 while
the extension is registered, the application's 77 while it is registered (sorted) -/
def secTypes (w : W) : String :=
  ",".intercalate ((["1"] ++ (if w.tightReg then ["16"] else []) ++ (if w.appReg then ["77"] else [])))

/-- directories of the sandbox that exist from the start (harness `sandbox_make`); SetFtpRoot accepts
only an existing directory -/
def knownDirs : List Path :=
  ["", "/root", "/root/rd", "/dir1", "/dir1/sub", "/dir2", "/root2"].map fun d => sandbox ++ ofStr d

/-- rfbProcessArguments on options the core does not know: each is offered to rfbTightProcessArg
(only while the extension is registered) -/
def processArgs (w : W) : List String → W
  | [] => w
  | "-ftproot" :: p :: rest =>
    if !w.tightReg then processArgs w (p :: rest)
    else
      let pb := ofStr p
      let pb' := if pb.getLast? = some 47 then pb.dropLast else pb
      if pb.length ≠ 0 ∧ pb.length ≤ Gen.C19.PATH_MAX - 1 ∧ (knownDirs.contains pb ∨ knownDirs.contains pb') then
        processArgs { w with root := pb' } rest
      else processArgs w (p :: rest)       -- not handled: the next word is looked at as an option
  | "-disablefiletransfer" :: rest =>
    if w.tightReg then processArgs { w with tightEn := false } rest else processArgs w rest
  | _ :: rest => processArgs w rest

def dstep (w : W) (toks : List String) : W × List String :=
  match toks with
  | "env" :: rest =>
    let joined := " ".intercalate rest
    ({ w with env := if joined.isEmpty then [] else joined.splitOn "|" }, [])
  | ["cfg", p, c] =>
    match natArg? "permit=" p, natArg? "cb=" c with
    | some pv, some cv =>
      let permit := pv.startsWith "1"
      if cv = "none" then ({ w with permit := permit, cbSeq := none }, ["."])
      else
        let ds := cv.toList.map fun ch => ch.toNat - 48
        if ds.isEmpty then ({ w with permit := permit, cbSeq := none }, ["."])
        else ({ w with permit := permit, cbSeq := some ds, calls := 0 }, ["."])
    | _, _ => (w, ["bad-op", "."])
  | ["home", k] =>
    match parseInt? k with
    | some k =>
      if k < 0 then ({ w with home := none }, ["."])
      else if k = 0 then ({ w with home := some sandbox }, ["."])
      else ({ w with home := some (sandbox ++ 47 :: List.replicate (min k.toNat 250) 104) }, ["."])
    | none => (w, ["bad-op", "."])
  | ["tight", r, e] =>
    match natArg? "reg=" r, natArg? "en=" e with
    | some rv, some ev =>
      let r := (rv.toNat?.getD 0) != 0
      -- registering (again) points the root at the sandbox's root directory (harness: SetFtpRoot)
      ({ w with tightReg := r, tightEn := (ev.toNat?.getD 0) != 0,
                root := if r then sandbox ++ ofStr "/root" else w.root }, ["."])
    | _, _ => (w, ["bad-op", "."])
  | ["app", r] =>
    match natArg? "reg=" r with
    | some rv => ({ w with appReg := (rv.toNat?.getD 0) != 0 }, ["."])
    | none => (w, ["bad-op", "."])
  | ["pwhome", _] => (w, ["."])
  | "args" :: opts =>
    let w := processArgs w opts
    (w, [s!"= args root={pct w.root} en={b01 w.tightEn}", "."])
  | "conn" :: idt :: opts =>
    match cid? idt with
    | some id =>
      if (findConn w id).isSome ∨ opts.length > 2 then (w, ["bad-op", "."])
      else
        let vo := opts.contains "viewonly"
        let tg := opts.contains "tight"
        if tg ∧ !w.tightReg then
          -- security type 16 is not offered: "wrong security type", connection closed in handshake
          let c : Conn := { id := id, cl := { isOpen := false, viewOnly := vo } }
          ({ w with conns := insertConn c w.conns }, [s!"= c{id} closed hs sec={secTypes w}", "."])
        else
          let c : Conn := { id := id, cl := { viewOnly := vo, tightExt := tg, tight := if tg then some {} else none } }
          ({ w with conns := insertConn c w.conns }, [s!"= c{id} open normal sec={secTypes w}", "."])
    | none => (w, ["bad-op", "."])
  | ["view", idt, v] =>
    match cid? idt with
    | some id =>
      match findConn w id with
      | some c =>
        if c.reaped then (w, ["bad-op", "."])
        else (putConn w { c with cl := { c.cl with viewOnly := (v.toNat?.getD 0) != 0 } }, ["."])
      | none => (w, ["bad-op", "."])
    | none => (w, ["bad-op", "."])
  | ["send", idt, hx] =>
    match cid? idt, unhex? hx with
    | some id, some bytes => doSend w id bytes
    | _, _ => (w, ["bad-op", "."])
  | ["ft", idt, ct, cp, size, len, hx] =>
    match cid? idt, ct.toNat?, cp.toNat?, size.toNat?, len.toNat?, unhex? hx with
    | some id, some ct, some cp, some size, some len, some bytes =>
      doSend w id ([7, UInt8.ofNat ct, UInt8.ofNat cp, 0] ++ be32b size ++ be32b len ++ bytes)
    | _, _, _, _, _, _ => (w, ["bad-op", "."])
  | ["chunk", idt] =>
    match (cid? idt).bind (findConn w) with
    | some c =>
      if c.reaped then (w, ["dead", "."])
      else
        let s : S := { cl := c.cl, calls := w.calls, env := w.env, nextFd := w.nextFd, evs := [] }
        let (r, s) := chunkEntry w.cfg s
        let c := { c with cl := s.cl }
        let w := { putConn w c with calls := s.calls, env := s.env, nextFd := s.nextFd }
        (w, evLines s.evs.reverse ++ [s!"ret {b01 r}", statusLine c, "."])
    | none => (w, ["dead", "."])
  | ["gone", idt] =>
    match (cid? idt).bind (findConn w) with
    | some c =>
      if c.reaped ∨ !c.peerOpen then (w, ["dead", "."])
      else
        let c := { c with peerOpen := false }
        let w := putConn w c
        if c.cl.isOpen then
          let (w, c, evs) := runOn w c peerGone
          (w, evLines evs ++ [statusLine c, "."])
        else (w, [statusLine c, "."])
    | none => (w, ["dead", "."])
  | ["reap"] =>
    let (w, ls) := w.conns.foldl (fun (acc : W × List String) c =>
      let (w, ls) := acc
      if c.reaped ∨ c.cl.isOpen then (w, ls)
      else
        let (w, c, evs) := runOn w c reapClient
        (putConn w { c with reaped := true }, ls ++ evLines evs ++ [s!"reaped c{c.id}"])) (w, [])
    (w, ls ++ ["."])
  | ["fds"] =>
    let all := w.conns.flatMap fun c => if c.reaped then [] else c.cl.fds.map fun k => (k, c.id)
    let sorted := (List.range (w.nextFd + 1)).flatMap fun k => all.filter (·.1 == k)
    (w, ["fds" ++ sorted.foldl (fun a e => a ++ s!" #{e.1}@c{e.2}") "", "."])
  | _ => (w, ["bad-op", "."])

def main : IO Unit := runDriver ({} : W) dstep
