def main : IO Unit := IO.println "driver C19: not built yet"
