def main : IO Unit := IO.println "driver C01: not built yet"
