import VncModel.Basic.Proto
import VncModel.Enc.Spec
import VncModel.Enc.Server
import VncModel.Enc.Tight
import VncModel.Enc.TightSearch
/-! Line-protocol driver for C01 (encoders).  The script is produced by vlib/props/c01.py from the
observations of harness/c01.c (two-stage pipeline: real server -> python undoes zlib/LZO with its
own persistent streams -> this driver).

ops:
  fmt bpp depth be tc rmax gmax bmax rs gs bs      pixel format the client asked for
  cpix rfc|defacto                                 CPIXEL rule used by `dec` for ZRLE (default: RFC)
  dec ENC W H PAYLOADHEX [STILLHEX]                spec-decode one rectangle payload (compressed
                                                   chunks already inflated, `inflate := id`);
                                                   STILLHEX = pixels of a JPEG/PNG image decoded by
                                                   the trusted codec, in client format
        -> "px REST HEX" (REST = number of unconsumed bytes) | "err"
  model ENC W H SNAPHEX [args]                     faithful model of the server encoder applied to
                                                   the snapshot -> "bytes HEX" | "raw" (fallback)
  split corre MW MH x y w h [x y w h ...]          rfbSendRectEncodingCoRRE's splitting of the given
                                                   rectangles -> "rects x,y,w,h ..."
  split zlib x y w h [x y w h ...]                 row splitting of zlib.c / ultra.c
  tightplan LAST SB x y w h RAWHEX                 SendRectEncodingTight's pieces for one region rectangle
                                                   (LAST = LastRect enabled; RAWHEX = server-format pixels)
        -> "pieces s:x,y,w,h f:x,y,w,h ..."  (s = SendSubrect, f = solid fill)
-/
open VncModel VncModel.Proto VncModel.Enc VncModel.Enc.Spec

structure DState where
  fmt : PixFmt := ⟨32, 24, false, true, 255, 255, 255, 16, 8, 0⟩
  deFacto : Bool := false

def pixelsOfHex (bpp : Nat) (s : String) : Option (List Pixel) :=
  match unhex? s with
  | none => none
  | some bs =>
    match readPixels bpp (bs.length / bpp) bs with
    | some (px, []) => some px
    | _ => none

def hexOfPixels (bpp : Nat) (px : List Pixel) : String :=
  hex (px.flatMap (pixBytes bpp))

def natList? (l : List String) : Option (List Nat) := l.mapM (·.toNat?)

def dstep (s : DState) (toks : List String) : DState × List String :=
  match toks with
  | "fmt" :: rest =>
    match natList? rest with
    | some [bpp, depth, be, tc, rm, gm, bm, rs, gs, bs] =>
      ({ s with fmt := ⟨bpp, depth, be != 0, tc != 0, rm, gm, bm, rs, gs, bs⟩ }, ["ok"])
    | _ => (s, ["bad-op"])
  | ["cpix", mode] => ({ s with deFacto := mode == "defacto" }, ["ok"])
  | "dec" :: enc :: w :: h :: payload :: more =>
    match enc.toNat?, w.toNat?, h.toNat?, unhex? payload with
    | some enc, some w, some h, some bs =>
      let still : Option (List Pixel) := match more with
        | [st] => pixelsOfHex s.fmt.bytespp st
        | _ => none
      let cd : Codecs := { still := { jpeg := fun _ _ => still, png := fun _ _ => still,
                                      allowNoZlib := true }, cpixDeFacto := s.deFacto }
      match decodeRect cd s.fmt enc ⟨w, h⟩ bs with
      | some (px, rest) => (s, [s!"px {rest.length} {hexOfPixels s.fmt.bytespp px}"])
      | none => (s, ["err"])
    | _, _, _, _ => (s, ["bad-op"])
  | "model" :: enc :: w :: h :: snap :: args =>
    match enc.toNat?, w.toNat?, h.toNat?, pixelsOfHex s.fmt.bytespp snap, natList? args with
    | some enc, some w, some h, some px, some args =>
      if enc = encTight then
        -- args: [1 if the client's compression level is 0 else 0]
        (s, [s!"bytes {hex (Server.tightSubrect s.fmt (args.headD 0 == 1) w h px).inflated}"])
      else
      match Server.modelRect s.fmt enc ⟨w, h⟩ px args with
      | some (some bs) => (s, [s!"bytes {hex bs}"])
      | some none => (s, ["raw"])
      | none => (s, ["no-model"])
    | _, _, _, _, _ => (s, ["bad-op"])
  | "split" :: "corre" :: mw :: mh :: rest =>
    match mw.toNat?, mh.toNat?, natList? rest with
    | some mw, some mh, some l =>
      let rec go : List Nat → List TileRect
        | x :: y :: w :: h :: more => Server.correSplit mw mh (w + h + 2) x y w h ++ go more
        | _ => []
      let rs := go l
      (s, ["rects " ++ " ".intercalate (rs.map fun r => s!"{r.x},{r.y},{r.w},{r.h}")])
    | _, _, _ => (s, ["bad-op"])
  | ["tightplan", last, sb, x, y, w, h, rawhex] =>
    match last.toNat?, sb.toNat?, x.toNat?, y.toNat?, w.toNat?, h.toNat?, unhex? rawhex with
    | some last, some sb, some x, some y, some w, some h, some bs =>
      match readPixels sb (w * h) bs with
      | some (px, _) =>
        let arr := px.toArray
        let raw : Nat → Nat → Pixel := fun ax ay => arr.getD ((ay - y) * w + (ax - x)) 0
        let ps := if last = 1 then Server.tightRect raw 400 x y w h else (Server.simpleSplit x y w h).map .sub
        (s, ["pieces " ++ " ".intercalate (ps.map fun p => match p with
          | .sub r => s!"s:{r.x},{r.y},{r.w},{r.h}"
          | .fill r => s!"f:{r.x},{r.y},{r.w},{r.h}")])
      | none => (s, ["bad-op"])
    | _, _, _, _, _, _, _ => (s, ["bad-op"])
  | "split" :: "zlib" :: rest =>
    match natList? rest with
    | some l =>
      let rec goz : List Nat → List TileRect
        | x :: y :: w :: h :: more =>
          (if w = 0 then [] else Server.zlibSplit x w (Server.zlibMaxSize w / w) (h + 1) y h) ++ goz more
        | _ => []
      (s, ["rects " ++ " ".intercalate ((goz l).map fun r => s!"{r.x},{r.y},{r.w},{r.h}")])
    | none => (s, ["bad-op"])
  | _ => (s, ["bad-op"])

def main : IO Unit := runDriver ({} : DState) dstep
