def main : IO Unit := IO.println "driver C15: not built yet"
