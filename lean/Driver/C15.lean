import VncModel.Basic.Proto
import VncModel.Cursor.Session
/-! Line-protocol driver for the cursor model (C15). Same script as harness/c15.c.
Arguments: `orig-clip` / `orig-colour` / `orig-setenc` select the model of the unrepaired code (see Model.lean). -/
open VncModel VncModel.Cursor VncModel.Proto

structure DState where
  sess : Option Sess := none
  used : List (Nat × ClientKind) := []     -- ids ever connected, ascending
  fullreq : List Nat := []                  -- clients with a pending full-screen request
  oob : Bool := false                       -- the model hit an out-of-bounds access

def fnvBytes (h : UInt64) (bs : List UInt8) : UInt64 :=
  bs.foldl (fun h b => (h ^^^ b.toUInt64) * 1099511628211) h

def fnvInit : UInt64 := 1469598103934665603

def hashPx (bpp : Nat) (a : Array Px) : UInt64 :=
  a.foldl (fun h p => fnvBytes h (pxBytes bpp p)) fnvInit

def hashRgn (r : Rgn) : UInt64 :=
  r.bits.foldl (fun h b => (h ^^^ (if b then 1 else 0)) * 1099511628211) fnvInit

def hex16 (h : UInt64) : String :=
  String.ofList ((List.range 16).map fun k => hexChar ((h >>> (UInt64.ofNat (60 - 4 * k))).toNat % 16))

def pixval (bpp x y seed : Nat) : Px :=
  let x32 := UInt32.ofNat x
  let y32 := UInt32.ofNat y
  let s32 := UInt32.ofNat seed
  let v := (x32 * 73 + y32 * 151 + s32 * 199 + x32 * y32 * 7) * 2654435761
  let v := v ^^^ (v >>> 15)
  v.toNat % 2 ^ (8 * bpp)

def fmtOf (bpp : Nat) : Format :=
  if bpp = 1 then ⟨7, 7, 3, 0, 3, 6⟩
  else if bpp = 2 then ⟨31, 31, 31, 0, 5, 10⟩
  else ⟨255, 255, 255, 0, 8, 16⟩

/-- the client pixel formats the scripts can name: (bytes per pixel, format); the harness sends the
same numbers in a SetPixelFormat message (little-endian, true colour) -/
def namedFmt (n : String) : Option (Nat × Format) :=
  if n = "f8" then some (1, ⟨7, 7, 3, 0, 3, 6⟩)
  else if n = "f8b" then some (1, ⟨7, 7, 3, 5, 2, 0⟩)
  else if n = "f16" then some (2, ⟨31, 31, 31, 0, 5, 10⟩)
  else if n = "f16b" then some (2, ⟨31, 63, 31, 11, 5, 0⟩)
  else if n = "f32" then some (4, ⟨255, 255, 255, 0, 8, 16⟩)
  else if n = "f32b" then some (4, ⟨255, 255, 255, 16, 8, 0⟩)
  else if n = "f24" then some (3, ⟨255, 255, 255, 0, 8, 16⟩)
  else none

/-- `raw` / `x` / `rich` (the standard lists) or an explicit list `enc:raw,pos,rich,x,copyrect` in
the order it is sent -/
def parseEncs (tok : String) : Option (List Enc) :=
  if tok = "raw" then some ClientKind.raw.encs
  else if tok = "x" then some ClientKind.x.encs
  else if tok = "rich" then some ClientKind.rich.encs
  else if tok.startsWith "enc:" then
    ((tok.drop 4).toString.splitOn ",").mapM fun n =>
      if n = "raw" then some Enc.raw else if n = "copyrect" then some .copyRect
      else if n = "x" then some .xCursor else if n = "rich" then some .richCursor
      else if n = "pos" then some .pointerPos else none
  else none

def insertSorted (x : Nat × ClientKind) : List (Nat × ClientKind) → List (Nat × ClientKind)
  | [] => [x]
  | y :: ys => if x.1 ≤ y.1 then x :: y :: ys else y :: insertSorted x ys

def bytesToPx (bpp : Nat) (bs : List UInt8) : Array Px :=
  let rec go (bs : List UInt8) (fuel : Nat) (acc : Array Px) : Array Px :=
    match fuel with
    | 0 => acc
    | fuel + 1 =>
      if bs.isEmpty then acc
      else
        let chunk := bs.take bpp
        let p := (chunk.zipIdx).foldl (fun a (b, k) => a + b.toNat * 2 ^ (8 * k)) 0
        go (bs.drop bpp) fuel (acc.push p)
  go bs (bs.length + 1) #[]

def nat? (s : String) : Option Nat := s.toNat?

def parseCursor (bpp : Nat) (toks : List String) : Option (Option Cursor) :=
  match toks with
  | ["cursor", "none"] => some none
  | "cursor" :: kind :: w :: h :: xh :: yh :: rest =>
    match nat? w, nat? h, nat? xh, nat? yh with
    | some w, some h, some xh, some yh =>
      let rb := rowBytes w
      if w > 1200 || h > 1200 || rb * h > 66000 || ((kind == "rich" || kind == "alpha") && w * h * bpp > 66000) || ((w == 0 || h == 0) && kind != "x") then none else
      let cols (l : List String) : Option (List Nat) := l.mapM nat?
      match kind, rest with
      | "x", src :: mask :: colours =>
        match unhex? src, unhex? mask, cols colours with
        | some src, some mask, some [fr, fg, fb, br, bg, bb] =>
          if src.length != rb * h || mask.length != rb * h then none else
          some (some { w := w, h := h, xhot := xh, yhot := yh, mask := mask.toArray, source := some src.toArray,
                       rich := none, alpha := none, premult := false,
                       foreR := fr, foreG := fg, foreB := fb, backR := br, backG := bg, backB := bb })
        | _, _, _ => none
      | "xs", [src, mask] =>
        match unhex? src, unhex? mask with
        | some src, some mask =>
          if src.length != rb * h || mask.length != rb * h then none else
          (makeXCursor w h src.toArray (some mask.toArray)).map fun c => some { c with xhot := xh, yhot := yh }
        | _, _ => none
      | "xm", [src] =>
        match unhex? src with
        | some src =>
          if src.length != rb * h then none else
          (makeXCursor w h src.toArray none).map fun c => some { c with xhot := xh, yhot := yh }
        | _ => none
      | "rich", pix :: mask :: colours =>
        match unhex? pix, unhex? mask, cols colours with
        | some pix, some mask, some [fr, fg, fb, br, bg, bb] =>
          if pix.length != w * h * bpp || mask.length != rb * h then none else
          some (some { w := w, h := h, xhot := xh, yhot := yh, mask := mask.toArray, source := none,
                       rich := some (bytesToPx bpp pix), alpha := none, premult := false,
                       foreR := fr, foreG := fg, foreB := fb, backR := br, backG := bg, backB := bb })
        | _, _, _ => none
      | "alpha", [pix, al, pm] =>
        match unhex? pix, unhex? al, nat? pm with
        | some pix, some al, some pm =>
          if pix.length != w * h * bpp || al.length != w * h then none else
          (makeMaskFromAlpha w h al.toArray).map fun m =>
            some { w := w, h := h, xhot := xh, yhot := yh, mask := m, source := none,
                   rich := some (bytesToPx bpp pix), alpha := some al.toArray, premult := pm != 0,
                   foreR := 0, foreG := 0, foreB := 0, backR := 0, backG := 0, backB := 0 }
        | _, _, _ => none
      | _, _ => none
    | _, _, _, _ => none
  | _ => none

def be16At (bs : List UInt8) (k : Nat) : Nat := (bs.getD k 0).toNat * 256 + (bs.getD (k + 1) 0).toNat

def fmtShape (m : List UInt8) : String :=
  let enc := (m.getD 11 0).toNat
  let tag := if enc == 0x10 then "X" else "R"
  let payload := m.drop 12
  s!"{tag}:{be16At m 0},{be16At m 2},{be16At m 4},{be16At m 6}:{hex payload}"

def obsLine (bpp : Nat) (o : UpdObs) : String :=
  let head := s!"c{o.id} n=1 res={if o.res then 1 else 0} before={hex16 (hashPx bpp o.before)} painted={hex16 (hashPx bpp o.painted)} after={hex16 (hashPx bpp o.after)} cur={o.curX},{o.curY} ucl={o.ucl}"
  if !o.res then head ++ " closed" else
  let sh := match o.shape with | some m => fmtShape m | none => "-"
  let ps := match o.pos with | some m => s!"{be16At m 0},{be16At m 2}" | none => "-"
  head ++ s!" shape={sh} pos={ps} cov={hex16 (hashRgn o.upd)} pic={hex16 (hashPx o.cbpp o.pic)} ccov={hex16 (hashRgn o.copyRgn)}"

def alive (s : Sess) (id : Nat) : Bool := s.clients.any (fun c => c.id == id)

def dstep (v : Variant) (st : DState) (toks : List String) : DState × List String :=
  if st.oob then (st, ["model-oob"]) else
  match st.sess, toks with
  | none, ["screen", w, h, bpp] =>
    match nat? w, nat? h, nat? bpp with
    | some w, some h, some bpp =>
      if w < 1 || h < 1 || w > 200 || h > 200 || (bpp != 1 && bpp != 2 && bpp != 3 && bpp != 4) then (st, ["bad-op"]) else
      let fb := Array.ofFn (n := w * h) fun k => pixval bpp (k.val % w) (k.val / w) 0
      let scr : Screen := { w := w, h := h, bpp := bpp, fmt := fmtOf bpp, fb := fb, under := #[], cursor := some defaultCursor, curX := 0, curY := 0 }
      ({ st with sess := some { scr := scr, clients := [], pointerClient := none, failArmed := none } }, ["ok"])
    | _, _, _ => (st, ["bad-op"])
  | none, _ => (st, ["bad-op"])
  | some s, "cursor" :: _ =>
    match parseCursor s.scr.bpp toks with
    | some c => ({ st with sess := some (setCursor s c) }, ["ok"])
    | none => (st, ["bad-op"])
  | some s, ["draw", x, y, w, h, seed] =>
    match nat? x, nat? y, nat? w, nat? h, nat? seed with
    | some x, some y, some w, some h, some seed =>
      if w < 1 || h < 1 || x + w > s.scr.w || y + h > s.scr.h then (st, ["bad-op"]) else
      match draw s ⟨x, y, x + w, y + h⟩ (fun px py => pixval s.scr.bpp px py seed) with
      | some s' => ({ st with sess := some s' }, ["ok"])
      | none => ({ st with oob := true }, ["model-oob"])
    | _, _, _, _, _ => (st, ["bad-op"])
  | some s, "client" :: id :: kind :: rest =>
    let tf : Option (Option (Format × Nat)) :=
      match rest with
      | [] => some none
      | [n] =>
        match namedFmt n with
        | some (b, f) => if b == s.scr.bpp && f == s.scr.fmt then some none else some (some (f, b))   -- PF_EQ: rfbTranslateNone
        | none => none
      | _ => none
    match nat? id, parseEncs kind, tf with
    | some id, some l, some tf =>
      if id ≥ 4 || st.used.any (fun u => u.1 == id) then (st, ["bad-op"]) else
      ({ st with sess := some (newClient v s id l tf), used := insertSorted (id, .raw) st.used }, ["ok"])
    | _, _, _ => (st, ["bad-op"])
  | some s, ["copy", x1, y1, x2, y2, dx, dy] =>
    match nat? x1, nat? y1, nat? x2, nat? y2, parseInt? dx, parseInt? dy with
    | some x1, some y1, some x2, some y2, some dx, some dy =>
      -- destination and source rectangle inside the screen
      if x1 ≥ x2 || y1 ≥ y2 || x2 > s.scr.w || y2 > s.scr.h || (x1 : Int) - dx < 0 || (y1 : Int) - dy < 0 ||
         (x2 : Int) - dx > s.scr.w || (y2 : Int) - dy > s.scr.h then (st, ["bad-op"]) else
      match doCopy s ⟨x1, y1, x2, y2⟩ dx dy with
      | some s' => ({ st with sess := some s' }, ["ok"])
      | none => ({ st with oob := true }, ["model-oob"])
    | _, _, _, _, _, _ => (st, ["bad-op"])
  | some s, ["setenc", id, kind] =>
    match nat? id, parseEncs kind with
    | some id, some l =>
      if !alive s id then (st, ["bad-op"]) else
      ({ st with sess := some (setEncodings v s id l) }, ["ok"])
    | _, _ => (st, ["bad-op"])
  | some s, ["ptr", id, x, y, m] =>
    match nat? id, nat? x, nat? y, nat? m with
    | some id, some x, some y, some m =>
      if !alive s id || x > 65535 || y > 65535 then (st, ["bad-op"]) else
      let s' := ptrEvent s id x y (m % 256)
      let pc := match s'.pointerClient with | some p => toString p | none => "-"
      let mv := st.used.filterMap fun (i, _) =>
        (s'.clients.find? (fun c => c.id == i)).map fun c => s!"{i}:{if c.wasMoved then 1 else 0}"
      ({ st with sess := some s' }, [s!"pos={s'.scr.curX},{s'.scr.curY} pc={pc} moved={",".intercalate mv}"])
    | _, _, _, _ => (st, ["bad-op"])
  | some s, ["req", id, inc, x, y, w, h] =>
    match nat? id, nat? inc, nat? x, nat? y, nat? w, nat? h with
    | some id, some inc, some x, some y, some w, some h =>
      if !alive s id || w < 1 || h < 1 || x + w > s.scr.w || y + h > s.scr.h then (st, ["bad-op"]) else
      let full := x == 0 && y == 0 && w == s.scr.w && h == s.scr.h
      ({ st with sess := some (request s id (inc != 0) ⟨x, y, x + w, y + h⟩),
                 fullreq := if full && !st.fullreq.contains id then id :: st.fullreq else st.fullreq }, ["ok"])
    | _, _, _, _, _, _ => (st, ["bad-op"])
  | some s, ["failnext", id, k] =>
    match nat? id, nat? k with
    | some id, some k =>
      if !alive s id then (st, ["bad-op"]) else
      ({ st with sess := some { s with failArmed := if k = 0 then some id else none } }, ["ok"])
    | _, _ => (st, ["bad-op"])
  | some s, ["pump"] =>
    match pump v s with
    | none => ({ st with oob := true }, ["model-oob"])
    | some (s', obs) =>
      let lines := st.used.flatMap fun (i, _) =>
        match obs.find? (fun o => o.id == i) with
        | some o =>
          [obsLine s.scr.bpp o] ++ (if o.res && st.fullreq.contains i then [s!"oracle c{i} ok"] else [])
            ++ (if o.res then [s!"inv c{i} ok"] else [])
        | none =>
          if alive s' i then [s!"c{i} n=0"] ++ (if st.fullreq.contains i then [s!"oracle c{i} ok"] else []) ++ [s!"inv c{i} ok"]
          else [s!"c{i} dead"]
      let fr := st.fullreq.filter fun i => !(obs.any (fun o => o.id == i))
      ({ st with sess := some s', fullreq := fr }, lines)
  | _, _ => (st, ["bad-op"])

def main (args : List String) : IO Unit :=
  let v : Variant := ⟨!args.contains "orig-clip", !args.contains "orig-colour", !args.contains "orig-setenc"⟩
  runDriver ({} : DState) (dstep v)
