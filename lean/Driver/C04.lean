import VncModel.Basic.Proto
import VncModel.Robust.Stream
/-! Line-protocol driver for the C04 model (same script as harness/c04.c). -/
open VncModel VncModel.Robust VncModel.Proto VncModel.Gen.C04

structure CRec where
  st : Status
  stopread : Bool := false
  everReq : Bool := false
  fault : String := ""        -- injected once during the next send/auth

structure DState where
  cfg : Cfg := ⟨64, 48, 4, false, false, false, false, false, false, 20000, false⟩
  started : Bool := false
  conns : AList CRec := []

def findConn (s : DState) (id : Nat) : Option CRec := s.conns.get id
def setConn (s : DState) (id : Nat) (r : CRec) : DState := { s with conns := s.conns.set id r }

def aclass (n : Nat) : String :=
  if n ≤ 65536 then "s" else if n ≤ 1048576 + 65536 then "m" else if n ≤ 2147483648 + 65536 then "l" else "x"

def phaseNum : Phase → Nat
  | .version => 0 | .secType => 1 | .auth => 2 | .init => 3 | .normal => 4

def showR (id : Nat) (st : Status) (t : Tot) : String :=
  match st with
  | .unknown => s!"r {id} ?"
  | _ =>
    let s := match st with
      | .isOpen c => s!"open:{phaseNum c.phase}"
      | _ => "closed:-1"
    let a := if aclass t.amax == aclass t.amaxAlt then aclass t.amax else s!"{aclass t.amax}|{aclass t.amaxAlt}"
    s!"r {id} {s} n={t.n} rw={t.rw} ww={t.ww} vt={t.vt} cb={t.cb} a={a}"

def parseKV (s : DState) (tok : String) : Option DState :=
  match tok.splitOn "=" with
  | [k, v] =>
    match v.toNat? with
    | none => none
    | some n =>
      let c := s.cfg
      if k = "w" then some { s with cfg := { c with w := n } }
      else if k = "h" then some { s with cfg := { c with h := n } }
      else if k = "bpp" then some { s with cfg := { c with bytespp := n } }
      else if k = "pw" then some { s with cfg := { c with pw := n != 0 } }
      else if k = "ft" then some { s with cfg := { c with ft := n != 0 } }
      else if k = "tight" then some { s with cfg := { c with tight := n != 0 } }
      else if k = "xvp" then some { s with cfg := { c with xvp := n != 0 } }
      else if k = "utf8" then some { s with cfg := { c with utf8 := n != 0 } }
      else if k = "view" then some { s with cfg := { c with view := n != 0 } }
      else if k = "wait" then some { s with cfg := { c with wait := n } }
      else if k = "sdh" then some { s with cfg := { c with sdh := n != 0 } }
      else if k = "wenc" ∨ k = "http" then some s
      else none
  | _ => none

def isRfbPrefix : List UInt8 → Bool
  | 82 :: 70 :: 66 :: 32 :: _ => true
  | _ => false
def isGetPrefix : List UInt8 → Bool
  | 71 :: 69 :: 84 :: 32 :: _ => true
  | _ => false

/-- after the message rounds: the update a stop-reading peer asked for cannot be written -/
def afterRounds (cfg : Cfg) (rec : CRec) (st : Status) (t : Tot) : Status × Tot :=
  match st with
  | .isOpen c =>
    if rec.stopread then
      if t.updWrite && !c.scaled then (.closed, writeBlocked cfg t)
      else if t.updReq || rec.everReq then (.unknown, t)
      else (st, t)
    else (st, t)
  | _ => (st, t)

def doConn (s : DState) (id pre : String) : DState × List String :=
    if !s.started then (s, ["bad-op"]) else
    match id.toNat?, unhex? pre with
    | some id, some pre =>
      if id == 0 || decide (id ≥ 16) then (s, ["bad-op"]) else
      let base : Tot := { amax := sizeofClientRec, amaxAlt := sizeofClientRec }
      let (st, t) : Status × Tot :=
        if pre.isEmpty then
          (.isOpen {}, { base with rw := 1, vt := wsConnectWaitMs })
        else if pre.length < 4 then (.unknown, base)
        else if isRfbPrefix pre then run s.cfg {} (pre.length + 1) {} pre base
        else if isGetPrefix pre then (.unknown, base)
        else match pre with
          | _ :: _ => (.closed, base)     -- not RFB, not GET (a TLS hello is refused too: no certificate)
          | [] => (.closed, base)
      (setConn s id { st := st }, [showR id st t])
    | _, _ => (s, ["bad-op"])

def trickleOf (opts : List String) : Option Nat :=
  opts.findSome? (fun o => if o.startsWith "trickle=" then (o.drop 8).toString.toNat? else none)

def dstep (s : DState) (toks : List String) : DState × List String :=
  match toks with
  | "cfg" :: kvs =>
    if s.started then (s, ["bad-op"]) else
    match kvs.foldl (fun (acc : Option DState) tok => acc.bind (fun st => parseKV st tok)) (some s) with
    | some s' => (s', ["ok"])
    | none => (s, ["bad-op"])
  | ["start"] => if s.started then (s, ["bad-op"]) else ({ s with started := true }, ["ok"])
  | ["lconn", id, pre, "eof"] =>
    -- the peer connects through the listening socket and hangs up before the server has written its
    -- version string: accept succeeds, rfbNewClient fails (peek returns 0 / write fails)
    if !s.started then (s, ["bad-op"]) else
    match id.toNat?, unhex? pre with
    | some id, some pre =>
      if id == 0 || decide (id ≥ 16) then (s, ["bad-op"]) else
      let base : Tot := { amax := sizeofClientRec, amaxAlt := sizeofClientRec }
      let st : Status := if isGetPrefix pre ∨ (0 < pre.length ∧ pre.length < 4) then .unknown else .closed
      (setConn s id { st := st }, [showR id st base])
    | _, _ => (s, ["bad-op"])
  | ["conn", id, pre] => doConn s id pre
  | ["lconn", id, pre] => doConn s id pre
  | "send" :: id :: hexs :: opts =>
    if !s.started then (s, ["bad-op"]) else
    match id.toNat?, unhex? hexs with
    | some id, some bytes =>
      match findConn s id with
      | none => (s, ["bad-op"])
      | some rec =>
        if id = 0 then (s, ["bad-op"]) else
        match rec.st with
        | .unknown => (s, [showR id .unknown {}])
        | .closed => (s, [showR id .closed {}])
        | .isOpen c =>
          let eof := opts.contains "eof"
          let rec' := { rec with fault := "" }
          if rec.fault = "rd_reset" ∧ !bytes.isEmpty then
            -- the first read of the round fails with ECONNRESET: closed, nothing parsed
            (setConn s id { rec' with st := .closed }, [showR id .closed { n := 1 }])
          else
          let (st0, t0) := runSend s.cfg { eof := eof, stopread := rec.stopread, selErr := rec.fault = "sel_err", wselErr := rec.fault = "wsel_err" } c bytes
          let (st, t) := afterRounds s.cfg rec st0 t0
          match trickleOf opts with
          | some d =>
            -- one byte per segment: every byte but the first of each round costs one select of `d` ms
            let guardClosed := match st with | .closed => t.rw == 0 | .isOpen _ => false | .unknown => true
            if guardClosed || d ≥ clientWait s.cfg then
              (setConn s id { rec' with st := st, everReq := rec.everReq || t.updReq }, [s!"r {id} ?"])
            else
              let t' := { t with vt := t.vt + d * (bytes.length - t.n) }
              (setConn s id { rec' with st := st, everReq := rec.everReq || t.updReq }, [showR id st t'])
          | none =>
          (setConn s id { rec' with st := st, everReq := rec.everReq || t.updReq }, [showR id st t])
    | _, _ => (s, ["bad-op"])
  | ["auth", id, kind] =>
    if !s.started then (s, ["bad-op"]) else
    match id.toNat? with
    | none => (s, ["bad-op"])
    | some id =>
      match findConn s id with
      | none => (s, ["bad-op"])
      | some rec =>
        if id = 0 then (s, ["bad-op"]) else
        match rec.st with
        | .unknown => (s, [showR id .unknown {}])
        | .closed => (s, [showR id .closed {}])
        | .isOpen c =>
          let k? : Option AuthKind := if kind = "ok" then some .ok else if kind = "bad" then some .bad
            else if kind = "short" then some .short else none
          match k? with
          | none => (s, ["bad-op"])
          | some k =>
            if c.phase != .auth ∨ rec.stopread then (setConn s id { rec with st := .unknown }, [showR id .unknown {}]) else
            let r := handleAuth c k
            let t : Tot := { n := 1 }
            let (st, t) : Status × Tot := match r.out with
              | .cont => (.isOpen r.conn, t)
              | .starved => (.closed, readBlocked s.cfg t)
              | _ => (.closed, t)
            (setConn s id { rec with st := st }, [showR id st t])
  | ["reset", id] =>
    if !s.started then (s, ["bad-op"]) else
    match id.toNat? with
    | none => (s, ["bad-op"])
    | some id =>
      match findConn s id with
      | none => (s, ["bad-op"])
      | some rec =>
        if id = 0 then (s, ["bad-op"]) else
        match rec.st with
        | .unknown => (s, [showR id .unknown {}])
        | .closed => (s, [showR id .closed {}])
        | .isOpen _ => (setConn s id { rec with st := .closed }, [showR id .closed { n := 1 }])
  | ["fault", id, kind] =>
    if !s.started then (s, ["bad-op"]) else
    match id.toNat? with
    | none => (s, ["bad-op"])
    | some id =>
      match findConn s id with
      | none => (s, ["bad-op"])
      | some rec =>
        if id = 0 ∨ ¬ (["rd_eintr", "rd_reset", "sel_err", "wr_eintr", "wr_zero", "wsel_err", "wsel_eintr"].contains kind) then (s, ["bad-op"]) else
        (setConn s id { rec with fault := kind }, ["ok"])
  | ["lflood", n] =>
    if !s.started then (s, ["bad-op"]) else
    match n.toNat? with
    | some k => if k ≥ 1 ∧ k ≤ 64 then (s, ["ok"]) else (s, ["bad-op"])
    | none => (s, ["bad-op"])
  | "http" :: req :: _ =>
    if !s.started then (s, ["bad-op"]) else
    match unhex? req with
    | some _ => (s, ["ok"])
    | none => (s, ["bad-op"])
  | ["stopread", id] =>
    if !s.started then (s, ["bad-op"]) else
    match id.toNat? with
    | none => (s, ["bad-op"])
    | some id =>
      match findConn s id with
      | none => (s, ["bad-op"])
      | some rec =>
        if id = 0 then (s, ["bad-op"]) else
        let st := match rec.st with
          | .isOpen c => if rec.everReq then Status.unknown else .isOpen c
          | o => o
        (setConn s id { rec with st := st, stopread := true }, ["ok"])
  | ["tick", seed] =>
    if !s.started then (s, ["bad-op"]) else
    match seed.toNat? with
    | some _ => (s, ["ok"])
    | none => (s, ["bad-op"])
  | "app" :: what :: args =>
    if !s.started then (s, ["bad-op"]) else
    let good := (what = "copyrects" ∧ args.length = 1) ∨ (what = "cuttext" ∧ args.length = 1) ∨ (what = "cututf8" ∧ args.length = 1) ∨ (what = "cursor" ∧ args.length = 2) ∨
      (what = "bell" ∧ args.length = 0) ∨ (what = "copy" ∧ args.length = 6)
    if !good then (s, ["bad-op"]) else
    -- a server-initiated write blocks on a stop-reading peer: its fate is not modelled
    let conns := s.conns.map (fun (p : Nat × CRec) =>
      match p.2.st with
      | .isOpen _ => if p.2.stopread then (p.1, { p.2 with st := .unknown }) else p
      | _ => p)
    ({ s with conns := conns }, ["ok"])
  | ["end"] =>
    if !s.started then (s, ["bad-op"]) else
    let unk := s.conns.any (fun p => match p.2.st with | .unknown => true | _ => false)
    let opn := (s.conns.filter (fun p => match p.2.st with | .isOpen _ => true | _ => false)).length
    (s, [if unk then "end ?" else s!"end {opn + 1}"])
  | _ => (s, ["bad-op"])

def main : IO Unit := runDriver ({} : DState) dstep
