def main : IO Unit := IO.println "driver C04: not built yet"
