import VncModel.Basic.Proto
import VncModel.Threads.Model
/-! Trace-inclusion driver for the threads model (C13).

stdin: the event trace of one run of harness/c13.c restricted to the library threads, one event per
line (`A lock L`, `I0 unlock U0`, `O1 wait u1`, `A create I0`, `A call bell 0`, `I0 gone 0`, ...),
terminated by `end`.  The trace is replayed through `succ` as a non-deterministic automaton: the
set of model states compatible with the prefix read so far is maintained; an event of thread t is
matched after any number of silent (`tau`) steps of t, and followed by any number of them (under the
deterministic scheduler only the running thread executes code between two of its events).
stdout: `accept <events> states=<k> flags=<...>` or `reject <line number> <event> | <why>`. -/
open VncModel VncModel.Threads VncModel.Proto

/-- extensional equality of model states (clients below `n` only; the others are never written) -/
def stateEq (a b : State) : Bool :=
  a.n == b.n && a.ownL == b.ownL && a.ownC == b.ownC && a.apc == b.apc && a.lpc == b.lpc &&
  a.aapi == b.aapi && a.alk == b.alk && a.lisDown == b.lisDown && a.ljoined == b.ljoined &&
  a.uaf == b.uaf && a.dfree == b.dfree && a.badUnlock == b.badUnlock && a.badJoin == b.badJoin &&
  a.conflict == b.conflict && a.badRef == b.badRef && a.badCreate == b.badCreate && a.ga == b.ga && a.gl == b.gl && (List.range a.n).all fun c => decide (a.cl c = b.cl c)

def parseTid (x : String) : Option Tid :=
  if x = "A" then some .app else if x = "L" then some .lis
  else if x.startsWith "I" then (x.drop 1).toString.toNat?.map .inp
  else if x.startsWith "O" then (x.drop 1).toString.toNat?.map .out
  else none

def parseMtx (x : String) : Option (MCls × Nat) :=
  if x = "L" then some (.L, 0) else if x = "C" then some (.C, 0)
  else
    let k := (x.drop 1).toString.toNat?
    match x.take 1 |>.toString, k with
    | "U", some c => some (.U, c) | "S", some c => some (.S, c)
    | "O", some c => some (.O, c) | "R", some c => some (.R, c)
    | _, _ => none

def parseCond (x : String) : Option (CCls × Nat) :=
  match x.take 1 |>.toString, (x.drop 1).toString.toNat? with
  | "u", some c => some (.u, c) | "d", some c => some (.d, c)
  | _, _ => none

def parseApi (x : String) : Option Api :=
  match x with
  | "runloop" => some .runloop | "newclient" => some .newclient | "mark" => some .mark
  | "copy" => some .copy | "bell" => some .bell | "cut" => some .cut | "cututf8" => some .cututf8
  | "iter" => some .iter | "newfb" => some .newfb | "shutdown" => some .shutdown
  | "cleanup" => some .cleanup | _ => none

def parseEvent (toks : List String) : Option (Tid × Lbl) :=
  match toks with
  | t :: op :: rest =>
    match parseTid t with
    | none => none
    | some tid =>
      let l : Option Lbl :=
        match op, rest with
        | "lock", [m] => (parseMtx m).map fun (a, c) => .lock a c
        | "unlock", [m] => (parseMtx m).map fun (a, c) => .unlock a c
        | "wait", [v] => (parseCond v).map fun (a, c) => .wait a c
        | "wake", [v] => (parseCond v).map fun (a, c) => .wake a c
        | "signal", [v] => (parseCond v).map fun (a, c) => .signal a c
        | "create", [x] => (parseTid x).map .create
        | "join", [x] => (parseTid x).map .join
        | "exit", [] => some .exit
        | "call", a :: _ => (parseApi a).map .call
        | "ret", a :: _ => (parseApi a).map .ret
        | "alloc", [c] => c.toNat?.map .alloc
        | "newcl", [c] => c.toNat?.map .newcl
        | "gone", [c] => c.toNat?.map .gone
        | "pipew", [c] => c.toNat?.map .pipew
        | "sock", [c] => c.toNat?.map .sock
        | "st", [c, v] =>
          match c.toNat?, v with
          | some c, "hs" => some (.st c .hs) | some c, "normal" => some (.st c .normal)
          | some c, "shutdown" => some (.st c .shutdown) | _, _ => none
        | _, _ => none
      l.map fun l => (tid, l)
  | _ => none

/-- the model keeps clients as a function that is updated point-wise: re-tabulate it so that a lookup
does not walk through the whole history of updates (same function on every index below `n`; the
indices from `n` on are never written before `alloc` moves `n`) -/
def normalize (s : State) : State :=
  let arr : Array Client := Array.ofFn (n := s.n + 1) (fun i => s.cl i.val)
  { s with cl := fun j => if h : j < arr.size then arr[j] else {} }

/-- add the states of `xs` not yet in `acc` -/
def addNew (acc : List State) (xs : List State) : List State × List State :=
  xs.foldl (fun (p : List State × List State) s =>
    if p.1.any (stateEq s) then p else (s :: p.1, s :: p.2)) (acc, [])

/-- closure under silent steps of thread t -/
partial def tauClose (t : Tid) (seen todo : List State) : List State :=
  match todo with
  | [] => seen
  | s :: rest =>
    let nexts := (succ s t).filterMap fun (l, s') => if l = .tau then some (normalize s') else none
    let (seen', fresh) := addNew seen nexts
    tauClose t seen' (fresh ++ rest)

def closeSet (t : Tid) (xs : List State) : List State :=
  let (uniq, _) := addNew [] xs
  tauClose t uniq uniq

def advance (xs : List State) (t : Tid) (l : Lbl) : List State :=
  let pre := closeSet t xs
  let hit := pre.flatMap fun s => (succ s t).filterMap fun (l', s') => if l' = l then some (normalize s') else none
  closeSet t hit

def flagsOf (s : State) : String :=
  (if s.uaf then "uaf," else "") ++ (if s.dfree then "dfree," else "") ++
  (if s.badUnlock then "badUnlock," else "") ++ (if s.badJoin then "badJoin," else "") ++
  (if s.conflict then "conflict," else "") ++ (if s.badRef then "badRef," else "") ++ (if s.badCreate then "badCreate," else "")

partial def loopC13 (h : IO.FS.Stream) (out : IO.FS.Stream) (xs : List State) (n : Nat) : IO Unit := do
  let line ← h.getLine
  let toks := tokens line
  if line.isEmpty || toks = ["end"] then
    -- a trace is explained if at least one compatible model state carries no error flag
    let clean := xs.filter fun s => flagsOf s = ""
    let fl := if clean.isEmpty then (match xs with | s :: _ => flagsOf s | [] => "none") else "none"
    out.putStrLn s!"accept {n} states={xs.length} flags={fl}"
    out.flush
    return ()
  match toks with
  | [] => loopC13 h out xs n
  | _ =>
    match parseEvent toks with
    | none =>
      out.putStrLn s!"reject {n + 1} {" ".intercalate toks} | unparsable event"
      out.flush
    | some (t, l) =>
      let ys := advance xs t l
      if ys.isEmpty then
        out.putStrLn s!"reject {n + 1} {" ".intercalate toks} | no model state allows it (states before: {xs.length})"
        out.flush
      else loopC13 h out ys (n + 1)

def main : IO Unit := do
  let stdin ← IO.getStdin
  let stdout ← IO.getStdout
  loopC13 stdin stdout [State.init] 0
