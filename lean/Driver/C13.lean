def main : IO Unit := IO.println "driver C13: not built yet"
