def main : IO Unit := IO.println "driver C03: not built yet"
