import VncModel.Basic.Proto
import VncModel.Wire.Session
/-!
Line-protocol driver for C03 (Wire).  Input: the op script of harness/c03.c interleaved with the
harness' observations (prefixed `@`):

    <op …>            the scripted op (client message, application action, configuration)
    @scr W H bpp <pf-hex16> <name-hex>     real screen parameters (the truth ServerInit must report)
    @hook id dx dy U n {x1 y1 x2 y2} C m {x1 y1 x2 y2}
    @tx id <hex>      bytes the server wrote to connection id during the op
    @st id closed
    @.                end of the op's observations

Output: `rx …` summaries of every parsed message and alarm lines
    !PARSE  …   the strict parser rejects the stream (oracle: not well-formed)
    !ORACLE …   rectangle outside announced size / unadvertised encoding or message / ServerInit not real
    !EXACT  …   the planning model predicted different rectangle headers (model drift)
-/
open VncModel VncModel.Wire VncModel.Proto VncModel.Gen.C03

structure DState where
  scr : Screen := {}
  conns : List Conn := []
  opNo : Nat := 0            -- index of the current op line (0-based, observation lines not counted)
  deriving Repr

def nat? (s : String) : Option Nat := s.toNat?

def natD (s : String) : Nat := s.toNat?.getD 0

def intD (s : String) : Int := (parseInt? s).getD 0

def getConn (s : DState) (id : Nat) : Option Conn := s.conns.find? (·.id == id)

def putConn (s : DState) (c : Conn) : DState :=
  { s with conns := s.conns.map fun d => if d.id == c.id then c else d }

def encName (e : Nat) : String :=
  if e = rfbEncodingRaw then "raw" else if e = rfbEncodingCopyRect then "copy"
  else if e = rfbEncodingRRE then "rre" else if e = rfbEncodingCoRRE then "corre"
  else if e = rfbEncodingHextile then "hextile" else if e = rfbEncodingZlib then "zlib"
  else if e = rfbEncodingTight then "tight" else if e = rfbEncodingTightPng then "tightpng"
  else if e = rfbEncodingUltra then "ultra" else if e = rfbEncodingZRLE then "zrle"
  else if e = rfbEncodingZYWRLE then "zywrle" else if e = rfbEncodingXCursor then "xcursor"
  else if e = rfbEncodingRichCursor then "richcursor" else if e = rfbEncodingPointerPos then "pointerpos"
  else if e = rfbEncodingLastRect then "lastrect" else if e = rfbEncodingNewFBSize then "newfbsize"
  else if e = rfbEncodingExtDesktopSize then "extdesktopsize"
  else if e = rfbEncodingKeyboardLedState then "led" else if e = rfbEncodingSupportedMessages then "supmsgs"
  else if e = rfbEncodingSupportedEncodings then "supencs" else if e = rfbEncodingServerIdentity then "identity"
  else toString e

def showRect (r : Rect) : String :=
  s!"{encName r.hdr.enc}@{r.hdr.x},{r.hdr.y},{r.hdr.w},{r.hdr.h}+{r.payload.length}"

def showMsg : ServerMsg → String
  | .fbu _ n rs =>
    let shown := (rs.take 40).map showRect
    s!"FBU n={n} rects={rs.length} [{" ".intercalate shown}{if rs.length > 40 then " …" else ""}]"
  | .colourMap _ f n _ => s!"COLOURMAP first={f} n={n}"
  | .bell => "BELL"
  | .cutText _ len d => s!"CUTTEXT len={len} data={d.length}"
  | .resizeFB _ w h => s!"RESIZEFB {w}x{h}"
  | .palmResize _ dw dh bw bh _ => s!"PALMRESIZE desktop={dw}x{dh} buffer={bw}x{bh}"
  | .xvp _ v c => s!"XVP ver={v} code={c}"
  | .textChat _ len d => s!"TEXTCHAT len={len} data={d.length}"

def showFault : MsgFault → String
  | .rect i (.unadvertised e) => s!"rect {i}: encoding {encName e} was never advertised by the client"
  | .rect i (.outside x y w h) => s!"rect {i}: {x},{y},{w},{h} outside the announced framebuffer"
  | .rect i (.copySrcOutside sx sy w h) => s!"rect {i}: CopyRect source {sx},{sy},{w},{h} outside the announced framebuffer"
  | .msgType t => s!"message type {t} (or its extended form) was never advertised by the client"

/-- canonical form of the 16 pixel-format bytes: booleans normalised, padding ignored -/
def canonPf (pf : Bytes) : Bytes :=
  (pf.take 13).zipIdx.map fun (b, i) => if i == 2 || i == 3 then (if b == 0 then 0 else 1) else b

/-- consume expected handshake items from the front of the connection's buffer -/
def consumeHs (s : Screen) (c : Conn) (fuel : Nat) : Conn × List String :=
  match fuel with
  | 0 => (c, [])
  | fuel + 1 =>
  match c.expectHs with
  | [] => (c, [])
  | .lit what bs :: rest =>
    if c.buf.length < bs.length then (c, [])
    else if c.buf.take bs.length = bs then
      let (c', out) := consumeHs s { c with buf := c.buf.drop bs.length, expectHs := rest } fuel
      (c', s!"rx {c.id} HS {what} {hex bs}" :: out)
    else
      ({ c with expectHs := [], phase := .closed, mute := true },
       [s!"!PARSE {c.id} handshake: expected {what} {hex bs}, got {hex (c.buf.take bs.length)}"])
  | .any what n :: rest =>
    if c.buf.length < n then (c, [])
    else
      let (c', out) := consumeHs s { c with buf := c.buf.drop n, expectHs := rest } fuel
      (c', s!"rx {c.id} HS {what} ({n} bytes)" :: out)
  | .serverInit :: rest =>
    -- structural parse first (lengths), then comparison with the real parameters
    match parseServerInit c.buf with
    | none => (c, [])       -- incomplete so far; complained about at the end of the op
    | some (si, r2) =>
      let want := realServerInit s
      let real := si.w = want.w ∧ si.h = want.h ∧ canonPf si.pf = canonPf want.pf ∧ si.name = want.name
      let c1 := { c with buf := r2, expectHs := rest, annW := si.w, annH := si.h }
      let (c', out) := consumeHs s c1 fuel
      let line := s!"rx {c.id} HS ServerInit {si.w}x{si.h} pf={hex si.pf} name={hex si.name}"
      if real then (c', line :: out)
      else (c', line :: s!"!ORACLE {c.id} ServerInit does not report the real screen: real {s.w}x{s.h} pf={hex s.pf} name={hex want.name}" :: out)

/-- handle the messages of the normal phase that sit in the connection's buffer -/
def consumeNormal (s : Screen) (view : Nat × Nat) (c : Conn) : Conn × List String := Id.run do
  if c.buf.isEmpty then return (c, [])
  let (ms, err) := match parseAll c.pctx c.buf with
    | .ok ms => (ms, none)
    | .error ms off => (ms, some off)
  let mut c := c
  let mut out : List String := []
  for m in ms do
    out := out ++ [s!"rx {c.id} {showMsg m}"]
    for f in msgFaults c.octx m do
      out := out ++ [s!"!ORACLE {c.id} {showFault f} (announced {c.annW}x{c.annH})"]
    match m with
    | .fbu _ n rs =>
      let sizeOnly : Bool := match rs with
        | [r] => r.hdr.enc == rfbEncodingNewFBSize || r.hdr.enc == rfbEncodingExtDesktopSize
        | _ => false
      if sizeOnly then
        match rs with
        | [r] =>
          -- rfbSendNewFBSize / rfbSendExtDesktopSize(cl, cl->scaledScreen->width, cl->scaledScreen->height)
          -- `if (cl->useExtDesktopSize) rfbSendExtDesktopSize(…) else rfbSendNewFBSize(…)`
          let want := if c.caps.useExtDesktopSize then rfbEncodingExtDesktopSize else rfbEncodingNewFBSize
          if r.hdr.enc ≠ want then
            out := out ++ [s!"!EXACT {c.id} size announcement uses {encName r.hdr.enc}, predicted {encName want}"]
          if (r.hdr.w, r.hdr.h) ≠ view then
            out := out ++ [s!"!EXACT {c.id} size announcement {r.hdr.w}x{r.hdr.h}, the client's view of the screen is {view.1}x{view.2}"]
          if r.hdr.enc = rfbEncodingExtDesktopSize then
            -- every field of the screen list is big-endian and is what the application's hooks report
            if r.payload ≠ extDesktopPayload s view then
              out := out ++ [s!"!ORACLE {c.id} ExtDesktopSize screen list {hex (r.payload.take 40)} is not what the application reports: {hex ((extDesktopPayload s view).take 40)}"]
            c := { c with owedExtDS := false }
          c := { c with annW := r.hdr.w, annH := r.hdr.h }
        | _ => pure ()
      else
        match c.preds with
        | [] => out := out ++ [s!"!EXACT {c.id} FramebufferUpdate without a planned update"]
        | p :: ps =>
          c := { c with preds := ps }
          match checkPred p n rs with
          | none => pure ()
          | some e => out := out ++ [s!"!EXACT {c.id} {e}"]
    | .resizeFB _ w h =>
      if (w, h) ≠ view then
        out := out ++ [s!"!EXACT {c.id} ResizeFrameBuffer {w}x{h}, the client's view of the screen is {view.1}x{view.2}"]
      c := { c with annW := w, annH := h }
    | .palmResize _ _ _ bw bh _ =>
      if (bw, bh) ≠ view then
        out := out ++ [s!"!EXACT {c.id} PalmVNC resize buffer {bw}x{bh}, the client's view of the screen is {view.1}x{view.2}"]
      c := { c with annW := bw, annH := bh }
    | _ => pure ()
  match err with
  | none => c := { c with buf := [] }
  | some off =>
    out := out ++ [s!"!PARSE {c.id} not a well-formed server message at offset {off} of {c.buf.length}: {hex ((c.buf.drop off).take 24)}"]
    c := { c with buf := [], phase := .closed, mute := true }
  return (c, out)

def consume (s : Screen) (c : Conn) : Conn × List String :=
  let (c1, o1) := consumeHs s c (c.expectHs.length + 1)
  if !c1.expectHs.isEmpty then (c1, o1)
  else if c1.phase == .normal then
    let (c2, o2) := consumeNormal s (c1.viewSize s) c1
    (c2, o1 ++ o2)
  else if c1.phase == .closed then
    -- the protocol says the server has closed the connection (failed authentication, security type
    -- that was not offered, scale factor 0): after that nothing but EOF may arrive
    if c1.mute || c1.buf.isEmpty then ({ c1 with buf := [] }, o1)
    else ({ c1 with buf := [], mute := true },
          o1 ++ [s!"!PARSE {c1.id} {c1.buf.length} bytes after the point where this protocol version ends the connection: {hex (c1.buf.take 32)}"])
  else if c1.buf.isEmpty then (c1, o1)
  else ({ c1 with buf := [], phase := .closed, mute := true },
        o1 ++ [s!"!PARSE {c1.id} unexpected bytes during the handshake: {hex (c1.buf.take 24)}"])

partial def geos : List String → Nat → List Geo × List String
  | toks, 0 => ([], toks)
  | a :: b :: c :: d :: rest, n + 1 =>
    let (gs, r) := geos rest n
    (⟨natD a, natD b, natD c - natD a, natD d - natD b⟩ :: gs, r)
  | toks, _ => ([], toks)

def parseHook (toks : List String) : Option (Nat × HookObs) :=
  match toks with
  | id :: dx :: dy :: "U" :: n :: rest =>
    let (us, r1) := geos rest (natD n)
    match r1 with
    | "C" :: m :: rest2 =>
      let (cs, _) := geos rest2 (natD m)
      some (natD id, ⟨intD dx, intD dy, us, cs⟩)
    | _ => none
  | _ => none

def withConn (s : DState) (idTok : String) (f : Conn → Conn × List String) : DState × List String :=
  match getConn s (natD idTok) with
  | none => (s, [])
  | some c => let (c', out) := f c; (putConn s c', out)

/-- only connections in the normal phase react to normal-phase ops -/
def withNormal (s : DState) (idTok : String) (f : Conn → Conn) : DState × List String :=
  withConn s idTok fun c => if c.phase == .normal then (f c, []) else (c, [])

def endOfOp (s : DState) : DState × List String := Id.run do
  let mut out : List String := []
  let mut cs : List Conn := []
  for c in s.conns do
    let mut c := c
    if !c.mute then
      if !c.buf.isEmpty then
        out := out ++ [s!"!PARSE {c.id} incomplete message at end of op: {hex (c.buf.take 24)} ({c.buf.length} bytes)"]
        c := { c with buf := [] }
      match c.expectHs with
      | [] => pure ()
      | i :: _ =>
        out := out ++ [s!"!PARSE {c.id} handshake: server did not send {repr i}"]
        c := { c with expectHs := [] }
      if !c.preds.isEmpty then
        out := out ++ [s!"!EXACT {c.id} {c.preds.length} planned FramebufferUpdate(s) never appeared on the wire"]
        c := { c with preds := [] }
      if c.owedExtDS then
        if c.phase == .normal then
          out := out ++ [s!"!EXACT {c.id} the non-incremental request of an ExtDesktopSize client was not answered by an ExtDesktopSize rectangle"]
        c := { c with owedExtDS := false }
    cs := cs ++ [c]
  return ({ s with conns := cs }, out)

def dstep (s : DState) (toks : List String) : DState × List String :=
  match toks with
  -- ---------------------------------------------------------------- observations
  | ["@scr", w, h, bpp, pf, name] =>
    -- rfbNewFramebuffer: `if (screen->cursorX >= width) screen->cursorX = width - 1;`
    let cx : Int := if s.scr.cursorX ≥ (natD w : Int) then (natD w : Int) - 1 else s.scr.cursorX
    let cy : Int := if s.scr.cursorY ≥ (natD h : Int) then (natD h : Int) - 1 else s.scr.cursorY
    -- rfbScaledScreensNewFramebuffer: every scaled version keeps its reduction (at least 1x1)
    let (ow, oh) := (s.scr.w, s.scr.h)
    let rescale := fun (c : Conn) =>
      match c.scaled with
      | some (sw, sh) =>
        if ow = 0 ∨ oh = 0 then c else
        { c with scaled := some (max 1 (sw * natD w / ow), max 1 (sh * natD h / oh)) }
      | none => c
    ({ s with scr := { s.scr with w := natD w, h := natD h, sbpp := natD bpp, cursorX := cx, cursorY := cy,
                                  pf := (unhex? pf).getD [], name := (unhex? name).getD [] },
              conns := s.conns.map rescale }, [])
  | "@hook" :: rest =>
    match parseHook rest with
    | none => (s, ["!EXACT ? unreadable hook line"])
    | some (id, o) =>
      match getConn s id with
      | none => (s, [])
      | some c =>
        let (c', p) := planUpdate s.scr c o
        let enc := c.enc
        let splitting := enc = rfbEncodingCoRRE ∨ enc = rfbEncodingUltra ∨ enc = rfbEncodingZlib ∨
                         enc = rfbEncodingTight ∨ enc = rfbEncodingTightPng
        let warn := if s.scr.maxRects > 0 ∧ ¬ splitting ∧ o.upd.length > s.scr.maxRects then
            [s!"!EXACT {id} update region has {o.upd.length} rectangles, maxRectsPerUpdate is {s.scr.maxRects}"] else []
        (putConn s { c' with preds := c'.preds ++ [p] }, warn)
  | ["@tx", id, hx] =>
    match unhex? hx with
    | none => (s, ["!PARSE ? unreadable tx line"])
    | some bs =>
      withConn s id fun c => consume s.scr { c with buf := c.buf ++ bs }
  | ["@st", id, "closed"] =>
    -- handshake items the server still owes stay on the list: the end-of-op check reports them
    withConn s id fun c => ({ c with phase := .closed, preds := [] }, [])
  | ["@."] => endOfOp s
  -- ---------------------------------------------------------------- configuration
  | ["screen", _, _, _] => (s, [])
  | ["opt", k, v] =>
    let sc := s.scr
    let b := natD v != 0
    let sc := if k = "maxrects" then { sc with maxRects := natD v }
      else if k = "xvp" then { sc with cfg := { sc.cfg with xvpHook := b } }
      else if k = "utf8" then { sc with cfg := { sc.cfg with utf8Hook := b } }
      else if k = "ledhook" then { sc with cfg := { sc.cfg with ledHook := b } }
      else if k = "norichx" then { sc with cfg := { sc.cfg with noRichToX := b } }
      else if k = "passwd" then { sc with passwd := b }
      else if k = "extscreens" then { sc with extScreens := some (natD v) }
      else if k = "extfail" then { sc with extFail := some (natD v), extScreens := some (sc.extScreens.getD 1) }
      else if k = "protominor" then
        (if natD v > 2 ∧ natD v < 9 then { sc with protoMinor := natD v } else sc)
      else sc
    ({ s with scr := sc }, [])
  -- ---------------------------------------------------------------- handshake
  | ["conn", id, minor] =>
    let m := natD minor % 1000
    let (items, ph) := onConnect s.scr m
    let c : Conn := { id := natD id, minor := m, phase := ph, expectHs := items, bpp := s.scr.sbpp }
    ({ s with conns := s.conns ++ [c] }, [])
  | ["sectype", id, t] =>
    withConn s id fun c =>
      if c.phase != .secType then (c, []) else
      let (items, ph) := onSecType s.scr c (natD t % 256)
      ({ c with expectHs := c.expectHs ++ items, phase := ph }, [])
  | ["auth", id, how] =>
    withConn s id fun c =>
      if c.phase != .auth then (c, []) else
      let (items, ph) := onAuth c (how == "good")
      ({ c with expectHs := c.expectHs ++ items, phase := ph }, [])
  | ["cinitclose", id] =>
    withConn s id fun c => ({ c with phase := .closed, mute := true, preds := [], expectHs := [], buf := [] }, [])
  | ["cinit", id, _] =>
    withConn s id fun c =>
      if c.phase != .init then (c, []) else
      ({ c with expectHs := c.expectHs ++ [.serverInit], phase := .normal }, [])
  -- ---------------------------------------------------------------- client messages
  | ["setpf", id, bpp, depth, _, _, rmax, gmax, bmax, _, _, _] =>
    withNormal s id fun c =>
      { c with bpp := natD bpp / 8, depth := natD depth, rmax := natD rmax, gmax := natD gmax,
               bmax := natD bmax, ready := true }
  | "setenc" :: id :: encs =>
    withNormal s id fun c =>
      let es := encs.map natD
      let (caps, _) := setEncodings s.scr.cfg c.caps es
      { c with caps := caps, hist := c.hist ++ es, cur := es }
  | ["fbur", id, inc, x, y, _, _] =>
    withNormal s id fun c =>
      -- `if (!msg.fur.incremental) { … if (cl->useExtDesktopSize) cl->newFBSizePending = TRUE; }`: the next
      -- update is the ExtDesktopSize rectangle (unless the application's screen hook fails)
      let hookFails := match s.scr.extFail with
        | some k => k < s.scr.extScreens.getD 1
        | none => false
      let owed := c.owedExtDS || (inc == "0" && x == "0" && y == "0" && c.caps.useExtDesktopSize && !hookFails)
      { c with ready := true, owedExtDS := owed }
  | ["ptr", id, mask, x, y] =>
    match getConn s (natD id) with
    | none => (s, [])
    | some c =>
      if c.phase != .normal then (s, []) else
      let sc := s.scr
      if sc.pointerClient.isSome ∧ sc.pointerClient ≠ some c.id then (s, []) else
      let sc := { sc with pointerClient := if natD mask % 256 = 0 then none else some c.id }
      let (vw, vh) := c.viewSize sc
      let px : Int := if c.scaled.isSome then scaleInt vw sc.w (natD x) else natD x
      let py : Int := if c.scaled.isSome then scaleInt vh sc.h (natD y) else natD y
      if px = sc.cursorX ∧ py = sc.cursorY then ({ s with scr := sc }, []) else
      let sc := { sc with cursorX := px, cursorY := py }
      let conns := s.conns.map fun d =>
        if d.id == c.id then
          (if d.caps.cursorPos then { d with caps := { d.caps with cursorWasMoved := false } } else d)
        else if d.phase != .closed ∧ d.caps.cursorPos then { d with caps := { d.caps with cursorWasMoved := true } }
        else d
      ({ s with scr := sc, conns := conns }, [])
  | [op, id, n] =>
    if op = "setscale" ∨ op = "palmscale" then
      withNormal s id fun c =>
        let k := natD n % 256
        if k = 0 then { c with phase := .closed } else
        let tw := s.scr.w / k
        let th := s.scr.h / k
        let sc := if tw = s.scr.w ∧ th = s.scr.h then none else some (tw, th)
        { c with scaled := sc, usedSetScale := true, palm := c.palm || op = "palmscale" }
    else if op = "resize" then (s, [])
    else (s, [])
  | ["xvpc", id, _, _] => withNormal s id fun c => { c with usedXvp := true }
  -- ---------------------------------------------------------------- application actions
  | ["cursor", w, h, xh, yh, kind, _] =>
    ({ s with scr := { s.scr with curW := natD w, curH := natD h, curXhot := natD xh, curYhot := natD yh,
                                  curEmpty := kind == "2" && natD w == 1 && natD h == 1 },
              conns := s.conns.map fun c => { c with caps := { c.caps with cursorWasChanged := true } } }, [])
  | ["led", v] => ({ s with scr := { s.scr with led := intD v } }, [])
  | ["close", id] => withConn s id fun c => ({ c with phase := .closed, mute := true, preds := [], expectHs := [], buf := [] }, [])
  | _ => (s, [])

/-- alarm lines carry the index of the op during which they were raised -/
def dstepN (s : DState) (toks : List String) : DState × List String :=
  let isObs := match toks with
    | t :: _ => t.startsWith "@"
    | [] => true
  let s1 := if isObs then s else { s with opNo := s.opNo + 1 }
  let (s2, out) := dstep s1 toks
  (s2, out.map fun l => if l.startsWith "!" then l ++ s!" [op {s1.opNo - 1}]" else l)

def main : IO Unit := runDriver ({} : DState) dstepN
