import VncModel.Basic.Proto
import VncModel.Clip.Model
/-! Line-protocol driver for the clipboard model (C18).  Same script as harness/c18.c.

zlib in the driver: payloads sent by the reference peer come with a `zdef` line (what Python's
independent zlib makes of them); streams the two libraries produce for each other are never
observed byte-wise, the driver uses a tagged identity "compression" for them. -/
open VncModel VncModel.Clip VncModel.Proto VncModel.Gen.C18

def fnv (bs : Bytes) : UInt64 :=
  bs.foldl (fun h b => (h ^^^ b.toUInt64) * 1099511628211) 1469598103934665603

def hexN (digits : Nat) (n : Nat) : String :=
  String.ofList ((List.range digits).reverse.map fun i => hexChar (n / 16 ^ i % 16))

def hex16 (h : UInt64) : String := hexN 16 h.toNat
def hex8 (n : Nat) : String := hexN 8 n

def hexVal (c : UInt8) : Option UInt8 :=
  if 48 ≤ c && c ≤ 57 then some (c - 48)
  else if 97 ≤ c && c ≤ 102 then some (c - 87)
  else if 65 ≤ c && c ≤ 70 then some (c - 55)
  else none

def unhexFast (s : String) : Option Bytes :=
  if s == "-" then some [] else
  let a := s.toUTF8
  if a.size % 2 ≠ 0 then none else
  let rec go : Nat → Bytes → Option Bytes
    | 0, acc => some acc
    | k + 1, acc =>
      match hexVal a[2 * k]!, hexVal a[2 * k + 1]! with
      | some x, some y => go k ((x * 16 + y) :: acc)
      | _, _ => none
  go (a.size / 2) []

inductive Kind where
  | raw | rawpre | lib | fsrv
  deriving DecidableEq

structure Conn where
  id : Nat
  kind : Kind
  cl : Cl := {}
  lc : LC := ⟨true, false, 0, true⟩
  dropped : Bool := false
  stalled : Bool := false   -- peer stopped reading, tiny pipe: the (large) writes the scripts make fail, nothing else happens to it

structure DS where
  cfg : Cfg := ⟨true⟩
  blobs : List (String × Bytes) := []
  ztab : List ((Nat × UInt64) × InflRes) := []
  conns : List Conn := []

def env0 : Env := ⟨0⟩

def mkZ (tab : List ((Nat × UInt64) × InflRes)) : Zlib where
  inflateAll z :=
    match tab.lookup (z.length, fnv z) with
    | some r => r
    | none =>
      match z with
      | 1 :: x => ⟨x, .done⟩
      | 2 :: x => ⟨x, .more⟩
      | _ => ⟨[], .err⟩
  compress x := 1 :: x
  compressSync x := 2 :: x

def DS.blob (s : DS) (n : String) : Option Bytes := s.blobs.lookup n

def DS.conn (s : DS) (id : Nat) : Option Conn := s.conns.find? (·.id == id)

def DS.setConn (s : DS) (c : Conn) : DS :=
  { s with conns := s.conns.map fun d => if d.id == c.id then c else d }

def insertConn (c : Conn) : List Conn → List Conn
  | [] => [c]
  | d :: ds => if c.id ≤ d.id then c :: d :: ds else d :: insertConn c ds


def hasServerSide (c : Conn) : Bool := c.kind != .fsrv
def srvOpen (c : Conn) : Bool := hasServerSide c && c.cl.isOpen

def showCb (id : Nat) : Cb → String
  | .latin1 bs => s!"cb{id}:l1:{bs.length}:{hex16 (fnv bs)}"
  | .utf8 bs => s!"cb{id}:u8:{bs.length}:{hex16 (fnv bs)}"

def showCCb (id : Nat) : CCb → String
  | .latin1 bs => s!"ccb{id}:l1:{bs.length}:{hex16 (fnv bs)}"
  | .utf8 bs => s!"ccb{id}:u8:{bs.length}:{hex16 (fnv bs)}"

def showFixed (m : List Nat) : String :=
  let b := natsToBytes m
  s!"ext:{hex8 (rd32 (b.drop 8))}:{hex (b.drop 12)}"

def showSMsg : SMsg → String
  | .classic bs => s!"txt:{bs.length}:{hex16 (fnv bs)}"
  | .caps => showFixed srvCapsMsg
  | .notify => showFixed srvNotifyMsg
  | .provide r => s!"prv:{hex8 srvProvideFlags}:{r.length}:{hex16 (fnv r)}:end"

def statusLine (s : DS) : String :=
  let closed := s.conns.filter fun c => if c.kind == .fsrv then c.dropped else !srvOpen c
  let x := if closed.isEmpty then "-" else ",".intercalate (closed.map fun c => toString c.id)
  let st := s.conns.map fun c =>
    (if srvOpen c then
      let d := match c.cl.data with
        | some d => s!"{d.length},{hex16 (fnv d)}"
        | none => "-1,0000000000000000"
      s!" s{c.id}={if c.cl.ext then 1 else 0},{hex8 c.cl.userCap},{c.cl.maxUnsol},{d}"
    else "") ++
    (if c.kind == .lib && !c.dropped then s!" l{c.id}={hex8 c.lc.caps}" else "") ++
    (if c.kind == .fsrv && !c.dropped then s!" c{c.id}={hex8 c.lc.caps}" else "")
  s!" | x:{x} |{String.join st}"

def finishOpNoPump (s : DS) (evs : List String) : DS × List String :=
  (s, [(if evs.isEmpty then "-" else " ".intercalate evs) ++ statusLine s])

/-- every op ends with the server's event loop: a connection whose peer is gone is noticed (read of
0 bytes) and closed, if a failed write has not closed it already -/
def finishOp (s : DS) (evs : List String) : DS × List String :=
  let s' := { s with conns := s.conns.map fun c =>
    if c.cl.peerGone && !c.stalled && c.cl.isOpen && hasServerSide c then { c with cl := closeCl c.cl } else c }
  finishOpNoPump s' evs

/-- deliver the messages the server wrote to each connection: reference peers see them (`tx`),
library clients run their message loop.  Returns (state, client-side events, tx events). -/
def deliver (s : DS) (outs : List (Nat × List SMsg)) : DS × List String × List String :=
  let Z := mkZ s.ztab
  outs.foldl (fun (acc : DS × List String × List String) (p : Nat × List SMsg) =>
    let (s, cev, tx) := acc
    if p.2.isEmpty then acc else
    match s.conn p.1 with
    | none => acc
    | some c =>
      match c.kind with
      | .raw | .rawpre => (s, cev, tx ++ [s!"tx{c.id}:[{",".intercalate (p.2.map showSMsg)}]"])
      | .lib =>
        if c.dropped then acc else
        let wire := p.2.flatMap (SMsg.wire Z)
        let r := cliFeed Z env0 c.lc wire
        let evs := r.cbs.map (showCCb c.id) ++ (if r.unmodelled then ["unmodelled"] else [])
        if r.dropped then
          (s.setConn { c with lc := r.c, dropped := true, cl := closeCl c.cl }, cev ++ evs ++ [s!"cdrop{c.id}"], tx)
        else (s.setConn { c with lc := r.c }, cev ++ evs, tx)
      | .fsrv => acc) (s, [], [])

def badOp (s : DS) : DS × List String := (s, ["bad-op"])

/-- bytes from a client of the real server: run the handler, deliver replies -/
def serverInput (s : DS) (c : Conn) (pre : List String) (input : Bytes) : DS × List String :=
  let Z := mkZ s.ztab
  let r := feed Z env0 s.cfg c.cl input
  let s1 := s.setConn { c with cl := r.cl }
  let cbs := r.cbs.map (showCb c.id) ++ (if r.unmodelled then ["unmodelled"] else [])
  let (s2, cev, tx) := deliver s1 [(c.id, r.out)]
  -- a library client whose connection the server closed sees EOF and gives up
  match s2.conn c.id with
  | some c2 =>
    if c2.kind == .lib && !c2.cl.isOpen && !c2.dropped then
      finishOp (s2.setConn { c2 with dropped := true }) (pre ++ cbs ++ cev ++ [s!"cdrop{c.id}"] ++ tx)
    else finishOp s2 (pre ++ cbs ++ cev ++ tx)
  | none => finishOp s2 (pre ++ cbs ++ cev ++ tx)

def showCliWire (Z : Zlib) (t : Bytes) (utf8 : Bool) : String :=
  if utf8 then
    let r := record (t ++ [0])
    let _ := Z
    s!"ext:{hex8 cliNotifyFlags}:-,prv:{hex8 cliProvideFlags}:{r.length}:{hex16 (fnv r)}:more"
  else s!"txt:{t.length}:{hex16 (fnv t)}"

def parseFin (s : String) : Option Fin :=
  if s == "end" then some .done else if s == "more" then some .more else if s == "err" then some .err
  else none

def dstep (s : DS) (toks : List String) : DS × List String :=
  match toks with
  | ["def", name, "hex", h] =>
    match unhexFast h with
    | some b => ({ s with blobs := (name, b) :: s.blobs }, ["ok"])
    | none => badOp s
  | "def" :: name :: "cat" :: parts =>
    match parts.mapM s.blob with
    | some bs => ({ s with blobs := (name, bs.flatten) :: s.blobs }, ["ok"])
    | none => badOp s
  | ["zdef", z, fin, plain] =>
    match s.blob z, parseFin fin, s.blob plain with
    | some zb, some f, some p => ({ s with ztab := ((zb.length, fnv zb), ⟨p, f⟩) :: s.ztab }, ["ok"])
    | _, _, _ => ({ s with ztab := s.ztab }, ["ok"])   -- the harness answers "ok" to every zdef
  | ["cb8", v] => finishOp { s with cfg := ⟨v != "0"⟩ } []
  | ["pub", b] =>
    match s.blob b with
    | none => badOp s
    | some t =>
      let rs := s.conns.filter hasServerSide |>.map fun c => (c, writeOutcome c.cl (c.cl, sendClassicOne c.cl t))
      let s0 := rs.foldl (fun s (p : Conn × Cl × List SMsg) => s.setConn { p.1 with cl := p.2.1 }) s
      let (s1, cev, tx) := deliver s0 (rs.map fun p => (p.1.id, p.2.2))
      finishOp s1 (cev ++ tx)
  | ["pub8", b, f] =>
    match s.blob b, (if f == "null" then some none else (s.blob f).map some) with
    | some t, some fb =>
      let rs := s.conns.filter hasServerSide |>.map fun c => (c, writeOutcome c.cl (sendUtf8One c.cl t fb))
      let s1 := rs.foldl (fun s (p : Conn × Cl × List SMsg) => s.setConn { p.1 with cl := p.2.1 }) s
      let (s2, cev, tx) := deliver s1 (rs.map fun p => (p.1.id, p.2.2))
      finishOp s2 (cev ++ tx)
    | _, _ => badOp s
  | [k, id] =>
    match id.toNat? with
    | none => badOp s
    | some id =>
      if k == "raw" || k == "rawpre" then
        if id ≥ 16 || (s.conn id).isSome then badOp s else
        finishOp { s with conns := insertConn { id := id, kind := if k == "raw" then .raw else .rawpre,
                                                cl := { normal := k == "raw" } } s.conns } []
      else if k == "fbu" then
        match s.conn id with
        | some c =>
          if c.kind == .lib && !c.dropped then
            -- the update carries the SupportedMessages pseudo-rectangle: same list for every client
            finishOp s [s!"sup{id}:{if c.lc.supportsCut then 1 else 0}1:same"]
          else badOp s
        | none => badOp s
      else if k == "stall" then
        match s.conn id with
        | some c =>
          if c.kind == .raw && !c.dropped && srvOpen c then
            finishOp (s.setConn { c with cl := { c.cl with peerGone := true }, dropped := true, stalled := true }) []
          else badOp s
        | none => badOp s
      else if k == "kill" then
        match s.conn id with
        | some c =>
          if (c.kind == .raw || c.kind == .rawpre) && !c.dropped then
            finishOpNoPump (s.setConn { c with cl := { c.cl with peerGone := true }, dropped := true }) []
          else badOp s
        | none => badOp s
      else if k == "close" then
        match s.conn id with
        | some c =>
          if (c.kind == .raw || c.kind == .rawpre) && !c.dropped then
            finishOp (s.setConn { c with cl := closeCl c.cl, dropped := true }) []
          else badOp s
        | none => badOp s
      else badOp s
  | [k, id, a] =>
    match id.toNat? with
    | none => badOp s
    | some id =>
      if k == "rawws" then
        if id ≥ 16 || (s.conn id).isSome then badOp s else
        finishOp { s with conns := insertConn { id := id, kind := .raw } s.conns } []
      else if k == "wsfr" then (s, ["ok"])
      else if k == "lib" || k == "fsrv" then
        if id ≥ 16 || (s.conn id).isSome then badOp s else
        let av := a.toNat?.getD 0
        let u := av % 2 == 1
        let c : Conn := { id := id, kind := if k == "lib" then .lib else .fsrv, lc := ⟨av / 2 % 2 == 0, u, 0, true⟩ }
        let s1 := { s with conns := insertConn c s.conns }
        if k == "lib" && u then
          serverInput s1 c [] ([2, 0, 0, 1] ++ be32 encExtendedClipboard)
        else finishOp s1 []
      else
      match s.conn id with
      | none => badOp s
      | some c =>
        if k == "viewonly" then
          if srvOpen c then finishOp (s.setConn { c with cl := { c.cl with viewOnly := a != "0" } }) []
          else badOp s
        else if k == "send" then
          match s.blob a with
          | some b => if c.kind == .raw && srvOpen c && !c.dropped then serverInput s c [] b else badOp s
          | none => badOp s
        else if k == "senddie" then
          match s.blob a with
          | some b =>
            if c.kind == .raw && srvOpen c && !c.dropped then
              let r := feedGone (mkZ s.ztab) env0 s.cfg c.cl b
              let cbs := r.cbs.map (showCb c.id) ++ (if r.unmodelled then ["unmodelled"] else [])
              finishOp (s.setConn { c with cl := r.cl, dropped := true }) cbs
            else badOp s
          | none => badOp s
        else if k == "csend" || k == "csend8" then
          match s.blob a with
          | none => badOp s
          | some t =>
            if (c.kind != .lib && c.kind != .fsrv) || c.dropped then badOp s else
            let Z := mkZ s.ztab
            let wire := if k == "csend" then cliSendClassicIf c.lc t else cliSendUtf8 Z c.lc t
            match wire with
            | none => finishOp s [if k == "csend" then "ret1" else "ret0"]
            | some w =>
              if c.kind == .lib then serverInput s c ["ret1"] w
              else finishOp s ["ret1", s!"ctx{c.id}:[{showCliWire Z t (k == "csend8")}]"]
        else if k == "fsend" then
          match s.blob a with
          | none => badOp s
          | some b =>
            if c.kind != .fsrv || c.dropped then badOp s else
            let Z := mkZ s.ztab
            let r := cliFeed Z env0 c.lc b
            let evs := r.cbs.map (showCCb c.id) ++ (if r.unmodelled then ["unmodelled"] else [])
            if r.dropped then finishOp (s.setConn { c with lc := r.c, dropped := true }) (evs ++ [s!"cdrop{c.id}"])
            else finishOp (s.setConn { c with lc := r.c }) evs
        else badOp s
  | ["fsend", id, a, "eof"] =>
    match id.toNat?, s.blob a with
    | some id, some b =>
      match s.conn id with
      | some c =>
        if c.kind != .fsrv || c.dropped then badOp s else
        let Z := mkZ s.ztab
        let r := cliFeed Z env0 c.lc b
        let evs := r.cbs.map (showCCb c.id) ++ (if r.unmodelled then ["unmodelled"] else [])
        -- the peer has shut its side down: whatever state the loop is in, the next read fails
        finishOp (s.setConn { c with lc := r.c, dropped := true }) (evs ++ [s!"cdrop{c.id}"])
      | none => badOp s
    | _, _ => badOp s
  | ["cuts", _, _, _] => (s, ["ok"])
  | _ => badOp s

def main : IO Unit := runDriver ({} : DS) dstep
