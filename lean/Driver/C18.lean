def main : IO Unit := IO.println "driver C18: not built yet"
