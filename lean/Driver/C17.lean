import VncModel.Basic.Proto
import VncModel.Scale.State
/-! Line-protocol driver for the scaling model (C17).  Same script as harness/c17.c.

Besides the proved model (`VncModel.Scale.step`, `corr`, `clipReq`, `updateRect`, `reference`) the
driver keeps, per client, a conservative description of `modifiedRegion` / `requestedRegion`
(empty, exactly one rectangle, or "some region") so that it can predict the rectangles of an
update exactly whenever the region is a single rectangle, and the client's picture. -/
open VncModel VncModel.Scale VncModel.Proto

/-- a region of the screen: exact pixel set (bit `y*W+x` of `set`) plus, when known, the fact that
the sra representation is exactly one rectangle -/
structure Pend where
  set : Nat := 0
  shape : Option Rect := none
  deriving Inhabited

structure DCl where
  id : Nat
  live : Bool := true
  pend : Pend := {}           -- cl->modifiedRegion
  rq : Pend := {}             -- cl->requestedRegion
  pic : Option Img := none    -- the client's picture, `none` = not predictable
  insync : Bool := false      -- picture = scaled image except for the pixels whose block `pend` touches
  pw : Nat := 0
  ph : Nat := 0
  cr : Bool := false                      -- cl->useCopyRect
  cpy : Nat := 0                          -- superset of cl->copyRegion (pixel set): what may be sent as
                                          -- CopyRect instead of pixel data
  shape : Bool := false                   -- cl->enableCursorShapeUpdates (RichCursor announced)
  cursorPending : Bool := false           -- cl->cursorWasChanged
  soft : Bool := false                    -- the server paints the cursor into this client's updates:
                                          -- its picture is not predicted
  lastBtn : Nat := 0                      -- cl->lastPtrButtons
  lastPtr : Option (Nat × Nat) := none    -- cl->lastPtrX/Y (coalesced motion, already mapped back)
  deriving Inhabited

structure DState where
  srv : Option Srv := none
  mapped : Bool := false
  cls : List DCl := []
  defer : Nat := 0                        -- screen->deferPtrUpdateTime
  owner : Option Nat := none              -- screen->pointerClient
  cursor : Bool := false                  -- the screen has a visible cursor
  deriving Inhabited

def fmtOf (s : String) : Option (Fmt × Bool) :=
  if s = "8m" then some (⟨1, false, 7, 7, 3, 0, 3, 6⟩, true)
  else if s = "8" then some (⟨1, true, 7, 7, 3, 0, 3, 6⟩, false)
  else if s = "16" then some (⟨2, true, 31, 31, 31, 0, 5, 10⟩, false)
  else if s = "24" then some (⟨3, true, 255, 255, 255, 0, 8, 16⟩, false)
  else if s = "32" then some (⟨4, true, 255, 255, 255, 0, 8, 16⟩, false)
  else none

/-! splitmix64 exactly as harness/common/vh.h -/
def gamma : UInt64 := 0x9E3779B97F4A7C15
def srand (s : UInt64) : UInt64 := s * gamma + 1
def rnd (st : UInt64) : UInt64 × UInt64 :=
  let st := st + gamma
  let z := st
  let z := (z ^^^ (z >>> 30)) * 0xBF58476D1CE4E5B9
  let z := (z ^^^ (z >>> 27)) * 0x94D049BB133111EB
  (z ^^^ (z >>> 31), st)

def fnvInit : UInt64 := 1469598103934665603
def fnvAdd (h : UInt64) (v : Nat) (nbytes : Nat) : UInt64 := Id.run do
  let mut h := h
  for i in [0:nbytes] do
    h := (h ^^^ UInt64.ofNat ((v >>> (8 * i)) % 256)) * 1099511628211
  return h

def hex16 (h : UInt64) : String :=
  let n := h.toNat
  String.ofList ((List.range 16).map fun i => hexChar ((n >>> (4 * (15 - i))) % 16))

def imgHash (bpp : Nat) (i : Img) : UInt64 := Id.run do
  let mut h := fnvInit
  for y in [0:i.h] do
    for x in [0:i.w] do
      h := fnvAdd h (i.get x y) bpp
  return h

def zeros (w h : Nat) : Img := Img.tabulate w h fun _ _ => 0

def rectEq (a b : Rect) : Bool := a == b
def rectIn (a b : Rect) : Bool :=   -- a ⊆ b (both non-empty)
  decide (b.x ≤ a.x ∧ b.y ≤ a.y ∧ a.x + a.w ≤ b.x + b.w ∧ a.y + a.h ≤ b.y + b.h)
def rectDisjoint (a b : Rect) : Bool :=
  decide (a.x + a.w ≤ b.x ∨ b.x + b.w ≤ a.x ∨ a.y + a.h ≤ b.y ∨ b.y + b.h ≤ a.y)

def rectMask (W : Nat) (r : Rect) : Nat := Id.run do
  let mut m := 0
  let row := ((1 <<< r.w.toNat) - 1) <<< r.x.toNat
  for y in [r.y.toNat : r.y.toNat + r.h.toNat] do
    m := m ||| (row <<< (y * W))
  return m

def Pend.add (p : Pend) (W : Nat) (r : Rect) : Pend :=
  let m := rectMask W r
  if p.set = 0 then ⟨m, some r⟩
  else match p.shape with
    | some q => if rectEq q r then p else ⟨p.set ||| m, none⟩
    | none => ⟨p.set ||| m, none⟩

def Pend.isNone (p : Pend) : Bool := p.set == 0

/-- the pending region covers the whole screen and none of it can go out as CopyRect: after the
next complete flush every pixel of the (just cleared) picture has been re-sent as pixel data -/
def pendAllPixels (d : DCl) (W : Nat) (full : Rect) : Bool :=
  let fullSet := rectMask W full
  (d.pend.set &&& (fullSet ^^^ (d.cpy &&& fullSet))) == fullSet

def imgOf (s : Srv) (w h : Nat) : Img :=
  if isMain s w h then s.main.img else
  match findChain s.chain w h with
  | some p => p.img
  | none => zeros w h

def fmtRect (r : Rect) : String := s!"{r.x},{r.y},{r.w},{r.h}"

/-- paste rectangle `r` of `src` into `dst` -/
def paste (dst src : Img) (r : Rect) : Img :=
  Img.tabulate dst.w dst.h fun X Y => if r.has X Y then src.get X Y else dst.get X Y

/-- what one run of the event loop sends to client `d` (rfbUpdateClient → rfbSendFramebufferUpdate).
returns new srv (newFBSizePending), new DCl, optional "nfs=WxH", and the rectangles
(`none` = not predictable) -/
def flushCore (s : Srv) (d : DCl) : Srv × DCl × Option String × Option (List (Rect × Rect)) :=
  if !d.live then (s, d, none, some []) else
  match s.clients.find? (·.id == d.id) with
  | none => (s, d, none, some [])
  | some c =>
  if d.rq.isNone then (s, d, none, some []) else
  -- NewFBSize first (a separate update consisting of the pseudo rectangle only)
  let (s, d, c, nfsS) :=
    if c.nfs && c.pending then
      let s' := { s with clients := setClient s.clients c.id fun c => { c with pending := false } }
      (s', { d with pw := c.sw, ph := c.sh, pic := some (zeros c.sw c.sh),
                    insync := pendAllPixels d s.main.w (fullRect s) },
       { c with pending := false }, some s!"nfs={c.sw}x{c.sh}")
    else (s, d, c, none)
  let same := isMain s c.sw c.sh
  let fullSet := rectMask s.main.w (fullRect s)
  let simg := imgOf s c.sw c.sh
  let upd := d.pend.set &&& d.rq.set
  if upd == 0 then
    -- nothing to send, unless a cursor shape is due: that update consumes the request
    (if d.shape && d.cursorPending then (s, { d with rq := {}, cursorPending := false }, nfsS, some [])
     else (s, d, nfsS, some [])) else
  -- pixels certainly sent as pixel data (a CopyRect client may get the copied part as CopyRect)
  let updPix := upd &&& (fullSet ^^^ (d.cpy &&& fullSet))
  let d := { d with cursorPending := false, cpy := 0 }
  let pendSet' := d.pend.set &&& (fullSet ^^^ upd)
  match d.rq.shape, d.pend.shape with
  | some R, some P =>
    -- both regions are single rectangles: so is their (non-empty) intersection
    let ix := max R.x P.x
    let iy := max R.y P.y
    let I : Rect := ⟨ix, iy, min (R.x + R.w) (P.x + P.w) - ix, min (R.y + R.h) (P.y + P.h) - iy⟩
    let S := corr same s.main.w s.main.h c.sw c.sh I
    let pic' := match d.pic with
      | some p => some (paste p simg S)
      | none => if updPix == fullSet && d.pw == c.sw && d.ph == c.sh then some simg else none
    let pend' : Pend := if rectEq I P then {} else ⟨pendSet', none⟩
    (s, { d with pend := pend', rq := {}, pic := pic', insync := d.insync || updPix == fullSet },
     nfsS, some [(I, S)])
  | _, _ =>
    let ins := d.insync || updPix == fullSet
    (s, { d with pend := ⟨pendSet', none⟩, rq := {}, insync := ins,
                 pic := if ins && pendSet' == 0 && d.pw == c.sw && d.ph == c.sh then some simg else none },
     nfsS, none)

def flushOne (s : Srv) (d : DCl) : Srv × DCl × Option String × Option (List (Rect × Rect)) :=
  let (s', d', n, r) := flushCore s d
  (s', if d'.soft then { d' with pic := none } else d', n, r)

/-- one pump: every client; returns the report for client `me` -/
def flushAll (s : Srv) (cls : List DCl) (me : Nat) :
    Srv × List DCl × Option String × Option (List (Rect × Rect)) :=
  cls.foldl (fun (acc : Srv × List DCl × Option String × Option (List (Rect × Rect))) d =>
    let (s, out, nfsS, rects) := acc
    let (s', d', n', r') := flushOne s d
    if d.id == me then (s', out ++ [d'], n', r') else (s', out ++ [d'], nfsS, rects)) (s, [], none, some [])

def getCl (st : DState) (id : Nat) : Option DCl := st.cls.find? fun d => d.id == id && d.live
def putCl (cls : List DCl) (d : DCl) : List DCl := cls.map fun e => if e.id == d.id then d else e

def refPixel (s : Srv) (_mapped : Bool) (pw ph X Y : Nat) : Nat :=
  if pw == s.main.w && ph == s.main.h then s.main.img.get X Y
  else scaledPixel s.fmt s.main.img pw ph X Y

def firstDiff (s : Srv) (mapped : Bool) (p : Img) (pw ph : Nat) : Option (Nat × Nat × Nat × Nat) := Id.run do
  for y in [0:ph] do
    for x in [0:pw] do
      let want := refPixel s mapped pw ph x y
      let got := p.get x y
      if want != got then return some (x, y, got, want)
  return none

def hexNat (n : Nat) : String :=
  if n = 0 then "0" else
  let rec go (fuel n : Nat) (acc : List Char) : List Char :=
    match fuel with
    | 0 => acc
    | fuel + 1 => if n = 0 then acc else go fuel (n / 16) (hexChar (n % 16) :: acc)
  String.ofList (go 16 n [])

def nat? (s : String) : Option Nat := s.toNat?

def corrSumStep (h : UInt64) (fw tw x w : Nat) : UInt64 :=
  let c := corr false fw 1 tw 1 ⟨x, 0, w, 1⟩
  fnvAdd (fnvAdd h (c.x % 4294967296).toNat 4) (c.w % 4294967296).toNat 4

def corrSum (lim : Nat) : UInt64 := Id.run do
  let mut h := fnvInit
  for fw in [1:lim+1] do
    for tw in [1:lim+1] do
      for x in [0:fw] do
        for w in [1:fw - x + 1] do
          h := corrSumStep h fw tw x w
  return h

def corrRnd (n : Nat) (seed : UInt64) : UInt64 := Id.run do
  let mut h := fnvInit
  let mut st := srand seed
  for _ in [0:n] do
    let (r1, s1) := rnd st
    let mut fw := 1 + (r1 % 65535).toNat
    let (r2, s2) := rnd s1
    let mut tw := 0
    let mut s3 := s2
    if r2 % 2 != 0 then
      let (r3, s') := rnd s2
      s3 := s'
      let nn := 1 + (r3 % 255).toNat
      tw := fw / nn
      if tw < 1 then tw := 1
    else
      let (r3, s') := rnd s2
      s3 := s'
      tw := 1 + (r3 % 65535).toNat
    let (r4, s4) := rnd s3
    if r4 % 4 == 0 then
      let t := fw
      fw := tw
      tw := t
    let (r5, s5) := rnd s4
    let x := (r5 % UInt64.ofNat fw).toNat
    let (r6, s6) := rnd s5
    let w := 1 + (r6 % UInt64.ofNat (fw - x)).toNat
    st := s6
    h := corrSumStep h fw tw x w
  return h

/-- the coalesced pointer positions the timer delivers, sorted by client id -/
def flushPtr (cls : List DCl) : List (Nat × Nat × Nat × Nat) :=
  (List.range 8).filterMap fun id =>
    match cls.find? (fun d => d.id == id && d.live) with
    | some d => match d.lastPtr with
      | some (x, y) => some (id, d.lastBtn, x, y)
      | none => none
    | none => none

def fmtPtrEvs (evs : List (Nat × Nat × Nat × Nat)) : String :=
  s!" {evs.length}" ++ String.join (evs.map fun (id, m, x, y) => s!" {id}:{m},{x},{y}")

/-- rfbDoCopyRect (`copy`) / the application moving the pixels itself + rfbScheduleCopyRect
(`schedcopy`): the destination rectangle becomes a copy of the pixels at (-dx,-dy) from it, the scaled
copies are refreshed on the destination; clients without CopyRect get it as a modified rectangle.  For
a client WITH CopyRect the split into copied / re-sent parts (and the approximate scaled CopyRect) is
not modelled: its regions are kept as pixel sets only and its picture is unknown until it has
requested everything non-incrementally. -/
def doCopy (st : DState) (s : Srv) (x y w h : Nat) (dx dy : Int) : DState × List String :=
  let sx : Int := (x : Int) - dx
  let sy : Int := (y : Int) - dy
  if w < 1 || h < 1 || x + w > s.main.w || y + h > s.main.h ||
     sx < 0 || sy < 0 || sx + w > s.main.w || sy + h > s.main.h then (st, ["bad-op"]) else
  let r : Rect := ⟨x, y, w, h⟩
  let old := s.main.img
  let fb := Img.tabulate s.main.w s.main.h fun X Y =>
    if r.has X Y then old.get ((X : Int) - dx).toNat ((Y : Int) - dy).toNat else old.get X Y
  let s1 := { s with main := { s.main with img := fb } }
  let s2 := step s1 (.modify r)
  let cls := st.cls.map fun d =>
    if !d.live then d
    else if d.cr then
      { d with pend := ⟨d.pend.set ||| rectMask s.main.w r, none⟩, pic := none, insync := false,
               cpy := d.cpy ||| rectMask s.main.w r }
    else { d with pend := d.pend.add s.main.w r }
  ({ st with srv := some s2, cls := cls }, ["ok"])

def dstep (st : DState) (toks : List String) : DState × List String :=
  let bad : DState × List String := (st, ["bad-op"])
  match st.srv, toks with
  | none, ["screen", w, h, f] =>
    match nat? w, nat? h, fmtOf f with
    | some w, some h, some (fmt, mapped) =>
      if w < 1 || h < 1 || w > 4096 || h > 4096 then bad else
      ({ st with srv := some (init fmt (zeros w h)), mapped := mapped }, ["ok"])
    | _, _, _ => bad
  | none, _ => bad
  | some s, "client" :: i :: nfs :: rest =>
    -- the optional encoding (raw | corre | zlib | ultra) does not change what the model predicts
    let isEnc (e : String) := e == "raw" || e == "corre" || e == "zlib" || e == "ultra"
    let flags := rest.drop 1
    let encOk := (match rest with
      | [] => true
      | e :: _ => isEnc e) && flags.all (fun f => f == "cr" || f == "shape") && flags.eraseDups.length == flags.length
    let useCr := flags.contains "cr"
    let useShape := flags.contains "shape"
    match nat? i, nat? nfs with
    | some i, some nfs =>
      if !encOk || i ≥ 8 || st.cls.any (·.id == i) then bad else
      let s1 := step s (.join i (nfs != 0))
      let d : DCl := { id := i, pend := Pend.add {} s.main.w (fullRect s),
                       insync := true, pw := s.main.w, ph := s.main.h, cr := useCr,
                       shape := useShape, cursorPending := useShape, soft := st.cursor && !useShape,
                       pic := if st.cursor && !useShape then none else some (zeros s.main.w s.main.h) }
      let (s2, cls, _, _) := flushAll s1 (st.cls ++ [d]) i
      ({ st with srv := some s2, cls := cls }, ["ok"])
    | _, _ => bad
  | some s, ["scale", i, v, n] =>
    match nat? i, nat? n with
    | some i, some n =>
      match getCl st i with
      | none => bad
      | some d =>
        if n > 255 then bad else
        let s1 := step s (.setScale i (v.startsWith "p") n)
        if n = 0 then
          let cls := putCl st.cls { d with live := false }
          let (s2, cls, _, _) := flushAll s1 cls i
          ({ st with srv := some s2, cls := cls, owner := if st.owner == some i then none else st.owner },
           [s!"closed {i}"])
        else
          match s1.clients.find? (·.id == i) with
          | none => bad
          | some c =>
            if c.nfs && c.pending then
              let (s2, cls, _, _) := flushAll s1 st.cls i
              ({ st with srv := some s2, cls := cls }, [s!"told {i} none"])
            else
              let s2 := { s1 with clients := setClient s1.clients i fun c => { c with pending := false } }
              let d' := { d with pw := c.sw, ph := c.sh, pic := some (zeros c.sw c.sh),
                                 insync := pendAllPixels d s.main.w (fullRect s) }
              let msg := if c.palm then s!"told {i} p {s.main.w} {s.main.h} {c.sw} {c.sh}"
                         else s!"told {i} u {c.sw} {c.sh}"
              let (s3, cls, _, _) := flushAll s2 (putCl st.cls d') i
              ({ st with srv := some s3, cls := cls }, [msg])
    | _, _ => bad
  | some s, ["geom"] =>
    let one (p : SScreen) := s!" {p.w}x{p.h}:{p.ref}"
    (st, ["geom" ++ one s.main ++ String.join (s.chain.map one)])
  | some s, ["cl", i] =>
    match nat? i with
    | some i =>
      match getCl st i, s.clients.find? (·.id == i) with
      | some _, some c => (st, [s!"cl {i} {c.sw}x{c.sh}" ++ (if isMain s c.sw c.sh then " self" else "")])
      | _, _ => bad
    | none => bad
  | some s, ["cursor"] =>
    if !st.cls.isEmpty || st.mapped || st.cursor || s.main.w < 16 || s.main.h < 16 then bad
    else ({ st with cursor := true }, ["ok"])
  | some s, ["newfb", w, h, seed] =>
    -- rfbNewFramebuffer with a buffer of the same pixel format (outside the proved op set, see
    -- Props/C17.lean "boundary with C16"; a same-size swap is a `draw` of the whole screen):
    -- scaled screens keep their reduction (rfbScaledScreensNewFramebuffer), the used ones are
    -- re-rendered, every client gets the whole new screen as modified region, NewFBSize clients a
    -- pending size announcement
    match nat? w, nat? h, nat? seed with
    | some w, some h, some seed =>
      if st.mapped || w < 1 || h < 1 || w > 4096 || h > 4096 then bad else
      let mask := 2 ^ (8 * s.fmt.bpp)
      let vals : Array Nat := Id.run do
        let mut a : Array Nat := Array.mkEmpty (w * h)
        let mut g := srand (UInt64.ofNat seed)
        for _ in [0:w * h] do
          let (r, g') := rnd g
          g := g'
          a := a.push ((r >>> 16).toNat % mask)
        return a
      let fb : Img := ⟨w, h, vals⟩
      let oW := s.main.w
      let oH := s.main.h
      let full : Rect := ⟨0, 0, w, h⟩
      let chain' := s.chain.map fun p =>
        let nw := resizeDim p.w oW w
        let nh := resizeDim p.h oH h
        { p with w := nw, h := nh,
                 img := if p.ref > 0 then updateRect s.fmt fb (zeros nw nh) full else zeros nw nh }
      let clients' := s.clients.map fun c =>
        if isMain s c.sw c.sh then { c with sw := w, sh := h, pending := c.pending || c.nfs }
        else { c with sw := resizeDim c.sw oW w, sh := resizeDim c.sh oH h, pending := c.pending || c.nfs }
      let dimsL := chain'.map fun p => (p.w, p.h)
      let collide := dimsL.any (fun d => d == (w, h)) || dimsL.eraseDups.length != dimsL.length
      let s' : Srv := { s with main := { s.main with w := w, h := h, img := fb }, chain := chain', clients := clients' }
      let restride (p : Pend) : Pend :=
        match p.shape with
        | some R =>
          let x2 := min (R.x + R.w) w
          let y2 := min (R.y + R.h) h
          if R.x < x2 && R.y < y2 then
            let R' : Rect := ⟨R.x, R.y, x2 - R.x, y2 - R.y⟩
            ⟨rectMask w R', some R'⟩
          else {}
        | none =>
          if p.set == 0 then {} else
          let cw := min oW w
          let set' := Id.run do
            let mut m := 0
            for y in [0:min oH h] do
              let row := (p.set >>> (y * oW)) &&& ((1 <<< cw) - 1)
              m := m ||| (row <<< (y * w))
            return m
          ⟨set', none⟩
      let cls := st.cls.map fun d =>
        if d.live then { d with pend := Pend.add {} w full, rq := restride d.rq, insync := false, cpy := 0 } else d
      ({ st with srv := some s', cls := cls }, [if collide then "newfb-collision" else "ok"])
    | _, _, _ => bad
  | some s, ["draw", x, y, w, h, seed] =>
    match nat? x, nat? y, nat? w, nat? h, nat? seed with
    | some x, some y, some w, some h, some seed =>
      if w < 1 || h < 1 || x + w > s.main.w || y + h > s.main.h then bad else
      let mask := 2 ^ (8 * s.fmt.bpp)
      let vals : Array Nat := Id.run do
        let mut a : Array Nat := Array.mkEmpty (w * h)
        let mut g := srand (UInt64.ofNat seed)
        for _ in [0:w * h] do
          let (r, g') := rnd g
          g := g'
          a := a.push ((r >>> 16).toNat % mask)
        return a
      let r : Rect := ⟨x, y, w, h⟩
      let fb := Img.tabulate s.main.w s.main.h fun X Y =>
        if r.has X Y then vals.getD ((Y - y) * w + (X - x)) 0 else s.main.img.get X Y
      let s1 := { s with main := { s.main with img := fb } }
      let s2 := step s1 (.modify r)
      let cls := st.cls.map fun d => if d.live then { d with pend := d.pend.add s.main.w r } else d
      ({ st with srv := some s2, cls := cls }, ["ok"])
    | _, _, _, _, _ => bad
  | some s, ["copy", x, y, w, h, dx, dy] =>
    match nat? x, nat? y, nat? w, nat? h, parseInt? dx, parseInt? dy with
    | some x, some y, some w, some h, some dx, some dy => doCopy st s x y w h dx dy
    | _, _, _, _, _, _ => bad
  | some s, ["schedcopy", x, y, w, h, dx, dy] =>
    match nat? x, nat? y, nat? w, nat? h, parseInt? dx, parseInt? dy with
    | some x, some y, some w, some h, some dx, some dy => doCopy st s x y w h dx dy
    | _, _, _, _, _, _ => bad
  | some s, ["mark", x1, y1, x2, y2] =>
    match parseInt? x1, parseInt? y1, parseInt? x2, parseInt? y2 with
    | some x1, some y1, some x2, some y2 =>
      let (x1, x2) := if x1 > x2 then (x2, x1) else (x1, x2)
      let x1 := if x1 < 0 then 0 else x1
      let x2 := if x2 > s.main.w then (s.main.w : Int) else x2
      let (y1, y2) := if y1 > y2 then (y2, y1) else (y1, y2)
      let y1 := if y1 < 0 then 0 else y1
      let y2 := if y2 > s.main.h then (s.main.h : Int) else y2
      if x1 == x2 || y1 == y2 || x1 > x2 || y1 > y2 then (st, ["ok"]) else
      let r : Rect := ⟨x1, y1, x2 - x1, y2 - y1⟩
      let s2 := step s (.modify r)
      let cls := st.cls.map fun d => if d.live then { d with pend := d.pend.add s.main.w r } else d
      ({ st with srv := some s2, cls := cls }, ["ok"])
    | _, _, _, _ => bad
  | some s, [op, i, inc, x, y, w, h] =>
    if op != "req" && op != "reqq" then bad else
    match nat? i, nat? inc, nat? x, nat? y, nat? w, nat? h with
    | some i, some inc, some x, some y, some w, some h =>
      match getCl st i, s.clients.find? (·.id == i) with
      | some d, some c =>
        let d1 : DCl :=
          match clipReq (isMain s c.sw c.sh) s.main.w s.main.h c.sw c.sh ⟨x % 65536, y % 65536, w % 65536, h % 65536⟩ with
          | none => d
          | some R =>
            if R.w ≤ 0 || R.h ≤ 0 then d      -- sraRgnCreateRect: empty region
            else
              let d := { d with rq := d.rq.add s.main.w R }
              if inc == 0 then
                { d with pend := d.pend.add s.main.w R,
                         cpy := d.cpy &&& (rectMask s.main.w (fullRect s) ^^^ rectMask s.main.w R) }
              else d
        let (s2, cls, nfsS, rects) := flushAll s (putCl st.cls d1) i
        let pre := (if op == "req" then s!"upd {i}" else s!"updq {i}") ++
                   (match nfsS with | some t => " " ++ t | none => "")
        let line := if op == "reqq" then pre else
          match rects with
          | none => pre ++ " ?"
          | some rs => pre ++ s!" {rs.length}" ++
              String.join (rs.map fun (p, q) => " " ++ fmtRect p ++ ">" ++ fmtRect q)
        ({ st with srv := some s2, cls := cls }, [line])
      | _, _ => bad
    | _, _, _, _, _, _ => bad
  | some s, ["pic", i] =>
    match nat? i with
    | some i =>
      match getCl st i with
      | none => bad
      | some d =>
        match d.pic with
        | none => (st, [s!"pic {i} ?"])
        | some p =>
          let hs := hex16 (imgHash s.fmt.bpp p)
          if d.pw > s.main.w || d.ph > s.main.h then (st, [s!"pic {i} {hs} stale-size"]) else
          match firstDiff s st.mapped p d.pw d.ph with
          | none => (st, [s!"pic {i} {hs} eq"])
          | some (x, y, got, want) => (st, [s!"pic {i} {hs} DIFF {x} {y} {hexNat got} {hexNat want}"])
    | none => bad
  | some _, ["picq", i] =>
    match nat? i with
    | some i =>
      match getCl st i with
      | none => bad
      | some _ => (st, [s!"picq {i} eq"])   -- only issued where the property demands equality
    | none => bad
  | some s, ["sfb", i] =>
    match nat? i with
    | some i =>
      match getCl st i, s.clients.find? (·.id == i) with
      | some _, some c => (st, [s!"sfb {i} {hex16 (imgHash s.fmt.bpp (imgOf s c.sw c.sh))}"])
      | _, _ => bad
    | none => bad
  | some s, "ptr" :: i :: x :: y :: rest =>
    let mask? : Option Nat := match rest with
      | [] => some 0
      | [m] => (nat? m).map (· % 256)
      | _ => none
    match nat? i, nat? x, nat? y, mask? with
    | some i, some x, some y, some mask =>
      match getCl st i, s.clients.find? (·.id == i) with
      | some d, some c =>
        let x := x % 65536
        let y := y % 65536
        let (mx, my) := if isMain s c.sw c.sh then (x, y)
                        else (scaleN x c.sw s.main.w, scaleN y c.sh s.main.h)
        let ignored := match st.owner with
          | some j => j != i
          | none => false
        let (d', evs, owner') : DCl × List (Nat × Nat × Nat) × Option Nat :=
          if ignored then (d, [], st.owner) else
          let owner' := if mask == 0 then none else some i
          if mask != d.lastBtn || st.defer == 0 then
            let pre := match d.lastPtr with
              | some (lx, ly) => [(d.lastBtn, lx, ly)]
              | none => []
            ({ d with lastPtr := none, lastBtn := mask }, pre ++ [(mask, mx, my)], owner')
          else ({ d with lastPtr := some (mx, my), lastBtn := mask }, [], owner')
        let (s2, cls, _, _) := flushAll s (putCl st.cls d') i
        let line := s!"ptr {i} {evs.length}" ++ String.join (evs.map fun (m, a, b) => s!" {m},{a},{b}")
        ({ st with srv := some s2, cls := cls, owner := owner' }, [line])
      | _, _ => bad
    | _, _, _, _ => bad
  | some s, ["defer", ms] =>
    -- `defer MS`: set the pointer defer time, MS = 0 flushes what is coalesced
    match nat? ms with
    | some ms =>
      if ms > 10000000 then bad else
      let doFlush := ms == 0
      let evs := if doFlush then flushPtr st.cls else []
      let cls1 := if doFlush then st.cls.map fun d => { d with lastPtr := none } else st.cls
      let (s2, cls, _, _) := if doFlush then flushAll s cls1 0 else (s, cls1, none, some [])
      ({ st with srv := some s2, cls := cls, defer := ms }, [s!"defer {ms}" ++ fmtPtrEvs evs])
    | none => bad
  | some s, ["ptrflush"] =>
    let evs := flushPtr st.cls
    let cls1 := st.cls.map fun d => { d with lastPtr := none }
    let (s2, cls, _, _) := flushAll s cls1 0
    ({ st with srv := some s2, cls := cls }, ["ptrflush" ++ fmtPtrEvs evs])
  | some s, ["scalecut", i, _] =>
    -- truncated SetScale message followed by EOF: rfbReadExact fails, rfbCloseClient, reaped
    match nat? i with
    | some i =>
      match getCl st i with
      | none => bad
      | some d =>
        let s1 := step s (.leave i)
        let (s2, cls, _, _) := flushAll s1 (putCl st.cls { d with live := false }) i
        ({ st with srv := some s2, cls := cls, owner := if st.owner == some i then none else st.owner }, ["ok"])
    | none => bad
  | some s, ["leave", i] =>
    match nat? i with
    | some i =>
      match getCl st i with
      | none => bad
      | some d =>
        let s1 := step s (.leave i)
        let (s2, cls, _, _) := flushAll s1 (putCl st.cls { d with live := false }) i
        ({ st with srv := some s2, cls := cls, owner := if st.owner == some i then none else st.owner }, ["ok"])
    | none => bad
  | some _, ["corr", fw, fh, tw, th, x, y, w, h] =>
    match nat? fw, nat? fh, nat? tw, nat? th, nat? x, nat? y, nat? w, nat? h with
    | some fw, some fh, some tw, some th, some x, some y, some w, some h =>
      if fw < 1 || fh < 1 || tw < 1 || th < 1 then bad else
      let c := corr false fw fh tw th ⟨x, y, w, h⟩
      (st, [s!"corr {c.x} {c.y} {c.w} {c.h}"])
    | _, _, _, _, _, _, _, _ => bad
  | some _, [op, fw, tw, x] =>
    if op != "sx" && op != "sy" then bad else
    match nat? fw, nat? tw, nat? x with
    | some fw, some tw, some x =>
      if fw < 1 || tw < 1 then bad else (st, [s!"{op} {scaleN x fw tw}"])
    | _, _, _ => bad
  | some _, ["relx", lim] =>
    match nat? lim with
    | some lim => (st, [s!"relx {lim} {lim * lim * (lim + 1)} 0"])
    | none => bad
  | some _, ["relr", n, _] =>
    match nat? n with
    | some n => (st, [s!"relr {n} 0"])
    | none => bad
  | some _, ["corrsum", lim] =>
    match nat? lim with
    | some lim => (st, [s!"corrsum {hex16 (corrSum lim)}"])
    | none => bad
  | some _, ["corrrnd", n, seed] =>
    match nat? n, nat? seed with
    | some n, some seed => (st, [s!"corrrnd {hex16 (corrRnd n (UInt64.ofNat seed))}"])
    | _, _ => bad
  | some _, _ => bad

def main : IO Unit := runDriver ({} : DState) dstep
