def main : IO Unit := IO.println "driver C17: not built yet"
