def main : IO Unit := IO.println "driver C07: not built yet"
