import VncModel.Basic.Proto
import VncModel.Client.Session
/-! Line-protocol driver for the LibVNCClient model (C07 and C08).  Same script as harness/c07.c. -/
open VncModel VncModel.Client VncModel.Proto VncModel.Enc.Spec

structure DState where
  st : Option St := none
  srv : Bytes := []
  dead : Bool := false
  zq : List (Nat × Bytes × Bytes) := []
  fbmode : Nat := 0

def showCb (s : St) : String := if s.cb.isEmpty then "-" else ",".intercalate s.cb.reverse

def showFb (s : St) : String :=
  if s.fbUnk || s.fb.px.any (· ≥ poison) then s!"fb={s.fb.w}:{s.fb.h}:?" else s!"fb={s.fb.w}:{s.fb.h}:{hex8 (fbCrc s.fmt s.fb)}"

/-- the specification decoders disagree with the client model on this stream -/
def specDiff (s : St) : String :=
  if s.specUnk ∨ s.fbUnk ∨ s.fb.px.any (· ≥ poison) then "" else
  if s.specFb.w = s.fb.w ∧ s.specFb.h = s.fb.h ∧ fbCrc s.fmt s.specFb = fbCrc s.fmt s.fb then "" else " spec=DIFF"

def stateLine (tag : String) (s : St) (left : Nat) : String :=
  s!"{tag} T {showFb s} cb={showCb s} out={hex s.out} left={left}{specDiff s}"

def fresh (s : St) : St := { s with out := [], cb := [] }

def parseFmt (t : List String) : Option PixFmt :=
  match t.map String.toNat? with
  | [some bpp, some depth, some be, some tc, some rm, some gm, some bm, some rs, some gs, some bs] =>
    some ⟨bpp, depth, be = 1, tc = 1, rm, gm, bm, rs, gs, bs⟩
  | _ => none

def dstep (d : DState) (toks : List String) : DState × List String :=
  match toks with
  | "client" :: rest =>
    if d.st.isSome ∨ rest.length ≠ 13 then (d, ["bad-op"]) else
    match parseFmt (rest.take 10) with
    | none => (d, ["bad-op"])
    | some f =>
      let enc := (rest.getD 10 "").drop 4 |>.toString
      let encs := if enc = "-" then ["tight", "zrle", "ultra", "copyrect", "hextile", "zlib", "corre", "rre", "raw"]
                  else (enc.splitOn "+").filter (· ≠ "")
      let cur := (rest.getD 11 "") = "cursor=1"
      let fbm := ((rest.getD 12 "").drop 7).toString.toNat?.getD 0
      let lim := if fbm = 2 then 8388608 else 268435456
      ({ d with st := some { fmt := f, encs := encs, cursor := cur, allocLimit := lim }, fbmode := fbm }, ["ok"])
  | "adopt" :: rest =>
    -- the application replaces client->format in its first MallocFrameBuffer callback, i.e. before
    -- SetFormatAndEncodings and before anything is decoded: the session runs in that format
    match d.st, parseFmt rest with
    | some s, some f => if d.dead then (d, ["bad-op"]) else ({ d with st := some { s with fmt := f } }, ["ok"])
    | _, _ => (d, ["bad-op"])
  | "setformat" :: rest =>
    -- the application changes client->format in mid-session, calls SetFormatAndEncodings and
    -- re-allocates its framebuffer (MallocFrameBuffer) for the new pixel size
    match d.st, parseFmt rest with
    | some s, some f =>
      if d.dead then (d, ["bad-op"]) else
      let s := setFormatAndEncodings { fresh s with fmt := f }
      match resize s s.fb.w s.fb.h with
      | .ok s => ({ d with st := some s }, [stateLine "setformat" s d.srv.length])
      | _ => ({ d with dead := true }, ["setformat F"])
    | _, _ => (d, ["bad-op"])
  | ["wait"] =>
    -- WaitForMessage(client, 0): something to handle = unread bytes, wherever they are (socket or read-ahead buffer)
    match d.st with
    | some _ => if d.dead then (d, ["bad-op"]) else (d, [s!"wait {if d.srv.isEmpty then 0 else 1}"])
    | none => (d, ["bad-op"])
  | ["seg", _] => (d, ["ok"])
  | ["eos", _] => (d, ["ok"])
  | ["z", id, hz, hp] =>
    match id.toNat?, unhex? hz, unhex? hp with
    | some i, some z, some p => ({ d with zq := d.zq ++ [(i, z, p)] }, ["ok"])
    | _, _, _ => (d, ["ok"])
  | ["init", hx] =>
    match d.st, unhex? hx with
    | some s, some b =>
      if d.dead then (d, ["bad-op"]) else
      let srv := d.srv ++ b
      match initClient { fresh s with zq := d.zq } srv with
      | .ok (s, rest) =>
        let nm := s.name.takeWhile (· ≠ 0)
        ({ d with st := some s, srv := rest, zq := s.zq },
         [s!"init T {s.fb.w} {s.fb.h} name={hex nm} cb={showCb s} out={hex s.out} left={rest.length}"])
      | .no => ({ d with st := none, dead := true, srv := [] }, ["init F"])
      | .unk why => ({ d with st := none, dead := true, srv := [] }, [s!"init ? {why}"])
    | _, _ => (d, ["bad-op"])
  | ["feed", hx] =>
    match d.st, unhex? hx with
    | some _, some b => if d.dead then (d, ["bad-op"]) else ({ d with srv := d.srv ++ b }, ["ok"])
    | _, _ => (d, ["bad-op"])
  | ["feedrep", hx, n] =>
    match d.st, unhex? hx, n.toNat? with
    | some _, some b, some n =>
      if d.dead ∨ n > 4000000 ∨ b.length * n > 67108864 then (d, ["bad-op"])
      else ({ d with srv := d.srv ++ (List.replicate n b).flatten }, ["ok"])
    | _, _, _ => (d, ["bad-op"])
  | ["msg", hx] =>
    match d.st, unhex? hx with
    | some s, some b =>
      if d.dead then (d, ["bad-op"]) else
      let srv := d.srv ++ b
      match handleMessage { fresh s with zq := d.zq } srv with
      | .ok (s, rest) => ({ d with st := some s, srv := rest, zq := s.zq }, [stateLine "msg" s rest.length])
      | .no => ({ d with dead := true, srv := [] }, ["msg F"])
      | .unk why => ({ d with dead := true, srv := [] }, [s!"msg ? {why}"])
    | _, _ => (d, ["bad-op"])
  | ["drain"] =>
    match d.st with
    | some s =>
      if d.dead then (d, ["bad-op"]) else
      let rec go : Nat → Nat → St → Bytes → (Nat × Res (St × Bytes))
        | 0, calls, s, bs => (calls, .ok (s, bs))
        | fuel + 1, calls, s, bs =>
          if bs.isEmpty then (calls, .ok (s, bs)) else
          match handleMessage s bs with
          | .ok (s, rest) => go fuel (calls + 1) s rest
          | .no => (calls + 1, .no)
          | .unk w => (calls + 1, .unk w)
      match go 10000 0 { fresh s with zq := d.zq } d.srv with
      | (calls, .ok (s, rest)) =>
        ({ d with st := some s, srv := rest, zq := s.zq }, [s!"calls={calls} " ++ stateLine "drain" s rest.length])
      | (calls, .no) => ({ d with dead := true, srv := [] }, [s!"calls={calls} drain F"])
      | (calls, .unk why) => ({ d with dead := true, srv := [] }, [s!"calls={calls} drain ? {why}"])
    | none => (d, ["bad-op"])
  | ["fill", x, y, w, h, c] =>
    match d.st, x.toNat?, y.toNat?, w.toNat?, h.toNat?, c.toNat? with
    | some s, some x, some y, some w, some h, some c =>
      if d.dead then (d, ["bad-op"]) else
      let s := { fresh s with fb := fillRectangle s.fb x y w h (c % 2 ^ (8 * s.bpp)), specUnk := true }
      ({ d with st := some s }, [stateLine "fill" s d.srv.length])
    | _, _, _, _, _, _ => (d, ["bad-op"])
  | ["copy", sx, sy, w, h, dx, dy] =>
    match d.st, [sx, sy, w, h, dx, dy].map String.toNat? with
    | some s, [some sx, some sy, some w, some h, some dx, some dy] =>
      if d.dead then (d, ["bad-op"]) else
      let s := { fresh s with fb := copyFromRect s.fb sx sy w h dx dy, specUnk := true }
      ({ d with st := some s }, [stateLine "copy" s d.srv.length])
    | _, _ => (d, ["bad-op"])
  | ["bitmap", x, y, w, h, hx] =>
    match d.st, [x, y, w, h].map String.toNat?, unhex? hx with
    | some s, [some x, some y, some w, some h], some b =>
      if d.dead ∨ b.length ≠ w * h * s.bpp then (d, ["bad-op"]) else
      match readPixels s.bpp (w * h) b with
      | some (ps, _) =>
        let s := { fresh s with fb := copyRectangle s.fb x y w h ps, specUnk := true }
        ({ d with st := some s }, [stateLine "bitmap" s d.srv.length])
      | none => (d, ["bad-op"])
    | _, _, _ => (d, ["bad-op"])
  | ["req", x, y, w, h, i] =>
    match d.st, [x, y, w, h, i].map String.toNat? with
    | some s, [some x, some y, some w, some h, some i] =>
      if d.dead then (d, ["bad-op"]) else
      let s := sendFBUR (fresh s) (x % 65536) (y % 65536) (w % 65536) (h % 65536) (i ≠ 0)
      ({ d with st := some s }, [s!"req T out={hex s.out}"])
    | _, _ => (d, ["bad-op"])
  | ["fbdump"] =>
    match d.st with
    | some s => if d.dead then (d, ["bad-op"]) else (d, [hex (s.fb.px.toList.flatMap (pixBytes s.bpp))])
    | none => (d, ["bad-op"])
  | ["end"] => ({ d with st := none, dead := true }, ["ok"])
  | _ => (d, ["bad-op"])

def main : IO Unit := runDriver ({} : DState) dstep
