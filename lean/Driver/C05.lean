def main : IO Unit := IO.println "driver C05: not built yet"
