import VncModel.Basic.Proto
import VncModel.Auth.Model
import VncModel.Des.Des
import VncModel.Des.Weak
/-! Line-protocol driver for the authentication model (C05). Same script as harness/c05.c.
`mode unfixed` switches to the behaviour of the code before fixes/C05-*.diff (used only to validate
the unfixed variant of the model against an unfixed tree; the check always runs `fixed`). -/
open VncModel VncModel.Auth VncModel.Proto

structure DState where
  fixed : Bool := true
  cryptoFail : Bool := false            -- fault injection: the back-end cannot open a DES cipher
  screens : List Screen := []
  proc : Proc := {}
  ever : List Nat := []                 -- connection ids in increasing order
  reported : List (Nat × Nat) := []     -- cid ↦ number of sent messages already printed

def be32 (n : Nat) : List UInt8 :=
  [UInt8.ofNat (n / 16777216), UInt8.ofNat (n / 65536), UInt8.ofNat (n / 256), UInt8.ofNat n]

def wire (scr : Option Screen) : Msg → List UInt8
  | .version => "RFB 003.008\n".toUTF8.toList
  | .secTypes l => UInt8.ofNat l.length :: l.map UInt8.ofNat
  | .secType33 t => be32 t
  | .challenge c => c
  | .secResult ok => be32 (if ok then Gen.C05.rfbVncAuthOK else Gen.C05.rfbVncAuthFailed)
  | .reason s => be32 s.length ++ s
  | .serverInit => match scr with | some s => s.serverInit | none => []
  | .tightTunnelCaps => be32 0
  | .tightAuthCaps n => be32 n ++ (if n = 0 then [] else Gen.C05.tightCapAuthVNC)
  | .tightInteractionCaps => []          -- content not observed (only its length: `caps=`)
  | .appMarker => "EXT!".toUTF8.toList

/-- With a failing back-end the fixed rfbEncryptBytes yields random bytes (modelled as a value no
16-byte response equals), the unfixed one leaves the challenge in place; rfbDecryptPasswdFromFile
returns NULL in both. -/
def envOf (fixed cryptoFail : Bool) : Env :=
  if cryptoFail then
    { enc := if fixed then (fun _ _ => []) else (fun _ c => c)
      decFile := fun _ => none
      parseVer := parseVersion
      app := fun _ c => appClose c }
  else
    { enc := if fixed then Des.rfbEncryptBytes else Des.rfbEncryptBytesUnfixed
      decFile := Des.decryptPasswdFile Gen.C05.fixedkey
      parseVer := parseVersion
      app := fun _ c => appClose c }

def stName : St → String
  | .ver => "ver" | .sec => "sec" | .auth => "auth" | .init => "init" | .initShared => "initsh"
  | .normal => "normal"

def insertSorted (x : Nat) : List Nat → List Nat
  | [] => [x]
  | y :: ys => if x ≤ y then x :: y :: ys else y :: insertSorted x ys

def reportedOf (s : DState) (cid : Nat) : Nat :=
  match s.reported.find? (fun p => p.1 == cid) with
  | some p => p.2
  | none => 0

/-- observation line of one connection; marks everything sent so far as printed -/
def obs (s : DState) (cid : Nat) : DState × String :=
  match getConn s.proc cid with
  | none => (s, s!"c{cid} gone out=-")
  | some c =>
    let k := reportedOf s cid
    let fresh := (c.sent.take (c.sent.length - k)).reverse
    let bytes := fresh.flatMap (wire s.screens[c.screen]?)
    let caps := if fresh.contains .tightInteractionCaps then s!" caps={Gen.C05.tightInteractionCapsLen}" else ""
    let line := s!"c{cid} {stName c.st} {if c.isOpen then "open" else "closed"} vo={if c.viewOnly then 1 else 0} out={hex bytes}{caps}"
    ({ s with reported := (cid, c.sent.length) :: s.reported.filter (fun p => p.1 != cid) }, line)

def ev (s : DState) (e : Ev) : DState :=
  { s with proc := step s.fixed (envOf s.fixed s.cryptoFail) s.screens s.proc e }

/-- the harness calls rfbProcessClientMessage while the message the state expects is complete -/
def pump (s : DState) (cid : Nat) : Nat → DState
  | 0 => s
  | fuel + 1 =>
    match getConn s.proc cid with
    | none => s
    | some c =>
      if c.isOpen && c.st != .normal && c.st != .initShared && need c.st ≤ c.inbuf.length then
        pump (ev s (.proc cid)) cid fuel
      else s

def b? (s : String) : Option Bool := if s = "1" then some true else if s = "0" then some false else none

def unhexAll (l : List String) : Option (List (List UInt8)) := l.mapM unhex?

def dstep (s : DState) (toks : List String) : DState × List String :=
  match toks with
  | ["mode", m] =>
    if m = "fixed" then ({ s with fixed := true }, ["ok"])
    else if m = "unfixed" then ({ s with fixed := false }, ["ok"])
    else (s, ["bad-op"])
  | ["tight", b] =>
    match b? b with
    | some on =>
      if on == s.proc.handlers.contains .tight then (s, ["bad-op"])
      else (ev s (if on then .register .tight else .unregister .tight), ["ok"])
    | none => (s, ["bad-op"])
  | ["ext", t] =>
    match t.toNat? with
    | some t => if t > 255 then (s, ["bad-op"]) else (ev s (.register (.app t)), ["ok"])
    | none => (s, ["bad-op"])
  | ["unext", t] =>
    match t.toNat? with
    | some t => if t > 255 then (s, ["bad-op"]) else (ev s (.unregister (.app t)), ["ok"])
    | none => (s, ["bad-op"])
  | ["cryptofail", b] =>
    match b? b with
    | some b => ({ s with cryptoFail := b }, ["ok"])
    | none => (s, ["bad-op"])
  | "screen" :: sid :: kind :: rest =>
    match sid.toNat? with
    | none => (s, ["bad-op"])
    | some sid =>
      if sid ≠ s.screens.length || sid ≥ 8 then (s, ["bad-op"]) else
      match kind, rest with
      | "none", [si] =>
        match unhex? si with
        | some si => ({ s with screens := s.screens ++ [{ pw := .none, serverInit := si }] }, ["ok"])
        | none => (s, ["bad-op"])
      | "list", fvo :: si :: pws =>
        match parseInt? fvo, unhex? si, unhexAll pws with
        | some fvo, some si, some pws =>
          if pws.length > 16 || pws.any (fun p => p.contains 0) then (s, ["bad-op"]) else
          ({ s with screens := s.screens ++ [{ pw := .list pws fvo, serverInit := si }] }, ["ok"])
        | _, _, _ => (s, ["bad-op"])
      | "file", [si, f] =>
        match unhex? si, (if f = "missing" then some none else (unhex? f).map some) with
        | some si, some content =>
          ({ s with screens := s.screens ++ [{ pw := .file content, serverInit := si }] }, ["ok"])
        | _, _ => (s, ["bad-op"])
      | _, _ => (s, ["bad-op"])
  | ["rand", h] =>
    match unhex? h with
    | some r => if r.length = 16 then (ev s (.setRand r), ["ok"]) else (s, ["bad-op"])
    | none => (s, ["bad-op"])
  | ["conn", cid, sid, rev, pre] =>
    match cid.toNat?, sid.toNat?, parseInt? rev, unhex? pre with
    | some cid, some sid, some rev, some pre =>
      if cid ≥ 64 || s.ever.contains cid || sid ≥ s.screens.length ||
         (pre.length > 0 && pre.take 4 ≠ [82, 70, 66, 32]) then (s, ["bad-op"]) else
      let s := { s with ever := insertSorted cid s.ever }
      let s := ev s (.connect cid sid (rev ≠ 0))
      let s := ev s (.recv cid pre)
      let s := pump s cid 64
      let (s, l) := obs s cid
      (s, [l])
    | _, _, _, _ => (s, ["bad-op"])
  | ["rconn", cid, sid, mode, pre] =>
    match cid.toNat?, sid.toNat?, mode.toNat?, unhex? pre with
    | some cid, some sid, some mode, some pre =>
      if cid ≥ 64 || s.ever.contains cid || sid ≥ s.screens.length || mode > 2 || pre.length > 64 ||
         (pre.length > 0 && pre.take 4 ≠ [82, 70, 66, 32]) then (s, ["bad-op"]) else
      if mode ≠ 1 then (ev s (.reverseFailed sid), ["rc-failed"]) else
      let s := { s with ever := insertSorted cid s.ever }
      let s := ev s (.connect cid sid true)
      let s := ev s (.recv cid pre)
      let s := pump s cid 64
      let (s, l) := obs s cid
      (s, [l])
    | _, _, _, _ => (s, ["bad-op"])
  | [op, cid, h] =>
    if op = "send" || op = "sendnp" then
      match cid.toNat?, unhex? h with
      | some cid, some bytes =>
        if !s.ever.contains cid then (s, ["bad-op"]) else
        let s := ev s (.recv cid bytes)
        let s := if op = "send" then pump s cid 64 else s
        let (s, l) := obs s cid
        (s, [l])
      | _, _ => (s, ["bad-op"])
    else if op = "des" || op = "undes" || op = "refdes" then
      match unhex? cid, unhex? h with
      | some key, some data =>
        if key.length ≠ 8 || data.length % 8 ≠ 0 then (s, ["bad-op"]) else
        if op = "refdes" then (s, [hex (Des.ecb (Des.encryptBlock key) data)])
        else if s.cryptoFail || (!s.fixed && Des.gcryRefuses (key.map Des.reverseByte)) then (s, [s!"0 {hex data}"])
        else if op = "des" then (s, [s!"1 {hex (Des.encryptRfbDes key data)}"])
        else (s, [s!"1 {hex (Des.decryptRfbDes key data)}"])
      | _, _ => (s, ["bad-op"])
    else if op = "encb" then
      match unhex? cid, unhex? h with
      | some pw, some ch =>
        if pw.contains 0 || ch.length ≠ 16 then (s, ["bad-op"])
        else (s, [hex ((envOf s.fixed false).enc pw ch)])
      | _, _ => (s, ["bad-op"])
    else (s, ["bad-op"])
  | ["proc", cid] =>
    match cid.toNat? with
    | some cid =>
      if !s.ever.contains cid then (s, ["bad-op"]) else
      let s := ev s (.proc cid)
      let (s, l) := obs s cid
      (s, [l])
    | none => (s, ["bad-op"])
  | ["close", cid] =>
    match cid.toNat? with
    | some cid =>
      if !s.ever.contains cid then (s, ["bad-op"]) else
      let s := ev s (.peerClose cid)
      let (s, l) := obs s cid
      (s, [l])
    | none => (s, ["bad-op"])
  | ["state"] =>
    if s.ever.isEmpty then (s, ["-"]) else
    (s, [" ".intercalate (s.ever.map (fun cid =>
      match getConn s.proc cid with
      | none => s!"{cid}:gone"
      | some c => s!"{cid}:{stName c.st}:{if c.isOpen then "open" else "closed"}:{if c.viewOnly then 1 else 0}"))])
  | ["store", pw] =>
    match unhex? pw with
    | some pw =>
      if pw.contains 0 then (s, ["bad-op"])
      else if s.cryptoFail then
        -- fixed: fails before the file is touched; original: the padded plaintext is written
        (s, [if s.fixed then "store-failed nofile" else hex (Des.padKey pw)])
      else (s, [hex (Des.storePasswd Gen.C05.fixedkey pw)])
    | none => (s, ["bad-op"])
  | ["load", f] =>
    match unhex? f with
    | some f =>
      match (if s.cryptoFail then none else Des.decryptPasswdFile Gen.C05.fixedkey f) with
      | some pw => (s, [hex pw])
      | none => (s, ["null"])
    | none => (s, ["bad-op"])
  | _ => (s, ["bad-op"])

def main : IO Unit := runDriver ({} : DState) dstep
