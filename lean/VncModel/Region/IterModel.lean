import VncModel.Region.Model
/-!
Small-step model of the rectangle iterator of `rfbregion.c`:
`sraRgnGetIterator`, `sraRgnGetReverseIterator`, `sraReverse`, `sraNextSpan`, `sraRgnIteratorNext`.
Core Lean only (the driver executes it).

C ↔ model
  a pointer into a span list (incl. its two sentinels) ↔ `Cursor` : 0 = `&list->front`, k (1..n) = the
                                              k-th span, n+1 = `&list->back`; `->_next` = +1,
                                              `->_prev` = -1; `front._prev` / `back._next` are NULL:
                                              following them is a *fault* in the model (`none`)
  `i->sPtrs[0..3]`                          ↔ `s0 s1 s2 s3`; `s0,s1` point into the region's band list,
                                              `s2,s3` into the subspan list of the band at `s0`
  `i->ptrPos`                               ↔ `ptrPos : Nat`; the C `ptrPos -= 2; if (ptrPos < 0) return 0`
                                              is `if ptrPos < 2 then return 0 else ptrPos -= 2`
  `i->ptrSize`, the `realloc` growth        ↔ nothing: with two levels `ptrPos+2 > ptrSize` (4) is never
                                              true (`ptrPos ≤ 2`), and growing would be a no-op here
  `while (sPtrs[ptrPos]->subspan)`          ↔ `if ptrPos = 0`: in a two-level region exactly the bands
                                              (level 0) have a non-NULL `subspan`
  dereferencing a sentinel (`->start`)      ↔ fault (`none`); the refinement theorem shows that no fault
                                              occurs on well-formed regions
-/
namespace VncModel.Rgn

/-- cursors are plain `Nat`s (see the table above) -/
abbrev Cursor := Nat

/-- `p->start/end/subspan`: `none` when `p` is a sentinel (or out of the list) -/
def spanAt {α : Type} (l : List (Span α)) (c : Nat) : Option (Span α) :=
  if c = 0 then none else l[c - 1]?

structure Iter where
  rgn : Region
  reverseX : Bool
  reverseY : Bool
  ptrPos : Nat
  s0 : Nat
  s1 : Nat
  s2 : Nat
  s3 : Nat

/-- `i->sPtrs[k]` -/
def Iter.sGet (it : Iter) (k : Nat) : Nat :=
  match k with
  | 0 => it.s0
  | 1 => it.s1
  | 2 => it.s2
  | _ => it.s3

/-- `i->sPtrs[k] = v` -/
def Iter.sSet (it : Iter) (k : Nat) (v : Nat) : Iter :=
  match k with
  | 0 => { it with s0 := v }
  | 1 => { it with s1 := v }
  | 2 => { it with s2 := v }
  | _ => { it with s3 := v }

/-- `sraRgnGetIterator(s)` -/
def getIterator (r : Region) : Iter :=
  { rgn := r, reverseX := false, reverseY := false, ptrPos := 0,
    s0 := 0, s1 := r.length + 1, s2 := 0, s3 := 0 }

/-- `sraRgnGetReverseIterator(s, reverseX, reverseY)` -/
def getReverseIterator (r : Region) (reverseX reverseY : Bool) : Iter :=
  let i := getIterator r
  let i := if reverseY then { i with s1 := 0, s0 := r.length + 1 } else i
  { i with reverseX := reverseX, reverseY := reverseY }

/-- `sraReverse(i)`: `((ptrPos&2) && reverseX) || (!(ptrPos&2) && reverseY)` -/
def sraReverse (it : Iter) : Bool :=
  ((it.ptrPos &&& 2 != 0) && it.reverseX) || (!(it.ptrPos &&& 2 != 0) && it.reverseY)

/-- length of the list `sPtrs[ptrPos]` points into (level 0: the bands; level 2: the x-spans of
the band at `sPtrs[0]`); `none` if `sPtrs[0]` is a sentinel -/
def levelLen (it : Iter) : Option Nat :=
  if it.ptrPos = 0 then some it.rgn.length
  else (spanAt it.rgn it.s0).map fun b => b.sub.length

/-- `sraNextSpan(i)`; `none` = following a NULL link -/
def nextSpan? (it : Iter) : Option Nat :=
  match levelLen it with
  | none => none
  | some n =>
    let c := it.sGet it.ptrPos
    if sraReverse it then (if c = 0 then none else some (c - 1))
    else (if c = n + 1 then none else some (c + 1))

/-- first loop of `sraRgnIteratorNext` ("is the subspan finished?"):
`none` = fault, `some none` = `return 0`, `some (some it)` = loop left with this state -/
def ascend : Nat → Iter → Option (Option Iter)
  | 0, _ => none
  | fuel + 1, it =>
    match nextSpan? it with
    | none => none
    | some nx =>
      if nx = it.sGet (it.ptrPos + 1) then
        (if it.ptrPos < 2 then some none else ascend fuel { it with ptrPos := it.ptrPos - 2 })
      else some (some it)

/-- second loop ("is this a new subspan?") -/
def descend (it : Iter) : Option Iter :=
  if it.ptrPos = 0 then
    match spanAt it.rgn it.s0 with
    | none => none
    | some b =>
      let it := { it with ptrPos := it.ptrPos + 2 }
      if sraReverse it then
        -- sPtrs[ptrPos] = subspan->back._prev; sPtrs[ptrPos+1] = &subspan->front
        some ((it.sSet it.ptrPos b.sub.length).sSet (it.ptrPos + 1) 0)
      else
        -- sPtrs[ptrPos] = subspan->front._next; sPtrs[ptrPos+1] = &subspan->back
        some ((it.sSet it.ptrPos 1).sSet (it.ptrPos + 1) (b.sub.length + 1))
  else some it

inductive Step where
  | fault
  | done
  | yield (it : Iter) (r : Rect)

/-- `sraRgnIteratorNext` after its first loop: step to the next span, descend, report -/
def advance (it : Iter) : Step :=
  match nextSpan? it with
  | none => .fault
  | some nx =>
    match descend (it.sSet it.ptrPos nx) with
    | none => .fault
    | some it =>
      if it.ptrPos % 4 != 2 then .fault   -- "offset is wrong"
      else
        match spanAt it.rgn (it.sGet (it.ptrPos - 2)) with
        | none => .fault
        | some b =>
          match spanAt b.sub (it.sGet it.ptrPos) with
          | none => .fault
          | some x => .yield it ⟨x.s, b.s, x.e, b.e⟩

/-- `sraRgnIteratorNext(i, &r)` -/
def iterNext (it : Iter) : Step :=
  match ascend 3 it with
  | none => .fault
  | some none => .done
  | some (some it) => advance it

/-- call `sraRgnIteratorNext` until it returns 0 -/
def iterRun : Nat → Iter → Option (List Rect)
  | 0, _ => none
  | fuel + 1, it =>
    match iterNext it with
    | .fault => none
    | .done => some []
    | .yield it' r => (iterRun fuel it').map (r :: ·)

/-- everything `sraRgnGetReverseIterator(r, rx, ry)` + repeated `sraRgnIteratorNext` yields -/
def Region.iterAll (r : Region) (reverseX reverseY : Bool) : Option (List Rect) :=
  iterRun (r.countRects + 1) (getReverseIterator r reverseX reverseY)

end VncModel.Rgn
