import VncModel.Region.Basic
/-!
`sraSpanListAnd`: the loop of the model computes the intersection (generic level).
-/
namespace VncModel.Rgn
variable {α β : Type}

/-- part of the termination measure of the And/Subtract loops: 1 while the current destination
span starts before the end of the current source span -/
def flagM (d s : List (Span α)) : Nat :=
  match d, s with
  | dc :: _, sc :: _ => if dc.s < sc.e then 1 else 0
  | _, _ => 0

theorem flagM_le (d s : List (Span α)) : flagM d s ≤ 1 := by
  unfold flagM; split <;> (try split) <;> omega

theorem flagM_cons (dc sc : Span α) (d s : List (Span α)) :
    flagM (dc :: d) (sc :: s) = if dc.s < sc.e then 1 else 0 := rfl

theorem Zip.push {G : α → Prop} {x : Span α} {acc d : List (Span α)}
    (ha : SortedTo G x.s acc) (hx : x.s < x.e) (hg : G x.sub) (hd : SortedFrom G x.e d) :
    Zip G (x :: acc) d := by
  cases d with
  | nil => exact ⟨x.e, Int.le_refl _, hx, hg, ha⟩
  | cons d2 d =>
    simp only [SortedFrom] at hd
    exact ⟨⟨hd.1, hx, hg, ha⟩, hd.2⟩

theorem andLoop_spec {ops : SubOps α} {G : α → Prop} {D : α → β → Prop} (L : Laws ops G D)
    (fuel : Nat) (acc d s : List (Span α))
    (hf : 3 * s.length + 2 * d.length + flagM d s ≤ fuel)
    (hz : Zip G acc d) (hs : ∃ lo, SortedFrom G lo s) :
    Sorted G (andLoop ops fuel acc d s) ∧
    ∀ y q, den D (andLoop ops fuel acc d s) y q ↔ (den D acc y q ∨ (den D d y q ∧ den D s y q)) := by
  fun_induction andLoop ops fuel acc d s
  case case7 fuel acc dc drest sc srest h1 h2 dc1 drest1 dc2 sub' hand mp s' h3 ih =>
    obtain ⟨hacc, hdc, hgd, hdrest⟩ := hz
    obtain ⟨lo, hlo, hsc, hgs, hsrest⟩ := hs
    have hdc2 : dc2.sub = dc.sub ∧ dc2.s = (if sc.s > dc.s then sc.s else dc.s) ∧
        dc2.e = (if sc.e < dc.e then sc.e else dc.e) := by
      simp only [dc2, dc1]; split <;> split <;> simp_all
    have hdr1 : drest1 = if sc.e < dc.e then ⟨sc.e, dc.e, dc.sub⟩ :: drest else drest := by
      simp only [drest1, dc1]; split <;> simp
    obtain ⟨hs2, hss, hse⟩ := hdc2
    rw [hs2] at hand
    obtain ⟨hgsub, hdsub⟩ := L.and_some _ _ _ hgd hgs hand
    have hfl := flagM_le drest1 s'
    simp only [flagM_cons, List.length_cons] at hf
    by_cases c1 : sc.e < dc.e <;> by_cases c2 : sc.s > dc.s <;> by_cases c3 : sc.e ≤ dc.e <;>
      simp only [c1, c2, if_true, if_false] at hss hse hdr1 <;> (try omega)
    all_goals
      obtain ⟨m1, m2, m3, m4, m5⟩ : mp.1.e = dc2.e ∧ mp.1.sub = sub' ∧ mp.1.s ≤ dc2.s ∧
          SortedTo G mp.1.s mp.2 ∧ ∀ y q, den D (mp.1 :: mp.2) y q ↔
            den D ({ s := dc2.s, e := dc2.e, sub := sub' } :: acc) y q :=
        mergePrev_spec (G := G) (D := D) ops.eq L.eq_sound acc
        { s := dc2.s, e := dc2.e, sub := sub' } (hacc.mono (by simp only [hss]; omega))
        (by simp only [hss, hse]; omega)
      have hs' : s' = if sc.e ≤ dc2.e then srest else sc :: srest := by
        simp only [s', m1]
      simp only [hse, c3, Int.le_refl, if_true, if_false] at hs'
      have hpre := ih ?_ ?_ ?_
      · refine ⟨hpre.1, ?_⟩
        intro y q
        rw [hpre.2 y q, m5 y q]
        have b1 : den D drest y q → dc.e ≤ y := den_lb hdrest
        have b2 : den D srest y q → sc.e ≤ y := den_lb hsrest
        have hq := hdsub q
        simp only [hdr1, hs', hse, hss, den_cons]
        clear_value mp s' drest1 dc2 dc1
        clear ih hpre hf m5 hdsub
        grind
      · -- fuel
        simp only [hdr1, hs', List.length_cons] at hfl ⊢
        omega
      · -- zipper
        apply Zip.push m4 (by omega) (m2 ▸ hgsub)
        rw [m1, hse, hdr1]
        first
          | exact hdrest
          | exact ⟨Int.le_refl _, by assumption, hgd, hdrest⟩
      · rw [hs']
        first
          | exact ⟨_, hsrest⟩
          | exact ⟨lo, hlo, hsc, hgs, hsrest⟩
  case case1 acc d s =>
    -- out of fuel: by hf both lists are empty
    have hd : d = [] := by
      cases d with
      | nil => rfl
      | cons _ _ => exfalso; simp only [List.length_cons] at hf; omega
    subst hd
    obtain ⟨m, hm⟩ := hz
    exact ⟨by simpa using sorted_reverse_append hm (d := []) trivial, by simp [den_reverse]⟩
  case case2 fuel acc s =>
    obtain ⟨m, hm⟩ := hz
    exact ⟨by simpa using sorted_reverse_append hm (d := []) trivial, by simp [den_reverse]⟩
  case case3 fuel acc dc drest =>
    obtain ⟨m, hm⟩ := hz.acc
    exact ⟨by simpa using sorted_reverse_append hm (d := []) trivial, by simp [den_reverse]⟩
  case case4 fuel acc dc drest sc srest h1 ih =>
    obtain ⟨lo, hlo, hsc, hgs, hsrest⟩ := hs
    have hfl := flagM_le (dc :: drest) srest
    simp only [flagM_cons, List.length_cons] at hf
    have hpre := ih (by simp only [List.length_cons]; omega) hz ⟨_, hsrest⟩
    refine ⟨hpre.1, ?_⟩
    intro y q
    rw [hpre.2 y q]
    obtain ⟨hacc, hdc, hgd, hdrest⟩ := hz
    have b1 : den D (dc :: drest) y q → dc.s ≤ y :=
      den_lb (show SortedFrom G dc.s (dc :: drest) from ⟨Int.le_refl _, hdc, hgd, hdrest⟩)
    simp only [den_cons] at b1 ⊢
    clear ih hpre hf
    grind
  case case5 fuel acc dc drest sc srest h1 h2 ih =>
    obtain ⟨lo, hlo, hsc, hgs, hsrest⟩ := hs
    obtain ⟨hacc, hdc, hgd, hdrest⟩ := hz
    have hfl := flagM_le drest (sc :: srest)
    simp only [flagM_cons, List.length_cons] at hf
    have hz' : Zip G acc drest := by
      cases drest with
      | nil => exact ⟨_, hacc⟩
      | cons d2 drest =>
        simp only [SortedFrom] at hdrest
        exact ⟨hacc.mono (by omega), hdrest.2⟩
    have hpre := ih (by simp only [List.length_cons]; omega) hz' ⟨lo, hlo, hsc, hgs, hsrest⟩
    refine ⟨hpre.1, ?_⟩
    intro y q
    rw [hpre.2 y q]
    have b2 : den D srest y q → sc.e ≤ y := den_lb hsrest
    simp only [den_cons]
    clear ih hpre hf
    grind
  case case6 fuel acc dc drest sc srest h1 h2 dc1 drest1 dc2 hand ih =>
    obtain ⟨hacc, hdc, hgd, hdrest⟩ := hz
    obtain ⟨lo, hlo, hsc, hgs, hsrest⟩ := hs
    have hs2 : dc2.sub = dc.sub := by
      simp only [dc2, dc1]; split <;> split <;> simp_all
    have hdr1 : drest1 = if sc.e < dc.e then ⟨sc.e, dc.e, dc.sub⟩ :: drest else drest := by
      simp only [drest1, dc1]; split <;> simp
    rw [hs2] at hand
    have hnone := L.and_none _ _ hgd hgs hand
    have hfl := flagM_le drest1 (sc :: srest)
    have hlt : dc.s < sc.e := by omega
    simp only [flagM_cons, List.length_cons, hlt, if_true] at hf
    by_cases c1 : sc.e < dc.e <;> simp only [c1, if_true, if_false] at hdr1
    all_goals
      have hpre := ih ?_ ?_ ⟨lo, hlo, hsc, hgs, hsrest⟩
      · refine ⟨hpre.1, ?_⟩
        intro y q
        rw [hpre.2 y q]
        have b1 : den D drest y q → dc.e ≤ y := den_lb hdrest
        have b2 : den D srest y q → sc.e ≤ y := den_lb hsrest
        have hq := hnone q
        simp only [hdr1, den_cons]
        clear_value drest1 dc2 dc1
        clear ih hpre hf hnone
        grind
      · simp only [hdr1, flagM_cons, List.length_cons, Int.lt_irrefl, if_false] at hfl ⊢
        omega
    · rw [hdr1]
      exact ⟨hacc.mono (show dc.s ≤ sc.e by omega), by assumption, hgd, hdrest⟩
    · rw [hdr1]
      cases drest with
      | nil => exact ⟨_, hacc⟩
      | cons d2 drest =>
        simp only [SortedFrom] at hdrest
        exact ⟨hacc.mono (by omega), hdrest.2⟩
  case case8 fuel acc dc drest sc srest h1 h2 dc1 drest1 dc2 sub' hand mp s' h3 ih =>
    -- dead branch of the C code: after the split `d_curr->end ≤ s_curr->end` always holds
    exfalso
    obtain ⟨hacc, hdc, hgd, hdrest⟩ := hz
    obtain ⟨lo, hlo, hsc, hgs, hsrest⟩ := hs
    have hdc2 : dc2.s = (if sc.s > dc.s then sc.s else dc.s) ∧
        dc2.e = (if sc.e < dc.e then sc.e else dc.e) := by
      simp only [dc2, dc1]; split <;> split <;> simp_all
    obtain ⟨hss, hse⟩ := hdc2
    have m1 : mp.1.e = dc2.e :=
      (mergePrev_spec (G := G) (D := D) ops.eq L.eq_sound acc
        { s := dc2.s, e := dc2.e, sub := sub' } (hacc.mono (by simp only [hss]; split <;> omega))
        (by simp only [hss, hse]; split <;> split <;> omega)).1
    rw [m1, hse] at h3
    split at h3 <;> omega

/-- `sraSpanListAnd` on well-formed operands: well-formed result denoting the intersection -/
theorem spanAnd_spec {ops : SubOps α} {G : α → Prop} {D : α → β → Prop} (L : Laws ops G D)
    (dest src : List (Span α)) (hd : Sorted G dest) (hs : Sorted G src) :
    Sorted G (spanAnd ops dest src) ∧
    ∀ y q, den D (spanAnd ops dest src) y q ↔ (den D dest y q ∧ den D src y q) := by
  have h := andLoop_spec L (3 * src.length + 2 * dest.length + 1) [] dest src
    (by have := flagM_le dest src; omega) (Zip.of_sorted hd) hs.to_from
  refine ⟨h.1, fun y q => ?_⟩
  rw [spanAnd, h.2 y q]
  simp

end VncModel.Rgn
