import VncModel.Region.Inst
/-!
Offset, emptiness, iteration (`rects`), rectangle count, clipping helpers.
-/
namespace VncModel.Rgn

/-! ### sortedness as `Pairwise` (the usual formulation) -/

theorem SortedFrom.all {α : Type} {G : α → Prop} {lo : Int} {l : List (Span α)}
    (h : SortedFrom G lo l) : ∀ sp ∈ l, lo ≤ sp.s ∧ sp.s < sp.e ∧ G sp.sub := by
  induction l generalizing lo with
  | nil => simp
  | cons a l ih =>
    intro sp hsp
    rcases List.mem_cons.mp hsp with rfl | hm
    · exact ⟨h.1, h.2.1, h.2.2.1⟩
    · have := ih h.2.2.2 sp hm
      exact ⟨by have := h.1; have := h.2.1; omega, this.2⟩

theorem SortedFrom.pairwise {α : Type} {G : α → Prop} {lo : Int} {l : List (Span α)}
    (h : SortedFrom G lo l) : l.Pairwise (fun a b => a.e ≤ b.s) := by
  induction l generalizing lo with
  | nil => exact List.Pairwise.nil
  | cons a l ih =>
    exact List.Pairwise.cons (fun b hb => (h.2.2.2.all b hb).1) (ih h.2.2.2)

theorem Sorted.pairwise {α : Type} {G : α → Prop} {l : List (Span α)} (h : Sorted G l) :
    l.Pairwise (fun a b => a.e ≤ b.s) := by
  obtain ⟨lo, hlo⟩ := h.to_from
  exact hlo.pairwise

theorem Sorted.all {α : Type} {G : α → Prop} {l : List (Span α)} (h : Sorted G l) :
    ∀ sp ∈ l, sp.s < sp.e ∧ G sp.sub := by
  obtain ⟨lo, hlo⟩ := h.to_from
  exact fun sp hsp => (hlo.all sp hsp).2

theorem sortedFrom_of_pairwise {α : Type} {G : α → Prop} (lo : Int) (l : List (Span α))
    (hp : l.Pairwise (fun a b => a.e ≤ b.s)) (ha : ∀ sp ∈ l, sp.s < sp.e ∧ G sp.sub)
    (hlo : ∀ sp ∈ l, lo ≤ sp.s) : SortedFrom G lo l := by
  induction l generalizing lo with
  | nil => trivial
  | cons a l ih =>
    rw [List.pairwise_cons] at hp
    have h1 := ha a (by simp)
    exact ⟨hlo a (by simp), h1.1, h1.2,
      ih a.e hp.2 (fun sp hsp => ha sp (by simp [hsp])) (fun sp hsp => hp.1 sp hsp)⟩

/-- `Sorted` is exactly "pairwise ordered and disjoint, every span non-empty and good" -/
theorem sorted_iff {α : Type} {G : α → Prop} {l : List (Span α)} :
    Sorted G l ↔ (l.Pairwise (fun a b => a.e ≤ b.s) ∧ ∀ sp ∈ l, sp.s < sp.e ∧ G sp.sub) := by
  refine ⟨fun h => ⟨h.pairwise, h.all⟩, ?_⟩
  rintro ⟨hp, ha⟩
  cases l with
  | nil => trivial
  | cons a l =>
    exact Sorted.of_from (sortedFrom_of_pairwise a.s (a :: l) hp ha (by
      intro sp hsp
      rcases List.mem_cons.mp hsp with rfl | hm
      · exact Int.le_refl _
      · rw [List.pairwise_cons] at hp
        have := hp.1 sp hm
        have := (ha a (by simp)).1
        omega))

/-! ### offset -/

theorem xoffset_den (l : XList) (dx x : Int) :
    XList.den (l.map fun sp => (⟨sp.s + dx, sp.e + dx, ()⟩ : Span Unit)) x ↔ XList.den l (x - dx) := by
  simp only [XList.den, List.mem_map]
  constructor
  · rintro ⟨sp, ⟨sp0, h0, rfl⟩, h1, h2⟩
    exact ⟨sp0, h0, by simp at h1 h2 ⊢; omega⟩
  · rintro ⟨sp, h0, h1, h2⟩
    exact ⟨_, ⟨sp, h0, rfl⟩, by simp; omega⟩

theorem sortedFrom_map {α γ : Type} {G : α → Prop} {G' : γ → Prop} (f : α → γ) (d : Int)
    (hG : ∀ a, G a → G' (f a)) (lo : Int) (l : List (Span α)) (h : SortedFrom G lo l) :
    SortedFrom G' (lo + d) (l.map fun sp => ⟨sp.s + d, sp.e + d, f sp.sub⟩) := by
  induction l generalizing lo with
  | nil => trivial
  | cons a l ih =>
    exact ⟨by have := h.1; simp; omega, by have := h.2.1; simp; omega, hG _ h.2.2.1, ih _ h.2.2.2⟩

theorem sorted_map {α γ : Type} {G : α → Prop} {G' : γ → Prop} (f : α → γ) (d : Int)
    (hG : ∀ a, G a → G' (f a)) (l : List (Span α)) (h : Sorted G l) :
    Sorted G' (l.map fun sp => ⟨sp.s + d, sp.e + d, f sp.sub⟩) := by
  obtain ⟨lo, hlo⟩ := h.to_from
  exact Sorted.of_from (sortedFrom_map f d hG lo l hlo)

theorem offset_den (r : Region) (dx dy x y : Int) :
    Region.den (Region.offset r dx dy) x y ↔ Region.den r (x - dx) (y - dy) := by
  simp only [Region.den, Region.offset, List.mem_map]
  constructor
  · rintro ⟨b, ⟨b0, h0, rfl⟩, h1, h2, h3⟩
    exact ⟨b0, h0, by simp at h1; omega, by simp at h2; omega, (xoffset_den _ _ _).mp h3⟩
  · rintro ⟨b, h0, h1, h2, h3⟩
    exact ⟨_, ⟨b, h0, rfl⟩, by simp; omega, by simp; omega, (xoffset_den _ _ _).mpr h3⟩

theorem offset_wf (r : Region) (dx dy : Int) (h : Region.WF r) :
    Region.WF (Region.offset r dx dy) := by
  apply sorted_map (G := GX) (G' := GX)
    (fun xl => xl.map fun sp => (⟨sp.s + dx, sp.e + dx, ()⟩ : Span Unit)) dy _ r h
  intro xl hxl
  exact ⟨sorted_map (G := GUnit) (G' := GUnit) (fun _ => ()) dx (fun _ _ => trivial) xl hxl.1,
    by simpa using hxl.2⟩

/-! ### emptiness -/

theorem isEmpty_iff (r : Region) (h : Region.WF r) :
    Region.isEmpty r = true ↔ ∀ x y, ¬ Region.den r x y := by
  have := r_ne_nil_iff h
  simp only [Region.isEmpty, List.isEmpty_iff]
  constructor
  · intro he x y hd
    exact (this.mpr ⟨x, y, hd⟩) he
  · intro hn
    apply Classical.byContradiction
    intro hne
    obtain ⟨x, y, hd⟩ := this.mp hne
    exact hn x y hd

/-! ### rectangle creation -/

theorem rect_den (x1 y1 x2 y2 x y : Int) :
    Region.den (Region.rect x1 y1 x2 y2) x y ↔ (x1 ≤ x ∧ x < x2 ∧ y1 ≤ y ∧ y < y2) := by
  unfold Region.rect
  split <;> simp [Region.den, XList.den] <;> omega

theorem rect_wf (x1 y1 x2 y2 : Int) : Region.WF (Region.rect x1 y1 x2 y2) := by
  unfold Region.rect
  split
  · trivial
  · rename_i h
    exact ⟨show y1 < y2 by omega, ⟨⟨show x1 < x2 by omega, trivial, trivial⟩, by simp⟩, trivial⟩

/-! ### iteration -/

/-- order of the iteration: within a band x-monotone, across bands y-monotone, both in the requested
direction (the relation holds for ALL pairs `a` before `b`, not only neighbours) -/
def Mono (rx ry : Bool) (a b : Rect) : Prop :=
  (a.y1 = b.y1 ∧ a.y2 = b.y2 ∧ (if rx then b.x2 ≤ a.x1 else a.x2 ≤ b.x1)) ∨
  (if ry then b.y2 ≤ a.y1 else a.y2 ≤ b.y1)

theorem rects_cover (r : Region) (rx ry : Bool) (x y : Int) :
    Region.den r x y ↔ ∃ rc ∈ Region.rects r rx ry, Rect.den rc x y := by
  simp only [Region.den, XList.den, Region.rects, List.mem_flatMap, List.mem_map, Rect.den]
  constructor
  · rintro ⟨b, hb, h1, h2, sp, hsp, h3, h4⟩
    refine ⟨⟨sp.s, b.s, sp.e, b.e⟩, ⟨b, by cases ry <;> simp [hb], sp, by cases rx <;> simp [hsp], rfl⟩, ?_⟩
    simp; omega
  · rintro ⟨rc, ⟨b, hb, sp, hsp, rfl⟩, h⟩
    refine ⟨b, by cases ry <;> simp_all, ?_⟩
    simp at h
    refine ⟨by omega, by omega, sp, by cases rx <;> simp_all, by omega, by omega⟩

theorem countRects_eq (r : Region) : Region.countRects r = (r.map fun b => b.sub.length).sum := by
  induction r with
  | nil => rfl
  | cons b r ih => simp [Region.countRects, xCount, ih]

theorem rects_length (r : Region) (rx ry : Bool) :
    (Region.rects r rx ry).length = Region.countRects r := by
  rw [countRects_eq]
  simp only [Region.rects, List.length_flatMap, List.length_map]
  cases ry <;> cases rx <;> simp [List.sum_reverse]

theorem rects_nonempty (r : Region) (h : Region.WF r) (rx ry : Bool) :
    ∀ rc ∈ Region.rects r rx ry, rc.x1 < rc.x2 ∧ rc.y1 < rc.y2 := by
  intro rc hrc
  simp only [Region.rects, List.mem_flatMap, List.mem_map] at hrc
  obtain ⟨b, hb, sp, hsp, rfl⟩ := hrc
  have hb' : b ∈ r := by cases ry <;> simp_all
  have hB := Sorted.all h b hb'
  have hsp' : sp ∈ b.sub := by cases rx <;> simp_all
  have hS := Sorted.all hB.2.1 sp hsp'
  exact ⟨hS.1, hB.1⟩

theorem rects_monotone (r : Region) (h : Region.WF r) (rx ry : Bool) :
    (Region.rects r rx ry).Pairwise (Mono rx ry) := by
  have hp := Sorted.pairwise h
  have ha := Sorted.all h
  simp only [Region.rects]
  rw [List.pairwise_flatMap]
  constructor
  · intro b hb
    have hb' : b ∈ r := by cases ry <;> simp_all
    have hx := Sorted.pairwise (ha b hb').2.1
    rw [List.pairwise_map]
    cases rx
    · simp only [Bool.false_eq_true, if_false]
      exact hx.imp (fun {a c} hac => Or.inl ⟨rfl, rfl, by simpa using hac⟩)
    · simp only [if_true]
      rw [List.pairwise_reverse]
      exact hx.imp (fun {a c} hac => Or.inl ⟨rfl, rfl, by simpa using hac⟩)
  · cases ry
    · simp only [Bool.false_eq_true, if_false]
      refine hp.imp ?_
      intro b1 b2 h12 x hx y hy
      simp only [List.mem_map] at hx hy
      obtain ⟨_, _, rfl⟩ := hx
      obtain ⟨_, _, rfl⟩ := hy
      exact Or.inr (by simpa using h12)
    · simp only [if_true]
      rw [List.pairwise_reverse]
      refine hp.imp ?_
      intro b1 b2 h12 x hx y hy
      simp only [List.mem_map] at hx hy
      obtain ⟨_, _, rfl⟩ := hx
      obtain ⟨_, _, rfl⟩ := hy
      exact Or.inr (by simpa using h12)

theorem rects_disjoint (r : Region) (h : Region.WF r) (rx ry : Bool) :
    (Region.rects r rx ry).Pairwise (fun a b => ∀ x y, ¬ (Rect.den a x y ∧ Rect.den b x y)) := by
  refine (rects_monotone r h rx ry).imp ?_
  intro a b hab x y hd
  simp only [Rect.den] at hd
  rcases hab with ⟨_, _, h3⟩ | h3
  · cases rx <;> simp at h3 <;> omega
  · cases ry <;> simp at h3 <;> omega

/-! ### clipping helpers -/

theorem clipRect_spec (x y w h cx cy cw ch : Int) :
    (clipRect x y w h cx cy cw ch).1 = max x cx ∧ (clipRect x y w h cx cy cw ch).2.1 = max y cy ∧
    (clipRect x y w h cx cy cw ch).1 + (clipRect x y w h cx cy cw ch).2.2.1 = min (x + w) (cx + cw) ∧
    (clipRect x y w h cx cy cw ch).2.1 + (clipRect x y w h cx cy cw ch).2.2.2.1
      = min (y + h) (cy + ch) ∧
    ((clipRect x y w h cx cy cw ch).2.2.2.2 = true ↔
      ((clipRect x y w h cx cy cw ch).2.2.1 > 0 ∧ (clipRect x y w h cx cy cw ch).2.2.2.1 > 0)) := by
  simp only [clipRect]
  refine ⟨by omega, by omega, ?_, ?_, by simp⟩ <;> (split <;> split <;> omega)

theorem clipRect2_vals (x y x2 y2 cx cy cx2 cy2 : Int) :
    (clipRect2 x y x2 y2 cx cy cx2 cy2).1 = (if max x cx ≥ cx2 then cx2 - 1 else max x cx) ∧
    (clipRect2 x y x2 y2 cx cy cx2 cy2).2.1 = (if max y cy ≥ cy2 then cy2 - 1 else max y cy) ∧
    (clipRect2 x y x2 y2 cx cy cx2 cy2).2.2.1
      = (if (if x2 ≤ cx then cx + 1 else x2) > cx2 then cx2 else (if x2 ≤ cx then cx + 1 else x2)) ∧
    (clipRect2 x y x2 y2 cx cy cx2 cy2).2.2.2.1
      = (if (if y2 ≤ cy then cy + 1 else y2) > cy2 then cy2 else (if y2 ≤ cy then cy + 1 else y2)) ∧
    ((clipRect2 x y x2 y2 cx cy cx2 cy2).2.2.2.2 = true ↔
      ((clipRect2 x y x2 y2 cx cy cx2 cy2).2.2.1 > (clipRect2 x y x2 y2 cx cy cx2 cy2).1 ∧
       (clipRect2 x y x2 y2 cx cy cx2 cy2).2.2.2.1 > (clipRect2 x y x2 y2 cx cy cx2 cy2).2.1)) := by
  simp only [clipRect2]
  refine ⟨?_, ?_, trivial, trivial, by simp⟩ <;> (split <;> split <;> omega)

/-! ### bounding box -/

theorem bboxX_spec (l : XList) (a b : Int) :
    (bboxX l (a, b)).1 ≤ a ∧ (∀ sp ∈ l, (bboxX l (a, b)).1 ≤ sp.s) ∧
    ((bboxX l (a, b)).1 = a ∨ ∃ sp ∈ l, sp.s = (bboxX l (a, b)).1) ∧
    b ≤ (bboxX l (a, b)).2 ∧ (∀ sp ∈ l, sp.e ≤ (bboxX l (a, b)).2) ∧
    ((bboxX l (a, b)).2 = b ∨ ∃ sp ∈ l, sp.e = (bboxX l (a, b)).2) := by
  induction l generalizing a b with
  | nil => simp [bboxX]
  | cons h l ih =>
    simp only [bboxX]
    obtain ⟨a', ea, a1, a2, a3⟩ : ∃ a', a' = (if h.s < a then h.s else a) ∧ a' ≤ a ∧ a' ≤ h.s ∧
        (a' = a ∨ a' = h.s) :=
      ⟨_, rfl, by split <;> omega, by split <;> omega, by split <;> simp⟩
    obtain ⟨b', eb, b1, b2, b3⟩ : ∃ b', b' = (if h.e > b then h.e else b) ∧ b ≤ b' ∧ h.e ≤ b' ∧
        (b' = b ∨ b' = h.e) :=
      ⟨_, rfl, by split <;> omega, by split <;> omega, by split <;> simp⟩
    rw [← ea, ← eb]
    obtain ⟨i1, i2, i3, i4, i5, i6⟩ := ih a' b'
    refine ⟨by omega, ?_, ?_, by omega, ?_, ?_⟩
    · intro sp hsp
      rcases List.mem_cons.mp hsp with rfl | hm
      · omega
      · exact i2 sp hm
    · rcases i3 with i3 | ⟨sp, hsp, i3⟩
      · rcases a3 with a3 | a3
        · exact Or.inl (by omega)
        · exact Or.inr ⟨h, by simp, by omega⟩
      · exact Or.inr ⟨sp, by simp [hsp], i3⟩
    · intro sp hsp
      rcases List.mem_cons.mp hsp with rfl | hm
      · omega
      · exact i5 sp hm
    · rcases i6 with i6 | ⟨sp, hsp, i6⟩
      · rcases b3 with b3 | b3
        · exact Or.inl (by omega)
        · exact Or.inr ⟨h, by simp, by omega⟩
      · exact Or.inr ⟨sp, by simp [hsp], i6⟩

theorem bboxY_x (r : Region) (a c b d : Int) :
    (bboxY r (a, c, b, d)).1 ≤ a ∧
    (∀ v ∈ r, ∀ sp ∈ v.sub, (bboxY r (a, c, b, d)).1 ≤ sp.s) ∧
    ((bboxY r (a, c, b, d)).1 = a ∨ ∃ v ∈ r, ∃ sp ∈ v.sub, sp.s = (bboxY r (a, c, b, d)).1) ∧
    b ≤ (bboxY r (a, c, b, d)).2.2.1 ∧
    (∀ v ∈ r, ∀ sp ∈ v.sub, sp.e ≤ (bboxY r (a, c, b, d)).2.2.1) ∧
    ((bboxY r (a, c, b, d)).2.2.1 = b ∨
      ∃ v ∈ r, ∃ sp ∈ v.sub, sp.e = (bboxY r (a, c, b, d)).2.2.1) := by
  induction r generalizing a b c d with
  | nil => simp [bboxY]
  | cons v r ih =>
    simp only [bboxY]
    obtain ⟨x1, x2, x3, x4, x5, x6⟩ := bboxX_spec v.sub a b
    obtain ⟨i1, i2, i3, i4, i5, i6⟩ := ih (bboxX v.sub (a, b)).1 (if v.s < c then v.s else c)
      (bboxX v.sub (a, b)).2 (if v.e > d then v.e else d)
    refine ⟨by omega, ?_, ?_, by omega, ?_, ?_⟩
    · intro w hw sp hsp
      rcases List.mem_cons.mp hw with rfl | hm
      · have := x2 sp hsp; omega
      · exact i2 w hm sp hsp
    · rcases i3 with i3 | ⟨w, hw, sp, hsp, i3⟩
      · rcases x3 with x3 | ⟨sp, hsp, x3⟩
        · exact Or.inl (by omega)
        · exact Or.inr ⟨v, by simp, sp, hsp, by omega⟩
      · exact Or.inr ⟨w, by simp [hw], sp, hsp, i3⟩
    · intro w hw sp hsp
      rcases List.mem_cons.mp hw with rfl | hm
      · have := x5 sp hsp; omega
      · exact i5 w hm sp hsp
    · rcases i6 with i6 | ⟨w, hw, sp, hsp, i6⟩
      · rcases x6 with x6 | ⟨sp, hsp, x6⟩
        · exact Or.inl (by omega)
        · exact Or.inr ⟨v, by simp, sp, hsp, by omega⟩
      · exact Or.inr ⟨w, by simp [hw], sp, hsp, i6⟩

theorem bboxY_y (r : Region) (a c b d : Int) :
    (bboxY r (a, c, b, d)).2.1 ≤ c ∧
    (∀ v ∈ r, (bboxY r (a, c, b, d)).2.1 ≤ v.s) ∧
    ((bboxY r (a, c, b, d)).2.1 = c ∨ ∃ v ∈ r, v.s = (bboxY r (a, c, b, d)).2.1) ∧
    d ≤ (bboxY r (a, c, b, d)).2.2.2 ∧
    (∀ v ∈ r, v.e ≤ (bboxY r (a, c, b, d)).2.2.2) ∧
    ((bboxY r (a, c, b, d)).2.2.2 = d ∨ ∃ v ∈ r, v.e = (bboxY r (a, c, b, d)).2.2.2) := by
  induction r generalizing a b c d with
  | nil => simp [bboxY]
  | cons v r ih =>
    simp only [bboxY]
    obtain ⟨c', ec, c1, c2, c3⟩ : ∃ c', c' = (if v.s < c then v.s else c) ∧ c' ≤ c ∧ c' ≤ v.s ∧
        (c' = c ∨ c' = v.s) :=
      ⟨_, rfl, by split <;> omega, by split <;> omega, by split <;> simp⟩
    obtain ⟨d', ed, d1, d2, d3⟩ : ∃ d', d' = (if v.e > d then v.e else d) ∧ d ≤ d' ∧ v.e ≤ d' ∧
        (d' = d ∨ d' = v.e) :=
      ⟨_, rfl, by split <;> omega, by split <;> omega, by split <;> simp⟩
    rw [← ec, ← ed]
    obtain ⟨i1, i2, i3, i4, i5, i6⟩ := ih (bboxX v.sub (a, b)).1 c' (bboxX v.sub (a, b)).2 d'
    refine ⟨by omega, ?_, ?_, by omega, ?_, ?_⟩
    · intro w hw
      rcases List.mem_cons.mp hw with rfl | hm
      · omega
      · exact i2 w hm
    · rcases i3 with i3 | ⟨w, hw, i3⟩
      · rcases c3 with c3 | c3
        · exact Or.inl (by omega)
        · exact Or.inr ⟨v, by simp, by omega⟩
      · exact Or.inr ⟨w, by simp [hw], i3⟩
    · intro w hw
      rcases List.mem_cons.mp hw with rfl | hm
      · omega
      · exact i5 w hm
    · rcases i6 with i6 | ⟨w, hw, i6⟩
      · rcases d3 with d3 | d3
        · exact Or.inl (by omega)
        · exact Or.inr ⟨v, by simp, by omega⟩
      · exact Or.inr ⟨w, by simp [hw], i6⟩

/-- all coordinates are C `int`s (`INT_MIN ≤ s`, `e ≤ INT_MAX`) — true of every region the C code
can hold; needed because the model computes in unbounded `Int` while `sraRgnBBox` starts from the
seeds `INT_MAX` / `INT_MIN` -/
def InRange (r : Region) : Prop :=
  ∀ v ∈ r, -intMax - 1 ≤ v.s ∧ v.e ≤ intMax ∧ ∀ sp ∈ v.sub, -intMax - 1 ≤ sp.s ∧ sp.e ≤ intMax

theorem bbox_nil : Region.bbox [] = [] := by
  simp [Region.bbox, bboxY, intMax, Region.empty]

/-- the result of `sraRgnBBox` is well-formed for every argument (it is empty or one `Region.rect`) -/
theorem bbox_wf_all (r : Region) : Region.WF (Region.bbox r) := by
  unfold Region.bbox
  simp only []
  split
  · trivial
  · exact rect_wf _ _ _ _

/-- `sraRgnBBox` covers the region — for EVERY region (the seeds only matter for tightness).
Stated without mentioning the seed values, so that users need not track them. -/
theorem bbox_covers (r : Region) (x y : Int) (h : Region.den r x y) : Region.den (Region.bbox r) x y := by
  obtain ⟨v, hv, h1, h2, sp, hsp, h3, h4⟩ := h
  obtain ⟨_, X2, _, _, X5, _⟩ := bboxY_x r intMax intMax (-intMax - 1) (-intMax - 1)
  obtain ⟨_, Y2, _, _, Y5, _⟩ := bboxY_y r intMax intMax (-intMax - 1) (-intMax - 1)
  have a1 := X2 v hv sp hsp
  have a2 := X5 v hv sp hsp
  have a3 := Y2 v hv
  have a4 := Y5 v hv
  unfold Region.bbox
  simp only
  rw [if_neg (by omega)]
  exact (rect_den _ _ _ _ x y).mpr ⟨by omega, by omega, by omega, by omega⟩

theorem bbox_spec (r : Region) (hwf : Region.WF r) (hr : InRange r) (hne : r ≠ []) :
    ∃ x1 y1 x2 y2, Region.bbox r = [⟨y1, y2, [⟨x1, x2, ()⟩]⟩] ∧ x1 < x2 ∧ y1 < y2 ∧
      (∀ x y, Region.den r x y → x1 ≤ x ∧ x < x2 ∧ y1 ≤ y ∧ y < y2) ∧
      (∃ y, Region.den r x1 y) ∧ (∃ y, Region.den r (x2 - 1) y) ∧
      (∃ x, Region.den r x y1) ∧ (∃ x, Region.den r x (y2 - 1)) := by
  obtain ⟨X1, X2, X3, X4, X5, X6⟩ := bboxY_x r intMax intMax (-intMax - 1) (-intMax - 1)
  obtain ⟨Y1, Y2, Y3, Y4, Y5, Y6⟩ := bboxY_y r intMax intMax (-intMax - 1) (-intMax - 1)
  have hall := Sorted.all hwf
  -- a witness band and span
  obtain ⟨v0, r', rfl⟩ : ∃ v0 r', r = v0 :: r' := by
    cases r with
    | nil => exact absurd rfl hne
    | cons v0 r' => exact ⟨v0, r', rfl⟩
  have hv0 := hall v0 (by simp)
  obtain ⟨s0, l0, hs0⟩ : ∃ s0 l0, v0.sub = s0 :: l0 := by
    cases h : v0.sub with
    | nil => exact absurd h hv0.2.2
    | cons s0 l0 => exact ⟨s0, l0, rfl⟩
  have hs0m : s0 ∈ v0.sub := by simp [hs0]
  have hs0lt := (Sorted.all hv0.2.1 s0 hs0m).1
  have hr0 := hr v0 (by simp)
  have hr0s := hr0.2.2 s0 hs0m
  generalize hR : bboxY (v0 :: r') (intMax, intMax, -intMax - 1, -intMax - 1) = R at *
  have x2s := X2 v0 (by simp) s0 hs0m
  have x5s := X5 v0 (by simp) s0 hs0m
  have y2s := Y2 v0 (by simp)
  have y5s := Y5 v0 (by simp)
  -- the seeds were replaced
  have hX3 : ∃ v ∈ v0 :: r', ∃ sp ∈ v.sub, sp.s = R.1 := by
    rcases X3 with h | h
    · exfalso; omega
    · exact h
  have hX6 : ∃ v ∈ v0 :: r', ∃ sp ∈ v.sub, sp.e = R.2.2.1 := by
    rcases X6 with h | h
    · exfalso; omega
    · exact h
  have hY3 : ∃ v ∈ v0 :: r', v.s = R.2.1 := by
    rcases Y3 with h | h
    · exfalso; omega
    · exact h
  have hY6 : ∃ v ∈ v0 :: r', v.e = R.2.2.2 := by
    rcases Y6 with h | h
    · exfalso; omega
    · exact h
  refine ⟨R.1, R.2.1, R.2.2.1, R.2.2.2, ?_, by omega, by omega, ?_, ?_, ?_, ?_, ?_⟩
  · simp only [Region.bbox, hR]
    rw [if_neg (by omega)]
    simp only [Region.rect]
    rw [if_neg (by omega)]
  · rintro x y ⟨v, hv, h1, h2, sp, hsp, h3, h4⟩
    have := X2 v hv sp hsp
    have := X5 v hv sp hsp
    have := Y2 v hv
    have := Y5 v hv
    omega
  · obtain ⟨v, hv, sp, hsp, he⟩ := hX3
    have hv' := hall v hv
    have := (Sorted.all hv'.2.1 sp hsp).1
    exact ⟨v.s, v, hv, Int.le_refl _, hv'.1, sp, hsp, by omega, by omega⟩
  · obtain ⟨v, hv, sp, hsp, he⟩ := hX6
    have hv' := hall v hv
    have := (Sorted.all hv'.2.1 sp hsp).1
    exact ⟨v.s, v, hv, Int.le_refl _, hv'.1, sp, hsp, by omega, by omega⟩
  · obtain ⟨v, hv, he⟩ := hY3
    have hv' := hall v hv
    obtain ⟨sp, hsp⟩ := List.exists_mem_of_ne_nil _ hv'.2.2
    have := (Sorted.all hv'.2.1 sp hsp).1
    exact ⟨sp.s, v, hv, by omega, by omega, sp, hsp, Int.le_refl _, this⟩
  · obtain ⟨v, hv, he⟩ := hY6
    have hv' := hall v hv
    obtain ⟨sp, hsp⟩ := List.exists_mem_of_ne_nil _ hv'.2.2
    have := (Sorted.all hv'.2.1 sp hsp).1
    exact ⟨sp.s, v, hv, by omega, by omega, sp, hsp, Int.le_refl _, this⟩

/-! ### popRect -/

section dir
variable {γ : Type}

/-- traversal order -/
def dir (l : List γ) (rev : Bool) : List γ := if rev then l.reverse else l
def first? (l : List γ) (rev : Bool) : Option γ := if rev then l.getLast? else l.head?
def rest (l : List γ) (rev : Bool) : List γ := if rev then l.dropLast else l.tail
def put (l : List γ) (rev : Bool) (a : γ) : List γ := if rev then l.dropLast ++ [a] else a :: l.tail

theorem first?_none {l : List γ} {rev : Bool} (h : first? l rev = none) : l = [] := by
  cases rev <;> simp_all [first?]

theorem first?_some {l : List γ} {rev : Bool} {a : γ} (h : first? l rev = some a) :
    dir l rev = a :: dir (rest l rev) rev ∧ (∀ a', dir (put l rev a') rev = a' :: dir (rest l rev) rev) ∧
    a ∈ l ∧ (∀ b ∈ rest l rev, b ∈ l) ∧ (rest l rev).Sublist l := by
  cases rev
  · simp only [first?, Bool.false_eq_true, if_false] at h
    cases l with
    | nil => simp at h
    | cons x t =>
      simp only [List.head?_cons, Option.some.injEq] at h
      subst h
      simp [dir, rest, put]
      exact fun b hb => Or.inr hb
  · simp only [first?, if_true] at h
    obtain ⟨ys, rfl⟩ := List.getLast?_eq_some_iff.mp h
    simp [dir, rest, put]
    exact fun b hb => Or.inl hb

end dir

theorem popRect_eq (r : Region) (flags : Nat) :
    Region.popRect r flags =
      (match first? r (flags &&& 1 == 1) with
       | none => (r, none)
       | some v =>
         match first? v.sub (flags &&& 2 == 2) with
         | none => (r, none)
         | some h =>
           (if (rest v.sub (flags &&& 2 == 2)).isEmpty then rest r (flags &&& 1 == 1)
            else put r (flags &&& 1 == 1) { v with sub := rest v.sub (flags &&& 2 == 2) },
            some ⟨h.s, v.s, h.e, v.e⟩)) := by
  simp only [Region.popRect]
  generalize (flags &&& 1 == 1) = ry
  generalize (flags &&& 2 == 2) = rx
  cases ry <;> cases rx <;> rfl

theorem rects_eq_dir (r : Region) (rx ry : Bool) :
    Region.rects r rx ry =
      (dir r ry).flatMap fun b => (dir b.sub rx).map fun x => (⟨x.s, b.s, x.e, b.e⟩ : Rect) := rfl

theorem sorted_sublist {α : Type} {G : α → Prop} {l l' : List (Span α)} (h : Sorted G l)
    (hs : l'.Sublist l) : Sorted G l' := by
  rw [sorted_iff] at h ⊢
  exact ⟨h.1.sublist hs, fun sp hsp => h.2 sp (hs.subset hsp)⟩

theorem popRect_spec (r : Region) (hwf : Region.WF r) (flags : Nat) :
    match Region.rects r (flags &&& 2 == 2) (flags &&& 1 == 1) with
    | [] => r = [] ∧ Region.popRect r flags = (r, none)
    | rc :: rs =>
      (Region.popRect r flags).2 = some rc ∧
      Region.rects (Region.popRect r flags).1 (flags &&& 2 == 2) (flags &&& 1 == 1) = rs ∧
      Region.WF (Region.popRect r flags).1 := by
  rw [popRect_eq]
  generalize (flags &&& 2 == 2) = rx
  generalize (flags &&& 1 == 1) = ry
  cases hv : first? r ry with
  | none =>
    have := first?_none hv
    subst this
    simp [Region.rects]
  | some v =>
    obtain ⟨d1, d2, hvm, hrm, hrs⟩ := first?_some hv
    have hV := Sorted.all hwf v hvm
    cases hh : first? v.sub rx with
    | none => exact absurd (first?_none hh) hV.2.2
    | some h =>
      obtain ⟨e1, e2, hhm, hsm, hss⟩ := first?_some hh
      simp only [hh, rects_eq_dir, d1, e1, List.flatMap_cons, List.map_cons, List.cons_append]
      refine ⟨trivial, ?_, ?_⟩
      · by_cases hemp : (rest v.sub rx).isEmpty = true
        · simp only [hemp, if_true]
          have : rest v.sub rx = [] := by simpa using hemp
          simp [this, dir]
        · simp only [hemp]
          simp only [Bool.false_eq_true, if_false, d2, List.flatMap_cons]
      · by_cases hemp : (rest v.sub rx).isEmpty = true
        · simp only [hemp, if_true]
          exact sorted_sublist hwf hrs
        · simp only [hemp]
          simp only [Bool.false_eq_true, if_false]
          have hsub : GX (rest v.sub rx) :=
            ⟨sorted_sublist hV.2.1 hss, by simpa using hemp⟩
          have hwf' := (sorted_iff.mp hwf)
          rw [Region.WF, sorted_iff]
          cases ry
          · simp only [put, Bool.false_eq_true, if_false]
            simp only [first?, Bool.false_eq_true, if_false] at hv
            cases r with
            | nil => simp at hv
            | cons x t =>
              simp only [List.head?_cons, Option.some.injEq] at hv
              subst hv
              simp only [List.tail_cons]
              have hp := hwf'.1
              rw [List.pairwise_cons] at hp ⊢
              refine ⟨⟨hp.1, hp.2⟩, ?_⟩
              intro sp hsp
              rcases List.mem_cons.mp hsp with rfl | hm
              · exact ⟨hV.1, hsub⟩
              · exact hwf'.2 sp (by simp [hm])
          · simp only [put, if_true]
            simp only [first?, if_true] at hv
            obtain ⟨ys, rfl⟩ := List.getLast?_eq_some_iff.mp hv
            simp only [List.dropLast_concat]
            have hp := hwf'.1
            rw [List.pairwise_append] at hp ⊢
            refine ⟨⟨hp.1, by simp, ?_⟩, ?_⟩
            · intro a ha b hb
              simp only [List.mem_singleton] at hb
              subst hb
              exact hp.2.2 a ha v (by simp)
            · intro sp hsp
              rcases List.mem_append.mp hsp with hm | hm
              · exact hwf'.2 sp (by simp [hm])
              · simp only [List.mem_singleton] at hm
                subst hm
                exact ⟨hV.1, hsub⟩


/-- `sraRgnPopRect` in pixel terms: the popped rectangle is the first one of the iteration in the
requested directions, it is non-empty and part of the region, and what remains is the region minus
that rectangle (and is well-formed) -/
theorem popRect_den (r : Region) (hwf : Region.WF r) (flags : Nat) (r' : Region) (rc : Rect)
    (h : Region.popRect r flags = (r', some rc)) :
    Region.WF r' ∧
    (Region.rects r (flags &&& 2 == 2) (flags &&& 1 == 1)).head? = some rc ∧
    Region.rects r' (flags &&& 2 == 2) (flags &&& 1 == 1)
      = (Region.rects r (flags &&& 2 == 2) (flags &&& 1 == 1)).tail ∧
    (rc.x1 < rc.x2 ∧ rc.y1 < rc.y2) ∧
    (∀ x y, Rect.den rc x y → Region.den r x y) ∧
    (∀ x y, Region.den r' x y ↔ (Region.den r x y ∧ ¬ Rect.den rc x y)) := by
  have hs := popRect_spec r hwf flags
  have hne := rects_nonempty r hwf (flags &&& 2 == 2) (flags &&& 1 == 1)
  have hdj := rects_disjoint r hwf (flags &&& 2 == 2) (flags &&& 1 == 1)
  have hc := rects_cover r (flags &&& 2 == 2) (flags &&& 1 == 1)
  have hc' := rects_cover r' (flags &&& 2 == 2) (flags &&& 1 == 1)
  generalize Region.rects r (flags &&& 2 == 2) (flags &&& 1 == 1) = l at *
  cases l with
  | nil => simp [hs.2] at h
  | cons rc0 rs =>
    simp only [h, Option.some.injEq] at hs
    obtain ⟨rfl, hrs, hwf'⟩ := hs
    rw [List.pairwise_cons] at hdj
    refine ⟨hwf', rfl, hrs, hne _ (by simp), ?_, ?_⟩
    · intro x y hd
      exact (hc x y).mpr ⟨_, by simp, hd⟩
    · intro x y
      rw [hc' x y, hrs, hc x y]
      constructor
      · rintro ⟨c, hcm, hcd⟩
        exact ⟨⟨c, by simp [hcm], hcd⟩, fun hr => hdj.1 c hcm x y ⟨hr, hcd⟩⟩
      · rintro ⟨⟨c, hcm, hcd⟩, hn⟩
        rcases List.mem_cons.mp hcm with rfl | hm
        · exact absurd hcd hn
        · exact ⟨c, hm, hcd⟩

end VncModel.Rgn
