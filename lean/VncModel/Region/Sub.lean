import VncModel.Region.And
/-!
`sraSpanListSubtract`: the loop of the model computes the set difference (generic level).
-/
namespace VncModel.Rgn
variable {α β : Type}

theorem Zip.advance {G : α → Prop} {acc : List (Span α)} {dc : Span α} {drest : List (Span α)}
    (h : Zip G acc (dc :: drest)) : Zip G (dc :: acc) drest :=
  Zip.push h.1 h.2.1 h.2.2.1 h.2.2.2

theorem subLoop_spec {ops : SubOps α} {G : α → Prop} {D : α → β → Prop} (L : Laws ops G D)
    (fuel : Nat) (acc d s : List (Span α))
    (hf : 3 * s.length + 2 * d.length + flagM d s ≤ fuel)
    (hz : Zip G acc d) (hs : ∃ lo, SortedFrom G lo s) :
    Sorted G (subLoop ops fuel acc d s) ∧
    ∀ y q, den D (subLoop ops fuel acc d s) y q ↔
      (den D acc y q ∨ (den D d y q ∧ ¬ den D s y q)) := by
  fun_induction subLoop ops fuel acc d s
  case case1 acc d s =>
    have hd : d = [] := by
      cases d with
      | nil => rfl
      | cons _ _ => exfalso; simp only [List.length_cons] at hf; omega
    subst hd
    obtain ⟨m, hm⟩ := hz
    exact ⟨sorted_reverse_append hm (d := []) trivial, by simp [den_reverse]⟩
  case case2 fuel acc s =>
    obtain ⟨m, hm⟩ := hz
    exact ⟨by simpa using sorted_reverse_append hm (d := []) trivial, by simp [den_reverse]⟩
  case case3 fuel acc dc drest =>
    exact ⟨hz.sorted, by simp [den_append, den_reverse]⟩
  case case4 fuel acc dc drest sc srest h1 ih =>
    obtain ⟨lo, hlo, hsc, hgs, hsrest⟩ := hs
    have hfl := flagM_le (dc :: drest) srest
    simp only [flagM_cons, List.length_cons] at hf
    have hpre := ih (by simp only [List.length_cons]; omega) hz ⟨_, hsrest⟩
    refine ⟨hpre.1, ?_⟩
    intro y q
    rw [hpre.2 y q]
    obtain ⟨hacc, hdc, hgd, hdrest⟩ := hz
    have b1 : den D (dc :: drest) y q → dc.s ≤ y :=
      den_lb (show SortedFrom G dc.s (dc :: drest) from ⟨Int.le_refl _, hdc, hgd, hdrest⟩)
    simp only [den_cons] at b1 ⊢
    clear ih hpre hf
    grind
  case case5 fuel acc dc drest sc srest h1 h2 ih =>
    obtain ⟨lo, hlo, hsc, hgs, hsrest⟩ := hs
    have hfl := flagM_le drest (sc :: srest)
    simp only [flagM_cons, List.length_cons] at hf
    have hpre := ih (by simp only [List.length_cons]; omega) hz.advance ⟨lo, hlo, hsc, hgs, hsrest⟩
    refine ⟨hpre.1, ?_⟩
    intro y q
    rw [hpre.2 y q]
    have b2 : den D srest y q → sc.e ≤ y := den_lb hsrest
    simp only [den_cons]
    clear ih hpre hf
    grind
  case case6 fuel acc dc drest sc srest h1 h2 acc1 dc1 drest1 dc2 hsub ih =>
    obtain ⟨hacc, hdc, hgd, hdrest⟩ := hz
    obtain ⟨lo, hlo, hsc, hgs, hsrest⟩ := hs
    have hs2 : dc2.sub = dc.sub := by
      simp only [dc2, dc1]; split <;> split <;> simp_all
    have hdr1 : drest1 = if sc.e < dc.e then ⟨sc.e, dc.e, dc.sub⟩ :: drest else drest := by
      simp only [drest1, dc1]; split <;> simp
    have hac1 : acc1 = if sc.s > dc.s then ⟨dc.s, sc.s, dc.sub⟩ :: acc else acc := rfl
    rw [hs2] at hsub
    have hnone := L.sub_none _ _ hgd hgs hsub
    have hfl := flagM_le drest1 (sc :: srest)
    have hlt : dc.s < sc.e := by omega
    simp only [flagM_cons, List.length_cons, hlt, if_true] at hf
    by_cases c1 : sc.e < dc.e <;> by_cases c2 : sc.s > dc.s <;>
      simp only [c1, c2, if_true, if_false] at hdr1 hac1
    all_goals
      have hacc1 : ∀ X, sc.s ≤ X → dc.s ≤ X → SortedTo G X acc1 := by
        rw [hac1]
        first
          | exact fun X h1 _ => ⟨h1, c2, hgd, hacc⟩
          | exact fun X _ h2 => hacc.mono h2
    all_goals
      have hpre := ih ?_ ?_ ⟨lo, hlo, hsc, hgs, hsrest⟩
      · refine ⟨hpre.1, ?_⟩
        intro y q
        rw [hpre.2 y q]
        have b1 : den D drest y q → dc.e ≤ y := den_lb hdrest
        have b2 : den D srest y q → sc.e ≤ y := den_lb hsrest
        have hq := hnone q
        simp only [hdr1, hac1, den_cons]
        clear_value drest1 dc2 dc1 acc1
        clear ih hpre hf hnone
        grind
      · simp only [hdr1, flagM_cons, List.length_cons, Int.lt_irrefl, if_false] at hfl ⊢
        omega
      · rw [hdr1]
        first
          | exact ⟨hacc1 sc.e (by omega) (by omega), c1, hgd, hdrest⟩
          | (cases drest with
             | nil => exact ⟨dc.e, hacc1 dc.e (by omega) (by omega)⟩
             | cons d2 drest =>
               simp only [SortedFrom] at hdrest
               exact ⟨hacc1 d2.s (by omega) (by omega), hdrest.2⟩)
  case case7 fuel acc dc drest sc srest h1 h2 acc1 dc1 drest1 dc2 sub' hsub mp mn h3 ih =>
    obtain ⟨hacc, hdc, hgd, hdrest⟩ := hz
    obtain ⟨lo, hlo, hsc, hgs, hsrest⟩ := hs
    have hdc2 : dc2.sub = dc.sub ∧ dc2.s = (if sc.s > dc.s then sc.s else dc.s) ∧
        dc2.e = (if sc.e < dc.e then sc.e else dc.e) := by
      simp only [dc2, dc1]; split <;> split <;> simp_all
    have hdr1 : drest1 = if sc.e < dc.e then ⟨sc.e, dc.e, dc.sub⟩ :: drest else drest := by
      simp only [drest1, dc1]; split <;> simp
    have hac1 : acc1 = if sc.s > dc.s then ⟨dc.s, sc.s, dc.sub⟩ :: acc else acc := rfl
    obtain ⟨hs2, hss, hse⟩ := hdc2
    rw [hs2] at hsub
    obtain ⟨hgsub, hdsub⟩ := L.sub_some _ _ _ hgd hgs hsub
    have hlt : dc.s < sc.e := by omega
    simp only [flagM_cons, List.length_cons, hlt, if_true] at hf
    by_cases c1 : sc.e < dc.e <;> by_cases c2 : sc.s > dc.s <;>
      simp only [c1, c2, if_true, if_false] at hdr1 hac1 hss hse
    all_goals
      have hacc1 : SortedTo G dc2.s acc1 := by
        rw [hac1, hss]
        first
          | exact ⟨Int.le_refl _, c2, hgd, hacc⟩
          | exact hacc
      have hdrest1 : SortedFrom G dc2.e drest1 := by
        rw [hdr1, hse]
        first
          | exact ⟨Int.le_refl _, c1, hgd, hdrest⟩
          | exact hdrest
      obtain ⟨m1, m2, m3, m4, m5⟩ : mp.1.e = dc2.e ∧ mp.1.sub = sub' ∧ mp.1.s ≤ dc2.s ∧
          SortedTo G mp.1.s mp.2 ∧ ∀ y q, den D (mp.1 :: mp.2) y q ↔
            den D ({ s := dc2.s, e := dc2.e, sub := sub' } :: acc1) y q :=
        mergePrev_spec (G := G) (D := D) ops.eq L.eq_sound acc1
        { s := dc2.s, e := dc2.e, sub := sub' } hacc1 (by simp only [hss, hse]; omega)
      obtain ⟨n1, n2, n3, n4, n5, n6⟩ : mn.1.s = mp.1.s ∧ mn.1.sub = mp.1.sub ∧
          mp.1.e ≤ mn.1.e ∧ SortedFrom G mn.1.e mn.2 ∧ mn.2.length ≤ drest1.length ∧
          ∀ y q, den D (mn.1 :: mn.2) y q ↔ den D (mp.1 :: drest1) y q :=
        mergeNext_spec (G := G) (D := D) ops.eq L.eq_sound drest1 mp.1 (m1 ▸ hdrest1)
          (by rw [m1, hse]; simp only [hss] at m3; omega)
      have hl1 : drest1.length ≤ drest.length + 1 := by rw [hdr1]; simp
      have hfl := flagM_le mn.2 (sc :: srest)
      have hpre := ih ?_ ?_ ⟨lo, hlo, hsc, hgs, hsrest⟩
      · refine ⟨hpre.1, ?_⟩
        intro y q
        rw [hpre.2 y q]
        have b1 : den D drest y q → dc.e ≤ y := den_lb hdrest
        have b2 : den D srest y q → sc.e ≤ y := den_lb hsrest
        have b3 : den D mp.2 y q → y < mp.1.s := den_ub m4
        have b4 : den D mn.2 y q → mn.1.e ≤ y := den_lb n4
        have b5 : den D acc y q → y < dc.s := den_ub hacc
        have hq := hdsub q
        have e1 := m5 y q
        have e2 := n6 y q
        simp only [hdr1, hac1, hse, hss, den_cons, m2, n2] at e1 e2 ⊢
        rw [m1, hse] at n3 e2
        simp only [hss] at m3
        clear_value mp mn drest1 dc2 dc1 acc1
        clear ih hpre hf m5 n6 hdsub hacc1 hdrest1
        grind
      · -- fuel
        simp only [List.length_cons]
        rw [m1, hse] at n3
        first
          | (exfalso; omega)
          | (rw [hdr1] at n5; omega)
      · -- zipper
        exact Zip.push (n1 ▸ m4) (by rw [n1]; rw [m1, hse] at n3; simp only [hss] at m3; omega)
          (by rw [n2, m2]; exact hgsub) n4
  case case8 fuel acc dc drest sc srest h1 h2 acc1 dc1 drest1 dc2 sub' hsub mp mn h3 ih =>
    obtain ⟨hacc, hdc, hgd, hdrest⟩ := hz
    obtain ⟨lo, hlo, hsc, hgs, hsrest⟩ := hs
    have hdc2 : dc2.sub = dc.sub ∧ dc2.s = (if sc.s > dc.s then sc.s else dc.s) ∧
        dc2.e = (if sc.e < dc.e then sc.e else dc.e) := by
      simp only [dc2, dc1]; split <;> split <;> simp_all
    have hdr1 : drest1 = if sc.e < dc.e then ⟨sc.e, dc.e, dc.sub⟩ :: drest else drest := by
      simp only [drest1, dc1]; split <;> simp
    have hac1 : acc1 = if sc.s > dc.s then ⟨dc.s, sc.s, dc.sub⟩ :: acc else acc := rfl
    obtain ⟨hs2, hss, hse⟩ := hdc2
    rw [hs2] at hsub
    obtain ⟨hgsub, hdsub⟩ := L.sub_some _ _ _ hgd hgs hsub
    have hlt : dc.s < sc.e := by omega
    simp only [flagM_cons, List.length_cons, hlt, if_true] at hf
    by_cases c1 : sc.e < dc.e <;> by_cases c2 : sc.s > dc.s <;>
      simp only [c1, c2, if_true, if_false] at hdr1 hac1 hss hse
    all_goals
      have hacc1 : SortedTo G dc2.s acc1 := by
        rw [hac1, hss]
        first
          | exact ⟨Int.le_refl _, c2, hgd, hacc⟩
          | exact hacc
      have hdrest1 : SortedFrom G dc2.e drest1 := by
        rw [hdr1, hse]
        first
          | exact ⟨Int.le_refl _, c1, hgd, hdrest⟩
          | exact hdrest
      obtain ⟨m1, m2, m3, m4, m5⟩ : mp.1.e = dc2.e ∧ mp.1.sub = sub' ∧ mp.1.s ≤ dc2.s ∧
          SortedTo G mp.1.s mp.2 ∧ ∀ y q, den D (mp.1 :: mp.2) y q ↔
            den D ({ s := dc2.s, e := dc2.e, sub := sub' } :: acc1) y q :=
        mergePrev_spec (G := G) (D := D) ops.eq L.eq_sound acc1
        { s := dc2.s, e := dc2.e, sub := sub' } hacc1 (by simp only [hss, hse]; omega)
      obtain ⟨n1, n2, n3, n4, n5, n6⟩ : mn.1.s = mp.1.s ∧ mn.1.sub = mp.1.sub ∧
          mp.1.e ≤ mn.1.e ∧ SortedFrom G mn.1.e mn.2 ∧ mn.2.length ≤ drest1.length ∧
          ∀ y q, den D (mn.1 :: mn.2) y q ↔ den D (mp.1 :: drest1) y q :=
        mergeNext_spec (G := G) (D := D) ops.eq L.eq_sound drest1 mp.1 (m1 ▸ hdrest1)
          (by rw [m1, hse]; simp only [hss] at m3; omega)
      have hl1 : drest1.length ≤ drest.length + 1 := by rw [hdr1]; simp
      have hfl := flagM_le (mn.1 :: mn.2) srest
      have hpre := ih ?_ ?_ ⟨_, hsrest⟩
      · refine ⟨hpre.1, ?_⟩
        intro y q
        rw [hpre.2 y q]
        have b1 : den D drest y q → dc.e ≤ y := den_lb hdrest
        have b2 : den D srest y q → sc.e ≤ y := den_lb hsrest
        have b3 : den D mp.2 y q → y < mp.1.s := den_ub m4
        have b4 : den D mn.2 y q → mn.1.e ≤ y := den_lb n4
        have b5 : den D acc y q → y < dc.s := den_ub hacc
        have hq := hdsub q
        have e1 := m5 y q
        have e2 := n6 y q
        simp only [hdr1, hac1, hse, hss, den_cons, m2, n2] at e1 e2 ⊢
        rw [m1, hse] at n3 e2
        simp only [hss] at m3
        clear_value mp mn drest1 dc2 dc1 acc1
        clear ih hpre hf m5 n6 hdsub hacc1 hdrest1
        grind
      · -- fuel
        simp only [List.length_cons]
        omega
      · -- zipper
        exact ⟨n1 ▸ m4, by rw [n1]; rw [m1, hse] at n3; simp only [hss] at m3; omega,
          by rw [n2, m2]; exact hgsub, n4⟩

/-- `sraSpanListSubtract` on well-formed operands: well-formed result denoting the difference -/
theorem spanSub_spec {ops : SubOps α} {G : α → Prop} {D : α → β → Prop} (L : Laws ops G D)
    (dest src : List (Span α)) (hd : Sorted G dest) (hs : Sorted G src) :
    Sorted G (spanSub ops dest src) ∧
    ∀ y q, den D (spanSub ops dest src) y q ↔ (den D dest y q ∧ ¬ den D src y q) := by
  have h := subLoop_spec L (3 * src.length + 2 * dest.length + 1) [] dest src
    (by have := flagM_le dest src; omega) (Zip.of_sorted hd) hs.to_from
  refine ⟨h.1, fun y q => ?_⟩
  rw [spanSub, h.2 y q]
  simp

end VncModel.Rgn
