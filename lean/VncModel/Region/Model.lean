/-
Executable model of `src/libvncserver/rfbregion.c` (the "sra" region library).  Core Lean only.

C ↔ model
  sraSpan {start,end,subspan}                 ↔ `Span α` {s,e,sub}
  sraSpanList (doubly linked, two sentinels)  ↔ `List (Span α)`
  leaf level (`subspan == NULL`)              ↔ `α = Unit`   (`XList`)
  region (y-spans each holding an x-span list)↔ `α = XList`  (`Region`)
  in-place mutation through `d_curr`          ↔ a zipper: `acc` = the destination spans *before*
                                                `d_curr`, reversed (so `d_curr->_prev` is its head);
                                                `d` = `d_curr` and everything after it
                                                (`d = []` ⇔ `d_curr == &dest->back`)
  `while` loops                               ↔ recursion on an explicit fuel; `Lemmas*.lean` prove
                                                that the fuel handed in by `spanOr/And/Sub` is never
                                                exhausted on well-formed operands
  recursion of the C functions into `subspan` ↔ the `SubOps α` record handed to the generic layer
  `int`                                       ↔ `Int` (no overflow: the only arithmetic is in
                                                `sraRgnOffset` and `sraClipRect`; signed overflow
                                                there is undefined behaviour in C and is excluded
                                                from the correspondence run)

The code does NOT keep regions canonical: `sraSpanListOr`'s "add the span" path merges `d_curr`
with the new span but never the new span with *its* predecessor.  The model is bug-for-bug the
same, and well-formedness (`Sorted`) therefore only says: `s < e`, spans ordered and disjoint
(`e_i ≤ s_{i+1}`), sub-lists well-formed and non-empty.
-/
namespace VncModel.Rgn

structure Span (α : Type) where
  s : Int
  e : Int
  sub : α
  deriving DecidableEq, Repr

/-- leaf level: x-spans (`subspan == NULL`) -/
abbrev XList := List (Span Unit)
/-- a region: y-spans ("bands"), each holding the x-spans of that band -/
abbrev Region := List (Span XList)

structure Rect where
  x1 : Int
  y1 : Int
  x2 : Int
  y2 : Int
  deriving DecidableEq, Repr

/-! ## generic span-list layer -/

/-- the recursive calls of the C functions on `subspan`, as seen from one level up -/
structure SubOps (α : Type) where
  /-- `sraSpanListEqual(a->subspan, b->subspan)` -/
  eq  : α → α → Bool
  /-- `sraSpanListOr(d->subspan, s->subspan)` (in place: returns the new `d->subspan`) -/
  or  : α → α → α
  /-- `sraSpanListAnd(d->subspan, s->subspan)`; `none` ⇔ it returned FALSE (span is removed) -/
  and : α → α → Option α
  /-- `(!d->subspan) || !sraSpanListSubtract(...)` ⇔ `none` (span is removed) -/
  sub : α → α → Option α

/-- `sraSpanListEqual` -/
def spanListEq {α : Type} (eq : α → α → Bool) : List (Span α) → List (Span α) → Bool
  | [], [] => true
  | a :: as, b :: bs =>
    if a.s != b.s || a.e != b.e || !(eq a.sub b.sub) then false else spanListEq eq as bs
  | _, _ => false

/-- `sraSpanMergePrevious(dest)`: `acc` is the list before `dest`, nearest first.
The C loop guard `prev->_prev` (prev is not the front sentinel) is `acc ≠ []`; the callers' extra
guard `d_curr->_prev != &dest->front` is the same test and is therefore not repeated. -/
def mergePrev {α : Type} (eq : α → α → Bool) (dc : Span α) : List (Span α) → Span α × List (Span α)
  | [] => (dc, [])
  | p :: acc =>
    if p.e = dc.s ∧ eq p.sub dc.sub = true then mergePrev eq { dc with s := p.s } acc
    else (dc, p :: acc)

/-- `sraSpanMergeNext(dest)`: `rest` is the list after `dest`. -/
def mergeNext {α : Type} (eq : α → α → Bool) (dc : Span α) : List (Span α) → Span α × List (Span α)
  | [] => (dc, [])
  | n :: rest =>
    if n.s = dc.e ∧ eq n.sub dc.sub = true then mergeNext eq { dc with e := n.e } rest
    else (dc, n :: rest)

/-- `s_curr->start` — also evaluated by the C code when `s_curr` is the back sentinel (whose
`start` is uninitialised); the value is then never used, the model says 0. -/
def startOf {α : Type} : List (Span α) → Int
  | [] => 0
  | sp :: _ => sp.s

/-- the loop of `sraSpanListOr`.  State: zipper `(acc, d)`, the overridden `s_start`, and `s` =
`s_curr` and everything after it (`s_end` is always `s_curr->end`). -/
def orLoop {α : Type} (ops : SubOps α) :
    Nat → List (Span α) → List (Span α) → Int → List (Span α) → List (Span α)
  | 0, acc, d, _, _ => acc.reverse ++ d
  | _ + 1, acc, d, _, [] => acc.reverse ++ d
  | fuel + 1, acc, [], sstart, sc :: srest =>
    -- d_curr == &dest->back: add the span (nothing to merge with: d_curr is the sentinel)
    orLoop ops fuel (⟨sstart, sc.e, sc.sub⟩ :: acc) [] (startOf srest) srest
  | fuel + 1, acc, dc :: drest, sstart, sc :: srest =>
    if dc.s ≥ sc.e then
      -- the new span comes before d_curr: insert, merge d_curr with what precedes it
      let mp := mergePrev ops.eq dc (⟨sstart, sc.e, sc.sub⟩ :: acc)
      orLoop ops fuel mp.2 (mp.1 :: drest) (startOf srest) srest
    else if sstart < dc.e ∧ sc.e > dc.s then
      -- overlap.  Insert new span before the existing destination one?
      let mp1 := if sstart < dc.s then mergePrev ops.eq dc (⟨sstart, dc.s, sc.sub⟩ :: acc)
                 else (dc, acc)
      let dcA := mp1.1
      let accA := mp1.2
      -- split the existing span if necessary (tail part)
      let drestB := if sc.e < dcA.e then ⟨sc.e, dcA.e, dcA.sub⟩ :: drest else drest
      let dcB : Span α := if sc.e < dcA.e then { dcA with e := sc.e } else dcA
      -- (head part)
      let accC := if sstart > dcB.s then ⟨dcB.s, sstart, dcB.sub⟩ :: accA else accA
      let dcC : Span α := if sstart > dcB.s then { dcB with s := sstart } else dcB
      -- recursively OR subspans
      let dcD : Span α := { dcC with sub := ops.or dcC.sub sc.sub }
      -- merge this span with previous or next?
      let mp := mergePrev ops.eq dcD accC
      let mn := mergeNext ops.eq mp.1 drestB
      -- move on to the next pair to compare
      if sc.e > mn.1.e then orLoop ops fuel (mn.1 :: mp.2) mn.2 mn.1.e (sc :: srest)
      else orLoop ops fuel mp.2 (mn.1 :: mn.2) (startOf srest) srest
    else
      -- no overlap: move to the next destination span
      orLoop ops fuel (dc :: acc) drest sstart (sc :: srest)

/-- `sraSpanListOr(dest, src)` (result = new contents of `dest`) -/
def spanOr {α : Type} (ops : SubOps α) (dest src : List (Span α)) : List (Span α) :=
  orLoop ops (2 * src.length + dest.length) [] dest (startOf src) src

/-- the loops of `sraSpanListAnd` (main loop + the trailing loop that deletes what is left) -/
def andLoop {α : Type} (ops : SubOps α) :
    Nat → List (Span α) → List (Span α) → List (Span α) → List (Span α)
  | 0, acc, _, _ => acc.reverse
  | _ + 1, acc, [], _ => acc.reverse
  | _ + 1, acc, _ :: _, [] => acc.reverse
  | fuel + 1, acc, dc :: drest, sc :: srest =>
    if dc.s ≥ sc.e then andLoop ops fuel acc (dc :: drest) srest
    else if dc.e ≤ sc.s then andLoop ops fuel acc drest (sc :: srest)
    else
      let dc1 : Span α := if sc.s > dc.s then { dc with s := sc.s } else dc
      let drest1 := if sc.e < dc1.e then ⟨sc.e, dc1.e, dc1.sub⟩ :: drest else drest
      let dc2 : Span α := if sc.e < dc1.e then { dc1 with e := sc.e } else dc1
      match ops.and dc2.sub sc.sub with
      | none => andLoop ops fuel acc drest1 (sc :: srest)
      | some sub' =>
        let mp := mergePrev ops.eq { dc2 with sub := sub' } acc
        let s' := if sc.e ≤ mp.1.e then srest else sc :: srest
        if sc.e ≥ mp.1.e then andLoop ops fuel (mp.1 :: mp.2) drest1 s'
        else andLoop ops fuel mp.2 (mp.1 :: drest1) s'

/-- `sraSpanListAnd(dest, src)`: new contents of `dest`; the C return value is `!empty` of it -/
def spanAnd {α : Type} (ops : SubOps α) (dest src : List (Span α)) : List (Span α) :=
  andLoop ops (3 * src.length + 2 * dest.length + 1) [] dest src

/-- the loop of `sraSpanListSubtract` -/
def subLoop {α : Type} (ops : SubOps α) :
    Nat → List (Span α) → List (Span α) → List (Span α) → List (Span α)
  | 0, acc, d, _ => acc.reverse ++ d
  | _ + 1, acc, [], _ => acc.reverse
  | _ + 1, acc, dc :: drest, [] => acc.reverse ++ dc :: drest
  | fuel + 1, acc, dc :: drest, sc :: srest =>
    if dc.s ≥ sc.e then subLoop ops fuel acc (dc :: drest) srest
    else if dc.e ≤ sc.s then subLoop ops fuel (dc :: acc) drest (sc :: srest)
    else
      let acc1 := if sc.s > dc.s then ⟨dc.s, sc.s, dc.sub⟩ :: acc else acc
      let dc1 : Span α := if sc.s > dc.s then { dc with s := sc.s } else dc
      let drest1 := if sc.e < dc1.e then ⟨sc.e, dc1.e, dc1.sub⟩ :: drest else drest
      let dc2 : Span α := if sc.e < dc1.e then { dc1 with e := sc.e } else dc1
      match ops.sub dc2.sub sc.sub with
      | none => subLoop ops fuel acc1 drest1 (sc :: srest)
      | some sub' =>
        let mp := mergePrev ops.eq { dc2 with sub := sub' } acc1
        let mn := mergeNext ops.eq mp.1 drest1
        if sc.e > mn.1.e then subLoop ops fuel (mn.1 :: mp.2) mn.2 (sc :: srest)
        else subLoop ops fuel mp.2 (mn.1 :: mn.2) srest

/-- `sraSpanListSubtract(dest, src)`: new contents of `dest`; C return value is `!empty` of it -/
def spanSub {α : Type} (ops : SubOps α) (dest src : List (Span α)) : List (Span α) :=
  subLoop ops (3 * src.length + 2 * dest.length + 1) [] dest src

/-! ## the two instances -/

/-- leaf level: `subspan == NULL` on both sides: Equal → 1, Or → nothing, And → 1 (keep),
Subtract → `!d_curr->subspan` is true (remove). -/
def unitOps : SubOps Unit where
  eq _ _ := true
  or _ _ := ()
  and _ _ := some ()
  sub _ _ := none

def xEq (a b : XList) : Bool := spanListEq (fun _ _ => true) a b
def xOr (a b : XList) : XList := spanOr unitOps a b
def xAnd (a b : XList) : XList := spanAnd unitOps a b
def xSub (a b : XList) : XList := spanSub unitOps a b

/-- y level: the sub-operations are the x-level functions; the boolean they return is
`!sraSpanListEmpty(dest)`. -/
def xOps : SubOps XList where
  eq := xEq
  or := xOr
  and a b := let r := xAnd a b; if r.isEmpty then none else some r
  sub a b := let r := xSub a b; if r.isEmpty then none else some r

/-! ## region API (one definition per exported C function) -/

/-- `sraRgnCreate` -/
def Region.empty : Region := []

/-- `sraRgnCreateRect(x1,y1,x2,y2)`: an empty or inverted rectangle gives the empty region
(`if (x1 >= x2 || y1 >= y2) return sraRgnCreate();`) -/
def Region.rect (x1 y1 x2 y2 : Int) : Region :=
  if x1 ≥ x2 ∨ y1 ≥ y2 then [] else [⟨y1, y2, [⟨x1, x2, ()⟩]⟩]

/-- `sraRgnCreateRgn` (deep copy) -/
def Region.dup (r : Region) : Region := r

/-- `sraRgnOr(dst, src)`: new `dst` -/
def Region.or (dst src : Region) : Region := spanOr xOps dst src

/-- `sraRgnAnd(dst, src)`: (new `dst`, return value) -/
def Region.and (dst src : Region) : Region × Bool :=
  let r := spanAnd xOps dst src
  (r, !r.isEmpty)

/-- `sraRgnSubtract(dst, src)`: (new `dst`, return value) -/
def Region.sub (dst src : Region) : Region × Bool :=
  let r := spanSub xOps dst src
  (r, !r.isEmpty)

/-- `sraRgnOffset(dst, dx, dy)` -/
def Region.offset (r : Region) (dx dy : Int) : Region :=
  r.map fun b => ⟨b.s + dy, b.e + dy, b.sub.map fun x => ⟨x.s + dx, x.e + dx, ()⟩⟩

/-- `sraRgnEmpty` -/
def Region.isEmpty (r : Region) : Bool := List.isEmpty r

/-- `sraSpanListCount` at the leaf level (`count += 1` per span) -/
def xCount (l : XList) : Nat := l.length

/-- `sraRgnCountRects` -/
def Region.countRects : Region → Nat
  | [] => 0
  | b :: r => xCount b.sub + Region.countRects r

/-- `INT_MAX`, written `((unsigned int)(int)-1)>>1` in `sraRgnBBox` -/
def intMax : Int := 2147483647

/-- inner loop of `sraRgnBBox` -/
def bboxX : XList → Int × Int → Int × Int
  | [], acc => acc
  | h :: l, (xmin, xmax) =>
    bboxX l (if h.s < xmin then h.s else xmin, if h.e > xmax then h.e else xmax)

/-- outer loop of `sraRgnBBox`: state (xmin, ymin, xmax, ymax) -/
def bboxY : Region → Int × Int × Int × Int → Int × Int × Int × Int
  | [], acc => acc
  | v :: r, (xmin, ymin, xmax, ymax) =>
    let ymin := if v.s < ymin then v.s else ymin
    let ymax := if v.e > ymax then v.e else ymax
    let xs := bboxX v.sub (xmin, xmax)
    bboxY r (xs.1, ymin, xs.2, ymax)

/-- `sraRgnBBox` (for a non-NULL argument); seeds `xmin=ymin=INT_MAX`, `xmax=ymax=-xmin-1 = INT_MIN`
(/repo 4069cf1; before that fix the maxima were seeded with `1-INT_MAX`) -/
def Region.bbox (r : Region) : Region :=
  let b := bboxY r (intMax, intMax, -intMax - 1, -intMax - 1)
  let xmin := b.1
  let ymin := b.2.1
  let xmax := b.2.2.1
  let ymax := b.2.2.2
  if xmax < xmin ∨ ymax < ymin then Region.empty else Region.rect xmin ymin xmax ymax

/-- the sequence of rectangles `sraRgnIteratorNext` yields for
`sraRgnGetReverseIterator(r, reverseX, reverseY)` (`sraRgnGetIterator` = both false) -/
def Region.rects (r : Region) (reverseX reverseY : Bool) : List Rect :=
  (if reverseY then r.reverse else r).flatMap fun b =>
    (if reverseX then b.sub.reverse else b.sub).map fun x => ⟨x.s, b.s, x.e, b.e⟩

/-- `sraRgnPopRect(rgn, &rect, flags)`: (new region, `some rect` ⇔ returned 1).
`flags & 2` = right-to-left, `flags & 1` = bottom-to-top. -/
def Region.popRect (r : Region) (flags : Nat) : Region × Option Rect :=
  let right2left := flags &&& 2 == 2
  let bottom2top := flags &&& 1 == 1
  let v? := if bottom2top then r.getLast? else r.head?
  match v? with
  | none => (r, none)
  | some v =>
    let h? := if right2left then v.sub.getLast? else v.sub.head?
    match h? with
    | none => (r, none)
    | some h =>
      let sub' := if right2left then v.sub.dropLast else v.sub.tail
      let r' :=
        if sub'.isEmpty then (if bottom2top then r.dropLast else r.tail)
        else if bottom2top then r.dropLast ++ [{ v with sub := sub' }]
        else { v with sub := sub' } :: r.tail
      (r', some ⟨h.s, v.s, h.e, v.e⟩)

/-- `sraClipRect(&x,&y,&w,&h, cx,cy,cw,ch)`: (x, y, w, h, return value) -/
def clipRect (x y w h cx cy cw ch : Int) : Int × Int × Int × Int × Bool :=
  let w1 := if x < cx then w - (cx - x) else w
  let x1 := if x < cx then cx else x
  let h1 := if y < cy then h - (cy - y) else h
  let y1 := if y < cy then cy else y
  let w2 := if x1 + w1 > cx + cw then (cx + cw) - x1 else w1
  let h2 := if y1 + h1 > cy + ch then (cy + ch) - y1 else h1
  (x1, y1, w2, h2, decide (w2 > 0) && decide (h2 > 0))

/-- `sraClipRect2(&x,&y,&x2,&y2, cx,cy,cx2,cy2)`: (x, y, x2, y2, return value) -/
def clipRect2 (x y x2 y2 cx cy cx2 cy2 : Int) : Int × Int × Int × Int × Bool :=
  let xa := if x < cx then cx else x
  let ya := if y < cy then cy else y
  let xb := if xa ≥ cx2 then cx2 - 1 else xa
  let yb := if ya ≥ cy2 then cy2 - 1 else ya
  let x2a := if x2 ≤ cx then cx + 1 else x2
  let y2a := if y2 ≤ cy then cy + 1 else y2
  let x2b := if x2a > cx2 then cx2 else x2a
  let y2b := if y2a > cy2 then cy2 else y2a
  (xb, yb, x2b, y2b, decide (x2b > xb) && decide (y2b > yb))

/-! ## denotation and well-formedness -/

/-- generic denotation: `D` is the denotation of the sub-level -/
def den {α β : Type} (D : α → β → Prop) (l : List (Span α)) (y : Int) (q : β) : Prop :=
  ∃ sp ∈ l, sp.s ≤ y ∧ y < sp.e ∧ D sp.sub q

/-- all spans start at or after `lo`, are non-empty, ordered, disjoint, with good sub-levels -/
def SortedFrom {α : Type} (G : α → Prop) : Int → List (Span α) → Prop
  | _, [] => True
  | lo, sp :: l => lo ≤ sp.s ∧ sp.s < sp.e ∧ G sp.sub ∧ SortedFrom G sp.e l

def Sorted {α : Type} (G : α → Prop) : List (Span α) → Prop
  | [] => True
  | sp :: l => sp.s < sp.e ∧ G sp.sub ∧ SortedFrom G sp.e l

/-- pixel column `x` is covered by the x-span list -/
def XList.den (l : XList) (x : Int) : Prop := ∃ sp ∈ l, sp.s ≤ x ∧ x < sp.e

def XList.WF (l : XList) : Prop := Sorted (fun _ => True) l

/-- pixel `(x, y)` is covered by the region -/
def Region.den (r : Region) (x y : Int) : Prop :=
  ∃ b ∈ r, b.s ≤ y ∧ y < b.e ∧ XList.den b.sub x

/-- what the library's own operations maintain: bands non-empty, ordered, disjoint; every band's
x-list non-empty, its spans non-empty, ordered, disjoint.  (Nothing about maximal merging.) -/
def Region.WF (r : Region) : Prop := Sorted (fun xl => XList.WF xl ∧ xl ≠ []) r

/-- pixel set of a rectangle -/
def Rect.den (r : Rect) (x y : Int) : Prop := r.x1 ≤ x ∧ x < r.x2 ∧ r.y1 ≤ y ∧ y < r.y2

end VncModel.Rgn
