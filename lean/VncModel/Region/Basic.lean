import VncModel.Region.Model
/-!
Basic lemmas of the generic span-list layer: denotation, sortedness (forward lists and the reversed
"already processed" part of the zipper), `mergePrev` / `mergeNext`.
-/
namespace VncModel.Rgn

variable {α β : Type}

/-- reversed list (nearest first) of spans that all end at or before `hi` -/
def SortedTo (G : α → Prop) : Int → List (Span α) → Prop
  | _, [] => True
  | hi, sp :: l => sp.e ≤ hi ∧ sp.s < sp.e ∧ G sp.sub ∧ SortedTo G sp.s l

/-- the zipper `(acc, d)` is a sorted list: `acc` (reversed) lies before `d` -/
def Zip (G : α → Prop) (acc : List (Span α)) : List (Span α) → Prop
  | [] => ∃ m, SortedTo G m acc
  | dc :: drest => SortedTo G dc.s acc ∧ dc.s < dc.e ∧ G dc.sub ∧ SortedFrom G dc.e drest

/-- what the laws of the sub-level operations must provide (`G` = well-formed sub-level value,
`D` = its denotation) -/
structure Laws (ops : SubOps α) (G : α → Prop) (D : α → β → Prop) : Prop where
  eq_sound : ∀ a b, ops.eq a b = true → ∀ q, D a q ↔ D b q
  or_good : ∀ a b, G a → G b → G (ops.or a b)
  or_den : ∀ a b, G a → G b → ∀ q, D (ops.or a b) q ↔ (D a q ∨ D b q)
  and_some : ∀ a b c, G a → G b → ops.and a b = some c → G c ∧ ∀ q, D c q ↔ (D a q ∧ D b q)
  and_none : ∀ a b, G a → G b → ops.and a b = none → ∀ q, ¬ (D a q ∧ D b q)
  sub_some : ∀ a b c, G a → G b → ops.sub a b = some c → G c ∧ ∀ q, D c q ↔ (D a q ∧ ¬ D b q)
  sub_none : ∀ a b, G a → G b → ops.sub a b = none → ∀ q, ¬ (D a q ∧ ¬ D b q)

/-! ### denotation -/

@[simp] theorem den_nil (D : α → β → Prop) (y : Int) (q : β) : den D [] y q ↔ False := by
  simp [den]

theorem den_cons (D : α → β → Prop) (sp : Span α) (l : List (Span α)) (y : Int) (q : β) :
    den D (sp :: l) y q ↔ ((sp.s ≤ y ∧ y < sp.e ∧ D sp.sub q) ∨ den D l y q) := by
  simp [den]

theorem den_append (D : α → β → Prop) (l1 l2 : List (Span α)) (y : Int) (q : β) :
    den D (l1 ++ l2) y q ↔ (den D l1 y q ∨ den D l2 y q) := by
  simp only [den, List.mem_append]
  constructor
  · rintro ⟨sp, h | h, r⟩
    · exact Or.inl ⟨sp, h, r⟩
    · exact Or.inr ⟨sp, h, r⟩
  · rintro (⟨sp, h, r⟩ | ⟨sp, h, r⟩)
    · exact ⟨sp, Or.inl h, r⟩
    · exact ⟨sp, Or.inr h, r⟩

theorem den_reverse (D : α → β → Prop) (l : List (Span α)) (y : Int) (q : β) :
    den D l.reverse y q ↔ den D l y q := by
  simp [den]

/-! ### sortedness -/

theorem SortedFrom.mono {G : α → Prop} {lo lo' : Int} {l : List (Span α)}
    (h : SortedFrom G lo l) (hle : lo' ≤ lo) : SortedFrom G lo' l := by
  cases l with
  | nil => trivial
  | cons sp l => simp only [SortedFrom] at *; exact ⟨by omega, h.2⟩

theorem SortedTo.mono {G : α → Prop} {hi hi' : Int} {l : List (Span α)}
    (h : SortedTo G hi l) (hle : hi ≤ hi') : SortedTo G hi' l := by
  cases l with
  | nil => trivial
  | cons sp l => simp only [SortedTo] at *; exact ⟨by omega, h.2⟩

theorem Sorted.of_from {G : α → Prop} {lo : Int} {l : List (Span α)} (h : SortedFrom G lo l) :
    Sorted G l := by
  cases l with
  | nil => trivial
  | cons sp l => simp only [SortedFrom, Sorted] at *; exact h.2

theorem Sorted.to_from {G : α → Prop} {l : List (Span α)} (h : Sorted G l) :
    ∃ lo, SortedFrom G lo l := by
  cases l with
  | nil => exact ⟨0, trivial⟩
  | cons sp l => exact ⟨sp.s, by simp only [SortedFrom, Sorted] at *; exact ⟨Int.le_refl _, h⟩⟩

theorem SortedFrom.tail {G : α → Prop} {lo : Int} {sp : Span α} {l : List (Span α)}
    (h : SortedFrom G lo (sp :: l)) : SortedFrom G sp.e l := h.2.2.2

/-- every pixel row of a forward-sorted list is at or after its lower bound -/
theorem den_lb {G : α → Prop} {D : α → β → Prop} {lo : Int} {l : List (Span α)}
    (h : SortedFrom G lo l) {y : Int} {q : β} (hd : den D l y q) : lo ≤ y := by
  induction l generalizing lo with
  | nil => simp at hd
  | cons sp l ih =>
    simp only [SortedFrom] at h
    rw [den_cons] at hd
    rcases hd with hd | hd
    · omega
    · have := ih h.2.2.2 hd; omega

/-- every pixel row of a reversed sorted list is before its upper bound -/
theorem den_ub {G : α → Prop} {D : α → β → Prop} {hi : Int} {l : List (Span α)}
    (h : SortedTo G hi l) {y : Int} {q : β} (hd : den D l y q) : y < hi := by
  induction l generalizing hi with
  | nil => simp at hd
  | cons sp l ih =>
    simp only [SortedTo] at h
    rw [den_cons] at hd
    rcases hd with hd | hd
    · omega
    · have := ih h.2.2.2 hd; omega

/-- closing the zipper gives a sorted list -/
theorem sorted_reverse_append {G : α → Prop} {m : Int} {acc d : List (Span α)}
    (ha : SortedTo G m acc) (hd : SortedFrom G m d) : Sorted G (acc.reverse ++ d) := by
  induction acc generalizing m d with
  | nil => simpa using Sorted.of_from hd
  | cons a acc ih =>
    simp only [SortedTo] at ha
    rw [List.reverse_cons, List.append_assoc]
    apply ih ha.2.2.2
    simp only [List.singleton_append, SortedFrom]
    exact ⟨Int.le_refl _, ha.2.1, ha.2.2.1, hd.mono ha.1⟩

theorem Zip.sorted {G : α → Prop} {acc d : List (Span α)} (h : Zip G acc d) :
    Sorted G (acc.reverse ++ d) := by
  cases d with
  | nil =>
    obtain ⟨m, hm⟩ := h
    exact sorted_reverse_append hm trivial
  | cons dc drest =>
    simp only [Zip] at h
    exact sorted_reverse_append h.1 (by simp only [SortedFrom]; exact ⟨Int.le_refl _, h.2⟩)

theorem Zip.of_sorted {G : α → Prop} {d : List (Span α)} (h : Sorted G d) : Zip G [] d := by
  cases d with
  | nil => exact ⟨0, trivial⟩
  | cons dc drest => simp only [Sorted] at h; exact ⟨trivial, h⟩

theorem Zip.acc {G : α → Prop} {acc d : List (Span α)} (h : Zip G acc d) :
    ∃ m, SortedTo G m acc := by
  cases d with
  | nil => exact h
  | cons dc drest => exact ⟨_, h.1⟩

/-! ### mergePrev / mergeNext -/

theorem mergePrev_spec {G : α → Prop} {D : α → β → Prop} (eq : α → α → Bool)
    (heq : ∀ a b, eq a b = true → ∀ q, D a q ↔ D b q)
    (acc : List (Span α)) (dc : Span α) (hacc : SortedTo G dc.s acc) (hdc : dc.s < dc.e) :
    (mergePrev eq dc acc).1.e = dc.e ∧ (mergePrev eq dc acc).1.sub = dc.sub ∧
    (mergePrev eq dc acc).1.s ≤ dc.s ∧
    SortedTo G (mergePrev eq dc acc).1.s (mergePrev eq dc acc).2 ∧
    ∀ y q, den D ((mergePrev eq dc acc).1 :: (mergePrev eq dc acc).2) y q ↔ den D (dc :: acc) y q := by
  induction acc generalizing dc with
  | nil => simp [mergePrev, SortedTo]
  | cons p acc ih =>
    simp only [SortedTo] at hacc
    unfold mergePrev
    split
    · rename_i hc
      have := ih { dc with s := p.s } (by simpa using hacc.2.2.2) (by simp; omega)
      obtain ⟨h1, h2, h3, h4, h5⟩ := this
      refine ⟨h1, h2, by simp at h3; omega, h4, ?_⟩
      intro y q
      rw [h5 y q]
      have hq := heq _ _ hc.2 q
      simp only [den_cons]
      constructor
      · rintro (⟨a, b, c⟩ | h)
        · by_cases hy : y < p.e
          · exact Or.inr (Or.inl ⟨a, hy, hq.mpr c⟩)
          · exact Or.inl ⟨by omega, b, c⟩
        · exact Or.inr (Or.inr h)
      · rintro (⟨a, b, c⟩ | ⟨a, b, c⟩ | h)
        · exact Or.inl ⟨by omega, b, c⟩
        · exact Or.inl ⟨a, by omega, hq.mp c⟩
        · exact Or.inr h
    · exact ⟨rfl, rfl, Int.le_refl _, hacc, fun _ _ => Iff.rfl⟩

theorem mergeNext_spec {G : α → Prop} {D : α → β → Prop} (eq : α → α → Bool)
    (heq : ∀ a b, eq a b = true → ∀ q, D a q ↔ D b q)
    (rest : List (Span α)) (dc : Span α) (hrest : SortedFrom G dc.e rest) (hdc : dc.s < dc.e) :
    (mergeNext eq dc rest).1.s = dc.s ∧ (mergeNext eq dc rest).1.sub = dc.sub ∧
    dc.e ≤ (mergeNext eq dc rest).1.e ∧
    SortedFrom G (mergeNext eq dc rest).1.e (mergeNext eq dc rest).2 ∧
    (mergeNext eq dc rest).2.length ≤ rest.length ∧
    ∀ y q, den D ((mergeNext eq dc rest).1 :: (mergeNext eq dc rest).2) y q ↔ den D (dc :: rest) y q := by
  induction rest generalizing dc with
  | nil => simp [mergeNext, SortedFrom]
  | cons n rest ih =>
    simp only [SortedFrom] at hrest
    unfold mergeNext
    split
    · rename_i hc
      have := ih { dc with e := n.e } (by simpa using hrest.2.2.2) (by simp; omega)
      obtain ⟨h1, h2, h3, h4, h5, h6⟩ := this
      refine ⟨h1, h2, by simp at h3; omega, h4, by simp; omega, ?_⟩
      intro y q
      rw [h6 y q]
      have hq := heq _ _ hc.2 q
      simp only [den_cons]
      constructor
      · rintro (⟨a, b, c⟩ | h)
        · by_cases hy : y < dc.e
          · exact Or.inl ⟨a, hy, c⟩
          · exact Or.inr (Or.inl ⟨by omega, b, hq.mpr c⟩)
        · exact Or.inr (Or.inr h)
      · rintro (⟨a, b, c⟩ | ⟨a, b, c⟩ | h)
        · exact Or.inl ⟨a, by omega, c⟩
        · exact Or.inl ⟨by omega, b, hq.mp c⟩
        · exact Or.inr h
    · exact ⟨rfl, rfl, Int.le_refl _, hrest, Nat.le_refl _, fun _ _ => Iff.rfl⟩

/-- what is left of `acc` after merging is a suffix of `acc`: any bound on `acc` still holds -/
theorem mergePrev_suffix {G : α → Prop} (eq : α → α → Bool) (acc : List (Span α)) (dc : Span α)
    (X : Int) (h : SortedTo G X acc) : SortedTo G X (mergePrev eq dc acc).2 := by
  induction acc generalizing dc with
  | nil => trivial
  | cons p acc ih =>
    unfold mergePrev
    split
    · simp only [SortedTo] at h
      exact ih _ (h.2.2.2.mono (by omega))
    · exact h

/-- `retarget sstart s`: the part of the source still to be or-ed in, when `s_start` was overridden -/
def retarget (sstart : Int) : List (Span α) → List (Span α)
  | [] => []
  | sc :: srest => { sc with s := sstart } :: srest

theorem retarget_startOf (s : List (Span α)) : retarget (startOf s) s = s := by
  cases s <;> rfl

theorem SortedFrom.startOf {G : α → Prop} {lo : Int} {s : List (Span α)} (h : SortedFrom G lo s) :
    SortedFrom G (startOf s) s := by
  cases s with
  | nil => trivial
  | cons sc srest => exact ⟨Int.le_refl _, h.2⟩

end VncModel.Rgn
