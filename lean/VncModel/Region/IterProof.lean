import VncModel.Region.IterModel
import VncModel.Region.Misc
/-!
Refinement proof for the small-step iterator model (`IterModel.lean`): running
`sraRgnIteratorNext` to exhaustion from `sraRgnGetReverseIterator(r, rx, ry)` yields exactly
`Region.rects r rx ry`, without ever dereferencing a sentinel or following a NULL link.
-/
namespace VncModel.Rgn

section cursor
variable {γ : Type}

/-- elements strictly after cursor `c` in traversal order -/
def remAfter (l : List γ) (rev : Bool) (c : Nat) : List γ :=
  if rev then (l.take (c - 1)).reverse else l.drop c
def endOf (l : List γ) (rev : Bool) : Nat := if rev then 0 else l.length + 1
def startOfDir (l : List γ) (rev : Bool) : Nat := if rev then l.length + 1 else 0
def nextC (rev : Bool) (c : Nat) : Nat := if rev then c - 1 else c + 1
/-- the cursor may be stepped once more without following a NULL link -/
def CValid (l : List γ) (rev : Bool) (c : Nat) : Prop :=
  if rev then 1 ≤ c ∧ c ≤ l.length + 1 else c ≤ l.length

theorem remAfter_start (l : List γ) (rev : Bool) :
    remAfter l rev (startOfDir l rev) = (if rev then l.reverse else l) ∧ CValid l rev (startOfDir l rev) := by
  cases rev <;> simp [remAfter, startOfDir, CValid]

theorem rem_nil_iff (l : List γ) (rev : Bool) (c : Nat) (hv : CValid l rev c) :
    remAfter l rev c = [] ↔ nextC rev c = endOf l rev := by
  cases rev
  · have hv' : c ≤ l.length := by simpa [CValid] using hv
    show l.drop c = [] ↔ c + 1 = l.length + 1
    rw [List.drop_eq_nil_iff]; omega
  · have hv' : 1 ≤ c ∧ c ≤ l.length + 1 := by simpa [CValid] using hv
    show (l.take (c - 1)).reverse = [] ↔ c - 1 = 0
    rw [List.reverse_eq_nil_iff, List.take_eq_nil_iff]
    constructor
    · rintro (h | h)
      · exact h
      · subst h; simp at hv'; omega
    · intro h; exact Or.inl h

theorem rem_cons (l : List γ) (rev : Bool) (c : Nat) (hv : CValid l rev c) (a : γ) (t : List γ)
    (h : remAfter l rev c = a :: t) :
    nextC rev c ≠ 0 ∧ l[nextC rev c - 1]? = some a ∧ remAfter l rev (nextC rev c) = t ∧
    CValid l rev (nextC rev c) ∧ nextC rev c ≠ endOf l rev := by
  cases rev
  · have hv' : c ≤ l.length := by simpa [CValid] using hv
    change l.drop c = a :: t at h
    show c + 1 ≠ 0 ∧ l[c + 1 - 1]? = some a ∧ l.drop (c + 1) = t ∧ CValid l false (c + 1) ∧
      c + 1 ≠ l.length + 1
    have hc : c < l.length := by
      apply Classical.byContradiction; intro hn
      have : l.drop c = [] := List.drop_eq_nil_iff.mpr (by omega)
      rw [this] at h; cases h
    rw [List.drop_eq_getElem_cons hc] at h
    simp only [List.cons.injEq] at h
    refine ⟨by omega, ?_, h.2, by simp [CValid]; omega, by omega⟩
    simp [hc, h.1]
  · have hv' : 1 ≤ c ∧ c ≤ l.length + 1 := by simpa [CValid] using hv
    change (l.take (c - 1)).reverse = a :: t at h
    show c - 1 ≠ 0 ∧ l[c - 1 - 1]? = some a ∧ (l.take (c - 1 - 1)).reverse = t ∧
      CValid l true (c - 1) ∧ c - 1 ≠ 0
    have hk : 1 ≤ c - 1 := by
      apply Classical.byContradiction; intro hn
      have : c - 1 = 0 := by omega
      rw [this] at h; simp at h
    have hk2 : c - 1 - 1 < l.length := by omega
    have ht : l.take (c - 1) = l.take (c - 1 - 1) ++ [l[c - 1 - 1]] := by
      have := List.take_succ_eq_append_getElem hk2
      rw [← this]; congr 1; omega
    rw [ht, List.reverse_append] at h
    simp only [List.reverse_cons, List.reverse_nil, List.nil_append, List.cons_append,
      List.cons.injEq] at h
    refine ⟨by omega, ?_, h.2, by simp [CValid]; omega, by omega⟩
    simp [hk2, h.1]

end cursor
def mkRect (b : Span XList) (x : Span Unit) : Rect := ⟨x.s, b.s, x.e, b.e⟩
def bandRects (rx : Bool) (b : Span XList) : List Rect :=
  (if rx then b.sub.reverse else b.sub).map (mkRect b)

theorem rects_eq_bandRects (r : Region) (rx ry : Bool) :
    Region.rects r rx ry = (if ry then r.reverse else r).flatMap (bandRects rx) := rfl

structure Inv0 (it : Iter) : Prop where
  v0 : CValid it.rgn it.reverseY it.s0
  e0 : it.s1 = endOf it.rgn it.reverseY
  ne : ∀ b ∈ it.rgn, b.sub ≠ []

def pend0 (it : Iter) : List Rect :=
  (remAfter it.rgn it.reverseY it.s0).flatMap (bandRects it.reverseX)

structure Inv2 (it : Iter) (b : Span XList) : Prop where
  inv0 : Inv0 it
  pos : it.ptrPos = 2
  hb : spanAt it.rgn it.s0 = some b
  v2 : CValid b.sub it.reverseX it.s2
  e2 : it.s3 = endOf b.sub it.reverseX

def pend2 (it : Iter) (b : Span XList) : List Rect :=
  (remAfter b.sub it.reverseX it.s2).map (mkRect b) ++ pend0 it

theorem sraReverse_0 (it : Iter) (h : it.ptrPos = 0) : sraReverse it = it.reverseY := by
  simp [sraReverse, h]
theorem sraReverse_2 (it : Iter) (h : it.ptrPos = 2) : sraReverse it = it.reverseX := by
  simp [sraReverse, h]

theorem nextSpan_0 (it : Iter) (h : it.ptrPos = 0) (hv : CValid it.rgn it.reverseY it.s0) :
    nextSpan? it = some (nextC it.reverseY it.s0) := by
  simp only [nextSpan?, levelLen, h, if_true, sraReverse_0 it h, Iter.sGet, nextC]
  cases hr : it.reverseY <;> simp [CValid, hr] at hv ⊢ <;> omega

theorem nextSpan_2 (it : Iter) (b : Span XList) (h : it.ptrPos = 2)
    (hb : spanAt it.rgn it.s0 = some b) (hv : CValid b.sub it.reverseX it.s2) :
    nextSpan? it = some (nextC it.reverseX it.s2) := by
  simp only [nextSpan?, levelLen, h, hb, Option.map_some, sraReverse_2 it h, Iter.sGet, nextC]
  cases hr : it.reverseX <;> simp [CValid, hr] at hv ⊢ <;> omega


theorem spanAt_of {α : Type} {l : List (Span α)} {c : Nat} {a : Span α} (h0 : c ≠ 0)
    (h : l[c - 1]? = some a) : spanAt l c = some a := by
  simp [spanAt, h0, h]

theorem mem_of_spanAt {α : Type} {l : List (Span α)} {c : Nat} {a : Span α}
    (h : spanAt l c = some a) : a ∈ l := by
  unfold spanAt at h
  split at h
  · cases h
  · exact List.mem_of_getElem? h

theorem L2cons (it : Iter) (b : Span XList) (hi : Inv2 it b) (x : Span Unit) (t : List (Span Unit))
    (hr : remAfter b.sub it.reverseX it.s2 = x :: t) (f : Nat) :
    ascend (f + 1) it = some (some it) ∧
    ∃ it', advance it = .yield it' (mkRect b x) ∧ Inv2 it' b ∧
      pend2 it' b = t.map (mkRect b) ++ pend0 it := by
  obtain ⟨hn0, hget, hrem, hval, hne⟩ := rem_cons _ _ _ hi.v2 _ _ hr
  have hns := nextSpan_2 it b hi.pos hi.hb hi.v2
  have hx := spanAt_of hn0 hget
  obtain ⟨rgn, rx, ry, pp, s0, s1, s2, s3⟩ := it
  have hpos := hi.pos
  simp only at hpos hns hn0 hget hrem hval hne hx hr
  subst hpos
  have he2 := hi.e2
  have hb := hi.hb
  simp only at he2 hb
  refine ⟨?_, ⟨rgn, rx, ry, 2, s0, s1, nextC rx s2, s3⟩, ?_, ?_, ?_⟩
  · simp only [ascend, hns, Iter.sGet]
    rw [if_neg (by rw [he2]; exact hne)]
  · simp [advance, hns, Iter.sSet, Iter.sGet, descend, hb, hx, mkRect]
  · exact ⟨⟨hi.inv0.v0, hi.inv0.e0, hi.inv0.ne⟩, rfl, hb, hval, he2⟩
  · simp only [pend2, hrem, pend0]

theorem L2nil (it : Iter) (b : Span XList) (hi : Inv2 it b)
    (hr : remAfter b.sub it.reverseX it.s2 = []) (f : Nat) :
    ascend (f + 2) it = ascend (f + 1) { it with ptrPos := 0 } := by
  have hns := nextSpan_2 it b hi.pos hi.hb hi.v2
  have hend := (rem_nil_iff _ _ _ hi.v2).mp hr
  obtain ⟨rgn, rx, ry, pp, s0, s1, s2, s3⟩ := it
  have hpos := hi.pos
  simp only at hpos hns hend
  subst hpos
  have he2 := hi.e2
  simp only at he2
  subst he2
  rw [ascend]
  simp only [hns, Iter.sGet, hend, if_true]
  simp

theorem L0nil (it : Iter) (hi : Inv0 it) (hp : it.ptrPos = 0)
    (hr : remAfter it.rgn it.reverseY it.s0 = []) (f : Nat) :
    ascend (f + 1) it = some none := by
  have hns := nextSpan_0 it hp hi.v0
  have hend := (rem_nil_iff _ _ _ hi.v0).mp hr
  obtain ⟨rgn, rx, ry, pp, s0, s1, s2, s3⟩ := it
  simp only at hp hns hend
  subst hp
  have he0 := hi.e0
  simp only at he0
  subst he0
  simp [ascend, hns, Iter.sGet, hend]

theorem L0cons (it : Iter) (hi : Inv0 it) (hp : it.ptrPos = 0) (b : Span XList)
    (t : List (Span XList)) (hr : remAfter it.rgn it.reverseY it.s0 = b :: t) (f : Nat) :
    ascend (f + 1) it = some (some it) ∧
    ∃ it' x xs, (if it.reverseX then b.sub.reverse else b.sub) = x :: xs ∧
      advance it = .yield it' (mkRect b x) ∧ Inv2 it' b ∧
      pend2 it' b = xs.map (mkRect b) ++ t.flatMap (bandRects it.reverseX) := by
  obtain ⟨hn0, hget, hrem, hval, hne⟩ := rem_cons _ _ _ hi.v0 _ _ hr
  have hns := nextSpan_0 it hp hi.v0
  have hbs := spanAt_of hn0 hget
  have hbne := hi.ne b (mem_of_spanAt hbs)
  obtain ⟨hst, hstv⟩ := remAfter_start b.sub it.reverseX
  obtain ⟨x, xs, hxs⟩ : ∃ x xs, (if it.reverseX then b.sub.reverse else b.sub) = x :: xs := by
    cases h : (if it.reverseX then b.sub.reverse else b.sub) with
    | nil => exfalso; cases hrx : it.reverseX <;> simp [hrx] at h <;> exact hbne h
    | cons x xs => exact ⟨x, xs, rfl⟩
  rw [hxs] at hst
  obtain ⟨gn0, gget, grem, gval, gne⟩ := rem_cons _ _ _ hstv _ _ hst
  have hxsp := spanAt_of gn0 gget
  obtain ⟨rgn, rx, ry, pp, s0, s1, s2, s3⟩ := it
  simp only at hp hns hn0 hget hrem hval hne hbs hr hxs gn0 gget grem gval gne hxsp
  subst hp
  have he0 := hi.e0
  simp only at he0
  refine ⟨?_, ⟨rgn, rx, ry, 2, nextC ry s0, s1, nextC rx (startOfDir b.sub rx), endOf b.sub rx⟩,
    x, xs, hxs, ?_, ?_, ?_⟩
  · simp only [ascend, hns, Iter.sGet]
    rw [if_neg (by rw [he0]; exact hne)]
  · generalize nextC ry s0 = n0 at *
    cases rx <;>
      simp [advance, hns, Iter.sSet, Iter.sGet, descend, hbs, sraReverse, nextC, startOfDir, endOf,
        mkRect] at hxsp ⊢ <;> (try simp [hbs, hxsp])
  · exact ⟨⟨hval, he0, hi.ne⟩, rfl, hbs, gval, rfl⟩
  · simp only [pend2, grem, pend0, hrem]


def nextFrom (a : Option (Option Iter)) : Step :=
  match a with
  | none => .fault
  | some none => .done
  | some (some it) => advance it

theorem iterNext_eq (it : Iter) : iterNext it = nextFrom (ascend 3 it) := by
  unfold iterNext nextFrom; rfl

/-- what one call of `sraRgnIteratorNext` must do, given the rectangles still to come -/
def StepOK (s : Step) (pend : List Rect) : Prop :=
  match pend with
  | [] => s = .done
  | rc :: rest => ∃ it' b', s = .yield it' rc ∧ Inv2 it' b' ∧ pend2 it' b' = rest

theorem step_level0 (it : Iter) (hi : Inv0 it) (hp : it.ptrPos = 0) (f : Nat) :
    StepOK (nextFrom (ascend (f + 1) it)) (pend0 it) := by
  cases hr : remAfter it.rgn it.reverseY it.s0 with
  | nil =>
    simp only [pend0, hr, List.flatMap_nil, StepOK, L0nil it hi hp hr f, nextFrom]
  | cons b t =>
    obtain ⟨ha, it', x, xs, hxs, hadv, hinv, hpend⟩ := L0cons it hi hp b t hr f
    simp only [pend0, hr, List.flatMap_cons, bandRects, hxs, List.map_cons, List.cons_append, StepOK,
      ha, nextFrom]
    exact ⟨it', b, hadv, hinv, by rw [hpend]⟩

theorem step_level2 (it : Iter) (b : Span XList) (hi : Inv2 it b) :
    StepOK (iterNext it) (pend2 it b) := by
  rw [iterNext_eq]
  cases hr : remAfter b.sub it.reverseX it.s2 with
  | nil =>
    rw [L2nil it b hi hr 1]
    have h0 : Inv0 { it with ptrPos := 0 } := ⟨hi.inv0.v0, hi.inv0.e0, hi.inv0.ne⟩
    have := step_level0 { it with ptrPos := 0 } h0 rfl 1
    simpa [pend2, hr, pend0] using this
  | cons x t =>
    obtain ⟨ha, it', hadv, hinv, hpend⟩ := L2cons it b hi x t hr 2
    simp only [pend2, hr, List.map_cons, List.cons_append, StepOK, ha, nextFrom]
    exact ⟨it', b, hadv, hinv, hpend⟩

theorem iterRun_level2 (fuel : Nat) (it : Iter) (b : Span XList) (hi : Inv2 it b)
    (hf : (pend2 it b).length < fuel) : iterRun fuel it = some (pend2 it b) := by
  induction fuel generalizing it b with
  | zero => omega
  | succ fuel ih =>
    have hs := step_level2 it b hi
    cases hp : pend2 it b with
    | nil =>
      rw [hp] at hs
      simp only [StepOK] at hs
      simp [iterRun, hs]
    | cons rc rest =>
      rw [hp] at hs hf
      obtain ⟨it', b', hy, hinv, hpend⟩ := hs
      simp only [iterRun, hy]
      rw [ih it' b' hinv (by rw [hpend]; simp at hf; omega), hpend]
      rfl

/-- **refinement**: stepping the C iterator's state machine to exhaustion yields exactly
`Region.rects` — for all four direction pairs, with no fault (no sentinel is ever dereferenced, no
NULL link followed), on every region whose bands have non-empty x-lists (in particular every
well-formed region) -/
theorem iterAll_eq_rects (r : Region) (hne : ∀ b ∈ r, b.sub ≠ []) (rx ry : Bool) :
    Region.iterAll r rx ry = some (Region.rects r rx ry) := by
  have hstart := remAfter_start r ry
  have hi : Inv0 (getReverseIterator r rx ry) := by
    cases ry <;> exact ⟨by simpa [getReverseIterator, getIterator, startOfDir] using hstart.2,
      by simp [getReverseIterator, getIterator, endOf], hne⟩
  have hp : (getReverseIterator r rx ry).ptrPos = 0 := by
    cases ry <;> rfl
  have hpend : pend0 (getReverseIterator r rx ry) = Region.rects r rx ry := by
    rw [rects_eq_bandRects]
    cases ry <;> simp [pend0, getReverseIterator, getIterator, remAfter]
  have hlen := rects_length r rx ry
  unfold Region.iterAll
  have hs := step_level0 _ hi hp 2
  rw [← iterNext_eq] at hs
  rw [hpend] at hs
  cases hl : Region.rects r rx ry with
  | nil =>
    rw [hl] at hs
    simp only [StepOK] at hs
    simp [iterRun, hs]
  | cons rc rest =>
    rw [hl] at hs hlen
    obtain ⟨it', b', hy, hinv, hpd⟩ := hs
    simp only [iterRun, hy]
    rw [iterRun_level2 _ it' b' hinv (by rw [hpd]; simp at hlen; omega), hpd]
    rfl

theorem getIterator_eq (r : Region) : getIterator r = getReverseIterator r false false := rfl

end VncModel.Rgn
