import VncModel.Region.Sub
/-!
`sraSpanListOr`: the loop of the model computes the union (generic level).
-/
namespace VncModel.Rgn
variable {α β : Type}

theorem orLoop_spec {ops : SubOps α} {G : α → Prop} {D : α → β → Prop} (L : Laws ops G D)
    (fuel : Nat) (acc d : List (Span α)) (sstart : Int) (s : List (Span α))
    (hf : 2 * s.length + d.length ≤ fuel)
    (hz : Zip G acc d) (hb : s ≠ [] → SortedTo G sstart acc)
    (hs : SortedFrom G sstart (retarget sstart s)) :
    Sorted G (orLoop ops fuel acc d sstart s) ∧
    ∀ y q, den D (orLoop ops fuel acc d sstart s) y q ↔
      (den D acc y q ∨ den D d y q ∨ den D (retarget sstart s) y q) := by
  fun_induction orLoop ops fuel acc d sstart s
  case case1 acc d sstart s =>
    have hs0 : s = [] := by
      cases s with
      | nil => rfl
      | cons _ _ => exfalso; simp only [List.length_cons] at hf; omega
    subst hs0
    exact ⟨hz.sorted, by simp [den_append, den_reverse, retarget]⟩
  case case2 fuel acc d sstart =>
    exact ⟨hz.sorted, by simp [den_append, den_reverse, retarget]⟩
  case case3 fuel acc sstart sc srest ih =>
    obtain ⟨_, hlt, hgs, hsrest⟩ := hs
    have hacc := hb (by simp)
    have hpre := ih (by simp only [List.length_cons] at hf ⊢; omega)
      ⟨sc.e, Int.le_refl _, hlt, hgs, hacc⟩
      (by
        intro hne
        cases srest with
        | nil => exact (hne rfl).elim
        | cons sc' srest' => exact ⟨hsrest.1, hlt, hgs, hacc⟩)
      (by rw [retarget_startOf]; exact hsrest.startOf)
    refine ⟨hpre.1, ?_⟩
    intro y q
    rw [hpre.2 y q, retarget_startOf]
    simp only [retarget, den_cons, den_nil]
    grind
  case case4 fuel acc dc drest sstart sc srest h1 mp ih =>
    obtain ⟨_, hlt, hgs, hsrest⟩ := hs
    have hacc := hb (by simp)
    obtain ⟨hdacc, hdc, hgd, hdrest⟩ := hz
    have hnew : SortedTo G dc.s ({ s := sstart, e := sc.e, sub := sc.sub } :: acc) :=
      ⟨by simpa using h1, hlt, hgs, hacc⟩
    obtain ⟨m1, m2, m3, m4, m5⟩ : mp.1.e = dc.e ∧ mp.1.sub = dc.sub ∧ mp.1.s ≤ dc.s ∧
        SortedTo G mp.1.s mp.2 ∧ ∀ y q, den D (mp.1 :: mp.2) y q ↔
          den D (dc :: { s := sstart, e := sc.e, sub := sc.sub } :: acc) y q :=
      mergePrev_spec (G := G) (D := D) ops.eq L.eq_sound _ dc hnew hdc
    have hpre := ih (by simp only [List.length_cons] at hf ⊢; omega)
      ⟨m4, by omega, m2 ▸ hgd, m1 ▸ hdrest⟩
      (by
        intro hne
        cases srest with
        | nil => exact (hne rfl).elim
        | cons sc' srest' =>
          exact mergePrev_suffix ops.eq _ dc _
            (show SortedTo G sc'.s ({ s := sstart, e := sc.e, sub := sc.sub } :: acc) from
              ⟨hsrest.1, hlt, hgs, hacc⟩))
      (by rw [retarget_startOf]; exact hsrest.startOf)
    refine ⟨hpre.1, ?_⟩
    intro y q
    rw [hpre.2 y q, retarget_startOf]
    have e1 := m5 y q
    simp only [retarget, den_cons] at e1 ⊢
    clear_value mp
    clear ih hpre m5 hf
    grind
  case case7 fuel acc dc drest sstart sc srest h1 h2 ih =>
    obtain ⟨_, hlt, hgs, hsrest⟩ := hs
    have hacc := hb (by simp)
    have hz' := hz
    obtain ⟨hdacc, hdc, hgd, hdrest⟩ := hz
    have hle : dc.e ≤ sstart := by
      by_cases c : sstart < dc.e
      · exact absurd ⟨c, by omega⟩ h2
      · omega
    have hpre := ih (by simp only [List.length_cons] at hf ⊢; omega) hz'.advance
      (fun _ => ⟨hle, hdc, hgd, hdacc⟩) ⟨Int.le_refl _, hlt, hgs, hsrest⟩
    refine ⟨hpre.1, ?_⟩
    intro y q
    rw [hpre.2 y q]
    simp only [retarget, den_cons]
    grind
  case case5 fuel acc dc drest sstart sc srest h1 h2 mp1 dcA accA drestB dcB accC dcC dcD mp mn h3 ih =>
    obtain ⟨_, hlt, hgs, hsrest⟩ := hs
    have hacc := hb (by simp)
    obtain ⟨hdacc, hdc, hgd, hdrest⟩ := hz
    obtain ⟨a1, a2, a3, a4, a5⟩ : dcA.e = dc.e ∧ dcA.sub = dc.sub ∧ dcA.s ≤ dc.s ∧
        SortedTo G dcA.s accA ∧ ∀ y q, den D (dcA :: accA) y q ↔
          (den D (dc :: acc) y q ∨ (sstart < dc.s ∧ sstart ≤ y ∧ y < dc.s ∧ D sc.sub q)) := by
      by_cases b1 : sstart < dc.s
      · have hp : SortedTo G dc.s ({ s := sstart, e := dc.s, sub := sc.sub } :: acc) :=
          ⟨Int.le_refl _, b1, hgs, hacc⟩
        have := mergePrev_spec (G := G) (D := D) ops.eq L.eq_sound _ dc hp hdc
        simp only [dcA, accA, mp1, b1, if_true]
        refine ⟨this.1, this.2.1, this.2.2.1, this.2.2.2.1, ?_⟩
        intro y q
        rw [this.2.2.2.2 y q]
        simp only [den_cons]
        grind
      · simp only [dcA, accA, mp1, b1, if_false]
        exact ⟨trivial, trivial, Int.le_refl _, hdacc, by intro y q; simp⟩
    have hdrB : drestB = if sc.e < dc.e then { s := sc.e, e := dc.e, sub := dc.sub } :: drest
        else drest := by
      simp only [drestB, a1, a2]
    have hB : dcB.s = dcA.s ∧ dcB.e = (if sc.e < dc.e then sc.e else dc.e) ∧ dcB.sub = dc.sub := by
      simp only [dcB, a1]; split <;> simp [a1, a2]
    have haC : accC = if sstart > dcA.s then { s := dcA.s, e := sstart, sub := dc.sub } :: accA
        else accA := by
      simp only [accC, hB.1, hB.2.2]
    have hC : dcC.s = (if sstart > dcA.s then sstart else dcA.s) ∧ dcC.e = dcB.e ∧
        dcC.sub = dc.sub := by
      simp only [dcC, hB.1]; split <;> simp [hB]
    obtain ⟨hBs, hBe, hBsub⟩ := hB
    obtain ⟨hCs, hCe, hCsub⟩ := hC
    have hDs : dcD.s = dcC.s := rfl
    have hDe : dcD.e = dcC.e := rfl
    have hDsub : dcD.sub = ops.or dc.sub sc.sub := by simp only [dcD, hCsub]
    have hgor := L.or_good _ _ hgd hgs
    have hdor := L.or_den _ _ hgd hgs
    have hs1 : dc.s < sc.e := by omega
    by_cases b2 : sc.e < dc.e <;> by_cases b3 : sstart > dcA.s <;>
      simp only [b2, b3, if_true, if_false] at hdrB hBe haC hCs
    all_goals
      have haccC : SortedTo G dcD.s accC := by
        rw [hDs, hCs, haC]
        first
          | exact ⟨Int.le_refl _, b3, hgd, a4⟩
          | exact a4
      have hdrestB : SortedFrom G dcD.e drestB := by
        rw [hDe, hCe, hBe, hdrB]
        first
          | exact ⟨Int.le_refl _, b2, hgd, hdrest⟩
          | exact hdrest
      have hDlt : dcD.s < dcD.e := by rw [hDs, hDe, hCs, hCe, hBe]; omega
      obtain ⟨m1, m2, m3, m4, m5⟩ : mp.1.e = dcD.e ∧ mp.1.sub = dcD.sub ∧ mp.1.s ≤ dcD.s ∧
          SortedTo G mp.1.s mp.2 ∧ ∀ y q, den D (mp.1 :: mp.2) y q ↔ den D (dcD :: accC) y q :=
        mergePrev_spec (G := G) (D := D) ops.eq L.eq_sound accC dcD haccC hDlt
      obtain ⟨n1, n2, n3, n4, n5, n6⟩ : mn.1.s = mp.1.s ∧ mn.1.sub = mp.1.sub ∧
          mp.1.e ≤ mn.1.e ∧ SortedFrom G mn.1.e mn.2 ∧ mn.2.length ≤ drestB.length ∧
          ∀ y q, den D (mn.1 :: mn.2) y q ↔ den D (mp.1 :: drestB) y q :=
        mergeNext_spec (G := G) (D := D) ops.eq L.eq_sound drestB mp.1 (m1 ▸ hdrestB)
          (by rw [m1]; omega)
      have hmnlt : mn.1.s < mn.1.e := by rw [n1]; rw [m1] at n3; omega
      have hmng : G mn.1.sub := by rw [n2, m2, hDsub]; exact hgor
      have hpre := ih ?_ (Zip.push (n1 ▸ m4) hmnlt hmng n4)
        (fun _ => ⟨Int.le_refl _, hmnlt, hmng, n1 ▸ m4⟩) ⟨Int.le_refl _, h3, hgs, hsrest⟩
      · refine ⟨hpre.1, ?_⟩
        intro y q
        rw [hpre.2 y q]
        have b1 : den D drest y q → dc.e ≤ y := den_lb hdrest
        have b2' : den D srest y q → sc.e ≤ y := den_lb hsrest
        have b3' : den D mp.2 y q → y < mp.1.s := den_ub m4
        have b4 : den D mn.2 y q → mn.1.e ≤ y := den_lb n4
        have b5 : den D acc y q → y < dc.s := den_ub hdacc
        have b6 : den D acc y q → y < sstart := den_ub hacc
        have b7 : den D accA y q → y < dcA.s := den_ub a4
        have hq := hdor q
        have e0 := a5 y q
        have e1 := m5 y q
        have e2 := n6 y q
        simp only [hdrB, haC, den_cons, m2, n2, hDsub, retarget, a2] at e0 e1 e2 ⊢
        rw [hDs, hDe, hCs, hCe, hBe] at e1
        rw [m1, hDe, hCe, hBe] at n3 e2
        rw [hDs, hCs] at m3
        rw [n1] at e2 ⊢
        clear_value mp mn mp1 dcA accA drestB dcB accC dcC dcD
        clear ih hpre hf m5 n6 a5 hdor haccC hdrestB hDlt hmnlt hmng hgor
        grind
      · -- fuel
        simp only [List.length_cons] at hf ⊢
        rw [m1, hDe, hCe, hBe] at n3
        first
          | (exfalso; omega)
          | (rw [hdrB] at n5; omega)
  case case6 fuel acc dc drest sstart sc srest h1 h2 mp1 dcA accA drestB dcB accC dcC dcD mp mn h3 ih =>
    obtain ⟨_, hlt, hgs, hsrest⟩ := hs
    have hacc := hb (by simp)
    obtain ⟨hdacc, hdc, hgd, hdrest⟩ := hz
    obtain ⟨a1, a2, a3, a4, a5⟩ : dcA.e = dc.e ∧ dcA.sub = dc.sub ∧ dcA.s ≤ dc.s ∧
        SortedTo G dcA.s accA ∧ ∀ y q, den D (dcA :: accA) y q ↔
          (den D (dc :: acc) y q ∨ (sstart < dc.s ∧ sstart ≤ y ∧ y < dc.s ∧ D sc.sub q)) := by
      by_cases b1 : sstart < dc.s
      · have hp : SortedTo G dc.s ({ s := sstart, e := dc.s, sub := sc.sub } :: acc) :=
          ⟨Int.le_refl _, b1, hgs, hacc⟩
        have := mergePrev_spec (G := G) (D := D) ops.eq L.eq_sound _ dc hp hdc
        simp only [dcA, accA, mp1, b1, if_true]
        refine ⟨this.1, this.2.1, this.2.2.1, this.2.2.2.1, ?_⟩
        intro y q
        rw [this.2.2.2.2 y q]
        simp only [den_cons]
        grind
      · simp only [dcA, accA, mp1, b1, if_false]
        exact ⟨trivial, trivial, Int.le_refl _, hdacc, by intro y q; simp⟩
    have hdrB : drestB = if sc.e < dc.e then { s := sc.e, e := dc.e, sub := dc.sub } :: drest
        else drest := by
      simp only [drestB, a1, a2]
    have hB : dcB.s = dcA.s ∧ dcB.e = (if sc.e < dc.e then sc.e else dc.e) ∧ dcB.sub = dc.sub := by
      simp only [dcB, a1]; split <;> simp [a1, a2]
    have haC : accC = if sstart > dcA.s then { s := dcA.s, e := sstart, sub := dc.sub } :: accA
        else accA := by
      simp only [accC, hB.1, hB.2.2]
    have hC : dcC.s = (if sstart > dcA.s then sstart else dcA.s) ∧ dcC.e = dcB.e ∧
        dcC.sub = dc.sub := by
      simp only [dcC, hB.1]; split <;> simp [hB]
    obtain ⟨hBs, hBe, hBsub⟩ := hB
    obtain ⟨hCs, hCe, hCsub⟩ := hC
    have hDs : dcD.s = dcC.s := rfl
    have hDe : dcD.e = dcC.e := rfl
    have hDsub : dcD.sub = ops.or dc.sub sc.sub := by simp only [dcD, hCsub]
    have hgor := L.or_good _ _ hgd hgs
    have hdor := L.or_den _ _ hgd hgs
    have hs1 : dc.s < sc.e := by omega
    by_cases b2 : sc.e < dc.e <;> by_cases b3 : sstart > dcA.s <;>
      simp only [b2, b3, if_true, if_false] at hdrB hBe haC hCs
    all_goals
      have haccC : SortedTo G dcD.s accC := by
        rw [hDs, hCs, haC]
        first
          | exact ⟨Int.le_refl _, b3, hgd, a4⟩
          | exact a4
      have hdrestB : SortedFrom G dcD.e drestB := by
        rw [hDe, hCe, hBe, hdrB]
        first
          | exact ⟨Int.le_refl _, b2, hgd, hdrest⟩
          | exact hdrest
      have hDlt : dcD.s < dcD.e := by rw [hDs, hDe, hCs, hCe, hBe]; omega
      obtain ⟨m1, m2, m3, m4, m5⟩ : mp.1.e = dcD.e ∧ mp.1.sub = dcD.sub ∧ mp.1.s ≤ dcD.s ∧
          SortedTo G mp.1.s mp.2 ∧ ∀ y q, den D (mp.1 :: mp.2) y q ↔ den D (dcD :: accC) y q :=
        mergePrev_spec (G := G) (D := D) ops.eq L.eq_sound accC dcD haccC hDlt
      obtain ⟨n1, n2, n3, n4, n5, n6⟩ : mn.1.s = mp.1.s ∧ mn.1.sub = mp.1.sub ∧
          mp.1.e ≤ mn.1.e ∧ SortedFrom G mn.1.e mn.2 ∧ mn.2.length ≤ drestB.length ∧
          ∀ y q, den D (mn.1 :: mn.2) y q ↔ den D (mp.1 :: drestB) y q :=
        mergeNext_spec (G := G) (D := D) ops.eq L.eq_sound drestB mp.1 (m1 ▸ hdrestB)
          (by rw [m1]; omega)
      have hmnlt : mn.1.s < mn.1.e := by rw [n1]; rw [m1] at n3; omega
      have hmng : G mn.1.sub := by rw [n2, m2, hDsub]; exact hgor
      have hpre := ih ?_ ⟨n1 ▸ m4, hmnlt, hmng, n4⟩
        (by
          intro hne
          cases srest with
          | nil => exact (hne rfl).elim
          | cons sc' srest' =>
            have hle : sc.e ≤ sc'.s := hsrest.1
            apply mergePrev_suffix
            show SortedTo G sc'.s accC
            rw [haC]
            first
              | exact ⟨show sstart ≤ sc'.s by omega, b3, hgd, a4⟩
              | exact a4.mono (show dcA.s ≤ sc'.s by omega))
        (by rw [retarget_startOf]; exact hsrest.startOf)
      · refine ⟨hpre.1, ?_⟩
        intro y q
        rw [hpre.2 y q, retarget_startOf]
        have b1 : den D drest y q → dc.e ≤ y := den_lb hdrest
        have b2' : den D srest y q → sc.e ≤ y := den_lb hsrest
        have b3' : den D mp.2 y q → y < mp.1.s := den_ub m4
        have b4 : den D mn.2 y q → mn.1.e ≤ y := den_lb n4
        have b5 : den D acc y q → y < dc.s := den_ub hdacc
        have b6 : den D acc y q → y < sstart := den_ub hacc
        have b7 : den D accA y q → y < dcA.s := den_ub a4
        have hq := hdor q
        have e0 := a5 y q
        have e1 := m5 y q
        have e2 := n6 y q
        simp only [hdrB, haC, den_cons, m2, n2, hDsub, retarget, a2] at e0 e1 e2 ⊢
        rw [hDs, hDe, hCs, hCe, hBe] at e1
        rw [m1, hDe, hCe, hBe] at n3 e2
        rw [hDs, hCs] at m3
        rw [n1] at e2 ⊢
        clear_value mp mn mp1 dcA accA drestB dcB accC dcC dcD
        clear ih hpre hf m5 n6 a5 hdor haccC hdrestB hDlt hmnlt hmng hgor
        grind
      · -- fuel
        simp only [List.length_cons] at hf ⊢
        have : drestB.length ≤ drest.length + 1 := by rw [hdrB]; simp
        omega

/-- `sraSpanListOr` on well-formed operands: well-formed result denoting the union -/
theorem spanOr_spec {ops : SubOps α} {G : α → Prop} {D : α → β → Prop} (L : Laws ops G D)
    (dest src : List (Span α)) (hd : Sorted G dest) (hs : Sorted G src) :
    Sorted G (spanOr ops dest src) ∧
    ∀ y q, den D (spanOr ops dest src) y q ↔ (den D dest y q ∨ den D src y q) := by
  obtain ⟨lo, hlo⟩ := hs.to_from
  have h := orLoop_spec L (2 * src.length + dest.length) [] dest (startOf src) src
    (Nat.le_refl _) (Zip.of_sorted hd) (fun _ => trivial)
    (by rw [retarget_startOf]; exact hlo.startOf)
  refine ⟨h.1, fun y q => ?_⟩
  rw [spanOr, h.2 y q, retarget_startOf]
  simp
