import VncModel.Region.Or
/-!
The two instances of the generic span-list layer: x level (`α = Unit`) and y level (`α = XList`),
and the resulting statements about `Region.or / and / sub`.
-/
namespace VncModel.Rgn

/-! ### x level -/

def DUnit : Unit → Unit → Prop := fun _ _ => True
def GUnit : Unit → Prop := fun _ => True

theorem unitLaws : Laws unitOps GUnit DUnit where
  eq_sound := fun _ _ _ _ => Iff.rfl
  or_good := fun _ _ _ _ => trivial
  or_den := fun _ _ _ _ _ => by simp [DUnit]
  and_some := fun _ _ _ _ _ _ => ⟨trivial, fun _ => by simp [DUnit]⟩
  and_none := fun _ _ _ _ h => by simp [unitOps] at h
  sub_some := fun _ _ _ _ _ h => by simp [unitOps] at h
  sub_none := fun _ _ _ _ _ _ => by simp [DUnit]

theorem xden_iff (l : XList) (x : Int) : XList.den l x ↔ den DUnit l x () := by
  simp [XList.den, den, DUnit]

theorem xwf_iff (l : XList) : XList.WF l ↔ Sorted GUnit l := Iff.rfl

/-- a sorted list with inhabited sub-levels is non-empty iff it covers some point -/
theorem ne_nil_iff_den {α β : Type} {G : α → Prop} {D : α → β → Prop}
    (hne : ∀ a, G a → ∃ q, D a q) {l : List (Span α)} (h : Sorted G l) :
    l ≠ [] ↔ ∃ y q, den D l y q := by
  cases l with
  | nil => simp
  | cons sp l =>
    simp only [ne_eq, reduceCtorEq, not_false_eq_true, true_iff]
    obtain ⟨q, hq⟩ := hne _ h.2.1
    exact ⟨sp.s, q, by rw [den_cons]; exact Or.inl ⟨Int.le_refl _, h.1, hq⟩⟩

theorem x_ne_nil_iff {l : XList} (h : XList.WF l) : l ≠ [] ↔ ∃ x, XList.den l x := by
  rw [ne_nil_iff_den (D := DUnit) (fun _ _ => ⟨(), trivial⟩) h]
  simp only [xden_iff]
  exact ⟨fun ⟨y, _, h⟩ => ⟨y, h⟩, fun ⟨y, h⟩ => ⟨y, (), h⟩⟩

theorem xOr_spec (a b : XList) (ha : XList.WF a) (hb : XList.WF b) :
    XList.WF (xOr a b) ∧ ∀ x, XList.den (xOr a b) x ↔ (XList.den a x ∨ XList.den b x) := by
  have h := spanOr_spec unitLaws a b ha hb
  exact ⟨h.1, fun x => by simp only [xden_iff]; exact h.2 x ()⟩

theorem xAnd_spec (a b : XList) (ha : XList.WF a) (hb : XList.WF b) :
    XList.WF (xAnd a b) ∧ ∀ x, XList.den (xAnd a b) x ↔ (XList.den a x ∧ XList.den b x) := by
  have h := spanAnd_spec unitLaws a b ha hb
  exact ⟨h.1, fun x => by simp only [xden_iff]; exact h.2 x ()⟩

theorem xSub_spec (a b : XList) (ha : XList.WF a) (hb : XList.WF b) :
    XList.WF (xSub a b) ∧ ∀ x, XList.den (xSub a b) x ↔ (XList.den a x ∧ ¬ XList.den b x) := by
  have h := spanSub_spec unitLaws a b ha hb
  exact ⟨h.1, fun x => by simp only [xden_iff]; exact h.2 x ()⟩

/-- `sraSpanListEqual` at the leaf level decides equality of the lists -/
theorem xEq_eq (a b : XList) (h : xEq a b = true) : a = b := by
  unfold xEq at h
  induction a generalizing b with
  | nil => cases b with
    | nil => rfl
    | cons _ _ => simp [spanListEq] at h
  | cons x a ih =>
    cases b with
    | nil => simp [spanListEq] at h
    | cons y b =>
      simp only [spanListEq] at h
      split at h
      · simp at h
      · rename_i hc
        simp only [Bool.not_true, Bool.or_false, Bool.or_eq_true, bne_iff_ne, ne_eq, not_or,
          Decidable.not_not] at hc
        rw [ih b h]
        cases x; cases y
        simp_all

/-! ### y level -/

def GX : XList → Prop := fun xl => XList.WF xl ∧ xl ≠ []

theorem xLaws : Laws xOps GX XList.den where
  eq_sound := fun a b h q => by rw [xEq_eq a b h]
  or_good := fun a b ha hb => by
    have h := xOr_spec a b ha.1 hb.1
    refine ⟨h.1, ?_⟩
    show xOr a b ≠ []
    rw [x_ne_nil_iff h.1]
    obtain ⟨x, hx⟩ := (x_ne_nil_iff ha.1).mp ha.2
    exact ⟨x, (h.2 x).mpr (Or.inl hx)⟩
  or_den := fun a b ha hb q => (xOr_spec a b ha.1 hb.1).2 q
  and_some := fun a b c ha hb h => by
    have hs := xAnd_spec a b ha.1 hb.1
    simp only [xOps] at h
    split at h
    · simp at h
    · rename_i hne
      simp only [Option.some.injEq] at h
      subst h
      exact ⟨⟨hs.1, by simpa using hne⟩, hs.2⟩
  and_none := fun a b ha hb h q => by
    have hs := xAnd_spec a b ha.1 hb.1
    simp only [xOps] at h
    split at h
    · rename_i he
      rw [← hs.2 q]
      have : xAnd a b = [] := by simpa using he
      rw [this]
      simp [XList.den]
    · simp at h
  sub_some := fun a b c ha hb h => by
    have hs := xSub_spec a b ha.1 hb.1
    simp only [xOps] at h
    split at h
    · simp at h
    · rename_i hne
      simp only [Option.some.injEq] at h
      subst h
      exact ⟨⟨hs.1, by simpa using hne⟩, hs.2⟩
  sub_none := fun a b ha hb h q => by
    have hs := xSub_spec a b ha.1 hb.1
    simp only [xOps] at h
    split at h
    · rename_i he
      rw [← hs.2 q]
      have : xSub a b = [] := by simpa using he
      rw [this]
      simp [XList.den]
    · simp at h

theorem rden_iff (r : Region) (x y : Int) : Region.den r x y ↔ den XList.den r y x := by
  simp [Region.den, den]

theorem rwf_iff (r : Region) : Region.WF r ↔ Sorted GX r := Iff.rfl

theorem r_ne_nil_iff {r : Region} (h : Region.WF r) : r ≠ [] ↔ ∃ x y, Region.den r x y := by
  rw [ne_nil_iff_den (D := XList.den) (fun a ha => (x_ne_nil_iff ha.1).mp ha.2) h]
  simp only [rden_iff]
  exact ⟨fun ⟨y, x, h⟩ => ⟨x, y, h⟩, fun ⟨x, y, h⟩ => ⟨y, x, h⟩⟩

theorem rOr_spec (a b : Region) (ha : Region.WF a) (hb : Region.WF b) :
    Region.WF (Region.or a b) ∧
    ∀ x y, Region.den (Region.or a b) x y ↔ (Region.den a x y ∨ Region.den b x y) := by
  have h := spanOr_spec xLaws a b ha hb
  exact ⟨h.1, fun x y => by simp only [rden_iff]; exact h.2 y x⟩

theorem rAnd_spec (a b : Region) (ha : Region.WF a) (hb : Region.WF b) :
    Region.WF (Region.and a b).1 ∧
    (∀ x y, Region.den (Region.and a b).1 x y ↔ (Region.den a x y ∧ Region.den b x y)) ∧
    ((Region.and a b).2 = true ↔ ∃ x y, Region.den (Region.and a b).1 x y) := by
  have h := spanAnd_spec xLaws a b ha hb
  refine ⟨h.1, fun x y => by simp only [rden_iff]; exact h.2 y x, ?_⟩
  rw [← r_ne_nil_iff (show Region.WF (Region.and a b).1 from h.1)]
  simp [Region.and]

theorem rSub_spec (a b : Region) (ha : Region.WF a) (hb : Region.WF b) :
    Region.WF (Region.sub a b).1 ∧
    (∀ x y, Region.den (Region.sub a b).1 x y ↔ (Region.den a x y ∧ ¬ Region.den b x y)) ∧
    ((Region.sub a b).2 = true ↔ ∃ x y, Region.den (Region.sub a b).1 x y) := by
  have h := spanSub_spec xLaws a b ha hb
  refine ⟨h.1, fun x y => by simp only [rden_iff]; exact h.2 y x, ?_⟩
  rw [← r_ne_nil_iff (show Region.WF (Region.sub a b).1 from h.1)]
  simp [Region.sub]

end VncModel.Rgn
