import VncModel.Client.Session
import VncModel.Client.TileLen
/-!
Refinement of `HandleTightBPP` (tight.c; model `tightDecode`) to `Spec.decodeTight`: fill, basic
compression with the copy / palette (2 colours → 1-bit padded rows; 3‥256 → bytes) / gradient
filters, compact length, the 12-byte rule, stream selection (`t % 4`), `inflate` as a parameter.
-/
namespace VncModel.Client
open VncModel.Enc.Spec hiding encRaw encCopyRect encRRE encCoRRE encHextile encZlib encTight encUltra encTRLE encZRLE encZYWRLE encLastRect tightMinToCompress
open VncModel.Gen.C07

theorem compactLenC_eq : ∀ bs, compactLenC bs = readCompactLen bs := by
  intro bs
  cases bs with
  | nil => rfl
  | cons a bs =>
    simp only [compactLenC, readCompactLen]
    by_cases ha : a.toNat < 128
    · simp [ha]
    · simp only [ha, if_false]
      cases bs with
      | nil => rfl
      | cons b bs =>
        simp only
        by_cases hb : b.toNat < 128
        · simp [hb, Nat.mod_eq_of_lt hb]
        · simp only [hb, if_false]
          cases bs with
          | nil => rfl
          | cons c bs => rfl

theorem takeN_length {n : Nat} {bs a r : Bytes} (h : takeN n bs = some (a, r)) : a.length = n :=
  (takeN_split h).2

theorem readTightData_length {infl : Bytes → Option Bytes} {size : Nat} {bs d r : Bytes}
    (h : readTightData infl size bs = some (d, r)) : d.length = size := by
  unfold readTightData at h
  split at h
  · exact takeN_length h
  · cases hc : readCompactLen bs with
    | none => simp [hc] at h
    | some q =>
      obtain ⟨n, bs1⟩ := q
      simp only [hc] at h
      cases ht : takeN n bs1 with
      | none => simp [ht] at h
      | some q2 =>
        obtain ⟨z, rest⟩ := q2
        simp only [ht] at h
        cases hi : infl z with
        | none => simp [hi] at h
        | some dd =>
          simp only [hi] at h
          split at h
          · simp only [Option.some.injEq, Prod.mk.injEq] at h; rw [← h.1]; assumption
          · simp at h

/-- the data block: `readTightData` of the specification = the client's reading (12-byte rule,
compact length, one inflate call on stream `sid`, row accounting) -/
theorem tightData_refines (f : PixFmt) (infl : Nat → Bytes → Option Bytes) (sid bits w h : Nat) (bs d rest : Bytes)
    (hfit : (w * bits + 7) / 8 ≤ rfbBufferSize * bits / (bits + f.bpp) / 4 * 4)
    (hinfl0 : ∀ id dd, infl id [] = some dd → dd.length < 12)
    (hsp : readTightData (infl sid) (h * ((w * bits + 7) / 8)) bs = some (d, rest)) :
    ∃ used, tightData f infl false sid bits w h bs = .ok (d, used, rest) := by
  have hdl := readTightData_length hsp
  unfold readTightData at hsp
  unfold tightData
  simp only [VncModel.Enc.Spec.tightMinToCompress, VncModel.Gen.C07.tightMinToCompress] at hsp ⊢
  by_cases hsmall : h * ((w * bits + 7) / 8) < 12
  · simp only [hsmall, if_true] at hsp ⊢
    exact ⟨none, by simp [hsp]⟩
  · simp only [hsmall, if_false] at hsp ⊢
    rw [compactLenC_eq]
    cases hc : readCompactLen bs with
    | none => simp [hc] at hsp
    | some q =>
      obtain ⟨n, bs1⟩ := q
      simp only [hc] at hsp ⊢
      cases ht : takeN n bs1 with
      | none => simp [ht] at hsp
      | some q2 =>
        obtain ⟨z, r2⟩ := q2
        simp only [ht] at hsp
        cases hi : infl sid z with
        | none => simp [hi] at hsp
        | some dd =>
          simp only [hi] at hsp
          by_cases hlen : dd.length = h * ((w * bits + 7) / 8)
          · simp only [hlen, if_true, Option.some.injEq, Prod.mk.injEq] at hsp
            obtain ⟨e1, e2⟩ := hsp
            subst e1 e2
            have hn0 : ¬ (n = 0) := by
              intro h0
              subst h0
              simp only [takeN, Option.some.injEq, Prod.mk.injEq] at ht
              rw [← ht.1] at hi
              have := hinfl0 sid dd hi
              omega
            have hrs : 0 < (w * bits + 7) / 8 := by
              rcases Nat.eq_zero_or_pos ((w * bits + 7) / 8) with h0 | h0
              · rw [h0] at hsmall; simp at hsmall
              · exact h0
            have hrows : dd.length / ((w * bits + 7) / 8) = h := by
              rw [hlen, Nat.mul_div_cancel _ hrs]
            have hfit' : ¬ ((w * bits + 7) / 8 > rfbBufferSize * bits / (bits + f.bpp) / 4 * 4) := by omega
            refine ⟨some (sid, z), ?_⟩
            simp [hn0, hfit', ht, hi, hrows]
          · simp [hlen] at hsp

theorem readTPixels_length {tp : TPix} : ∀ {k : Nat} {bs r : Bytes} {ps : List Pixel},
    readTPixels tp k bs = some (ps, r) → ps.length = k := by
  intro k
  induction k with
  | zero => intro bs r ps h; simp only [readTPixels, Option.some.injEq, Prod.mk.injEq] at h; simp [← h.1]
  | succ k ih =>
    intro bs r ps h
    simp only [readTPixels] at h
    cases hp : readTPixel tp bs with
    | none => simp [hp] at h
    | some q =>
      obtain ⟨p, b1⟩ := q
      simp only [hp] at h
      cases h1 : readTPixels tp k b1 with
      | none => simp [h1] at h
      | some q1 =>
        obtain ⟨ps1, r1⟩ := q1
        simp only [h1, Option.map_some, Option.some.injEq, Prod.mk.injEq] at h
        rw [← h.1]; simp [ih h1]

/-- bytes per row for the copy and gradient filters = `w` TPIXELs -/
theorem tight_rowsize_tpix (f : PixFmt) (hbpp : f.bpp = 8 * f.bytespp) (w : Nat) :
    (w * (if f.tpix.size = 3 ∧ f.bpp = 32 then 24 else f.bpp) + 7) / 8 = w * f.tpix.size := by
  by_cases hc : f.tpix.size = 3 ∧ f.bpp = 32
  · simp only [hc, and_self, if_true]
    have : w * 24 = 8 * (w * 3) := by omega
    rw [this]; omega
  · simp only [hc, if_false]
    have hsz : f.tpix.size = f.bytespp := by
      by_cases hr : f.bpp = 32 ∧ f.depth = 24 ∧ f.rMax = 255 ∧ f.gMax = 255 ∧ f.bMax = 255
      · exfalso; apply hc; simp [PixFmt.tpix, hr, TPix.size]
      · simp [PixFmt.tpix, hr, TPix.size]
    rw [hsz, hbpp]
    have : w * (8 * f.bytespp) = 8 * (w * f.bytespp) := by
      rw [Nat.mul_left_comm]
    rw [this]; omega

/-- a one-colour palette (count byte 0): accepted by `Spec.decodeTight`, refused by tight.c
(`if (++client->rectColors < 2) return 0`); the Tight documentation wants 2‥256 colours -/
def tightOneColourPalette : Bytes → Bool
  | c :: fid :: nc :: _ => c.toNat / 16 < 8 && c.toNat / 64 % 2 = 1 && fid.toNat = 1 && nc.toNat = 0
  | _ => false

/-- the rectangle uses the gradient filter -/
def tightIsGradient : Bytes → Bool
  | c :: fid :: _ => c.toNat / 16 < 8 && c.toNat / 64 % 2 = 1 && fid.toNat = 2
  | _ => false

/-- **Tight**: whenever `Spec.decodeTight` (no JPEG/PNG codec, no "no zlib" extension: the RFB
specification proper) decodes a rectangle to `px`, `HandleTightBPP` obtains exactly `px`,
leaves the same rest, and has used the zlib stream the specification names.
Hypotheses = limits of the library, each stated: pixel formats with whole bytes; every row fits
the decompression window (`hrow`, the C code's "incorrect buffer size" guard); gradient rows
fit the 2048-pixel row buffers; no one-colour palette; inflating an empty chunk yields < 12 bytes. -/
theorem tightDecode_refines (f : PixFmt) (infl : Nat → Bytes → Option Bytes) (w h : Nat) (bs : Bytes)
    (px : List Pixel) (rest : Bytes)
    (hbpp : f.bpp = 8 * f.bytespp)
    (hrow : ∀ bits, bits = 1 ∨ bits = 8 ∨ bits = 24 ∨ bits = f.bpp →
      (w * bits + 7) / 8 ≤ rfbBufferSize * bits / (bits + f.bpp) / 4 * 4)
    (hgrad : tightIsGradient bs = true → w * 3 ≤ tightThisRowCells)
    (hpal1 : tightOneColourPalette bs = false)
    (hinfl0 : ∀ id dd, infl id [] = some dd → dd.length < 12)
    (hsp : decodeTight {} infl f ⟨w, h⟩ bs = some (px, rest)) :
    ∃ used, tightDecode f infl w h bs = .ok (px, used, rest) := by
  cases bs with
  | nil => simp [decodeTight] at hsp
  | cons c bs =>
    simp only [decodeTight] at hsp
    simp only [tightDecode]
    have hc256 : c.toNat < 256 := c.toNat_lt
    by_cases h8 : c.toNat / 16 = 8
    · -- fill
      simp only [h8, if_true] at hsp
      have hnoz : ¬ (8 % 4 / 2 = 1 ∧ 8 / 8 = 1) := by decide
      simp only [h8, hnoz, decide_false, Bool.false_eq_true, if_false, tightFill, if_true]
      cases hp : readTPixel f.tpix bs with
      | none => simp [hp] at hsp
      | some q =>
        obtain ⟨p, r⟩ := q
        simp only [hp, Option.map_some, Option.some.injEq, Prod.mk.injEq] at hsp
        exact ⟨none, by simp [← hsp.1, ← hsp.2]⟩
    · simp only [h8, if_false] at hsp
      by_cases h9 : c.toNat / 16 = 9
      · simp only [h9, if_true] at hsp
        cases hcl : readCompactLen bs with
        | none => simp [hcl] at hsp
        | some q =>
          obtain ⟨len, b1⟩ := q
          simp only [hcl] at hsp
          cases ht : takeN len b1 with
          | none => simp [ht] at hsp
          | some q2 => obtain ⟨d, r⟩ := q2; simp [ht] at hsp
      · simp only [h9, if_false] at hsp
        have hpng : ¬ (c.toNat / 16 = 10 ∧ ({} : TightCodecs).isPng = true) := by simp
        simp only [hpng, if_false] at hsp
        by_cases hge : c.toNat / 16 ≥ 8
        · -- 10..15: not part of the specification proper
          have : c.toNat / 16 ≥ 8 ∧ ¬ ((c.toNat / 16 = 10 ∨ c.toNat / 16 = 14) ∧ ({} : TightCodecs).allowNoZlib = true ∧
              ¬ ({} : TightCodecs).isPng = true) := ⟨hge, by simp⟩
          simp [this] at hsp
        · -- basic compression, stream `t % 4`
          have hlt : c.toNat / 16 < 8 := by omega
          have hno : ¬ (c.toNat / 16 ≥ 8 ∧ ¬ ((c.toNat / 16 = 10 ∨ c.toNat / 16 = 14) ∧
              ({} : TightCodecs).allowNoZlib = true ∧ ¬ ({} : TightCodecs).isPng = true)) := fun hh => hge hh.1
          simp only [hno, if_false] at hsp
          have hnz : ¬ (c.toNat / 16 = 10 ∨ c.toNat / 16 = 14) := by omega
          simp only [hnz, if_false] at hsp
          have hnoz : ¬ (c.toNat / 16 % 4 / 2 = 1 ∧ c.toNat / 16 / 8 = 1) := by omega
          have c1 : ¬ (c.toNat / 16 = tightFill) := by simp [tightFill]; omega
          have c2 : ¬ (c.toNat / 16 = tightJpeg) := by simp [tightJpeg]; omega
          have c3 : ¬ (c.toNat / 16 > tightMaxSubencoding) := by simp [tightMaxSubencoding]; omega
          simp only [hnoz, decide_false, Bool.false_eq_true, if_false, c1, c2, c3]
          cases hf : (if c.toNat / 16 / 4 % 2 = 1 then readU8 bs else some (0, bs)) with
          | none => simp [hf] at hsp
          | some q =>
            obtain ⟨fid, b1⟩ := q
            simp only [hf] at hsp ⊢
            by_cases hf0 : fid = 0
            · -- copy filter
              subst hf0
              simp only [if_true] at hsp
              cases hd : readTightData (infl (c.toNat / 16 % 4)) (w * h * f.tpix.size) b1 with
              | none => simp [hd] at hsp
              | some q2 =>
                obtain ⟨d, r⟩ := q2
                simp only [hd] at hsp
                cases hpx : readTPixels f.tpix (w * h) d with
                | none => simp [hpx] at hsp
                | some q3 =>
                  obtain ⟨ps, tl⟩ := q3
                  cases tl with
                  | cons _ _ => simp [hpx] at hsp
                  | nil =>
                    simp only [hpx, Option.some.injEq, Prod.mk.injEq] at hsp
                    obtain ⟨e1, e2⟩ := hsp
                    subst e1 e2
                    have hrs := tight_rowsize_tpix f hbpp w
                    have hbits : (if f.tpix.size = 3 ∧ f.bpp = 32 then 24 else f.bpp) = 24 ∨
                        (if f.tpix.size = 3 ∧ f.bpp = 32 then 24 else f.bpp) = f.bpp := by
                      by_cases hcc : f.tpix.size = 3 ∧ f.bpp = 32 <;> simp [hcc]
                    have hfit := hrow (if f.tpix.size = 3 ∧ f.bpp = 32 then 24 else f.bpp) (by rcases hbits with hh | hh <;> rw [hh] <;> simp)
                    have hsize : h * ((w * (if f.tpix.size = 3 ∧ f.bpp = 32 then 24 else f.bpp) + 7) / 8) =
                        w * h * f.tpix.size := by rw [hrs]; ac_rfl
                    obtain ⟨used, hu⟩ := tightData_refines f infl (c.toNat / 16 % 4) _ w h b1 d r hfit hinfl0
                      (by rw [hsize]; exact hd)
                    refine ⟨used, ?_⟩
                    simp [tightFilterOf, tightFilterCopy, hu, tightFilterRows, hpx]
            · simp only [hf0, if_false] at hsp
              by_cases hf1 : fid = 1
              · -- palette filter
                subst hf1
                simp only [if_true] at hsp
                cases hn : readU8 b1 with
                | none => simp [hn] at hsp
                | some qn =>
                  obtain ⟨nc1, b2⟩ := qn
                  simp only [hn] at hsp
                  -- the count byte is not 0
                  have hnc : nc1 ≠ 0 := by
                    intro h0
                    subst h0
                    have hexp : c.toNat / 16 / 4 % 2 = 1 := by
                      by_cases he : c.toNat / 16 / 4 % 2 = 1
                      · exact he
                      · simp [he] at hf
                    simp only [hexp, if_true] at hf
                    cases bs with
                    | nil => simp [readU8] at hf
                    | cons fb0 bs' =>
                      simp only [readU8, Option.some.injEq, Prod.mk.injEq] at hf
                      obtain ⟨e1, e2⟩ := hf
                      subst e2
                      cases bs' with
                      | nil => simp [readU8] at hn
                      | cons nb bs'' =>
                        simp only [readU8, Option.some.injEq, Prod.mk.injEq] at hn
                        have : tightOneColourPalette (c :: fb0 :: nb :: bs'') = true := by
                          simp only [tightOneColourPalette, Bool.and_eq_true, decide_eq_true_eq]
                          refine ⟨⟨⟨hlt, ?_⟩, e1⟩, hn.1⟩
                          omega
                        rw [this] at hpal1
                        exact absurd hpal1 (by decide)
                  cases hpl : readTPixels f.tpix (nc1 + 1) b2 with
                  | none => simp [hpl] at hsp
                  | some qp =>
                    obtain ⟨pal, b3⟩ := qp
                    simp only [hpl] at hsp
                    have hpll := readTPixels_length hpl
                    have hk : ¬ (nc1 + 1 < 2) := by omega
                    by_cases h2 : nc1 + 1 = 2
                    · simp only [h2, if_true] at hsp
                      cases hd : readTightData (infl (c.toNat / 16 % 4)) ((w + 7) / 8 * h) b3 with
                      | none => simp [hd] at hsp
                      | some q2 =>
                        obtain ⟨d, r⟩ := q2
                        simp only [hd] at hsp
                        cases hpx : decodePackedRows 1 w pal h d with
                        | none => simp [hpx] at hsp
                        | some q3 =>
                          obtain ⟨ps, tl⟩ := q3
                          cases tl with
                          | cons _ _ => simp [hpx] at hsp
                          | nil =>
                            simp only [hpx, Option.some.injEq, Prod.mk.injEq] at hsp
                            obtain ⟨e1, e2⟩ := hsp
                            subst e1 e2
                            have hfit := hrow 1 (Or.inl rfl)
                            have hsize : h * ((w * 1 + 7) / 8) = (w + 7) / 8 * h := by
                              rw [Nat.mul_one, Nat.mul_comm]
                            obtain ⟨used, hu⟩ := tightData_refines f infl (c.toNat / 16 % 4) 1 w h b3 d r hfit hinfl0
                              (by rw [hsize]; exact hd)
                            refine ⟨used, ?_⟩
                            have hp2 : pal.length = 2 := by rw [hpll, h2]
                            have hpl2 := hpl
                            rw [h2] at hpl2
                            simp [tightFilterOf, tightFilterCopy, tightFilterPalette, hn, hk, hpl2, h2, hu, tightFilterRows,
                              hp2, hpx]
                    · simp only [h2, if_false] at hsp
                      cases hd : readTightData (infl (c.toNat / 16 % 4)) (w * h) b3 with
                      | none => simp [hd] at hsp
                      | some q2 =>
                        obtain ⟨d, r⟩ := q2
                        simp only [hd] at hsp
                        cases hpx : lookupAll pal (d.map (·.toNat)) with
                        | none => simp [hpx] at hsp
                        | some ps =>
                          simp only [hpx, Option.map_some, Option.some.injEq, Prod.mk.injEq] at hsp
                          obtain ⟨e1, e2⟩ := hsp
                          subst e1 e2
                          have hfit := hrow 8 (Or.inr (Or.inl rfl))
                          have hsize : h * ((w * 8 + 7) / 8) = w * h := by
                            have : (w * 8 + 7) / 8 = w := by omega
                            rw [this, Nat.mul_comm]
                          obtain ⟨used, hu⟩ := tightData_refines f infl (c.toNat / 16 % 4) 8 w h b3 d r hfit hinfl0
                            (by rw [hsize]; exact hd)
                          refine ⟨used, ?_⟩
                          have hp2 : ¬ (pal.length = 2) := by rw [hpll]; exact h2
                          have hdl := readTightData_length hd
                          have htk : d.take (w * h) = d := List.take_of_length_le (by omega)
                          simp [tightFilterOf, tightFilterCopy, tightFilterPalette, hn, hk, hpl, h2, hu, tightFilterRows,
                            hp2, htk, hpx]
              · simp only [hf1, if_false] at hsp
                by_cases hf2 : fid = 2
                · -- gradient filter
                  subst hf2
                  simp only [if_true] at hsp
                  cases hd : readTightData (infl (c.toNat / 16 % 4)) (w * h * f.tpix.size) b1 with
                  | none => simp [hd] at hsp
                  | some q2 =>
                    obtain ⟨d, r⟩ := q2
                    simp only [hd] at hsp
                    cases hpx : readTPixels f.tpix (w * h) d with
                    | none => simp [hpx] at hsp
                    | some q3 =>
                      obtain ⟨dpx, tl⟩ := q3
                      cases tl with
                      | cons _ _ => simp [hpx] at hsp
                      | nil =>
                        simp only [hpx, Option.some.injEq, Prod.mk.injEq] at hsp
                        obtain ⟨e1, e2⟩ := hsp
                        subst e1 e2
                        -- the rectangle is a gradient rectangle: the width bound applies
                        have hexp : c.toNat / 16 / 4 % 2 = 1 := by
                          by_cases he : c.toNat / 16 / 4 % 2 = 1
                          · exact he
                          · simp [he] at hf
                        have hg : w * 3 ≤ tightThisRowCells := by
                          apply hgrad
                          simp only [hexp, if_true] at hf
                          cases bs with
                          | nil => simp [readU8] at hf
                          | cons fb0 bs' =>
                            simp only [readU8, Option.some.injEq, Prod.mk.injEq] at hf
                            simp only [tightIsGradient, Bool.and_eq_true, decide_eq_true_eq]
                            refine ⟨⟨hlt, ?_⟩, hf.1⟩
                            omega
                        have hrs := tight_rowsize_tpix f hbpp w
                        have hbits : (if f.tpix.size = 3 ∧ f.bpp = 32 then 24 else f.bpp) = 24 ∨
                            (if f.tpix.size = 3 ∧ f.bpp = 32 then 24 else f.bpp) = f.bpp := by
                          by_cases hcc : f.tpix.size = 3 ∧ f.bpp = 32 <;> simp [hcc]
                        have hfit := hrow (if f.tpix.size = 3 ∧ f.bpp = 32 then 24 else f.bpp) (by rcases hbits with hh | hh <;> rw [hh] <;> simp)
                        have hsize : h * ((w * (if f.tpix.size = 3 ∧ f.bpp = 32 then 24 else f.bpp) + 7) / 8) =
                            w * h * f.tpix.size := by rw [hrs]; ac_rfl
                        obtain ⟨used, hu⟩ := tightData_refines f infl (c.toNat / 16 % 4) _ w h b1 d r hfit hinfl0
                          (by rw [hsize]; exact hd)
                        refine ⟨used, ?_⟩
                        have hng : ¬ (w * 3 > tightThisRowCells) := by omega
                        simp [tightFilterOf, tightFilterCopy, tightFilterPalette, tightFilterGradient, hng, hu,
                          tightFilterRows, hpx]
                · simp [hf2] at hsp

end VncModel.Client

namespace VncModel.Client
open VncModel.Enc.Spec hiding encRaw encCopyRect encRRE encCoRRE encHextile encZlib encTight encUltra encTRLE encZRLE encZYWRLE encLastRect tightMinToCompress
open VncModel.Gen.C07

/-- the decompressor parameter the session model hands to `tightDecode`: the oracle queue -/
def St.tightOracle (s : St) : Nat → Bytes → Option Bytes := fun id z => (popZ id z s.zq).map (·.1)

/-- **Tight, at the level of `HandleTightBPP` in a session**: the framebuffer ends up with exactly
the pixels `Spec.decodeTight` assigns to the rectangle (the rectangle lies in the framebuffer) -/
theorem handleTight_refines (s : St) (x y w h : Nat) (bs : Bytes) (px : List Pixel) (rest : Bytes)
    (hW : x + w ≤ s.fb.w) (hH : y + h ≤ s.fb.h)
    (hbpp : s.fmt.bpp = 8 * s.fmt.bytespp)
    (hrow : ∀ bits, bits = 1 ∨ bits = 8 ∨ bits = 24 ∨ bits = s.fmt.bpp →
      (w * bits + 7) / 8 ≤ rfbBufferSize * bits / (bits + s.fmt.bpp) / 4 * 4)
    (hgrad : tightIsGradient bs = true → w * 3 ≤ tightThisRowCells)
    (hpal1 : tightOneColourPalette bs = false)
    (hinfl0 : ∀ id dd, s.tightOracle id [] = some dd → dd.length < 12)
    (hsp : decodeTight {} s.tightOracle s.fmt ⟨w, h⟩ bs = some (px, rest)) :
    ∃ s', handleTight s x y w h bs = .ok (s', rest) ∧ s'.fb = blit s.fb x y w h px := by
  obtain ⟨used, hu⟩ := tightDecode_refines s.fmt s.tightOracle w h bs px rest hbpp hrow hgrad hpal1 hinfl0 hsp
  have hg : ¬ (x + w > s.fb.w ∨ y + h > s.fb.h) := by omega
  unfold St.tightOracle at hu
  simp only [handleTight, hg, if_false, hu]
  refine ⟨_, rfl, ?_⟩
  cases used with
  | none => rfl
  | some u =>
    obtain ⟨id, z⟩ := u
    simp only
    cases popZ id z s.zq with
    | none => rfl
    | some q => rfl

end VncModel.Client
