import VncModel.Client.RefineHex
/-!
Painting the decoded tiles one after the other (`blitTiles`, what the tile loops of hextile.c,
trle.c and zrle.c do) gives the rectangle that `Spec.assemble` describes.
-/
namespace VncModel.Client
open VncModel.Enc.Spec

/-- the `k`-th tile of `tileGrid T g` -/
def tileOf (T : Nat) (g : Geometry) (k : Nat) : TileRect :=
  ⟨(k % ((g.w + T - 1) / T)) * T, (k / ((g.w + T - 1) / T)) * T,
   min T (g.w - (k % ((g.w + T - 1) / T)) * T), min T (g.h - (k / ((g.w + T - 1) / T)) * T)⟩

theorem tileGrid_eq (T : Nat) (g : Geometry) :
    tileGrid T g = (List.range (((g.h + T - 1) / T) * ((g.w + T - 1) / T))).map (tileOf T g) := rfl

/-- index of the tile containing the cell with local coordinates `x,y` -/
def tileIdx (T : Nat) (g : Geometry) (x y : Nat) : Nat := (y / T) * ((g.w + T - 1) / T) + x / T

/-- position of that cell inside its tile (row-major) -/
def tileLoc (T : Nat) (g : Geometry) (x y : Nat) : Nat := (y % T) * (min T (g.w - (x / T) * T)) + x % T

theorem ceil_div_gt' {T w x : Nat} (hT : 0 < T) (hx : x < w) : x / T < (w + T - 1) / T := by
  rw [Nat.div_lt_iff_lt_mul hT]
  have := Nat.div_add_mod (w + T - 1) T
  have := Nat.mod_lt (w + T - 1) hT
  rw [Nat.mul_comm]
  omega

/-- a cell `x,y` of the rectangle lies in tile `k` iff `k` is its `tileIdx` -/
theorem in_tile_iff {T : Nat} (hT : 0 < T) (g : Geometry) (k x y : Nat)
    (hk : k < ((g.h + T - 1) / T) * ((g.w + T - 1) / T)) (hx : x < g.w) (hy : y < g.h) :
    ((tileOf T g k).x ≤ x ∧ x < (tileOf T g k).x + (tileOf T g k).w ∧
     (tileOf T g k).y ≤ y ∧ y < (tileOf T g k).y + (tileOf T g k).h) ↔ k = tileIdx T g x y := by
  have htpr : 0 < (g.w + T - 1) / T := by
    rcases Nat.eq_zero_or_pos ((g.w + T - 1) / T) with e | e
    · rw [e] at hk; simp at hk
    · exact e
  have hxT := ceil_div_gt' hT hx
  have hdx := Nat.div_add_mod x T
  have hmx := Nat.mod_lt x hT
  have hdy := Nat.div_add_mod y T
  have hmy := Nat.mod_lt y hT
  simp only [tileOf, tileIdx]
  constructor
  · rintro ⟨h1, h2, h3, h4⟩
    have ex : x / T = k % ((g.w + T - 1) / T) := by
      apply Nat.div_eq_of_lt_le
      · exact h1
      · rw [Nat.succ_mul]
        have : min T (g.w - k % ((g.w + T - 1) / T) * T) ≤ T := Nat.min_le_left _ _
        omega
    have ey : y / T = k / ((g.w + T - 1) / T) := by
      apply Nat.div_eq_of_lt_le
      · exact h3
      · rw [Nat.succ_mul]
        have : min T (g.h - k / ((g.w + T - 1) / T) * T) ≤ T := Nat.min_le_left _ _
        omega
    rw [ex, ey]
    have := Nat.div_add_mod k ((g.w + T - 1) / T)
    rw [Nat.mul_comm] at this
    omega
  · intro hk'
    have e1 : k % ((g.w + T - 1) / T) = x / T := by
      rw [hk', Nat.add_comm, Nat.add_mul_mod_self_right, Nat.mod_eq_of_lt hxT]
    have e2 : k / ((g.w + T - 1) / T) = y / T := by
      rw [hk', Nat.add_comm, Nat.add_mul_div_right _ _ htpr, Nat.div_eq_of_lt hxT]; simp
    rw [e1, e2]
    rw [Nat.mul_comm] at hdx hdy
    omega

theorem blit_px (fb : FB) (x y w h : Nat) (ps : List Pixel) :
    (blit fb x y w h ps).px = blitRows fb.px fb.w x y w h ps := rfl
theorem blit_px_size (fb : FB) (x y w h : Nat) (ps : List Pixel) :
    (blit fb x y w h ps).px.size = fb.px.size := by simp [blit, size_blitRows]

/-- tile payload of index `k` in a list of tile indices with their payloads -/
def lookupTile (k : Nat) : List Nat → List (List Pixel) → List Pixel
  | k' :: ks, px :: pxs => if k' = k then px else lookupTile k ks pxs
  | _, _ => []

theorem lookupTile_range' (k : Nat) : ∀ (n s : Nat) (pxs : List (List Pixel)),
    pxs.length = n → s ≤ k → k < s + n → lookupTile k (List.range' s n) pxs = pxs.getD (k - s) [] := by
  intro n
  induction n with
  | zero => intro s pxs _ h1 h2; omega
  | succ n ih =>
    intro s pxs hl h1 h2
    cases pxs with
    | nil => simp at hl
    | cons px pxs =>
      simp only [List.range'_succ, lookupTile]
      by_cases hs : s = k
      · subst hs; simp
      · simp only [hs, if_false]
        rw [ih (s + 1) pxs (by simpa using hl) (by omega) (by omega)]
        have : k - s = (k - (s + 1)) + 1 := by omega
        rw [this]; simp

/-- local coordinates of a framebuffer cell relative to the rectangle origin -/
def cellX (W rx i : Nat) : Nat := i % W - rx
def cellY (W ry i : Nat) : Nat := i / W - ry

theorem blitTiles_spec {T : Nat} (hT : 0 < T) (g : Geometry) (rx ry : Nat) :
    ∀ (ks : List Nat) (pxs : List (List Pixel)) (fb : FB),
      ks.Nodup → (∀ k ∈ ks, k < ((g.h + T - 1) / T) * ((g.w + T - 1) / T)) →
      pxs.length = ks.length →
      (∀ j (h1 : j < ks.length) (h2 : j < pxs.length),
        (pxs[j]).length = (tileOf T g ks[j]).w * (tileOf T g ks[j]).h) →
      rx + g.w ≤ fb.w →
      (blitTiles fb rx ry (ks.map (tileOf T g)) pxs).w = fb.w ∧
      (blitTiles fb rx ry (ks.map (tileOf T g)) pxs).h = fb.h ∧
      (blitTiles fb rx ry (ks.map (tileOf T g)) pxs).px.size = fb.px.size ∧
      ∀ i, (blitTiles fb rx ry (ks.map (tileOf T g)) pxs).px.getD i 0 =
        if InRect fb.w rx ry g.w g.h i ∧ i < fb.px.size ∧
            tileIdx T g (cellX fb.w rx i) (cellY fb.w ry i) ∈ ks then
          (lookupTile (tileIdx T g (cellX fb.w rx i) (cellY fb.w ry i)) ks pxs).getD
            (tileLoc T g (cellX fb.w rx i) (cellY fb.w ry i)) 0
        else fb.px.getD i 0 := by
  intro ks
  induction ks with
  | nil =>
    intro pxs fb _ _ _ _ _
    simp [blitTiles]
  | cons k ks ih =>
    intro pxs fb hnd hlt hlen hpl hW
    cases pxs with
    | nil => simp at hlen
    | cons px pxs =>
      simp only [List.map_cons, blitTiles]
      have hk := hlt k (by simp)
      have htile := mem_tileGrid (T := T) (g := g) (t := tileOf T g k) hT (by
        rw [tileGrid_eq]; exact List.mem_map.mpr ⟨k, List.mem_range.mpr hk, rfl⟩)
      have hpxl : px.length = (tileOf T g k).w * (tileOf T g k).h := by
        have := hpl 0 (by simp) (by simp)
        simpa using this
      rw [List.nodup_cons] at hnd
      have ih' := ih pxs (blit fb (rx + (tileOf T g k).x) (ry + (tileOf T g k).y) (tileOf T g k).w (tileOf T g k).h px)
        hnd.2 (fun k' hk' => hlt k' (by simp [hk'])) (by simpa using hlen)
        (fun j h1 h2 => by
          have := hpl (j + 1) (by simp; omega) (by simp; omega)
          simpa using this)
        (by rw [blit_w]; exact hW)
      obtain ⟨iw, ihh, isz, iget⟩ := ih'
      refine ⟨by rw [iw, blit_w], by rw [ihh, blit_h], by rw [isz, blit_px_size], ?_⟩
      intro i
      have iget' := iget i
      simp only [blit_w, blit_px_size, blit_px, size_blitRows] at iget'
      rw [iget']
      have hxw : rx + (tileOf T g k).x + (tileOf T g k).w ≤ fb.w := by omega
      rw [getD_blitRows _ _ _ _ _ _ _ _ _ hxw hpxl]
      by_cases hbig : InRect fb.w rx ry g.w g.h i
      · -- the cell is in the rectangle
        have hb := hbig
        unfold InRect at hb
        have hx : cellX fb.w rx i < g.w := by unfold cellX; omega
        have hy : cellY fb.w ry i < g.h := by unfold cellY; omega
        have hiff := in_tile_iff hT g k _ _ hk hx hy
        have hint : InRect fb.w (rx + (tileOf T g k).x) (ry + (tileOf T g k).y) (tileOf T g k).w (tileOf T g k).h i ↔
            k = tileIdx T g (cellX fb.w rx i) (cellY fb.w ry i) := by
          rw [← hiff]
          unfold InRect cellX cellY
          omega
        by_cases hkk : k = tileIdx T g (cellX fb.w rx i) (cellY fb.w ry i)
        · -- ... and in this tile
          have hin := hint.mpr hkk
          have hnot : tileIdx T g (cellX fb.w rx i) (cellY fb.w ry i) ∉ ks := by rw [← hkk]; exact hnd.1
          by_cases hsz : i < fb.px.size
          · have c1 : ¬ (InRect fb.w rx ry g.w g.h i ∧ i < fb.px.size ∧
                tileIdx T g (cellX fb.w rx i) (cellY fb.w ry i) ∈ ks) := fun hh => hnot hh.2.2
            have c2 : InRect fb.w (rx + (tileOf T g k).x) (ry + (tileOf T g k).y) (tileOf T g k).w (tileOf T g k).h i ∧
                i < fb.px.size := ⟨hin, hsz⟩
            have c3 : InRect fb.w rx ry g.w g.h i ∧ i < fb.px.size ∧
                tileIdx T g (cellX fb.w rx i) (cellY fb.w ry i) ∈ k :: ks := ⟨hbig, hsz, by rw [← hkk]; simp⟩
            rw [if_neg c1, if_pos c2, if_pos c3]
            have c4 : lookupTile (tileIdx T g (cellX fb.w rx i) (cellY fb.w ry i)) (k :: ks) (px :: pxs) = px := by
              simp [lookupTile, ← hkk]
            rw [c4]
            congr 1
            -- position inside the tile
            have htpr : 0 < (g.w + T - 1) / T := by
              rcases Nat.eq_zero_or_pos ((g.w + T - 1) / T) with e | e
              · rw [e] at hk; simp at hk
              · exact e
            have e1 : k % ((g.w + T - 1) / T) = cellX fb.w rx i / T := by
              rw [hkk, tileIdx, Nat.add_comm, Nat.add_mul_mod_self_right, Nat.mod_eq_of_lt (ceil_div_gt' hT hx)]
            have e2 : k / ((g.w + T - 1) / T) = cellY fb.w ry i / T := by
              rw [hkk, tileIdx, Nat.add_comm, Nat.add_mul_div_right _ _ htpr, Nat.div_eq_of_lt (ceil_div_gt' hT hx)]
              simp
            have hdx := Nat.div_add_mod (cellX fb.w rx i) T
            have hdy := Nat.div_add_mod (cellY fb.w ry i) T
            rw [Nat.mul_comm] at hdx hdy
            have hin' := hin
            unfold InRect at hin'
            simp only [tileOf, e1, e2] at hin' ⊢
            unfold tileLoc
            unfold cellX cellY at *
            have a1 : i / fb.w - (ry + (i / fb.w - ry) / T * T) = (i / fb.w - ry) % T := by omega
            have a2 : i % fb.w - (rx + (i % fb.w - rx) / T * T) = (i % fb.w - rx) % T := by omega
            rw [a1, a2]
          · have c1 : ¬ (InRect fb.w rx ry g.w g.h i ∧ i < fb.px.size ∧
                tileIdx T g (cellX fb.w rx i) (cellY fb.w ry i) ∈ ks) := fun hh => hsz hh.2.1
            have c2 : ¬ (InRect fb.w (rx + (tileOf T g k).x) (ry + (tileOf T g k).y) (tileOf T g k).w (tileOf T g k).h i ∧
                i < fb.px.size) := fun hh => hsz hh.2
            have c3 : ¬ (InRect fb.w rx ry g.w g.h i ∧ i < fb.px.size ∧
                tileIdx T g (cellX fb.w rx i) (cellY fb.w ry i) ∈ k :: ks) := fun hh => hsz hh.2.1
            rw [if_neg c1, if_neg c2, if_neg c3]
        · -- ... but in another tile
          have hnin : ¬ InRect fb.w (rx + (tileOf T g k).x) (ry + (tileOf T g k).y) (tileOf T g k).w (tileOf T g k).h i :=
            fun hh => hkk (hint.mp hh)
          have hmem : tileIdx T g (cellX fb.w rx i) (cellY fb.w ry i) ∈ k :: ks ↔
              tileIdx T g (cellX fb.w rx i) (cellY fb.w ry i) ∈ ks := by
            simp only [List.mem_cons]
            constructor
            · rintro (h | h)
              · exact absurd h.symm hkk
              · exact h
            · exact Or.inr
          have c2 : ¬ (InRect fb.w (rx + (tileOf T g k).x) (ry + (tileOf T g k).y) (tileOf T g k).w (tileOf T g k).h i ∧
              i < fb.px.size) := fun hh => hnin hh.1
          rw [if_neg c2]
          have c4 : lookupTile (tileIdx T g (cellX fb.w rx i) (cellY fb.w ry i)) (k :: ks) (px :: pxs) =
              lookupTile (tileIdx T g (cellX fb.w rx i) (cellY fb.w ry i)) ks pxs := by
            simp [lookupTile, hkk]
          rw [c4]
          by_cases hc : InRect fb.w rx ry g.w g.h i ∧ i < fb.px.size ∧
              tileIdx T g (cellX fb.w rx i) (cellY fb.w ry i) ∈ ks
          · have hc' : InRect fb.w rx ry g.w g.h i ∧ i < fb.px.size ∧
                tileIdx T g (cellX fb.w rx i) (cellY fb.w ry i) ∈ k :: ks := ⟨hc.1, hc.2.1, hmem.mpr hc.2.2⟩
            rw [if_pos hc, if_pos hc']
          · have hc' : ¬ (InRect fb.w rx ry g.w g.h i ∧ i < fb.px.size ∧
                tileIdx T g (cellX fb.w rx i) (cellY fb.w ry i) ∈ k :: ks) :=
              fun hh => hc ⟨hh.1, hh.2.1, hmem.mp hh.2.2⟩
            rw [if_neg hc, if_neg hc']
      · -- outside the rectangle: no tile touches the cell
        have hnin : ¬ InRect fb.w (rx + (tileOf T g k).x) (ry + (tileOf T g k).y) (tileOf T g k).w (tileOf T g k).h i := by
          intro hh
          apply hbig
          unfold InRect at hh ⊢
          omega
        have c1 : ¬ (InRect fb.w rx ry g.w g.h i ∧ i < fb.px.size ∧
            tileIdx T g (cellX fb.w rx i) (cellY fb.w ry i) ∈ ks) := fun hh => hbig hh.1
        have c2 : ¬ (InRect fb.w (rx + (tileOf T g k).x) (ry + (tileOf T g k).y) (tileOf T g k).w (tileOf T g k).h i ∧
            i < fb.px.size) := fun hh => hnin hh.1
        have c3 : ¬ (InRect fb.w rx ry g.w g.h i ∧ i < fb.px.size ∧
            tileIdx T g (cellX fb.w rx i) (cellY fb.w ry i) ∈ k :: ks) := fun hh => hbig hh.1
        rw [if_neg c1, if_neg c2, if_neg c3]

/-- **assembly**: painting the tiles of `tileGrid T g` one by one = `blit` of `Spec.assemble` -/
theorem blitTiles_eq_blit_assemble {T : Nat} (hT : 0 < T) (g : Geometry) (fb : FB) (rx ry : Nat)
    (pxs : List (List Pixel)) (hW : rx + g.w ≤ fb.w)
    (hlen : pxs.length = (tileGrid T g).length)
    (hpl : ∀ j (h1 : j < (tileGrid T g).length) (h2 : j < pxs.length),
      (pxs[j]).length = ((tileGrid T g)[j]).w * ((tileGrid T g)[j]).h) :
    blitTiles fb rx ry (tileGrid T g) pxs = blit fb rx ry g.w g.h (assemble T g pxs) := by
  have hn : (tileGrid T g).length = ((g.h + T - 1) / T) * ((g.w + T - 1) / T) := by simp [tileGrid]
  obtain ⟨hw, hh, hsz, hget⟩ := blitTiles_spec hT g rx ry
    (List.range (((g.h + T - 1) / T) * ((g.w + T - 1) / T))) pxs fb List.nodup_range
    (fun k hk => List.mem_range.mp hk) (by rw [hlen, hn]; simp)
    (fun j h1 h2 => by
      have := hpl j (by rw [hn]; simpa using h1) h2
      simpa [tileGrid_eq] using this) hW
  rw [← tileGrid_eq] at hw hh hsz hget
  have hpx : (blitTiles fb rx ry (tileGrid T g) pxs).px = blitRows fb.px fb.w rx ry g.w g.h (assemble T g pxs) := by
    apply array_ext_getD
    · rw [hsz, size_blitRows]
    · intro i
      rw [hget i, getD_blitRows _ _ _ _ _ _ _ _ _ hW (by simp [assemble])]
      by_cases hin : InRect fb.w rx ry g.w g.h i ∧ i < fb.px.size
      · have hb := hin.1
        unfold InRect at hb
        have hx : cellX fb.w rx i < g.w := by unfold cellX; omega
        have hy : cellY fb.w ry i < g.h := by unfold cellY; omega
        have hkl : tileIdx T g (cellX fb.w rx i) (cellY fb.w ry i) < ((g.h + T - 1) / T) * ((g.w + T - 1) / T) := by
          unfold tileIdx
          have h1 := ceil_div_gt' hT hy
          have h2 := ceil_div_gt' hT hx
          have h3 : (cellY fb.w ry i / T + 1) * ((g.w + T - 1) / T) ≤ ((g.h + T - 1) / T) * ((g.w + T - 1) / T) :=
            Nat.mul_le_mul_right _ h1
          rw [Nat.succ_mul] at h3
          omega
        have hmem : tileIdx T g (cellX fb.w rx i) (cellY fb.w ry i) ∈
            List.range (((g.h + T - 1) / T) * ((g.w + T - 1) / T)) := List.mem_range.mpr hkl
        have hcond : InRect fb.w rx ry g.w g.h i ∧ i < fb.px.size ∧
            tileIdx T g (cellX fb.w rx i) (cellY fb.w ry i) ∈
              List.range (((g.h + T - 1) / T) * ((g.w + T - 1) / T)) := ⟨hin.1, hin.2, hmem⟩
        rw [if_pos hcond, if_pos hin]
        rw [List.range_eq_range', lookupTile_range' _ _ 0 pxs (by rw [hlen, hn]) (Nat.zero_le _) (by omega)]
        have hl := loc_lt hin.1
        have hdm := loc_div_mod hin.1
        unfold loc at hl hdm
        simp only [assemble, List.getD_eq_getElem?_getD, List.getElem?_map, List.getElem?_range hl,
          Option.map_some, Option.getD_some, Nat.sub_zero]
        rw [hdm.1, hdm.2]
        simp only [tileIdx, tileLoc, cellX, cellY, Array.getD_eq_getD_getElem?, List.getElem?_toArray,
          List.getElem?_map]
        cases pxs[(i / fb.w - ry) / T * ((g.w + T - 1) / T) + (i % fb.w - rx) / T]? with
        | none => simp
        | some l => simp [List.getD_eq_getElem?_getD]
      · have : ¬ (InRect fb.w rx ry g.w g.h i ∧ i < fb.px.size ∧
            tileIdx T g (cellX fb.w rx i) (cellY fb.w ry i) ∈
              List.range (((g.h + T - 1) / T) * ((g.w + T - 1) / T))) := fun hh => hin ⟨hh.1, hh.2.1⟩
        rw [if_neg this, if_neg hin]
  generalize hres : blitTiles fb rx ry (tileGrid T g) pxs = res at *
  cases res with
  | mk fw fh fpx =>
    simp only at hw hh hpx
    subst hw hh
    simp [blit, hpx]

end VncModel.Client
