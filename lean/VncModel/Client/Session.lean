import VncModel.Client.Decode
/-!
# LibVNCClient model — compressed containers, pseudo-encodings, messages, handshake, requests

`Res` = result of a library call: `ok` (TRUE), `no` (FALSE), `unk` (outside the model: external
codec without oracle answer, stale-buffer behaviour, authentication schemes, ...).

External decompressors are an *oracle queue* in the state: the generator supplies, in order of use,
`(stream id, compressed chunk, plain)`; feeding a chunk to stream `id` pops the first entry of that
id and requires the compressed bytes to coincide (assumed zlib/LZO law: the plain text of the
concatenated stream is the concatenation of the plain texts).
-/
namespace VncModel.Client
open VncModel.Enc.Spec hiding encRaw encCopyRect encRRE encCoRRE encHextile encZlib encTight encUltra encTRLE encZRLE encZYWRLE encLastRect tightMinToCompress
open VncModel.Gen.C07

inductive Res (α : Type) where
  | ok : α → Res α
  | no : Res α
  | unk : String → Res α
deriving Inhabited

@[inline] def Res.bind {α β : Type} (r : Res α) (f : α → Res β) : Res β :=
  match r with
  | .ok a => f a
  | .no => .no
  | .unk s => .unk s

instance : Monad Res where
  pure := .ok
  bind := Res.bind

def ofOpt {α : Type} : Option α → Res α
  | some a => .ok a
  | none => .no

structure St where
  fmt : PixFmt
  fb : FB := FB.blank 0 0
  siGreenMax : Nat := 255
  rawBuf : Int := -1                       -- client->raw_buffer_size
  zq : List (Nat × Bytes × Bytes) := []    -- decompressor oracle queue
  out : Bytes := []                        -- bytes written during the current call
  cb : List String := []                   -- callback log of the current call (reversed)
  upd : Nat × Nat × Nat × Nat := (0, 0, 0, 0)   -- client->updateRect (managed by the library)
  c2s0 : Nat := 0x7D                       -- supportedMessages.client2server[0]
  encs : List String := []
  cursor : Bool := false
  major : Nat := 3
  minor : Nat := 8
  fbUnk : Bool := false                    -- framebuffer content no longer predicted
  name : Bytes := []
  allocLimit : Nat := 8388608
  specFb : FB := FB.blank 0 0              -- what the SPECIFICATION decoders make of the same stream
  specUnk : Bool := false                  -- the stream left the specification (no further comparison)
deriving Inhabited

def St.bpp (s : St) : Nat := s.fmt.bytespp
def St.log (s : St) (e : String) : St := { s with cb := e :: s.cb }
def St.write (s : St) (b : Bytes) : St := { s with out := s.out ++ b }

def u16be (n : Nat) : Bytes := [UInt8.ofNat (n / 256), UInt8.ofNat n]
def u32be (n : Nat) : Bytes :=
  [UInt8.ofNat (n / 16777216), UInt8.ofNat (n / 65536), UInt8.ofNat (n / 256), UInt8.ofNat n]

/-! ## requests (rfbclient.c: SetFormatAndEncodings, SendFramebufferUpdateRequest) -/

/-- `SupportsClient2Server(client, t)` for message types < 8 -/
def St.supports (s : St) (t : Nat) : Bool := (s.c2s0 >>> t) % 2 = 1

def fbUpdateRequest (x y w h : Nat) (incr : Bool) : Bytes :=
  [UInt8.ofNat msgFramebufferUpdateRequest, if incr then 1 else 0] ++ u16be x ++ u16be y ++ u16be w ++ u16be h

def sendFBUR (s : St) (x y w h : Nat) (incr : Bool) : St :=
  if s.supports msgFramebufferUpdateRequest then s.write (fbUpdateRequest x y w h incr) else s

def pixelFormatBytes (f : PixFmt) : Bytes :=
  [UInt8.ofNat f.bpp, UInt8.ofNat f.depth, if f.bigEndian then 1 else 0, if f.trueColour then 1 else 0] ++
  u16be f.rMax ++ u16be f.gMax ++ u16be f.bMax ++
  [UInt8.ofNat f.rShift, UInt8.ofNat f.gShift, UInt8.ofNat f.bShift, 0, 0, 0]

def setPixelFormatMsg (f : PixFmt) : Bytes := [UInt8.ofNat msgSetPixelFormat, 0, 0, 0] ++ pixelFormatBytes f

/-- encodings contributed by one token of `appData.encodingsString`, and the flags
(requestCompressLevel, requestQualityLevel, requestLastRect) it raises -/
def encToken (t : String) : List Nat × Bool × Bool × Bool :=
  if t = "raw" then ([encRaw], false, false, false)
  else if t = "copyrect" then ([encCopyRect], false, false, false)
  else if t = "tight" then ([encTight], true, true, true)
  else if t = "hextile" then ([encHextile], false, false, false)
  else if t = "zlib" then ([encZlib], true, false, false)
  else if t = "zlibhex" then ([encZlibHex], true, false, false)
  else if t = "trle" then ([encTRLE], false, false, false)
  else if t = "zrle" then ([encZRLE], false, false, false)
  else if t = "zywrle" then ([encZYWRLE], false, true, false)
  else if t = "ultra" ∨ t = "ultrazip" then ([encUltra, encUltraZip], false, false, false)
  else if t = "corre" then ([encCoRRE], false, false, false)
  else if t = "rre" then ([encRRE], false, false, false)
  else ([], false, false, false)

/-- the `do … while (encStr && nEncodings < MAX_ENCODINGS)` loop -/
def encLoop : List String → List Nat → Bool × Bool × Bool → List Nat × Bool × Bool × Bool
  | [], acc, fl => (acc, fl)
  | t :: ts, acc, (c, q, l) =>
    let (e, c', q', l') := encToken t
    let acc := acc ++ e
    let fl := (c || c', q || q', l || l')
    if acc.length < maxEncodings then encLoop ts acc fl else (acc, fl)

/-- `if (n < MAX_ENCODINGS) encs[n++] = e` -/
def pushEnc (acc : List Nat) (e : Nat) : List Nat := if acc.length < maxEncodings then acc ++ [e] else acc

/-- list of encodings announced (compressLevel 3, qualityLevel 5, JPEG enabled: rfbGetClient defaults) -/
def encodingList (encs : List String) (cursor newFB : Bool) : List Nat :=
  let (acc, c, q, l) := encLoop encs [] (false, false, false)
  let acc := if c then pushEnc acc (encCompressLevel0 + 3) else acc
  let acc := if q then pushEnc acc (encQualityLevel0 + 5) else acc
  let acc := if cursor then pushEnc (pushEnc (pushEnc acc encXCursor) encRichCursor) encPointerPos else acc
  let acc := pushEnc acc encKeyboardLedState
  let acc := if newFB then pushEnc acc encNewFBSize else acc
  let acc := pushEnc acc encExtDesktopSize
  let acc := if l then pushEnc acc encLastRect else acc
  let acc := pushEnc acc encSupportedMessages
  let acc := pushEnc acc encSupportedEncodings
  let acc := pushEnc acc encServerIdentity
  let acc := pushEnc acc encXvp
  pushEnc acc encQemuExtendedKeyEvent

def setEncodingsMsg (es : List Nat) : Bytes :=
  [UInt8.ofNat msgSetEncodings, 0] ++ u16be es.length ++ es.flatMap u32be

def setFormatAndEncodings (s : St) : St :=
  if ! s.supports msgSetPixelFormat then s else
  let s := s.write (setPixelFormatMsg s.fmt)
  if ! s.supports msgSetEncodings then s else
  s.write (setEncodingsMsg (encodingList s.encs s.cursor true))

/-! ## length caps (rfbclient.c:418, 1215, 2598) -/

/-- a 32-bit length field is accepted only up to `cap` (`if (len > 1<<20) … return FALSE`) -/
def capLen (cap v : Nat) : Option Nat := if v > cap then none else some v

/-- ServerCutText: `ilen = (int32)length; length = ilen < 0 ? -ilen : ilen`, then the cap -/
def cutTextLen (v : Nat) : Option Nat := capLen cutTextCap (if v < 2 ^ 31 then v else 2 ^ 32 - v)

/-! ## decompressor oracle -/

def popZ (id : Nat) (z : Bytes) : List (Nat × Bytes × Bytes) → Option (Bytes × List (Nat × Bytes × Bytes))
  | [] => none
  | (i, c, p) :: q =>
    if i = id then (if c = z then some (p, q) else none)
    else (popZ id z q).map fun (r, q') => (r, (i, c, p) :: q')

/-- an oracle entry with id `id + 100` states that the real decompressor REJECTS the payload
(corrupt data, in the state the stream is in): the handler returns FALSE -/
def St.inflate (s : St) (id : Nat) (z : Bytes) : Res (Bytes × St) :=
  match popZ id z s.zq with
  | some (p, q) => .ok (p, { s with zq := q })
  | none =>
    match popZ (id + 100) z s.zq with
    | some _ => .no
    | none => .unk "no decompressor oracle entry"

def zidZlib : Nat := 4
def zidLzo : Nat := 5
def zidZRLE : Nat := 6

/-! ## CPIXEL selection of the (fixed) dispatch in rfbclient.c -/

/-- `case 32:` of the ZRLE/TRLE dispatch (little-endian host; after fix 1d22d22 the last-three-
bytes case selects the `Up` variant whatever the format's byte order).  The code does NOT look at
`format.depth` (known finding `cpixel-depth`: RFC 6143 wants 4-byte CPIXELs for depth > 24). -/
def clientCPix (f : PixFmt) : CPix :=
  if f.bpp = 32 then
    let maxColor := ((f.rMax <<< f.rShift) ||| (f.gMax <<< f.gShift) ||| (f.bMax <<< f.bShift)) % 2 ^ 32
    if (f.bigEndian ∧ maxColor % 256 = 0) ∨ (¬ f.bigEndian ∧ maxColor / 2 ^ 24 = 0) then .lo3
    else if (¬ f.bigEndian ∧ maxColor % 256 = 0) ∨ (f.bigEndian ∧ maxColor / 2 ^ 24 = 0) then .hi3
    else .full 4
  else .full f.bytespp

/-! ## containers -/

def St.growRaw (s : St) (n : Nat) : St := if s.rawBuf < n then { s with rawBuf := n } else s

def handleZlib (s : St) (x y w h : Nat) (bs : Bytes) : Res (St × Bytes) := do
  let need := w * h * s.bpp
  let s := s.growRaw need
  let (n, bs) ← ofOpt (readU32 bs)
  if n ≥ 2 ^ 31 then .unk "zlib: negative length paints the stale buffer" else
  let (z, bs) ← ofOpt (takeN n bs)
  if n = 0 then (if need = 0 then pure (s, bs) else .unk "zlib: empty chunk paints the stale buffer") else
  let (plain, s) ← s.inflate zidZlib z
  if plain.length ≠ need then .unk "zlib: inflated size differs from the rectangle" else
  match readPixels s.bpp (w * h) plain with
  | some (ps, _) => pure ({ s with fb := copyRectangle s.fb x y w h ps }, bs)
  | none => .unk "zlib: internal"

def handleUltra (s : St) (x y w h : Nat) (bs : Bytes) : Res (St × Bytes) := do
  let need := w * h * s.bpp
  let (n, bs) ← ofOpt (readU32 bs)
  if n = 0 then pure (s, bs) else
  if n ≥ 2 ^ 31 then .no else
  if need = 0 then .no else
  -- fixed code (fixes/C08-ultra-buffer-alloc.diff): a payload size whose 4-byte round-up would
  -- overflow `int` is refused (when the compressed-data buffer has to grow, which it must for such a size)
  if n > 2 ^ 31 - 1 - 3 then .no else
  let s := if s.rawBuf < need then { s with rawBuf := (need + 3) / 4 * 4 } else s
  let (z, bs) ← ofOpt (takeN n bs)
  let (plain, s) ← s.inflate zidLzo z
  if plain.length ≠ need then .unk "ultra: decompressed size differs from the rectangle" else
  match readPixels s.bpp (w * h) plain with
  | some (ps, _) => pure ({ s with fb := copyRectangle s.fb x y w h ps }, bs)
  | none => .unk "ultra: internal"

/-- the sub-rectangle walk of `HandleUltraZipBPP` over the decompressed data (fixed code: every
12-byte entry and every raw pixel block must lie inside it); raw sub-rectangles go through
`GotBitmap` = `CopyRectangle` (the only guard of their geometry is `CheckRect`), other sub-encodings
are skipped -/
def uzApply (bpp : Nat) : Nat → FB → Bytes → Option FB
  | 0, fb, _ => some fb
  | n + 1, fb, bs =>
    if bs.length < 12 then none else
    match readU16 bs with
    | none => none
    | some (sx, b1) =>
    match readU16 b1 with
    | none => none
    | some (sy, b2) =>
    match readU16 b2 with
    | none => none
    | some (sw, b3) =>
    match readU16 b3 with
    | none => none
    | some (sh, b4) =>
    match readU32 b4 with
    | none => none
    | some (se, rest) =>
      if se = 0 then
        if rest.length < sw * sh * bpp then none else
        match readPixels bpp (sw * sh) rest with
        | some (ps, rest') => uzApply bpp n (copyRectangle fb sx sy sw sh ps) rest'
        | none => none
      else uzApply bpp n fb rest

/-- `HandleUltraZipBPP`: `x` = number of sub-rectangles, `y + w * 65535` = decompressed size -/
def handleUltraZip (s : St) (x y w : Nat) (bs : Bytes) : Res (St × Bytes) := do
  let unc := y + w * 65535
  let (n, bs) ← ofOpt (readU32 bs)
  if n = 0 then pure (s, bs) else
  if n ≥ 2 ^ 31 then .no else
  if unc = 0 then .no else
  if unc > 2 ^ 31 - 1 - 504 then .no else
  let s := if s.rawBuf < unc + 500 then { s with rawBuf := (unc + 500 + 3) / 4 * 4 } else s
  let (z, bs) ← ofOpt (takeN n bs)
  let (plain, s) ← s.inflate zidLzo z
  if (plain.length : Int) > s.rawBuf then .unk "ultrazip: decompressed data exceed raw_buffer" else
  match uzApply s.bpp x s.fb plain with
  | some fb => pure ({ s with fb := fb }, bs)
  | none => .no

def handleZRLE (s : St) (x y w h : Nat) (bs : Bytes) : Res (St × Bytes) := do
  let cp := clientCPix s.fmt
  let minBuf := w * h * cp.size * 2
  let s := s.growRaw minBuf
  let (n, bs) ← ofOpt (readU32 bs)
  if n ≥ 2 ^ 31 then .unk "zrle: negative length" else
  let (z, bs) ← ofOpt (takeN n bs)
  if n = 0 then (if w * h = 0 then pure (s, bs) else .unk "zrle: empty chunk: stale buffer") else
  let (plain, s) ← s.inflate zidZRLE z
  if (plain.length : Int) > s.rawBuf then .unk "zrle: inflated data exceed raw_buffer (result depends on zlib chunking)" else
  let (fb, okAll) := zrleTiles cp x y (tileGrid zrleTileWidth ⟨w, h⟩) s.fb plain
  pure ({ s with fb := fb, fbUnk := s.fbUnk || !okAll }, bs)

def handleTRLE (s : St) (x y w h : Nat) (bs : Bytes) : Res (St × Bytes) := do
  let cp := clientCPix s.fmt
  let rb := trleRawBuf cp s.rawBuf
  let s := { s with rawBuf := rb }
  let (fb, bs) ← ofOpt (clientTRLE cp rb s.fb x y w h bs)
  pure ({ s with fb := fb }, bs)

/-! ## Tight (tight.c) — container logic of the client; the filter arithmetic is `Spec`'s -/

/-- `ReadCompactLen` -/
def compactLenC : Dec Nat
  | a :: bs =>
    if a.toNat < 128 then some (a.toNat, bs) else
    match bs with
    | b :: bs =>
      if b.toNat < 128 then some (a.toNat % 128 + (b.toNat % 128) * 128, bs) else
      match bs with
      | c :: bs => some (a.toNat % 128 + (b.toNat % 128) * 128 + c.toNat * 16384, bs)
      | [] => none
    | [] => none
  | [] => none

inductive TFilter where
  | copy
  | palette (pal : List Pixel)
  | gradient
deriving Inhabited

/-- apply a filter to `rows` complete rows of decoded data; `none` = data not interpretable -/
def tightFilterRows (f : PixFmt) (flt : TFilter) (w rows : Nat) (d : Bytes) : Option (List Pixel) :=
  let tp := f.tpix
  match flt with
  | .copy => (readTPixels tp (w * rows) d).map (·.1)
  | .palette pal =>
    if pal.length = 2 then (decodePackedRows 1 w pal rows d).map (·.1)
    else lookupAll pal ((d.take (w * rows)).map (·.toNat))
  | .gradient =>
    (readTPixels tp (w * rows) d).map fun (dpx, _) =>
      (gradRows (f.rMax, f.gMax, f.bMax) w rows (dpx.map f.comps) []).map f.ofComps

/-- the filter announced by the filter-id byte: (filter, bits per transmitted pixel, rest) -/
def tightFilterOf (f : PixFmt) (w fid : Nat) (bs : Bytes) : Res (TFilter × Nat × Bytes) :=
  let tp := f.tpix
  let cutBits := if tp.size = 3 ∧ f.bpp = 32 then 24 else f.bpp
  if fid = tightFilterCopy then .ok (.copy, cutBits, bs)
  else if fid = tightFilterPalette then
    match readU8 bs with
    | none => .no
    | some (nc, bs) =>
      if nc + 1 < 2 then .no else
      match readTPixels tp (nc + 1) bs with
      | none => .no
      | some (pal, bs) => .ok (.palette pal, if nc + 1 = 2 then 1 else 8, bs)
  else if fid = tightFilterGradient then
    -- fixed code (9e7946d): rows wider than the row buffers are refused
    if w * 3 > tightThisRowCells then .no else .ok (.gradient, cutBits, bs)
  else .no

/-- the data block of a basic-compression rectangle: `h` rows of `(w·bits+7)/8` bytes.
Result: the bytes, the decompressor use `(stream id, compressed chunk)` if any, the rest. -/
def tightData (f : PixFmt) (infl : Nat → Bytes → Option Bytes) (noz : Bool) (sid bits w h : Nat) (bs : Bytes) :
    Res (Bytes × Option (Nat × Bytes) × Bytes) :=
  let rowSize := (w * bits + 7) / 8
  if h * rowSize < tightMinToCompress then
    match takeN (h * rowSize) bs with
    | none => .no
    | some (d, bs) => .ok (d, none, bs)
  else
    match compactLenC bs with
    | none => .no
    | some (len, bs) =>
      if len = 0 then .no else
      if noz then
        if len > rfbBufferSize then .no
        -- fixed code (ca36572): exactly `rh·rowSize` bytes must have been sent
        else if len ≠ h * rowSize then .no else
        match takeN len bs with
        | none => .no
        | some (d, bs) => .ok (d, none, bs)
      else
        if rowSize > rfbBufferSize * bits / (bits + f.bpp) / 4 * 4 then .no else
        match takeN len bs with
        | none => .no
        | some (z, bs) =>
          match infl sid z with
          | none => .unk "no decompressor oracle entry"
          | some plain =>
            -- fixed code (0669b47): more (or fewer) rows than the rectangle has → FALSE
            if plain.length / rowSize ≠ h then .no else .ok (plain, some (sid, z), bs)

/-- `HandleTightBPP` up to the pixels it paints (row-major, `w·h`); `infl id chunk` = what zlib
stream `id` makes of the chunk (parameter).  The low four bits of the control byte (stream resets)
concern only the decompressor and are its business here as in `Spec.decodeTight`. -/
def tightDecode (f : PixFmt) (infl : Nat → Bytes → Option Bytes) (w h : Nat) :
    Bytes → Res (List Pixel × Option (Nat × Bytes) × Bytes)
  | [] => .no
  | c :: bs =>
    let hi0 := c.toNat / 16
    let noz := decide (hi0 % 4 / 2 = 1 ∧ hi0 / 8 = 1)            -- (comp_ctl & 0x0A) == 0x0A
    let hi := if noz then hi0 % 2 + (hi0 / 4 % 2) * 4 else hi0
    let tp := f.tpix
    if hi = tightFill then
      match readTPixel tp bs with
      | none => .no
      | some (p, bs) => .ok (List.replicate (w * h) p, none, bs)
    else if hi = tightJpeg then (if f.bpp = 8 then .no else .unk "tight: JPEG")
    else if hi > tightMaxSubencoding then .no
    else
      match (if hi / 4 % 2 = 1 then readU8 bs else some (0, bs)) with
      | none => .no
      | some (fid, bs) =>
        match tightFilterOf f w fid bs with
        | .no => .no
        | .unk e => .unk e
        | .ok (flt, bits, bs) =>
          match tightData f infl noz (hi % 4) bits w h bs with
          | .no => .no
          | .unk e => .unk e
          | .ok (d, used, bs) =>
            match tightFilterRows f flt w h d with
            | none => .unk "tight: palette index outside the transmitted palette (stale entry)"
            | some ps => .ok (ps, used, bs)

def handleTight (s : St) (x y w h : Nat) (bs : Bytes) : Res (St × Bytes) :=
  if x + w > s.fb.w ∨ y + h > s.fb.h then .no else
  match tightDecode s.fmt (fun id z => (popZ id z s.zq).map (·.1)) w h bs with
  | .no => .no
  | .unk e => .unk e
  | .ok (ps, used, rest) =>
    let s := match used with
      | none => s
      | some (id, z) =>
        match popZ id z s.zq with
        | some (_, q) => { s with zq := q }
        | none => s
    -- Fill goes through GotFillRect, the filters write directly: same cells (the rectangle is inside)
    .ok ({ s with fb := writeDirect s.fb x y w h ps }, rest)

/-! ## cursor shape (cursor.c) -/

def bitsOfRows (w : Nat) : Nat → Bytes → List UInt8
  | 0, _ => []
  | k + 1, bs =>
    let rowb := (w + 7) / 8
    ((List.range w).map fun c => UInt8.ofNat (((bs.getD (c / 8) 0).toNat >>> (7 - c % 8)) % 2)) ++
      bitsOfRows w k (bs.drop rowb)

def handleCursor (s : St) (xh yh w h enc : Nat) (bs : Bytes) : Res (St × Bytes) := do
  let bpp := s.bpp
  let maskLen := (w + 7) / 8 * h
  if w * h = 0 then pure (s, bs) else
  if w ≥ maxCursorSize ∨ h ≥ maxCursorSize then .no else
  let f := s.fmt
  let (src, bs) ← (if enc = encXCursor then do
      let (rgb, bs) ← ofOpt (takeN szXCursorColors bs)
      let col := fun (o : Nat) =>
        let r := (rgb.getD o 0).toNat; let g := (rgb.getD (o + 1) 0).toNat; let b := (rgb.getD (o + 2) 0).toNat
        (((r * f.rMax + 127) / 255) <<< f.rShift) ||| (((g * f.gMax + 127) / 255) <<< f.gShift) |||
          (((b * f.bMax + 127) / 255) <<< f.bShift)
      let c0 := col 3; let c1 := col 0
      let (bits, bs) ← ofOpt (takeN maskLen bs)
      let px := (bitsOfRows w h bits).flatMap fun b => pixBytes bpp ((if b = 1 then c1 else c0) % 2 ^ (8 * bpp))
      pure (px, bs)
    else ofOpt (takeN (w * h * bpp) bs) : Res (Bytes × Bytes))
  let (mask, bs) ← ofOpt (takeN maskLen bs)
  let mbits := bitsOfRows w h mask
  pure (s.log s!"cur:{xh}:{yh}:{w}:{h}:{bpp}:{hex8 (crc32 src)}:{hex8 (crc32 mbits)}", bs)

/-! ## shadow decoding by the specification (`VncModel.Enc.Spec`), used by the driver to compare
the client model with the specification on every stream it is run on -/

def peekZ (id : Nat) (q : List (Nat × Bytes × Bytes)) (z : Bytes) : Option Bytes :=
  (q.find? fun (i, c, _) => i = id ∧ c = z).map fun (_, _, p) => p

def specCodecs (q : List (Nat × Bytes × Bytes)) : Codecs :=
  { zlib := peekZ zidZlib q, zrle := peekZ zidZRLE q, tight := fun i => peekZ i q, lzo := peekZ zidLzo q }

/-- simultaneous copy: all source pixels are read before any is written -/
def specCopy (fb : FB) (sx sy w h dx dy : Nat) : FB :=
  let src := (List.range h).flatMap fun r => (List.range w).map fun c => fb.px.getD ((sy + r) * fb.w + sx + c) 0
  { fb with px := blitRows fb.px fb.w dx dy w h src }

def specRect (s : St) (q : List (Nat × Bytes × Bytes)) (hd : RectHdr) (bs : Bytes) : St :=
  if s.specUnk then s else
  if hd.x + hd.w > s.specFb.w ∨ hd.y + hd.h > s.specFb.h then { s with specUnk := true } else
  if hd.enc = encCopyRect then
    match decodeCopyRect bs with
    | some ((sx, sy), _) =>
      if sx + hd.w ≤ s.specFb.w ∧ sy + hd.h ≤ s.specFb.h then
        { s with specFb := specCopy s.specFb sx sy hd.w hd.h hd.x hd.y }
      else { s with specUnk := true }
    | none => { s with specUnk := true }
  else
    match decodeRect (specCodecs q) s.fmt hd.enc ⟨hd.w, hd.h⟩ bs with
    | some (px, _) => { s with specFb := { s.specFb with px := blitRows s.specFb.px s.specFb.w hd.x hd.y hd.w hd.h px } }
    | none => { s with specUnk := true }

/-! ## FramebufferUpdate -/

/-- `ResizeClientBuffer` + `MallocFrameBuffer`; the harness' allocator refuses more than
`allocLimit` bytes (the library's own one refuses `>= SIZE_MAX`, `malloc_framebuffer_no_overflow`) -/
def resize (s : St) (w h : Nat) : Res St :=
  let s := { s with upd := (0, 0, w, h) }
  let s := s.log s!"malloc:{w}:{h}"
  if w * h * s.bpp > s.allocLimit then .no
  else pure { s with fb := FB.blank w h, fbUnk := false, specFb := FB.blank w h }

/-- one rectangle after its header; `none` result component = LastRect (stop) -/
def handleRect (s : St) (hd : RectHdr) (bs : Bytes) : Res (St × Bytes) :=
  let x := hd.x; let y := hd.y; let w := hd.w; let h := hd.h; let e := hd.enc
  if e = encXCursor ∨ e = encRichCursor then handleCursor s x y w h e bs
  else if e = encPointerPos then pure (s.log s!"pos:{x}:{y}", bs)
  else if e = encKeyboardLedState then pure (s.log s!"led:{x}", bs)
  else if e = encNewFBSize then do
    let s ← resize s w h
    pure (sendFBUR s 0 0 w h false, bs)
  else if e = encExtDesktopSize then do
    let (eds, bs) ← ofOpt (takeN szExtDesktopSize bs)
    let n := (eds.headD 0).toNat
    let (scr, bs) ← ofOpt (takeN (n * szExtDesktopScreen) bs)
    let invalid := (List.range n).any fun k =>
      let o := k * szExtDesktopScreen
      let id := ((scr.drop o).take 4).all (· = 0)
      let wd := ((scr.drop (o + 8)).take 2).all (· = 0)
      let ht := ((scr.drop (o + 10)).take 2).all (· = 0)
      id || wd || ht
    if !invalid ∧ (s.fb.w ≠ w ∨ s.fb.h ≠ h) then do
      let s ← resize s w h
      pure (s, bs)
    else pure (s, bs)
  else if e = encSupportedMessages then do
    let (m, bs) ← ofOpt (takeN szSupportedMessages bs)
    pure ({ s with c2s0 := (m.headD 0).toNat }, bs)
  else if e = encSupportedEncodings then do
    let (_, bs) ← ofOpt (takeN w bs)
    pure (s, bs)
  else if e = encServerIdentity then do
    let (_, bs) ← ofOpt (takeN w bs)
    pure (s, bs)
  else
    -- pixel data
    if e ≠ encUltraZip ∧ (x + w > s.fb.w ∨ y + h > s.fb.h) then .no else do
    let bpp := s.bpp
    let s := specRect s s.zq hd bs
    let (s, bs) ←
      (if e = encRaw then do
        let (fb, bs) ← ofOpt (clientRaw bpp s.fb x y w h bs); pure ({ s with fb := fb }, bs)
      else if e = encCopyRect then do
        let (fb, bs) ← ofOpt (clientCopyRect s.fb x y w h bs); pure ({ s with fb := fb }, bs)
      else if e = encRRE then do
        let (fb, bs) ← ofOpt (clientRRE bpp s.fb x y w h bs); pure ({ s with fb := fb }, bs)
      else if e = encCoRRE then do
        let (fb, bs) ← ofOpt (clientCoRRE bpp s.fb x y w h bs); pure ({ s with fb := fb }, bs)
      else if e = encHextile then do
        let (fb, bs) ← ofOpt (clientHextile bpp s.fb x y w h bs); pure ({ s with fb := fb }, bs)
      else if e = encUltra then handleUltra s x y w h bs
      else if e = encTRLE then handleTRLE s x y w h bs
      else if e = encZlib then handleZlib s x y w h bs
      else if e = encTight then
        -- fixed code (c5839d8): a JPEG rectangle of zero width or height is refused (tjDecompress would
        -- take 0 as "use the size of the image"); every earlier exit of that path is FALSE as well
        (if (w = 0 ∨ h = 0) ∧ s.fmt.bpp ≠ 8 ∧ (bs.headD 0).toNat / 16 = tightJpeg then .no
         else handleTight s x y w h bs)
      else if e = encZRLE then handleZRLE s x y w h bs
      else if e = encUltraZip then handleUltraZip s x y w bs
      else if e = encZYWRLE then .unk "encoding not modelled"
      else if e = encQemuExtendedKeyEvent then pure (s, bs)
      else .no : Res (St × Bytes))
    pure (s.log s!"upd:{x}:{y}:{w}:{h}", bs)

def rectLoop : Nat → St → Bytes → Res (St × Bytes)
  | 0, s, bs => pure (s, bs)
  | n + 1, s, bs => do
    let (hd, bs) ← ofOpt (readRectHdr bs)
    if hd.enc = encLastRect then pure (s, bs) else
    let (s, bs) ← handleRect s hd bs
    rectLoop n s bs

/-- `HandleRFBServerMessage` -/
def handleMessage (s : St) (bs : Bytes) : Res (St × Bytes) := do
  let (t, bs) ← ofOpt (readU8 bs)
  if t = msgFramebufferUpdate then do
    let (hd, bs) ← ofOpt (takeN (szFramebufferUpdate - 1) bs)
    let n := (hd.getD 1 0).toNat * 256 + (hd.getD 2 0).toNat
    let (s, bs) ← rectLoop n s bs
    let (ux, uy, uw, uh) := s.upd
    let s := sendFBUR s ux uy uw uh true
    pure (s.log "fin", bs)
  else if t = msgSetColourMapEntries then do
    -- fixed code (fixes/C07-colourmap-body.diff): no colour map is kept, but the header and the
    -- `nColours` entries of 6 bytes are read, so the following messages are found where they start
    let (hd, bs) ← ofOpt (takeN 5 bs)
    let n := (hd.getD 3 0).toNat * 256 + (hd.getD 4 0).toNat
    let (_, bs) ← ofOpt (takeN (n * 6) bs)
    pure (s, bs)
  else if t = msgBell then pure (s.log "bell", bs)
  else if t = msgServerCutText then do
    let (hd, bs) ← ofOpt (takeN (szServerCutText - 1) bs)
    match readU32 (hd.drop 3) with
    | none => .no
    | some (v, _) =>
      match cutTextLen v with
      | none => .no
      | some len => do
        let (txt, bs) ← ofOpt (takeN len bs)           -- malloc(len+1), ReadFromRFBServer(len)
        pure (s.log s!"cut:{len}:{hex8 (crc32 txt)}", bs)
  else if t = 4 ∨ t = 15 then do                            -- rfbResizeFrameBuffer / PalmVNC resize
    let (hd, bs) ← ofOpt (takeN (if t = 4 then 5 else 11) bs)
    let o := if t = 4 then 1 else 5
    let w := (hd.getD o 0).toNat * 256 + (hd.getD (o + 1) 0).toNat
    let h := (hd.getD (o + 2) 0).toNat * 256 + (hd.getD (o + 3) 0).toNat
    let s ← resize s w h
    pure (sendFBUR s 0 0 w h false, bs)
  else if t = 11 ∨ t = 250 then .unk "message type not modelled"
  else .no

/-! ## handshake (InitialiseRFBConnection + rfbClientInitialise), security type None only -/

def digit? (b : UInt8) : Option Nat := if 48 ≤ b.toNat ∧ b.toNat ≤ 57 then some (b.toNat - 48) else none

def parseVersion (pv : Bytes) : Option (Nat × Nat) :=
  match pv with
  | [r, f, b, sp, a1, a2, a3, dot, b1, b2, b3, nl] =>
    if r = 82 ∧ f = 70 ∧ b = 66 ∧ sp = 32 ∧ dot = 46 ∧ nl = 10 then
      match digit? a1, digit? a2, digit? a3, digit? b1, digit? b2, digit? b3 with
      | some x1, some x2, some x3, some y1, some y2, some y3 =>
        some (x1 * 100 + x2 * 10 + x3, y1 * 100 + y2 * 10 + y3)
      | _, _, _, _, _, _ => none
    else none
  | _ => none

def versionBytes (major minor : Nat) : Bytes :=
  let d := fun (n : Nat) => UInt8.ofNat (48 + n % 10)
  [82, 70, 66, 32, d (major / 100), d (major / 10), d major, 46, d (minor / 100), d (minor / 10), d minor, 10]

/-- security types the library would select instead of skipping (→ outside the model) -/
def secHandled (t : Nat) : Bool := t = 2 ∨ t = 16 ∨ t = 17 ∨ t = 18 ∨ t = 19 ∨ t = 20

def secScan : List UInt8 → Option Bool     -- some true = None selected first, some false = nothing usable
  | [] => some false
  | t :: ts => if t.toNat = 1 then some true else if secHandled t.toNat then none else secScan ts

def authResult (s : St) (bs : Bytes) : Res (St × Bytes) := do
  let (r, bs) ← ofOpt (readU32 bs)
  if r = 0 then pure (s, bs) else .no

def initClient (s : St) (bs : Bytes) : Res (St × Bytes) := do
  let (pv, bs) ← ofOpt (takeN szProtocolVersion bs)
  match parseVersion pv with
  | none => .unk "version string not in canonical form"
  | some (major, minor) =>
    -- legacy minors: 3.4 / 3.6 (UltraVNC), 3.14 / 3.16 (UltraVNC SingleClick: treated as 3.4 / 3.6),
    -- 3.5 (TightVNC).  They add FileTransfer (bit 7) to client2server[0]; the other bits they set
    -- belong to messages > 7 and to the server-to-client table the library never consults.
    let legacy := major = 3 ∧ (minor = 4 ∨ minor = 5 ∨ minor = 6 ∨ minor = 14 ∨ minor = 16)
    let minor := if major = 3 ∧ (minor = 14 ∨ minor = 16) then minor - 10 else minor
    let cminor := if major = 3 ∧ minor > 8 then 8 else minor
    let (cmajor, cminor) := if (major = 3 ∧ minor > 8) ∨ major > 3 then (3, 8) else (major, cminor)
    let s := { s with major := cmajor, minor := cminor, c2s0 := if legacy then s.c2s0 ||| 0x80 else s.c2s0 }
    let s := s.write (versionBytes cmajor cminor)
    let (s, bs) ← (if cmajor = 3 ∧ cminor > 6 then do
        let (cnt, bs) ← ofOpt (readU8 bs)
        if cnt = 0 then .no else
        let (types, bs) ← ofOpt (takeN cnt bs)
        if types.any (fun t => t.toNat = 16 ∨ t.toNat = 17) then .unk "TightVNC/UltraVNC security types change the message set" else
        match secScan types with
        | none => .unk "security type other than None"
        | some false => .no
        | some true =>
          -- the byte is written as soon as type 1 is met, before the rest of the list is read;
          -- the rest is still consumed
          let s := s.write [1]
          if cminor > 7 then authResult s bs else pure (s, bs)
      else do
        let (scheme, bs) ← ofOpt (readU32 bs)
        if scheme = 1 then
          (if (cmajor = 3 ∧ cminor > 7) ∨ cmajor > 3 then authResult s bs else pure (s, bs))
        else if scheme = 0 then .no
        else if scheme = 2 ∨ scheme = 18 ∨ scheme = 19 ∨ scheme = 20 ∨ scheme = 30 ∨ scheme = 113 ∨ scheme = 0xFFFFFFFA then
          .unk "security type other than None"
        else .no : Res (St × Bytes))
    let s := s.write [1]                                      -- ClientInit, shared
    let (si, bs) ← ofOpt (takeN szServerInit bs)
    let w := (si.getD 0 0).toNat * 256 + (si.getD 1 0).toNat
    let h := (si.getD 2 0).toNat * 256 + (si.getD 3 0).toNat
    let gmax := (si.getD 10 0).toNat * 256 + (si.getD 11 0).toNat
    match readU32 (si.drop 20) with
    | none => .no
    | some (nlen0, _) =>
      match capLen nameCap nlen0 with
      | none => .no
      | some nlen => do
      let (name, bs) ← ofOpt (takeN nlen bs)             -- malloc(nameLength+1)
      let s := { s with siGreenMax := gmax, name := name }
      let s ← resize s w h
      let s := setFormatAndEncodings s
      let s := sendFBUR s 0 0 w h false
      pure (s, bs)

end VncModel.Client
