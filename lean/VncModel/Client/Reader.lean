import VncModel.Client.Basic
import VncModel.Gen.C07
/-!
# `ReadFromRFBServer` (sockets.c) — the buffered reader over an arbitrarily segmented stream

The socket delivers the server's byte stream in pieces: `chunks` is the list of what successive
`read()` calls can return at most (each piece non-empty; an empty list = the peer has closed,
`read()` returns 0).  `read(fd, dst, cap)` returns the head piece, or its first `cap` bytes.

The C function has three paths: serve from the 8 KiB buffer; refill the buffer until it holds
the `n` bytes (`n <= RFB_BUF_SIZE`); or read directly into the caller's buffer (`n` larger).
`readFrom_spec`: whatever the segmentation, the call returns the first `n` bytes of the remaining
stream and leaves the rest (buffer ++ pieces) untouched, and fails exactly when fewer than `n`
bytes remain.  (EAGAIN/`WaitForMessage` retries only repeat a `read()`; they are not modelled.)
-/
namespace VncModel.Client
open VncModel.Enc.Spec
open VncModel.Gen.C07

structure RdSt where
  buf : Bytes
  chunks : List Bytes
deriving Inhabited

/-- everything the server has sent and the library has not yet handed out -/
def RdSt.stream (s : RdSt) : Bytes := s.buf ++ s.chunks.flatten

def NonEmptyChunks (cs : List Bytes) : Prop := ∀ c ∈ cs, c ≠ []

/-- one `read()` with capacity `cap` -/
def sysRead (cap : Nat) : List Bytes → Option (Bytes × List Bytes)
  | [] => none
  | c :: cs => if c.length ≤ cap then some (c, cs) else some (c.take cap, c.drop cap :: cs)

/-- `while (client->buffered < n) read(client->buf + buffered, RFB_BUF_SIZE - buffered)` -/
def fillLoop (n : Nat) : Nat → Bytes → List Bytes → Option (Bytes × List Bytes)
  | 0, _, _ => none
  | f + 1, buf, cs =>
    if n ≤ buf.length then some (buf, cs) else
    match sysRead (rfbBufSize - buf.length) cs with
    | none => none
    | some (d, cs') => fillLoop n f (buf ++ d) cs'

/-- `while (n > 0) read(out, n)` -/
def directLoop : Nat → Nat → Bytes → List Bytes → Option (Bytes × List Bytes)
  | 0, _, _, _ => none
  | f + 1, need, acc, cs =>
    if need = 0 then some (acc, cs) else
    match sysRead need cs with
    | none => none
    | some (d, cs') => directLoop f (need - d.length) (acc ++ d) cs'

def readFrom (s : RdSt) (n : Nat) : Option (Bytes × RdSt) :=
  if n ≤ s.buf.length then some (s.buf.take n, { s with buf := s.buf.drop n })
  else
    let n' := n - s.buf.length
    let fuel := s.chunks.flatten.length + 1
    if n' ≤ rfbBufSize then
      match fillLoop n' fuel [] s.chunks with
      | none => none
      | some (b, cs) => some (s.buf ++ b.take n', ⟨b.drop n', cs⟩)
    else
      match directLoop fuel n' [] s.chunks with
      | none => none
      | some (d, cs) => some (s.buf ++ d, ⟨[], cs⟩)

/-! ### lemmas -/

theorem sysRead_spec {cap : Nat} {cs : List Bytes} (hcap : 1 ≤ cap) (hne : NonEmptyChunks cs) :
    (cs = [] ∧ sysRead cap cs = none) ∨
    ∃ d cs', sysRead cap cs = some (d, cs') ∧ d ++ cs'.flatten = cs.flatten ∧ 1 ≤ d.length ∧
      d.length ≤ cap ∧ NonEmptyChunks cs' := by
  cases cs with
  | nil => left; simp [sysRead]
  | cons c cs =>
    right
    have hc : c ≠ [] := hne c (by simp)
    have hcl : 1 ≤ c.length := by
      cases c with
      | nil => exact absurd rfl hc
      | cons _ _ => simp
    by_cases h : c.length ≤ cap
    · exact ⟨c, cs, by simp [sysRead, h], by simp, hcl, h, fun c' hc' => hne c' (by simp [hc'])⟩
    · refine ⟨c.take cap, c.drop cap :: cs, by simp [sysRead, h], ?_, ?_, ?_, ?_⟩
      · simp [← List.append_assoc, List.take_append_drop]
      · rw [List.length_take]; omega
      · rw [List.length_take]; omega
      · intro c' hc'
        simp only [List.mem_cons] at hc'
        rcases hc' with rfl | hc'
        · intro hd
          have : (c.drop cap).length = 0 := by rw [hd]; rfl
          rw [List.length_drop] at this; omega
        · exact hne c' (by simp [hc'])

theorem fillLoop_spec (n : Nat) (hn : n ≤ rfbBufSize) :
    ∀ (f : Nat) (buf : Bytes) (cs : List Bytes), NonEmptyChunks cs → cs.flatten.length < f →
      if n ≤ buf.length + cs.flatten.length then
        ∃ b cs', fillLoop n f buf cs = some (b, cs') ∧ b ++ cs'.flatten = buf ++ cs.flatten ∧
          n ≤ b.length ∧ NonEmptyChunks cs'
      else fillLoop n f buf cs = none := by
  intro f
  induction f with
  | zero => intro buf cs _ h; omega
  | succ f ih =>
    intro buf cs hne hf
    by_cases hb : n ≤ buf.length
    · have : n ≤ buf.length + cs.flatten.length := by omega
      simp only [this, if_true]
      exact ⟨buf, cs, by simp [fillLoop, hb], rfl, hb, hne⟩
    · have hcap : 1 ≤ rfbBufSize - buf.length := by omega
      rcases sysRead_spec hcap hne with ⟨rfl, hr⟩ | ⟨d, cs', hr, hcat, hd1, hd2, hne'⟩
      · have : ¬ (n ≤ buf.length + ([] : List Bytes).flatten.length) := by simp; omega
        simp only [this, if_false]
        simp [fillLoop, hb, hr]
      · have hlen : cs.flatten.length = d.length + cs'.flatten.length := by
          rw [← hcat, List.length_append]
        have := ih (buf ++ d) cs' hne' (by omega)
        simp only [fillLoop, hb, if_false, hr]
        have e : (buf ++ d).length + cs'.flatten.length = buf.length + cs.flatten.length := by
          rw [List.length_append]; omega
        rw [e] at this
        by_cases hc : n ≤ buf.length + cs.flatten.length
        · simp only [hc, if_true] at this ⊢
          obtain ⟨b, cs'', h1, h2, h3, h4⟩ := this
          exact ⟨b, cs'', h1, by rw [h2, List.append_assoc, hcat], h3, h4⟩
        · simp only [hc, if_false] at this ⊢
          exact this

theorem directLoop_spec :
    ∀ (f need : Nat) (acc : Bytes) (cs : List Bytes), NonEmptyChunks cs → cs.flatten.length < f →
      if need ≤ cs.flatten.length then
        ∃ cs', directLoop f need acc cs = some (acc ++ cs.flatten.take need, cs') ∧
          cs'.flatten = cs.flatten.drop need ∧ NonEmptyChunks cs'
      else directLoop f need acc cs = none := by
  intro f
  induction f with
  | zero => intro need acc cs _ h; omega
  | succ f ih =>
    intro need acc cs hne hf
    by_cases h0 : need = 0
    · subst h0
      simp only [Nat.zero_le, if_true]
      exact ⟨cs, by simp [directLoop], by simp, hne⟩
    · have hcap : 1 ≤ need := by omega
      rcases sysRead_spec hcap hne with ⟨rfl, hr⟩ | ⟨d, cs', hr, hcat, hd1, hd2, hne'⟩
      · have : ¬ (need ≤ ([] : List Bytes).flatten.length) := by simp; omega
        simp only [this, if_false]
        simp [directLoop, h0, hr]
      · have hlen : cs.flatten.length = d.length + cs'.flatten.length := by
          rw [← hcat, List.length_append]
        have := ih (need - d.length) (acc ++ d) cs' hne' (by omega)
        simp only [directLoop, h0, if_false, hr]
        by_cases hc : need ≤ cs.flatten.length
        · have hc' : need - d.length ≤ cs'.flatten.length := by omega
          simp only [hc, hc', if_true] at this ⊢
          obtain ⟨cs'', h1, h2, h3⟩ := this
          refine ⟨cs'', ?_, ?_, h3⟩
          · rw [h1, ← hcat, List.append_assoc]
            congr 2
            rw [List.take_append]
            have : List.take need d = d := List.take_of_length_le hd2
            rw [this]
          · rw [h2, ← hcat, List.drop_append]
            have : List.drop need d = [] := List.drop_eq_nil_of_le hd2
            rw [this]; simp
        · have hc' : ¬ (need - d.length ≤ cs'.flatten.length) := by omega
          simp only [hc, hc', if_false] at this ⊢
          exact this

/-- **read_buffering_invariant**: the result of `ReadFromRFBServer(n)` depends only on the
remaining stream, not on how it is cut into reads, and what is left is again that stream's tail -/
theorem readFrom_spec (s : RdSt) (n : Nat) (hne : NonEmptyChunks s.chunks) :
    if n ≤ s.stream.length then
      ∃ s', readFrom s n = some (s.stream.take n, s') ∧ s'.stream = s.stream.drop n ∧ NonEmptyChunks s'.chunks
    else readFrom s n = none := by
  unfold RdSt.stream
  by_cases hb : n ≤ s.buf.length
  · have : n ≤ (s.buf ++ s.chunks.flatten).length := by rw [List.length_append]; omega
    simp only [this, if_true]
    refine ⟨{ s with buf := s.buf.drop n }, by simp [readFrom, hb, List.take_append_of_le_length hb], ?_, hne⟩
    simp [RdSt.stream, List.drop_append_of_le_length hb]
  · simp only [readFrom, hb, if_false, List.length_append]
    by_cases hsmall : n - s.buf.length ≤ rfbBufSize
    · simp only [hsmall, if_true]
      have := fillLoop_spec (n - s.buf.length) hsmall (s.chunks.flatten.length + 1) [] s.chunks hne (by omega)
      simp only [List.length_nil, Nat.zero_add, List.nil_append] at this
      by_cases hc : n ≤ s.buf.length + s.chunks.flatten.length
      · have hc' : n - s.buf.length ≤ s.chunks.flatten.length := by omega
        simp only [hc, hc', if_true] at this ⊢
        obtain ⟨b, cs', h1, h2, h3, h4⟩ := this
        refine ⟨⟨b.drop (n - s.buf.length), cs'⟩, ?_, ?_, h4⟩
        · simp only [h1]
          congr 2
          rw [List.take_append, List.take_of_length_le (by omega : s.buf.length ≤ n)]
          congr 1
          rw [← h2, List.take_append_of_le_length h3]
        · simp only [RdSt.stream]
          rw [List.drop_append, List.drop_eq_nil_of_le (by omega : s.buf.length ≤ n), List.nil_append,
            ← h2, List.drop_append_of_le_length h3]
      · have hc' : ¬ (n - s.buf.length ≤ s.chunks.flatten.length) := by omega
        simp only [hc, hc', if_false] at this ⊢
        rw [this]
    · simp only [hsmall, if_false]
      have := directLoop_spec (s.chunks.flatten.length + 1) (n - s.buf.length) [] s.chunks hne (by omega)
      by_cases hc : n ≤ s.buf.length + s.chunks.flatten.length
      · have hc' : n - s.buf.length ≤ s.chunks.flatten.length := by omega
        simp only [hc, hc', if_true, List.nil_append] at this ⊢
        obtain ⟨cs', h1, h2, h3⟩ := this
        refine ⟨⟨[], cs'⟩, ?_, ?_, h3⟩
        · simp only [h1]
          congr 2
          rw [List.take_append, List.take_of_length_le (by omega : s.buf.length ≤ n)]
        · simp only [RdSt.stream, List.nil_append]
          rw [h2, List.drop_append, List.drop_eq_nil_of_le (by omega : s.buf.length ≤ n), List.nil_append]
      · have hc' : ¬ (n - s.buf.length ≤ s.chunks.flatten.length) := by omega
        simp only [hc, hc', if_false] at this ⊢
        rw [this]

end VncModel.Client
