import VncModel.Client.Requests
import VncModel.Client.Copy
/-!
Guards and index arithmetic of LibVNCClient (C08): every modelled write/read index is inside its
buffer once the guard the C code has in front of it has passed.  All statements are for ALL
arguments.  The constants (`rfbBufferSize`, caps, array sizes) are regenerated from the source on
every run (`VncModel.Gen.C07`), so a changed constant that breaks a bound breaks the build.
-/
namespace VncModel.Client
open VncModel.Enc.Spec hiding encRaw encCopyRect encRRE encCoRRE encHextile encZlib encTight encUltra encTRLE encZRLE encZYWRLE encLastRect tightMinToCompress
open VncModel.Gen.C07

/-! ## CheckRect ⇒ writes inside the framebuffer -/

theorem cell_lt {W H x y w h r c : Nat} (hW : x + w ≤ W) (hH : y + h ≤ H) (hr : r < h) (hc : c < w) :
    (y + r) * W + (x + c) < W * H := by
  have h1 : (y + r + 1) * W ≤ H * W := Nat.mul_le_mul_right W (by omega)
  rw [Nat.succ_mul] at h1
  rw [Nat.mul_comm W H]
  omega

/-- every index `FILL_RECT` writes -/
theorem fillIdx_lt {W H x y w h : Nat} (hW : x + w ≤ W) (hH : y + h ≤ H) :
    ∀ i ∈ fillIdx W x y w h, i < W * H := by
  intro i hi
  simp only [fillIdx, List.mem_flatMap, List.mem_map, List.mem_range] at hi
  obtain ⟨r, hr, c, hc, rfl⟩ := hi
  exact cell_lt hW hH hr hc

/-- `fillRow`/`fillRect` (the loop nest used by the model) write exactly the indices `fillIdx` -/
theorem fillRow_eq_foldl (cv : Array Pixel) (s n : Nat) (c : Pixel) :
    fillRow cv s n c = ((List.range n).map (s + ·)).foldl (fun a i => a.setIfInBounds i c) cv := by
  induction n generalizing cv s with
  | zero => rfl
  | succ n ih =>
    rw [List.range_succ_eq_map, List.map_cons, List.foldl_cons, List.map_map, fillRow, ih]
    congr 1
    apply List.map_congr_left
    intro j _
    simp only [Function.comp]; omega

theorem fillIdx_succ (W x y w h : Nat) :
    fillIdx W x y w (h + 1) = ((List.range w).map (y * W + x + ·)) ++ fillIdx W x (y + 1) w h := by
  simp only [fillIdx]
  rw [List.range_succ_eq_map, List.flatMap_cons, List.flatMap_map]
  simp only [Nat.add_zero, Function.comp]
  congr 1
  · apply List.map_congr_left; intro j _; omega
  · have hf : (fun r => List.map (fun c => (y + (r + 1)) * W + (x + c)) (List.range w)) =
        (fun r => List.map (fun c => (y + 1 + r) * W + (x + c)) (List.range w)) := by
      funext r
      have e : y + (r + 1) = y + 1 + r := by omega
      rw [e]
    rw [hf]

theorem fillRect_eq_foldl (cv : Array Pixel) (W x y w h : Nat) (c : Pixel) :
    fillRect cv W x y w h c = (fillIdx W x y w h).foldl (fun a i => a.setIfInBounds i c) cv := by
  induction h generalizing cv y with
  | zero => rfl
  | succ h ih =>
    rw [fillIdx_succ, List.foldl_append, ← fillRow_eq_foldl, ← ih]
    rfl

/-- every cell `CopyRectangleFromRectangle` reads or writes -/
theorem copyPairs_lt {W H sx sy w h dx dy : Nat} (hsW : sx + w ≤ W) (hsH : sy + h ≤ H)
    (hdW : dx + w ≤ W) (hdH : dy + h ≤ H) :
    ∀ p ∈ copyPairs W sx sy w h dx dy, p.1 < W * H ∧ p.2 < W * H := by
  intro p hp
  obtain ⟨d, s⟩ := p
  rw [mem_copyPairs] at hp
  obtain ⟨r, c, hr, hc, rfl, rfl⟩ := hp
  exact ⟨cell_lt hdW hdH hr hc, cell_lt hsW hsH hr hc⟩

/-- `COPY_RECT`: the `memcpy` of row `r` (`rs = w·b` bytes at byte offset `x·b + (y+r)·W·b`) ends
inside the `W·H·b` bytes of the framebuffer -/
theorem copyRect_row_in_bounds {W H x y w h r b : Nat} (hW : x + w ≤ W) (hH : y + h ≤ H) (hr : r < h) :
    x * b + (y + r) * (W * b) + w * b ≤ W * H * b := by
  have h1 : (y + r + 1) * (W * b) ≤ H * (W * b) := Nat.mul_le_mul_right _ (by omega)
  have h2 : (x + w) * b ≤ W * b := Nat.mul_le_mul_right _ hW
  rw [Nat.succ_mul] at h1
  rw [Nat.add_mul] at h2
  have h3 : W * H * b = H * (W * b) := by rw [Nat.mul_comm W H, Nat.mul_assoc]
  omega

/-- `CheckRect` as written (C `int`s): for non-negative arguments it is the guard on naturals -/
theorem checkRectI_sound {W H x y w h : Int} (hx : 0 ≤ x) (hy : 0 ≤ y) (hw : 0 ≤ w) (hh : 0 ≤ h)
    (hc : checkRectI W H x y w h = true) :
    x.toNat + w.toNat ≤ W.toNat ∧ y.toNat + h.toNat ≤ H.toNat := by
  simp only [checkRectI, Bool.and_eq_true, decide_eq_true_eq] at hc
  omega

/-! ## rectangles are checked before any decoder runs; tiles stay inside the rectangle -/

/-- every tile the tile loops visit lies inside the framebuffer once the rectangle does -/
theorem tile_cells_in_bounds {T W H rx ry rw rh : Nat} (hT : 0 < T) (hW : rx + rw ≤ W) (hH : ry + rh ≤ H)
    {t : TileRect} (ht : t ∈ tileGrid T ⟨rw, rh⟩) :
    ∀ i ∈ fillIdx W (rx + t.x) (ry + t.y) t.w t.h, i < W * H := by
  have := mem_tileGrid hT ht
  simp only at this
  exact fillIdx_lt (by omega) (by omega)

/-! ## MallocFrameBuffer -/

/-- `allocSize = (uint64_t)width * height * bitsPerPixel / 8`: with 16-bit dimensions and at most
32 bits per pixel nothing wraps in 64 bits and the result is below `SIZE_MAX` -/
theorem mallocSize_exact {w h bpp : Nat} (hw : w < 65536) (hh : h < 65536) (hb : bpp ≤ 32) :
    (w * h % 2 ^ 64 * bpp % 2 ^ 64) / 8 = w * h * bpp / 8 ∧ w * h * bpp / 8 < sizeMax := by
  have h1 : w * h ≤ 65535 * 65535 := Nat.mul_le_mul (by omega) (by omega)
  have h2 : w * h * bpp ≤ 65535 * 65535 * 32 := Nat.mul_le_mul h1 hb
  have e1 : w * h % 2 ^ 64 = w * h := Nat.mod_eq_of_lt (by omega)
  have e2 : w * h * bpp % 2 ^ 64 = w * h * bpp := Nat.mod_eq_of_lt (by omega)
  rw [e1, e2]
  refine ⟨rfl, ?_⟩
  simp only [sizeMax]
  omega

/-! ## length caps -/

theorem capLen_le {cap v n : Nat} (h : capLen cap v = some n) : n ≤ cap ∧ n = v := by
  unfold capLen at h
  split at h
  · simp at h
  · simp only [Option.some.injEq] at h; omega

theorem cutTextLen_le {v n : Nat} (h : cutTextLen v = some n) : n ≤ cutTextCap := (capLen_le h).1

/-! ## reads into `client->buffer` fit -/

theorem correGuard_fits {bpp n : Nat} (h : correGuard bpp n = true) : n * (4 + bpp) ≤ rfbBufferSize := by
  simp only [correGuard, decide_eq_true_eq] at h
  have := Nat.mul_le_mul_right (4 + bpp) h
  have h2 := Nat.div_mul_le_self rfbBufferSize (4 + bpp)
  omega

/-- Raw: `linesToRead * bytesPerLine <= RFB_BUFFER_SIZE` -/
theorem raw_batch_fits (bpl h : Nat) : min (rfbBufferSize / bpl) h * bpl ≤ rfbBufferSize := by
  have h1 : min (rfbBufferSize / bpl) h ≤ rfbBufferSize / bpl := Nat.min_le_left _ _
  have h2 := Nat.mul_le_mul_right bpl h1
  have h3 := Nat.div_mul_le_self rfbBufferSize bpl
  omega

/-- Hextile: a raw tile and the sub-rectangle list of a tile fit (`n` is a byte) -/
theorem hextile_reads_fit {bpp w h n : Nat} (hb : bpp ≤ 4) (hw : w ≤ 16) (hh : h ≤ 16) (hn : n ≤ 255) :
    w * h * bpp ≤ rfbBufferSize ∧ n * (2 + bpp) ≤ rfbBufferSize := by
  have h1 : w * h ≤ 16 * 16 := Nat.mul_le_mul hw hh
  have h2 : w * h * bpp ≤ 16 * 16 * 4 := Nat.mul_le_mul h1 hb
  have h3 : n * (2 + bpp) ≤ 255 * 6 := Nat.mul_le_mul hn (by omega)
  simp only [rfbBufferSize]; omega

/-- TRLE: raw tile, palette and packed rows fit the `raw_buffer` the function makes sure of -/
theorem trle_reads_fit {cs w h t cur : Nat} (hcs : 1 ≤ cs) (hcs4 : cs ≤ 4) (hw : w ≤ 16) (hh : h ≤ 16) (ht : t ≤ 127) :
    w * h * cs ≤ trleRawBuf (.full cs) cur ∧ t * cs ≤ trleRawBuf (.full cs) cur ∧
    (w + 7) / 1 * h ≤ trleRawBuf (.full cs) cur + 16 * 16 := by
  have hb : 16 * 16 * cs * 2 ≤ trleRawBuf (.full cs) cur := by
    simp only [trleRawBuf, CPix.size]; omega
  have h1 : w * h ≤ 16 * 16 := Nat.mul_le_mul hw hh
  have h2 : w * h * cs ≤ 16 * 16 * cs := Nat.mul_le_mul_right cs h1
  have h3 : t * cs ≤ 127 * cs := Nat.mul_le_mul_right cs ht
  have h4 : (w + 7) / 1 * h ≤ 23 * 16 := by
    rw [Nat.div_one]; exact Nat.mul_le_mul (by omega) hh
  omega

/-- trle.c reads every 3-byte CPIXEL with a 4-byte load (`*(CARDBPP*)pointer`, the byte after the
pixel lands in the unused byte of the framebuffer cell).  The load never leaves `raw_buffer`: the
pixel with index `i` of a raw tile (`i < w·h ≤ 256`), of a palette (`i < 127`) or the single pixel
of a solid tile / RLE run (`i = 0`) starts at byte `3·i` and the buffer has at least `16·16·3·2`
bytes (`min_buffer_size`). -/
theorem trle_word_read_in_bounds {i cur : Nat} (hi : i < 256) : 3 * i + 4 ≤ trleRawBuf (.full 3) cur := by
  have hb : 16 * 16 * 3 * 2 ≤ trleRawBuf (.full 3) cur := by
    simp only [trleRawBuf, CPix.size]; omega
  omega

/-- a TRLE run is read at the start of `raw_buffer` (fixed code) and its 0xff chain takes at most
`budget + 1` bytes -/
theorem trleRunLen_consumes : ∀ (budget acc : Nat) (bs rest : Bytes) (len : Nat),
    trleRunLen budget acc bs = some (len, rest) →
    rest.length < bs.length ∧ bs.length - rest.length ≤ budget + 1 := by
  intro budget
  induction budget with
  | zero =>
    intro acc bs rest len h
    cases bs with
    | nil => simp [trleRunLen] at h
    | cons b bs =>
      simp only [trleRunLen, Option.some.injEq, Prod.mk.injEq] at h
      rw [← h.2]; simp
  | succ k ih =>
    intro acc bs rest len h
    cases bs with
    | nil => simp [trleRunLen] at h
    | cons b bs =>
      simp only [trleRunLen] at h
      split at h
      · have := ih _ _ _ _ h
        simp only [List.length_cons]; omega
      · simp only [Option.some.injEq, Prod.mk.injEq] at h
        rw [← h.2]; simp

/-- Tight: the decompression window, the palette and the gradient rows fit their arrays -/
theorem tight_buffers_fit {bits bpp w k tps : Nat} (hbits : 1 ≤ bits) (hbpp : 1 ≤ bpp)
    (hk : k ≤ 256) (htps : tps ≤ 4) (hgrad : w * 3 ≤ tightThisRowCells) :
    rfbBufferSize * bits / (bits + bpp) / 4 * 4 ≤ rfbBufferSize ∧
    k * tps ≤ tightPaletteBytes ∧
    w * 3 * 2 ≤ tightPrevRowBytes := by
  refine ⟨?_, ?_, ?_⟩
  · have h1 : rfbBufferSize * bits / (bits + bpp) ≤ rfbBufferSize := by
      apply Nat.div_le_of_le_mul
      rw [Nat.mul_comm (bits + bpp)]
      exact Nat.mul_le_mul_left _ (by omega)
    have h2 := Nat.div_mul_le_self (rfbBufferSize * bits / (bits + bpp)) 4
    omega
  · have := Nat.mul_le_mul hk htps
    simp only [tightPaletteBytes]; omega
  · simp only [tightThisRowCells] at hgrad
    simp only [tightPrevRowBytes]; omega

/-! ## UltraZip: the sub-rectangle walk of the FIXED code -/

/-- the walk over the decompressed buffer of `len` bytes: `n` entries of a 12-byte header
(geometry `sw×sh`, encoding) optionally followed by `sw·sh·bpp` raw bytes.  Result: the byte ranges
`(offset, length)` that are read; `none` = FALSE.  `hdr o` gives `(sw, sh, isRaw)` of the header
at offset `o`. -/
def uzWalk (bpp len : Nat) (hdr : Nat → Nat × Nat × Bool) : Nat → Nat → Option (List (Nat × Nat))
  | 0, _ => some []
  | n + 1, ptr =>
    if len - ptr < 12 then none else
    let (sw, sh, raw) := hdr ptr
    if raw then
      if len - (ptr + 12) < sw * sh * bpp then none else
      (uzWalk bpp len hdr n (ptr + 12 + sw * sh * bpp)).map fun l => (ptr, 12) :: (ptr + 12, sw * sh * bpp) :: l
    else (uzWalk bpp len hdr n (ptr + 12)).map fun l => (ptr, 12) :: l

/-- the walk as it was before fixes/C08-ultrazip-bounds.diff: no comparison with `len` -/
def uzWalkUnfixed (bpp : Nat) (hdr : Nat → Nat × Nat × Bool) : Nat → Nat → List (Nat × Nat)
  | 0, _ => []
  | n + 1, ptr =>
    let (sw, sh, raw) := hdr ptr
    if raw then (ptr, 12) :: (ptr + 12, sw * sh * bpp) :: uzWalkUnfixed bpp hdr n (ptr + 12 + sw * sh * bpp)
    else (ptr, 12) :: uzWalkUnfixed bpp hdr n (ptr + 12)

theorem uzWalk_in_bounds (bpp len : Nat) (hdr : Nat → Nat × Nat × Bool) :
    ∀ (n ptr : Nat) (acc : List (Nat × Nat)), ptr ≤ len → uzWalk bpp len hdr n ptr = some acc →
      ∀ r ∈ acc, r.1 + r.2 ≤ len := by
  intro n
  induction n with
  | zero => intro ptr acc _ h; simp only [uzWalk, Option.some.injEq] at h; simp [← h]
  | succ n ih =>
    intro ptr acc hp h
    simp only [uzWalk] at h
    split at h
    · simp at h
    · rename_i h12
      generalize hdr ptr = hh at h
      obtain ⟨sw, sh, raw⟩ := hh
      simp only at h
      cases raw with
      | true =>
        simp only [if_true] at h
        split at h
        · simp at h
        · rename_i hpix
          cases hr : uzWalk bpp len hdr n (ptr + 12 + sw * sh * bpp) with
          | none => simp [hr] at h
          | some l =>
            simp only [hr, Option.map_some, Option.some.injEq] at h
            subst h
            have := ih _ l (by omega) hr
            intro r hr'
            simp only [List.mem_cons] at hr'
            rcases hr' with rfl | rfl | hr'
            · simp only; omega
            · simp only; omega
            · exact this r hr'
      | false =>
        simp only [Bool.false_eq_true, if_false] at h
        cases hr : uzWalk bpp len hdr n (ptr + 12) with
        | none => simp [hr] at h
        | some l =>
          simp only [hr, Option.map_some, Option.some.injEq] at h
          subst h
          have := ih _ l (by omega) hr
          intro r hr'
          simp only [List.mem_cons] at hr'
          rcases hr' with rfl | hr'
          · simp only; omega
          · exact this r hr'

/-! ## progress: the loops consume input -/

/-- RRE: `n` sub-rectangles take exactly `n·(bytespp+8)` bytes; fewer bytes ⇒ FALSE -/
theorem rreSubs_consumes (bpp rx ry : Nat) :
    ∀ (n : Nat) (fb fb' : FB) (bs rest : Bytes), rreSubs bpp rx ry n fb bs = some (fb', rest) →
      bs.length = n * (bpp + 8) + rest.length := by
  intro n
  induction n with
  | zero => intro fb fb' bs rest h; simp only [rreSubs, Option.some.injEq, Prod.mk.injEq] at h; simp [← h.2]
  | succ n ih =>
    intro fb fb' bs rest h
    simp only [rreSubs] at h
    cases hc : readPixel bpp bs with
    | none => simp [hc] at h
    | some pc =>
      obtain ⟨c, bs1⟩ := pc
      simp only [hc] at h
      cases hg : readGeom16 bs1 with
      | none => simp [hg] at h
      | some pg =>
        obtain ⟨⟨x, y, w, hh⟩, bs2⟩ := pg
        simp only [hg] at h
        have := ih _ _ _ _ h
        obtain ⟨pre, hl, he, _⟩ := exact_readPixel bpp bs c bs1 hc
        have hg8 : bs1.length = 8 + bs2.length := by
          match bs1, hg with
          | a0 :: b0 :: c0 :: d0 :: e0 :: f0 :: g0 :: h0 :: r', hg =>
            simp only [readGeom16, Option.some.injEq, Prod.mk.injEq] at hg
            rw [← hg.2]; simp only [List.length_cons]; omega
        rw [he, List.length_append, hl, hg8, this, Nat.succ_mul]; omega

/-- every run-length read consumes at least one byte -/
theorem runLenC_progress : ∀ (bs rest : Bytes) (n : Nat), runLenC bs = some (n, rest) →
    rest.length < bs.length ∧ 1 ≤ n := by
  intro bs
  induction bs with
  | nil => intro rest n h; simp [runLenC] at h
  | cons b bs ih =>
    intro rest n h
    simp only [runLenC] at h
    split at h
    · cases hr : runLenC bs with
      | none => simp [hr] at h
      | some q =>
        obtain ⟨m, r⟩ := q
        simp only [hr, Option.map_some, Option.some.injEq, Prod.mk.injEq] at h
        have := ih r m hr
        rw [← h.2, ← h.1]; simp only [List.length_cons]; omega
    · simp only [Option.some.injEq, Prod.mk.injEq] at h
      rw [← h.2, ← h.1]; simp

/-- the fuel of the Raw loop (`h`) is never the reason for stopping -/
theorem rawLoop_fuel_irrelevant (bpp x w ltr : Nat) (hltr : 1 ≤ ltr) :
    ∀ (f1 f2 : Nat) (fb : FB) (y h : Nat) (bs : Bytes), h ≤ f1 → h ≤ f2 →
      rawLoop bpp x w ltr f1 fb y h bs = rawLoop bpp x w ltr f2 fb y h bs := by
  intro f1
  induction f1 with
  | zero =>
    intro f2 fb y h bs h1 h2
    have : h = 0 := by omega
    subst this
    cases f2 <;> simp [rawLoop]
  | succ f1 ih =>
    intro f2 fb y h bs h1 h2
    cases f2 with
    | zero =>
      have : h = 0 := by omega
      subst this
      simp [rawLoop]
    | succ f2 =>
      simp only [rawLoop]
      by_cases h0 : h = 0
      · simp [h0]
      · simp only [h0, if_false]
        cases readPixels bpp (w * min ltr h) bs with
        | none => rfl
        | some q =>
          obtain ⟨ps, r⟩ := q
          simp only
          exact ih f2 _ _ _ _ (by omega) (by omega)

end VncModel.Client
