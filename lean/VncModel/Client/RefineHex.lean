import VncModel.Client.Refine2
import VncModel.Client.SpecExtra
/-!
Refinement of `HandleHextileBPP` (hextile.c): every tile, then the tile loop.
-/
namespace VncModel.Client
open VncModel.Enc.Spec
open VncModel.Gen.C07

theorem exact_readGeomHex : Exact readGeomHex 2 := by
  intro bs a r h
  match bs, h with
  | a0 :: b0 :: r', h =>
    simp only [readGeomHex, Option.some.injEq, Prod.mk.injEq] at h
    obtain ⟨h1, h2⟩ := h
    subst h1 h2
    exact ⟨[a0, b0], rfl, rfl, fun t => by simp [readGeomHex]⟩

/-- sub-rectangles of a hextile tile never leave the tile's 16×16 grid, hence their geometry is
whatever `readGeomHex` says; the specification additionally demands that they stay inside the
(possibly smaller) tile -/
theorem hexColoured_window (bpp : Nat) {fb0 : FB} {x y w h : Nat} (hW : x + w ≤ fb0.w) (hH : y + h ≤ fb0.h) :
    ∀ (n : Nat) (fb : FB) (fg : Pixel) (cv : Array Pixel) (bs : Bytes) (rs : List Subrect) (rest : Bytes),
      Window fb0 fb x y w h cv →
      readSubrects (readPixel bpp) readGeomHex w h n bs = some (rs, rest) →
      ∃ buf, buf.length = n * (2 + bpp) ∧ bs = buf ++ rest ∧
        Window fb0 (hexColoured bpp x y n fb fg buf).1 x y w h
          (rs.foldl (fun cv r => fillRect cv w r.x r.y r.w r.h r.c) cv) := by
  intro n
  induction n with
  | zero =>
    intro fb fg cv bs rs rest hwin hsp
    simp only [readSubrects, Option.some.injEq, Prod.mk.injEq] at hsp
    obtain ⟨h1, h2⟩ := hsp
    subst h1 h2
    exact ⟨[], by simp, by simp, by simpa [hexColoured] using hwin⟩
  | succ n ih =>
    intro fb fg cv bs rs rest hwin hsp
    simp only [readSubrects] at hsp
    cases hc : readPixel bpp bs with
    | none => simp [hc] at hsp
    | some pc =>
      obtain ⟨c, bs1⟩ := pc
      simp only [hc] at hsp
      cases hg : readGeomHex bs1 with
      | none => simp [hg] at hsp
      | some pg =>
        obtain ⟨⟨sx, sy, sw, sh⟩, bs2⟩ := pg
        simp only [hg] at hsp
        by_cases hin : sx + sw ≤ w ∧ sy + sh ≤ h
        · simp only [hin, and_self, if_true] at hsp
          cases hr : readSubrects (readPixel bpp) readGeomHex w h n bs2 with
          | none => simp [hr] at hsp
          | some pr =>
            obtain ⟨rs', rest'⟩ := pr
            simp only [hr, Option.map_some, Option.some.injEq, Prod.mk.injEq] at hsp
            obtain ⟨h1, h2⟩ := hsp
            subst h1 h2
            have hwin' := window_fill hwin hW hH sx sy sw sh c hin.1 hin.2
            obtain ⟨buf, hbl, hbe, hw'⟩ := ih _ c _ _ _ _ hwin' hr
            obtain ⟨pre1, hl1, he1, ht1⟩ := exact_readPixel bpp bs c bs1 hc
            obtain ⟨pre2, hl2, he2, ht2⟩ := exact_readGeomHex bs1 _ bs2 hg
            refine ⟨pre1 ++ pre2 ++ buf, ?_, ?_, ?_⟩
            · simp only [List.length_append, hl1, hl2, hbl, Nat.succ_mul]; omega
            · rw [he1, he2, hbe]; simp
            · have e1 : readPixel bpp (pre1 ++ pre2 ++ buf) = some (c, pre2 ++ buf) := by
                rw [List.append_assoc]; exact ht1 _
              have e2 : readGeomHex (pre2 ++ buf) = some ((sx, sy, sw, sh), buf) := ht2 _
              simp only [hexColoured, e1, e2]
              simpa using hw'
        · simp [hin] at hsp

theorem hexMono_window {fb0 : FB} {x y w h : Nat} (hW : x + w ≤ fb0.w) (hH : y + h ≤ fb0.h) (fg : Pixel) :
    ∀ (n : Nat) (fb : FB) (cv : Array Pixel) (bs : Bytes) (rs : List Subrect) (rest : Bytes),
      Window fb0 fb x y w h cv →
      readSubrects (fun b => some (fg, b)) readGeomHex w h n bs = some (rs, rest) →
      ∃ buf, buf.length = n * 2 ∧ bs = buf ++ rest ∧
        Window fb0 (hexMono x y fg n fb buf) x y w h
          (rs.foldl (fun cv r => fillRect cv w r.x r.y r.w r.h r.c) cv) := by
  intro n
  induction n with
  | zero =>
    intro fb cv bs rs rest hwin hsp
    simp only [readSubrects, Option.some.injEq, Prod.mk.injEq] at hsp
    obtain ⟨h1, h2⟩ := hsp
    subst h1 h2
    exact ⟨[], by simp, by simp, by simpa [hexMono] using hwin⟩
  | succ n ih =>
    intro fb cv bs rs rest hwin hsp
    simp only [readSubrects] at hsp
    cases hg : readGeomHex bs with
    | none => simp [hg] at hsp
    | some pg =>
      obtain ⟨⟨sx, sy, sw, sh⟩, bs2⟩ := pg
      simp only [hg] at hsp
      by_cases hin : sx + sw ≤ w ∧ sy + sh ≤ h
      · simp only [hin, and_self, if_true] at hsp
        cases hr : readSubrects (fun b => some (fg, b)) readGeomHex w h n bs2 with
        | none => simp [hr] at hsp
        | some pr =>
          obtain ⟨rs', rest'⟩ := pr
          simp only [hr, Option.map_some, Option.some.injEq, Prod.mk.injEq] at hsp
          obtain ⟨h1, h2⟩ := hsp
          subst h1 h2
          have hwin' := window_fill hwin hW hH sx sy sw sh fg hin.1 hin.2
          obtain ⟨buf, hbl, hbe, hw'⟩ := ih _ _ _ _ _ hwin' hr
          obtain ⟨pre2, hl2, he2, ht2⟩ := exact_readGeomHex bs _ bs2 hg
          refine ⟨pre2 ++ buf, ?_, ?_, ?_⟩
          · simp only [List.length_append, hl2, hbl, Nat.succ_mul]; omega
          · rw [he2, hbe]; simp
          · have e2 : readGeomHex (pre2 ++ buf) = some ((sx, sy, sw, sh), buf) := ht2 _
            simp only [hexMono, e2]
            simpa using hw'
      · simp [hin] at hsp

/-- what the client's two C variables hold agrees with everything the specification knows -/
def HexRel (st : HexState) (cst : HexSt) : Prop :=
  (∀ p, st.bg = some p → cst.bg = p) ∧ (∀ p, st.fg = some p → cst.fg = p)

/-- **Hextile, one tile**: for every tile the (strict) specification decodes, the client tile
decoder accepts, consumes the same bytes, paints exactly the decoded pixels, and its `bg`/`fg`
variables keep agreeing with the specification's knowledge — for all flag combinations -/
theorem hexTile_refines (bpp : Nat) (fb : FB) (st : HexState) (cst : HexSt) (x y tw th : Nat) (bs : Bytes)
    (px : List Pixel) (st' : HexState) (rest : Bytes)
    (hR : HexRel st cst) (hW : x + tw ≤ fb.w) (hH : y + th ≤ fb.h)
    (hsp : decodeHextileTile bpp tw th st bs = some ((px, st'), rest)) :
    ∃ cst', hexTile bpp fb cst x y tw th bs = some ((blit fb x y tw th px, cst'), rest) ∧
      HexRel (strictAfter (bs.headD 0).toNat st') cst' := by
  cases bs with
  | nil => simp [decodeHextileTile] at hsp
  | cons m bs =>
    simp only [decodeHextileTile] at hsp
    simp only [hexTile, List.headD_cons]
    by_cases hraw : m.toNat % 2 = 1
    · simp only [hraw, if_true] at hsp ⊢
      cases hp : readPixels bpp (tw * th) bs with
      | none => simp [hp] at hsp
      | some q =>
        obtain ⟨ps, r'⟩ := q
        simp only [hp, Option.map_some, Option.some.injEq, Prod.mk.injEq] at hsp
        obtain ⟨⟨e1, e2⟩, e3⟩ := hsp
        subst e1 e2 e3
        refine ⟨cst, by simp [copyRectangle_eq_blit _ _ _ _ _ _ hW hH], ?_⟩
        have : hexColouredTile m.toNat = false := by simp [hexColouredTile, hraw]
        simp [strictAfter, this, hR]
    · simp only [hraw, if_false] at hsp ⊢
      cases h1 : optPixel (m.toNat / 2 % 2 = 1) bpp st.bg bs with
      | none => simp [h1] at hsp
      | some q1 =>
        obtain ⟨bg?, bs1⟩ := q1
        simp only [h1] at hsp
        cases h2 : optPixel (m.toNat / 4 % 2 = 1) bpp st.fg bs1 with
        | none => simp [h2] at hsp
        | some q2 =>
          obtain ⟨fg?, bs2⟩ := q2
          simp only [h2] at hsp
          cases hbg : bg? with
          | none => simp [hbg] at hsp
          | some bg =>
            simp only [hbg] at hsp
            subst hbg
            -- the client reads the same background
            have cbg : (if m.toNat / 2 % 2 = 1 then readPixel bpp bs else some (cst.bg, bs)) = some (bg, bs1) := by
              unfold optPixel at h1
              by_cases hb : m.toNat / 2 % 2 = 1
              · simp only [hb, decide_true, if_true] at h1 ⊢
                cases hr : readPixel bpp bs with
                | none => simp [hr] at h1
                | some q => obtain ⟨p, r⟩ := q; simp only [hr, Option.map_some, Option.some.injEq, Prod.mk.injEq] at h1; simp [← h1.1, ← h1.2]
              · simp only [hb, decide_false, Bool.false_eq_true, if_false, Option.some.injEq, Prod.mk.injEq] at h1 ⊢
                exact ⟨hR.1 bg h1.1, h1.2⟩
            -- and a foreground that agrees with what the specification knows
            have cfg : ∃ fgc, (if m.toNat / 4 % 2 = 1 then readPixel bpp bs1 else some (cst.fg, bs1)) = some (fgc, bs2) ∧
                (∀ p, fg? = some p → fgc = p) := by
              unfold optPixel at h2
              by_cases hb : m.toNat / 4 % 2 = 1
              · simp only [hb, decide_true, if_true] at h2 ⊢
                cases hr : readPixel bpp bs1 with
                | none => simp [hr] at h2
                | some q =>
                  obtain ⟨p, r⟩ := q
                  simp only [hr, Option.map_some, Option.some.injEq, Prod.mk.injEq] at h2
                  exact ⟨p, by simp [← h2.2], fun p' hp' => by rw [← h2.1] at hp'; simp at hp'; exact hp'⟩
              · simp only [hb, decide_false, Bool.false_eq_true, if_false, Option.some.injEq, Prod.mk.injEq] at h2 ⊢
                exact ⟨cst.fg, ⟨rfl, h2.2⟩, fun p hp => hR.2 p (by rw [h2.1]; exact hp)⟩
            obtain ⟨fgc, cfg1, cfg2⟩ := cfg
            simp only [cbg, cfg1]
            have hwin0 := window_init fb x y tw th bg hW hH
            by_cases hany : m.toNat / 8 % 2 = 1
            · simp only [hany, if_true] at hsp
              have hany0 : ¬ (m.toNat / 8 % 2 = 0) := by omega
              simp only [hany0, if_false]
              cases hn : readU8 bs2 with
              | none => simp [hn] at hsp
              | some qn =>
                obtain ⟨n, bs3⟩ := qn
                simp only [hn] at hsp ⊢
                by_cases hcol : m.toNat / 16 % 2 = 1
                · simp only [hcol, if_true] at hsp ⊢
                  cases hs : readSubrects (readPixel bpp) readGeomHex tw th n bs3 with
                  | none => simp [hs] at hsp
                  | some qs =>
                    obtain ⟨rs, r'⟩ := qs
                    simp only [hs, Option.map_some, Option.some.injEq, Prod.mk.injEq] at hsp
                    obtain ⟨⟨e3, e4⟩, e5⟩ := hsp
                    subst e3 e4 e5
                    obtain ⟨buf, hbl, hbe, hw'⟩ := hexColoured_window bpp hW hH n _ fgc _ _ _ _ hwin0 hs
                    have ht : takeN (n * (2 + bpp)) bs3 = some (buf, r') := by
                      rw [hbe, ← hbl]; exact takeN_append_exact buf r'
                    have hb2 := window_blit hw' hW
                    simp only [ht]
                    refine ⟨⟨bg, (hexColoured bpp x y n (fillRectangle fb x y tw th bg) fgc buf).2⟩, ?_, ?_⟩
                    · simp only [paintRects]
                      rw [← hb2]
                    · have : hexColouredTile m.toNat = true := by
                        simp [hexColouredTile, hany, hcol]; omega
                      simp only [strictAfter, this, if_true]
                      exact ⟨fun p hp => by simp at hp; simp [hp], fun p hp => by simp at hp⟩
                · simp only [hcol, if_false] at hsp ⊢
                  cases hfg : fg? with
                  | none => simp [hfg] at hsp
                  | some fg =>
                    simp only [hfg] at hsp
                    have hfgc : fgc = fg := cfg2 fg hfg
                    subst hfgc
                    cases hs : readSubrects (fun b => some (fgc, b)) readGeomHex tw th n bs3 with
                    | none => simp [hs] at hsp
                    | some qs =>
                      obtain ⟨rs, r'⟩ := qs
                      simp only [hs, Option.map_some, Option.some.injEq, Prod.mk.injEq] at hsp
                      obtain ⟨⟨e3, e4⟩, e5⟩ := hsp
                      subst e3 e4 e5
                      obtain ⟨buf, hbl, hbe, hw'⟩ := hexMono_window hW hH fgc n _ _ _ _ _ hwin0 hs
                      have ht : takeN (n * 2) bs3 = some (buf, r') := by
                        rw [hbe, ← hbl]; exact takeN_append_exact buf r'
                      have hb2 := window_blit hw' hW
                      simp only [ht]
                      refine ⟨⟨bg, fgc⟩, ?_, ?_⟩
                      · simp only [paintRects]
                        rw [← hb2]
                      · have : hexColouredTile m.toNat = false := by simp [hexColouredTile, hcol]
                        simp only [strictAfter, this]
                        exact ⟨fun p hp => by simp at hp; simp [hp], fun p hp => by simp at hp; simp [hp]⟩
            · simp only [hany, if_false, Option.some.injEq, Prod.mk.injEq] at hsp
              have hany0 : m.toNat / 8 % 2 = 0 := by omega
              simp only [hany0, if_true]
              obtain ⟨⟨e3, e4⟩, e5⟩ := hsp
              subst e3 e4 e5
              have hb2 := window_blit hwin0 hW
              refine ⟨⟨bg, fgc⟩, by rw [← hb2], ?_⟩
              have : hexColouredTile m.toNat = false := by simp [hexColouredTile, hany0]
              simp only [strictAfter, this]
              exact ⟨fun p hp => by simp at hp; simp [hp], cfg2⟩

/-! ### the tile loop -/

/-- painting the decoded tiles one after the other -/
def blitTiles (fb : FB) (rx ry : Nat) : List TileRect → List (List Pixel) → FB
  | t :: ts, px :: pxs => blitTiles (blit fb (rx + t.x) (ry + t.y) t.w t.h px) rx ry ts pxs
  | _, _ => fb

theorem tile_origin_lt {T n a : Nat} (hT : 0 < T) (ha : a < (n + T - 1) / T) : a * T < n := by
  have h1 := Nat.div_add_mod (n + T - 1) T
  have h2 := Nat.mod_lt (n + T - 1) hT
  have h3 : (a + 1) * T ≤ ((n + T - 1) / T) * T := Nat.mul_le_mul_right T ha
  rw [Nat.succ_mul, Nat.mul_comm ((n + T - 1) / T)] at h3
  omega

theorem mem_tileGrid {T : Nat} {g : Geometry} {t : TileRect} (hT : 0 < T) (h : t ∈ tileGrid T g) :
    t.x + t.w ≤ g.w ∧ t.y + t.h ≤ g.h := by
  simp only [tileGrid, List.mem_map, List.mem_range] at h
  obtain ⟨k, hk, rfl⟩ := h
  have htpr : 0 < (g.w + T - 1) / T := by
    rcases Nat.eq_zero_or_pos ((g.w + T - 1) / T) with e | e
    · rw [e] at hk; simp at hk
    · exact e
  have hkm : k % ((g.w + T - 1) / T) < (g.w + T - 1) / T := Nat.mod_lt _ htpr
  have hkd : k / ((g.w + T - 1) / T) < (g.h + T - 1) / T := by
    apply Nat.div_lt_of_lt_mul; rw [Nat.mul_comm]; exact hk
  have h1 := tile_origin_lt hT hkm
  have h2 := tile_origin_lt hT hkd
  simp only
  omega

theorem blit_w (fb : FB) (x y w h : Nat) (ps : List Pixel) : (blit fb x y w h ps).w = fb.w := rfl
theorem blit_h (fb : FB) (x y w h : Nat) (ps : List Pixel) : (blit fb x y w h ps).h = fb.h := rfl

theorem hexTiles_refines (bpp : Nat) (rx ry rw rh : Nat) :
    ∀ (ts : List TileRect) (fb : FB) (st : HexState) (cst : HexSt) (bs : Bytes)
      (pxs : List (List Pixel)) (rest : Bytes),
      (∀ t ∈ ts, t.x + t.w ≤ rw ∧ t.y + t.h ≤ rh) → rx + rw ≤ fb.w → ry + rh ≤ fb.h →
      HexRel st cst →
      decodeHextileTilesStrict bpp ts st bs = some (pxs, rest) →
      hexTiles bpp rx ry ts fb cst bs = some (blitTiles fb rx ry ts pxs, rest) := by
  intro ts
  induction ts with
  | nil =>
    intro fb st cst bs pxs rest _ _ _ _ h
    simp only [decodeHextileTilesStrict, Option.some.injEq, Prod.mk.injEq] at h
    simp [hexTiles, blitTiles, ← h.1, ← h.2]
  | cons t ts ih =>
    intro fb st cst bs pxs rest hts hW hH hR h
    simp only [decodeHextileTilesStrict] at h
    cases ht : decodeHextileTile bpp t.w t.h st bs with
    | none => simp [ht] at h
    | some q =>
      obtain ⟨⟨px, st'⟩, bs'⟩ := q
      simp only [ht] at h
      have hin := hts t (by simp)
      obtain ⟨cst', e1, hR'⟩ := hexTile_refines bpp fb st cst (rx + t.x) (ry + t.y) t.w t.h bs px st' bs' hR
        (by omega) (by omega) ht
      cases hr : decodeHextileTilesStrict bpp ts (strictAfter (bs.headD 0).toNat st') bs' with
      | none => rw [hr] at h; simp at h
      | some q2 =>
        obtain ⟨restpx, r'⟩ := q2
        rw [hr] at h
        simp only [Option.map_some, Option.some.injEq, Prod.mk.injEq] at h
        obtain ⟨e2, e3⟩ := h
        subst e2 e3
        have := ih (blit fb (rx + t.x) (ry + t.y) t.w t.h px) _ cst' bs' restpx r'
          (fun t' ht' => hts t' (by simp [ht'])) (by rw [blit_w]; exact hW) (by rw [blit_h]; exact hH) hR' hr
        simp [hexTiles, e1, this, blitTiles]

/-- **Hextile, whole rectangle**: on every stream the (strict) specification decoder accepts,
`HandleHextileBPP` returns TRUE with the same rest and has painted, tile by tile, exactly the
specification's tiles -/
theorem clientHextile_refines (bpp : Nat) (fb : FB) (rx ry rw rh : Nat) (bs : Bytes)
    (pxs : List (List Pixel)) (rest : Bytes)
    (hW : rx + rw ≤ fb.w) (hH : ry + rh ≤ fb.h)
    (hsp : decodeHextileTilesStrict bpp (tileGrid 16 ⟨rw, rh⟩) {} bs = some (pxs, rest)) :
    clientHextile bpp fb rx ry rw rh bs = some (blitTiles fb rx ry (tileGrid 16 ⟨rw, rh⟩) pxs, rest) := by
  refine hexTiles_refines bpp rx ry rw rh _ fb {} {} bs pxs rest
    (fun t ht => mem_tileGrid (by decide) ht) hW hH ?_ hsp
  exact ⟨fun p hp => by simp at hp, fun p hp => by simp at hp⟩

end VncModel.Client
