import VncModel.Client.Refine2
/-!
Refinement of the ZRLE tile decoder (`HandleZRLETile`, zrle.c) to `Spec.decodeZRLETile`:
raw, solid, packed palette (1/2/4-bit rows with padding), plain RLE and palette RLE (run-length
accumulation), for all tile sizes and all CPIXEL variants.
-/
namespace VncModel.Client
open VncModel.Enc.Spec
open VncModel.Gen.C07

/-! ### CPIXEL readers consume exactly `cp.size` bytes -/

theorem exact_readCPixel (cp : CPix) : Exact (readCPixel cp) cp.size := by
  cases cp with
  | full n => exact exact_readPixel n
  | lo3 => exact exact_readPixel 3
  | hi3 =>
    intro bs a r h
    simp only [readCPixel] at h
    cases hr : readPixel 3 bs with
    | none => simp [hr] at h
    | some q =>
      obtain ⟨p, r'⟩ := q
      simp only [hr, Option.map_some, Option.some.injEq, Prod.mk.injEq] at h
      obtain ⟨h1, h2⟩ := h
      subst h1 h2
      obtain ⟨pre, hl, he, ht⟩ := exact_readPixel 3 bs p r' hr
      exact ⟨pre, hl, he, fun t => by simp [readCPixel, ht t]⟩

theorem readCPixel_len {cp : CPix} {bs r : Bytes} {p : Pixel} (h : readCPixel cp bs = some (p, r)) :
    bs.length = cp.size + r.length := by
  obtain ⟨pre, hl, he, _⟩ := exact_readCPixel cp bs p r h
  rw [he, List.length_append, hl]

theorem readCPixels_len {cp : CPix} {k : Nat} {bs r : Bytes} {ps : List Pixel}
    (h : readCPixels cp k bs = some (ps, r)) : bs.length = k * cp.size + r.length := by
  induction k generalizing bs ps r with
  | zero => simp only [readCPixels, Option.some.injEq, Prod.mk.injEq] at h; simp [← h.2]
  | succ k ih =>
    simp only [readCPixels] at h
    cases hp : readCPixel cp bs with
    | none => simp [hp] at h
    | some q =>
      obtain ⟨p, bs1⟩ := q
      simp only [hp] at h
      cases h1 : readCPixels cp k bs1 with
      | none => simp [h1] at h
      | some q1 =>
        obtain ⟨ps1, r1⟩ := q1
        simp only [h1, Option.map_some, Option.some.injEq, Prod.mk.injEq] at h
        rw [← h.2, readCPixel_len hp, ih h1, Nat.succ_mul]; omega

theorem runLenC_eq : ∀ bs, runLenC bs = readRunLen bs := by
  intro bs
  induction bs with
  | nil => rfl
  | cons b bs ih => simp only [runLenC, readRunLen, ih]

theorem readRunLen_nonempty {bs r : Bytes} {n : Nat} (h : readRunLen bs = some (n, r)) : 1 ≤ bs.length := by
  cases bs with
  | nil => simp [readRunLen] at h
  | cons _ _ => simp

/-! ### plain RLE -/

theorem zrlePlainRLE_refines (cp : CPix) :
    ∀ (f rem : Nat) (bs : Bytes) (px : List Pixel) (rest : Bytes),
      decodePlainRLE cp f rem bs = some (px, rest) → zrlePlainRLE cp f rem bs = some (px, rest) := by
  intro f
  induction f with
  | zero =>
    intro rem bs px rest h
    cases rem with
    | zero => simpa [decodePlainRLE, zrlePlainRLE] using h
    | succ rem => simp [decodePlainRLE] at h
  | succ f ih =>
    intro rem bs px rest h
    cases rem with
    | zero => simpa [decodePlainRLE, zrlePlainRLE] using h
    | succ rem =>
      simp only [decodePlainRLE] at h
      cases hp : readCPixel cp bs with
      | none => simp [hp] at h
      | some q =>
        obtain ⟨p, bs1⟩ := q
        simp only [hp] at h
        cases hl : readRunLen bs1 with
        | none => simp [hl] at h
        | some ql =>
          obtain ⟨len, bs2⟩ := ql
          simp only [hl] at h
          by_cases hgt : len > rem + 1
          · simp [hgt] at h
          · simp only [hgt, if_false] at h
            cases hr : decodePlainRLE cp f (rem + 1 - len) bs2 with
            | none => simp [hr] at h
            | some qr =>
              obtain ⟨ps, r'⟩ := qr
              simp only [hr, Option.map_some, Option.some.injEq, Prod.mk.injEq] at h
              obtain ⟨e1, e2⟩ := h
              subst e1 e2
              have hlen := readCPixel_len hp
              have hne := readRunLen_nonempty hl
              have hchk : ¬ (bs.length < cp.size + 1) := by omega
              have hmin : min len (rem + 1) = len := by omega
              simp only [zrlePlainRLE, hchk, if_false, hp, runLenC_eq, hl, hmin, ih _ _ _ _ hr, Option.map_some]

/-! ### palette RLE -/

/-- the C array agrees with the transmitted palette on the transmitted entries -/
def PalAgree (pal : List Pixel) (arr : Array Pixel) : Prop := ∀ i p, pal[i]? = some p → palGet arr i = p

theorem zrlePaletteRLE_refines (pal : List Pixel) (arr : Array Pixel) (hag : PalAgree pal arr) :
    ∀ (f rem : Nat) (bs : Bytes) (px : List Pixel) (rest : Bytes),
      decodePaletteRLE pal f rem bs = some (px, rest) → zrlePaletteRLE arr f rem bs = some (px, rest) := by
  intro f
  induction f with
  | zero =>
    intro rem bs px rest h
    cases rem with
    | zero => simpa [decodePaletteRLE, zrlePaletteRLE] using h
    | succ rem => simp [decodePaletteRLE] at h
  | succ f ih =>
    intro rem bs px rest h
    cases rem with
    | zero => simpa [decodePaletteRLE, zrlePaletteRLE] using h
    | succ rem =>
      cases bs with
      | nil => simp [decodePaletteRLE] at h
      | cons b bs =>
        simp only [decodePaletteRLE] at h
        have hb256 : b.toNat < 256 := b.toNat_lt
        by_cases hsmall : b.toNat < 128
        · simp only [hsmall, if_true] at h
          cases hpl : pal[b.toNat]? with
          | none => simp [hpl] at h
          | some p =>
            simp only [hpl] at h
            cases hr : decodePaletteRLE pal f rem bs with
            | none => simp [hr] at h
            | some qr =>
              obtain ⟨ps, r'⟩ := qr
              simp only [hr, Option.map_some, Option.some.injEq, Prod.mk.injEq] at h
              obtain ⟨e1, e2⟩ := h
              subst e1 e2
              have hmod : b.toNat % 128 = b.toNat := Nat.mod_eq_of_lt hsmall
              simp only [zrlePaletteRLE, hsmall, if_true, hmod, hag _ _ hpl, ih _ _ _ _ hr, Option.map_some]
        · simp only [hsmall, if_false] at h
          cases hpl : pal[b.toNat - 128]? with
          | none => simp [hpl] at h
          | some p =>
            simp only [hpl] at h
            cases hl : readRunLen bs with
            | none => simp [hl] at h
            | some ql =>
              obtain ⟨len, bs2⟩ := ql
              simp only [hl] at h
              by_cases hgt : len > rem + 1
              · simp [hgt] at h
              · simp only [hgt, if_false] at h
                cases hr : decodePaletteRLE pal f (rem + 1 - len) bs2 with
                | none => simp [hr] at h
                | some qr =>
                  obtain ⟨ps, r'⟩ := qr
                  simp only [hr, Option.map_some, Option.some.injEq, Prod.mk.injEq] at h
                  obtain ⟨e1, e2⟩ := h
                  subst e1 e2
                  have hmod : b.toNat % 128 = b.toNat - 128 := by omega
                  have hmin : min len (rem + 1) = len := by omega
                  simp only [zrlePaletteRLE, hsmall, if_false, hmod, hag _ _ hpl, runLenC_eq, hl, hmin,
                    ih _ _ _ _ hr, Option.map_some]

/-! ### reading the palette into the C array -/

theorem readPalette_spec (cp : CPix) :
    ∀ (n i : Nat) (arr : Array Pixel) (bs : Bytes) (pal : List Pixel) (rest : Bytes),
      i + n ≤ arr.size → readCPixels cp n bs = some (pal, rest) →
      (readPalette cp n i arr bs).2 = rest ∧ (readPalette cp n i arr bs).1.size = arr.size ∧
      (∀ j p, pal[j]? = some p → (readPalette cp n i arr bs).1.getD (i + j) poison = p) ∧
      (∀ k, k < i → (readPalette cp n i arr bs).1.getD k poison = arr.getD k poison) := by
  intro n
  induction n with
  | zero =>
    intro i arr bs pal rest _ h
    simp only [readCPixels, Option.some.injEq, Prod.mk.injEq] at h
    obtain ⟨e1, e2⟩ := h
    subst e1 e2
    simp [readPalette]
  | succ n ih =>
    intro i arr bs pal rest hsz h
    simp only [readCPixels] at h
    cases hp : readCPixel cp bs with
    | none => simp [hp] at h
    | some q =>
      obtain ⟨p, bs1⟩ := q
      simp only [hp] at h
      cases h1 : readCPixels cp n bs1 with
      | none => simp [h1] at h
      | some q1 =>
        obtain ⟨ps1, r1⟩ := q1
        simp only [h1, Option.map_some, Option.some.injEq, Prod.mk.injEq] at h
        obtain ⟨e1, e2⟩ := h
        subst e1 e2
        obtain ⟨a1, a2, a3, a4⟩ := ih (i + 1) (arr.setIfInBounds i p) bs1 ps1 r1 (by simp; omega) h1
        simp only [readPalette, hp]
        refine ⟨a1, by simpa using a2, ?_, ?_⟩
        · intro j q hj
          cases j with
          | zero =>
            simp only [List.getElem?_cons_zero, Option.some.injEq] at hj
            subst hj
            have ha := a4 i (by omega)
            simp only [Nat.add_zero]
            rw [ha]
            rw [Array.getD_eq_getD_getElem?, Array.getElem?_setIfInBounds]
            have : i < arr.size := by omega
            simp [this]
          | succ j =>
            simp only [List.getElem?_cons_succ] at hj
            have := a3 j q hj
            rw [← this]; congr 1; omega
        · intro k hk
          rw [a4 k (by omega)]
          rw [Array.getD_eq_getD_getElem?, Array.getElem?_setIfInBounds, Array.getD_eq_getD_getElem?]
          have : ¬ (i = k) := by omega
          simp [this]

/-! ### packed palette rows: the shift/advance loop computes `Spec.unpackRow` -/

/-- index `k` of a packed row as the specification defines it -/
def idxAt (bits : Nat) (row : Bytes) (k : Nat) : Nat :=
  ((row.getD (k * bits / 8) 0).toNat >>> (8 - bits - k * bits % 8)) % 2 ^ bits

theorem drop_append_head {row rest : Bytes} {k : Nat} (hk : k < row.length) :
    row.drop k ++ rest = row[k] :: (row.drop (k + 1) ++ rest) := by
  rw [List.drop_eq_getElem_cons hk]; rfl

theorem unpackRowC_spec (bits : Nat) (hb : bits = 1 ∨ bits = 2 ∨ bits = 4) (row rest : Bytes) :
    ∀ (n i : Nat), ((i + n) * bits + 7) / 8 ≤ row.length →
      unpackRowC bits n (8 - bits - i * bits % 8) (row.drop (i * bits / 8) ++ rest) =
        ((List.range n).map (fun j => idxAt bits row (i + j)), row.drop (((i + n) * bits + 7) / 8) ++ rest) := by
  intro n
  induction n with
  | zero =>
    intro i hlen
    simp only [unpackRowC, List.range_zero, List.map_nil, Nat.add_zero]
    by_cases hz : i * bits % 8 = 0
    · have e : (i * bits + 7) / 8 = i * bits / 8 := by rcases hb with h | h | h <;> subst h <;> omega
      have hc : ¬ (8 - bits - i * bits % 8 < 8 - bits) := by omega
      simp [hc, e]
    · have e : (i * bits + 7) / 8 = i * bits / 8 + 1 := by rcases hb with h | h | h <;> subst h <;> omega
      have hc : 8 - bits - i * bits % 8 < 8 - bits := by rcases hb with h | h | h <;> subst h <;> omega
      have hk : i * bits / 8 < row.length := by
        simp only [Nat.add_zero] at hlen
        rcases hb with h | h | h <;> subst h <;> omega
      simp only [hc, if_true, e]
      rw [drop_append_head hk]; rfl
  | succ n ih =>
    intro i hlen
    have hk : i * bits / 8 < row.length := by rcases hb with h | h | h <;> subst h <;> omega
    simp only [unpackRowC]
    rw [drop_append_head hk]
    simp only [List.headD_cons, List.tail_cons]
    have hidx : (row[i * bits / 8].toNat >>> (8 - bits - i * bits % 8)) % 2 ^ bits = idxAt bits row i := by
      unfold idxAt
      rw [List.getD_eq_getElem?_getD, List.getElem?_eq_getElem hk]; rfl
    have hnext := ih (i + 1) (by rw [Nat.add_assoc, Nat.add_comm 1 n]; exact hlen)
    have hrange : (List.range (n + 1)).map (fun j => idxAt bits row (i + j)) =
        idxAt bits row i :: (List.range n).map (fun j => idxAt bits row (i + 1 + j)) := by
      rw [List.range_succ_eq_map, List.map_cons, List.map_map]
      simp only [Nat.add_zero, List.cons.injEq, true_and]
      apply List.map_congr_left
      intro j _
      simp only [Function.comp]
      congr 1; omega
    have hend : (i + 1 + n) = (i + (n + 1)) := by omega
    by_cases hwrap : 8 - bits - i * bits % 8 < bits
    · -- the byte is used up
      have e1 : (i + 1) * bits / 8 = i * bits / 8 + 1 := by rcases hb with h | h | h <;> subst h <;> omega
      have e2 : 8 - bits - (i + 1) * bits % 8 = 8 - bits := by rcases hb with h | h | h <;> subst h <;> omega
      rw [e1, e2] at hnext
      simp only [hwrap, if_true, hnext, hidx, hrange, hend]
    · have e1 : (i + 1) * bits / 8 = i * bits / 8 := by rcases hb with h | h | h <;> subst h <;> omega
      have e2 : 8 - bits - (i + 1) * bits % 8 = 8 - bits - i * bits % 8 - bits := by
        rcases hb with h | h | h <;> subst h <;> omega
      rw [e1, e2, drop_append_head hk] at hnext
      simp only [hwrap, if_false, hnext, hidx, hrange, hend]

theorem unpackRow_eq (bits count : Nat) (row : Bytes) :
    unpackRow bits count row = (List.range count).map (idxAt bits row) := by
  unfold unpackRow idxAt; rfl

/-- one padded row -/
theorem unpackRowC_row (bits : Nat) (hb : bits = 1 ∨ bits = 2 ∨ bits = 4) (w : Nat) (row rest : Bytes)
    (hlen : row.length = (w * bits + 7) / 8) :
    unpackRowC bits w (8 - bits) (row ++ rest) = (unpackRow bits w row, rest) := by
  have := unpackRowC_spec bits hb row rest w 0 (by simp [hlen])
  simp only [Nat.zero_mul, Nat.zero_mod, Nat.sub_zero, Nat.zero_div, List.drop_zero, Nat.zero_add] at this
  rw [this, unpackRow_eq]
  have hd : List.drop ((w * bits + 7) / 8) row = [] := by rw [← hlen]; simp
  rw [hd]; rfl

theorem takeN_split {n : Nat} {bs a r : Bytes} (h : takeN n bs = some (a, r)) : bs = a ++ r ∧ a.length = n := by
  induction n generalizing bs a with
  | zero => simp only [takeN, Option.some.injEq, Prod.mk.injEq] at h; simp [← h.1, ← h.2]
  | succ n ih =>
    cases bs with
    | nil => simp [takeN] at h
    | cons b bs =>
      simp only [takeN] at h
      cases hr : takeN n bs with
      | none => simp [hr] at h
      | some q =>
        obtain ⟨t, r'⟩ := q
        simp only [hr, Option.map_some, Option.some.injEq, Prod.mk.injEq] at h
        obtain ⟨e1, e2⟩ := h
        subst e1 e2
        obtain ⟨i1, i2⟩ := ih hr
        simp [i1, i2]

theorem lookupAll_spec {pal : List Pixel} {arr : Array Pixel} (hag : PalAgree pal arr) :
    ∀ (is : List Nat) (px : List Pixel), lookupAll pal is = some px →
      px = is.map (palGet arr) ∧ ∀ i ∈ is, i < pal.length := by
  intro is
  induction is with
  | nil => intro px h; simp only [lookupAll, Option.some.injEq] at h; simp [← h]
  | cons i is ih =>
    intro px h
    simp only [lookupAll] at h
    cases hp : pal[i]? with
    | none => simp [hp] at h
    | some p =>
      simp only [hp] at h
      cases hr : lookupAll pal is with
      | none => simp [hr] at h
      | some ps =>
        simp only [hr, Option.map_some, Option.some.injEq] at h
        obtain ⟨e1, e2⟩ := ih ps hr
        have hi : i < pal.length := by
          rcases Nat.lt_or_ge i pal.length with hlt | hge
          · exact hlt
          · rw [List.getElem?_eq_none hge] at hp; simp at hp
        refine ⟨by rw [← h, e1]; simp [hag i p hp], ?_⟩
        intro j hj
        simp only [List.mem_cons] at hj
        rcases hj with rfl | hj
        · exact hi
        · exact e2 j hj

theorem packedRows_refines (bits : Nat) (hb : bits = 1 ∨ bits = 2 ∨ bits = 4) (tw : Nat)
    {pal : List Pixel} {arr : Array Pixel} (hag : PalAgree pal arr) :
    ∀ (th : Nat) (bs : Bytes) (px : List Pixel) (rest : Bytes),
      decodePackedRows bits tw pal th bs = some (px, rest) →
      px = (unpackRowsC bits tw th bs).map (palGet arr) ∧
      (∀ i ∈ unpackRowsC bits tw th bs, i < pal.length) ∧
      bs.length = ((tw * bits + 7) / 8) * th + rest.length ∧ rest = bs.drop (((tw * bits + 7) / 8) * th) := by
  intro th
  induction th with
  | zero =>
    intro bs px rest h
    simp only [decodePackedRows, Option.some.injEq, Prod.mk.injEq] at h
    simp [unpackRowsC, ← h.1, ← h.2]
  | succ th ih =>
    intro bs px rest h
    simp only [decodePackedRows] at h
    cases ht : takeN ((tw * bits + 7) / 8) bs with
    | none => simp [ht] at h
    | some q =>
      obtain ⟨row, bs1⟩ := q
      simp only [ht] at h
      cases hl : lookupAll pal (unpackRow bits tw row) with
      | none => simp [hl] at h
      | some rowpx =>
        simp only [hl] at h
        cases hr : decodePackedRows bits tw pal th bs1 with
        | none => simp [hr] at h
        | some qr =>
          obtain ⟨ps, r'⟩ := qr
          simp only [hr, Option.map_some, Option.some.injEq, Prod.mk.injEq] at h
          obtain ⟨e1, e2⟩ := h
          subst e1 e2
          obtain ⟨hsplit, hrl⟩ := takeN_split ht
          obtain ⟨i1, i2, i3, i4⟩ := ih bs1 ps r' hr
          obtain ⟨l1, l2⟩ := lookupAll_spec hag _ _ hl
          have hrow := unpackRowC_row bits hb tw row bs1 hrl
          subst hsplit
          simp only [unpackRowsC, hrow, List.map_append, List.mem_append]
          refine ⟨by rw [l1, i1], ?_, ?_, ?_⟩
          · intro i hi
            rcases hi with hi | hi
            · exact l2 i hi
            · exact i2 i hi
          · rw [List.length_append, hrl, i3, Nat.mul_succ]; omega
          · have hd : List.drop ((tw * bits + 7) / 8) (row ++ bs1) = bs1 := by rw [← hrl]; simp
            rw [i4, Nat.mul_succ, Nat.add_comm _ ((tw * bits + 7) / 8), ← List.drop_drop, hd]

/-! ### the tile -/

theorem packBits_eq {m : Nat} (h2 : 2 ≤ m) (h16 : m ≤ 16) : packBits m = packedBits m := by
  unfold packBits packedBits
  by_cases a : m ≤ 2
  · have : ¬ m > 4 := by omega
    have : ¬ m > 2 := by omega
    simp [*]
  · by_cases b : m ≤ 4
    · have : ¬ m > 4 := by omega
      have : m > 2 := by omega
      simp [*]
    · have : m > 4 := by omega
      have : ¬ m > 16 := by omega
      simp [*]

theorem packedBits_cases (m : Nat) : packedBits m = 1 ∨ packedBits m = 2 ∨ packedBits m = 4 := by
  unfold packedBits
  split
  · simp
  · split <;> simp

theorem row_bytes_eq {bits : Nat} (hb : bits = 1 ∨ bits = 2 ∨ bits = 4) (w : Nat) :
    (w + 8 / bits - 1) / (8 / bits) = (w * bits + 7) / 8 := by
  rcases hb with h | h | h <;> subst h <;> omega

/-- **ZRLE tile**: whenever the specification decodes a tile, `HandleZRLETile` returns the same
pixels (in write order) and the same number of consumed bytes — all sub-encodings -/
theorem zrleTile_refines (cp : CPix) (tw th : Nat) (buf : Bytes) (px : List Pixel) (rest : Bytes)
    (hne : 1 ≤ tw * th)
    (hsp : decodeZRLETile cp tw th buf = some (px, rest)) :
    zrleTile cp tw th buf = some (px, rest) := by
  cases buf with
  | nil => simp [decodeZRLETile] at hsp
  | cons m bs =>
    simp only [decodeZRLETile] at hsp
    simp only [zrleTile]
    by_cases h0 : m.toNat = 0
    · simp only [h0, if_true] at hsp ⊢
      have := readCPixels_len hsp
      have hchk : ¬ (1 + tw * th * cp.size > bs.length + 1) := by omega
      simp only [hchk, if_false, hsp]
    · simp only [h0, if_false] at hsp ⊢
      by_cases h1 : m.toNat = 1
      · simp only [h1, if_true] at hsp ⊢
        cases hp : readCPixel cp bs with
        | none => simp [hp] at hsp
        | some q =>
          obtain ⟨p, r⟩ := q
          have := readCPixel_len hp
          have hchk : ¬ (1 + cp.size > bs.length + 1) := by omega
          simp only [hp, Option.map_some] at hsp
          simp only [hchk, if_false, hp, Option.map_some, hsp]
      · simp only [h1, if_false] at hsp ⊢
        by_cases h16 : m.toNat ≤ 16
        · -- packed palette
          have h127 : m.toNat ≤ 127 := by omega
          simp only [h16, if_true] at hsp
          simp only [h127, if_true]
          cases hpal : readCPixels cp m.toNat bs with
          | none => simp [hpal] at hsp
          | some q =>
            obtain ⟨pal, bs1⟩ := q
            simp only [hpal] at hsp
            have hm2 : 2 ≤ m.toNat := by omega
            have hbits := packBits_eq hm2 h16
            have hbc := packedBits_cases m.toNat
            have hplen := readCPixels_len hpal
            have hpl : pal.length = m.toNat := by
              have : ∀ (k : Nat) (bs r : Bytes) (ps : List Pixel), readCPixels cp k bs = some (ps, r) → ps.length = k := by
                intro k
                induction k with
                | zero => intro bs r ps h; simp only [readCPixels, Option.some.injEq, Prod.mk.injEq] at h; simp [← h.1]
                | succ k ih =>
                  intro bs r ps h
                  simp only [readCPixels] at h
                  cases hp : readCPixel cp bs with
                  | none => simp [hp] at h
                  | some q =>
                    obtain ⟨p, b1⟩ := q
                    simp only [hp] at h
                    cases h1 : readCPixels cp k b1 with
                    | none => simp [h1] at h
                    | some q1 =>
                      obtain ⟨ps1, r1⟩ := q1
                      simp only [h1, Option.map_some, Option.some.injEq, Prod.mk.injEq] at h
                      rw [← h.1]; simp [ih _ _ _ h1]
              exact this _ _ _ _ hpal
            obtain ⟨p1, p2, p3, _⟩ := readPalette_spec cp m.toNat 0 (Array.replicate zrlePaletteCells poison) bs pal bs1
              (by simp [zrlePaletteCells]; omega) hpal
            have hag : PalAgree pal (readPalette cp m.toNat 0 (Array.replicate zrlePaletteCells poison) bs).1 := by
              intro i p hp
              have := p3 i p hp
              simpa [palGet] using this
            obtain ⟨r1, r2, r3, r4⟩ := packedRows_refines (packedBits m.toNat) hbc tw hag th bs1 px rest hsp
            have hrb := row_bytes_eq hbc tw
            rw [hbits]
            have hchk : ¬ (1 + m.toNat * cp.size + (tw + 8 / packedBits m.toNat - 1) / (8 / packedBits m.toNat) * th >
                bs.length + 1) := by
              rw [hrb]; omega
            simp only [hchk, if_false]
            rw [show (readPalette cp m.toNat 0 (Array.replicate zrlePaletteCells poison) bs) =
              ((readPalette cp m.toNat 0 (Array.replicate zrlePaletteCells poison) bs).1, bs1) from by
                rw [← p1]]
            simp only []
            have hall : ¬ ((unpackRowsC (packedBits m.toNat) tw th bs1).any fun x => decide (x ≥ m.toNat)) = true := by
              simp only [List.any_eq_true, decide_eq_true_eq, not_exists, not_and]
              intro i hi
              have := r2 i hi
              omega
            simp only [hall, Bool.false_eq_true, if_false, hrb, ← r1, ← r4]
        · simp only [h16, if_false] at hsp
          by_cases h128 : m.toNat = 128
          · simp only [h128, if_true] at hsp
            have c1 : ¬ (128 ≤ 127) := by omega
            have := zrlePlainRLE_refines cp _ _ _ _ _ hsp
            simp [h128, this]
          · simp only [h128, if_false] at hsp
            by_cases h130 : m.toNat ≥ 130
            · simp only [h130, if_true] at hsp
              have c1 : ¬ (m.toNat ≤ 127) := by omega
              have c3 : ¬ (m.toNat = 129) := by omega
              simp only [c1, h128, c3, if_false]
              cases hpal : readCPixels cp (m.toNat - 128) bs with
              | none => simp [hpal] at hsp
              | some q =>
                obtain ⟨pal, bs1⟩ := q
                simp only [hpal] at hsp
                have hplen := readCPixels_len hpal
                have hm : m.toNat < 256 := m.toNat_lt
                obtain ⟨p1, p2, p3, _⟩ := readPalette_spec cp (m.toNat - 128) 0 (Array.replicate zrlePaletteCells poison) bs pal bs1
                  (by simp [zrlePaletteCells]; omega) hpal
                have hag : PalAgree pal (readPalette cp (m.toNat - 128) 0 (Array.replicate zrlePaletteCells poison) bs).1 := by
                  intro i p hp
                  have := p3 i p hp
                  simpa [palGet] using this
                -- the specification read at least one run after the palette (the tile is not empty)
                have hne1 : 1 ≤ bs1.length := by
                  cases hbs : bs1 with
                  | nil =>
                    rw [hbs] at hsp
                    obtain ⟨k, hk⟩ : ∃ k, tw * th = k + 1 := ⟨tw * th - 1, by omega⟩
                    rw [hk] at hsp
                    simp [decodePaletteRLE] at hsp
                  | cons _ _ => simp
                have := zrlePaletteRLE_refines pal _ hag _ _ _ _ _ hsp
                have hchk : ¬ (2 + (m.toNat - 128) * cp.size > bs.length + 1) := by omega
                simp only [hchk, if_false]
                rw [show (readPalette cp (m.toNat - 128) 0 (Array.replicate zrlePaletteCells poison) bs) =
                  ((readPalette cp (m.toNat - 128) 0 (Array.replicate zrlePaletteCells poison) bs).1, bs1) from by
                    rw [← p1]]
                simp only [this]
            · simp [h130] at hsp

end VncModel.Client
