import VncModel.Client.Session
/-!
The CPIXEL selection of the ZRLE/TRLE dispatch in rfbclient.c (`clientCPix`) is the rule of the
specification (`PixFmt.cpix`, RFC 6143 §7.7.5) — for every 32-bpp true-colour format whose channel
maxima are of the form `2^k-1` and lie inside the 32 bits, PROVIDED `depth ≤ 24` or the colour bits
do not fit three bytes.  For `depth > 24` with colour bits fitting three bytes the code still sends
/ expects 3-byte CPIXELs: known finding `cpixel-depth`.
-/
namespace VncModel.Client
open VncModel.Enc.Spec

/-- channel maximum `2^k - 1`, `k ≥ 1`, shifted inside 32 bits -/
structure ChanOK (m s : Nat) : Prop where
  odd : m % 2 = 1
  fits : m <<< s < 2 ^ 32

/-- the colour bits fit the least significant three bytes of the pixel value -/
def fitsLS (f : PixFmt) : Prop :=
  f.rMax <<< f.rShift < 2 ^ 24 ∧ f.gMax <<< f.gShift < 2 ^ 24 ∧ f.bMax <<< f.bShift < 2 ^ 24
/-- … the most significant three bytes -/
def fitsMS (f : PixFmt) : Prop := f.rShift > 7 ∧ f.gShift > 7 ∧ f.bShift > 7

instance (f : PixFmt) : Decidable (fitsLS f) := by unfold fitsLS; infer_instance
instance (f : PixFmt) : Decidable (fitsMS f) := by unfold fitsMS; infer_instance

theorem or3_lt_iff {a b c n : Nat} : (a ||| b ||| c) < 2 ^ n ↔ a < 2 ^ n ∧ b < 2 ^ n ∧ c < 2 ^ n := by
  constructor
  · intro h
    have h1 : a ||| b ≤ a ||| b ||| c := Nat.left_le_or
    have h2 : c ≤ a ||| b ||| c := Nat.right_le_or
    have h3 : a ≤ a ||| b := Nat.left_le_or
    have h4 : b ≤ a ||| b := Nat.right_le_or
    omega
  · rintro ⟨ha, hb, hc⟩
    exact Nat.or_lt_two_pow (Nat.or_lt_two_pow ha hb) hc

theorem or3_mod_eq_zero {a b c : Nat} :
    (a ||| b ||| c) % 256 = 0 ↔ a % 256 = 0 ∧ b % 256 = 0 ∧ c % 256 = 0 := by
  have e : (256 : Nat) = 2 ^ 8 := by decide
  rw [e, Nat.or_mod_two_pow, Nat.or_mod_two_pow, Nat.or_eq_zero_iff, Nat.or_eq_zero_iff]
  constructor
  · rintro ⟨⟨h1, h2⟩, h3⟩; exact ⟨h1, h2, h3⟩
  · rintro ⟨h1, h2, h3⟩; exact ⟨⟨h1, h2⟩, h3⟩

/-- an odd number shifted left has a zero low byte exactly when the shift is at least 8 -/
theorem shl_low_byte_zero {m s : Nat} (hodd : m % 2 = 1) : (m <<< s) % 256 = 0 ↔ s > 7 := by
  rw [Nat.shiftLeft_eq]
  constructor
  · intro h
    rcases Nat.lt_or_ge 7 s with hs | hs
    · exact hs
    · exfalso
      have : s = 0 ∨ s = 1 ∨ s = 2 ∨ s = 3 ∨ s = 4 ∨ s = 5 ∨ s = 6 ∨ s = 7 := by omega
      rcases this with rfl | rfl | rfl | rfl | rfl | rfl | rfl | rfl <;> simp at h <;> omega
  · intro hs
    obtain ⟨k, rfl⟩ : ∃ k, s = 8 + k := ⟨s - 8, by omega⟩
    rw [Nat.pow_add, ← Nat.mul_assoc, Nat.mul_comm m, Nat.mul_assoc]
    have : (2 : Nat) ^ 8 = 256 := by decide
    rw [this, Nat.mul_mod_right]

/-- **CPIXEL selection**: the dispatch of rfbclient.c chooses the CPIXEL layout the RFC prescribes -/
theorem clientCPix_eq_spec (f : PixFmt) (htc : f.trueColour = true)
    (hr : ChanOK f.rMax f.rShift) (hg : ChanOK f.gMax f.gShift) (hb : ChanOK f.bMax f.bShift)
    (hdepth : f.depth ≤ 24 ∨ ¬ (fitsLS f ∨ fitsMS f)) :
    clientCPix f = f.cpix := by
  unfold clientCPix PixFmt.cpix
  by_cases h32 : f.bpp = 32
  · simp only [h32, if_true, htc, true_and]
    -- the masked OR of the three channels
    have hlt : (f.rMax <<< f.rShift ||| f.gMax <<< f.gShift ||| f.bMax <<< f.bShift) < 2 ^ 32 :=
      or3_lt_iff.mpr ⟨hr.fits, hg.fits, hb.fits⟩
    have hmod : (f.rMax <<< f.rShift ||| f.gMax <<< f.gShift ||| f.bMax <<< f.bShift) % 2 ^ 32 =
        (f.rMax <<< f.rShift ||| f.gMax <<< f.gShift ||| f.bMax <<< f.bShift) := Nat.mod_eq_of_lt hlt
    rw [hmod]
    have hls : (f.rMax <<< f.rShift ||| f.gMax <<< f.gShift ||| f.bMax <<< f.bShift) / 2 ^ 24 = 0 ↔ fitsLS f := by
      rw [Nat.div_eq_zero_iff]
      constructor
      · rintro (h | h)
        · exact absurd h (by decide)
        · exact or3_lt_iff.mp h
      · intro h; right; exact or3_lt_iff.mpr h
    have hms : (f.rMax <<< f.rShift ||| f.gMax <<< f.gShift ||| f.bMax <<< f.bShift) % 256 = 0 ↔ fitsMS f := by
      rw [or3_mod_eq_zero, shl_low_byte_zero hr.odd, shl_low_byte_zero hg.odd, shl_low_byte_zero hb.odd]
      rfl
    simp only [hls, hms]
    have els : (f.rMax <<< f.rShift < 2 ^ 24 ∧ f.gMax <<< f.gShift < 2 ^ 24 ∧ f.bMax <<< f.bShift < 2 ^ 24) ↔ fitsLS f := Iff.rfl
    have ems : (f.rShift > 7 ∧ f.gShift > 7 ∧ f.bShift > 7) ↔ fitsMS f := Iff.rfl
    simp only [els, ems]
    by_cases hd : f.depth ≤ 24
    · simp only [hd, if_true]
      by_cases hbe : f.bigEndian = true
      · simp only [hbe, true_and, not_true_eq_false, false_and, or_false, false_or, Bool.true_eq_false]
        by_cases a : fitsLS f <;> by_cases b : fitsMS f <;> simp [a, b]
      · have : f.bigEndian = false := by simpa using hbe
        simp only [this, Bool.false_eq_true, false_and, not_false_eq_true, true_and, false_or, or_false]
        by_cases a : fitsLS f <;> by_cases b : fitsMS f <;> simp [a, b]
    · have hno : ¬ (fitsLS f ∨ fitsMS f) := by
        rcases hdepth with h | h
        · exact absurd h hd
        · exact h
      have a : ¬ fitsLS f := fun h => hno (Or.inl h)
      have b : ¬ fitsMS f := fun h => hno (Or.inr h)
      have hb4 : f.bytespp = 4 := by simp [PixFmt.bytespp, h32]
      simp [hd, a, b, hb4]
  · simp [h32]

end VncModel.Client
