import VncModel.Client.TileLen
import VncModel.Client.RefineHex2
import VncModel.Client.Requests
/-!
Refinement of `HandleTRLE` (trle.c) to `Spec.decodeTRLE`: every tile sub-encoding including the
palette reuse (127 / 129) with the `last_type` bookkeeping, then the tile loop and the assembly.
-/
namespace VncModel.Client
open VncModel.Enc.Spec
open VncModel.Gen.C07

/-! ### run lengths: the byte-by-byte reader of trle.c = `Spec.readRunLen` while the 0xff chain is
shorter than the room in `raw_buffer` -/

theorem trleRunLen_eq : ∀ (bs : Bytes) (budget acc n : Nat) (rest : Bytes),
    readRunLen bs = some (n, rest) → (n - 1) / 255 ≤ budget →
    trleRunLen budget acc bs = some (acc + (n - 1), rest) := by
  intro bs
  induction bs with
  | nil => intro budget acc n rest h; simp [readRunLen] at h
  | cons b bs ih =>
    intro budget acc n rest h hb
    simp only [readRunLen] at h
    by_cases h255 : b = 255
    · simp only [h255, if_true] at h
      cases hr : readRunLen bs with
      | none => simp [hr] at h
      | some q =>
        obtain ⟨n', r'⟩ := q
        simp only [hr, Option.map_some, Option.some.injEq, Prod.mk.injEq] at h
        obtain ⟨e1, e2⟩ := h
        subst e1 e2
        have hn' : 1 ≤ n' := by
          cases bs with
          | nil => simp [readRunLen] at hr
          | cons c cs =>
            simp only [readRunLen] at hr
            split at hr
            · cases hq : readRunLen cs with
              | none => simp [hq] at hr
              | some q2 => obtain ⟨a, b2⟩ := q2; simp only [hq, Option.map_some, Option.some.injEq, Prod.mk.injEq] at hr; omega
            · simp only [Option.some.injEq, Prod.mk.injEq] at hr; omega
        cases budget with
        | zero => omega
        | succ k =>
          have := ih k (acc + 255) n' r' hr (by omega)
          simp only [trleRunLen, h255, if_true, this]
          congr 2; omega
    · simp only [h255, if_false, Option.some.injEq, Prod.mk.injEq] at h
      obtain ⟨e1, e2⟩ := h
      subst e1 e2
      cases budget with
      | zero => simp [trleRunLen]
      | succ k => simp [trleRunLen, h255]

theorem trlePlainRLE_refines (cp : CPix) (budget : Nat) :
    ∀ (f rem : Nat) (bs : Bytes) (px : List Pixel) (rest : Bytes),
      rem / 255 ≤ budget - cp.size →
      decodePlainRLE cp f rem bs = some (px, rest) → trlePlainRLE cp budget f rem bs = some (px, rest) := by
  intro f
  induction f with
  | zero =>
    intro rem bs px rest _ h
    cases rem with
    | zero => simpa [decodePlainRLE, trlePlainRLE] using h
    | succ rem => simp [decodePlainRLE] at h
  | succ f ih =>
    intro rem bs px rest hb h
    cases rem with
    | zero => simpa [decodePlainRLE, trlePlainRLE] using h
    | succ rem =>
      simp only [decodePlainRLE] at h
      cases hp : readCPixel cp bs with
      | none => simp [hp] at h
      | some q =>
        obtain ⟨p, bs1⟩ := q
        simp only [hp] at h
        cases hl : readRunLen bs1 with
        | none => simp [hl] at h
        | some ql =>
          obtain ⟨len, bs2⟩ := ql
          simp only [hl] at h
          by_cases hgt : len > rem + 1
          · simp [hgt] at h
          · simp only [hgt, if_false] at h
            cases hr : decodePlainRLE cp f (rem + 1 - len) bs2 with
            | none => simp [hr] at h
            | some qr =>
              obtain ⟨ps, r'⟩ := qr
              simp only [hr, Option.map_some, Option.some.injEq, Prod.mk.injEq] at h
              obtain ⟨e1, e2⟩ := h
              subst e1 e2
              have hlen1 : 1 ≤ len := by
                cases bs1 with
                | nil => simp [readRunLen] at hl
                | cons c cs =>
                  simp only [readRunLen] at hl
                  split at hl
                  · cases hq : readRunLen cs with
                    | none => simp [hq] at hl
                    | some q2 => obtain ⟨a, b2⟩ := q2; simp only [hq, Option.map_some, Option.some.injEq, Prod.mk.injEq] at hl; omega
                  · simp only [Option.some.injEq, Prod.mk.injEq] at hl; omega
              have hchain : (len - 1) / 255 ≤ budget - cp.size :=
                Nat.le_trans (Nat.div_le_div_right (by omega)) hb
              have hrun := trleRunLen_eq bs1 (budget - cp.size) 1 len bs2 hl hchain
              have e1 : 1 + (len - 1) = len := by omega
              rw [e1] at hrun
              have hmin : min len (rem + 1) = len := by omega
              have hb' : (rem + 1 - len) / 255 ≤ budget - cp.size :=
                Nat.le_trans (Nat.div_le_div_right (by omega)) hb
              simp only [trlePlainRLE, hp, hrun, hmin, ih _ _ _ _ hb' hr, Option.map_some]

theorem trlePaletteRLE_refines (pal : List Pixel) (arr : Array Pixel) (hag : PalAgree pal arr) (budget : Nat) :
    ∀ (f rem : Nat) (bs : Bytes) (px : List Pixel) (rest : Bytes),
      rem / 255 ≤ budget - 1 →
      decodePaletteRLE pal f rem bs = some (px, rest) → trlePaletteRLE arr budget f rem bs = some (px, rest) := by
  intro f
  induction f with
  | zero =>
    intro rem bs px rest _ h
    cases rem with
    | zero => simpa [decodePaletteRLE, trlePaletteRLE] using h
    | succ rem => simp [decodePaletteRLE] at h
  | succ f ih =>
    intro rem bs px rest hb h
    cases rem with
    | zero => simpa [decodePaletteRLE, trlePaletteRLE] using h
    | succ rem =>
      cases bs with
      | nil => simp [decodePaletteRLE] at h
      | cons b bs =>
        simp only [decodePaletteRLE] at h
        have hb256 : b.toNat < 256 := b.toNat_lt
        by_cases hsmall : b.toNat < 128
        · simp only [hsmall, if_true] at h
          cases hpl : pal[b.toNat]? with
          | none => simp [hpl] at h
          | some p =>
            simp only [hpl] at h
            cases hr : decodePaletteRLE pal f rem bs with
            | none => simp [hr] at h
            | some qr =>
              obtain ⟨ps, r'⟩ := qr
              simp only [hr, Option.map_some, Option.some.injEq, Prod.mk.injEq] at h
              obtain ⟨e1, e2⟩ := h
              subst e1 e2
              have hmod : b.toNat % 128 = b.toNat := Nat.mod_eq_of_lt hsmall
              have hb' : rem / 255 ≤ budget - 1 := Nat.le_trans (Nat.div_le_div_right (by omega)) hb
              simp only [trlePaletteRLE, hsmall, if_true, hmod, hag _ _ hpl, ih _ _ _ _ hb' hr, Option.map_some]
        · simp only [hsmall, if_false] at h
          cases hpl : pal[b.toNat - 128]? with
          | none => simp [hpl] at h
          | some p =>
            simp only [hpl] at h
            cases hl : readRunLen bs with
            | none => simp [hl] at h
            | some ql =>
              obtain ⟨len, bs2⟩ := ql
              simp only [hl] at h
              by_cases hgt : len > rem + 1
              · simp [hgt] at h
              · simp only [hgt, if_false] at h
                cases hr : decodePaletteRLE pal f (rem + 1 - len) bs2 with
                | none => simp [hr] at h
                | some qr =>
                  obtain ⟨ps, r'⟩ := qr
                  simp only [hr, Option.map_some, Option.some.injEq, Prod.mk.injEq] at h
                  obtain ⟨e1, e2⟩ := h
                  subst e1 e2
                  have hlen1 : 1 ≤ len := by
                    cases bs with
                    | nil => simp [readRunLen] at hl
                    | cons c cs =>
                      simp only [readRunLen] at hl
                      split at hl
                      · cases hq : readRunLen cs with
                        | none => simp [hq] at hl
                        | some q2 => obtain ⟨a, b2⟩ := q2; simp only [hq, Option.map_some, Option.some.injEq, Prod.mk.injEq] at hl; omega
                      · simp only [Option.some.injEq, Prod.mk.injEq] at hl; omega
                  have hchain : (len - 1) / 255 ≤ budget - 1 := Nat.le_trans (Nat.div_le_div_right (by omega)) hb
                  have hrun := trleRunLen_eq bs (budget - 1) 1 len bs2 hl hchain
                  have e1 : 1 + (len - 1) = len := by omega
                  rw [e1] at hrun
                  have hmod : b.toNat % 128 = b.toNat - 128 := by omega
                  have hmin : min len (rem + 1) = len := by omega
                  have hb' : (rem + 1 - len) / 255 ≤ budget - 1 := Nat.le_trans (Nat.div_le_div_right (by omega)) hb
                  simp only [trlePaletteRLE, hsmall, if_false, hmod, hag _ _ hpl, hrun, hmin, ih _ _ _ _ hb' hr,
                    Option.map_some]

/-! ### packed rows read through `takeN` -/

theorem takeN_take {n : Nat} {bs : Bytes} (h : n ≤ bs.length) : takeN n bs = some (bs.take n, bs.drop n) := by
  induction n generalizing bs with
  | zero => simp [takeN]
  | succ n ih =>
    cases bs with
    | nil => simp at h
    | cons b bs => simp [takeN, ih (by simpa using h)]

theorem unpackRowsC_prefix (bits : Nat) (hb : bits = 1 ∨ bits = 2 ∨ bits = 4) (w : Nat) :
    ∀ (h : Nat) (bs : Bytes), (w * bits + 7) / 8 * h ≤ bs.length →
      unpackRowsC bits w h (bs.take ((w * bits + 7) / 8 * h)) = unpackRowsC bits w h bs := by
  intro h
  induction h with
  | zero => intro bs _; simp [unpackRowsC]
  | succ h ih =>
    intro bs hlen
    have hrb : (w * bits + 7) / 8 ≤ bs.length := by rw [Nat.mul_succ] at hlen; omega
    have hsplit : bs = bs.take ((w * bits + 7) / 8) ++ bs.drop ((w * bits + 7) / 8) := (List.take_append_drop _ _).symm
    have hrl : (bs.take ((w * bits + 7) / 8)).length = (w * bits + 7) / 8 := by rw [List.length_take]; omega
    have hdl : (w * bits + 7) / 8 * h ≤ (bs.drop ((w * bits + 7) / 8)).length := by
      rw [List.length_drop, Nat.mul_succ] at *; omega
    have e1 : bs.take ((w * bits + 7) / 8 * (h + 1)) =
        bs.take ((w * bits + 7) / 8) ++ (bs.drop ((w * bits + 7) / 8)).take ((w * bits + 7) / 8 * h) := by
      rw [Nat.mul_succ, Nat.add_comm, List.take_add]
    rw [e1]
    simp only [unpackRowsC]
    rw [unpackRowC_row bits hb w _ _ hrl]
    conv => rhs; rw [hsplit, unpackRowC_row bits hb w _ _ hrl]
    simp only
    rw [ih _ hdl]

theorem trlePacked_refines (bits : Nat) (hb : bits = 1 ∨ bits = 2 ∨ bits = 4) (fb : FB) (st : TrleSt)
    (x y tw th : Nat) (pal : List Pixel) (hbpp : st.bpp = bits) (hag : PalAgree pal st.pal)
    (bs : Bytes) (px : List Pixel) (rest : Bytes)
    (h : decodePackedRows bits tw pal th bs = some (px, rest)) :
    trlePacked fb st x y tw th bs = some ((blit fb x y tw th px, st), rest) := by
  obtain ⟨r1, _, r3, r4⟩ := packedRows_refines bits hb tw hag th bs px rest h
  have hrb := row_bytes_eq hb tw
  have hle : (tw * bits + 7) / 8 * th ≤ bs.length := by omega
  simp only [trlePacked, hbpp, hrb, takeN_take hle, unpackRowsC_prefix bits hb tw th bs hle, ← r1, ← r4,
    writeDirect_eq_blit]

/-! ### the tile -/

/-- what the client's `last_type` / `palette[]` / `bpp` say agrees with the palette the
specification would reuse -/
def TrleRel (prev : List Pixel) (st : TrleSt) : Prop :=
  prev = [] ∨ (2 ≤ prev.length ∧ PalAgree prev st.pal ∧
    ((st.lastType = prev.length ∧ prev.length ≤ 16 ∧ st.bpp = packedBits prev.length) ∨
     (st.lastType = 128 + prev.length ∧ prev.length ≤ 127)))

theorem fillRectangle_eq_blit (fb : FB) (x y w h : Nat) (c : Pixel) (hW : x + w ≤ fb.w) (hH : y + h ≤ fb.h) :
    fillRectangle fb x y w h c = blit fb x y w h (List.replicate (w * h) c) := by
  have := window_blit (window_init fb x y w h c hW hH) hW
  simpa using this

theorem exact_readCPixels (cp : CPix) : ∀ (k : Nat) (bs : Bytes) (ps : List Pixel) (r : Bytes),
    readCPixels cp k bs = some (ps, r) →
    ∃ pre, pre.length = k * cp.size ∧ bs = pre ++ r ∧ ∀ t, readCPixels cp k (pre ++ t) = some (ps, t) := by
  intro k
  induction k with
  | zero =>
    intro bs ps r h
    simp only [readCPixels, Option.some.injEq, Prod.mk.injEq] at h
    obtain ⟨e1, e2⟩ := h
    subst e1 e2
    exact ⟨[], by simp, rfl, fun t => by simp [readCPixels]⟩
  | succ k ih =>
    intro bs ps r h
    simp only [readCPixels] at h
    cases hp : readCPixel cp bs with
    | none => simp [hp] at h
    | some q =>
      obtain ⟨p, b1⟩ := q
      simp only [hp] at h
      cases h1 : readCPixels cp k b1 with
      | none => simp [h1] at h
      | some q1 =>
        obtain ⟨ps1, r1⟩ := q1
        simp only [h1, Option.map_some, Option.some.injEq, Prod.mk.injEq] at h
        obtain ⟨e1, e2⟩ := h
        subst e1 e2
        obtain ⟨pre1, l1, s1, t1⟩ := exact_readCPixel cp bs p b1 hp
        obtain ⟨pre2, l2, s2, t2⟩ := ih b1 ps1 r1 h1
        refine ⟨pre1 ++ pre2, by simp [l1, l2, Nat.succ_mul]; omega, by rw [s1, s2]; simp, fun t => ?_⟩
        simp [readCPixels, List.append_assoc, t1, t2]

/-- reading the palette of a tile: `ReadFromRFBServer(n·cpixel)` then `palette[i] = …` -/
theorem trle_palette_read (cp : CPix) (n : Nat) (arr : Array Pixel) (harr : n ≤ arr.size) (bs : Bytes)
    (pal : List Pixel) (bs1 : Bytes) (h : readCPixels cp n bs = some (pal, bs1)) :
    ∃ pb, takeN (n * cp.size) bs = some (pb, bs1) ∧ PalAgree pal (readPalette cp n 0 arr pb).1 := by
  obtain ⟨pre, l1, s1, t1⟩ := exact_readCPixels cp n bs pal bs1 h
  refine ⟨pre, by rw [s1, ← l1]; exact takeN_append_exact pre bs1, ?_⟩
  have hpre : readCPixels cp n pre = some (pal, []) := by simpa using t1 []
  obtain ⟨_, _, p3, _⟩ := readPalette_spec cp n 0 arr pre pal [] (by omega) hpre
  intro i p hp
  have := p3 i p hp
  simpa [palGet] using this

/-- **TRLE, one tile** (all sub-encodings): for every tile the specification decodes with the
"previous palette" `prev`, the client — whose state agrees with `prev` — accepts, consumes the same
bytes, paints exactly the decoded pixels, and its state agrees with the new palette (forgotten
after a solid tile) -/
theorem trleTile_refines (cp : CPix) (rawBuf : Nat) (fb : FB) (st : TrleSt) (x y tw th : Nat)
    (prev : List Pixel) (bs : Bytes) (px prev' : List Pixel) (rest : Bytes)
    (hrel : TrleRel prev st) (hW : x + tw ≤ fb.w) (hH : y + th ≤ fb.h)
    (hpalsz : st.pal.size = trlePaletteCells)
    (hbud : tw * th / 255 + cp.size + 2 ≤ rawBuf)
    (hsp : decodeTRLETile cp tw th prev bs = some ((px, prev'), rest)) :
    ∃ st', trleTile cp rawBuf fb st x y tw th bs = some ((blit fb x y tw th px, st'), rest) ∧
      TrleRel (trleStrictAfter (bs.headD 0).toNat prev') st' ∧ st'.pal.size = trlePaletteCells := by
  cases bs with
  | nil => simp [decodeTRLETile] at hsp
  | cons m bs =>
    simp only [decodeTRLETile] at hsp
    simp only [trleTile, List.headD_cons]
    have hm256 : m.toNat < 256 := m.toNat_lt
    have hb1 : tw * th / 255 ≤ rawBuf - 1 - cp.size := by omega
    have hb2 : tw * th / 255 ≤ rawBuf - 1 - 1 := by omega
    by_cases h127 : m.toNat = 127
    · -- reuse the palette, packed
      simp only [h127, if_true] at hsp
      have c0 : ¬ ((127 : Nat) = 0) := by decide
      have c1 : ¬ ((127 : Nat) = 1) := by decide
      simp only [h127, c0, c1, if_false, if_true]
      by_cases hlen : 2 ≤ prev.length ∧ prev.length ≤ 16
      · simp only [hlen, and_self, if_true] at hsp
        cases hd : decodePackedRows (packedBits prev.length) tw prev th bs with
        | none => simp [hd] at hsp
        | some q =>
          obtain ⟨p, r⟩ := q
          simp only [hd, Option.map_some, Option.some.injEq, Prod.mk.injEq] at hsp
          obtain ⟨⟨e1, e2⟩, e3⟩ := hsp
          subst e1 e2 e3
          rcases hrel with hnil | ⟨h2, hag, hform⟩
          · rw [hnil] at hlen; simp at hlen
          · have hbc := packedBits_cases prev.length
            have hsa : trleStrictAfter 127 prev = prev := by simp [trleStrictAfter]
            rcases hform with ⟨hlt, h16, hbpp⟩ | ⟨hlt, _⟩
            · have a1 : ¬ (st.lastType = 0 ∨ st.lastType = 128) := by omega
              have a2 : ¬ (st.lastType = 1) := by omega
              have a3 : ¬ (st.lastType ≥ 130) := by omega
              have a4 : st.lastType ≤ 16 := by omega
              simp only [a1, a2, a3, if_false, a4, if_true]
              rw [trlePacked_refines _ hbc fb st x y tw th prev hbpp hag bs p r hd]
              exact ⟨st, rfl, by rw [hsa]; exact Or.inr ⟨h2, hag, Or.inl ⟨hlt, h16, hbpp⟩⟩, hpalsz⟩
            · have a1 : ¬ (st.lastType = 0 ∨ st.lastType = 128) := by omega
              have a2 : ¬ (st.lastType = 1) := by omega
              have a3 : st.lastType ≥ 130 := by omega
              have emod : st.lastType % 128 = prev.length := by omega
              have a4 : prev.length ≤ 16 := hlen.2
              simp only [a1, a2, a3, if_false, if_true, emod, a4]
              have hpb := packBits_eq hlen.1 hlen.2
              have := trlePacked_refines _ hbc fb ⟨prev.length, st.pal, packBits prev.length, st.color⟩ x y tw th prev
                hpb hag bs p r hd
              refine ⟨⟨prev.length, st.pal, packBits prev.length, st.color⟩, this, ?_, hpalsz⟩
              rw [hsa]
              exact Or.inr ⟨h2, hag, Or.inl ⟨rfl, a4, hpb⟩⟩
      · simp [hlen] at hsp
    · simp only [h127, if_false] at hsp ⊢
      by_cases h129 : m.toNat = 129
      · -- reuse the palette, RLE
        simp only [h129, if_true] at hsp
        have c0 : ¬ ((129 : Nat) = 0) := by decide
        have c1 : ¬ ((129 : Nat) = 1) := by decide
        have c2 : ¬ ((129 : Nat) = 128) := by decide
        simp only [h129, c0, c1, c2, if_false, if_true]
        by_cases hlen : prev.length ≥ 2
        · simp only [hlen, if_true] at hsp
          cases hd : decodePaletteRLE prev (tw * th) (tw * th) bs with
          | none => simp [hd] at hsp
          | some q =>
            obtain ⟨p, r⟩ := q
            simp only [hd, Option.map_some, Option.some.injEq, Prod.mk.injEq] at hsp
            obtain ⟨⟨e1, e2⟩, e3⟩ := hsp
            subst e1 e2 e3
            rcases hrel with hnil | ⟨h2, hag, hform⟩
            · rw [hnil] at hlen; simp at hlen
            · rw [trlePaletteRLE_refines prev st.pal hag (rawBuf - 1) _ _ _ _ _ hb2 hd]
              refine ⟨st, by simp [writeDirect_eq_blit], ?_, hpalsz⟩
              have hsa : trleStrictAfter 129 prev = prev := by simp [trleStrictAfter]
              rw [hsa]; exact Or.inr ⟨h2, hag, hform⟩
        · simp [hlen] at hsp
      · simp only [h129, if_false] at hsp ⊢
        by_cases hpk : 2 ≤ m.toNat ∧ m.toNat ≤ 16
        · -- new palette, packed
          simp only [hpk, and_self, if_true] at hsp
          have c0 : ¬ (m.toNat = 0) := by omega
          have c1 : ¬ (m.toNat = 1) := by omega
          have c2 : ¬ (m.toNat = 128) := by omega
          have c3 : m.toNat ≤ 16 := hpk.2
          simp only [c0, c1, c2, if_false, c3, if_true]
          cases hpal : readCPixels cp m.toNat bs with
          | none => simp [hpal] at hsp
          | some q =>
            obtain ⟨pal, bs1⟩ := q
            simp only [hpal] at hsp
            cases hd : decodePackedRows (packedBits m.toNat) tw pal th bs1 with
            | none => simp [hd] at hsp
            | some q2 =>
              obtain ⟨p, r⟩ := q2
              simp only [hd, Option.map_some, Option.some.injEq, Prod.mk.injEq] at hsp
              obtain ⟨⟨e1, e2⟩, e3⟩ := hsp
              subst e1 e2 e3
              obtain ⟨pb, htk, hag⟩ := trle_palette_read cp m.toNat st.pal
                (by rw [hpalsz]; simp [trlePaletteCells]; omega) bs pal bs1 hpal
              have hbc := packedBits_cases m.toNat
              have hplen : pal.length = m.toNat := readCPixels_length hpal
              have hbpp : (if m.toNat > 4 then 4 else if m.toNat > 2 then 2 else 1) = packedBits m.toNat := by
                unfold packedBits
                by_cases a : m.toNat ≤ 2
                · have : ¬ m.toNat > 4 := by omega
                  have : ¬ m.toNat > 2 := by omega
                  simp [*]
                · by_cases b : m.toNat ≤ 4
                  · have : ¬ m.toNat > 4 := by omega
                    have : m.toNat > 2 := by omega
                    simp [*]
                  · have : m.toNat > 4 := by omega
                    simp [*]
              simp only [htk]
              have hsz : (readPalette cp m.toNat 0 st.pal pb).1.size = trlePaletteCells := by
                obtain ⟨pre, l1, s1, t1⟩ := exact_readCPixels cp m.toNat bs pal bs1 hpal
                have e : pb = pre := by
                  have h2 : takeN (m.toNat * cp.size) bs = some (pre, bs1) := by
                    rw [s1, ← l1]; exact takeN_append_exact pre bs1
                  rw [h2] at htk; simp only [Option.some.injEq, Prod.mk.injEq] at htk; exact htk.1.symm
                have hpre : readCPixels cp m.toNat pre = some (pal, []) := by simpa using t1 []
                obtain ⟨_, p2, _, _⟩ := readPalette_spec cp m.toNat 0 st.pal pre pal []
                  (by rw [hpalsz]; simp [trlePaletteCells]; omega) hpre
                rw [e, p2, hpalsz]
              generalize hrp : readPalette cp m.toNat 0 st.pal pb = rp at hag hsz ⊢
              obtain ⟨arr', rem'⟩ := rp
              simp only at hag hsz ⊢
              rw [trlePacked_refines _ hbc fb _ x y tw th pal (by simp [hbpp]) hag bs1 p r hd]
              refine ⟨_, rfl, ?_, hsz⟩
              have hsa : trleStrictAfter m.toNat pal = pal := by simp [trleStrictAfter, c1]
              rw [hsa]
              exact Or.inr ⟨by omega, hag, Or.inl ⟨hplen.symm, by omega, by simp [hbpp, hplen]⟩⟩
        · simp only [hpk, if_false] at hsp
          by_cases h130 : m.toNat ≥ 130
          · -- new palette, RLE
            simp only [h130, if_true] at hsp
            have c0 : ¬ (m.toNat = 0) := by omega
            have c1 : ¬ (m.toNat = 1) := by omega
            have c2 : ¬ (m.toNat = 128) := by omega
            have c3 : ¬ (m.toNat ≤ 16) := by omega
            simp only [c0, c1, c2, c3, if_false, h130, if_true]
            cases hpal : readCPixels cp (m.toNat - 128) bs with
            | none => simp [hpal] at hsp
            | some q =>
              obtain ⟨pal, bs1⟩ := q
              simp only [hpal] at hsp
              cases hd : decodePaletteRLE pal (tw * th) (tw * th) bs1 with
              | none => simp [hd] at hsp
              | some q2 =>
                obtain ⟨p, r⟩ := q2
                simp only [hd, Option.map_some, Option.some.injEq, Prod.mk.injEq] at hsp
                obtain ⟨⟨e1, e2⟩, e3⟩ := hsp
                subst e1 e2 e3
                obtain ⟨pb, htk, hag⟩ := trle_palette_read cp (m.toNat - 128) st.pal
                  (by rw [hpalsz]; simp [trlePaletteCells]; omega) bs pal bs1 hpal
                have hplen : pal.length = m.toNat - 128 := readCPixels_length hpal
                have hsz : (readPalette cp (m.toNat - 128) 0 st.pal pb).1.size = trlePaletteCells := by
                  obtain ⟨pre, l1, s1, t1⟩ := exact_readCPixels cp (m.toNat - 128) bs pal bs1 hpal
                  have e : pb = pre := by
                    have h2 : takeN ((m.toNat - 128) * cp.size) bs = some (pre, bs1) := by
                      rw [s1, ← l1]; exact takeN_append_exact pre bs1
                    rw [h2] at htk; simp only [Option.some.injEq, Prod.mk.injEq] at htk; exact htk.1.symm
                  have hpre : readCPixels cp (m.toNat - 128) pre = some (pal, []) := by simpa using t1 []
                  obtain ⟨_, p2, _, _⟩ := readPalette_spec cp (m.toNat - 128) 0 st.pal pre pal []
                    (by rw [hpalsz]; simp [trlePaletteCells]; omega) hpre
                  rw [e, p2, hpalsz]
                simp only [htk]
                generalize hrp : readPalette cp (m.toNat - 128) 0 st.pal pb = rp at hag hsz ⊢
                obtain ⟨arr', rem'⟩ := rp
                simp only at hag hsz ⊢
                rw [trlePaletteRLE_refines pal arr' hag (rawBuf - 1) _ _ _ _ _ hb2 hd]
                refine ⟨⟨m.toNat, arr', st.bpp, st.color⟩, by simp [writeDirect_eq_blit], ?_, hsz⟩
                have hsa : trleStrictAfter m.toNat pal = pal := by simp [trleStrictAfter, c1]
                rw [hsa]
                exact Or.inr ⟨by omega, hag, Or.inr ⟨by simp [hplen]; omega, by omega⟩⟩
          · -- raw / solid / plain RLE through the ZRLE tile decoder
            simp only [h130, if_false] at hsp
            have em : UInt8.ofNat m.toNat = m := by simp
            rw [em] at hsp
            cases hz : decodeZRLETile cp tw th (m :: bs) with
            | none => simp [hz] at hsp
            | some q =>
              obtain ⟨p, r⟩ := q
              simp only [hz, Option.map_some, Option.some.injEq, Prod.mk.injEq] at hsp
              obtain ⟨⟨e1, e2⟩, e3⟩ := hsp
              subst e1 e2 e3
              simp only [decodeZRLETile] at hz
              by_cases h0 : m.toNat = 0
              · simp only [h0, if_true] at hz ⊢
                simp only [hz]
                refine ⟨st, by simp [writeDirect_eq_blit], ?_, hpalsz⟩
                have hsa : trleStrictAfter 0 prev = prev := by simp [trleStrictAfter]
                rw [hsa]; exact hrel
              · simp only [h0, if_false] at hz ⊢
                by_cases h1 : m.toNat = 1
                · simp only [h1, if_true] at hz ⊢
                  cases hp : readCPixel cp bs with
                  | none => simp [hp] at hz
                  | some qc =>
                    obtain ⟨c, r'⟩ := qc
                    simp only [hp, Option.map_some, Option.some.injEq, Prod.mk.injEq] at hz
                    obtain ⟨e1, e2⟩ := hz
                    subst e1 e2
                    refine ⟨⟨1, st.pal, st.bpp, c⟩, by simp [fillRectangle_eq_blit fb x y tw th c hW hH], ?_, hpalsz⟩
                    exact Or.inl (by simp [trleStrictAfter])
                · simp only [h1, if_false] at hz ⊢
                  have c16 : ¬ (m.toNat ≤ 16) := by omega
                  simp only [c16, if_false] at hz
                  by_cases h128 : m.toNat = 128
                  · simp only [h128, if_true] at hz ⊢
                    have c127 : ¬ ((128 : Nat) = 127) := by decide
                    rw [trlePlainRLE_refines cp (rawBuf - 1) _ _ _ _ _ hb1 hz]
                    refine ⟨st, by simp [writeDirect_eq_blit], ?_, hpalsz⟩
                    have hsa : trleStrictAfter 128 prev = prev := by simp [trleStrictAfter]
                    rw [hsa]; exact hrel
                  · simp only [h128, if_false] at hz
                    have : ¬ (m.toNat ≥ 130) := h130
                    simp [this] at hz

end VncModel.Client

namespace VncModel.Client
open VncModel.Enc.Spec
open VncModel.Gen.C07

/-! ### tile loop, lengths, assembly -/

theorem decodeTRLETile_length {cp : CPix} {tw th : Nat} {prev prev' : List Pixel} {bs r : Bytes} {px : List Pixel}
    (h : decodeTRLETile cp tw th prev bs = some ((px, prev'), r)) : px.length = tw * th := by
  cases bs with
  | nil => simp [decodeTRLETile] at h
  | cons m bs =>
    simp only [decodeTRLETile] at h
    split at h
    · split at h
      · cases hd : decodePackedRows (packedBits prev.length) tw prev th bs with
        | none => simp [hd] at h
        | some q =>
          obtain ⟨p, r'⟩ := q
          simp only [hd, Option.map_some, Option.some.injEq, Prod.mk.injEq] at h
          rw [← h.1.1]; exact decodePackedRows_length hd
      · simp at h
    · split at h
      · split at h
        · cases hd : decodePaletteRLE prev (tw * th) (tw * th) bs with
          | none => simp [hd] at h
          | some q =>
            obtain ⟨p, r'⟩ := q
            simp only [hd, Option.map_some, Option.some.injEq, Prod.mk.injEq] at h
            rw [← h.1.1]; exact decodePaletteRLE_length hd
        · simp at h
      · split at h
        · cases hpal : readCPixels cp m.toNat bs with
          | none => simp [hpal] at h
          | some q =>
            obtain ⟨pal, bs1⟩ := q
            simp only [hpal] at h
            cases hd : decodePackedRows (packedBits m.toNat) tw pal th bs1 with
            | none => simp [hd] at h
            | some q2 =>
              obtain ⟨p, r'⟩ := q2
              simp only [hd, Option.map_some, Option.some.injEq, Prod.mk.injEq] at h
              rw [← h.1.1]; exact decodePackedRows_length hd
        · split at h
          · cases hpal : readCPixels cp (m.toNat - 128) bs with
            | none => simp [hpal] at h
            | some q =>
              obtain ⟨pal, bs1⟩ := q
              simp only [hpal] at h
              cases hd : decodePaletteRLE pal (tw * th) (tw * th) bs1 with
              | none => simp [hd] at h
              | some q2 =>
                obtain ⟨p, r'⟩ := q2
                simp only [hd, Option.map_some, Option.some.injEq, Prod.mk.injEq] at h
                rw [← h.1.1]; exact decodePaletteRLE_length hd
          · have em : UInt8.ofNat m.toNat = m := by simp
            rw [em] at h
            cases hz : decodeZRLETile cp tw th (m :: bs) with
            | none => simp [hz] at h
            | some q =>
              obtain ⟨p, r'⟩ := q
              simp only [hz, Option.map_some, Option.some.injEq, Prod.mk.injEq] at h
              rw [← h.1.1]; exact decodeZRLETile_length hz

theorem strictTrleTiles_lengths (cp : CPix) :
    ∀ (ts : List TileRect) (prev : List Pixel) (bs : Bytes) (pxs : List (List Pixel)) (rest : Bytes),
      decodeTRLETilesStrict cp ts prev bs = some (pxs, rest) →
      pxs.length = ts.length ∧
      ∀ j (h1 : j < ts.length) (h2 : j < pxs.length), (pxs[j]).length = (ts[j]).w * (ts[j]).h := by
  intro ts
  induction ts with
  | nil =>
    intro prev bs pxs rest h
    simp only [decodeTRLETilesStrict, Option.some.injEq, Prod.mk.injEq] at h
    rw [← h.1]; simp
  | cons t ts ih =>
    intro prev bs pxs rest h
    simp only [decodeTRLETilesStrict] at h
    cases ht : decodeTRLETile cp t.w t.h prev bs with
    | none => simp [ht] at h
    | some q =>
      obtain ⟨⟨px, pal⟩, bs'⟩ := q
      simp only [ht] at h
      cases hr : decodeTRLETilesStrict cp ts (trleStrictAfter (bs.headD 0).toNat pal) bs' with
      | none => rw [hr] at h; simp at h
      | some q2 =>
        obtain ⟨restpx, r'⟩ := q2
        rw [hr] at h
        simp only [Option.map_some, Option.some.injEq, Prod.mk.injEq] at h
        obtain ⟨e1, e2⟩ := h
        subst e1 e2
        obtain ⟨l1, l2⟩ := ih _ _ _ _ hr
        refine ⟨by simp [l1], ?_⟩
        intro j h1 h2
        cases j with
        | zero => simpa using decodeTRLETile_length ht
        | succ j =>
          simp only [List.getElem_cons_succ]
          exact l2 j (by simpa using h1) (by simpa using h2)

theorem trleTiles_refines (cp : CPix) (rawBuf rx ry rw rh : Nat) (hraw : cp.size + 3 ≤ rawBuf) :
    ∀ (ts : List TileRect) (fb : FB) (prev : List Pixel) (st : TrleSt) (bs : Bytes)
      (pxs : List (List Pixel)) (rest : Bytes),
      (∀ t ∈ ts, t.x + t.w ≤ rw ∧ t.y + t.h ≤ rh ∧ t.w * t.h ≤ 256) → rx + rw ≤ fb.w → ry + rh ≤ fb.h →
      TrleRel prev st → st.pal.size = trlePaletteCells →
      decodeTRLETilesStrict cp ts prev bs = some (pxs, rest) →
      trleTiles cp rawBuf rx ry ts fb st bs = some (blitTiles fb rx ry ts pxs, rest) := by
  intro ts
  induction ts with
  | nil =>
    intro fb prev st bs pxs rest _ _ _ _ _ h
    simp only [decodeTRLETilesStrict, Option.some.injEq, Prod.mk.injEq] at h
    simp [trleTiles, blitTiles, ← h.1, ← h.2]
  | cons t ts ih =>
    intro fb prev st bs pxs rest hts hW hH hR hsz h
    simp only [decodeTRLETilesStrict] at h
    cases ht : decodeTRLETile cp t.w t.h prev bs with
    | none => simp [ht] at h
    | some q =>
      obtain ⟨⟨px, pal⟩, bs'⟩ := q
      simp only [ht] at h
      have hin := hts t (by simp)
      have hbud : t.w * t.h / 255 + cp.size + 2 ≤ rawBuf := by
        have : t.w * t.h / 255 ≤ 1 := by
          have := hin.2.2
          omega
        omega
      obtain ⟨st', e1, hR', hsz'⟩ := trleTile_refines cp rawBuf fb st (rx + t.x) (ry + t.y) t.w t.h prev bs px pal bs'
        hR (by omega) (by omega) hsz hbud ht
      cases hr : decodeTRLETilesStrict cp ts (trleStrictAfter (bs.headD 0).toNat pal) bs' with
      | none => rw [hr] at h; simp at h
      | some q2 =>
        obtain ⟨restpx, r'⟩ := q2
        rw [hr] at h
        simp only [Option.map_some, Option.some.injEq, Prod.mk.injEq] at h
        obtain ⟨e2, e3⟩ := h
        subst e2 e3
        have := ih (blit fb (rx + t.x) (ry + t.y) t.w t.h px) _ st' bs' restpx r'
          (fun t' ht' => hts t' (by simp [ht'])) (by rw [blit_w]; exact hW) (by rw [blit_h]; exact hH) hR' hsz' hr
        simp [trleTiles, e1, this, blitTiles]

theorem tileGrid_area_le {T : Nat} (g : Geometry) : ∀ t ∈ tileGrid T g, t.w * t.h ≤ T * T := by
  intro t ht
  simp only [tileGrid, List.mem_map, List.mem_range] at ht
  obtain ⟨k, _, rfl⟩ := ht
  exact Nat.mul_le_mul (Nat.min_le_left _ _) (Nat.min_le_left _ _)

/-- **TRLE, whole rectangle**: on every stream the strict decoder accepts (on which
`Spec.decodeTRLE` yields the same pixels) `HandleTRLE` returns TRUE with the same rest and the
rectangle holds exactly the decoded pixels.  `hraw`: `raw_buffer_size` after the adjustment at the
top of `HandleTRLE` (`trleRawBuf`, at least `16·16·cpixel·2`). -/
theorem clientTRLE_refines_spec (cp : CPix) (rawBuf : Nat) (fb : FB) (rx ry rw rh : Nat) (bs : Bytes)
    (px : List Pixel) (rest : Bytes) (hraw : cp.size + 3 ≤ rawBuf)
    (hW : rx + rw ≤ fb.w) (hH : ry + rh ≤ fb.h)
    (hsp : decodeTRLEStrict ⟨rw, rh⟩ cp bs = some (px, rest)) :
    clientTRLE cp rawBuf fb rx ry rw rh bs = some (blit fb rx ry rw rh px, rest) ∧
    decodeTRLE ⟨rw, rh⟩ cp bs = some (px, rest) := by
  refine ⟨?_, strictTrle_implies_spec _ _ _ _ _ hsp⟩
  simp only [decodeTRLEStrict] at hsp
  cases ht : decodeTRLETilesStrict cp (tileGrid 16 ⟨rw, rh⟩) [] bs with
  | none => simp [ht] at hsp
  | some q =>
    obtain ⟨pxs, r'⟩ := q
    simp only [ht, Option.map_some, Option.some.injEq, Prod.mk.injEq] at hsp
    obtain ⟨e1, e2⟩ := hsp
    subst e1 e2
    obtain ⟨l1, l2⟩ := strictTrleTiles_lengths cp _ _ _ _ _ ht
    have hts : ∀ t ∈ tileGrid 16 ⟨rw, rh⟩, t.x + t.w ≤ rw ∧ t.y + t.h ≤ rh ∧ t.w * t.h ≤ 256 := by
      intro t htm
      have a := mem_tileGrid (T := 16) (by decide) htm
      have b := tileGrid_area_le (T := 16) ⟨rw, rh⟩ t htm
      exact ⟨a.1, a.2, b⟩
    have := trleTiles_refines cp rawBuf rx ry rw rh hraw _ fb [] {} bs pxs r' hts hW hH (Or.inl rfl)
      (by simp [trlePaletteCells]) ht
    simp only [clientTRLE, this]
    rw [blitTiles_eq_blit_assemble (by decide) ⟨rw, rh⟩ fb rx ry pxs hW l1 l2]

end VncModel.Client
