import VncModel.Client.RefineZrle
/-!
Every tile the specification decodes has exactly `w·h` pixels (needed to put the tiles together
with `Spec.assemble`).
-/
namespace VncModel.Client
open VncModel.Enc.Spec

theorem readCPixels_length {cp : CPix} : ∀ {k : Nat} {bs r : Bytes} {ps : List Pixel},
    readCPixels cp k bs = some (ps, r) → ps.length = k := by
  intro k
  induction k with
  | zero => intro bs r ps h; simp only [readCPixels, Option.some.injEq, Prod.mk.injEq] at h; simp [← h.1]
  | succ k ih =>
    intro bs r ps h
    simp only [readCPixels] at h
    cases hp : readCPixel cp bs with
    | none => simp [hp] at h
    | some q =>
      obtain ⟨p, b1⟩ := q
      simp only [hp] at h
      cases h1 : readCPixels cp k b1 with
      | none => simp [h1] at h
      | some q1 =>
        obtain ⟨ps1, r1⟩ := q1
        simp only [h1, Option.map_some, Option.some.injEq, Prod.mk.injEq] at h
        rw [← h.1]; simp [ih h1]

theorem lookupAll_length {pal : List Pixel} : ∀ {is : List Nat} {px : List Pixel},
    lookupAll pal is = some px → px.length = is.length := by
  intro is
  induction is with
  | nil => intro px h; simp only [lookupAll, Option.some.injEq] at h; simp [← h]
  | cons i is ih =>
    intro px h
    simp only [lookupAll] at h
    cases hp : pal[i]? with
    | none => simp [hp] at h
    | some p =>
      simp only [hp] at h
      cases hr : lookupAll pal is with
      | none => simp [hr] at h
      | some ps =>
        simp only [hr, Option.map_some, Option.some.injEq] at h
        rw [← h]; simp [ih hr]

theorem decodePackedRows_length {bits tw : Nat} {pal : List Pixel} : ∀ {th : Nat} {bs r : Bytes} {px : List Pixel},
    decodePackedRows bits tw pal th bs = some (px, r) → px.length = tw * th := by
  intro th
  induction th with
  | zero => intro bs r px h; simp only [decodePackedRows, Option.some.injEq, Prod.mk.injEq] at h; simp [← h.1]
  | succ th ih =>
    intro bs r px h
    simp only [decodePackedRows] at h
    cases ht : takeN ((tw * bits + 7) / 8) bs with
    | none => simp [ht] at h
    | some q =>
      obtain ⟨row, bs1⟩ := q
      simp only [ht] at h
      cases hl : lookupAll pal (unpackRow bits tw row) with
      | none => simp [hl] at h
      | some rowpx =>
        simp only [hl] at h
        cases hr : decodePackedRows bits tw pal th bs1 with
        | none => simp [hr] at h
        | some qr =>
          obtain ⟨ps, r'⟩ := qr
          simp only [hr, Option.map_some, Option.some.injEq, Prod.mk.injEq] at h
          rw [← h.1, List.length_append, ih hr, lookupAll_length hl]
          simp [unpackRow, Nat.mul_succ]; omega

theorem decodePlainRLE_length {cp : CPix} : ∀ {f rem : Nat} {bs r : Bytes} {px : List Pixel},
    decodePlainRLE cp f rem bs = some (px, r) → px.length = rem := by
  intro f
  induction f with
  | zero =>
    intro rem bs r px h
    cases rem with
    | zero => simp only [decodePlainRLE, Option.some.injEq, Prod.mk.injEq] at h; simp [← h.1]
    | succ rem => simp [decodePlainRLE] at h
  | succ f ih =>
    intro rem bs r px h
    cases rem with
    | zero => simp only [decodePlainRLE, Option.some.injEq, Prod.mk.injEq] at h; simp [← h.1]
    | succ rem =>
      simp only [decodePlainRLE] at h
      cases hp : readCPixel cp bs with
      | none => simp [hp] at h
      | some q =>
        obtain ⟨p, bs1⟩ := q
        simp only [hp] at h
        cases hl : readRunLen bs1 with
        | none => simp [hl] at h
        | some ql =>
          obtain ⟨len, bs2⟩ := ql
          simp only [hl] at h
          by_cases hgt : len > rem + 1
          · simp [hgt] at h
          · simp only [hgt, if_false] at h
            cases hr : decodePlainRLE cp f (rem + 1 - len) bs2 with
            | none => simp [hr] at h
            | some qr =>
              obtain ⟨ps, r'⟩ := qr
              simp only [hr, Option.map_some, Option.some.injEq, Prod.mk.injEq] at h
              rw [← h.1, List.length_append, List.length_replicate, ih hr]; omega

theorem decodePaletteRLE_length {pal : List Pixel} : ∀ {f rem : Nat} {bs r : Bytes} {px : List Pixel},
    decodePaletteRLE pal f rem bs = some (px, r) → px.length = rem := by
  intro f
  induction f with
  | zero =>
    intro rem bs r px h
    cases rem with
    | zero => simp only [decodePaletteRLE, Option.some.injEq, Prod.mk.injEq] at h; simp [← h.1]
    | succ rem => simp [decodePaletteRLE] at h
  | succ f ih =>
    intro rem bs r px h
    cases rem with
    | zero => simp only [decodePaletteRLE, Option.some.injEq, Prod.mk.injEq] at h; simp [← h.1]
    | succ rem =>
      cases bs with
      | nil => simp [decodePaletteRLE] at h
      | cons b bs =>
        simp only [decodePaletteRLE] at h
        by_cases hsmall : b.toNat < 128
        · simp only [hsmall, if_true] at h
          cases hpl : pal[b.toNat]? with
          | none => simp [hpl] at h
          | some p =>
            simp only [hpl] at h
            cases hr : decodePaletteRLE pal f rem bs with
            | none => simp [hr] at h
            | some qr =>
              obtain ⟨ps, r'⟩ := qr
              simp only [hr, Option.map_some, Option.some.injEq, Prod.mk.injEq] at h
              rw [← h.1]; simp [ih hr]
        · simp only [hsmall, if_false] at h
          cases hpl : pal[b.toNat - 128]? with
          | none => simp [hpl] at h
          | some p =>
            simp only [hpl] at h
            cases hl : readRunLen bs with
            | none => simp [hl] at h
            | some ql =>
              obtain ⟨len, bs2⟩ := ql
              simp only [hl] at h
              by_cases hgt : len > rem + 1
              · simp [hgt] at h
              · simp only [hgt, if_false] at h
                cases hr : decodePaletteRLE pal f (rem + 1 - len) bs2 with
                | none => simp [hr] at h
                | some qr =>
                  obtain ⟨ps, r'⟩ := qr
                  simp only [hr, Option.map_some, Option.some.injEq, Prod.mk.injEq] at h
                  rw [← h.1, List.length_append, List.length_replicate, ih hr]; omega

theorem decodeZRLETile_length {cp : CPix} {tw th : Nat} {bs r : Bytes} {px : List Pixel}
    (h : decodeZRLETile cp tw th bs = some (px, r)) : px.length = tw * th := by
  cases bs with
  | nil => simp [decodeZRLETile] at h
  | cons m bs =>
    simp only [decodeZRLETile] at h
    split at h
    · exact readCPixels_length h
    · split at h
      · cases hp : readCPixel cp bs with
        | none => simp [hp] at h
        | some q =>
          obtain ⟨p, r'⟩ := q
          simp only [hp, Option.map_some, Option.some.injEq, Prod.mk.injEq] at h
          rw [← h.1]; simp
      · split at h
        · cases hpal : readCPixels cp m.toNat bs with
          | none => simp [hpal] at h
          | some q =>
            obtain ⟨pal, bs1⟩ := q
            simp only [hpal] at h
            exact decodePackedRows_length h
        · split at h
          · exact decodePlainRLE_length h
          · split at h
            · cases hpal : readCPixels cp (m.toNat - 128) bs with
              | none => simp [hpal] at h
              | some q =>
                obtain ⟨pal, bs1⟩ := q
                simp only [hpal] at h
                exact decodePaletteRLE_length h
            · simp at h

theorem zrleTiles_lengths (cp : CPix) :
    ∀ (ts : List TileRect) (bs : Bytes) (pxs : List (List Pixel)) (rest : Bytes),
      decodeZRLETiles cp ts bs = some (pxs, rest) →
      pxs.length = ts.length ∧
      ∀ j (h1 : j < ts.length) (h2 : j < pxs.length), (pxs[j]).length = (ts[j]).w * (ts[j]).h := by
  intro ts
  induction ts with
  | nil =>
    intro bs pxs rest h
    simp only [decodeZRLETiles, Option.some.injEq, Prod.mk.injEq] at h
    rw [← h.1]; simp
  | cons t ts ih =>
    intro bs pxs rest h
    simp only [decodeZRLETiles] at h
    cases ht : decodeZRLETile cp t.w t.h bs with
    | none => simp [ht] at h
    | some q =>
      obtain ⟨px, bs'⟩ := q
      simp only [ht] at h
      cases hr : decodeZRLETiles cp ts bs' with
      | none => simp [hr] at h
      | some q2 =>
        obtain ⟨restpx, r'⟩ := q2
        simp only [hr, Option.map_some, Option.some.injEq, Prod.mk.injEq] at h
        obtain ⟨e1, e2⟩ := h
        subst e1 e2
        obtain ⟨l1, l2⟩ := ih _ _ _ hr
        refine ⟨by simp [l1], ?_⟩
        intro j h1 h2
        cases j with
        | zero => simpa using decodeZRLETile_length ht
        | succ j =>
          simp only [List.getElem_cons_succ]
          exact l2 j (by simpa using h1) (by simpa using h2)

end VncModel.Client
