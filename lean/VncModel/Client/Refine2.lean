import VncModel.Client.Refine
/-!
Refinement, continued: Raw (row batching through `client->buffer`), CoRRE (sub-rectangles read
into the buffer in one piece), exact-consumption ("prefix") lemmas for the readers.
-/
namespace VncModel.Client
open VncModel.Enc.Spec
open VncModel.Gen.C07

/-! ### readers consume an exact prefix -/

/-- `d` reads exactly `k` bytes and does not look at what follows -/
def Exact {α : Type} (d : Dec α) (k : Nat) : Prop :=
  ∀ bs a r, d bs = some (a, r) → ∃ pre, pre.length = k ∧ bs = pre ++ r ∧ ∀ t, d (pre ++ t) = some (a, t)

theorem exact_readPixel (n : Nat) : Exact (readPixel n) n := by
  induction n with
  | zero =>
    intro bs a r h
    simp only [readPixel, Option.some.injEq, Prod.mk.injEq] at h
    obtain ⟨h1, h2⟩ := h
    subst h1 h2
    exact ⟨[], rfl, rfl, fun t => by simp [readPixel]⟩
  | succ n ih =>
    intro bs a r h
    cases bs with
    | nil => simp [readPixel] at h
    | cons b bs =>
      simp only [readPixel] at h
      cases hr : readPixel n bs with
      | none => simp [hr] at h
      | some pr =>
        obtain ⟨p, r'⟩ := pr
        simp only [hr, Option.map_some, Option.some.injEq, Prod.mk.injEq] at h
        obtain ⟨h1, h2⟩ := h
        subst h1 h2
        obtain ⟨pre, hl, he, ht⟩ := ih bs p r' hr
        refine ⟨b :: pre, by simp [hl], by simp [he], fun t => ?_⟩
        simp [readPixel, ht t]

theorem exact_readGeom8 : Exact readGeom8 4 := by
  intro bs a r h
  match bs, h with
  | a0 :: b0 :: c0 :: d0 :: r', h =>
    simp only [readGeom8, Option.some.injEq, Prod.mk.injEq] at h
    obtain ⟨h1, h2⟩ := h
    subst h1 h2
    exact ⟨[a0, b0, c0, d0], rfl, rfl, fun t => by simp [readGeom8]⟩

/-- `readPixels bpp (a+b)` is `readPixels bpp a` followed by `readPixels bpp b` -/
theorem readPixels_add (bpp a b : Nat) (bs : Bytes) :
    readPixels bpp (a + b) bs =
      match readPixels bpp a bs with
      | none => none
      | some (p1, r1) => (readPixels bpp b r1).map fun (p2, r2) => (p1 ++ p2, r2) := by
  induction a generalizing bs with
  | zero =>
    simp only [Nat.zero_add, readPixels]
    cases readPixels bpp b bs with
    | none => rfl
    | some p => obtain ⟨p2, r2⟩ := p; simp
  | succ a ih =>
    rw [Nat.succ_add]
    simp only [readPixels]
    cases hp : readPixel bpp bs with
    | none => simp
    | some pp =>
      obtain ⟨p, bs1⟩ := pp
      simp only [ih bs1]
      cases h1 : readPixels bpp a bs1 with
      | none => simp
      | some q =>
        obtain ⟨p1, r1⟩ := q
        simp only [Option.map_some]
        cases readPixels bpp b r1 with
        | none => simp
        | some q2 => obtain ⟨p2, r2⟩ := q2; simp

theorem readPixels_length {bpp k : Nat} {bs : Bytes} {ps : List Pixel} {r : Bytes}
    (h : readPixels bpp k bs = some (ps, r)) : ps.length = k := by
  induction k generalizing bs ps r with
  | zero => simp only [readPixels, Option.some.injEq, Prod.mk.injEq] at h; simp [← h.1]
  | succ k ih =>
    simp only [readPixels] at h
    cases hp : readPixel bpp bs with
    | none => simp [hp] at h
    | some pp =>
      obtain ⟨p, bs1⟩ := pp
      simp only [hp] at h
      cases h1 : readPixels bpp k bs1 with
      | none => simp [h1] at h
      | some q =>
        obtain ⟨p1, r1⟩ := q
        simp only [h1, Option.map_some, Option.some.injEq, Prod.mk.injEq] at h
        rw [← h.1]; simp [ih h1]

/-! ### blit in two pieces -/

theorem blitRows_add (a : Array Pixel) (W x y w l k : Nat) (ps : List Pixel) :
    blitRows a W x y w (l + k) ps =
      blitRows (blitRows a W x y w l (ps.take (w * l))) W x (y + l) w k (ps.drop (w * l)) := by
  induction l generalizing a y ps with
  | zero => simp [blitRows]
  | succ l ih =>
    rw [Nat.succ_add]
    simp only [blitRows]
    rw [ih]
    have e1 : (List.take w ps) = List.take w (List.take (w * (l + 1)) ps) := by
      rw [List.take_take]; congr 1; rw [Nat.mul_succ]; omega
    have e2 : List.take (w * l) (List.drop w ps) = List.drop w (List.take (w * (l + 1)) ps) := by
      rw [List.drop_take]; congr 1; rw [Nat.mul_succ]; omega
    have e3 : List.drop (w * l) (List.drop w ps) = List.drop (w * (l + 1)) ps := by
      rw [List.drop_drop]; congr 1; rw [Nat.mul_succ]; omega
    rw [← e1, e2, e3]
    congr 1
    omega

theorem blit_blit (fb : FB) (x y w l k : Nat) (p1 p2 : List Pixel) (hl : p1.length = w * l) :
    blit (blit fb x y w l p1) x (y + l) w k p2 = blit fb x y w (l + k) (p1 ++ p2) := by
  simp only [blit]
  rw [blitRows_add]
  simp [hl]

theorem copyRectangle_eq_blit (fb : FB) (x y w h : Nat) (ps : List Pixel)
    (hW : x + w ≤ fb.w) (hH : y + h ≤ fb.h) : copyRectangle fb x y w h ps = blit fb x y w h ps := by
  simp [copyRectangle, checkRect, hW, hH, blit]

theorem blit_zero_rows (fb : FB) (x y w : Nat) (ps : List Pixel) : blit fb x y w 0 ps = fb := by
  simp [blit, blitRows]

/-! ## Raw -/

theorem rawLoop_refines (bpp x w ltr : Nat) (hltr : 1 ≤ ltr) :
    ∀ (fuel : Nat) (fb : FB) (y h : Nat) (bs : Bytes) (px : List Pixel) (rest : Bytes),
      h ≤ fuel → x + w ≤ fb.w → y + h ≤ fb.h →
      readPixels bpp (w * h) bs = some (px, rest) →
      rawLoop bpp x w ltr fuel fb y h bs = some (blit fb x y w h px, rest) := by
  intro fuel
  induction fuel with
  | zero =>
    intro fb y h bs px rest hf hW hH hsp
    have h0 : h = 0 := by omega
    subst h0
    simp only [Nat.mul_zero, readPixels, Option.some.injEq, Prod.mk.injEq] at hsp
    simp [rawLoop, ← hsp.1, ← hsp.2, blit_zero_rows]
  | succ fuel ih =>
    intro fb y h bs px rest hf hW hH hsp
    by_cases h0 : h = 0
    · subst h0
      simp only [Nat.mul_zero, readPixels, Option.some.injEq, Prod.mk.injEq] at hsp
      simp [rawLoop, ← hsp.1, ← hsp.2, blit_zero_rows]
    · simp only [rawLoop, h0, if_false]
      have hlines : 1 ≤ min ltr h := by omega
      have hle : min ltr h ≤ h := Nat.min_le_right _ _
      have hsplit : w * h = w * (min ltr h) + w * (h - min ltr h) := by
        rw [← Nat.mul_add]; congr 1; omega
      rw [hsplit, readPixels_add] at hsp
      cases h1 : readPixels bpp (w * min ltr h) bs with
      | none => simp [h1] at hsp
      | some q =>
        obtain ⟨p1, r1⟩ := q
        simp only [h1] at hsp
        cases h2 : readPixels bpp (w * (h - min ltr h)) r1 with
        | none => simp [h2] at hsp
        | some q2 =>
          obtain ⟨p2, r2⟩ := q2
          simp only [h2, Option.map_some, Option.some.injEq, Prod.mk.injEq] at hsp
          obtain ⟨e1, e2⟩ := hsp
          subst e1 e2
          simp only []
          rw [copyRectangle_eq_blit fb x y w (min ltr h) p1 hW (by omega)]
          have := ih (blit fb x y w (min ltr h) p1) (y + min ltr h) (h - min ltr h) r1 p2 r2
            (by omega) (by simpa [blit] using hW) (by simp only [blit]; omega) h2
          rw [this, blit_blit _ _ _ _ _ _ _ _ (readPixels_length h1)]
          congr 3
          omega

/-- **Raw**: the batching of rows through `client->buffer` (`RFB_BUFFER_SIZE / bytesPerLine`
lines per read) is invisible: the rectangle holds exactly the transmitted pixels -/
theorem clientRaw_refines (bpp : Nat) (fb : FB) (x y w h : Nat) (bs : Bytes) (px : List Pixel) (rest : Bytes)
    (hbpp : 1 ≤ bpp) (hfit : w * bpp ≤ rfbBufferSize)
    (hW : x + w ≤ fb.w) (hH : y + h ≤ fb.h)
    (hsp : decodeRaw ⟨w, h⟩ bpp bs = some (px, rest)) :
    clientRaw bpp fb x y w h bs = some (blit fb x y w h px, rest) := by
  simp only [decodeRaw] at hsp
  simp only [clientRaw]
  by_cases hw0 : w = 0
  · subst hw0
    simp only [Nat.zero_mul, readPixels, Option.some.injEq, Prod.mk.injEq] at hsp
    obtain ⟨e1, e2⟩ := hsp
    subst e1 e2
    have : blit fb x y 0 h [] = fb := by
      simp only [blit]
      have : ∀ (a : Array Pixel) (y h : Nat), blitRows a fb.w x y 0 h [] = a := by
        intro a y h
        induction h generalizing a y with
        | zero => rfl
        | succ h ih => simp [blitRows, blitRow, ih]
      rw [this]
    simp [this]
  · have hbpl : w * bpp ≠ 0 := by
      have : 1 ≤ w * bpp := Nat.mul_le_mul (by omega : 1 ≤ w) hbpp
      omega
    have hltr : 1 ≤ rfbBufferSize / (w * bpp) := by
      apply (Nat.le_div_iff_mul_le (by omega)).mpr
      simpa using hfit
    simp only [hbpl, if_false]
    have hne : rfbBufferSize / (w * bpp) ≠ 0 := by omega
    simp only [hne, if_false]
    exact rawLoop_refines bpp x w _ hltr h fb y h bs px rest (Nat.le_refl _) hW hH hsp

/-! ## CoRRE -/

theorem correSubs_window (bpp : Nat) {fb0 : FB} {rx ry w h : Nat} (hW : rx + w ≤ fb0.w) (hH : ry + h ≤ fb0.h) :
    ∀ (n : Nat) (fb : FB) (cv : Array Pixel) (bs : Bytes) (rs : List Subrect) (rest : Bytes),
      Window fb0 fb rx ry w h cv →
      readSubrects (readPixel bpp) readGeom8 w h n bs = some (rs, rest) →
      ∃ buf, buf.length = n * (4 + bpp) ∧ bs = buf ++ rest ∧
        Window fb0 (correSubs bpp rx ry n fb buf) rx ry w h
          (rs.foldl (fun cv r => fillRect cv w r.x r.y r.w r.h r.c) cv) := by
  intro n
  induction n with
  | zero =>
    intro fb cv bs rs rest hwin hsp
    simp only [readSubrects, Option.some.injEq, Prod.mk.injEq] at hsp
    obtain ⟨h1, h2⟩ := hsp
    subst h1 h2
    exact ⟨[], by simp, by simp, by simpa [correSubs] using hwin⟩
  | succ n ih =>
    intro fb cv bs rs rest hwin hsp
    simp only [readSubrects] at hsp
    cases hc : readPixel bpp bs with
    | none => simp [hc] at hsp
    | some pc =>
      obtain ⟨c, bs1⟩ := pc
      simp only [hc] at hsp
      cases hg : readGeom8 bs1 with
      | none => simp [hg] at hsp
      | some pg =>
        obtain ⟨⟨x, y, sw, sh⟩, bs2⟩ := pg
        simp only [hg] at hsp
        by_cases hin : x + sw ≤ w ∧ y + sh ≤ h
        · simp only [hin, and_self, if_true] at hsp
          cases hr : readSubrects (readPixel bpp) readGeom8 w h n bs2 with
          | none => simp [hr] at hsp
          | some pr =>
            obtain ⟨rs', rest'⟩ := pr
            simp only [hr, Option.map_some, Option.some.injEq, Prod.mk.injEq] at hsp
            obtain ⟨h1, h2⟩ := hsp
            subst h1 h2
            have hwin' := window_fill hwin hW hH x y sw sh c hin.1 hin.2
            obtain ⟨buf, hbl, hbe, hw'⟩ := ih _ _ _ _ _ hwin' hr
            obtain ⟨pre1, hl1, he1, ht1⟩ := exact_readPixel bpp bs c bs1 hc
            obtain ⟨pre2, hl2, he2, ht2⟩ := exact_readGeom8 bs1 _ bs2 hg
            refine ⟨pre1 ++ pre2 ++ buf, ?_, ?_, ?_⟩
            · simp only [List.length_append, hl1, hl2, hbl, Nat.succ_mul]; omega
            · rw [he1, he2, hbe]; simp
            · have e1 : readPixel bpp (pre1 ++ pre2 ++ buf) = some (c, pre2 ++ buf) := by
                rw [List.append_assoc]; exact ht1 _
              have e2 : readGeom8 (pre2 ++ buf) = some ((x, y, sw, sh), buf) := ht2 _
              simp only [correSubs, e1, e2]
              simpa using hw'
        · simp [hin] at hsp

theorem takeN_append_exact (xs r : Bytes) : takeN xs.length (xs ++ r) = some (xs, r) := by
  induction xs with
  | nil => simp [takeN]
  | cons x xs ih => simp [takeN, ih]

/-- **CoRRE**: as RRE; the sub-rectangles are first read into `client->buffer` (guard
`nSubrects <= RFB_BUFFER_SIZE/(4+bytespp)`, hypothesis `hguard`) and then walked -/
theorem clientCoRRE_refines (bpp : Nat) (fb : FB) (rx ry rw rh : Nat) (bs : Bytes)
    (px : List Pixel) (rest : Bytes)
    (hW : rx + rw ≤ fb.w) (hH : ry + rh ≤ fb.h)
    (hsp : decodeCoRRE ⟨rw, rh⟩ bpp bs = some (px, rest))
    (hguard : ∀ n r, readU32 bs = some (n, r) → correGuard bpp n = true) :
    clientCoRRE bpp fb rx ry rw rh bs = some (blit fb rx ry rw rh px, rest) := by
  simp only [decodeCoRRE, decodeRREWith] at hsp
  cases hn : readU32 bs with
  | none => simp [hn] at hsp
  | some pn =>
    obtain ⟨n, bs1⟩ := pn
    simp only [hn] at hsp
    have hg := hguard n bs1 hn
    cases hb : readPixel bpp bs1 with
    | none => simp [hb] at hsp
    | some pb =>
      obtain ⟨bg, bs2⟩ := pb
      simp only [hb] at hsp
      cases hr : readSubrects (readPixel bpp) readGeom8 rw rh n bs2 with
      | none => simp [hr] at hsp
      | some pr =>
        obtain ⟨rs, rest'⟩ := pr
        simp only [hr, Option.map_some, Option.some.injEq, Prod.mk.injEq] at hsp
        obtain ⟨h1, h2⟩ := hsp
        subst h1 h2
        obtain ⟨buf, hbl, hbe, hw'⟩ := correSubs_window bpp hW hH n _ _ _ _ _ (window_init fb rx ry rw rh bg hW hH) hr
        have hb2 := window_blit hw' hW
        have ht : takeN (n * (4 + bpp)) bs2 = some (buf, rest') := by
          rw [hbe, ← hbl]; exact takeN_append_exact buf rest'
        simp only [clientCoRRE, hn, hb, hg, if_true, ht, paintRects]
        rw [hb2]

end VncModel.Client
