import VncModel.Client.Assemble
/-!
Hextile, whole rectangle against `Spec.decodeHextile`: tile payload lengths, then
`clientHextile = blit (assemble …)`.
-/
namespace VncModel.Client
open VncModel.Enc.Spec

theorem size_paint_fold (w : Nat) (rs : List Subrect) (cv : Array Pixel) :
    (rs.foldl (fun cv r => fillRect cv w r.x r.y r.w r.h r.c) cv).size = cv.size := by
  induction rs generalizing cv with
  | nil => rfl
  | cons r rs ih => simp [ih, size_fillRect]

theorem paintRects_length (W H : Nat) (bg : Pixel) (rs : List Subrect) :
    (paintRects W H bg rs).toList.length = W * H := by
  simp [paintRects, size_paint_fold]

theorem decodeHextileTile_length {bpp tw th : Nat} {st st' : HexState} {bs rest : Bytes} {px : List Pixel}
    (h : decodeHextileTile bpp tw th st bs = some ((px, st'), rest)) : px.length = tw * th := by
  cases bs with
  | nil => simp [decodeHextileTile] at h
  | cons m bs =>
    simp only [decodeHextileTile] at h
    by_cases hraw : m.toNat % 2 = 1
    · simp only [hraw, if_true] at h
      cases hp : readPixels bpp (tw * th) bs with
      | none => simp [hp] at h
      | some q =>
        obtain ⟨ps, r'⟩ := q
        simp only [hp, Option.map_some, Option.some.injEq, Prod.mk.injEq] at h
        rw [← h.1.1]; exact readPixels_length hp
    · simp only [hraw, if_false] at h
      cases h1 : optPixel (m.toNat / 2 % 2 = 1) bpp st.bg bs with
      | none => simp [h1] at h
      | some q1 =>
        obtain ⟨bg?, bs1⟩ := q1
        simp only [h1] at h
        cases h2 : optPixel (m.toNat / 4 % 2 = 1) bpp st.fg bs1 with
        | none => simp [h2] at h
        | some q2 =>
          obtain ⟨fg?, bs2⟩ := q2
          simp only [h2] at h
          cases hbg : bg? with
          | none => simp [hbg] at h
          | some bg =>
            simp only [hbg] at h
            by_cases hany : m.toNat / 8 % 2 = 1
            · simp only [hany, if_true] at h
              cases hn : readU8 bs2 with
              | none => simp [hn] at h
              | some qn =>
                obtain ⟨n, bs3⟩ := qn
                simp only [hn] at h
                by_cases hcol : m.toNat / 16 % 2 = 1
                · simp only [hcol, if_true] at h
                  cases hs : readSubrects (readPixel bpp) readGeomHex tw th n bs3 with
                  | none => simp [hs] at h
                  | some qs =>
                    obtain ⟨rs, r'⟩ := qs
                    simp only [hs, Option.map_some, Option.some.injEq, Prod.mk.injEq] at h
                    rw [← h.1.1]; exact paintRects_length _ _ _ _
                · simp only [hcol, if_false] at h
                  cases hfg : fg? with
                  | none => simp [hfg] at h
                  | some fg =>
                    simp only [hfg] at h
                    cases hs : readSubrects (fun b => some (fg, b)) readGeomHex tw th n bs3 with
                    | none => simp [hs] at h
                    | some qs =>
                      obtain ⟨rs, r'⟩ := qs
                      simp only [hs, Option.map_some, Option.some.injEq, Prod.mk.injEq] at h
                      rw [← h.1.1]; exact paintRects_length _ _ _ _
            · simp only [hany, if_false, Option.some.injEq, Prod.mk.injEq] at h
              rw [← h.1.1]; simp

theorem strictTiles_lengths (bpp : Nat) :
    ∀ (ts : List TileRect) (st : HexState) (bs : Bytes) (pxs : List (List Pixel)) (rest : Bytes),
      decodeHextileTilesStrict bpp ts st bs = some (pxs, rest) →
      pxs.length = ts.length ∧
      ∀ j (h1 : j < ts.length) (h2 : j < pxs.length), (pxs[j]).length = (ts[j]).w * (ts[j]).h := by
  intro ts
  induction ts with
  | nil =>
    intro st bs pxs rest h
    simp only [decodeHextileTilesStrict, Option.some.injEq, Prod.mk.injEq] at h
    rw [← h.1]; simp
  | cons t ts ih =>
    intro st bs pxs rest h
    simp only [decodeHextileTilesStrict] at h
    cases ht : decodeHextileTile bpp t.w t.h st bs with
    | none => simp [ht] at h
    | some q =>
      obtain ⟨⟨px, st'⟩, bs'⟩ := q
      simp only [ht] at h
      cases hr : decodeHextileTilesStrict bpp ts (strictAfter (bs.headD 0).toNat st') bs' with
      | none => rw [hr] at h; simp at h
      | some q2 =>
        obtain ⟨restpx, r'⟩ := q2
        rw [hr] at h
        simp only [Option.map_some, Option.some.injEq, Prod.mk.injEq] at h
        obtain ⟨e1, e2⟩ := h
        subst e1 e2
        obtain ⟨l1, l2⟩ := ih _ _ _ _ hr
        refine ⟨by simp [l1], ?_⟩
        intro j h1 h2
        cases j with
        | zero => simpa using decodeHextileTile_length ht
        | succ j =>
          simp only [List.getElem_cons_succ]
          exact l2 j (by simpa using h1) (by simpa using h2)

/-- **Hextile** against the specification: on every stream the strict decoder accepts (hence
`Spec.decodeHextile` decodes to the same pixels, `strict_implies_spec`) the client ends with
exactly those pixels in the rectangle -/
theorem clientHextile_refines_spec (bpp : Nat) (fb : FB) (rx ry rw rh : Nat) (bs : Bytes)
    (px : List Pixel) (rest : Bytes)
    (hW : rx + rw ≤ fb.w) (hH : ry + rh ≤ fb.h)
    (hsp : decodeHextileStrict ⟨rw, rh⟩ bpp bs = some (px, rest)) :
    clientHextile bpp fb rx ry rw rh bs = some (blit fb rx ry rw rh px, rest) ∧
    decodeHextile ⟨rw, rh⟩ bpp bs = some (px, rest) := by
  refine ⟨?_, strict_implies_spec _ _ _ _ _ hsp⟩
  simp only [decodeHextileStrict] at hsp
  cases ht : decodeHextileTilesStrict bpp (tileGrid 16 ⟨rw, rh⟩) {} bs with
  | none => simp [ht] at hsp
  | some q =>
    obtain ⟨pxs, r'⟩ := q
    simp only [ht, Option.map_some, Option.some.injEq, Prod.mk.injEq] at hsp
    obtain ⟨e1, e2⟩ := hsp
    subst e1 e2
    obtain ⟨l1, l2⟩ := strictTiles_lengths bpp _ _ _ _ _ ht
    rw [clientHextile_refines bpp fb rx ry rw rh bs pxs r' hW hH ht]
    rw [blitTiles_eq_blit_assemble (by decide) ⟨rw, rh⟩ fb rx ry pxs hW l1 l2]

end VncModel.Client
