import VncModel.Client.Session
import VncModel.Client.RefineZrle
import VncModel.Client.Assemble
/-!
Lemmas on the request builders (SetPixelFormat / SetEncodings / FramebufferUpdateRequest), the
ZRLE tile loop, and small facts used by Props/C07.lean and Props/C08.lean.
-/
namespace VncModel.Client
open VncModel.Enc.Spec hiding encRaw encCopyRect encRRE encCoRRE encHextile encZlib encTight encUltra encTRLE encZRLE encZYWRLE encLastRect tightMinToCompress
open VncModel.Gen.C07

theorem toNat_ofNat_mod (n : Nat) : (UInt8.ofNat n).toNat = n % 256 := by
  simp [UInt8.toNat_ofNat']

theorem readU16_u16be {n : Nat} (h : n < 65536) (r : Bytes) : readU16 (u16be n ++ r) = some (n, r) := by
  simp [u16be, readU16, toNat_ofNat_mod]; omega

theorem readU32_u32be {n : Nat} (h : n < 4294967296) (r : Bytes) : readU32 (u32be n ++ r) = some (n, r) := by
  simp [u32be, readU32, toNat_ofNat_mod]; omega

theorem u32be_length (n : Nat) : (u32be n).length = 4 := rfl
theorem u16be_length (n : Nat) : (u16be n).length = 2 := rfl

theorem fbUpdateRequest_length (x y w h : Nat) (incr : Bool) :
    (fbUpdateRequest x y w h incr).length = szFramebufferUpdateRequest := by
  simp [fbUpdateRequest, u16be, szFramebufferUpdateRequest]

theorem be16_roundtrip {x : Nat} (h : x < 65536) : x / 256 % 256 * 256 + x % 256 = x := by
  have : x / 256 % 256 = x / 256 := Nat.mod_eq_of_lt (by omega)
  rw [this]; omega

/-- parsing a FramebufferUpdateRequest back (what the server's parser does) -/
def parseFBUR : Bytes → Option (Nat × Nat × Nat × Nat × Nat × Nat)
  | t :: i :: r =>
    match readGeom16 r with
    | some ((x, y, w, h), []) => some (t.toNat, i.toNat, x, y, w, h)
    | _ => none
  | _ => none

theorem parseFBUR_fbUpdateRequest {x y w h : Nat} (incr : Bool)
    (hx : x < 65536) (hy : y < 65536) (hw : w < 65536) (hh : h < 65536) :
    parseFBUR (fbUpdateRequest x y w h incr) =
      some (msgFramebufferUpdateRequest, if incr then 1 else 0, x, y, w, h) := by
  have e1 := be16_roundtrip hx
  have e2 := be16_roundtrip hy
  have e3 := be16_roundtrip hw
  have e4 := be16_roundtrip hh
  simp only [fbUpdateRequest, u16be, parseFBUR, List.cons_append, List.nil_append, readGeom16, toNat_ofNat_mod]
  cases incr <;> simp [e1, e2, e3, e4, msgFramebufferUpdateRequest]

theorem setPixelFormatMsg_length (f : PixFmt) : (setPixelFormatMsg f).length = szSetPixelFormat := by
  simp [setPixelFormatMsg, pixelFormatBytes, u16be, szSetPixelFormat]

theorem flatMap_u32be_length (es : List Nat) : (es.flatMap u32be).length = 4 * es.length := by
  induction es with
  | nil => rfl
  | cons e es ih => rw [List.flatMap_cons, List.length_append, ih, u32be_length, List.length_cons]; omega

theorem setEncodingsMsg_length (es : List Nat) :
    (setEncodingsMsg es).length = szSetEncodings + 4 * es.length := by
  simp only [setEncodingsMsg, List.length_append, List.length_cons, List.length_nil, u16be_length,
    flatMap_u32be_length, szSetEncodings]

theorem pushEnc_le (acc : List Nat) (e : Nat) (h : acc.length ≤ maxEncodings) :
    (pushEnc acc e).length ≤ maxEncodings := by
  unfold pushEnc
  split
  · next hlt => simp only [List.length_append, List.length_cons, List.length_nil]; omega
  · exact h

theorem ite_le_of {c : Prop} [Decidable c] {a b n : Nat} (ha : a ≤ n) (hb : b ≤ n) :
    (if c then a else b) ≤ n := by split <;> assumption

theorem encToken_le2 (t : String) : (encToken t).1.length ≤ 2 := by
  simp only [encToken, apply_ite Prod.fst, apply_ite List.length, List.length_cons, List.length_nil]
  repeat' apply ite_le_of
  all_goals omega

theorem encLoop_length : ∀ (ts : List String) (acc : List Nat) (fl : Bool × Bool × Bool),
    (encLoop ts acc fl).1.length ≤ acc.length + 2 * ts.length := by
  intro ts
  induction ts with
  | nil => intro acc fl; simp [encLoop]
  | cons t ts ih =>
    intro acc fl
    obtain ⟨c, q, l⟩ := fl
    simp only [encLoop]
    have h2 := encToken_le2 t
    generalize encToken t = et at h2
    obtain ⟨e, c', q', l'⟩ := et
    simp only
    split
    · have := ih (acc ++ e) (c || c', q || q', l || l')
      simp only [List.length_append, List.length_cons] at this ⊢
      simp only at h2
      omega
    · simp only [List.length_append, List.length_cons]
      simp only at h2
      omega

/-- with at most 31 tokens in `appData.encodingsString` the SetEncodings message holds at most
`MAX_ENCODINGS` entries (two-encoding tokens such as "ultra" are appended without a bound check
in the C loop, so a 63-entry list followed by "ultra" would write one entry too many) -/
theorem encodingList_le (encs : List String) (cursor newFB : Bool) (h : encs.length ≤ 31) :
    (encodingList encs cursor newFB).length ≤ maxEncodings := by
  unfold encodingList
  have h0 := encLoop_length encs [] (false, false, false)
  generalize encLoop encs [] (false, false, false) = r at h0
  obtain ⟨acc, c, q, l⟩ := r
  simp only [List.length_nil, Nat.zero_add] at h0
  have hacc : acc.length ≤ maxEncodings := by simp only [maxEncodings]; omega
  simp only
  have step : ∀ (b : Bool) (a : List Nat) (e : Nat), a.length ≤ maxEncodings →
      (if b then pushEnc a e else a).length ≤ maxEncodings := by
    intro b a e ha; cases b <;> simp [pushEnc_le, ha]
  have h1 := step c acc (encCompressLevel0 + 3) hacc
  have h2 := step q _ (encQualityLevel0 + 5) h1
  have h3 : (if cursor = true then pushEnc (pushEnc (pushEnc (if q = true then pushEnc (if c = true then pushEnc acc (encCompressLevel0 + 3) else acc) (encQualityLevel0 + 5) else if c = true then pushEnc acc (encCompressLevel0 + 3) else acc) encXCursor) encRichCursor) encPointerPos else (if q = true then pushEnc (if c = true then pushEnc acc (encCompressLevel0 + 3) else acc) (encQualityLevel0 + 5) else if c = true then pushEnc acc (encCompressLevel0 + 3) else acc)).length ≤ maxEncodings := by
    cases cursor
    · simpa using h2
    · simp only [if_true]
      exact pushEnc_le _ _ (pushEnc_le _ _ (pushEnc_le _ _ h2))
  refine pushEnc_le _ _ (pushEnc_le _ _ (pushEnc_le _ _ (pushEnc_le _ _ (pushEnc_le _ _ (step l _ _
    (pushEnc_le _ _ (step newFB _ _ (pushEnc_le _ _ h3))))))))

/-! ### ZRLE: the tile loop over the inflated data -/

theorem writeDirect_eq_blit (fb : FB) (x y w h : Nat) (ps : List Pixel) :
    writeDirect fb x y w h ps = blit fb x y w h ps := rfl

theorem zrleTiles_refines (cp : CPix) (rx ry : Nat) :
    ∀ (ts : List TileRect) (fb : FB) (buf : Bytes) (pxs : List (List Pixel)) (rest : Bytes),
      (∀ t ∈ ts, 1 ≤ t.w * t.h) →
      decodeZRLETiles cp ts buf = some (pxs, rest) →
      zrleTiles cp rx ry ts fb buf = (blitTiles fb rx ry ts pxs, true) := by
  intro ts
  induction ts with
  | nil =>
    intro fb buf pxs rest _ h
    simp only [decodeZRLETiles, Option.some.injEq, Prod.mk.injEq] at h
    simp [zrleTiles, blitTiles, ← h.1]
  | cons t ts ih =>
    intro fb buf pxs rest hne h
    simp only [decodeZRLETiles] at h
    cases ht : decodeZRLETile cp t.w t.h buf with
    | none => simp [ht] at h
    | some q =>
      obtain ⟨px, buf'⟩ := q
      simp only [ht] at h
      cases hr : decodeZRLETiles cp ts buf' with
      | none => simp [hr] at h
      | some q2 =>
        obtain ⟨restpx, r'⟩ := q2
        simp only [hr, Option.map_some, Option.some.injEq, Prod.mk.injEq] at h
        obtain ⟨e1, e2⟩ := h
        subst e1 e2
        have := zrleTile_refines cp t.w t.h buf px buf' (hne t (by simp)) ht
        simp only [zrleTiles, this, writeDirect_eq_blit, blitTiles]
        exact ih _ _ _ _ (fun t' ht' => hne t' (by simp [ht'])) hr

theorem tileGrid_nonempty {T : Nat} (hT : 0 < T) (g : Geometry) : ∀ t ∈ tileGrid T g, 1 ≤ t.w * t.h := by
  intro t ht
  simp only [tileGrid, List.mem_map, List.mem_range] at ht
  obtain ⟨k, hk, rfl⟩ := ht
  have htpr : 0 < (g.w + T - 1) / T := by
    rcases Nat.eq_zero_or_pos ((g.w + T - 1) / T) with e | e
    · rw [e] at hk; simp at hk
    · exact e
  have hkm : k % ((g.w + T - 1) / T) < (g.w + T - 1) / T := Nat.mod_lt _ htpr
  have hkd : k / ((g.w + T - 1) / T) < (g.h + T - 1) / T := by
    apply Nat.div_lt_of_lt_mul; rw [Nat.mul_comm]; exact hk
  have h1 := tile_origin_lt hT hkm
  have h2 := tile_origin_lt hT hkd
  simp only
  have a : 1 ≤ min T (g.w - k % ((g.w + T - 1) / T) * T) := by omega
  have b : 1 ≤ min T (g.h - k / ((g.w + T - 1) / T) * T) := by omega
  exact Nat.mul_le_mul a b

end VncModel.Client
