import VncModel.Client.Refine
/-!
`CopyRectangleFromRectangle` (vncviewer.c) is an overlapping copy done right: the sequential
execution of the assignments in the loop order chosen by the code equals the simultaneous copy.
-/
namespace VncModel.Client
open VncModel.Enc.Spec

/-! ### sequential = simultaneous for a safely ordered list of assignments -/

theorem size_runPairs (a : Array Pixel) (ps : List (Nat × Nat)) : (runPairs a ps).size = a.size := by
  induction ps generalizing a with
  | nil => rfl
  | cons p ps ih => obtain ⟨d, s⟩ := p; simp [runPairs, ih]

/-- destinations pairwise distinct -/
def DistinctDst (ps : List (Nat × Nat)) : Prop := ps.Pairwise fun p q => p.1 ≠ q.1
/-- no assignment reads a cell that an EARLIER assignment has written -/
def SafeOrder (ps : List (Nat × Nat)) : Prop := ps.Pairwise fun p q => q.2 ≠ p.1

theorem runPairs_spec (ps : List (Nat × Nat)) (hd : DistinctDst ps) (hs : SafeOrder ps) :
    ∀ (a : Array Pixel), (∀ p ∈ ps, p.1 < a.size) →
      (∀ d s, (d, s) ∈ ps → (runPairs a ps).getD d 0 = a.getD s 0) ∧
      (∀ i, (∀ p ∈ ps, p.1 ≠ i) → (runPairs a ps).getD i 0 = a.getD i 0) := by
  induction ps with
  | nil => intro a _; exact ⟨by simp, by simp [runPairs]⟩
  | cons p ps ih =>
    obtain ⟨d0, s0⟩ := p
    intro a hb
    unfold DistinctDst at hd
    unfold SafeOrder at hs
    rw [List.pairwise_cons] at hd hs
    have hb' : ∀ p ∈ ps, p.1 < (a.setIfInBounds d0 (a.getD s0 0)).size := by
      intro p hp; simp; exact hb p (by simp [hp])
    obtain ⟨ih1, ih2⟩ := ih hd.2 hs.2 (a.setIfInBounds d0 (a.getD s0 0)) hb'
    have hd0 : d0 < a.size := hb (d0, s0) (by simp)
    constructor
    · intro d s hmem
      simp only [List.mem_cons, Prod.mk.injEq] at hmem
      rcases hmem with ⟨h1, h2⟩ | hmem
      · subst h1 h2
        simp only [runPairs]
        rw [ih2 d (fun p hp => (hd.1 p hp).symm), getD_setIfInBounds]
        simp [hd0]
      · simp only [runPairs]
        rw [ih1 d s hmem, getD_setIfInBounds]
        have : s ≠ d0 := hs.1 (d, s) hmem
        have h3 : ¬ (d0 = s ∧ s < a.size) := fun hh => this hh.1.symm
        simp [h3]
    · intro i hi
      simp only [runPairs]
      rw [ih2 i (fun p hp => hi p (by simp [hp])), getD_setIfInBounds]
      have : d0 ≠ i := hi (d0, s0) (by simp)
      simp [this]

/-! ### the loop order of COPY_RECT_FROM_RECT is safe -/

/-- a linear index determines its row and column -/
theorem lin_inj {W A a B b : Nat} (ha : a < W) (hb : b < W) (h : A * W + a = B * W + b) : A = B ∧ a = b := by
  have h1 := div_mod_of_row ha (rfl : A * W + a = A * W + a)
  have h2 := div_mod_of_row hb (rfl : B * W + b = B * W + b)
  rw [h] at h1
  omega

theorem mem_copyRows {h sy dy r : Nat} : r ∈ copyRows h sy dy ↔ r < h := by
  unfold copyRows; split <;> simp

theorem mem_copyCols {w sx dx c : Nat} : c ∈ copyCols w sx dx ↔ c < w := by
  unfold copyCols; split <;> simp

theorem mem_copyPairs {W sx sy w h dx dy d s : Nat} :
    (d, s) ∈ copyPairs W sx sy w h dx dy ↔
      ∃ r c, r < h ∧ c < w ∧ d = (dy + r) * W + (dx + c) ∧ s = (sy + r) * W + (sx + c) := by
  simp only [copyPairs, List.mem_flatMap, List.mem_map, mem_copyRows, mem_copyCols, Prod.mk.injEq]
  constructor
  · rintro ⟨r, hr, c, hc, h1, h2⟩; exact ⟨r, c, hr, hc, h1.symm, h2.symm⟩
  · rintro ⟨r, c, hr, hc, h1, h2⟩; exact ⟨r, hr, c, hc, h1.symm, h2.symm⟩

/-- order of the rows: an earlier row `r` and a later row `r'` -/
theorem copyRows_order (h sy dy : Nat) :
    (copyRows h sy dy).Pairwise fun r r' => if dy < sy then r < r' else r' < r := by
  unfold copyRows
  split
  · exact List.pairwise_lt_range
  · rw [List.pairwise_reverse]; exact List.pairwise_lt_range

theorem copyCols_order (w sx dx : Nat) :
    (copyCols w sx dx).Pairwise fun c c' => if dx < sx then c < c' else c' < c := by
  unfold copyCols
  split
  · exact List.pairwise_lt_range
  · rw [List.pairwise_reverse]; exact List.pairwise_lt_range

theorem copyPairs_distinct (W sx sy w h dx dy : Nat) (hdx : dx + w ≤ W) :
    DistinctDst (copyPairs W sx sy w h dx dy) := by
  unfold DistinctDst copyPairs
  rw [List.pairwise_flatMap]
  constructor
  · intro r _
    rw [List.pairwise_map]
    refine (copyCols_order w sx dx).imp ?_
    intro c c' hcc
    simp only
    split at hcc <;> omega
  · refine ((copyRows_order h sy dy).and (List.pairwise_of_forall_mem_list (l := copyRows h sy dy)
      (r := fun _ _ => True) (fun _ _ _ _ => trivial))).imp ?_
    intro r r' ⟨hrr, _⟩ x hx y hy
    simp only [List.mem_map, mem_copyCols] at hx hy
    obtain ⟨c, hc, rfl⟩ := hx
    obtain ⟨c', hc', rfl⟩ := hy
    simp only
    intro heq
    have := lin_inj (W := W) (by omega) (by omega) heq
    split at hrr <;> omega

theorem copyPairs_safe (W sx sy w h dx dy : Nat) (hsx : sx + w ≤ W) (hdx : dx + w ≤ W) :
    SafeOrder (copyPairs W sx sy w h dx dy) := by
  unfold SafeOrder copyPairs
  rw [List.pairwise_flatMap]
  constructor
  · intro r _
    rw [List.pairwise_map]
    refine (copyCols_order w sx dx).imp_of_mem ?_
    intro c c' hc hc' hcc
    simp only [mem_copyCols] at hc hc'
    simp only
    intro heq
    have := lin_inj (W := W) (by omega) (by omega) heq
    split at hcc <;> omega
  · refine (copyRows_order h sy dy).imp ?_
    intro r r' hrr x hx y hy
    simp only [List.mem_map, mem_copyCols] at hx hy
    obtain ⟨c, hc, rfl⟩ := hx
    obtain ⟨c', hc', rfl⟩ := hy
    simp only
    intro heq
    have := lin_inj (W := W) (by omega) (by omega) heq
    split at hrr <;> omega

/-! ### the simultaneous copy -/

/-- source pixels of the rectangle, row-major, read from the ORIGINAL framebuffer -/
def srcPixels (fb : FB) (sx sy w h : Nat) : List Pixel :=
  (List.range (w * h)).map fun k => fb.px.getD ((sy + k / w) * fb.w + (sx + k % w)) 0

/-- what `memmove`-like semantics demand: all sources are read before any destination is written -/
def simCopy (fb : FB) (sx sy w h dx dy : Nat) : FB := blit fb dx dy w h (srcPixels fb sx sy w h)

/-- **copyrect_memmove**: for every position of source and destination (all 8 directions of
overlap and the degenerate ones) `CopyRectangleFromRectangle` produces the simultaneous copy -/
theorem copyFromRect_eq_simCopy (fb : FB) (hwf : fb.WF) (sx sy w h dx dy : Nat)
    (hs : checkRect fb sx sy w h = true) (hd : checkRect fb dx dy w h = true) :
    copyFromRect fb sx sy w h dx dy = simCopy fb sx sy w h dx dy := by
  simp only [checkRect, Bool.and_eq_true, decide_eq_true_eq] at hs hd
  have hsx := hs.1; have hsy := hs.2; have hdx := hd.1; have hdy := hd.2
  unfold FB.WF at hwf
  have hcs : checkRect fb sx sy w h = true := by simp [checkRect, hsx, hsy]
  have hcd : checkRect fb dx dy w h = true := by simp [checkRect, hdx, hdy]
  simp only [copyFromRect, hcs, hcd, Bool.and_self, if_true, simCopy, blit]
  congr 1
  have hbound : ∀ p ∈ copyPairs fb.w sx sy w h dx dy, p.1 < fb.px.size := by
    intro p hp
    obtain ⟨d, s⟩ := p
    rw [mem_copyPairs] at hp
    obtain ⟨r, c, hr, hc, rfl, _⟩ := hp
    simp only
    rw [hwf]
    have h1 : (dy + r + 1) * fb.w ≤ fb.h * fb.w := Nat.mul_le_mul_right _ (by omega)
    rw [Nat.succ_mul] at h1
    rw [Nat.mul_comm fb.w fb.h]
    omega
  obtain ⟨h1, h2⟩ := runPairs_spec _ (copyPairs_distinct fb.w sx sy w h dx dy hdx)
    (copyPairs_safe fb.w sx sy w h dx dy hsx hdx) fb.px hbound
  apply array_ext_getD
  · rw [size_runPairs, size_blitRows]
  · intro i
    have hlen : (srcPixels fb sx sy w h).length = w * h := by simp [srcPixels]
    rw [getD_blitRows _ _ _ _ _ _ _ _ _ hdx hlen]
    by_cases hin : InRect fb.w dx dy w h i ∧ i < fb.px.size
    · rw [if_pos hin]
      have hb := hin.1
      unfold InRect at hb
      have hWp : 0 < fb.w := by
        rcases Nat.eq_zero_or_pos fb.w with h0 | h0
        · rw [h0] at hb; simp at hb; omega
        · exact h0
      have hi : i = (dy + (i / fb.w - dy)) * fb.w + (dx + (i % fb.w - dx)) := by
        have := Nat.div_add_mod i fb.w
        have e1 : dy + (i / fb.w - dy) = i / fb.w := by omega
        have e2 : dx + (i % fb.w - dx) = i % fb.w := by omega
        rw [e1, e2, Nat.mul_comm]; exact this.symm
      have hmem : (i, (sy + (i / fb.w - dy)) * fb.w + (sx + (i % fb.w - dx))) ∈ copyPairs fb.w sx sy w h dx dy := by
        rw [mem_copyPairs]
        exact ⟨i / fb.w - dy, i % fb.w - dx, by omega, by omega, hi, rfl⟩
      rw [h1 _ _ hmem]
      have hl := loc_lt hin.1
      have hdm := loc_div_mod hin.1
      unfold loc at hl hdm
      have hw0 : 0 < w := by omega
      simp only [srcPixels, List.getD_eq_getElem?_getD]
      rw [List.getElem?_map, List.getElem?_range hl]
      simp only [Option.map_some, Option.getD_some]
      rw [hdm.1, hdm.2]
    · rw [if_neg hin]
      apply h2
      intro p hp
      obtain ⟨d, s⟩ := p
      rw [mem_copyPairs] at hp
      obtain ⟨r, c, hr, hc, rfl, _⟩ := hp
      simp only
      intro heq
      apply hin
      have hcw : dx + c < fb.w := by omega
      have hdmv := div_mod_of_row hcw heq.symm
      constructor
      · unfold InRect; omega
      · rw [← heq, hwf]
        have h1 : (dy + r + 1) * fb.w ≤ fb.h * fb.w := Nat.mul_le_mul_right _ (by omega)
        rw [Nat.succ_mul] at h1
        rw [Nat.mul_comm fb.w fb.h]
        omega

end VncModel.Client
