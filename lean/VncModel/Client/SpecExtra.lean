import VncModel.Enc.Spec
/-!
# Additions to the specification decoders used by C07 (this directory owns them)

* `decodeHextileTilesStrict`: `Spec.decodeHextileTiles` with the rule that a tile with coloured
  sub-rectangles leaves the foreground *unspecified* for the following tiles.  RFC 6143 is silent
  on what the "current foreground" is after such a tile; every decoder in the field (RealVNC,
  TigerVNC, LibVNCClient — one C variable for both uses) and every encoder (they invalidate their
  foreground after a coloured tile) behave as if it were undefined.  A stream is *valid* for C07
  if the strict decoder accepts it; `strict_implies_spec` shows that on such streams the strict
  decoder and `Spec.decodeHextile` agree.
-/
namespace VncModel.Client
open VncModel.Enc.Spec

/-- was the tile just decoded (sub-encoding byte `m`) one with coloured sub-rectangles? -/
def hexColouredTile (m : Nat) : Bool := m % 2 = 0 && m / 8 % 2 = 1 && m / 16 % 2 = 1

/-- forget the foreground after a tile with coloured sub-rectangles -/
def strictAfter (m : Nat) (st : HexState) : HexState :=
  if hexColouredTile m then { st with fg := none } else st

def decodeHextileTilesStrict (bpp : Nat) : List TileRect → HexState → Dec (List (List Pixel))
  | [], _, bs => some ([], bs)
  | t :: ts, st, bs =>
    match decodeHextileTile bpp t.w t.h st bs with
    | none => none
    | some ((px, st'), bs') =>
      (decodeHextileTilesStrict bpp ts (strictAfter (bs.headD 0).toNat st') bs').map
        fun (rest, r) => (px :: rest, r)

def decodeHextileStrict (g : Geometry) (bpp : Nat) : Dec (List Pixel) := fun bs =>
  (decodeHextileTilesStrict bpp (tileGrid 16 g) {} bs).map fun (tiles, r) => (assemble 16 g tiles, r)

/-- information order on hextile states: `a` knows at most what `b` knows -/
def HexLe (a b : HexState) : Prop :=
  (∀ p, a.bg = some p → b.bg = some p) ∧ (∀ p, a.fg = some p → b.fg = some p)

theorem hexLe_refl (a : HexState) : HexLe a a := ⟨fun _ h => h, fun _ h => h⟩

theorem hexLe_strictAfter (m : Nat) {a b : HexState} (h : HexLe a b) : HexLe (strictAfter m a) b := by
  unfold strictAfter
  split
  · exact ⟨h.1, fun p hp => by simp at hp⟩
  · exact h

theorem optPixel_mono {present : Bool} {bpp : Nat} {a b : Option Pixel} {bs : Bytes} {v : Option Pixel} {r : Bytes}
    (hab : ∀ p, a = some p → b = some p)
    (h : optPixel present bpp a bs = some (v, r)) :
    ∃ v', optPixel present bpp b bs = some (v', r) ∧ (∀ p, v = some p → v' = some p) := by
  unfold optPixel at h ⊢
  cases present with
  | true => exact ⟨v, by simpa using h, fun _ hp => hp⟩
  | false =>
    simp only [Bool.false_eq_true, if_false, Option.some.injEq, Prod.mk.injEq] at h ⊢
    obtain ⟨h1, h2⟩ := h
    subst h1 h2
    exact ⟨b, ⟨rfl, rfl⟩, hab⟩

/-- a tile that decodes with less knowledge decodes identically with more knowledge -/
theorem decodeHextileTile_mono (bpp tw th : Nat) {a b : HexState} (hab : HexLe a b) (bs : Bytes)
    (px : List Pixel) (a' : HexState) (r : Bytes)
    (h : decodeHextileTile bpp tw th a bs = some ((px, a'), r)) :
    ∃ b', decodeHextileTile bpp tw th b bs = some ((px, b'), r) ∧ HexLe a' b' := by
  cases bs with
  | nil => simp [decodeHextileTile] at h
  | cons m bs =>
    simp only [decodeHextileTile] at h ⊢
    by_cases hraw : m.toNat % 2 = 1
    · simp only [hraw, if_true] at h ⊢
      cases hp : readPixels bpp (tw * th) bs with
      | none => simp [hp] at h
      | some q =>
        obtain ⟨ps, r'⟩ := q
        simp only [hp, Option.map_some, Option.some.injEq, Prod.mk.injEq] at h ⊢
        obtain ⟨⟨h1, h2⟩, h3⟩ := h
        subst h1 h2 h3
        exact ⟨b, ⟨⟨rfl, rfl⟩, rfl⟩, hab⟩
    · simp only [hraw, if_false] at h ⊢
      cases h1 : optPixel (m.toNat / 2 % 2 = 1) bpp a.bg bs with
      | none => simp [h1] at h
      | some q1 =>
        obtain ⟨bg?, bs1⟩ := q1
        obtain ⟨bg?', e1, m1⟩ := optPixel_mono hab.1 h1
        simp only [h1, e1] at h ⊢
        cases h2 : optPixel (m.toNat / 4 % 2 = 1) bpp a.fg bs1 with
        | none => simp [h2] at h
        | some q2 =>
          obtain ⟨fg?, bs2⟩ := q2
          obtain ⟨fg?', e2, m2⟩ := optPixel_mono hab.2 h2
          simp only [h2, e2] at h ⊢
          cases hbg : bg? with
          | none => simp [hbg] at h
          | some bg =>
            have hbg' : bg?' = some bg := m1 bg hbg
            simp only [hbg, hbg'] at h ⊢
            have hle : HexLe ⟨some bg, fg?⟩ ⟨some bg, fg?'⟩ := ⟨fun _ hp => hp, m2⟩
            by_cases hany : m.toNat / 8 % 2 = 1
            · simp only [hany, if_true] at h ⊢
              cases hn : readU8 bs2 with
              | none => simp [hn] at h
              | some qn =>
                obtain ⟨n, bs3⟩ := qn
                simp only [hn] at h ⊢
                by_cases hcol : m.toNat / 16 % 2 = 1
                · simp only [hcol, if_true] at h ⊢
                  cases hs : readSubrects (readPixel bpp) readGeomHex tw th n bs3 with
                  | none => simp [hs] at h
                  | some qs =>
                    obtain ⟨rs, r'⟩ := qs
                    simp only [hs, Option.map_some, Option.some.injEq, Prod.mk.injEq] at h ⊢
                    obtain ⟨⟨e3, e4⟩, e5⟩ := h
                    subst e3 e4 e5
                    exact ⟨_, ⟨⟨rfl, rfl⟩, rfl⟩, hle⟩
                · simp only [hcol, if_false] at h ⊢
                  cases hfg : fg? with
                  | none => simp [hfg] at h
                  | some fg =>
                    have hfg' : fg?' = some fg := m2 fg hfg
                    simp only [hfg, hfg'] at h ⊢
                    cases hs : readSubrects (fun b => some (fg, b)) readGeomHex tw th n bs3 with
                    | none => simp [hs] at h
                    | some qs =>
                      obtain ⟨rs, r'⟩ := qs
                      simp only [hs, Option.map_some, Option.some.injEq, Prod.mk.injEq] at h ⊢
                      obtain ⟨⟨e3, e4⟩, e5⟩ := h
                      subst e3 e4 e5
                      refine ⟨_, ⟨⟨rfl, rfl⟩, rfl⟩, ?_⟩
                      constructor <;> intro p hp <;> simp_all
            · simp only [hany, if_false, Option.some.injEq, Prod.mk.injEq] at h ⊢
              obtain ⟨⟨e3, e4⟩, e5⟩ := h
              subst e3 e4 e5
              exact ⟨_, ⟨⟨rfl, rfl⟩, rfl⟩, hle⟩

/-- on streams the strict decoder accepts, `Spec.decodeHextileTiles` gives the same tiles -/
theorem strictTiles_implies_spec (bpp : Nat) :
    ∀ (ts : List TileRect) (a b : HexState) (bs : Bytes) (tiles : List (List Pixel)) (r : Bytes),
      HexLe a b → decodeHextileTilesStrict bpp ts a bs = some (tiles, r) →
      decodeHextileTiles bpp ts b bs = some (tiles, r) := by
  intro ts
  induction ts with
  | nil => intro a b bs tiles r _ h; simpa [decodeHextileTilesStrict, decodeHextileTiles] using h
  | cons t ts ih =>
    intro a b bs tiles r hab h
    simp only [decodeHextileTilesStrict] at h
    cases ht : decodeHextileTile bpp t.w t.h a bs with
    | none => simp [ht] at h
    | some q =>
      obtain ⟨⟨px, a'⟩, bs'⟩ := q
      simp only [ht] at h
      obtain ⟨b', e1, hle⟩ := decodeHextileTile_mono bpp t.w t.h hab bs px a' bs' ht
      cases hr : decodeHextileTilesStrict bpp ts (strictAfter (bs.headD 0).toNat a') bs' with
      | none => rw [hr] at h; simp at h
      | some q2 =>
        obtain ⟨rest, r'⟩ := q2
        rw [hr] at h
        simp only [Option.map_some, Option.some.injEq, Prod.mk.injEq] at h
        obtain ⟨e2, e3⟩ := h
        subst e2 e3
        have := ih _ b' bs' rest r' (hexLe_strictAfter _ hle) hr
        simp [decodeHextileTiles, e1, this]

theorem strict_implies_spec (g : Geometry) (bpp : Nat) (bs : Bytes) (px : List Pixel) (r : Bytes)
    (h : decodeHextileStrict g bpp bs = some (px, r)) : decodeHextile g bpp bs = some (px, r) := by
  simp only [decodeHextileStrict] at h
  cases ht : decodeHextileTilesStrict bpp (tileGrid 16 g) {} bs with
  | none => simp [ht] at h
  | some q =>
    obtain ⟨tiles, r'⟩ := q
    simp only [ht, Option.map_some, Option.some.injEq, Prod.mk.injEq] at h
    obtain ⟨e1, e2⟩ := h
    subst e1 e2
    have := strictTiles_implies_spec bpp _ {} {} bs tiles r' (hexLe_refl _) ht
    simp [decodeHextile, this]

/-! ## TRLE: "palette of the previous tile"

RFC 6143 lets sub-encodings 127/129 reuse "the palette of the previous tile".  `Spec.decodeTRLETile`
keeps the palette of the last *palettised* tile; LibVNCClient (and the TRLE encoders in the field)
treat a solid tile as ending that palette (`last_type = 1`).  The strict decoder forgets the palette
after a solid tile; on the streams it accepts, `Spec.decodeTRLE` gives the same pixels. -/

def trleStrictAfter (m : Nat) (prev : List Pixel) : List Pixel := if m = 1 then [] else prev

def decodeTRLETilesStrict (cp : CPix) : List TileRect → List Pixel → Dec (List (List Pixel))
  | [], _, bs => some ([], bs)
  | t :: ts, prev, bs =>
    match decodeTRLETile cp t.w t.h prev bs with
    | none => none
    | some ((px, pal), bs') =>
      (decodeTRLETilesStrict cp ts (trleStrictAfter (bs.headD 0).toNat pal) bs').map fun (rest, r) => (px :: rest, r)

def decodeTRLEStrict (g : Geometry) (cp : CPix) : Dec (List Pixel) := fun bs =>
  (decodeTRLETilesStrict cp (tileGrid 16 g) [] bs).map fun (tiles, r) => (assemble 16 g tiles, r)

/-- the strict decoder knows nothing, or exactly what the specification knows -/
def TrleLe (a b : List Pixel) : Prop := a = [] ∨ a = b

theorem decodeTRLETile_mono (cp : CPix) (tw th : Nat) {a b : List Pixel} (hab : TrleLe a b) (bs : Bytes)
    (px a' : List Pixel) (r : Bytes) (h : decodeTRLETile cp tw th a bs = some ((px, a'), r)) :
    ∃ b', decodeTRLETile cp tw th b bs = some ((px, b'), r) ∧ TrleLe a' b' := by
  rcases hab with rfl | rfl
  · cases bs with
    | nil => simp [decodeTRLETile] at h
    | cons m bs =>
      simp only [decodeTRLETile] at h ⊢
      by_cases h127 : m.toNat = 127
      · simp [h127] at h
      · simp only [h127, if_false] at h ⊢
        by_cases h129 : m.toNat = 129
        · simp [h129] at h
        · simp only [h129, if_false] at h ⊢
          by_cases hp : 2 ≤ m.toNat ∧ m.toNat ≤ 16
          · simp only [hp, and_self, if_true] at h ⊢
            exact ⟨a', h, Or.inr rfl⟩
          · simp only [hp, if_false] at h ⊢
            by_cases h130 : m.toNat ≥ 130
            · simp only [h130, if_true] at h ⊢
              exact ⟨a', h, Or.inr rfl⟩
            · simp only [h130, if_false] at h ⊢
              have em : UInt8.ofNat m.toNat = m := by simp
              rw [em] at h ⊢
              cases hz : decodeZRLETile cp tw th (m :: bs) with
              | none => simp [hz] at h
              | some q =>
                obtain ⟨p, r'⟩ := q
                simp only [hz, Option.map_some, Option.some.injEq, Prod.mk.injEq] at h ⊢
                obtain ⟨⟨e1, e2⟩, e3⟩ := h
                subst e1 e2 e3
                exact ⟨b, ⟨⟨rfl, rfl⟩, rfl⟩, Or.inl rfl⟩
  · exact ⟨a', h, Or.inr rfl⟩

theorem trleLe_strictAfter (m : Nat) {a b : List Pixel} (h : TrleLe a b) : TrleLe (trleStrictAfter m a) b := by
  unfold trleStrictAfter
  split
  · exact Or.inl rfl
  · exact h

theorem strictTrleTiles_implies_spec (cp : CPix) :
    ∀ (ts : List TileRect) (a b : List Pixel) (bs : Bytes) (tiles : List (List Pixel)) (r : Bytes),
      TrleLe a b → decodeTRLETilesStrict cp ts a bs = some (tiles, r) →
      decodeTRLETiles cp ts b bs = some (tiles, r) := by
  intro ts
  induction ts with
  | nil => intro a b bs tiles r _ h; simpa [decodeTRLETilesStrict, decodeTRLETiles] using h
  | cons t ts ih =>
    intro a b bs tiles r hab h
    simp only [decodeTRLETilesStrict] at h
    cases ht : decodeTRLETile cp t.w t.h a bs with
    | none => simp [ht] at h
    | some q =>
      obtain ⟨⟨px, a'⟩, bs'⟩ := q
      simp only [ht] at h
      obtain ⟨b', e1, hle⟩ := decodeTRLETile_mono cp t.w t.h hab bs px a' bs' ht
      cases hr : decodeTRLETilesStrict cp ts (trleStrictAfter (bs.headD 0).toNat a') bs' with
      | none => rw [hr] at h; simp at h
      | some q2 =>
        obtain ⟨rest, r'⟩ := q2
        rw [hr] at h
        simp only [Option.map_some, Option.some.injEq, Prod.mk.injEq] at h
        obtain ⟨e2, e3⟩ := h
        subst e2 e3
        have := ih _ b' bs' rest r' (trleLe_strictAfter _ hle) hr
        simp [decodeTRLETiles, e1, this]

theorem strictTrle_implies_spec (g : Geometry) (cp : CPix) (bs : Bytes) (px : List Pixel) (r : Bytes)
    (h : decodeTRLEStrict g cp bs = some (px, r)) : decodeTRLE g cp bs = some (px, r) := by
  simp only [decodeTRLEStrict] at h
  cases ht : decodeTRLETilesStrict cp (tileGrid 16 g) [] bs with
  | none => simp [ht] at h
  | some q =>
    obtain ⟨tiles, r'⟩ := q
    simp only [ht, Option.map_some, Option.some.injEq, Prod.mk.injEq] at h
    obtain ⟨e1, e2⟩ := h
    subst e1 e2
    have := strictTrleTiles_implies_spec cp _ [] [] bs tiles r' (Or.inl rfl) ht
    simp [decodeTRLE, this]

end VncModel.Client
