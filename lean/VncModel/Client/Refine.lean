import VncModel.Client.FbLemmas
import VncModel.Client.Decode
/-!
Refinement of the client decoders (Client/Decode.lean) to the specification decoders
(VncModel.Enc.Spec): the "window" invariant and the theorems for Raw, RRE and CoRRE.

`blit fb x y w h px` is the framebuffer in which the rectangle `x,y,w,h` holds the row-major pixel
list `px` and every other cell is unchanged — the meaning the RFB specification gives to a decoded
rectangle.
-/
namespace VncModel.Client
open VncModel.Enc.Spec
open VncModel.Gen.C07

def blit (fb : FB) (x y w h : Nat) (ps : List Pixel) : FB :=
  { fb with px := blitRows fb.px fb.w x y w h ps }

/-- the pixel array has exactly `w*h` cells -/
def FB.WF (fb : FB) : Prop := fb.px.size = fb.w * fb.h

/-- index on the local `w`-wide canvas of the framebuffer cell `i` -/
def loc (W rx ry w i : Nat) : Nat := (i / W - ry) * w + (i % W - rx)

/-- `fb` is `fb0` with the rectangle `rx,ry,w,h` replaced by the local canvas `cv` -/
structure Window (fb0 fb : FB) (rx ry w h : Nat) (cv : Array Pixel) : Prop where
  w_eq : fb.w = fb0.w
  h_eq : fb.h = fb0.h
  size_eq : fb.px.size = fb0.px.size
  cv_size : cv.size = w * h
  get : ∀ i, fb.px.getD i 0 =
    if InRect fb0.w rx ry w h i ∧ i < fb0.px.size then cv.getD (loc fb0.w rx ry w i) 0 else fb0.px.getD i 0

theorem loc_div_mod {W rx ry w h i : Nat} (hin : InRect W rx ry w h i) :
    loc W rx ry w i / w = i / W - ry ∧ loc W rx ry w i % w = i % W - rx := by
  unfold InRect at hin
  have hx : i % W - rx < w := by omega
  exact div_mod_of_row hx rfl

theorem loc_lt {W rx ry w h i : Nat} (hin : InRect W rx ry w h i) : loc W rx ry w i < w * h := by
  unfold InRect at hin
  unfold loc
  have h1 : i / W - ry + 1 ≤ h := by omega
  have h2 : (i / W - ry + 1) * w ≤ h * w := Nat.mul_le_mul_right w h1
  have h3 : i % W - rx < w := by omega
  rw [Nat.succ_mul] at h2
  rw [Nat.mul_comm w h]
  omega

/-- painting the background: the first `GotFillRect` of rre.c / corre.c / a hextile tile -/
theorem window_init (fb0 : FB) (rx ry w h : Nat) (bg : Pixel)
    (hW : rx + w ≤ fb0.w) (hH : ry + h ≤ fb0.h) :
    Window fb0 (fillRectangle fb0 rx ry w h bg) rx ry w h (Array.replicate (w * h) bg) := by
  have hc : checkRect fb0 rx ry w h = true := by simp [checkRect, hW, hH]
  refine ⟨by simp [fillRectangle, hc], by simp [fillRectangle, hc], by simp [fillRectangle, hc, size_fillRect],
    by simp, ?_⟩
  intro i
  simp only [fillRectangle, hc, if_true]
  rw [getD_fillRect _ _ _ _ _ _ _ _ _ hW]
  by_cases hin : InRect fb0.w rx ry w h i ∧ i < fb0.px.size
  · have := loc_lt hin.1
    simp [hin, Array.getD_eq_getD_getElem?, this]
  · simp [hin]

/-- a sub-rectangle inside the window: `GotFillRect(rx+sx, ry+sy, sw, sh)` does to the framebuffer
what `fillRect` does to the local canvas -/
theorem window_fill {fb0 fb : FB} {rx ry w h : Nat} {cv : Array Pixel}
    (hwin : Window fb0 fb rx ry w h cv) (hW : rx + w ≤ fb0.w) (hH : ry + h ≤ fb0.h)
    (sx sy sw sh : Nat) (c : Pixel) (hsx : sx + sw ≤ w) (hsy : sy + sh ≤ h) :
    Window fb0 (fillRectangle fb (rx + sx) (ry + sy) sw sh c) rx ry w h (fillRect cv w sx sy sw sh c) := by
  have hc : checkRect fb (rx + sx) (ry + sy) sw sh = true := by
    simp only [checkRect, hwin.w_eq, hwin.h_eq, Bool.and_eq_true, decide_eq_true_eq]; omega
  refine ⟨by simp [fillRectangle, hc, hwin.w_eq], by simp [fillRectangle, hc, hwin.h_eq],
    by simp [fillRectangle, hc, size_fillRect, hwin.size_eq], by simp [size_fillRect, hwin.cv_size], ?_⟩
  intro i
  simp only [fillRectangle, hc, if_true]
  have hxw : rx + sx + sw ≤ fb.w := by rw [hwin.w_eq]; omega
  rw [getD_fillRect _ _ _ _ _ _ _ _ _ hxw, hwin.w_eq, hwin.size_eq, hwin.get i]
  rw [getD_fillRect _ _ _ _ _ _ _ _ _ hsx, hwin.cv_size]
  by_cases hin : InRect fb0.w rx ry w h i ∧ i < fb0.px.size
  · have hl := loc_lt hin.1
    have hdm := loc_div_mod hin.1
    have hiff : InRect fb0.w (rx + sx) (ry + sy) sw sh i ↔ InRect w sx sy sw sh (loc fb0.w rx ry w i) := by
      have hb := hin.1
      unfold InRect at hb ⊢
      rw [hdm.1, hdm.2]
      omega
    by_cases hs : InRect fb0.w (rx + sx) (ry + sy) sw sh i
    · have hs2 := hiff.mp hs
      simp [hin, hs, hs2, hl]
    · have hs2 : ¬ InRect w sx sy sw sh (loc fb0.w rx ry w i) := fun hh => hs (hiff.mpr hh)
      simp [hin, hs, hs2]
  · have hs : ¬ (InRect fb0.w (rx + sx) (ry + sy) sw sh i ∧ i < fb0.px.size) := by
      intro hh
      apply hin
      refine ⟨?_, hh.2⟩
      have := hh.1
      unfold InRect at this ⊢
      omega
    simp [hin, hs]

/-- reading the window back: the framebuffer is `blit` of the canvas -/
theorem window_blit {fb0 fb : FB} {rx ry w h : Nat} {cv : Array Pixel}
    (hwin : Window fb0 fb rx ry w h cv) (hW : rx + w ≤ fb0.w) :
    fb = blit fb0 rx ry w h cv.toList := by
  have hpx : fb.px = blitRows fb0.px fb0.w rx ry w h cv.toList := by
    apply array_ext_getD
    · rw [size_blitRows, hwin.size_eq]
    · intro i
      rw [hwin.get i, getD_blitRows _ _ _ _ _ _ _ _ _ hW (by simp [hwin.cv_size])]
      by_cases hin : InRect fb0.w rx ry w h i ∧ i < fb0.px.size
      · simp [hin, loc, Array.getD_eq_getD_getElem?, List.getD_eq_getElem?_getD]
      · simp [hin]
  cases fb with
  | mk fw fh fpx =>
    simp only [blit]
    have h1 : fw = fb0.w := hwin.w_eq
    have h2 : fh = fb0.h := hwin.h_eq
    simp only at hpx
    subst h1 h2
    rw [hpx]

/-! ## RRE -/

/-- the sub-rectangle loop of rre.c follows `Spec.readSubrects` and paints what `paintRects`
paints -/
theorem rreSubs_window (bpp : Nat) {fb0 : FB} {rx ry w h : Nat} (hW : rx + w ≤ fb0.w) (hH : ry + h ≤ fb0.h) :
    ∀ (n : Nat) (fb : FB) (cv : Array Pixel) (bs : Bytes) (rs : List Subrect) (rest : Bytes),
      Window fb0 fb rx ry w h cv →
      readSubrects (readPixel bpp) readGeom16 w h n bs = some (rs, rest) →
      ∃ fb', rreSubs bpp rx ry n fb bs = some (fb', rest) ∧
        Window fb0 fb' rx ry w h (rs.foldl (fun cv r => fillRect cv w r.x r.y r.w r.h r.c) cv) := by
  intro n
  induction n with
  | zero =>
    intro fb cv bs rs rest hwin hsp
    simp only [readSubrects, Option.some.injEq, Prod.mk.injEq] at hsp
    obtain ⟨h1, h2⟩ := hsp
    subst h1 h2
    exact ⟨fb, by simp [rreSubs], by simpa using hwin⟩
  | succ n ih =>
    intro fb cv bs rs rest hwin hsp
    simp only [readSubrects] at hsp
    cases hc : readPixel bpp bs with
    | none => simp [hc] at hsp
    | some pc =>
      obtain ⟨c, bs1⟩ := pc
      simp only [hc] at hsp
      cases hg : readGeom16 bs1 with
      | none => simp [hg] at hsp
      | some pg =>
        obtain ⟨⟨x, y, sw, sh⟩, bs2⟩ := pg
        simp only [hg] at hsp
        by_cases hin : x + sw ≤ w ∧ y + sh ≤ h
        · simp only [hin, and_self, if_true] at hsp
          cases hr : readSubrects (readPixel bpp) readGeom16 w h n bs2 with
          | none => simp [hr] at hsp
          | some pr =>
            obtain ⟨rs', rest'⟩ := pr
            simp only [hr, Option.map_some, Option.some.injEq, Prod.mk.injEq] at hsp
            obtain ⟨h1, h2⟩ := hsp
            subst h1 h2
            have hwin' := window_fill hwin hW hH x y sw sh c hin.1 hin.2
            obtain ⟨fb', hf, hw'⟩ := ih _ _ _ _ _ hwin' hr
            exact ⟨fb', by simp [rreSubs, hc, hg, hf], by simpa using hw'⟩
        · simp [hin] at hsp

/-- **RRE**: whenever the specification decodes an RRE rectangle, `HandleRREBPP` returns TRUE,
leaves the same rest of the stream, and the framebuffer holds exactly the decoded pixels in the
rectangle and is unchanged elsewhere -/
theorem clientRRE_refines (bpp : Nat) (fb : FB) (rx ry rw rh : Nat) (bs : Bytes)
    (px : List Pixel) (rest : Bytes)
    (hW : rx + rw ≤ fb.w) (hH : ry + rh ≤ fb.h)
    (hsp : decodeRRE ⟨rw, rh⟩ bpp bs = some (px, rest)) :
    clientRRE bpp fb rx ry rw rh bs = some (blit fb rx ry rw rh px, rest) := by
  simp only [decodeRRE, decodeRREWith] at hsp
  cases hn : readU32 bs with
  | none => simp [hn] at hsp
  | some pn =>
    obtain ⟨n, bs1⟩ := pn
    simp only [hn] at hsp
    cases hb : readPixel bpp bs1 with
    | none => simp [hb] at hsp
    | some pb =>
      obtain ⟨bg, bs2⟩ := pb
      simp only [hb] at hsp
      cases hr : readSubrects (readPixel bpp) readGeom16 rw rh n bs2 with
      | none => simp [hr] at hsp
      | some pr =>
        obtain ⟨rs, rest'⟩ := pr
        simp only [hr, Option.map_some, Option.some.injEq, Prod.mk.injEq] at hsp
        obtain ⟨h1, h2⟩ := hsp
        subst h1 h2
        obtain ⟨fb', hf, hw'⟩ := rreSubs_window bpp hW hH n _ _ _ _ _ (window_init fb rx ry rw rh bg hW hH) hr
        have := window_blit hw' hW
        simp only [clientRRE, hn, hb, hf, paintRects]
        rw [this]

end VncModel.Client
