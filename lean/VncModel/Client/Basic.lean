import VncModel.Enc.Spec
/-!
# LibVNCClient model — framebuffer and the three write primitives of `vncviewer.c`

`client->frameBuffer` is modelled pixel-granular: one `Pixel` (`Nat`, little-endian over the wire
bytes, see `VncModel.Enc.Spec`) per `uintBPP_t` cell, row-major, `w*h` cells.  On a little-endian
host the cell holds exactly the `bytespp` wire bytes of the pixel.

* `fillRectangle`  = `FillRectangle`  (`GotFillRect`), loop nest `j` rows / `i` columns;
* `copyRectangle`  = `CopyRectangle`  (`GotBitmap`), one `memcpy` per row;
* `copyFromRect`   = `CopyRectangleFromRectangle` (`GotCopyRect`) with its four loop directions.

All three start with `CheckRect` (`x + w <= width && y + h <= height`, C `int`s).  The model
functions take naturals (every caller passes values built from unsigned wire fields); the `Int`
version of the guard and the index-bound theorems are in `Props/C08.lean`.
Writes use `setIfInBounds`; `Props/C08.lean` proves that under `CheckRect` every index is in
bounds, so the totalisation is never exercised.
-/
namespace VncModel.Client
open VncModel.Enc.Spec

structure FB where
  w : Nat
  h : Nat
  px : Array Pixel
deriving Inhabited

/-- `MallocFrameBuffer` (the harness zero-fills a fresh buffer) -/
def FB.blank (w h : Nat) : FB := ⟨w, h, Array.replicate (w * h) 0⟩

/-- `CheckRect` on naturals -/
def checkRect (fb : FB) (x y w h : Nat) : Bool := x + w ≤ fb.w && y + h ≤ fb.h

/-- `CheckRect` with the C types (`int`); used by the C08 theorems -/
def checkRectI (W H x y w h : Int) : Bool := x + w ≤ W && y + h ≤ H

/-! ## FillRectangle -/

/-- indices written by `FILL_RECT`, in loop order (`j` outer, `i` inner) -/
def fillIdx (W x y w h : Nat) : List Nat :=
  (List.range h).flatMap fun r => (List.range w).map fun c => (y + r) * W + (x + c)

/-- `FillRectangle`: `Spec.fillRect` is literally the loop nest (`fillRow` = inner loop) -/
def fillRectangle (fb : FB) (x y w h : Nat) (c : Pixel) : FB :=
  if checkRect fb x y w h then { fb with px := fillRect fb.px fb.w x y w h c } else fb

/-! ## CopyRectangle (GotBitmap) -/

/-- one `memcpy` of a row: consecutive cells from `start` -/
def blitRow (a : Array Pixel) (start : Nat) : List Pixel → Array Pixel
  | [] => a
  | p :: ps => blitRow (a.setIfInBounds start p) (start + 1) ps

/-- `COPY_RECT`: `h` rows of `w` pixels taken consecutively from the source buffer -/
def blitRows (a : Array Pixel) (W x y w : Nat) : Nat → List Pixel → Array Pixel
  | 0, _ => a
  | k + 1, ps => blitRows (blitRow a (y * W + x) (ps.take w)) W x (y + 1) w k (ps.drop w)

def copyRectangle (fb : FB) (x y w h : Nat) (ps : List Pixel) : FB :=
  if checkRect fb x y w h then { fb with px := blitRows fb.px fb.w x y w h ps } else fb

/-- the unchecked direct pixel loops of zrle.c / trle.c / tight.c (`frameBuffer[j+i] = ...`
without `CheckRect`); the caller has checked the rectangle -/
def writeDirect (fb : FB) (x y w h : Nat) (ps : List Pixel) : FB :=
  { fb with px := blitRows fb.px fb.w x y w h ps }

/-! ## CopyRectangleFromRectangle (GotCopyRect) -/

/-- row offsets in execution order: ascending iff `dest_y < src_y` -/
def copyRows (h sy dy : Nat) : List Nat := if dy < sy then List.range h else (List.range h).reverse
/-- column offsets in execution order: ascending iff `dest_x < src_x` -/
def copyCols (w sx dx : Nat) : List Nat := if dx < sx then List.range w else (List.range w).reverse

/-- (destination index, source index) of every assignment, in execution order -/
def copyPairs (W sx sy w h dx dy : Nat) : List (Nat × Nat) :=
  (copyRows h sy dy).flatMap fun r => (copyCols w sx dx).map fun c =>
    ((dy + r) * W + (dx + c), (sy + r) * W + (sx + c))

/-- sequential execution of the assignments `fb[d] = fb[s]` -/
def runPairs (a : Array Pixel) : List (Nat × Nat) → Array Pixel
  | [] => a
  | (d, s) :: ps => runPairs (a.setIfInBounds d (a.getD s 0)) ps

def copyFromRect (fb : FB) (sx sy w h dx dy : Nat) : FB :=
  if checkRect fb sx sy w h && checkRect fb dx dy w h then
    { fb with px := runPairs fb.px (copyPairs fb.w sx sy w h dx dy) }
  else fb

/-! ## observation: CRC-32 of the framebuffer with the non-colour bits cleared -/

def crcStep (c : UInt32) (b : UInt8) : UInt32 :=
  let rec go : Nat → UInt32 → UInt32
    | 0, x => x
    | k + 1, x => go k (if x &&& 1 = 1 then (x >>> 1) ^^^ 0xEDB88320 else x >>> 1)
  go 8 (c ^^^ b.toUInt32)

def crcTable : Array UInt32 := (Array.range 256).map fun i => crcStep 0 (UInt8.ofNat i)

@[inline] def crcByte (c : UInt32) (b : UInt8) : UInt32 :=
  crcTable[((c ^^^ b.toUInt32) &&& 0xFF).toNat]! ^^^ (c >>> 8)

def crc32 (bs : List UInt8) : UInt32 := (bs.foldl crcByte 0xFFFFFFFF) ^^^ 0xFFFFFFFF

def hex8 (v : UInt32) : String :=
  let d := fun (n : Nat) => if n < 10 then Char.ofNat (48 + n) else Char.ofNat (87 + n)
  String.ofList ((List.range 8).map fun i => d ((v.toNat >>> (4 * (7 - i))) % 16))

/-- colour mask of a format as a `Pixel` (wire-order number) -/
def pixMask (f : PixFmt) : Pixel :=
  f.ofValue (((f.rMax <<< f.rShift) ||| (f.gMax <<< f.gShift) ||| (f.bMax <<< f.bShift)) % 2 ^ f.bpp)

/-- CRC-32 over the framebuffer bytes, pixels masked to their colour bits -/
def fbCrc (f : PixFmt) (fb : FB) : UInt32 :=
  let m := pixMask f
  let n := f.bytespp
  let step := fun (c : UInt32) (p : Pixel) =>
    let q := p &&& m
    (List.range n).foldl (fun c k => crcByte c (UInt8.ofNat ((q >>> (8 * k)) % 256))) c
  (fb.px.foldl step 0xFFFFFFFF) ^^^ 0xFFFFFFFF

end VncModel.Client
