import VncModel.Client.Basic
import VncModel.Gen.C07
/-!
# LibVNCClient model — the uncompressed rectangle decoders

Faithful renderings of `rfbclient.c` (Raw batching), `rre.c`, `corre.c`, `hextile.c`, `trle.c` and
the tile decoder of `zrle.c` (`HandleZRLETile`), as functions on the remaining server byte stream.
`none` = the C function returns FALSE (a read failed or a guard rejected).  `ReadFromRFBServer` is
`takeN` on the flat stream; that this is what the buffered reader delivers whatever the read
segmentation is `read_buffering_invariant` (Client/Reader.lean).

Modelling notes
* The decoders interleave reading and painting exactly as the C code; on `none` the partially
  painted framebuffer is dropped (the connection is dead; C08 only needs "returns FALSE").
* `UncompressCPixel` of the 3-byte variants reads 4 bytes and keeps a junk 4th byte in the unused
  byte of the framebuffer cell; the model keeps that byte zero and every observation masks the
  non-colour bits.  The *extent* of those reads is modelled separately (`Props/C08.lean`).
* The model follows the code WITH the fixes `fixes/C07-*.diff` and `fixes/C08-*.diff`
  (CPIXEL size `(REALBPP+7)/8`, CPIXEL selection, TRLE run buffer reset, ZRLE length checks).
-/
namespace VncModel.Client
open VncModel.Enc.Spec
open VncModel.Gen.C07

abbrev DecFB := Bytes → Option (FB × Bytes)

/-- value standing for "uninitialised C memory" (no pixel is that large): palette entries that
were never written, the `fg` of hextile.c before its first assignment.  A framebuffer containing
it is reported as unpredictable by the driver; valid streams never produce it. -/
def poison : Pixel := 2 ^ 64


/-! ## Raw (rfbclient.c, `case rfbEncodingRaw`) -/

/-- `while (linesToRead && h > 0)`; fuel = `h` (every round handles at least one line) -/
def rawLoop (bpp x w ltr : Nat) : Nat → FB → Nat → Nat → DecFB
  | 0, fb, _, _, bs => some (fb, bs)
  | fuel + 1, fb, y, h, bs =>
    if h = 0 then some (fb, bs) else
    let lines := min ltr h
    match readPixels bpp (w * lines) bs with
    | none => none
    | some (ps, bs) =>
      rawLoop bpp x w ltr fuel (copyRectangle fb x y w lines ps) (y + lines) (h - lines) bs

def clientRaw (bpp : Nat) (fb : FB) (x y w h : Nat) : DecFB := fun bs =>
  let bpl := w * bpp
  let ltr := if bpl = 0 then 0 else rfbBufferSize / bpl
  if ltr = 0 then some (fb, bs) else rawLoop bpp x w ltr h fb y h bs

/-! ## CopyRect -/

def clientCopyRect (fb : FB) (x y w h : Nat) : DecFB := fun bs =>
  match readU16 bs with
  | none => none
  | some (sx, bs) =>
    match readU16 bs with
    | none => none
    | some (sy, bs) => some (copyFromRect fb sx sy w h x y, bs)

/-! ## RRE (rre.c) -/

def rreSubs (bpp rx ry : Nat) : Nat → FB → DecFB
  | 0, fb, bs => some (fb, bs)
  | n + 1, fb, bs =>
    match readPixel bpp bs with
    | none => none
    | some (c, bs) =>
      match readGeom16 bs with
      | none => none
      | some ((x, y, w, h), bs) => rreSubs bpp rx ry n (fillRectangle fb (rx + x) (ry + y) w h c) bs

def clientRRE (bpp : Nat) (fb : FB) (rx ry rw rh : Nat) : DecFB := fun bs =>
  match readU32 bs with
  | none => none
  | some (n, bs) =>
    match readPixel bpp bs with
    | none => none
    | some (bg, bs) => rreSubs bpp rx ry n (fillRectangle fb rx ry rw rh bg) bs

/-! ## CoRRE (corre.c): all sub-rectangles are read into `client->buffer` at once -/

/-- the guard of corre.c:49 -/
def correGuard (bpp n : Nat) : Bool := n ≤ rfbBufferSize / (4 + bpp)

/-- walk over the buffered sub-rectangles (the buffer holds exactly `n*(4+bpp)` bytes) -/
def correSubs (bpp rx ry : Nat) : Nat → FB → Bytes → FB
  | 0, fb, _ => fb
  | n + 1, fb, buf =>
    match readPixel bpp buf with
    | none => fb
    | some (c, buf) =>
      match readGeom8 buf with
      | none => fb
      | some ((x, y, w, h), buf) => correSubs bpp rx ry n (fillRectangle fb (rx + x) (ry + y) w h c) buf

def clientCoRRE (bpp : Nat) (fb : FB) (rx ry rw rh : Nat) : DecFB := fun bs =>
  match readU32 bs with
  | none => none
  | some (n, bs) =>
    match readPixel bpp bs with
    | none => none
    | some (bg, bs) =>
      let fb := fillRectangle fb rx ry rw rh bg
      if correGuard bpp n then
        match takeN (n * (4 + bpp)) bs with
        | none => none
        | some (buf, bs) => some (correSubs bpp rx ry n fb buf, bs)
      else none

/-! ## Hextile (hextile.c) -/

/-- `bg` starts as 0, `fg` is uninitialised in C (modelled by `poison` = 2^64); both persist over the tiles of one
rectangle; coloured sub-rectangles overwrite `fg` (the same C variable) -/
structure HexSt where
  bg : Pixel := 0
  fg : Pixel := 2 ^ 64
deriving Repr, DecidableEq, Inhabited

def hexColoured (bpp x y : Nat) : Nat → FB → Pixel → Bytes → FB × Pixel
  | 0, fb, fg, _ => (fb, fg)
  | n + 1, fb, fg, buf =>
    match readPixel bpp buf with
    | none => (fb, fg)
    | some (c, buf) =>
      match readGeomHex buf with
      | none => (fb, c)
      | some ((sx, sy, sw, sh), buf) =>
        hexColoured bpp x y n (fillRectangle fb (x + sx) (y + sy) sw sh c) c buf

def hexMono (x y : Nat) (fg : Pixel) : Nat → FB → Bytes → FB
  | 0, fb, _ => fb
  | n + 1, fb, buf =>
    match readGeomHex buf with
    | none => fb
    | some ((sx, sy, sw, sh), buf) => hexMono x y fg n (fillRectangle fb (x + sx) (y + sy) sw sh fg) buf

/-- one tile at absolute position `x,y`, size `w×h` -/
def hexTile (bpp : Nat) (fb : FB) (st : HexSt) (x y w h : Nat) : Bytes → Option ((FB × HexSt) × Bytes)
  | [] => none
  | m :: bs =>
    let m := m.toNat
    if m % 2 = 1 then
      match readPixels bpp (w * h) bs with
      | none => none
      | some (ps, bs) => some ((copyRectangle fb x y w h ps, st), bs)
    else
      match (if m / 2 % 2 = 1 then readPixel bpp bs else some (st.bg, bs)) with
      | none => none
      | some (bg, bs) =>
        let fb := fillRectangle fb x y w h bg
        match (if m / 4 % 2 = 1 then readPixel bpp bs else some (st.fg, bs)) with
        | none => none
        | some (fg, bs) =>
          if m / 8 % 2 = 0 then some ((fb, ⟨bg, fg⟩), bs) else
          match readU8 bs with
          | none => none
          | some (n, bs) =>
            if m / 16 % 2 = 1 then
              match takeN (n * (2 + bpp)) bs with
              | none => none
              | some (buf, bs) =>
                let (fb, fg) := hexColoured bpp x y n fb fg buf
                some ((fb, ⟨bg, fg⟩), bs)
            else
              match takeN (n * 2) bs with
              | none => none
              | some (buf, bs) => some ((hexMono x y fg n fb buf, ⟨bg, fg⟩), bs)

def hexTiles (bpp rx ry : Nat) : List TileRect → FB → HexSt → DecFB
  | [], fb, _, bs => some (fb, bs)
  | t :: ts, fb, st, bs =>
    match hexTile bpp fb st (rx + t.x) (ry + t.y) t.w t.h bs with
    | none => none
    | some ((fb, st), bs) => hexTiles bpp rx ry ts fb st bs

/-- the two `for` loops of `HandleHextileBPP` visit exactly `tileGrid 16` -/
def clientHextile (bpp : Nat) (fb : FB) (rx ry rw rh : Nat) : DecFB :=
  hexTiles bpp rx ry (tileGrid 16 ⟨rw, rh⟩) fb {}

/-! ## shared pieces of trle.c / zrle.c -/

/-- bits per packed index as the C code computes it from the sub-encoding byte
(`type>4 ? (type>16 ? 8 : 4) : (type>2 ? 2 : 1)`) -/
def packBits (t : Nat) : Nat := if t > 4 then (if t > 16 then 8 else 4) else (if t > 2 then 2 else 1)

/-- the inner loop over one row: `shift` runs from `8-bpp` down; the byte pointer advances when
`shift < 0` and once more at the end of the row if a byte is partly used.
Returns the indices of the row and the remaining bytes. -/
def unpackRowC (bpp : Nat) : Nat → Nat → Bytes → List Nat × Bytes
  | 0, shift, buf => ([], if shift < 8 - bpp then buf.tail else buf)
  | n + 1, shift, buf =>
    let idx := ((buf.headD 0).toNat >>> shift) % 2 ^ bpp
    if shift < bpp then
      let (r, b) := unpackRowC bpp n (8 - bpp) buf.tail
      (idx :: r, b)
    else
      let (r, b) := unpackRowC bpp n (shift - bpp) buf
      (idx :: r, b)

/-- `h` rows of `w` packed indices -/
def unpackRowsC (bpp w : Nat) : Nat → Bytes → List Nat
  | 0, _ => []
  | k + 1, buf =>
    let (r, b) := unpackRowC bpp w (8 - bpp) buf
    r ++ unpackRowsC bpp w k b

/-- palette lookup in the C array `palette[128]` (entries never written are `poison`) -/
def palGet (pal : Array Pixel) (i : Nat) : Pixel := pal.getD i poison

/-- `palette[i] = UncompressCPixel(buffer)` for `i < n` -/
def readPalette (cp : CPix) : Nat → Nat → Array Pixel → Bytes → Array Pixel × Bytes
  | 0, _, pal, buf => (pal, buf)
  | n + 1, i, pal, buf =>
    match readCPixel cp buf with
    | none => (pal, buf)
    | some (p, buf) => readPalette cp n (i + 1) (pal.setIfInBounds i p) buf

/-- run length as the C loops accumulate it: `length = 1; while (*b == 255) length += 255; length += *b` -/
def runLenC : Bytes → Option (Nat × Bytes)
  | [] => none
  | b :: bs => if b = 255 then (runLenC bs).map fun (n, r) => (n + 255, r) else some (b.toNat + 1, bs)

/-! ## ZRLE tile (`HandleZRLETile`): works on the inflated buffer, `buf` = the `buffer_length`
bytes from the tile start.  Result: the `w*h` pixels in write order and the rest of the buffer;
`none` = a negative return value. -/

/-- plain RLE: `while (j<h)`; `rem` = pixels still to write; runs longer than the tile are cut
(the C code only logs a warning) -/
def zrlePlainRLE (cp : CPix) : Nat → Nat → Bytes → Option (List Pixel × Bytes)
  | _, 0, buf => some ([], buf)
  | 0, _ + 1, _ => none
  | f + 1, rem + 1, buf =>
    if buf.length < cp.size + 1 then none else         -- `buffer+REALBYTES+1 > buffer_end` → -7
    match readCPixel cp buf with
    | none => none
    | some (c, buf) =>
      match runLenC buf with
      | none => none
      | some (len, rest) =>
        -- `if (buffer+1 >= buffer_end) return -8` inside the 0xff loop: a 0xff byte may not be the
        -- last byte of the buffer; `runLenC` fails in exactly that case (it needs a successor)
        let k := min len (rem + 1)
        (zrlePlainRLE cp f (rem + 1 - k) rest).map fun (ps, r) => (List.replicate k c ++ ps, r)

def zrlePaletteRLE (pal : Array Pixel) : Nat → Nat → Bytes → Option (List Pixel × Bytes)
  | _, 0, buf => some ([], buf)
  | 0, _ + 1, _ => none
  | _ + 1, _ + 1, [] => none                                   -- `buffer >= buffer_end` → -10
  | f + 1, rem + 1, b :: buf =>
    let c := palGet pal (b.toNat % 128)
    if b.toNat < 128 then
      (zrlePaletteRLE pal f rem buf).map fun (ps, r) => (c :: ps, r)
    else
      match runLenC buf with                                   -- -11 / -8 on exhaustion
      | none => none
      | some (len, rest) =>
        let k := min len (rem + 1)
        (zrlePaletteRLE pal f (rem + 1 - k) rest).map fun (ps, r) => (List.replicate k c ++ ps, r)

/-- result of a tile: either the pixels to write, or a solid colour (→ `GotFillRect`) -/
def zrleTile (cp : CPix) (w h : Nat) : Bytes → Option (List Pixel × Bytes)
  | [] => none                                                   -- -2
  | t :: buf =>
    let t := t.toNat
    let L := buf.length + 1
    if t = 0 then
      if 1 + w * h * cp.size > L then none else readCPixels cp (w * h) buf           -- -3
    else if t = 1 then
      if 1 + cp.size > L then none else                                               -- -4
      (readCPixel cp buf).map fun (c, r) => (List.replicate (w * h) c, r)
    else if t ≤ 127 then
      let bpp := packBits t
      let div := 8 / bpp
      if 1 + t * cp.size + ((w + div - 1) / div) * h > L then none else               -- -5
      let (pal, buf) := readPalette cp t 0 (Array.replicate zrlePaletteCells poison) buf
      let idx := unpackRowsC bpp w h buf
      -- fixed code (fixes/C08-zrle-packed-palette-index.diff): an index that is not below the
      -- palette size is a decoding error (before the fix: read outside `palette[128]` for t > 16)
      if idx.any (· ≥ t) then none else
      some (idx.map (palGet pal), buf.drop (((w + div - 1) / div) * h))
    else if t = 128 then zrlePlainRLE cp (w * h) (w * h) buf
    else if t = 129 then none                                                          -- -8
    else
      if 2 + (t - 128) * cp.size > L then none else                                    -- -9
      let (pal, buf) := readPalette cp (t - 128) 0 (Array.replicate zrlePaletteCells poison) buf
      zrlePaletteRLE pal (w * h) (w * h) buf

/-- the tile loop of `HandleZRLE` over the inflated data: a failing tile stops the loop and the
function still returns TRUE (`return TRUE; return FALSE;` in zrle.c) -/
def zrleTiles (cp : CPix) (rx ry : Nat) : List TileRect → FB → Bytes → FB × Bool
  | [], fb, _ => (fb, true)
  | t :: ts, fb, buf =>
    match zrleTile cp t.w t.h buf with
    | none => (fb, false)      -- tile error: the C code may have written part of the tile
    | some (ps, buf) => zrleTiles cp rx ry ts (writeDirect fb (rx + t.x) (ry + t.y) t.w t.h ps) buf

/-! ## TRLE (trle.c): tiles of 16, read directly from the stream -/

structure TrleSt where
  lastType : Nat := 0
  pal : Array Pixel := Array.replicate trlePaletteCells poison
  bpp : Nat := 0
  color : Pixel := 0
deriving Inhabited

/-- run length of trle.c: bytes are read one at a time; the 0xff chain stops after
`raw_buffer_size-1-start` bytes (`buffer_pos < raw_buffer_size-1`), `start` = bytes already in
the buffer for this run -/
def trleRunLen : Nat → Nat → Bytes → Option (Nat × Bytes)
  | _, _, [] => none
  | 0, acc, b :: bs => some (acc + b.toNat, bs)
  | budget + 1, acc, b :: bs =>
    if b = 255 then trleRunLen budget (acc + 255) bs else some (acc + b.toNat, bs)

/-- the chain reader above consumes the *next* byte before looking at it, exactly as
`ReadFromRFBServer(buffer+1, 1)` is issued while `*buffer == 0xff`: a 0xff as the last read byte
forces one more read.  `trleRunLen budget 1 bs` is given the stream starting at the first length
byte; when the budget is exhausted the current byte is taken as the final one. -/
def trlePlainRLE (cp : CPix) (budget : Nat) : Nat → Nat → Bytes → Option (List Pixel × Bytes)
  | _, 0, bs => some ([], bs)
  | 0, _ + 1, _ => none
  | f + 1, rem + 1, bs =>
    match readCPixel cp bs with
    | none => none
    | some (c, bs) =>
      match trleRunLen (budget - cp.size) 1 bs with
      | none => none
      | some (len, bs) =>
        let k := min len (rem + 1)
        (trlePlainRLE cp budget f (rem + 1 - k) bs).map fun (ps, r) => (List.replicate k c ++ ps, r)

def trlePaletteRLE (pal : Array Pixel) (budget : Nat) : Nat → Nat → Bytes → Option (List Pixel × Bytes)
  | _, 0, bs => some ([], bs)
  | 0, _ + 1, _ => none
  | _ + 1, _ + 1, [] => none
  | f + 1, rem + 1, b :: bs =>
    let c := palGet pal (b.toNat % 128)
    if b.toNat < 128 then
      (trlePaletteRLE pal budget f rem bs).map fun (ps, r) => (c :: ps, r)
    else
      match trleRunLen (budget - 1) 1 bs with
      | none => none
      | some (len, bs) =>
        let k := min len (rem + 1)
        (trlePaletteRLE pal budget f (rem + 1 - k) bs).map fun (ps, r) => (List.replicate k c ++ ps, r)

/-- the packed-palette branch shared by `case 127` and the `type <= 16` entry (`goto case_127`) -/
def trlePacked (fb : FB) (st : TrleSt) (x y w h : Nat) (bs : Bytes) : Option ((FB × TrleSt) × Bytes) :=
  let div := 8 / st.bpp
  match takeN ((w + div - 1) / div * h) bs with
  | none => none
  | some (buf, bs) =>
    let idx := unpackRowsC st.bpp w h buf
    some ((writeDirect fb x y w h (idx.map (palGet st.pal)), st), bs)

/-- one TRLE tile; `rawBuf` = `client->raw_buffer_size` (bounds the 0xff chains) -/
def trleTile (cp : CPix) (rawBuf : Nat) (fb : FB) (st : TrleSt) (x y w h : Nat) :
    Bytes → Option ((FB × TrleSt) × Bytes)
  | [] => none
  | t :: bs =>
    let t := t.toNat
    if t = 0 then
      match readCPixels cp (w * h) bs with
      | none => none
      | some (ps, bs) => some ((writeDirect fb x y w h ps, st), bs)
    else if t = 1 then
      match readCPixel cp bs with
      | none => none
      | some (c, bs) => some ((fillRectangle fb x y w h c, { st with color := c, lastType := 1 }), bs)
    else if t = 127 then
      if st.lastType = 0 ∨ st.lastType = 128 then none
      else if st.lastType = 1 then some ((fillRectangle fb x y w h st.color, st), bs)
      else
        let st := if st.lastType ≥ 130 then
                    { st with lastType := st.lastType % 128, bpp := packBits (st.lastType % 128) } else st
        if st.lastType ≤ 16 then trlePacked fb st x y w h bs else none
    else if t = 128 then
      match trlePlainRLE cp (rawBuf - 1) (w * h) (w * h) bs with
      | none => none
      | some (ps, bs) => some ((writeDirect fb x y w h ps, st), bs)
    else if t = 129 then
      match trlePaletteRLE st.pal (rawBuf - 1) (w * h) (w * h) bs with
      | none => none
      | some (ps, bs) => some ((writeDirect fb x y w h ps, st), bs)
    else if t ≤ 16 then
      match takeN (t * cp.size) bs with
      | none => none
      | some (pb, bs) =>
        let (pal, _) := readPalette cp t 0 st.pal pb
        let bpp := if t > 4 then 4 else if t > 2 then 2 else 1
        trlePacked fb { st with pal := pal, bpp := bpp, lastType := t } x y w h bs
    else if t ≥ 130 then
      match takeN ((t - 128) * cp.size) bs with
      | none => none
      | some (pb, bs) =>
        let (pal, _) := readPalette cp (t - 128) 0 st.pal pb
        match trlePaletteRLE pal (rawBuf - 1) (w * h) (w * h) bs with
        | none => none
        | some (ps, bs) => some ((writeDirect fb x y w h ps, { st with pal := pal, lastType := t }), bs)
    else none

def trleTiles (cp : CPix) (rawBuf rx ry : Nat) : List TileRect → FB → TrleSt → DecFB
  | [], fb, _, bs => some (fb, bs)
  | t :: ts, fb, st, bs =>
    match trleTile cp rawBuf fb st (rx + t.x) (ry + t.y) t.w t.h bs with
    | none => none
    | some ((fb, st), bs) => trleTiles cp rawBuf rx ry ts fb st bs

/-- `raw_buffer_size` after the `min_buffer_size` adjustment at the top of `HandleTRLE` -/
def trleRawBuf (cp : CPix) (cur : Int) : Nat := (max cur (16 * 16 * cp.size * 2 : Nat)).toNat

def clientTRLE (cp : CPix) (rawBuf : Nat) (fb : FB) (rx ry rw rh : Nat) : DecFB :=
  trleTiles cp rawBuf rx ry (tileGrid 16 ⟨rw, rh⟩) fb {}

end VncModel.Client
