import VncModel.Client.Basic
/-!
Pointwise characterisations of the framebuffer primitives (`fillRect`, `blitRows`) and the
"window" lemma that relates painting in a rectangle of the framebuffer to painting on the local
canvas of the specification decoders.  (The `fillRow/fillRect` lemmas restate those of
`VncModel/Enc/Basic.lean` so that this directory is self-contained.)
-/
namespace VncModel.Client
open VncModel.Enc.Spec

theorem getD_setIfInBounds (a : Array Pixel) (i j : Nat) (v d : Pixel) :
    (a.setIfInBounds i v).getD j d = if i = j ∧ j < a.size then v else a.getD j d := by
  simp only [Array.getD_eq_getD_getElem?, Array.getElem?_setIfInBounds]
  by_cases h : i = j <;> by_cases h2 : j < a.size <;> simp [h, h2]

theorem size_fillRow (cv : Array Pixel) (s n : Nat) (c : Pixel) : (fillRow cv s n c).size = cv.size := by
  induction n generalizing cv s with
  | zero => rfl
  | succ n ih => simp [fillRow, ih]

theorem getD_fillRow (cv : Array Pixel) (s n : Nat) (c d : Pixel) (i : Nat) :
    (fillRow cv s n c).getD i d = if s ≤ i ∧ i < s + n ∧ i < cv.size then c else cv.getD i d := by
  induction n generalizing cv s with
  | zero => simp [fillRow]; omega
  | succ n ih =>
    simp only [fillRow, ih, Array.size_setIfInBounds, getD_setIfInBounds]
    by_cases h1 : s = i
    · subst h1; by_cases h2 : s < cv.size <;> simp [h2] <;> omega
    · by_cases h2 : s + 1 ≤ i ∧ i < s + 1 + n ∧ i < cv.size
      · have : s ≤ i ∧ i < s + (n + 1) ∧ i < cv.size := by omega
        simp [h2, this]
      · have : ¬ (s ≤ i ∧ i < s + (n + 1) ∧ i < cv.size) := by omega
        simp [h1, h2, this]

theorem size_fillRect (cv : Array Pixel) (W x y w h : Nat) (c : Pixel) :
    (fillRect cv W x y w h c).size = cv.size := by
  induction h generalizing cv y with
  | zero => rfl
  | succ h ih => simp [fillRect, ih, size_fillRow]

/-- flat index `i` lies in the rectangle `x,y,w,h` of a canvas with row length `W` -/
def InRect (W x y w h i : Nat) : Prop := y ≤ i / W ∧ i / W < y + h ∧ x ≤ i % W ∧ i % W < x + w

instance (W x y w h i : Nat) : Decidable (InRect W x y w h i) := by unfold InRect; infer_instance

theorem div_mod_of_row {W x i y : Nat} (hx : x < W) (h : i = y * W + x) : i / W = y ∧ i % W = x := by
  subst h
  have hW : 0 < W := by omega
  constructor
  · rw [Nat.add_comm, Nat.add_mul_div_right _ _ hW, Nat.div_eq_of_lt hx]; simp
  · rw [Nat.add_comm, Nat.add_mul_mod_self_right, Nat.mod_eq_of_lt hx]

/-- a flat index in row `y`, between columns `x` and `x+w ≤ W` -/
theorem row_range {W x w y i : Nat} (hxw : x + w ≤ W) (h1 : y * W + x ≤ i) (h2 : i < y * W + x + w) :
    i / W = y ∧ i % W = i - y * W := by
  have hx : i - y * W < W := by omega
  have := div_mod_of_row (W := W) (x := i - y * W) (i := i) (y := y) hx (by omega)
  exact this

theorem getD_fillRect (cv : Array Pixel) (W x y w h : Nat) (c d : Pixel) (i : Nat)
    (hxw : x + w ≤ W) :
    (fillRect cv W x y w h c).getD i d =
      if InRect W x y w h i ∧ i < cv.size then c else cv.getD i d := by
  induction h generalizing cv y with
  | zero => simp [fillRect, InRect]; omega
  | succ h ih =>
    simp only [fillRect, ih, size_fillRow, getD_fillRow]
    by_cases hW : W = 0
    · subst hW
      have hw0 : w = 0 := by omega
      subst hw0
      have h1 : ¬ (InRect 0 x (y + 1) 0 h i ∧ i < cv.size) := by unfold InRect; omega
      have h2 : ¬ (y * 0 + x ≤ i ∧ i < y * 0 + x + 0 ∧ i < cv.size) := by omega
      have h3 : ¬ (InRect 0 x y 0 (h + 1) i ∧ i < cv.size) := by unfold InRect; omega
      rw [if_neg h1, if_neg h2, if_neg h3]
    have hWp : 0 < W := by omega
    have hdm : i = (i / W) * W + i % W := by
      rw [Nat.mul_comm]; exact (Nat.div_add_mod i W).symm
    have hml : i % W < W := Nat.mod_lt _ hWp
    by_cases hin : InRect W x (y + 1) w h i ∧ i < cv.size
    · have : InRect W x y w (h + 1) i ∧ i < cv.size := by
        unfold InRect at *; omega
      simp [hin, this]
    · simp only [hin, if_false]
      by_cases hrow : y * W + x ≤ i ∧ i < y * W + x + w ∧ i < cv.size
      · have hr := row_range hxw hrow.1 hrow.2.1
        have : InRect W x y w (h + 1) i ∧ i < cv.size := by
          unfold InRect
          omega
        simp [hrow, this]
      · have : ¬ (InRect W x y w (h + 1) i ∧ i < cv.size) := by
          unfold InRect at *
          intro hh
          apply hrow
          have hy : i / W = y := by omega
          rw [hy] at hdm
          omega
        simp [hrow, this]

/-! ### blitRow / blitRows -/

theorem size_blitRow (a : Array Pixel) (s : Nat) (ps : List Pixel) : (blitRow a s ps).size = a.size := by
  induction ps generalizing a s with
  | nil => rfl
  | cons p ps ih => simp [blitRow, ih]

theorem getD_blitRow (a : Array Pixel) (s : Nat) (ps : List Pixel) (d : Pixel) (i : Nat) :
    (blitRow a s ps).getD i d =
      if s ≤ i ∧ i < s + ps.length ∧ i < a.size then ps.getD (i - s) d else a.getD i d := by
  induction ps generalizing a s with
  | nil => simp [blitRow]; omega
  | cons p ps ih =>
    simp only [blitRow, ih, Array.size_setIfInBounds, getD_setIfInBounds, List.length_cons]
    by_cases h1 : s = i
    · subst h1
      have h0 : ¬ (s + 1 ≤ s ∧ s < s + 1 + ps.length ∧ s < a.size) := by omega
      rw [if_neg h0]
      by_cases h2 : s < a.size
      · have h3 : s ≤ s ∧ s < s + (ps.length + 1) ∧ s < a.size := by omega
        rw [if_pos h3]
        simp [h2]
      · have h3 : ¬ (s ≤ s ∧ s < s + (ps.length + 1) ∧ s < a.size) := by omega
        rw [if_neg h3]
        simp [h2]
    · by_cases h2 : s + 1 ≤ i ∧ i < s + 1 + ps.length ∧ i < a.size
      · have h3 : s ≤ i ∧ i < s + (ps.length + 1) ∧ i < a.size := by omega
        have h4 : i - s = (i - (s + 1)) + 1 := by omega
        simp [h2, h3, h4]
      · have h3 : ¬ (s ≤ i ∧ i < s + (ps.length + 1) ∧ i < a.size) := by omega
        simp [h1, h2, h3]

theorem size_blitRows (a : Array Pixel) (W x y w h : Nat) (ps : List Pixel) :
    (blitRows a W x y w h ps).size = a.size := by
  induction h generalizing a y ps with
  | zero => rfl
  | succ h ih => simp [blitRows, ih, size_blitRow]

theorem getD_blitRows (a : Array Pixel) (W x y w h : Nat) (ps : List Pixel) (d : Pixel) (i : Nat)
    (hxw : x + w ≤ W) (hlen : ps.length = w * h) :
    (blitRows a W x y w h ps).getD i d =
      if InRect W x y w h i ∧ i < a.size then ps.getD ((i / W - y) * w + (i % W - x)) d
      else a.getD i d := by
  induction h generalizing a y ps with
  | zero => simp [blitRows, InRect]; omega
  | succ h ih =>
    have hdl : (ps.drop w).length = w * h := by
      rw [List.length_drop, hlen, Nat.mul_succ]; omega
    have htl : (ps.take w).length = w := by
      rw [List.length_take, hlen, Nat.mul_succ]; omega
    simp only [blitRows]
    rw [ih _ _ _ hdl]
    simp only [size_blitRow, getD_blitRow, htl]
    by_cases hW : W = 0
    · subst hW
      have hw0 : w = 0 := by omega
      subst hw0
      have h1 : ¬ (InRect 0 x (y + 1) 0 h i ∧ i < a.size) := by unfold InRect; omega
      have h2 : ¬ (y * 0 + x ≤ i ∧ i < y * 0 + x + 0 ∧ i < a.size) := by omega
      have h3 : ¬ (InRect 0 x y 0 (h + 1) i ∧ i < a.size) := by unfold InRect; omega
      rw [if_neg h1, if_neg h2, if_neg h3]
    have hWp : 0 < W := by omega
    have hdm : i = (i / W) * W + i % W := by
      rw [Nat.mul_comm]; exact (Nat.div_add_mod i W).symm
    have hml : i % W < W := Nat.mod_lt _ hWp
    by_cases hin : InRect W x (y + 1) w h i ∧ i < a.size
    · have h2 : InRect W x y w (h + 1) i ∧ i < a.size := by
        unfold InRect at *; omega
      simp only [hin, h2, and_self, if_true]
      unfold InRect at hin
      have e1 : i / W - y = (i / W - (y + 1)) + 1 := by omega
      rw [e1, Nat.succ_mul, List.getD_eq_getElem?_getD, List.getD_eq_getElem?_getD, List.getElem?_drop]
      congr 2
      omega
    · simp only [hin, if_false]
      by_cases hrow : y * W + x ≤ i ∧ i < y * W + x + w ∧ i < a.size
      · have hr := row_range hxw hrow.1 hrow.2.1
        have h2 : InRect W x y w (h + 1) i ∧ i < a.size := by
          unfold InRect; omega
        simp only [hrow, h2, and_self, if_true]
        have e1 : i / W - y = 0 := by omega
        rw [e1, Nat.zero_mul, Nat.zero_add, List.getD_eq_getElem?_getD, List.getD_eq_getElem?_getD,
          List.getElem?_take]
        have e2 : i - (y * W + x) = i % W - x := by omega
        have e3 : i % W - x < w := by omega
        simp [e2, e3]
      · have h2 : ¬ (InRect W x y w (h + 1) i ∧ i < a.size) := by
          unfold InRect at *
          intro hh
          apply hrow
          have hy : i / W = y := by omega
          rw [hy] at hdm
          omega
        simp [hrow, h2]

/-- two arrays of the same size agreeing under `getD` are equal -/
theorem array_ext_getD {a b : Array Pixel} (hs : a.size = b.size)
    (h : ∀ i, a.getD i 0 = b.getD i 0) : a = b := by
  apply Array.ext hs
  intro i h1 h2
  have := h i
  simp only [Array.getD_eq_getD_getElem?, Array.getElem?_eq_getElem h1, Array.getElem?_eq_getElem h2,
    Option.getD_some] at this
  exact this

end VncModel.Client
