import VncModel.Threads.NoUaf
/-! The client-gone hook runs at most once per client record, not at all before
rfbClientConnectionGone reaches it, and exactly once by the time the record is freed. -/
set_option linter.unusedSimpArgs false
namespace VncModel.Threads

/-- 0: no input thread yet; 1: before the hook; 2: hook done -/
def iClass : IPc → Nat
  | .notStarted => 0
  | .g st => (match st with | .lockO | .unlockO | .lockS | .unlockS => 2 | _ => 1)
  | .exiting | .exited => 2
  | _ => 1

/-- the record a calling thread is creating / tearing down, before (1) or after (2) the hook -/
def cClass : CPc → Option (Nat × Nat)
  | .cr st c => (match st with | .alloc => none | _ => some (c, 1))
  | .gone g c => (match g with | .lockO | .unlockO | .lockS | .unlockS => some (c, 2) | _ => some (c, 1))
  | _ => none

structure GoneInv (s : State) : Prop where
  le : ∀ c, (s.cl c).goneCnt ≤ 1
  ipre : ∀ c, iClass (s.cl c).ipc = 1 → (s.cl c).goneCnt = 0
  ipost : ∀ c, iClass (s.cl c).ipc = 2 → (s.cl c).goneCnt = 1
  cpre : ∀ t c, cClass (getC s t) = some (c, 1) → (s.cl c).goneCnt = 0
  cpost : ∀ t c, cClass (getC s t) = some (c, 2) → (s.cl c).goneCnt = 1

theorem goneInv_init : GoneInv State.init := by
  constructor
  · intro c; simp [State.init]
  · intro c; simp [State.init, iClass]
  · intro c; simp [State.init, iClass]
  · intro t c; cases t <;> simp [State.init, getC, cClass]
  · intro t c; cases t <;> simp [State.init, getC, cClass]

structure GSame (s s' : State) : Prop where
  cl : ∀ c, (s'.cl c).goneCnt = (s.cl c).goneCnt ∧ (s'.cl c).ipc = (s.cl c).ipc
  apc : s'.apc = s.apc
  lpc : s'.lpc = s.lpc

theorem getC_gsame {s s' : State} (h : GSame s s') (t : Tid) : getC s' t = getC s t := by
  cases t <;> simp [getC, h.apc, h.lpc]

theorem goneInv_of_gsame {s s' : State} (h : GSame s s') (hg : GoneInv s) : GoneInv s' := by
  have e := h.cl
  constructor
  · intro c; rw [(e c).1]; exact hg.le c
  · intro c; rw [(e c).1, (e c).2]; exact hg.ipre c
  · intro c; rw [(e c).1, (e c).2]; exact hg.ipost c
  · intro t c; rw [getC_gsame h, (e c).1]; exact hg.cpre t c
  · intro t c; rw [getC_gsame h, (e c).1]; exact hg.cpost t c

theorem GSame.symm {a b : State} (h : GSame a b) : GSame b a :=
  ⟨fun x => ⟨(h.cl x).1.symm, (h.cl x).2.symm⟩, h.apc.symm, h.lpc.symm⟩

theorem goneInv_iff_of_gsame {s s' : State} (h : GSame s s') : GoneInv s' ↔ GoneInv s :=
  ⟨goneInv_of_gsame h.symm, goneInv_of_gsame h⟩

theorem gsame_of_core {s s' : State} (hc : ∀ c, CoreEq (s'.cl c) (s.cl c))
    (ht : s'.apc = s.apc ∧ s'.lpc = s.lpc ∧ s'.n = s.n ∧ s'.alk = s.alk ∧ s'.lisDown = s.lisDown ∧ s'.ljoined = s.ljoined ∧
      s'.aapi = s.aapi) : GSame s s' := by
  refine ⟨fun x => ?_, ht.1, ht.2.1⟩
  have := hc x; unfold CoreEq at this
  exact ⟨this.2.2.2.2.2.2.1, this.2.2.2.2.2.2.2.1⟩

/-- record updates the invariant does not look at -/
def GoneNeutral (f : Client → Client) : Prop := ∀ x, (f x).goneCnt = x.goneCnt ∧ (f x).ipc = x.ipc

theorem gsame_updCl (s : State) (c : Nat) (f : Client → Client) (hf : GoneNeutral f) : GSame s (updCl s c f) := by
  refine ⟨fun x => ?_, rfl, rfl⟩
  rw [updCl_cl]; split
  · rename_i h; subst h; exact hf _
  · exact ⟨rfl, rfl⟩

theorem gsame_setG (s : State) (t : Tid) (g : Ghost) : GSame s (setG s t g) :=
  gsame_of_core (coreEq_setG s t g) (top_setG s t g)

@[simp] theorem gone_doUnlock (s : State) (t : Tid) (m : MCls) (c : Nat) : GoneInv (doUnlock s t m c) ↔ GoneInv s :=
  goneInv_iff_of_gsame (gsame_of_core (coreEq_doUnlock s t m c) (top_doUnlock s t m c))
theorem gone_doLock {s a : State} {t : Tid} {m : MCls} {c : Nat} (h : doLock s t m c = some a) : GoneInv a ↔ GoneInv s :=
  goneInv_iff_of_gsame (gsame_of_core (coreEq_doLock h) (top_doLock h))
@[simp] theorem gone_touch (s : State) (c : Nat) : GoneInv (touch s c) ↔ GoneInv s :=
  goneInv_iff_of_gsame (gsame_of_core (fun c' => by rw [touch_cl]; exact CoreEq.rfl' _) (top_touch s c))
@[simp] theorem gone_raise (s : State) (f : Flag) : GoneInv (raise s f) ↔ GoneInv s :=
  goneInv_iff_of_gsame (by cases f <;> exact ⟨fun _ => ⟨rfl, rfl⟩, rfl, rfl⟩)
@[simp] theorem gone_raiseIf (s : State) (f : Flag) (b : Bool) : GoneInv (raiseIf s f b) ↔ GoneInv s := by
  unfold raiseIf; split <;> simp
theorem gone_updCl (s : State) (c : Nat) (f : Client → Client) (hf : GoneNeutral f) : GoneInv (updCl s c f) ↔ GoneInv s :=
  goneInv_iff_of_gsame (gsame_updCl s c f hf)
@[simp] theorem gone_setAapi (s : State) (a : Api) : GoneInv (setAapi s a) ↔ GoneInv s :=
  goneInv_iff_of_gsame ⟨fun _ => ⟨rfl, rfl⟩, rfl, rfl⟩
@[simp] theorem gone_setLisDown (s : State) : GoneInv (setLisDown s) ↔ GoneInv s :=
  goneInv_iff_of_gsame ⟨fun _ => ⟨rfl, rfl⟩, rfl, rfl⟩
@[simp] theorem gone_setLjoined (s : State) : GoneInv (setLjoined s) ↔ GoneInv s :=
  goneInv_iff_of_gsame ⟨fun _ => ⟨rfl, rfl⟩, rfl, rfl⟩
@[simp] theorem gone_setAlkT (s : State) (t : Tid) (l : List Nat) : GoneInv (setAlkT s t l) ↔ GoneInv s := by
  unfold setAlkT; split
  · exact goneInv_iff_of_gsame ⟨fun _ => ⟨rfl, rfl⟩, rfl, rfl⟩
  · exact Iff.rfl
@[simp] theorem gone_setO (s : State) (c : Nat) (pc : OPc) : GoneInv (setO s c pc) ↔ GoneInv s :=
  gone_updCl s c _ (by intro x; simp)
@[simp] theorem gone_signalU (s : State) (c : Nat) : GoneInv (signalU s c) ↔ GoneInv s := by
  unfold signalU; split <;> simp
@[simp] theorem gone_incRef (s : State) (t : Tid) (c : Nat) : GoneInv (incRef s t c) ↔ GoneInv s := by
  unfold incRef; simp only []
  rw [goneInv_iff_of_gsame (gsame_setG _ t _)]; exact gone_updCl s c _ (by intro x; simp)
@[simp] theorem gone_decRef (s : State) (t : Tid) (c : Nat) : GoneInv (decRef s t c) ↔ GoneInv s := by
  unfold decRef; split
  · simp only []; rw [goneInv_iff_of_gsame (gsame_setG _ t _)]; exact gone_updCl s c _ (by intro x; simp)
  · rw [gone_raise]; exact gone_updCl s c _ (by intro x; simp)

/-- a move of the input thread inside its class -/
theorem gone_setI {X : State} {c : Nat} {pc' : IPc} (hg : GoneInv X) (h : iClass pc' = iClass (X.cl c).ipc) :
    GoneInv (setI X c pc') := by
  constructor
  · intro c'; rw [cl_setI]; split <;> exact hg.le _
  · intro c'; rw [cl_setI]; split
    · rename_i e; subst e; simp only []; rw [h]; exact hg.ipre _
    · exact hg.ipre _
  · intro c'; rw [cl_setI]; split
    · rename_i e; subst e; simp only []; rw [h]; exact hg.ipost _
    · exact hg.ipost _
  · intro t c'; rw [cl_setI, getC_setI]; split
    · rename_i e; subst e; exact hg.cpre t _
    · exact hg.cpre t _
  · intro t c'; rw [cl_setI, getC_setI]; split
    · rename_i e; subst e; exact hg.cpost t _
    · exact hg.cpost t _

/-- a move of a calling thread that keeps (or drops) the record it is working on -/
theorem gone_setC {X : State} {t : Tid} {pc' : CPc} (ht : t = .app ∨ t = .lis) (hg : GoneInv X)
    (h : cClass pc' = none ∨ cClass pc' = cClass (getC X t)) : GoneInv (setC X t pc') := by
  constructor
  · intro c; rw [setC_cl]; exact hg.le c
  · intro c; rw [setC_cl]; exact hg.ipre c
  · intro c; rw [setC_cl]; exact hg.ipost c
  · intro t' c; rw [setC_cl, getC_setC _ _ _ ht]; split
    · rename_i e; subst e; intro e'
      rcases h with h | h
      · rw [h] at e'; cases e'
      · rw [h] at e'; exact hg.cpre _ c e'
    · exact hg.cpre t' c
  · intro t' c; rw [setC_cl, getC_setC _ _ _ ht]; split
    · rename_i e; subst e; intro e'
      rcases h with h | h
      · rw [h] at e'; cases e'
      · rw [h] at e'; exact hg.cpost _ c e'
    · exact hg.cpost t' c

theorem gone_signalD {X : State} (c : Nat) (hg : GoneInv X) : GoneInv (signalD X c) := by
  unfold signalD
  simp only []
  have h1 : GoneInv (if (X.cl c).ipc = .g .blocked then setI X c (.g .wakeD) else X) := by
    split
    · rename_i h; exact gone_setI hg (by rw [h]; rfl)
    · exact hg
  generalize (if (X.cl c).ipc = .g .blocked then setI X c (.g .wakeD) else X) = Y at h1
  have h2 : GoneInv (if Y.apc = .gone .blocked c then setC Y .app (.gone .wakeD c) else Y) := by
    split
    · rename_i h; exact gone_setC (Or.inl rfl) h1 (Or.inr (by simp [getC, h, cClass]))
    · exact h1
  generalize (if Y.apc = .gone .blocked c then setC Y .app (.gone .wakeD c) else Y) = Z at h2
  split
  · rename_i h; exact gone_setC (Or.inr rfl) h2 (Or.inr (by simp [getC, h, cClass]))
  · exact h2

theorem crOf_of_cClass {pc : CPc} {c k : Nat} (h : cClass pc = some (c, k)) : ∃ b, crOf pc = some (c, b) := by
  cases pc <;> simp [cClass] at h
  · rename_i st c'
    cases st <;> simp at h <;> (obtain ⟨rfl, _⟩ := h; exact ⟨_, rfl⟩)
  · rename_i g c'
    have : c' = c := by cases g <;> simp at h <;> exact h.1
    subst this; exact ⟨_, rfl⟩

theorem idx_of_cClass {pc : CPc} {c k : Nat} (h : cClass pc = some (c, k)) : c ∈ idxC pc := by
  cases pc <;> simp [cClass] at h
  · rename_i st c'
    cases st <;> simp at h <;> (obtain ⟨rfl, _⟩ := h; simp [idxC])
  · rename_i g c'
    have : c' = c := by cases g <;> simp at h <;> exact h.1
    subst this; simp [idxC]

/-- the hook runs in the input thread -/
theorem gone_hook_inp {X : State} {c : Nat} (hl : Life X) (hg : GoneInv X) (h : (X.cl c).ipc = .g .gone) :
    GoneInv (setI (updCl X c (fun x => { x with goneCnt := x.goneCnt + 1 })) c (.g .lockO)) := by
  have h0 := hg.ipre c (by rw [h]; rfl)
  have hno : ∀ t k, cClass (getC X t) = some (c, k) → False := by
    intro t k e
    obtain ⟨b, eb⟩ := crOf_of_cClass e
    have := (hl.cr t c b eb).2.1; rw [this] at h; cases h
  unfold setI; rw [updCl_updCl]
  constructor
  · intro c'; rw [updCl_cl]; split
    · rename_i e; subst e; simp only []; omega
    · exact hg.le _
  · intro c'; rw [updCl_cl]; split
    · rename_i e; subst e; intro e'; simp [iClass] at e'
    · exact hg.ipre _
  · intro c'; rw [updCl_cl]; split
    · rename_i e; subst e; intro _; simp only []; omega
    · exact hg.ipost _
  · intro t c'; rw [updCl_cl, getC_updCl]; split
    · rename_i e; subst e; intro e'; exact (hno t 1 e').elim
    · exact hg.cpre t _
  · intro t c'; rw [updCl_cl, getC_updCl]; split
    · rename_i e; subst e; intro e'; exact (hno t 2 e').elim
    · exact hg.cpost t _

/-- the hook runs in a calling thread (failed creation) -/
theorem gone_hook_c {X : State} {c : Nat} {t : Tid} (ht : t = .app ∨ t = .lis) (hl : Life X) (hg : GoneInv X)
    (h : getC X t = .gone .gone c) :
    GoneInv (setC (updCl X c (fun x => { x with goneCnt := x.goneCnt + 1 })) t (.gone .lockO c)) := by
  have h0 := hg.cpre t c (by rw [h]; rfl)
  have hcur : crOf (getC X t) = some (c, false) := by rw [h]; rfl
  have hi := (hl.cr t c false hcur).2.1
  have hno : ∀ t' k, t' ≠ t → cClass (getC X t') = some (c, k) → False := by
    intro t' k hne e
    obtain ⟨b, eb⟩ := crOf_of_cClass e
    exact cr_excl' hl hne hcur eb
  constructor
  · intro c'; rw [setC_cl, updCl_cl]; split
    · rename_i e; subst e; simp only []; omega
    · exact hg.le _
  · intro c'; rw [setC_cl, updCl_cl]; split
    · rename_i e; subst e; simp only []; rw [hi]; intro e'; simp [iClass] at e'
    · exact hg.ipre _
  · intro c'; rw [setC_cl, updCl_cl]; split
    · rename_i e; subst e; simp only []; rw [hi]; intro e'; simp [iClass] at e'
    · exact hg.ipost _
  · intro t' c'; rw [setC_cl, getC_setC _ _ _ ht, getC_updCl]; split
    · intro e'; simp [cClass] at e'
    · rename_i hne; rw [updCl_cl]; split
      · rename_i e; subst e; intro e'; exact (hno t' 1 hne e').elim
      · exact hg.cpre t' _
  · intro t' c'; rw [setC_cl, getC_setC _ _ _ ht, getC_updCl]; split
    · intro e'; simp only [cClass, Option.some.injEq, Prod.mk.injEq] at e'
      obtain ⟨rfl, _⟩ := e'
      rw [updCl_cl_same]; simp only []; omega
    · rename_i hne; rw [updCl_cl]; split
      · rename_i e; subst e; intro e'; exact (hno t' 2 hne e').elim
      · exact hg.cpost t' _

/-- calloc: a fresh record, hook not run -/
theorem gone_alloc {s : State} {t : Tid} (ht : t = .app ∨ t = .lis) (hg : GoneInv s) (hb : Bnd s) :
    GoneInv (setC (setN (updCl s s.n Client.fresh) (s.n + 1)) t (.cr .insLock s.n)) := by
  have hi : (s.cl s.n).ipc = .notStarted := by
    apply Classical.byContradiction; intro e; have := hb.thr s.n (Or.inl e); omega
  have hno : ∀ t' k, cClass (getC s t') = some (s.n, k) → False := by
    intro t' k e
    have hm := idx_of_cClass e
    cases t' with
    | app => have := hb.app _ hm; omega
    | lis => have := hb.lis _ hm; omega
    | inp _ => simp [getC, cClass] at e
    | out _ => simp [getC, cClass] at e
  have hgc : ∀ t', getC (setC (setN (updCl s s.n Client.fresh) (s.n + 1)) t (.cr .insLock s.n)) t' =
      if t' = t then .cr .insLock s.n else getC s t' := by
    intro t'; rw [getC_setC _ _ _ ht]; split
    · rfl
    · cases t' <;> rfl
  have hcl : ∀ c', (setC (setN (updCl s s.n Client.fresh) (s.n + 1)) t (.cr .insLock s.n)).cl c' =
      if c' = s.n then Client.fresh (s.cl s.n) else s.cl c' := by
    intro c'; rw [setC_cl, cl_setN, updCl_cl]
  constructor
  · intro c'; rw [hcl]; split
    · simp [Client.fresh]
    · exact hg.le _
  · intro c'; rw [hcl]; split
    · intro _; simp [Client.fresh]
    · exact hg.ipre _
  · intro c'; rw [hcl]; split
    · simp [Client.fresh, hi, iClass]
    · exact hg.ipost _
  · intro t' c'; rw [hgc, hcl]; split
    · intro e; simp only [cClass, Option.some.injEq, Prod.mk.injEq] at e
      obtain ⟨rfl, _⟩ := e; simp [Client.fresh]
    · intro e; split
      · rename_i e2; subst e2; exact (hno t' 1 e).elim
      · exact hg.cpre t' _ e
  · intro t' c'; rw [hgc, hcl]; split
    · intro e; simp [cClass] at e
    · intro e; split
      · rename_i e2; subst e2; exact (hno t' 2 e).elim
      · exact hg.cpost t' _ e

/-- pthread_create of the input thread: the record passes from the creating thread to its own thread -/
theorem gone_startInp {X : State} {c : Nat} {t : Tid} (ht : t = .app ∨ t = .lis) (hg : GoneInv X)
    (h : getC X t = .cr .create c) : GoneInv (setC (setI X c .createO) t (finished t)) := by
  have h0 := hg.cpre t c (by rw [h]; rfl)
  have hf : cClass (finished t) = none := by cases t <;> rfl
  refine gone_setC ht ?_ (Or.inl hf)
  constructor
  · intro c'; rw [cl_setI]; split <;> exact hg.le _
  · intro c'; rw [cl_setI]; split
    · rename_i e; subst e; intro _; exact h0
    · exact hg.ipre _
  · intro c'; rw [cl_setI]; split
    · rename_i e; subst e; intro e'; simp [iClass] at e'
    · exact hg.ipost _
  · intro t' c'; rw [cl_setI, getC_setI]; split
    · rename_i e; subst e; exact hg.cpre t' _
    · exact hg.cpre t' _
  · intro t' c'; rw [cl_setI, getC_setI]; split
    · rename_i e; subst e; exact hg.cpost t' _
    · exact hg.cpost t' _

macro "gone_strip" hg:ident : tactic => `(tactic| repeat' (first
  | exact $hg
  | (rw [gone_doLock ‹doLock _ _ _ _ = some _›])
  | (simp only [gone_doUnlock, gone_touch, gone_raise, gone_raiseIf, gone_setAapi, gone_setLisDown, gone_setLjoined,
      gone_setAlkT, gone_setO, gone_signalU, gone_incRef, gone_decRef])
  | (refine (gone_updCl _ _ _ ?neutral).2 ?_
     case neutral => (intro x; simp))
  | (with_reducible refine gone_signalD _ ?_)))

theorem goneInv_out {s : State} {c : Nat} {l : Lbl} {s' : State} (hg : GoneInv s)
    (hs : (l, s') ∈ outSucc s c) : GoneInv s' := by
  unfold outSucc at hs
  split at hs
  all_goals (try unfold storeSt at hs)
  all_goals (try simp only [] at hs)
  all_goals (try split at hs)
  all_goals first
    | (simp at hs; done)
    | (simp at hs; crack_hyps
       all_goals (subst_vars; gone_strip hg))

theorem goneInv_inp {s : State} {c : Nat} {l : Lbl} {s' : State} (hl : Life s) (hg : GoneInv s)
    (hs : (l, s') ∈ inpSucc s c) : GoneInv s' := by
  unfold inpSucc at hs
  split at hs
  all_goals (try unfold storeSt at hs)
  all_goals (try unfold goneSucc at hs)
  all_goals (try simp only [] at hs)
  all_goals (try split at hs)
  all_goals (try split at hs)
  all_goals first
    | (simp at hs; done)
    | (simp at hs; crack_hyps
       all_goals (
         subst_vars
         dl_facts
         first
         | (refine gone_hook_inp ?_ ?_ ?_
            case refine_1 => life_strip hl hl
            case refine_2 => gone_strip hg
            simp [*]; done)
         | (refine gone_setI ?_ ?_
            case refine_1 => gone_strip hg
            first | (simp [iClass, cl_setO, *]; done) | (split <;> simp_all [iClass]; done))))

macro "gone_side" : tactic => `(tactic| (
  try simp only [apc_signalD', lpc_signalD', cClass, getC, finished, nextIter, afterNext,
    apc_doUnlock, apc_incRef, apc_decRef, apc_raise, apc_raiseIf, apc_setAapi, apc_setLisDown, apc_setLjoined, apc_signalU,
    apc_setAlkT, touch_apc, touch_lpc, updCl_apc, updCl_lpc, lpc_doUnlock, lpc_incRef, lpc_decRef,
    lpc_raise, lpc_raiseIf, lpc_setAapi, lpc_setLisDown, lpc_setLjoined, lpc_signalU, lpc_setAlkT, *] at *
  first | done | (simp_all [cClass]; done) | (split <;> simp_all [cClass]; done) | grind))

macro "gone_ctac" hl:ident hg:ident hb:ident : tactic => `(tactic| (
  subst_vars
  dl_facts
  first
  | (refine gone_hook_c (by simp) ?_ ?_ ?_
     case refine_1 => life_strip $hl $hl
     case refine_2 => gone_strip $hg
     simp [getC, *]; done)
  | (exact gone_alloc (by simp) $hg $hb)
  | (refine gone_startInp (by simp) ?_ ?_
     case refine_1 => gone_strip $hg
     simp [getC, *]; done)
  | (refine gone_setC (by simp) ?_ ?_
     case refine_1 => gone_strip $hg
     gone_side)
  | (refine gone_setC (by simp) (gone_setC (t := Tid.lis) (by simp) ?_ ?_) ?_
     case refine_1 => gone_strip $hg
     all_goals gone_side)))

theorem goneInv_caller_app {s : State} (hp : Tid.app = .lis → lisPc s.lpc = true)
    {l : Lbl} {s' : State} (hl : Life s) (hg : GoneInv s) (hb : Bnd s) (hs : (l, s') ∈ callerSucc s Tid.app) :
    GoneInv s' := by
  unfold callerSucc at hs
  simp only [getC] at hs
  split at hs
  all_goals (try unfold iterSucc at hs)
  all_goals (try unfold bodySucc at hs)
  all_goals (try unfold closeSucc at hs)
  all_goals (try unfold nfSucc at hs)
  all_goals (try unfold crSucc at hs)
  all_goals (try unfold goneSucc at hs)
  all_goals (try unfold storeSt at hs)
  all_goals (try simp only [] at hs)
  all_goals (repeat' (split at hs))
  all_goals first
    | (simp at hs; done)
    | (exfalso; have := hp rfl; simp [lisPc, *] at this; done)
    | (simp at hs; crack_hyps
       all_goals gone_ctac hl hg hb)

theorem goneInv_caller_lis {s : State} (hp : Tid.lis = .lis → lisPc s.lpc = true)
    {l : Lbl} {s' : State} (hl : Life s) (hg : GoneInv s) (hb : Bnd s) (hs : (l, s') ∈ callerSucc s Tid.lis) :
    GoneInv s' := by
  unfold callerSucc at hs
  simp only [getC] at hs
  split at hs
  all_goals (try unfold iterSucc at hs)
  all_goals (try unfold bodySucc at hs)
  all_goals (try unfold closeSucc at hs)
  all_goals (try unfold nfSucc at hs)
  all_goals (try unfold crSucc at hs)
  all_goals (try unfold goneSucc at hs)
  all_goals (try unfold storeSt at hs)
  all_goals (try simp only [] at hs)
  all_goals (repeat' (split at hs))
  all_goals first
    | (simp at hs; done)
    | (exfalso; have := hp rfl; simp [lisPc, *] at this; done)
    | (simp at hs; crack_hyps
       all_goals gone_ctac hl hg hb)

theorem goneInv_caller {s : State} {t : Tid} (ht : t = .app ∨ t = .lis) (hp : t = .lis → lisPc s.lpc = true)
    {l : Lbl} {s' : State} (hl : Life s) (hg : GoneInv s) (hb : Bnd s) (hs : (l, s') ∈ callerSucc s t) :
    GoneInv s' := by
  rcases ht with rfl | rfl
  · exact goneInv_caller_app hp hl hg hb hs
  · exact goneInv_caller_lis hp hl hg hb hs

theorem goneInv_step {s s' : State} (hr : Reach s) (hg : GoneInv s) (hs : Step s s') : GoneInv s' := by
  have hl := life_reach hr
  have hb := bnd_reach hr
  obtain ⟨t, l, hm⟩ := hs
  cases t with
  | app => exact goneInv_caller (Or.inl rfl) (fun e => by cases e) hl hg hb hm
  | lis =>
    simp only [succ] at hm
    split at hm
    · exact goneInv_caller (Or.inr rfl) (fun _ => ‹_›) hl hg hb hm
    · simp at hm
  | inp c => exact goneInv_inp hl hg hm
  | out c => exact goneInv_out hg hm

theorem goneInv_reach {s : State} (h : Reach s) : GoneInv s := by
  induction h with
  | init => exact goneInv_init
  | step hr hs ih => exact goneInv_step hr ih hs

end VncModel.Threads
