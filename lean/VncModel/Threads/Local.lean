import VncModel.Threads.Own
/-! Thread-local invariant: at every program counter the ghost lists of the thread (mutexes held,
counted references held) are exactly the ones given by the tables below.  The tables are the
"assertions" of the model: every later per-site fact (what is held when a mutex is requested, that a
dereferenced client is referenced, ...) is read off them. -/
namespace VncModel.Threads

abbrev Mx := MCls × Nat
def mL : Mx := (.L, 0)
def mC : Mx := (.C, 0)

/-- rfbClientConnectionGone(c) -/
def heldG (g : GSt) (c : Nat) : List Mx :=
  match g with
  | .lockR => [mL]
  | .unlockLw => [(.R, c), mL]
  | .waitD => [(.R, c)]
  | .unlockRw => [(.R, c)]
  | .unlockR => [(.R, c), mL]
  | .unlockL => [mL]
  | .unlockO => [(.O, c)]
  | .unlockS => [(.S, c)]
  | _ => []

def heldI (pc : IPc) (c : Nat) : List Mx :=
  match pc with
  | .w1 | .x4s | .x4u => [(.O, c)]
  | .f1 | .f2 | .e1 => [(.U, c)]
  | .k .sigU | .k .unlockU => [(.U, c)]
  | .x0s | .x1 | .x2 => [(.U, c)]
  | .g st => heldG st c
  | _ => []

def heldO (pc : OPc) (c : Nat) : List Mx :=
  match pc with
  | .inU | .unlockUw | .unlockUx | .snapUnlock => [(.U, c)]
  | .incUnlock => [(.R, c)]
  | .sfu => [(.S, c)]
  | .e1 => [(.U, c), (.S, c)]
  | .c1 => [mC, (.S, c)]
  | .w1 => [(.O, c), (.S, c)]
  | .k .sigU | .k .unlockU => [(.U, c), (.S, c)]
  | .k .setSt | .k .pipe => [(.S, c)]
  | .decSignal | .decUnlock => [(.R, c)]
  | _ => []

def refsO (pc : OPc) (c : Nat) : List Nat :=
  match pc with
  | .incUnlock | .lockS | .sfu | .e1 | .c1 | .w1 | .k _ | .decLock => [c]
  | _ => []

/-- rfbClientIteratorNext -/
def heldIt (st : ISt) (prev nxt : Option Nat) : List Mx :=
  match st with
  | .incLock | .unlockL => [mL]
  | .incUnlock => (match nxt with | some c => [(.R, c), mL] | none => [mL])
  | .decSignal | .decUnlock => (match prev with | some q => [(.R, q)] | none => [])
  | _ => []

def refsIt (st : ISt) (prev nxt : Option Nat) : List Nat :=
  (match st, nxt with
   | .incUnlock, some c | .unlockL, some c | .decLock, some c | .decSignal, some c | .decUnlock, some c => [c]
   | _, _ => []) ++
  (match st, prev with
   | .lockL, some q | .incLock, some q | .incUnlock, some q | .unlockL, some q | .decLock, some q => [q]
   | _, _ => [])

/-- what the procedure holds across its loop (rfbNewFramebuffer: the clients locked so far) -/
def procHeld (p : Proc) (alk : List Nat) : List Mx :=
  match p with
  | .newfb => alk.map fun c => (MCls.S, c)
  | _ => []

def procRefs (p : Proc) (alk : List Nat) : List Nat :=
  match p with
  | .newfb => alk
  | _ => []

def bodyHeld (p : Proc) (k c : Nat) : List Mx :=
  match p, k with
  | .mark, 0 => []
  | .mark, _ => [(.U, c)]
  | .send, 0 | .send, 1 => []
  | .send, 3 => [(.O, c), (.S, c)]
  | .send, _ => [(.S, c)]
  | .newfb, 1 => [(.R, c)]
  | _, _ => []

def bodyRefs (p : Proc) (k c : Nat) : List Nat :=
  match p, k with
  | .newfb, 0 => [c]
  | .newfb, _ => [c, c]
  | _, _ => [c]

def heldC (pc : CPc) (alk : List Nat) : List Mx :=
  match pc with
  | .iter p st prev nxt => heldIt st prev nxt ++ procHeld p alk
  | .body p k c => bodyHeld p k c ++ procHeld p alk
  | .close p k c =>
    (match k with | .sigU | .unlockU => [(MCls.U, c)] | _ => []) ++ (match p with | .send => [(MCls.S, c)] | _ => []) ++
      procHeld p alk
  | .nf st i =>
    match st with
    | .lockC => alk.map fun c => (MCls.S, c)
    | .unlockC => [mC]
    | _ =>
      match alk[i]? with
      | none => []
      | some a =>
        (match st with
         | .sigU | .unlockU => [(MCls.U, a)]
         | .decSignal | .decUnlock => [(MCls.R, a)]
         | _ => []) ++ [mC] ++
        ((alk.drop (match st with | .lockU | .sigU | .unlockU | .unlockS => i | _ => i + 1)).map fun c => (MCls.S, c))
  | .cr st c =>
    (match st with
     | .insUnlock => [mL]
     | .wUnlock => [(.O, c)]
     | .kSigU | .kUnlockU => [(.U, c)]
     | _ => [])
  | .gone g c => heldG g c
  | _ => []

def refsC (pc : CPc) (alk : List Nat) : List Nat :=
  match pc with
  | .iter p st prev nxt => refsIt st prev nxt ++ procRefs p alk
  | .body p k c => bodyRefs p k c ++ procRefs p alk
  | .close p _ c => [c] ++ procRefs p alk
  | .nf st i =>
    (match st with
     | .lockC => alk
     | .unlockC => []
     | .decSignal | .decUnlock => alk.drop (i + 1)
     | _ => alk.drop i)
  | .sdJoin _ nxt => nxt.toList
  | _ => []

def heldOf (s : State) (t : Tid) : List Mx :=
  match t with
  | .app => heldC s.apc s.alk
  | .lis => heldC s.lpc []
  | .inp c => heldI (s.cl c).ipc c
  | .out c => heldO (s.cl c).opc c

def refsOf (s : State) (t : Tid) : List Nat :=
  match t with
  | .app => refsC s.apc s.alk
  | .lis => refsC s.lpc []
  | .inp _ => []
  | .out c => refsO (s.cl c).opc c

/-- the ghost of thread t is what its program counter says -/
def LocalT (s : State) (t : Tid) : Prop :=
  (∀ x, (getG s t).held.count x = (heldOf s t).count x) ∧ (∀ x, (getG s t).refs.count x = (refsOf s t).count x)

def Local (s : State) : Prop := ∀ t, LocalT s t

end VncModel.Threads
