import VncModel.Threads.Wake
/-! Where the socket of a client is closed: only in the step `x4s` of its own input thread, which
holds the client's outputMutex (clientInput: LOCK O; close; sock = -1; UNLOCK O). -/
set_option linter.unusedSimpArgs false
namespace VncModel.Threads

theorem sock_label_out {s s' : State} {c d : Nat} (hs : (Lbl.sock c, s') ∈ outSucc s d) : False := by
  unfold outSucc at hs
  split at hs
  all_goals (try unfold storeSt at hs)
  all_goals (try simp only [] at hs)
  all_goals (try split at hs)
  all_goals first
    | (simp at hs; done)
    | (simp at hs; crack_hyps; all_goals simp_all)

theorem sock_label_caller {s s' : State} {c : Nat} {t : Tid} (hs : (Lbl.sock c, s') ∈ callerSucc s t) : False := by
  unfold callerSucc at hs
  split at hs
  all_goals (try unfold iterSucc at hs)
  all_goals (try unfold bodySucc at hs)
  all_goals (try unfold closeSucc at hs)
  all_goals (try unfold nfSucc at hs)
  all_goals (try unfold crSucc at hs)
  all_goals (try unfold goneSucc at hs)
  all_goals (try unfold storeSt at hs)
  all_goals (try simp only [] at hs)
  all_goals (repeat' (split at hs))
  all_goals first
    | (simp at hs; done)
    | (simp at hs; crack_hyps; all_goals simp_all)

theorem sock_label_inp' {s s' : State} {c d : Nat} (hs : (Lbl.sock c, s') ∈ succ s (.inp d)) :
    d = c ∧ (s.cl c).ipc = .x4s := by
  simp only [succ] at hs
  unfold inpSucc at hs
  split at hs
  all_goals (try unfold storeSt at hs)
  all_goals (try unfold goneSucc at hs)
  all_goals (try simp only [] at hs)
  all_goals (try split at hs)
  all_goals (try split at hs)
  all_goals first
    | (simp at hs; done)
    | (simp at hs; crack_hyps; all_goals (first | (simp_all; done) | (subst_vars; exact ⟨rfl, ‹_›⟩)))

/-- the label `sock c` is produced by the input thread of c only -/
theorem sock_label_inp {s s' : State} {c : Nat} {t : Tid} (hs : (Lbl.sock c, s') ∈ succ s t)
    (ht : ∀ d, t ≠ .inp d) : False := by
  cases t with
  | app => exact sock_label_caller hs
  | lis =>
    simp only [succ] at hs
    split at hs
    · exact sock_label_caller hs
    · simp at hs
  | inp d => exact ht d rfl
  | out d => exact sock_label_out hs

end VncModel.Threads
