import VncModel.Threads.LocalStep
/-! Lock order: the mutexes a thread may request at a program counter (`pendOf`), the strict order
`mlt` on mutex instances, and the fact that everything held is below everything requested. -/
namespace VncModel.Threads

/-- rank of the lock classes: sendMutex < cursorMutex < rfbClientListMutex < updateMutex, outputMutex
< refCountMutex -/
def rank : MCls → Nat
  | .S => 0 | .C => 1 | .L => 2 | .U => 3 | .O => 3 | .R => 4

/-- strict order on mutex instances: by class rank; two sendMutexes (rfbNewFramebuffer takes several)
by decreasing client id, the order in which the client list is walked -/
def mlt (a b : Mx) : Prop := rank a.1 < rank b.1 ∨ (a.1 = .S ∧ b.1 = .S ∧ b.2 < a.2)

instance (a b : Mx) : Decidable (mlt a b) := by unfold mlt; exact inferInstance

theorem mlt_irrefl (a : Mx) : ¬ mlt a a := by
  unfold mlt; omega

theorem mlt_trans {a b c : Mx} (h1 : mlt a b) (h2 : mlt b c) : mlt a c := by
  obtain ⟨ma, ia⟩ := a; obtain ⟨mb, ib⟩ := b; obtain ⟨mc, ic⟩ := c
  unfold mlt at *
  cases ma <;> cases mb <;> cases mc <;> simp [rank] at * <;> omega

/-- the class-level nesting relation actually used by the model (held class, requested class) -/
def nesting : List (MCls × MCls) :=
  [(.S, .S), (.S, .C), (.S, .L), (.S, .U), (.S, .O), (.S, .R), (.C, .U), (.C, .R), (.L, .R)]

/-- apart from sendMutex/sendMutex (ordered by instance) the nesting relation is a strict partial
order: it is contained in the strict order of the ranks -/
theorem nesting_ranked : ∀ p ∈ nesting, p = (MCls.S, MCls.S) ∨ rank p.1 < rank p.2 := by decide

/-! ### what a thread may request next -/
def pendG (g : GSt) (c : Nat) : List Mx :=
  match g with
  | .lockL => [mL]
  | .lockR | .wakeD => [(.R, c)]
  | .lockO => [(.O, c)]
  | .lockS => [(.S, c)]
  | _ => []

def pendI (pc : IPc) (c : Nat) : List Mx :=
  match pc with
  | .sel => [(.O, c), (.U, c)]
  | .x0 => [(.U, c)]
  | .x4 => [(.O, c)]
  | .g st => pendG st c
  | _ => []

def pendO (pc : OPc) (c : Nat) : List Mx :=
  match pc with
  | .top | .woken | .snapLock => [(.U, c)]
  | .incLock | .decLock => [(.R, c)]
  | .lockS => [(.S, c)]
  | .sfu => [(.U, c), mC, (.O, c)]
  | _ => []

def pendBody (p : Proc) (k c : Nat) : List Mx :=
  match p, k with
  | .mark, 0 => [(.U, c)]
  | .send, 0 => []
  | .send, 1 => [(.S, c)]
  | .send, 2 => [(.O, c)]
  | .send, 3 => []
  | .send, 4 => []
  | .send, _ => [(.U, c)]
  | .newfb, 0 => [(.R, c)]
  | .newfb, 1 => []
  | .newfb, _ => [(.S, c)]
  | .shutdown, 0 => []
  | .shutdown, _ => [(.U, c)]
  | _, _ => []

def pendC (pc : CPc) (alk : List Nat) : List Mx :=
  match pc with
  | .iter _ .lockL _ _ => [mL]
  | .iter _ .incLock _ (some c) => [(.R, c)]
  | .iter _ .decLock (some q) _ => [(.R, q)]
  | .body p k c => pendBody p k c
  | .nf .lockC _ => [mC]
  | .nf .lockU i => (alk[i]?.toList).map fun a => (MCls.U, a)
  | .nf .decLock i => (alk[i]?.toList).map fun a => (MCls.R, a)
  | .cr .insLock _ => [mL]
  | .cr .wLock c => [(.O, c)]
  | .cr .kLockU c => [(.U, c)]
  | .gone g c => pendG g c
  | _ => []

def pendOf (s : State) (t : Tid) : List Mx :=
  match t with
  | .app => pendC s.apc s.alk
  | .lis => pendC s.lpc []
  | .inp c => pendI (s.cl c).ipc c
  | .out c => pendO (s.cl c).opc c

/-- the mutex a step acquires (LOCK, or the re-acquisition at the end of a condition wait) -/
def lockReq : Lbl → Option Mx
  | .lock m c => some (mkey m c)
  | .wake .u c => some (.U, c)
  | .wake .d c => some (.R, c)
  | _ => none

/-- the remembered clients of rfbNewFramebuffer are above the iterator position (the list is walked
by decreasing id) -/
def Desc (s : State) : Prop :=
  match s.apc with
  | .iter .newfb _ prev nxt =>
    (∀ a ∈ s.alk, ∀ q, prev = some q → q ≤ a) ∧ (∀ a ∈ s.alk, ∀ c, nxt = some c → c < a) ∧ (prev = none → s.alk = [])
  | .body .newfb k c => ∀ a ∈ s.alk, c < a
  | .close .newfb _ _ => False        -- rfbNewFramebuffer never closes a client
  | _ => True

theorem held_lt_pendG (g : GSt) (c : Nat) : ∀ k ∈ pendG g c, ∀ x ∈ heldG g c, mlt x k := by
  cases g <;> simp [pendG, heldG, mlt, rank, mL]

theorem held_lt_pendI (pc : IPc) (c : Nat) : ∀ k ∈ pendI pc c, ∀ x ∈ heldI pc c, mlt x k := by
  cases pc with
  | g st => exact held_lt_pendG st c
  | _ => simp [pendI, heldI, mlt, rank]

theorem held_lt_pendO (pc : OPc) (c : Nat) : ∀ k ∈ pendO pc c, ∀ x ∈ heldO pc c, mlt x k := by
  cases pc <;> simp [pendO, heldO, mlt, rank, mC]

theorem mlt_S_of_rank {c : Nat} {k : Mx} (h : 0 < rank k.1) : mlt (MCls.S, c) k := by
  unfold mlt; left; simpa [rank] using h

theorem held_lt_pendC (pc : CPc) (alk : List Nat)
    (hd : ∀ k c, pc = .body .newfb k c → ∀ a ∈ alk, c < a) :
    ∀ k ∈ pendC pc alk, ∀ x ∈ heldC pc alk, mlt x k := by
  cases pc with
  | gone g c => exact held_lt_pendG g c
  | iter p st prev nxt =>
    cases st <;> cases prev <;> cases nxt <;> cases p <;>
      simp [pendC, heldC, heldIt, procHeld, mlt, rank, mL]
  | body p k c =>
    intro kk hk x hx
    simp only [pendC] at hk
    simp only [heldC, List.mem_append] at hx
    cases p with
    | newfb =>
      simp only [procHeld, List.mem_map] at hx
      match k, hk with
      | 0, hk =>
        simp [pendBody] at hk; subst hk
        rcases hx with hx | ⟨a, _, rfl⟩
        · simp [bodyHeld] at hx
        · simp [mlt, rank]
      | 1, hk => simp [pendBody] at hk
      | k + 2, hk =>
        simp [pendBody] at hk; subst hk
        rcases hx with hx | ⟨a, ha, rfl⟩
        · simp [bodyHeld] at hx
        · right; exact ⟨rfl, rfl, hd _ c rfl a ha⟩
    | mark =>
      match k, hk with
      | 0, hk => simp [pendBody] at hk; subst hk; simp [bodyHeld, procHeld] at hx
      | k + 1, hk => simp [pendBody] at hk
    | send =>
      match k, hk with
      | 0, hk => simp [pendBody] at hk
      | 1, hk => simp [pendBody] at hk; subst hk; simp [bodyHeld, procHeld] at hx
      | 2, hk => simp [pendBody] at hk; subst hk; simp [bodyHeld, procHeld] at hx; subst hx; simp [mlt, rank]
      | 3, hk => simp [pendBody] at hk
      | 4, hk => simp [pendBody] at hk
      | k + 5, hk => simp [pendBody] at hk; subst hk; simp [bodyHeld, procHeld] at hx; subst hx; simp [mlt, rank]
    | shutdown =>
      match k, hk with
      | 0, hk => simp [pendBody] at hk
      | k + 1, hk => simp [pendBody] at hk; subst hk; simp [bodyHeld, procHeld] at hx
    | count => simp [pendBody] at hk
    | iter => simp [pendBody] at hk
    | cleanup => simp [pendBody] at hk
  | nf st i =>
    intro kk hk x hx
    cases st <;> simp only [pendC, List.mem_map, List.mem_singleton, Option.mem_toList, List.not_mem_nil] at hk
    · -- lockC
      subst hk
      simp only [heldC, List.mem_map] at hx
      obtain ⟨a, _, rfl⟩ := hx
      simp [mlt, rank, mC]
    · -- lockU
      obtain ⟨a, ha, rfl⟩ := hk
      simp only [heldC, ha, List.mem_append, List.mem_map, List.mem_singleton, List.not_mem_nil, false_or] at hx
      rcases hx with rfl | ⟨b, _, rfl⟩ <;> simp [mlt, rank, mC]
    · -- decLock
      obtain ⟨a, ha, rfl⟩ := hk
      simp only [heldC, ha, List.mem_append, List.mem_map, List.mem_singleton, List.not_mem_nil, false_or] at hx
      rcases hx with rfl | ⟨b, _, rfl⟩ <;> simp [mlt, rank, mC]
  | cr st c => cases st <;> simp [pendC, heldC, mlt, rank, mL]
  | _ => simp [pendC]

/-! ### every acquisition of the model is announced by `pendOf` -/
macro "pend_fin" : tactic => `(tactic| (
  subst_vars
  intro hk
  first
  | (simp [lockReq] at hk; done)
  | (simp [lockReq] at hk; subst_vars
     simp [pendOf, pendO, pendI, pendG, pendC, pendBody, mkey, MCls.perClient, mL, mC, getC, *])))

theorem pend_out {s : State} {c : Nat} {l : Lbl} {s' : State} {k : Mx}
    (hs : (l, s') ∈ outSucc s c) : lockReq l = some k → k ∈ pendOf s (.out c) := by
  unfold outSucc at hs
  split at hs
  all_goals (try unfold storeSt at hs)
  all_goals (try simp only [] at hs)
  all_goals (try split at hs)
  all_goals first
    | (simp at hs; done)
    | (simp at hs; crack_hyps; all_goals pend_fin)

theorem pend_inp {s : State} {c : Nat} {l : Lbl} {s' : State} {k : Mx}
    (hs : (l, s') ∈ inpSucc s c) : lockReq l = some k → k ∈ pendOf s (.inp c) := by
  unfold inpSucc at hs
  split at hs
  all_goals (try unfold storeSt at hs)
  all_goals (try unfold goneSucc at hs)
  all_goals (try simp only [] at hs)
  all_goals (try split at hs)
  all_goals (try split at hs)
  all_goals first
    | (simp at hs; done)
    | (simp at hs; crack_hyps; all_goals pend_fin)

theorem pend_caller {s : State} {t : Tid} (ht : t = .app ∨ t = .lis) (hp : t = .lis → lisPc s.lpc = true)
    {l : Lbl} {s' : State} {k : Mx}
    (hs : (l, s') ∈ callerSucc s t) : lockReq l = some k → k ∈ pendOf s t := by
  unfold callerSucc at hs
  rcases ht with rfl | rfl
  all_goals (
    simp only [getC] at hs
    split at hs
    all_goals (try unfold iterSucc at hs)
    all_goals (try unfold bodySucc at hs)
    all_goals (try unfold closeSucc at hs)
    all_goals (try unfold nfSucc at hs)
    all_goals (try unfold crSucc at hs)
    all_goals (try unfold goneSucc at hs)
    all_goals (try unfold storeSt at hs)
    all_goals (try simp only [] at hs)
    all_goals (repeat' (split at hs))
    all_goals first
      | (simp at hs; done)
      | (exfalso; have := hp rfl; simp [lisPc, *] at this; done)
      | (simp at hs; crack_hyps; all_goals pend_fin))

theorem lock_label_pending {s : State} {t : Tid} {l : Lbl} {s' : State} {k : Mx}
    (hs : (l, s') ∈ succ s t) (hk : lockReq l = some k) : k ∈ pendOf s t := by
  cases t with
  | app => exact pend_caller (Or.inl rfl) (fun h => by cases h) hs hk
  | lis =>
    simp only [succ] at hs
    split at hs
    · exact pend_caller (Or.inr rfl) (fun _ => ‹_›) hs hk
    · simp at hs
  | inp c => exact pend_inp hs hk
  | out c => exact pend_out hs hk

/-! ### the application thread's program counter under the primitives -/
@[simp] theorem apc_doUnlock (s : State) (t : Tid) (m : MCls) (c : Nat) : (doUnlock s t m c).apc = s.apc :=
  (pcSame_doUnlock s t m c).1
theorem apc_doLock {s a : State} {t : Tid} {m : MCls} {c : Nat} (h : doLock s t m c = some a) : a.apc = s.apc :=
  (pcSame_doLock h).1
@[simp] theorem apc_incRef (s : State) (t : Tid) (c : Nat) : (incRef s t c).apc = s.apc := (pcSame_incRef s t c).1
@[simp] theorem apc_decRef (s : State) (t : Tid) (c : Nat) : (decRef s t c).apc = s.apc := (pcSame_decRef s t c).1
@[simp] theorem apc_setAlkT (s : State) (t : Tid) (l : List Nat) : (setAlkT s t l).apc = s.apc := by
  unfold setAlkT; split <;> rfl
@[simp] theorem apc_raise (s : State) (f : Flag) : (raise s f).apc = s.apc := by cases f <;> rfl
@[simp] theorem apc_raiseIf (s : State) (f : Flag) (b : Bool) : (raiseIf s f b).apc = s.apc := by
  unfold raiseIf; split <;> simp
@[simp] theorem apc_setN (s : State) (n : Nat) : (setN s n).apc = s.apc := rfl
@[simp] theorem apc_setAapi (s : State) (a : Api) : (setAapi s a).apc = s.apc := rfl
@[simp] theorem apc_setLisDown (s : State) : (setLisDown s).apc = s.apc := rfl
@[simp] theorem apc_setLjoined (s : State) : (setLjoined s).apc = s.apc := rfl
@[simp] theorem apc_setI (s : State) (c : Nat) (pc : IPc) : (setI s c pc).apc = s.apc := rfl
@[simp] theorem apc_setO (s : State) (c : Nat) (pc : OPc) : (setO s c pc).apc = s.apc := rfl
@[simp] theorem apc_signalU (s : State) (c : Nat) : (signalU s c).apc = s.apc := by unfold signalU; split <;> simp
@[simp] theorem alk_setAlkT_ne (s : State) (t : Tid) (l : List Nat) (h : t ≠ .app) : (setAlkT s t l).alk = s.alk := by
  unfold setAlkT; simp [h]
@[simp] theorem alk_setC (s : State) (t : Tid) (pc : CPc) : (setC s t pc).alk = s.alk := setC_alk s t pc

/-- `Desc` only looks at the application thread's program counter and remembered list -/
theorem desc_congr {s s' : State} (h1 : s'.apc = s.apc) (h2 : s'.alk = s.alk) : Desc s' ↔ Desc s := by
  unfold Desc; rw [h1, h2]

theorem desc_of_not_newfb {s : State} (h : ∀ st prev nxt, s.apc ≠ .iter .newfb st prev nxt)
    (h2 : ∀ k c, s.apc ≠ .body .newfb k c) (h3 : ∀ k c, s.apc ≠ .close .newfb k c) : Desc s := by
  unfold Desc
  split
  · rename_i heq; exact absurd heq (h _ _ _)
  · rename_i heq; exact absurd heq (h2 _ _)
  · rename_i heq; exact absurd heq (h3 _ _)
  · trivial

theorem desc_signalD (s : State) (c : Nat) : Desc (signalD s c) ↔ Desc s := by
  unfold signalD
  simp only []
  have e1 : ∀ X : State, Desc (setI X c (.g .wakeD)) ↔ Desc X := fun X => desc_congr rfl rfl
  have e3 : ∀ X : State, Desc (setC X .lis (.gone .wakeD c)) ↔ Desc X := fun X => desc_congr rfl rfl
  have e2 : ∀ X : State, X.apc = .gone .blocked c → (Desc (setC X .app (.gone .wakeD c)) ↔ Desc X) := by
    intro X hX
    constructor <;> intro _
    · exact desc_of_not_newfb (by simp [hX]) (by simp [hX]) (by simp [hX])
    · exact desc_of_not_newfb (by simp [setC]) (by simp [setC]) (by simp [setC])
  split <;> split <;> split <;> simp_all

theorem pickBelow_lt (s : State) (b : Bool) : ∀ k c, pickBelow s b k = some c → c < k := by
  intro k
  induction k with
  | zero => intro c h; simp [pickBelow] at h
  | succ k ih =>
    intro c h
    simp only [pickBelow] at h
    split at h
    · simp at h; omega
    · have := ih c h; omega

@[simp] theorem desc_setI (s : State) (c : Nat) (pc : IPc) : Desc (setI s c pc) ↔ Desc s := desc_congr rfl rfl
@[simp] theorem desc_setO (s : State) (c : Nat) (pc : OPc) : Desc (setO s c pc) ↔ Desc s := desc_congr rfl rfl
@[simp] theorem desc_setLis (s : State) (pc : CPc) : Desc (setC s .lis pc) ↔ Desc s := desc_congr rfl rfl
@[simp] theorem desc_touch (s : State) (c : Nat) : Desc (touch s c) ↔ Desc s := desc_congr (by simp) (by simp)
@[simp] theorem desc_updCl (s : State) (c : Nat) (f : Client → Client) : Desc (updCl s c f) ↔ Desc s := desc_congr rfl rfl
@[simp] theorem desc_doUnlock (s : State) (t : Tid) (m : MCls) (c : Nat) : Desc (doUnlock s t m c) ↔ Desc s :=
  desc_congr (by simp) (by simp)
theorem desc_doLock {s a : State} {t : Tid} {m : MCls} {c : Nat} (h : doLock s t m c = some a) : Desc a ↔ Desc s :=
  desc_congr (apc_doLock h) (alk_doLock h)
@[simp] theorem desc_incRef (s : State) (t : Tid) (c : Nat) : Desc (incRef s t c) ↔ Desc s := desc_congr (by simp) (by simp)
@[simp] theorem desc_decRef (s : State) (t : Tid) (c : Nat) : Desc (decRef s t c) ↔ Desc s := desc_congr (by simp) (by simp)
@[simp] theorem desc_signalU (s : State) (c : Nat) : Desc (signalU s c) ↔ Desc s := desc_congr (by simp) (by simp)
@[simp] theorem desc_raise (s : State) (f : Flag) : Desc (raise s f) ↔ Desc s := desc_congr (by simp) (by simp)
@[simp] theorem desc_raiseIf (s : State) (f : Flag) (b : Bool) : Desc (raiseIf s f b) ↔ Desc s := desc_congr (by simp) (by simp)
@[simp] theorem desc_setN (s : State) (n : Nat) : Desc (setN s n) ↔ Desc s := desc_congr rfl rfl
@[simp] theorem desc_setAlkT_lis (s : State) (l : List Nat) : Desc (setAlkT s .lis l) ↔ Desc s := desc_congr rfl rfl

macro "desc_fin" : tactic => `(tactic| (
  subst_vars
  try simp only [desc_setI, desc_setO, desc_setLis, desc_touch, desc_updCl, desc_doUnlock, desc_incRef, desc_decRef,
    desc_signalU, desc_signalD, desc_raise, desc_raiseIf, desc_setN, desc_setAlkT_lis]
  first
  | assumption
  | (rw [desc_doLock ‹doLock _ _ _ _ = some _›]; assumption)))

theorem desc_out {s : State} {c : Nat} {l : Lbl} {s' : State} (h : Desc s)
    (hs : (l, s') ∈ outSucc s c) : Desc s' := by
  unfold outSucc at hs
  split at hs
  all_goals (try unfold storeSt at hs)
  all_goals (try simp only [] at hs)
  all_goals (try split at hs)
  all_goals first
    | (simp at hs; done)
    | (simp at hs; crack_hyps; all_goals desc_fin)

theorem desc_inp {s : State} {c : Nat} {l : Lbl} {s' : State} (h : Desc s)
    (hs : (l, s') ∈ inpSucc s c) : Desc s' := by
  unfold inpSucc at hs
  split at hs
  all_goals (try unfold storeSt at hs)
  all_goals (try unfold goneSucc at hs)
  all_goals (try simp only [] at hs)
  all_goals (try split at hs)
  all_goals (try split at hs)
  all_goals first
    | (simp at hs; done)
    | (simp at hs; crack_hyps; all_goals desc_fin)

theorem desc_lis {s : State} {l : Lbl} {s' : State} (h : Desc s) (hp : lisPc s.lpc = true)
    (hs : (l, s') ∈ callerSucc s .lis) : Desc s' := by
  unfold callerSucc at hs
  simp only [getC] at hs
  split at hs
  all_goals (try unfold iterSucc at hs)
  all_goals (try unfold bodySucc at hs)
  all_goals (try unfold closeSucc at hs)
  all_goals (try unfold nfSucc at hs)
  all_goals (try unfold crSucc at hs)
  all_goals (try unfold goneSucc at hs)
  all_goals (try unfold storeSt at hs)
  all_goals (try simp only [] at hs)
  all_goals (repeat' (split at hs))
  all_goals first
    | (simp at hs; done)
    | (exfalso; simp [lisPc, *] at hp; done)
    | (simp at hs; crack_hyps; all_goals desc_fin)

theorem pick_lt {s : State} {b : Bool} {p c : Nat} (h : pick s b (some p) = some c) : c < p := pickBelow_lt s b p c h

macro "desc_app_fin" : tactic => `(tactic| (
  subst_vars
  try (have halk := alk_doLock ‹doLock _ _ _ _ = some _›)
  first
  | (apply desc_of_not_newfb <;> simp [setC, afterNext, finished, nextIter, procOfApi]; done)
  | (apply desc_of_not_newfb <;> (repeat' split) <;> simp [setC, afterNext, finished, nextIter, procOfApi]; done)))

macro "desc_newfb_fin" h:ident : tactic => `(tactic| (
  subst_vars
  try (have halk := alk_doLock ‹doLock _ _ _ _ = some _›)
  try (have hlt := pick_lt ‹pick _ _ (some _) = some _›)
  simp only [Desc, ‹State.apc _ = _›] at $h:ident
  simp only [Desc, setC_app, alk_setC, alk_doUnlock, alk_incRef, alk_decRef, alk_setAlkT_app, alk_signalD, touch_alk,
    afterNext, finished, nextIter, *]
  first | done | (simp_all; done) | grind | (repeat' split) <;> (first | done | (simp_all; done) | grind)))

theorem desc_iter_app {s : State} {p : Proc} {st : ISt} {prev nxt : Option Nat} {l : Lbl} {s' : State}
    (h : Desc s) (hpc : s.apc = .iter p st prev nxt)
    (hs : (l, s') ∈ iterSucc s .app p st prev nxt) : Desc s' := by
  unfold iterSucc at hs
  by_cases hp : p = .newfb
  · subst hp
    cases nxt <;> (
      repeat' (split at hs)
      all_goals (try simp only [] at hs)
      all_goals first
        | (simp at hs; done)
        | (simp at hs; crack_hyps; all_goals (desc_newfb_fin h))
        | (simp at hs; obtain ⟨_, rfl⟩ := hs
           have halk := alk_doLock ‹doLock _ _ _ _ = some _›
           simp only [Desc, hpc] at h
           simp only [Desc, setC_app, alk_setC, touch_alk, halk]
           refine ⟨h.1, fun a ha c hc => ?_, by simp⟩
           have h1 := pick_lt hc
           have h2 := h.1 a ha _ rfl
           omega))
  · cases p <;> first | exact absurd rfl hp | skip
    all_goals (
      cases nxt <;> (
        repeat' (split at hs)
        all_goals (try simp only [] at hs)
        all_goals first
          | (simp at hs; done)
          | (simp at hs; crack_hyps; all_goals desc_app_fin)))


theorem desc_body_app {s : State} {p : Proc} {k c : Nat} {l : Lbl} {s' : State}
    (h : Desc s) (hpc : s.apc = .body p k c)
    (hs : (l, s') ∈ bodySucc s .app p k c) : Desc s' := by
  unfold bodySucc at hs
  by_cases hp : p = .newfb
  · subst hp
    split at hs
    all_goals (try simp only [] at hs)
    all_goals first
      | (simp at hs; done)
      | (simp at hs; crack_hyps; all_goals (desc_newfb_fin h))
  · cases p <;> first | exact absurd rfl hp | skip
    all_goals (
      split at hs
      all_goals (try simp only [] at hs)
      all_goals first
        | (simp at hs; done)
        | (simp at hs; crack_hyps; all_goals desc_app_fin))

theorem desc_close_app {s : State} {p : Proc} {k : KSt} {c : Nat} {l : Lbl} {s' : State}
    (h : Desc s) (hpc : s.apc = .close p k c)
    (hs : (l, s') ∈ closeSucc s .app p k c) : Desc s' := by
  have hp : p ≠ .newfb := by
    intro hp; subst hp; simp [Desc, hpc] at h
  unfold closeSucc at hs
  cases p <;> first | exact absurd rfl hp | skip
  all_goals (
    split at hs
    all_goals (try unfold storeSt at hs)
    all_goals (try simp only [] at hs)
    all_goals (try split at hs)
    all_goals first
      | (simp at hs; done)
      | (simp at hs; crack_hyps; all_goals desc_app_fin))

theorem desc_app {s : State} {l : Lbl} {s' : State} (h : Desc s)
    (hs : (l, s') ∈ callerSucc s .app) : Desc s' := by
  unfold callerSucc at hs
  simp only [getC] at hs
  split at hs
  all_goals first
    | exact desc_iter_app h ‹_› hs
    | exact desc_body_app h ‹_› hs
    | exact desc_close_app h ‹_› hs
    | skip
  all_goals (try unfold nfSucc at hs)
  all_goals (try unfold crSucc at hs)
  all_goals (try unfold goneSucc at hs)
  all_goals (try unfold storeSt at hs)
  all_goals (try simp only [] at hs)
  all_goals (repeat' (split at hs))
  all_goals first
    | (simp at hs; done)
    | (simp at hs; crack_hyps; all_goals desc_app_fin)
    | (simp at hs; crack_hyps
       all_goals (subst_vars; first | desc_app_fin | (simp [Desc, setC, procOfApi, setAlkT, setAlk, setAapi]; done)))

/-- `Desc` is an invariant -/
theorem desc_step {s s' : State} (h : Desc s) (hs : Step s s') : Desc s' := by
  obtain ⟨t, l, hm⟩ := hs
  cases t with
  | app => exact desc_app h hm
  | lis =>
    simp only [succ] at hm
    split at hm
    · exact desc_lis h ‹_› hm
    · simp at hm
  | inp c => exact desc_inp h hm
  | out c => exact desc_out h hm

theorem desc_reach {s : State} (h : Reach s) : Desc s := by
  induction h with
  | init => simp [Desc, State.init]
  | step _ hs ih => exact desc_step ih hs

/-! ### the lock-order theorems -/

/-- in every reachable state, every mutex a thread owns is below every mutex it may request next -/
theorem held_lt_pending {s : State} (h : Reach s) (t : Tid) :
    ∀ k ∈ pendOf s t, ∀ x ∈ heldOf s t, mlt x k := by
  have hd := desc_reach h
  cases t with
  | app =>
    refine held_lt_pendC s.apc s.alk (fun k c hpc a ha => ?_)
    simp only [Desc, hpc] at hd
    exact hd a ha
  | lis => exact held_lt_pendC s.lpc [] (fun k c _ a ha => by simp at ha)
  | inp c => exact held_lt_pendI _ c
  | out c => exact held_lt_pendO _ c

/-- owner fields agree with the tables: thread t owns mutex k iff its program counter says so -/
theorem own_iff_table {s : State} (h : Reach s) (t : Tid) (m : MCls) (c : Nat) :
    own s m c = some t ↔ mkey m c ∈ heldOf s t := by
  have hO := ownInv_reach h
  have hL := local_reach h
  rw [hO.own_iff]
  have := (hL t).1 (mkey m c)
  constructor
  · intro hm
    exact List.count_pos_iff.1 (by have := List.count_pos_iff.2 hm; omega)
  · intro hm
    exact List.count_pos_iff.1 (by have := List.count_pos_iff.2 hm; omega)


theorem pendG_keyed (g : GSt) (c : Nat) : ∀ k ∈ pendG g c, mkey k.1 k.2 = k := by
  cases g <;> simp [pendG, mkey, MCls.perClient, mL]

theorem pend_keyed (s : State) (t : Tid) : ∀ k ∈ pendOf s t, mkey k.1 k.2 = k := by
  cases t with
  | app =>
    simp only [pendOf]
    cases hpc : s.apc with
    | gone g c => exact pendG_keyed g c
    | iter p st prev nxt => cases st <;> cases prev <;> cases nxt <;> simp [pendC, mkey, MCls.perClient, mL]
    | body p k c =>
      cases p <;> simp only [pendC, pendBody] <;> (repeat' split) <;> simp [mkey, MCls.perClient]
    | nf st i => cases st <;> simp [pendC, mkey, MCls.perClient, mC]
    | cr st c => cases st <;> simp [pendC, mkey, MCls.perClient, mL]
    | _ => simp [pendC]
  | lis =>
    simp only [pendOf]
    cases hpc : s.lpc with
    | gone g c => exact pendG_keyed g c
    | iter p st prev nxt => cases st <;> cases prev <;> cases nxt <;> simp [pendC, mkey, MCls.perClient, mL]
    | body p k c =>
      cases p <;> simp only [pendC, pendBody] <;> (repeat' split) <;> simp [mkey, MCls.perClient]
    | nf st i => cases st <;> simp [pendC, mkey, MCls.perClient, mC]
    | cr st c => cases st <;> simp [pendC, mkey, MCls.perClient, mL]
    | _ => simp [pendC]
  | inp c =>
    simp only [pendOf]
    cases (s.cl c).ipc with
    | g st => exact pendG_keyed st c
    | _ => simp [pendI, mkey, MCls.perClient]
  | out c =>
    simp only [pendOf]
    cases (s.cl c).opc <;> simp [pendO, mkey, MCls.perClient, mC]

/-- a chain of threads each of which may request a mutex owned by the next one -/
inductive LockChain (s : State) : Tid → Mx → Tid → Prop where
  | single {t t' : Tid} {k : Mx} : k ∈ pendOf s t → own s k.1 k.2 = some t' → LockChain s t k t'
  | cons {t t1 t' : Tid} {k k1 : Mx} :
      k ∈ pendOf s t → own s k.1 k.2 = some t1 → LockChain s t1 k1 t' → LockChain s t k t'

theorem lockChain_lt {s : State} (h : Reach s) {t t' : Tid} {k : Mx} (hc : LockChain s t k t') :
    ∀ k' ∈ pendOf s t', mlt k k' := by
  induction hc with
  | single hk ho =>
    intro k' hk'
    rename_i t0 t1 k0
    have hheld : k0 ∈ heldOf s t1 := by
      have := (own_iff_table h t1 k0.1 k0.2).1 ho
      rwa [pend_keyed s t0 k0 hk] at this
    exact held_lt_pending h t1 k' hk' k0 hheld
  | cons hk ho hrest ih =>
    intro k' hk'
    rename_i t0 t1 t2 k0 k1
    have hheld : k0 ∈ heldOf s t1 := by
      have := (own_iff_table h t1 k0.1 k0.2).1 ho
      rwa [pend_keyed s t0 k0 hk] at this
    have hk1 : k1 ∈ pendOf s t1 := by cases hrest <;> assumption
    exact mlt_trans (held_lt_pending h t1 k1 hk1 k0 hheld) (ih k' hk')

/-- **no deadlock cycle among mutexes**: in no reachable state is there a cycle of threads each
requesting a mutex owned by the next -/
theorem no_lock_cycle' {s : State} (h : Reach s) {t : Tid} {k : Mx} : ¬ LockChain s t k t := by
  intro hc
  have hk : k ∈ pendOf s t := by cases hc <;> assumption
  exact mlt_irrefl k (lockChain_lt h hc k hk)

end VncModel.Threads
