/-! The synchronisation skeleton of the anchored functions from which the threads model
(`VncModel/Threads/Model.lean`) was built: per function, in textual order, every LOCK / UNLOCK / WAIT /
TSIGNAL, thread create / join, reference count operation, iterator call, rfbCloseClient /
rfbClientConnectionGone call, notify-pipe write, `return` / `break` / `continue`, and the stores / tests
of `cl->state` and `cl->sock` that steer the threads (also through other pointers: `*->...`).  It is the skeleton of the code WITH
fixes/C13-01 .. C13-05 applied, plus two later repairs that add tokens without changing the
synchronisation structure: b9d189d (clientInput's WebSocket drain loop re-reads the client's own
`cl->state`: the input thread stops processing buffered input once the client is marked for shutdown;
the model's input thread takes no step on behalf of a client in that state anyway) and 53e39a2
(rfbNewFramebuffer frees a library-derived rich cursor image while it holds cursorMutex) and a84b8cc
(rfbShutdownServer calls rfbClientConnectionGone itself for a client that was put on hold and never
started instead of joining a thread that does not exist; clients on hold are outside the model).  `tools/consts/c13.py` regenerates the same list from the working tree
on every run (`VncModel.Gen.C13.skeleton`); `Props.C13.skeleton_matches` compares the two. -/
namespace VncModel.Threads

def expectedSkeleton : List (String × List String) := [
  ("clientOutput", ["*->sock==RFB_INVALID_SOCKET", "cl->state==RFB_SHUTDOWN", "return", "cl->state!=RFB_NORMAL", "continue", "LOCK updateMutex", "cl->state==RFB_SHUTDOWN", "UNLOCK updateMutex", "return", "WAIT updateCond updateMutex", "UNLOCK updateMutex", "LOCK updateMutex", "UNLOCK updateMutex", "rfbIncrClientRef", "LOCK sendMutex", "UNLOCK sendMutex", "rfbDecrClientRef", "return"]),
  ("clientInput", ["pthread_create", "cl->state!=RFB_SHUTDOWN", "*->sock==RFB_INVALID_SOCKET", "break", "break", "continue", "break", "cl->state!=RFB_SHUTDOWN", "LOCK updateMutex", "cl->state=RFB_SHUTDOWN", "TSIGNAL updateCond", "UNLOCK updateMutex", "THREAD_JOIN", "LOCK outputMutex", "cl->sock=RFB_INVALID_SOCKET", "UNLOCK outputMutex", "rfbClientConnectionGone", "return"]),
  ("listenerRun", ["return", "continue", "rfbNewClient", "rfbStartOnHoldClient", "return"]),
  ("rfbStartOnHoldClient", ["pthread_create"]),
  ("rfbMarkRegionAsModified", ["rfbGetClientIterator", "rfbClientIteratorNext", "LOCK updateMutex", "TSIGNAL updateCond", "UNLOCK updateMutex", "rfbReleaseClientIterator"]),
  ("rfbScheduleCopyRegion", ["rfbGetClientIterator", "rfbClientIteratorNext", "LOCK updateMutex", "TSIGNAL updateCond", "UNLOCK updateMutex", "rfbReleaseClientIterator"]),
  ("rfbNewFramebuffer", ["rfbGetClientIterator", "rfbClientIteratorNext", "break", "rfbIncrClientRef", "LOCK sendMutex", "rfbReleaseClientIterator", "LOCK cursorMutex", "free", "LOCK updateMutex", "TSIGNAL updateCond", "UNLOCK updateMutex", "UNLOCK sendMutex", "rfbDecrClientRef", "free", "UNLOCK cursorMutex", "rfbMarkRectAsModified"]),
  ("rfbShutdownServer", ["rfbShutdownSockets", "pipewrite listener", "pthread_join", "rfbGetClientIteratorWithClosed", "rfbClientIteratorNext", "rfbCloseClient", "rfbClientIteratorNext", "rfbClientConnectionGone", "pthread_join", "rfbClientConnectionGone", "rfbClientConnectionGone", "rfbReleaseClientIterator"]),
  ("rfbScreenCleanup", ["rfbGetClientIteratorWithClosed", "rfbClientIteratorNext", "rfbClientIteratorNext", "rfbClientConnectionGone", "rfbReleaseClientIterator", "free", "TINI_MUTEX cursorMutex", "free", "free", "free"]),
  ("rfbRunEventLoop", ["pthread_create", "return", "return"]),
  ("rfbIncrClientRef", ["LOCK refCountMutex", "UNLOCK refCountMutex"]),
  ("rfbDecrClientRef", ["LOCK refCountMutex", "TSIGNAL deleteCond", "UNLOCK refCountMutex"]),
  ("rfbClientIteratorNext", ["return", "LOCK rfbClientListMutex", "*->sock<0", "rfbIncrClientRef", "UNLOCK rfbClientListMutex", "rfbDecrClientRef", "return"]),
  ("rfbReleaseClientIterator", ["rfbDecrClientRef", "free"]),
  ("rfbNewTCPOrUDPClient", ["return", "rfbGetClientIterator", "rfbClientIteratorNext", "rfbReleaseClientIterator", "free", "free", "return", "INIT_MUTEX outputMutex", "INIT_MUTEX refCountMutex", "INIT_MUTEX sendMutex", "INIT_COND deleteCond", "INIT_MUTEX updateMutex", "INIT_COND updateCond", "LOCK rfbClientListMutex", "UNLOCK rfbClientListMutex", "rfbCloseClient", "rfbClientConnectionGone", "return", "rfbWriteExact", "rfbCloseClient", "rfbClientConnectionGone", "return", "break", "break", "rfbCloseClient", "rfbClientConnectionGone", "break", "return"]),
  ("rfbClientConnectionGone", ["LOCK rfbClientListMutex", "LOCK refCountMutex", "UNLOCK rfbClientListMutex", "WAIT deleteCond refCountMutex", "UNLOCK refCountMutex", "LOCK rfbClientListMutex", "LOCK refCountMutex", "UNLOCK refCountMutex", "UNLOCK rfbClientListMutex", "free", "free", "free", "free", "free", "free", "free", "free", "TINI_COND updateCond", "TINI_MUTEX updateMutex", "LOCK outputMutex", "UNLOCK outputMutex", "TINI_MUTEX outputMutex", "LOCK sendMutex", "UNLOCK sendMutex", "TINI_MUTEX sendMutex", "free"]),
  ("rfbProcessClientInitMessage", ["rfbCloseClient", "return", "rfbWriteExact", "rfbCloseClient", "return", "rfbGetClientIterator", "rfbClientIteratorNext", "*->state==RFB_NORMAL", "rfbCloseClient", "rfbReleaseClientIterator", "return", "rfbReleaseClientIterator", "rfbGetClientIterator", "rfbClientIteratorNext", "rfbClientIteratorNext", "*->state==RFB_NORMAL", "rfbCloseClient", "rfbReleaseClientIterator"]),
  ("rfbSendBell", ["rfbGetClientIterator", "rfbClientIteratorNext", "cl->state!=RFB_NORMAL", "continue", "LOCK sendMutex", "rfbWriteExact", "rfbCloseClient", "UNLOCK sendMutex", "rfbReleaseClientIterator"]),
  ("rfbSendServerCutText", ["rfbGetClientIterator", "rfbClientIteratorNext", "cl->state!=RFB_NORMAL", "continue", "LOCK sendMutex", "rfbWriteExact", "rfbCloseClient", "UNLOCK sendMutex", "continue", "rfbWriteExact", "rfbCloseClient", "UNLOCK sendMutex", "rfbReleaseClientIterator"]),
  ("rfbSendServerCutTextUTF8", ["rfbGetClientIterator", "rfbClientIteratorNext", "cl->state!=RFB_NORMAL", "continue", "LOCK sendMutex", "free", "rfbCloseClient", "UNLOCK sendMutex", "continue", "UNLOCK sendMutex", "continue", "UNLOCK sendMutex", "continue", "UNLOCK sendMutex", "rfbWriteExact", "rfbCloseClient", "UNLOCK sendMutex", "continue", "rfbWriteExact", "rfbCloseClient", "UNLOCK sendMutex", "UNLOCK sendMutex", "rfbReleaseClientIterator"]),
  ("rfbCloseClient", ["LOCK updateMutex", "free", "TSIGNAL updateCond", "UNLOCK updateMutex", "cl->state=RFB_SHUTDOWN", "pipewrite client", "cl->sock=RFB_INVALID_SOCKET"]),
  ("rfbWriteExact", ["rfbWriteExact", "return", "return", "LOCK outputMutex", "UNLOCK outputMutex", "return", "UNLOCK outputMutex", "return", "continue", "UNLOCK outputMutex", "return", "continue", "UNLOCK outputMutex", "return", "UNLOCK outputMutex", "return", "UNLOCK outputMutex", "return"])
]

end VncModel.Threads
