import VncModel.Threads.Life
import VncModel.Threads.Tactics
set_option linter.unusedSimpArgs false
namespace VncModel.Threads

@[simp] theorem opc_signalD (s : State) (c c' : Nat) : ((signalD s c).cl c').opc = (s.cl c').opc := by
  unfold signalD; simp only []
  split <;> split <;> split <;> simp [cl_setI] <;> split <;> simp_all

macro "life_strip" hr:ident hl:ident : tactic => `(tactic| repeat' (first
  | exact $hl
  | (rw [life_doLock ‹doLock _ _ _ _ = some _›])
  | (simp only [life_doUnlock, life_touch, life_raise, life_raiseIf, life_setAapi, life_setLisDown, life_setLjoined])
  | (refine (life_updCl _ _ _ ?neutral).2 ?_
     case neutral => (intro x; simp))
  | (with_reducible refine life_signalU _ ?_)
  | (with_reducible refine life_signalD _ ?_)
  | (with_reducible exact life_incRef_locked $hr $hl ‹doLock _ _ _ _ = some _›)
  | (with_reducible exact life_decRef_locked $hr $hl ‹doLock _ _ _ _ = some _›)))

theorem life_out {s : State} {c : Nat} {l : Lbl} {s' : State} (hr : Reach s) (hl : Life s)
    (hs : (l, s') ∈ outSucc s c) : Life s' := by
  unfold outSucc at hs
  split at hs
  all_goals (try unfold storeSt at hs)
  all_goals (try simp only [] at hs)
  all_goals (try split at hs)
  all_goals first
    | (simp at hs; done)
    | (simp at hs; crack_hyps
       all_goals (
         subst_vars
         refine life_setO ?_ ?_
         case refine_2 =>
           try (have ho := opc_doLock ‹doLock _ _ _ _ = some _› c)
           simp [opcRun, signalU, *]
         life_strip hr hl))

@[simp] theorem ipc_signalU (s : State) (c c' : Nat) : ((signalU s c).cl c').ipc = (s.cl c').ipc := by
  unfold signalU; split <;> simp [cl_setO]; split <;> simp_all
@[simp] theorem refCount_signalU (s : State) (c c' : Nat) : ((signalU s c).cl c').refCount = (s.cl c').refCount := by
  unfold signalU; split <;> simp [cl_setO]; split <;> simp_all

/-- facts about the state right after a LOCK -/
macro "dl_facts" : tactic => `(tactic| (
  try (
    have hdl := ‹doLock _ _ _ _ = some _›
    have hd_ipc := fun c' => ipc_doLock hdl c'
    have hd_opc := fun c' => opc_doLock hdl c'
    have hd_alive := fun c' => alive_doLock hdl c'
    have hd_linked := fun c' => linked_doLock hdl c'
    have hd_rc := fun c' => refCount_doLock hdl c'
    have hd_apc := apc_doLock hdl
    have hd_lpc := lpc_doLock hdl
    have hd_alk := alk_doLock hdl
    have hd_n := n_doLock hdl)))

theorem unlink_excl_inp {s : State} {c : Nat} (hr : Reach s) (hl : Life s) (h : (s.cl c).ipc = .g .unlockR) (t : Tid) :
    c ∉ knownC (getC s t) (alkOf s t) := by
  by_cases e : t = .inp c
  · subst e; simp [getC, knownC, refsC]
  · exact unlink_excl hr (hl.zero_inp c h) (me := .inp c) (by simp [heldOf, h, heldI, heldG])
      (by simp [heldOf, h, heldI, heldG]) t e

theorem life_inp {s : State} {c : Nat} {l : Lbl} {s' : State} (hr : Reach s) (hl : Life s)
    (hs : (l, s') ∈ inpSucc s c) : Life s' := by
  unfold inpSucc at hs
  split at hs
  all_goals (try unfold storeSt at hs)
  all_goals (try unfold goneSucc at hs)
  all_goals (try simp only [] at hs)
  all_goals (try split at hs)
  all_goals (try split at hs)
  all_goals first
    | (simp at hs; done)
    | (simp at hs; crack_hyps
       all_goals (
         subst_vars
         dl_facts
         first
         | (refine life_setI ?_ ?_ ?_ ?_ ?_ ?_ ?_
            case refine_1 => life_strip hr hl
            all_goals (first | (simp [ipcAlive, ipcLinked, ipcHasOut, gPre, opcRun, *]; done)
                             | (split <;> simp_all [ipcAlive, ipcLinked, ipcHasOut, gPre, opcRun]; done)))
         | (refine life_startOut ?_ ?_
            case refine_1 => life_strip hr hl
            simp [*]; done)
         | (exfalso; have := hl.out_ns c (Or.inr ‹_›); simp_all; done)
         | (refine life_exit_inp ?_ ?_
            case refine_1 => life_strip hr hl
            simp [*]; done)
         | (refine life_unlink_inp ?_ ?_ ?_
            case refine_1 => life_strip hr hl
            case refine_2 => simp [*]; done
            intro t
            rw [getC_lsame (lsame_doUnlock _ _ _ _), alkOf_lsame (lsame_doUnlock _ _ _ _)]
            exact unlink_excl_inp hr hl ‹_› t)
         | (refine life_free_inp ?_ ?_
            case refine_1 => life_strip hr hl
            simp [*]; done)
         | (exfalso; have := hl.inp_alive c (by simp [ipcAlive, *]); simp_all; done)))

theorem unlink_excl_c {s : State} {c : Nat} {t : Tid} (hr : Reach s) (hl : Life s) (ht : t = .app ∨ t = .lis)
    (h : getC s t = .gone .unlockR c) (t' : Tid) (hne : t' ≠ t) : c ∉ knownC (getC s t') (alkOf s t') := by
  refine unlink_excl hr (hl.zero_c t c h) (me := t) ?_ ?_ t' hne
  · rcases ht with rfl | rfl <;> (simp only [getC] at h; simp [heldOf, h, heldC, heldG])
  · rcases ht with rfl | rfl <;> (simp only [getC] at h; simp [heldOf, h, heldC, heldG])

theorem apc_signalD' (s : State) (c : Nat) :
    (signalD s c).apc = if s.apc = .gone .blocked c then .gone .wakeD c else s.apc := by
  unfold signalD; simp only []
  split <;> split <;> split <;> simp_all [setC, setI, updCl]
theorem lpc_signalD' (s : State) (c : Nat) :
    (signalD s c).lpc = if s.lpc = .gone .blocked c then .gone .wakeD c else s.lpc := by
  unfold signalD; simp only []
  split <;> split <;> split <;> simp_all [setC, setI, updCl]

/-- side conditions of `life_move` -/
macro "life_side" : tactic => `(tactic| (
  try simp only [apc_signalD', lpc_signalD', crOf, knownC, refsC, refsIt, bodyRefs, procRefs, getC, alkOf, finished, nextIter, afterNext, gPre,
    apc_doUnlock, apc_incRef, apc_decRef, apc_raise, apc_raiseIf, apc_setAapi, apc_setLisDown, apc_setLjoined, apc_signalU,
    touch_apc, touch_lpc, touch_alk, updCl_apc, updCl_lpc, updCl_alk, alk_doUnlock, alk_incRef, alk_decRef, alk_raise,
    alk_raiseIf, alk_setAapi, alk_setLisDown, alk_setLjoined, alk_signalU, alk_signalD, lpc_doUnlock, lpc_incRef, lpc_decRef,
    lpc_raise, lpc_raiseIf, lpc_setAapi, lpc_setLisDown, lpc_setLjoined, lpc_signalU, *] at *
  first | done | (simp_all; done) | grind))

/-- rfbRunEventLoop creates the listener thread -/
theorem life_rl {s : State} (hl : Life s) : Life (setC (setC s .lis .idle) .app .retp) := by
  refine life_move (Or.inl rfl) (life_move (Or.inr rfl) hl (Or.inl rfl) ?_ ?_) (Or.inl rfl) ?_ ?_
  · intro y hy; simp [knownC, refsC] at hy
  · intro c e; cases e
  · intro y hy; simp [knownC, refsC] at hy
  · intro c e; cases e

macro "life_ctac" hr:ident hl:ident : tactic => `(tactic| (
  subst_vars
  dl_facts
  try (have hpk := pick_linked ‹pick _ _ _ = some _›)
  try (have hdrop := drop_of_getElem? ‹(_ : List Nat)[_]? = some _›)
  first
  | (refine life_move (by simp) ?_ ?_ ?_ ?_
     case refine_1 => life_strip $hr $hl
     all_goals life_side)
  | (refine life_setAlkT_setC (t := Tid.app) (by simp) ?_ ?_ ?_ ?_ ?_
     case refine_1 => life_strip $hr $hl
     case refine_2 => (intro c b h; simp [crOf, nextIter, finished] at h)
     case refine_3 => (intro t' c b b' _ h; simp [crOf, nextIter, finished] at h)
     case refine_5 => (intro c h; simp [nextIter, finished] at h)
     intro y hy
     have hkn := Life.known $hl Tid.app y
     life_side)
  | (refine life_link (by simp) ?_ ?_
     case refine_1 => life_strip $hr $hl
     simp [getC, *]; done)
  | (exact life_alloc (by simp) $hl (bnd_reach $hr))
  | (exact life_rl $hl)
  | (refine life_startInp (by simp) ?_ ?_
     case refine_1 => life_strip $hr $hl
     simp [getC, *]; done)
  | (refine life_unlink_c (by simp) ?_ ?_ ?_
     case refine_1 => life_strip $hr $hl
     case refine_2 => (simp [getC, *]; done)
     intro t' hne
     rw [getC_lsame (lsame_doUnlock _ _ _ _), alkOf_lsame (lsame_doUnlock _ _ _ _)]
     exact unlink_excl_c $hr $hl (by simp) (by simp [getC, *]) t' hne)
  | (refine life_free_c (by simp) ?_ ?_
     case refine_1 => life_strip $hr $hl
     simp [getC, *]; done)
  | (exfalso
     first
     | (have hcr := Life.cr $hl Tid.app _ _ (by simp [getC, crOf, *]; rfl); simp_all; done)
     | (have hcr := Life.cr $hl Tid.lis _ _ (by simp [getC, crOf, *]; rfl); simp_all; done))
  ))

theorem life_iter_app {s : State} {p : Proc} {st : ISt} {prev nxt : Option Nat}
    {l : Lbl} {s' : State} (hr : Reach s) (hl : Life s) (hpc : getC s Tid.app = .iter p st prev nxt)
    (hs : (l, s') ∈ iterSucc s Tid.app p st prev nxt) : Life s' := by
  unfold iterSucc at hs
  simp only [getC] at hpc
  split at hs
  all_goals (try simp only [] at hs)
  all_goals (repeat' (split at hs))
  all_goals first
    | (simp at hs; done)
    | (simp at hs; crack_hyps
       all_goals life_ctac hr hl)

theorem life_iter_lis {s : State} {p : Proc} {st : ISt} {prev nxt : Option Nat}
    {l : Lbl} {s' : State} (hr : Reach s) (hl : Life s) (hpc : getC s Tid.lis = .iter p st prev nxt)
    (hs : (l, s') ∈ iterSucc s Tid.lis p st prev nxt) : Life s' := by
  unfold iterSucc at hs
  simp only [getC] at hpc
  split at hs
  all_goals (try simp only [] at hs)
  all_goals (repeat' (split at hs))
  all_goals first
    | (simp at hs; done)
    | (simp at hs; crack_hyps
       all_goals life_ctac hr hl)

theorem life_iter {s : State} {t : Tid} (ht : t = .app ∨ t = .lis) {p : Proc} {st : ISt} {prev nxt : Option Nat}
    {l : Lbl} {s' : State} (hr : Reach s) (hl : Life s) (hpc : getC s t = .iter p st prev nxt)
    (hs : (l, s') ∈ iterSucc s t p st prev nxt) : Life s' := by
  rcases ht with rfl | rfl
  · exact life_iter_app hr hl hpc hs
  · exact life_iter_lis hr hl hpc hs

theorem life_body {s : State} {t : Tid} (ht : t = .app ∨ t = .lis) {p : Proc} {k c : Nat}
    {l : Lbl} {s' : State} (hr : Reach s) (hl : Life s) (hpc : getC s t = .body p k c)
    (hpl : t = .lis → p = .count)
    (hs : (l, s') ∈ bodySucc s t p k c) : Life s' := by
  unfold bodySucc at hs
  rcases ht with rfl | rfl
  all_goals (
    simp only [getC] at hpc
    split at hs
    all_goals (try simp only [] at hs)
    all_goals (repeat' (split at hs))
    all_goals first
      | (simp at hs; done)
      | (exfalso; have := hpl rfl; simp at this; done)
      | (simp at hs; crack_hyps
         all_goals life_ctac hr hl))

theorem life_close {s : State} {t : Tid} (ht : t = .app ∨ t = .lis) {p : Proc} {k : KSt} {c : Nat}
    {l : Lbl} {s' : State} (hr : Reach s) (hl : Life s) (hpc : getC s t = .close p k c)
    (hs : (l, s') ∈ closeSucc s t p k c) : Life s' := by
  unfold closeSucc at hs
  rcases ht with rfl | rfl
  all_goals (
    simp only [getC] at hpc
    split at hs
    all_goals (try unfold storeSt at hs)
    all_goals (try simp only [] at hs)
    all_goals (repeat' (split at hs))
    all_goals first
      | (simp at hs; done)
      | (simp at hs; crack_hyps
         all_goals life_ctac hr hl))

theorem life_nf {s : State} {st : NSt} {i : Nat}
    {l : Lbl} {s' : State} (hr : Reach s) (hl : Life s) (hpc : s.apc = .nf st i)
    (hs : (l, s') ∈ nfSucc s .app st i) : Life s' := by
  unfold nfSucc at hs
  split at hs
  all_goals (try simp only [] at hs)
  all_goals (repeat' (split at hs))
  all_goals first
    | (simp at hs; done)
    | (simp at hs; crack_hyps
       all_goals life_ctac hr hl)

theorem life_cr {s : State} {t : Tid} (ht : t = .app ∨ t = .lis) {st : CrSt} {c : Nat}
    {l : Lbl} {s' : State} (hr : Reach s) (hl : Life s) (hpc : getC s t = .cr st c)
    (hs : (l, s') ∈ crSucc s t st c) : Life s' := by
  unfold crSucc at hs
  rcases ht with rfl | rfl
  all_goals (
    simp only [getC] at hpc
    split at hs
    all_goals (try unfold storeSt at hs)
    all_goals (try simp only [] at hs)
    all_goals (repeat' (split at hs))
    all_goals first
      | (simp at hs; done)
      | (simp at hs; crack_hyps
         all_goals life_ctac hr hl))

theorem life_gone_c {s : State} {t : Tid} (ht : t = .app ∨ t = .lis) {g : GSt} {c : Nat}
    {l : Lbl} {s' : State} (hr : Reach s) (hl : Life s) (hpc : getC s t = .gone g c)
    (hs : (l, s') ∈ goneSucc s t g c (fun s1 g1 => setC s1 t (.gone g1 c)) (fun s1 => setC s1 t (finished t))) :
    Life s' := by
  unfold goneSucc at hs
  rcases ht with rfl | rfl
  all_goals (
    simp only [getC] at hpc
    split at hs
    all_goals (try simp only [] at hs)
    all_goals (repeat' (split at hs))
    all_goals first
      | (simp at hs; done)
      | (simp at hs; crack_hyps
         all_goals life_ctac hr hl))

theorem life_caller {s : State} {t : Tid} (ht : t = .app ∨ t = .lis) (hp : t = .lis → lisPc s.lpc = true)
    {l : Lbl} {s' : State} (hr : Reach s) (hl : Life s) (hs : (l, s') ∈ callerSucc s t) : Life s' := by
  unfold callerSucc at hs
  split at hs
  all_goals first
    | exact life_iter ht hr hl ‹_› hs
    | exact life_body ht hr hl ‹_› (fun e => by subst e; have := hp rfl; simp only [getC] at *; simp_all [lisPc]) hs
    | exact life_close ht hr hl ‹_› hs
    | exact life_cr ht hr hl ‹_› hs
    | exact life_gone_c ht hr hl ‹_› hs
    | (rcases ht with rfl | rfl
       · exact life_nf hr hl ‹_› hs
       · exfalso; have := hp rfl; simp only [getC] at *; simp_all [lisPc])
    | (rcases ht with rfl | rfl
       all_goals (
         simp only [getC] at *
         try simp only [] at hs
         repeat' (split at hs)
         all_goals first
           | (simp at hs; done)
           | (exfalso; have := hp rfl; simp_all [lisPc]; done)
           | (simp at hs; crack_hyps
              all_goals life_ctac hr hl)))

/-- `Life` is inductive (relative to the invariants proved before) -/
theorem life_step {s s' : State} (hr : Reach s) (hl : Life s) (hs : Step s s') : Life s' := by
  obtain ⟨t, l, hm⟩ := hs
  cases t with
  | app => exact life_caller (Or.inl rfl) (fun e => by cases e) hr hl hm
  | lis =>
    simp only [succ] at hm
    split at hm
    · exact life_caller (Or.inr rfl) (fun _ => ‹_›) hr hl hm
    · simp at hm
  | inp c => exact life_inp hr hl hm
  | out c => exact life_out hr hl hm

theorem life_reach {s : State} (h : Reach s) : Life s := by
  induction h with
  | init => exact life_init
  | step hr hs ih => exact life_step hr ih hs

end VncModel.Threads
