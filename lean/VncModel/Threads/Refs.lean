import VncModel.Threads.Bound
/-! The reference count of every client is exact: it is the number of counted references held by the
application thread, the listener thread and the client's own output thread. -/
namespace VncModel.Threads

structure RefG (s : State) : Prop where
  cnt : ∀ c, (s.cl c).refCount =
    (getG s .app).refs.count c + (getG s .lis).refs.count c + (getG s (.out c)).refs.count c

theorem refG_init : RefG State.init := ⟨fun c => by simp [State.init, getG]⟩

theorem refG_congr {s s' : State} (hr : ∀ c, (s'.cl c).refCount = (s.cl c).refCount)
    (hg : ∀ t, (getG s' t).refs = (getG s t).refs) : RefG s' ↔ RefG s := by
  constructor <;> intro h <;> constructor <;> intro c
  · have := h.cnt c; rw [hr, hg, hg, hg] at this; exact this
  · rw [hr, hg, hg, hg]; exact h.cnt c

theorem refs_doUnlock (s : State) (t : Tid) (m : MCls) (c : Nat) (t' : Tid) :
    (getG (doUnlock s t m c) t').refs = (getG s t').refs := by
  unfold doUnlock
  simp only []
  split
  · rw [getG_setG]; split
    · rename_i h; subst h; simp
    · simp
  · have : getG (raise (touchM s m c) Flag.badUnlock) t' = getG (touchM s m c) t' := by cases t' <;> rfl
    rw [this, getG_touchM]

@[simp] theorem getG_raise (s : State) (f : Flag) (t : Tid) : getG (raise s f) t = getG s t := by
  cases f <;> cases t <;> rfl
@[simp] theorem getG_raiseIf (s : State) (f : Flag) (b : Bool) (t : Tid) : getG (raiseIf s f b) t = getG s t := by
  unfold raiseIf; split <;> simp
@[simp] theorem getG_setAlkT (s : State) (t0 : Tid) (l : List Nat) (t : Tid) : getG (setAlkT s t0 l) t = getG s t := by
  unfold setAlkT; split <;> (cases t <;> rfl)
@[simp] theorem getG_setN (s : State) (k : Nat) (t : Tid) : getG (setN s k) t = getG s t := by cases t <;> rfl
@[simp] theorem getG_setAapi (s : State) (a : Api) (t : Tid) : getG (setAapi s a) t = getG s t := by cases t <;> rfl
@[simp] theorem getG_setLisDown (s : State) (t : Tid) : getG (setLisDown s) t = getG s t := by cases t <;> rfl
@[simp] theorem getG_setLjoined (s : State) (t : Tid) : getG (setLjoined s) t = getG s t := by cases t <;> rfl

@[simp] theorem refG_setC (s : State) (t : Tid) (pc : CPc) : RefG (setC s t pc) ↔ RefG s :=
  refG_congr (by simp) (by simp)
@[simp] theorem refG_setI (s : State) (c : Nat) (pc : IPc) : RefG (setI s c pc) ↔ RefG s :=
  refG_congr (fun c' => by rw [cl_setI]; split <;> simp_all) (by simp)
@[simp] theorem refG_setO (s : State) (c : Nat) (pc : OPc) : RefG (setO s c pc) ↔ RefG s :=
  refG_congr (fun c' => by rw [cl_setO]; split <;> simp_all) (by simp)
@[simp] theorem refG_touch (s : State) (c : Nat) : RefG (touch s c) ↔ RefG s := refG_congr (by simp) (by simp)
@[simp] theorem refG_doUnlock (s : State) (t : Tid) (m : MCls) (c : Nat) : RefG (doUnlock s t m c) ↔ RefG s :=
  refG_congr (by simp) (refs_doUnlock s t m c)
theorem refG_doLock {s a : State} {t : Tid} {m : MCls} {c : Nat} (h : doLock s t m c = some a) : RefG a ↔ RefG s :=
  refG_congr (refCount_doLock h) (refs_doLock h)
@[simp] theorem refG_raise (s : State) (f : Flag) : RefG (raise s f) ↔ RefG s := refG_congr (by simp) (by simp)
@[simp] theorem refG_raiseIf (s : State) (f : Flag) (b : Bool) : RefG (raiseIf s f b) ↔ RefG s := refG_congr (by simp) (by simp)
@[simp] theorem refG_setAlkT (s : State) (t : Tid) (l : List Nat) : RefG (setAlkT s t l) ↔ RefG s := refG_congr (by simp) (by simp)
@[simp] theorem refG_setN (s : State) (k : Nat) : RefG (setN s k) ↔ RefG s := refG_congr (by simp) (by simp)
@[simp] theorem refG_setAapi (s : State) (a : Api) : RefG (setAapi s a) ↔ RefG s := refG_congr (fun _ => rfl) (by simp)
@[simp] theorem refG_setLisDown (s : State) : RefG (setLisDown s) ↔ RefG s := refG_congr (fun _ => rfl) (by simp)
@[simp] theorem refG_setLjoined (s : State) : RefG (setLjoined s) ↔ RefG s := refG_congr (fun _ => rfl) (by simp)
@[simp] theorem refG_signalU (s : State) (c : Nat) : RefG (signalU s c) ↔ RefG s := by
  unfold signalU; split <;> simp
@[simp] theorem refG_signalD (s : State) (c : Nat) : RefG (signalD s c) ↔ RefG s := by
  unfold signalD; simp only []; split <;> split <;> split <;> simp

/-- record updates that leave the reference count and the ghosts alone -/
def KeepsRef (f : Client → Client) : Prop := ∀ x, (f x).refCount = x.refCount ∧ (f x).gi = x.gi ∧ (f x).go = x.go

theorem refG_updCl (s : State) (c : Nat) (f : Client → Client) (hf : KeepsRef f) : RefG (updCl s c f) ↔ RefG s := by
  refine refG_congr (fun c' => ?_) (fun t => ?_)
  · rw [updCl_cl]; split
    · rename_i h; subst h; exact (hf _).1
    · rfl
  · cases t with
    | app => rfl
    | lis => rfl
    | inp d => simp only [getG, updCl_cl]; split
               · rename_i h; subst h; rw [(hf _).2.1]
               · rfl
    | out d => simp only [getG, updCl_cl]; split
               · rename_i h; subst h; rw [(hf _).2.2]
               · rfl

theorem count_cons_eq (c : Nat) (l : List Nat) : (c :: l).count c = l.count c + 1 := by simp
theorem count_cons_ne {c c' : Nat} (l : List Nat) (h : c' ≠ c) : (c :: l).count c' = l.count c' := by
  rw [List.count_cons]; simp [Ne.symm h]
theorem count_erase_eq (c : Nat) (l : List Nat) : (l.erase c).count c = l.count c - 1 := by simp
theorem count_erase_ne {c c' : Nat} (l : List Nat) (h : c' ≠ c) : (l.erase c).count c' = l.count c' :=
  List.count_erase_of_ne h

/-- taking a reference: by the application, the listener, or a client's own output thread -/
theorem refG_incRef {s : State} {t : Tid} {c : Nat} (h : RefG s) (ht : t = .app ∨ t = .lis ∨ t = .out c) :
    RefG (incRef s t c) := by
  constructor
  intro c'
  rw [refCount_incRef]
  have hc := h.cnt c'
  by_cases e : c' = c
  · subst e
    rw [if_pos rfl, hc]
    rcases ht with rfl | rfl | rfl
    · rw [getG_incRef, getG_incRef, getG_incRef, if_pos rfl, if_neg (by simp), if_neg (by simp)]
      simp only [count_cons_eq]; omega
    · rw [getG_incRef, getG_incRef, getG_incRef, if_neg (by simp), if_pos rfl, if_neg (by simp)]
      simp only [count_cons_eq]; omega
    · rw [getG_incRef, getG_incRef, getG_incRef, if_neg (by simp), if_neg (by simp), if_pos rfl]
      simp only [count_cons_eq]; omega
  · rw [if_neg e, hc]
    rcases ht with rfl | rfl | rfl
    · rw [getG_incRef, getG_incRef, getG_incRef, if_pos rfl, if_neg (by simp), if_neg (by simp)]
      simp only [count_cons_ne _ e]
    · rw [getG_incRef, getG_incRef, getG_incRef, if_neg (by simp), if_pos rfl, if_neg (by simp)]
      simp only [count_cons_ne _ e]
    · rw [getG_incRef, getG_incRef, getG_incRef, if_neg (by simp), if_neg (by simp),
        if_neg (by intro hh; cases hh; exact e rfl)]

theorem refG_decRef {s : State} {t : Tid} {c : Nat} (h : RefG s) (ht : t = .app ∨ t = .lis ∨ t = .out c)
    (hm : c ∈ (getG s t).refs) : RefG (decRef s t c) := by
  constructor
  intro c'
  rw [refCount_decRef]
  have hc := h.cnt c'
  have hpos : 0 < (getG s t).refs.count c := List.count_pos_iff.2 hm
  by_cases e : c' = c
  · subst e
    rw [if_pos rfl, hc]
    rcases ht with rfl | rfl | rfl
    · rw [getG_decRef hm, getG_decRef hm, getG_decRef hm, if_pos rfl, if_neg (by simp), if_neg (by simp)]
      simp only [count_erase_eq]; omega
    · rw [getG_decRef hm, getG_decRef hm, getG_decRef hm, if_neg (by simp), if_pos rfl, if_neg (by simp)]
      simp only [count_erase_eq]; omega
    · rw [getG_decRef hm, getG_decRef hm, getG_decRef hm, if_neg (by simp), if_neg (by simp), if_pos rfl]
      simp only [count_erase_eq]; omega
  · rw [if_neg e, hc]
    rcases ht with rfl | rfl | rfl
    · rw [getG_decRef hm, getG_decRef hm, getG_decRef hm, if_pos rfl, if_neg (by simp), if_neg (by simp)]
      simp only [count_erase_ne _ e]
    · rw [getG_decRef hm, getG_decRef hm, getG_decRef hm, if_neg (by simp), if_pos rfl, if_neg (by simp)]
      simp only [count_erase_ne _ e]
    · rw [getG_decRef hm, getG_decRef hm, getG_decRef hm, if_neg (by simp), if_neg (by simp),
        if_neg (by intro hh; cases hh; exact e rfl)]

theorem refsC_bound {pc : CPc} {alk : List Nat} {n : Nat} (h1 : ∀ x ∈ idxC pc, x < n) (h2 : ∀ x ∈ alk, x < n) :
    ∀ x ∈ refsC pc alk, x < n := by
  intro x hx
  cases pc with
  | iter p st prev nxt =>
    simp only [refsC, List.mem_append] at hx
    rcases hx with hx | hx
    · apply h1; simp only [idxC, List.mem_append, Option.mem_toList]
      cases st <;> cases prev <;> cases nxt <;> simp [refsIt] at hx <;> (first | (simp_all; done) | (rcases hx with rfl | rfl <;> simp))
    · cases p <;> simp [procRefs] at hx; exact h2 x hx
  | body p k c =>
    simp only [refsC, List.mem_append] at hx
    rcases hx with hx | hx
    · have : x = c := by
        cases p <;> simp only [bodyRefs] at hx <;> (try split at hx) <;> simp_all
      subst this; exact h1 x (by simp [idxC])
    · cases p <;> simp [procRefs] at hx; exact h2 x hx
  | close p k c =>
    simp only [refsC, List.mem_append, List.mem_singleton] at hx
    rcases hx with rfl | hx
    · exact h1 x (by simp [idxC])
    · cases p <;> simp [procRefs] at hx; exact h2 x hx
  | nf st i =>
    cases st <;> simp only [refsC] at hx <;> first
      | exact h2 x hx
      | exact h2 x (List.mem_of_mem_drop hx)
      | simp at hx
  | sdJoin c nxt => simp only [refsC] at hx; exact h1 x (by simp [idxC]; right; simpa using hx)
  | _ => simp [refsC] at hx

theorem refs_lt_n {s : State} (hL : Local s) (hb : Bnd s) (t : Tid) (x : Nat) (hx : x ∈ (getG s t).refs) : x < s.n := by
  have hc := (hL t).2 x
  have hx' : x ∈ refsOf s t := List.count_pos_iff.1 (by have := List.count_pos_iff.2 hx; omega)
  cases t with
  | app => exact refsC_bound hb.app hb.alk x hx'
  | lis => exact refsC_bound hb.lis (by simp) x hx'
  | inp c => simp [refsOf] at hx'
  | out c =>
    simp only [refsOf] at hx'
    have : x = c := by cases h : (s.cl c).opc <;> simp [refsO, h] at hx' <;> exact hx'
    subst this
    exact hb.thr x (Or.inr (by intro h; simp [refsO, h] at hx'))

theorem refG_alloc {s : State} (h : RefG s) (hL : Local s) (hb : Bnd s) :
    RefG (setN (updCl s s.n Client.fresh) (s.n + 1)) := by
  rw [refG_setN]
  constructor
  intro c
  have hg : ∀ t, getG (updCl s s.n Client.fresh) t = getG s t :=
    fun t => getG_updCl s s.n _ benign_fresh t
  rw [hg, hg, hg, updCl_cl]
  split
  · rename_i e; subst e
    have z : ∀ t, (getG s t).refs.count s.n = 0 := fun t =>
      List.count_eq_zero.2 (fun hm => by have := refs_lt_n hL hb t _ hm; omega)
    simp [Client.fresh, z]
  · exact h.cnt c

macro "refg_solve" h:ident hL:ident hb:ident : tactic => `(tactic| repeat' (first
  | exact $h
  | (rw [refG_doLock ‹doLock _ _ _ _ = some _›])
  | (simp only [refG_setC, refG_setI, refG_setO, refG_touch, refG_doUnlock, refG_raise, refG_raiseIf, refG_setAlkT,
      refG_setAapi, refG_setLisDown, refG_setLjoined, refG_signalU, refG_signalD])
  | (rw [refG_updCl _ _ _ (by intro x; simp)])
  | (with_reducible exact refG_alloc $h $hL $hb)
  | (with_reducible refine refG_incRef ?_ (by simp))
  | (with_reducible refine refG_decRef ?_ (by simp) ?_)
  | (rw [refs_doLock ‹doLock _ _ _ _ = some _›]
     try (have hdrop := drop_of_getElem? ‹(_ : List Nat)[_]? = some _›)
     exact mem_refs_of_local $hL (by simp [refsOf, refsO, refsC, refsIt, bodyRefs, procRefs, getC, *]))))

theorem refG_out {s : State} {c : Nat} {l : Lbl} {s' : State} (h : RefG s) (hL : Local s) (hb : Bnd s)
    (hs : (l, s') ∈ outSucc s c) : RefG s' := by
  unfold outSucc at hs
  split at hs
  all_goals (try unfold storeSt at hs)
  all_goals (try simp only [] at hs)
  all_goals (try split at hs)
  all_goals first
    | (simp at hs; done)
    | (simp at hs; crack_hyps; all_goals (subst_vars; refg_solve h hL hb))

theorem refG_inp {s : State} {c : Nat} {l : Lbl} {s' : State} (h : RefG s) (hL : Local s) (hb : Bnd s)
    (hs : (l, s') ∈ inpSucc s c) : RefG s' := by
  unfold inpSucc at hs
  split at hs
  all_goals (try unfold storeSt at hs)
  all_goals (try unfold goneSucc at hs)
  all_goals (try simp only [] at hs)
  all_goals (try split at hs)
  all_goals (try split at hs)
  all_goals first
    | (simp at hs; done)
    | (simp at hs; crack_hyps; all_goals (subst_vars; refg_solve h hL hb))

theorem refG_caller {s : State} {t : Tid} (ht : t = .app ∨ t = .lis) (hp : t = .lis → lisPc s.lpc = true)
    {l : Lbl} {s' : State} (h : RefG s) (hL : Local s) (hb : Bnd s)
    (hs : (l, s') ∈ callerSucc s t) : RefG s' := by
  unfold callerSucc at hs
  rcases ht with rfl | rfl
  all_goals (
    simp only [getC] at hs
    split at hs
    all_goals (try unfold iterSucc at hs)
    all_goals (try unfold bodySucc at hs)
    all_goals (try unfold closeSucc at hs)
    all_goals (try unfold nfSucc at hs)
    all_goals (try unfold crSucc at hs)
    all_goals (try unfold goneSucc at hs)
    all_goals (try unfold storeSt at hs)
    all_goals (try simp only [] at hs)
    all_goals (repeat' (split at hs))
    all_goals first
      | (simp at hs; done)
      | (exfalso; have := hp rfl; simp [lisPc, *] at this; done)
      | (simp at hs; crack_hyps; all_goals (subst_vars; refg_solve h hL hb)))

/-- the ghost form of the reference-count invariant is inductive -/
theorem refG_step {s s' : State} (h : RefG s) (hL : Local s) (hb : Bnd s) (hs : Step s s') : RefG s' := by
  obtain ⟨t, l, hm⟩ := hs
  cases t with
  | app => exact refG_caller (Or.inl rfl) (fun e => by cases e) h hL hb hm
  | lis =>
    simp only [succ] at hm
    split at hm
    · exact refG_caller (Or.inr rfl) (fun _ => ‹_›) h hL hb hm
    · simp at hm
  | inp c => exact refG_inp h hL hb hm
  | out c => exact refG_out h hL hb hm

theorem refG_reach {s : State} (h : Reach s) : RefG s := by
  induction h with
  | init => exact refG_init
  | step hr hs ih => exact refG_step ih (local_reach hr) (bnd_reach hr) hs

/-- **the reference count is exact**: refCount of client c = number of counted references the
program counters of the application thread, the listener thread and c's output thread hold on c -/
theorem refCount_exact {s : State} (h : Reach s) (c : Nat) :
    (s.cl c).refCount = (refsOf s .app).count c + (refsOf s .lis).count c + (refsOf s (.out c)).count c := by
  have hL := local_reach h
  rw [(refG_reach h).cnt c, (hL .app).2 c, (hL .lis).2 c, (hL (.out c)).2 c]

end VncModel.Threads
