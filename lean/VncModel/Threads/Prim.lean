import VncModel.Threads.Model
/-! Frame lemmas for the primitive state updates of the threads model: how `own`, the ghost lists,
the client records and the top-level fields change.  Everything here is by unfolding. -/
namespace VncModel.Threads

/-- an update of a client record that leaves mutex owners and ghosts alone -/
def Benign (f : Client → Client) : Prop :=
  ∀ x, (f x).ownU = x.ownU ∧ (f x).ownS = x.ownS ∧ (f x).ownO = x.ownO ∧ (f x).ownR = x.ownR ∧
       (f x).gi = x.gi ∧ (f x).go = x.go

@[simp] theorem updCl_cl_same (s : State) (c : Nat) (f : Client → Client) : (updCl s c f).cl c = f (s.cl c) := by
  simp [updCl]

theorem updCl_cl (s : State) (c c' : Nat) (f : Client → Client) :
    (updCl s c f).cl c' = if c' = c then f (s.cl c) else s.cl c' := by
  simp only [updCl]; split <;> simp_all

@[simp] theorem updCl_cl_ne (s : State) {c c' : Nat} (f : Client → Client) (h : c' ≠ c) :
    (updCl s c f).cl c' = s.cl c' := by
  simp [updCl, h]

@[simp] theorem updCl_apc (s : State) (c : Nat) (f) : (updCl s c f).apc = s.apc := rfl
@[simp] theorem updCl_lpc (s : State) (c : Nat) (f) : (updCl s c f).lpc = s.lpc := rfl
@[simp] theorem updCl_n (s : State) (c : Nat) (f) : (updCl s c f).n = s.n := rfl
@[simp] theorem updCl_alk (s : State) (c : Nat) (f) : (updCl s c f).alk = s.alk := rfl
@[simp] theorem updCl_ownL (s : State) (c : Nat) (f) : (updCl s c f).ownL = s.ownL := rfl
@[simp] theorem updCl_ownC (s : State) (c : Nat) (f) : (updCl s c f).ownC = s.ownC := rfl
@[simp] theorem updCl_ga (s : State) (c : Nat) (f) : (updCl s c f).ga = s.ga := rfl
@[simp] theorem updCl_gl (s : State) (c : Nat) (f) : (updCl s c f).gl = s.gl := rfl
@[simp] theorem updCl_lisDown (s : State) (c : Nat) (f) : (updCl s c f).lisDown = s.lisDown := rfl
@[simp] theorem updCl_ljoined (s : State) (c : Nat) (f) : (updCl s c f).ljoined = s.ljoined := rfl
@[simp] theorem updCl_uaf (s : State) (c : Nat) (f) : (updCl s c f).uaf = s.uaf := rfl
@[simp] theorem updCl_dfree (s : State) (c : Nat) (f) : (updCl s c f).dfree = s.dfree := rfl
@[simp] theorem updCl_badUnlock (s : State) (c : Nat) (f) : (updCl s c f).badUnlock = s.badUnlock := rfl
@[simp] theorem updCl_badJoin (s : State) (c : Nat) (f) : (updCl s c f).badJoin = s.badJoin := rfl
@[simp] theorem updCl_conflict (s : State) (c : Nat) (f) : (updCl s c f).conflict = s.conflict := rfl
@[simp] theorem updCl_badRef (s : State) (c : Nat) (f) : (updCl s c f).badRef = s.badRef := rfl
@[simp] theorem updCl_aapi (s : State) (c : Nat) (f) : (updCl s c f).aapi = s.aapi := rfl

theorem own_updCl (s : State) (c : Nat) (f : Client → Client) (hf : Benign f) (m : MCls) (c' : Nat) :
    own (updCl s c f) m c' = own s m c' := by
  have h := hf (s.cl c)
  cases m <;> simp only [own, updCl_ownL, updCl_ownC] <;>
    (rw [updCl_cl]; split <;> simp_all)

theorem getG_updCl (s : State) (c : Nat) (f : Client → Client) (hf : Benign f) (t : Tid) :
    getG (updCl s c f) t = getG s t := by
  have h := hf (s.cl c)
  cases t <;> simp only [getG, updCl_ga, updCl_gl] <;>
    (rw [updCl_cl]; split <;> simp_all)

/-! touch -/
@[simp] theorem touch_cl (s : State) (c : Nat) : (touch s c).cl = s.cl := by
  unfold touch; split <;> rfl
@[simp] theorem touch_apc (s : State) (c : Nat) : (touch s c).apc = s.apc := by unfold touch; split <;> rfl
@[simp] theorem touch_lpc (s : State) (c : Nat) : (touch s c).lpc = s.lpc := by unfold touch; split <;> rfl
@[simp] theorem touch_n (s : State) (c : Nat) : (touch s c).n = s.n := by unfold touch; split <;> rfl
@[simp] theorem touch_alk (s : State) (c : Nat) : (touch s c).alk = s.alk := by unfold touch; split <;> rfl
@[simp] theorem touch_ownL (s : State) (c : Nat) : (touch s c).ownL = s.ownL := by unfold touch; split <;> rfl
@[simp] theorem touch_ownC (s : State) (c : Nat) : (touch s c).ownC = s.ownC := by unfold touch; split <;> rfl
@[simp] theorem touch_ga (s : State) (c : Nat) : (touch s c).ga = s.ga := by unfold touch; split <;> rfl
@[simp] theorem touch_gl (s : State) (c : Nat) : (touch s c).gl = s.gl := by unfold touch; split <;> rfl
@[simp] theorem touch_lisDown (s : State) (c : Nat) : (touch s c).lisDown = s.lisDown := by unfold touch; split <;> rfl
@[simp] theorem touch_ljoined (s : State) (c : Nat) : (touch s c).ljoined = s.ljoined := by unfold touch; split <;> rfl
@[simp] theorem touch_aapi (s : State) (c : Nat) : (touch s c).aapi = s.aapi := by unfold touch; split <;> rfl
@[simp] theorem touch_dfree (s : State) (c : Nat) : (touch s c).dfree = s.dfree := by unfold touch; split <;> rfl
@[simp] theorem touch_badUnlock (s : State) (c : Nat) : (touch s c).badUnlock = s.badUnlock := by unfold touch; split <;> rfl
@[simp] theorem touch_badJoin (s : State) (c : Nat) : (touch s c).badJoin = s.badJoin := by unfold touch; split <;> rfl
@[simp] theorem touch_conflict (s : State) (c : Nat) : (touch s c).conflict = s.conflict := by unfold touch; split <;> rfl
@[simp] theorem touch_badRef (s : State) (c : Nat) : (touch s c).badRef = s.badRef := by unfold touch; split <;> rfl
theorem touch_uaf (s : State) (c : Nat) : (touch s c).uaf = (s.uaf || !(s.cl c).alive) := by
  unfold touch; split <;> simp_all [raise]

@[simp] theorem own_touch (s : State) (c : Nat) (m : MCls) (c' : Nat) : own (touch s c) m c' = own s m c' := by
  cases m <;> simp [own]
@[simp] theorem getG_touch (s : State) (c : Nat) (t : Tid) : getG (touch s c) t = getG s t := by
  cases t <;> simp [getG]

@[simp] theorem touchM_cl (s : State) (m : MCls) (c : Nat) : (touchM s m c).cl = s.cl := by
  unfold touchM; split <;> simp
@[simp] theorem own_touchM (s : State) (m : MCls) (c : Nat) (m' : MCls) (c' : Nat) :
    own (touchM s m c) m' c' = own s m' c' := by
  unfold touchM; split <;> simp
@[simp] theorem getG_touchM (s : State) (m : MCls) (c : Nat) (t : Tid) : getG (touchM s m c) t = getG s t := by
  unfold touchM; split <;> simp
@[simp] theorem touchM_apc (s : State) (m : MCls) (c : Nat) : (touchM s m c).apc = s.apc := by unfold touchM; split <;> simp
@[simp] theorem touchM_lpc (s : State) (m : MCls) (c : Nat) : (touchM s m c).lpc = s.lpc := by unfold touchM; split <;> simp
@[simp] theorem touchM_n (s : State) (m : MCls) (c : Nat) : (touchM s m c).n = s.n := by unfold touchM; split <;> simp
@[simp] theorem touchM_alk (s : State) (m : MCls) (c : Nat) : (touchM s m c).alk = s.alk := by unfold touchM; split <;> simp

/-! setC / setI / setO / setG -/
@[simp] theorem setC_cl (s : State) (t : Tid) (pc : CPc) : (setC s t pc).cl = s.cl := by
  cases t <;> rfl
@[simp] theorem own_setC (s : State) (t : Tid) (pc : CPc) (m : MCls) (c : Nat) : own (setC s t pc) m c = own s m c := by
  cases t <;> cases m <;> rfl
@[simp] theorem getG_setC (s : State) (t : Tid) (pc : CPc) (t' : Tid) : getG (setC s t pc) t' = getG s t' := by
  cases t <;> cases t' <;> rfl
@[simp] theorem setC_n (s : State) (t : Tid) (pc : CPc) : (setC s t pc).n = s.n := by cases t <;> rfl
@[simp] theorem setC_alk (s : State) (t : Tid) (pc : CPc) : (setC s t pc).alk = s.alk := by cases t <;> rfl
@[simp] theorem setC_app (s : State) (pc : CPc) : (setC s .app pc).apc = pc := rfl
@[simp] theorem setC_app_l (s : State) (pc : CPc) : (setC s .app pc).lpc = s.lpc := rfl
@[simp] theorem setC_lis (s : State) (pc : CPc) : (setC s .lis pc).lpc = pc := rfl
@[simp] theorem setC_lis_a (s : State) (pc : CPc) : (setC s .lis pc).apc = s.apc := rfl

theorem benign_ipc (pc : IPc) : Benign (fun x => { x with ipc := pc }) := by intro x; simp
theorem benign_opc (pc : OPc) : Benign (fun x => { x with opc := pc }) := by intro x; simp

@[simp] theorem own_setI (s : State) (c : Nat) (pc : IPc) (m : MCls) (c' : Nat) : own (setI s c pc) m c' = own s m c' :=
  own_updCl s c _ (benign_ipc pc) m c'
@[simp] theorem getG_setI (s : State) (c : Nat) (pc : IPc) (t : Tid) : getG (setI s c pc) t = getG s t :=
  getG_updCl s c _ (benign_ipc pc) t
@[simp] theorem own_setO (s : State) (c : Nat) (pc : OPc) (m : MCls) (c' : Nat) : own (setO s c pc) m c' = own s m c' :=
  own_updCl s c _ (benign_opc pc) m c'
@[simp] theorem getG_setO (s : State) (c : Nat) (pc : OPc) (t : Tid) : getG (setO s c pc) t = getG s t :=
  getG_updCl s c _ (benign_opc pc) t

@[simp] theorem own_setG (s : State) (t : Tid) (g : Ghost) (m : MCls) (c : Nat) : own (setG s t g) m c = own s m c := by
  cases t with
  | app => cases m <;> rfl
  | lis => cases m <;> rfl
  | inp d => cases m <;> simp only [own, setG, updCl_ownL, updCl_ownC] <;> (rw [updCl_cl]; split <;> simp_all)
  | out d => cases m <;> simp only [own, setG, updCl_ownL, updCl_ownC] <;> (rw [updCl_cl]; split <;> simp_all)

theorem getG_setG (s : State) (t : Tid) (g : Ghost) (t' : Tid) :
    getG (setG s t g) t' = if t' = t then g else getG s t' := by
  cases t <;> cases t' <;> simp [getG, setG, updCl_cl] <;> (split <;> simp_all)

/-! setOwn -/
theorem own_setOwn (s : State) (m : MCls) (c : Nat) (o : Option Tid) (m' : MCls) (c' : Nat) :
    own (setOwn s m c o) m' c' = if mkey m' c' = mkey m c then o else own s m' c' := by
  cases m <;> cases m' <;> simp [own, setOwn, mkey, MCls.perClient, updCl_cl] <;> (split <;> simp_all)

@[simp] theorem getG_setOwn (s : State) (m : MCls) (c : Nat) (o : Option Tid) (t : Tid) :
    getG (setOwn s m c o) t = getG s t := by
  cases m <;> cases t <;> simp [getG, setOwn, updCl_cl] <;> (split <;> simp_all)

end VncModel.Threads
