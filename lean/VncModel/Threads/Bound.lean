import VncModel.Threads.Fields
/-! Every client index that occurs in a program counter (or in the list of remembered clients) has
been allocated: it is below `n`.  Consequently the record that `rfbNewClient` allocates next is not
referenced by anybody. -/
namespace VncModel.Threads

def idxC : CPc → List Nat
  | .iter _ _ prev nxt => prev.toList ++ nxt.toList
  | .body _ _ c => [c]
  | .close _ _ c => [c]
  | .sdJoin c nxt => c :: nxt.toList
  | .cr st c => (match st with | .alloc => [] | _ => [c])
  | .gone _ c => [c]
  | _ => []

structure Bnd (s : State) : Prop where
  app : ∀ x ∈ idxC s.apc, x < s.n
  lis : ∀ x ∈ idxC s.lpc, x < s.n
  alk : ∀ x ∈ s.alk, x < s.n
  thr : ∀ c, (s.cl c).ipc ≠ .notStarted ∨ (s.cl c).opc ≠ .notStarted → c < s.n

theorem pick_lt_n {s : State} {b : Bool} {prev : Option Nat} {c : Nat} (hp : ∀ q, prev = some q → q < s.n)
    (h : pick s b prev = some c) : c < s.n := by
  unfold pick at h
  cases prev with
  | none => exact pickBelow_lt s b s.n c h
  | some q =>
    have h1 : c < q := pickBelow_lt s b q c h
    have h2 := hp q rfl
    omega

theorem bnd_init : Bnd State.init := by
  constructor <;> simp [State.init, idxC]

/-- the record fields `Bnd` looks at -/
theorem bnd_congr {s s' : State} (ha : s'.apc = s.apc) (hl : s'.lpc = s.lpc) (hk : s'.alk = s.alk) (hn : s'.n = s.n)
    (hc : ∀ c, (s'.cl c).ipc = (s.cl c).ipc ∧ (s'.cl c).opc = (s.cl c).opc) : Bnd s' ↔ Bnd s := by
  constructor
  · intro h
    exact ⟨by rw [← ha, ← hn]; exact h.app, by rw [← hl, ← hn]; exact h.lis, by rw [← hk, ← hn]; exact h.alk,
           fun c hc' => by rw [← hn]; exact h.thr c (by rw [(hc c).1, (hc c).2]; exact hc')⟩
  · intro h
    exact ⟨by rw [ha, hn]; exact h.app, by rw [hl, hn]; exact h.lis, by rw [hk, hn]; exact h.alk,
           fun c hc' => by rw [hn]; exact h.thr c (by rw [← (hc c).1, ← (hc c).2]; exact hc')⟩

theorem bnd_pcSame {s s' : State} (h : PcSame s s') (hn : s'.n = s.n) : Bnd s' ↔ Bnd s :=
  bnd_congr h.1 h.2.1 h.2.2.1 hn h.2.2.2

@[simp] theorem bnd_touch (s : State) (c : Nat) : Bnd (touch s c) ↔ Bnd s := bnd_pcSame (pcSame_touch s c) (by simp)
@[simp] theorem bnd_doUnlock (s : State) (t : Tid) (m : MCls) (c : Nat) : Bnd (doUnlock s t m c) ↔ Bnd s :=
  bnd_pcSame (pcSame_doUnlock s t m c) (by simp)
theorem bnd_doLock {s a : State} {t : Tid} {m : MCls} {c : Nat} (h : doLock s t m c = some a) : Bnd a ↔ Bnd s :=
  bnd_pcSame (pcSame_doLock h) (n_doLock h)
@[simp] theorem bnd_incRef (s : State) (t : Tid) (c : Nat) : Bnd (incRef s t c) ↔ Bnd s :=
  bnd_pcSame (pcSame_incRef s t c) (by simp)
@[simp] theorem bnd_decRef (s : State) (t : Tid) (c : Nat) : Bnd (decRef s t c) ↔ Bnd s :=
  bnd_pcSame (pcSame_decRef s t c) (by simp)
theorem bnd_updCl (s : State) (c : Nat) (f : Client → Client) (hf : KeepsPc f) : Bnd (updCl s c f) ↔ Bnd s :=
  bnd_pcSame (pcSame_updCl s c f hf) rfl
@[simp] theorem bnd_raise (s : State) (f : Flag) : Bnd (raise s f) ↔ Bnd s :=
  bnd_congr (by simp) (by simp) (by simp) (by simp) (fun c => by simp)
@[simp] theorem bnd_raiseIf (s : State) (f : Flag) (b : Bool) : Bnd (raiseIf s f b) ↔ Bnd s :=
  bnd_congr (by simp) (by simp) (by simp) (by simp) (fun c => by simp)
@[simp] theorem bnd_setAapi (s : State) (a : Api) : Bnd (setAapi s a) ↔ Bnd s :=
  bnd_congr rfl rfl rfl rfl (fun _ => ⟨rfl, rfl⟩)
@[simp] theorem bnd_setLisDown (s : State) : Bnd (setLisDown s) ↔ Bnd s := bnd_congr rfl rfl rfl rfl (fun _ => ⟨rfl, rfl⟩)
@[simp] theorem bnd_setLjoined (s : State) : Bnd (setLjoined s) ↔ Bnd s := bnd_congr rfl rfl rfl rfl (fun _ => ⟨rfl, rfl⟩)

/-- waking a waiter changes a program counter from `blocked` to `woken`: no index, and not to `notStarted` -/
@[simp] theorem bnd_signalU (s : State) (c : Nat) : Bnd (signalU s c) ↔ Bnd s := by
  unfold signalU; split
  · rename_i h
    constructor <;> intro hb
    · exact ⟨hb.app, hb.lis, hb.alk, fun c' hc' => by
        have := hb.thr c'
        simp only [setO, updCl_cl] at this
        by_cases e : c' = c
        · subst e; simp at this; exact this
        · simp [e] at this; exact this hc'⟩
    · exact ⟨hb.app, hb.lis, hb.alk, fun c' hc' => by
        simp only [setO, updCl_cl] at hc'
        by_cases e : c' = c
        · subst e; exact hb.thr c' (Or.inr (by simp [h]))
        · simp [e] at hc'; exact hb.thr c' hc'⟩
  · rfl

theorem bnd_setI_same (s : State) (c : Nat) (pc : IPc) (h1 : (s.cl c).ipc ≠ .notStarted) (h2 : pc ≠ .notStarted) :
    Bnd (setI s c pc) ↔ Bnd s := by
  constructor <;> intro hb
  · exact ⟨hb.app, hb.lis, hb.alk, fun c' hc' => by
      by_cases e : c' = c
      · subst e; exact hb.thr c' (Or.inl (by simp [setI, h2]))
      · have := hb.thr c'; simp only [setI, updCl_cl, e, if_false] at this; exact this hc'⟩
  · exact ⟨hb.app, hb.lis, hb.alk, fun c' hc' => by
      by_cases e : c' = c
      · subst e; exact hb.thr c' (Or.inl h1)
      · simp only [setI, updCl_cl, e, if_false] at hc'; exact hb.thr c' hc'⟩

theorem bnd_setO_same (s : State) (c : Nat) (pc : OPc) (h1 : (s.cl c).opc ≠ .notStarted) (h2 : pc ≠ .notStarted) :
    Bnd (setO s c pc) ↔ Bnd s := by
  constructor <;> intro hb
  · exact ⟨hb.app, hb.lis, hb.alk, fun c' hc' => by
      by_cases e : c' = c
      · subst e; exact hb.thr c' (Or.inr (by simp [setO, h2]))
      · have := hb.thr c'; simp only [setO, updCl_cl, e, if_false] at this; exact this hc'⟩
  · exact ⟨hb.app, hb.lis, hb.alk, fun c' hc' => by
      by_cases e : c' = c
      · subst e; exact hb.thr c' (Or.inr h1)
      · simp only [setO, updCl_cl, e, if_false] at hc'; exact hb.thr c' hc'⟩

theorem bnd_setApp_same (s : State) (pc : CPc) (h : idxC pc = idxC s.apc) : Bnd (setC s .app pc) ↔ Bnd s := by
  constructor <;> intro hb
  · exact ⟨by have := hb.app; simp only [setC_app, h] at this; exact this, hb.lis, hb.alk, hb.thr⟩
  · exact ⟨by simp only [setC_app, h]; exact hb.app, hb.lis, hb.alk, hb.thr⟩

theorem bnd_setLis_same (s : State) (pc : CPc) (h : idxC pc = idxC s.lpc) : Bnd (setC s .lis pc) ↔ Bnd s := by
  constructor <;> intro hb
  · exact ⟨hb.app, by have := hb.lis; simp only [setC_lis, h] at this; exact this, hb.alk, hb.thr⟩
  · exact ⟨hb.app, by simp only [setC_lis, h]; exact hb.lis, hb.alk, hb.thr⟩

@[simp] theorem bnd_signalD (s : State) (c : Nat) : Bnd (signalD s c) ↔ Bnd s := by
  unfold signalD
  simp only []
  have e1 : ∀ X : State, (X.cl c).ipc = .g .blocked → (Bnd (setI X c (.g .wakeD)) ↔ Bnd X) :=
    fun X hX => bnd_setI_same X c _ (by simp [hX]) (by simp)
  have e2 : ∀ X : State, X.apc = .gone .blocked c → (Bnd (setC X .app (.gone .wakeD c)) ↔ Bnd X) :=
    fun X hX => bnd_setApp_same X _ (by simp [hX, idxC])
  have e3 : ∀ X : State, X.lpc = .gone .blocked c → (Bnd (setC X .lis (.gone .wakeD c)) ↔ Bnd X) :=
    fun X hX => bnd_setLis_same X _ (by simp [hX, idxC])
  split <;> split <;> split <;> simp_all

theorem bnd_setApp {X : State} {pc : CPc} (hb : Bnd X) (h : ∀ x ∈ idxC pc, x < X.n) : Bnd (setC X .app pc) :=
  ⟨by simpa [setC] using h, hb.lis, hb.alk, hb.thr⟩
theorem bnd_setLis {X : State} {pc : CPc} (hb : Bnd X) (h : ∀ x ∈ idxC pc, x < X.n) : Bnd (setC X .lis pc) :=
  ⟨hb.app, by simpa [setC] using h, hb.alk, hb.thr⟩
theorem bnd_setI {X : State} {c : Nat} {pc : IPc} (hb : Bnd X) (h : c < X.n) : Bnd (setI X c pc) :=
  ⟨hb.app, hb.lis, hb.alk, fun c' hc' => by
    by_cases e : c' = c
    · subst e; exact h
    · simp only [setI, updCl_cl, e, if_false] at hc'; exact hb.thr c' hc'⟩
theorem bnd_setO {X : State} {c : Nat} {pc : OPc} (hb : Bnd X) (h : c < X.n) : Bnd (setO X c pc) :=
  ⟨hb.app, hb.lis, hb.alk, fun c' hc' => by
    by_cases e : c' = c
    · subst e; exact h
    · simp only [setO, updCl_cl, e, if_false] at hc'; exact hb.thr c' hc'⟩
theorem bnd_setAlkT {X : State} {t : Tid} {l : List Nat} (hb : Bnd X) (h : ∀ x ∈ l, x < X.n) : Bnd (setAlkT X t l) := by
  unfold setAlkT; split
  · exact ⟨hb.app, hb.lis, h, hb.thr⟩
  · exact hb
theorem bnd_alloc {s : State} (hb : Bnd s) : Bnd (setN (updCl s s.n Client.fresh) (s.n + 1)) := by
  refine ⟨fun x hx => ?_, fun x hx => ?_, fun x hx => ?_, fun c hc => ?_⟩
  · have := hb.app x hx; simp [setN]; omega
  · have := hb.lis x hx; simp [setN]; omega
  · have := hb.alk x hx; simp [setN]; omega
  · simp only [setN, updCl_cl] at hc ⊢
    by_cases e : c = s.n
    · omega
    · simp only [e, if_false] at hc; have := hb.thr c hc; omega

macro "bnd_base" hb:ident : tactic => `(tactic| first
  | exact $hb
  | (rw [bnd_doLock ‹doLock _ _ _ _ = some _›]; exact $hb))

macro "bnd_strip" hb:ident : tactic => `(tactic| (
  try simp only [bnd_touch, bnd_doUnlock, bnd_incRef, bnd_decRef, bnd_raise, bnd_raiseIf, bnd_setAapi, bnd_setLisDown,
    bnd_setLjoined, bnd_signalU, bnd_signalD]
  first
  | bnd_base $hb
  | (rw [bnd_updCl _ _ _ (by intro x; simp)]
     try simp only [bnd_touch, bnd_doUnlock, bnd_incRef, bnd_decRef, bnd_signalU, bnd_signalD, bnd_raise, bnd_raiseIf]
     bnd_base $hb)))

theorem bnd_out {s : State} {c : Nat} {l : Lbl} {s' : State} (hb : Bnd s)
    (hs : (l, s') ∈ outSucc s c) : Bnd s' := by
  unfold outSucc at hs
  split at hs
  all_goals (try unfold storeSt at hs)
  all_goals (try simp only [] at hs)
  all_goals (try split at hs)
  all_goals first
    | (simp at hs; done)
    | (simp at hs; crack_hyps
       all_goals (
         subst_vars
         have hc : c < s.n := hb.thr c (Or.inr (by simp [*]))
         refine bnd_setO ?_ ?_
         case refine_2 => first | (simpa using hc) | (rw [n_doLock ‹doLock _ _ _ _ = some _›]; exact hc) | (simp [n_doLock ‹doLock _ _ _ _ = some _›]; exact hc)
         bnd_strip hb))

macro "bnd_n" hc:ident : tactic => `(tactic| first
  | (simpa using $hc)
  | (rw [n_doLock ‹doLock _ _ _ _ = some _›]; exact $hc)
  | (simp [n_doLock ‹doLock _ _ _ _ = some _›]; exact $hc))

theorem bnd_inp {s : State} {c : Nat} {l : Lbl} {s' : State} (hb : Bnd s)
    (hs : (l, s') ∈ inpSucc s c) : Bnd s' := by
  unfold inpSucc at hs
  split at hs
  all_goals (try unfold storeSt at hs)
  all_goals (try unfold goneSucc at hs)
  all_goals (try simp only [] at hs)
  all_goals (try split at hs)
  all_goals (try split at hs)
  all_goals first
    | (simp at hs; done)
    | (simp at hs; crack_hyps
       all_goals (
         subst_vars
         have hc : c < s.n := hb.thr c (Or.inl (by simp [*]))
         refine bnd_setI ?_ ?_
         case refine_2 => bnd_n hc
         first
         | bnd_strip hb
         | (refine bnd_setO ?_ ?_
            case refine_2 => bnd_n hc
            bnd_strip hb)))

theorem pick_none_lt {s : State} {b : Bool} {c : Nat} (h : pick s b none = some c) : c < s.n := pickBelow_lt s b s.n c h
@[simp] theorem n_setN' (s : State) (k : Nat) : (setN s k).n = k := rfl

/-- side conditions: an index of the new program counter (or list) is one of the old ones, the result
of `pick`, or the freshly allocated one -/
macro "bnd_side" hb:ident : tactic => `(tactic| (
  have h1 := Bnd.app $hb
  have h2 := Bnd.lis $hb
  have h3 := Bnd.alk $hb
  try (have hn := n_doLock ‹doLock _ _ _ _ = some _›)
  try (have halk := alk_doLock ‹doLock _ _ _ _ = some _›)
  try (have hlt := pick_lt ‹pick _ _ (some _) = some _›)
  try (have hlt0 := pick_none_lt ‹pick _ _ none = some _›)
  simp only [idxC, finished, n_setN', nextIter, afterNext, List.mem_append, List.mem_cons, Option.mem_toList, List.mem_singleton,
    List.not_mem_nil, or_false, false_or, setC_n, touch_n, n_doUnlock, n_incRef, n_decRef, n_signalD, n_signalU, n_raise,
    n_raiseIf, n_setAapi, n_setLisDown, n_setLjoined, n_setAlkT, updCl_n, alk_doUnlock, alk_incRef, alk_decRef, touch_alk,
    alk_signalD, alk_signalU, *] at *
  first | done | omega | grind))

macro "bnd_solve" hb:ident : tactic => `(tactic| repeat' (first
  | exact $hb
  | (rw [bnd_doLock ‹doLock _ _ _ _ = some _›])
  | (simp only [bnd_touch, bnd_doUnlock, bnd_incRef, bnd_decRef, bnd_raise, bnd_raiseIf, bnd_setAapi, bnd_setLisDown,
      bnd_setLjoined, bnd_signalU, bnd_signalD])
  | (rw [bnd_updCl _ _ _ (by intro x; simp)])
  | (with_reducible refine bnd_setAlkT ?_ ?_)
  | (with_reducible refine bnd_setI ?_ ?_)
  | (with_reducible refine bnd_setO ?_ ?_)
  | (with_reducible refine bnd_setLis ?_ ?_)
  | (with_reducible refine bnd_setApp ?_ ?_)
  | (with_reducible exact bnd_alloc $hb)
  | bnd_side $hb))


theorem bnd_caller_app {s : State} {l : Lbl} {s' : State} (hb : Bnd s)
    (hs : (l, s') ∈ callerSucc s .app) : Bnd s' := by
  unfold callerSucc at hs
  simp only [getC] at hs
  split at hs
  all_goals (try unfold iterSucc at hs)
  all_goals (try unfold bodySucc at hs)
  all_goals (try unfold closeSucc at hs)
  all_goals (try unfold nfSucc at hs)
  all_goals (try unfold crSucc at hs)
  all_goals (try unfold goneSucc at hs)
  all_goals (try unfold storeSt at hs)
  all_goals (try simp only [] at hs)
  all_goals (repeat' (split at hs))
  all_goals first
    | (simp at hs; done)
    | (simp at hs; crack_hyps; all_goals (subst_vars; bnd_solve hb))

theorem bnd_caller_lis {s : State} {l : Lbl} {s' : State} (hb : Bnd s) (hp : lisPc s.lpc = true)
    (hs : (l, s') ∈ callerSucc s .lis) : Bnd s' := by
  unfold callerSucc at hs
  simp only [getC] at hs
  split at hs
  all_goals (try unfold iterSucc at hs)
  all_goals (try unfold bodySucc at hs)
  all_goals (try unfold closeSucc at hs)
  all_goals (try unfold nfSucc at hs)
  all_goals (try unfold crSucc at hs)
  all_goals (try unfold goneSucc at hs)
  all_goals (try unfold storeSt at hs)
  all_goals (try simp only [] at hs)
  all_goals (repeat' (split at hs))
  all_goals first
    | (simp at hs; done)
    | (exfalso; simp [lisPc, *] at hp; done)
    | (simp at hs; crack_hyps; all_goals (subst_vars; bnd_solve hb))

/-- `Bnd` is inductive -/
theorem bnd_step {s s' : State} (hb : Bnd s) (hs : Step s s') : Bnd s' := by
  obtain ⟨t, l, hm⟩ := hs
  cases t with
  | app => exact bnd_caller_app hb hm
  | lis =>
    simp only [succ] at hm
    split at hm
    · exact bnd_caller_lis hb ‹_› hm
    · simp at hm
  | inp c => exact bnd_inp hb hm
  | out c => exact bnd_out hb hm

theorem bnd_reach {s : State} (h : Reach s) : Bnd s := by
  induction h with
  | init => exact bnd_init
  | step _ hs ih => exact bnd_step ih hs

end VncModel.Threads

