import VncModel.Threads.Progress
/-! The shutdown wake-up of the output thread is never lost: once the input thread has stored
RFB_SHUTDOWN and signalled updateCond under updateMutex (clientInput's exit path), the output thread
is not asleep in its condition wait and cannot go to sleep any more — so the pthread_join that follows
waits for a thread that is running towards its exit. -/
set_option linter.unusedSimpArgs false
namespace VncModel.Threads

/-- the input thread has stored RFB_SHUTDOWN on its way out -/
def afterStore : IPc → Bool
  | .x1 | .x2 | .x3 => true
  | _ => false
/-- ... and has signalled updateCond -/
def afterSignal : IPc → Bool
  | .x2 | .x3 => true
  | _ => false

structure WakeInv (s : State) : Prop where
  st_sd : ∀ c, afterStore (s.cl c).ipc = true → (s.cl c).st = .shutdown
  awake : ∀ c, afterSignal (s.cl c).ipc = true → (s.cl c).opc ≠ .blocked ∧ (s.cl c).opc ≠ .inU
  started : ∀ c, ipcHasOut (s.cl c).ipc = true → (s.cl c).opc ≠ .notStarted

theorem wake_init : WakeInv State.init := by
  constructor <;> intro c <;> simp [State.init, afterStore, afterSignal, ipcHasOut]

theorem wake_congr {s s' : State}
    (h : ∀ c, (s'.cl c).st = (s.cl c).st ∧ (s'.cl c).ipc = (s.cl c).ipc ∧ (s'.cl c).opc = (s.cl c).opc) :
    WakeInv s' ↔ WakeInv s := by
  constructor
  · intro w; constructor
    · intro c; rw [← (h c).1, ← (h c).2.1]; exact w.st_sd c
    · intro c; rw [← (h c).2.1, ← (h c).2.2]; exact w.awake c
    · intro c; rw [← (h c).2.1, ← (h c).2.2]; exact w.started c
  · intro w; constructor
    · intro c; rw [(h c).1, (h c).2.1]; exact w.st_sd c
    · intro c; rw [(h c).2.1, (h c).2.2]; exact w.awake c
    · intro c; rw [(h c).2.1, (h c).2.2]; exact w.started c

theorem wake_of_core {s s' : State} (hc : ∀ c, CoreEq (s'.cl c) (s.cl c)) : WakeInv s' ↔ WakeInv s :=
  wake_congr (fun c => by have := hc c; unfold CoreEq at this; exact ⟨this.2.2.2.1, this.2.2.2.2.2.2.2.1, this.2.2.2.2.2.2.2.2.1⟩)

@[simp] theorem wake_doUnlock (s : State) (t : Tid) (m : MCls) (c : Nat) : WakeInv (doUnlock s t m c) ↔ WakeInv s :=
  wake_of_core (coreEq_doUnlock s t m c)
theorem wake_doLock {s a : State} {t : Tid} {m : MCls} {c : Nat} (h : doLock s t m c = some a) : WakeInv a ↔ WakeInv s :=
  wake_of_core (coreEq_doLock h)
@[simp] theorem wake_touch (s : State) (c : Nat) : WakeInv (touch s c) ↔ WakeInv s :=
  wake_congr (fun _ => by rw [touch_cl]; exact ⟨rfl, rfl, rfl⟩)
@[simp] theorem wake_raise (s : State) (f : Flag) : WakeInv (raise s f) ↔ WakeInv s :=
  wake_congr (fun _ => by rw [cl_raise]; exact ⟨rfl, rfl, rfl⟩)
@[simp] theorem wake_raiseIf (s : State) (f : Flag) (b : Bool) : WakeInv (raiseIf s f b) ↔ WakeInv s := by
  unfold raiseIf; split <;> simp
@[simp] theorem wake_setC (s : State) (t : Tid) (pc : CPc) : WakeInv (setC s t pc) ↔ WakeInv s :=
  wake_congr (fun _ => by rw [setC_cl]; exact ⟨rfl, rfl, rfl⟩)
@[simp] theorem wake_setAapi (s : State) (a : Api) : WakeInv (setAapi s a) ↔ WakeInv s := wake_congr (fun _ => ⟨rfl, rfl, rfl⟩)
@[simp] theorem wake_setLisDown (s : State) : WakeInv (setLisDown s) ↔ WakeInv s := wake_congr (fun _ => ⟨rfl, rfl, rfl⟩)
@[simp] theorem wake_setLjoined (s : State) : WakeInv (setLjoined s) ↔ WakeInv s := wake_congr (fun _ => ⟨rfl, rfl, rfl⟩)
@[simp] theorem wake_setN (s : State) (n : Nat) : WakeInv (setN s n) ↔ WakeInv s := wake_congr (fun _ => ⟨rfl, rfl, rfl⟩)
@[simp] theorem wake_setAlkT (s : State) (t : Tid) (l : List Nat) : WakeInv (setAlkT s t l) ↔ WakeInv s :=
  wake_congr (fun _ => by rw [cl_setAlkT]; exact ⟨rfl, rfl, rfl⟩)

/-- record updates the invariant does not look at -/
def WakeNeutral (f : Client → Client) : Prop := ∀ x, (f x).st = x.st ∧ (f x).ipc = x.ipc ∧ (f x).opc = x.opc

theorem wake_updCl (s : State) (c : Nat) (f : Client → Client) (hf : WakeNeutral f) : WakeInv (updCl s c f) ↔ WakeInv s :=
  wake_congr (fun x => by
    rw [updCl_cl]; split
    · rename_i h; subst h; exact hf _
    · exact ⟨rfl, rfl, rfl⟩)

theorem wake_setG (s : State) (t : Tid) (g : Ghost) : WakeInv (setG s t g) ↔ WakeInv s := wake_of_core (coreEq_setG s t g)
@[simp] theorem wake_incRef (s : State) (t : Tid) (c : Nat) : WakeInv (incRef s t c) ↔ WakeInv s := by
  unfold incRef; simp only []; rw [wake_setG]; exact wake_updCl s c _ (by intro x; simp)
@[simp] theorem wake_decRef (s : State) (t : Tid) (c : Nat) : WakeInv (decRef s t c) ↔ WakeInv s := by
  unfold decRef; split
  · simp only []; rw [wake_setG]; exact wake_updCl s c _ (by intro x; simp)
  · rw [wake_raise]; exact wake_updCl s c _ (by intro x; simp)

/-- a store to `cl->state` -/
theorem wake_setSt {X : State} {c : Nat} {v : CSt} (w : WakeInv X)
    (h : afterStore (X.cl c).ipc = true → v = .shutdown) :
    WakeInv (updCl X c (fun x => { x with st := v })) := by
  constructor
  · intro c'; rw [updCl_cl]; split
    · rename_i e; subst e; exact h
    · exact w.st_sd _
  · intro c'; rw [updCl_cl]; split
    · rename_i e; subst e; exact w.awake _
    · exact w.awake _
  · intro c'; rw [updCl_cl]; split
    · rename_i e; subst e; exact w.started _
    · exact w.started _

theorem wake_setI {X : State} {c : Nat} {pc' : IPc} (w : WakeInv X)
    (h1 : afterStore pc' = true → (X.cl c).st = .shutdown)
    (h2 : afterSignal pc' = true → (X.cl c).opc ≠ .blocked ∧ (X.cl c).opc ≠ .inU)
    (h3 : ipcHasOut pc' = true → (X.cl c).opc ≠ .notStarted) : WakeInv (setI X c pc') := by
  constructor
  · intro c'; rw [cl_setI]; split
    · rename_i e; subst e; exact h1
    · exact w.st_sd _
  · intro c'; rw [cl_setI]; split
    · rename_i e; subst e; exact h2
    · exact w.awake _
  · intro c'; rw [cl_setI]; split
    · rename_i e; subst e; exact h3
    · exact w.started _

theorem wake_setO {X : State} {c : Nat} {pc' : OPc} (w : WakeInv X)
    (h : afterSignal (X.cl c).ipc = true → pc' ≠ .blocked ∧ pc' ≠ .inU) (h' : pc' ≠ .notStarted) :
    WakeInv (setO X c pc') := by
  constructor
  · intro c'; rw [cl_setO]; split
    · rename_i e; subst e; exact w.st_sd _
    · exact w.st_sd _
  · intro c'; rw [cl_setO]; split
    · rename_i e; subst e; exact h
    · exact w.awake _
  · intro c'; rw [cl_setO]; split
    · rename_i e; subst e; intro _; exact h'
    · exact w.started _

theorem wake_signalU {X : State} (c : Nat) (w : WakeInv X) : WakeInv (signalU X c) := by
  unfold signalU; split
  · exact wake_setO w (fun _ => ⟨by simp, by simp⟩) (by simp)
  · exact w

theorem wake_signalD {X : State} (c : Nat) (w : WakeInv X) : WakeInv (signalD X c) := by
  unfold signalD; simp only []
  have h1 : WakeInv (if (X.cl c).ipc = .g .blocked then setI X c (.g .wakeD) else X) := by
    split
    · exact wake_setI w (by simp [afterStore]) (by simp [afterSignal]) (by simp [ipcHasOut])
    · exact w
  generalize (if (X.cl c).ipc = .g .blocked then setI X c (.g .wakeD) else X) = Y at h1
  split <;> split <;> simp [h1]

theorem wake_alloc {s : State} (w : WakeInv s) (hb : Bnd s) : WakeInv (updCl s s.n Client.fresh) := by
  have hi : (s.cl s.n).ipc = .notStarted := by
    apply Classical.byContradiction; intro e; have := hb.thr s.n (Or.inl e); omega
  constructor
  · intro c'; rw [updCl_cl]; split
    · rename_i e; subst e; simp [Client.fresh, hi, afterStore]
    · exact w.st_sd _
  · intro c'; rw [updCl_cl]; split
    · rename_i e; subst e; simp [Client.fresh, hi, afterSignal]
    · exact w.awake _
  · intro c'; rw [updCl_cl]; split
    · rename_i e; subst e; simp [Client.fresh, hi, ipcHasOut]
    · exact w.started _

theorem afterStore_of_afterSignal {pc : IPc} (h : afterSignal pc = true) : afterStore pc = true := by
  cases pc <;> simp [afterSignal] at h <;> rfl

/-- the input thread signals updateCond while it holds updateMutex: the output thread is not between
its check of `state` and its WAIT -/
theorem wake_x1_x2 {s : State} {c : Nat} (hr : Reach s) (w : WakeInv s) (h : (s.cl c).ipc = .x1) :
    WakeInv (setI (signalU (touch s c) c) c .x2) := by
  have hU : own s .U c = some (.inp c) :=
    (own_iff_table hr (.inp c) .U c).2 (by simp [heldOf, h, heldI, mkey, MCls.perClient])
  have hne : (s.cl c).opc ≠ .inU := by
    intro e
    have := (own_iff_table hr (.out c) .U c).2 (by simp [heldOf, e, heldO, mkey, MCls.perClient])
    rw [hU] at this; cases this
  have hst := w.started c (by rw [h]; rfl)
  refine wake_setI (wake_signalU _ ((wake_touch s c).2 w)) ?_ ?_ ?_
  · intro _
    have := w.st_sd c (by rw [h]; rfl)
    unfold signalU; split <;> simp [cl_setO, this]
  · intro _
    unfold signalU; split
    · simp [cl_setO]
    · rename_i hb; simp only [touch_cl] at hb ⊢; exact ⟨hb, hne⟩
  · intro _
    unfold signalU; split
    · simp [cl_setO]
    · simp only [touch_cl]; exact hst

theorem opc_signalU_ns (s : State) (c : Nat) (h : (s.cl c).opc ≠ .notStarted) :
    ((signalU s c).cl c).opc ≠ .notStarted := by
  unfold signalU; split
  · simp [cl_setO]
  · exact h

macro "dl_facts2" : tactic => `(tactic| (
  try (
    have hdl2 := ‹doLock _ _ _ _ = some _›
    have hd_st := fun c' => st_doLock hdl2 c')))

macro "wake_side" w:ident : tactic => `(tactic| first
  | (simp; done)
  | (split <;> simp; done)
  | (intro _; rfl)
  | (intro _; simp [afterStore, afterSignal, ipcHasOut, cl_setO, *]; done)
  | (intro _; split <;> simp; done)
  | (intro _; assumption)
  | (intro hq; simp [afterStore, afterSignal, ipcHasOut, cl_setO, *] at hq; done)
  | (intro hq; simp only [ipc_doUnlock, opc_doUnlock, st_doUnlock, touch_cl, *] at hq ⊢
     have h1 := WakeInv.st_sd $w _ (afterStore_of_afterSignal hq)
     have h2 := WakeInv.awake $w _ hq
     simp_all [afterStore, afterSignal]; done)
  | (intro hq; simp only [ipc_doUnlock, opc_doUnlock, st_doUnlock, touch_cl, *] at hq ⊢
     have h1 := WakeInv.st_sd $w _ hq
     simp_all [afterStore, afterSignal]; done)
  | (intro _; simp only [ipc_doUnlock, opc_doUnlock, st_doUnlock, touch_cl]; refine WakeInv.st_sd $w _ ?_; simp [afterStore, *]; done)
  | (intro _; simp only [ipc_doUnlock, opc_doUnlock, st_doUnlock, touch_cl]; refine WakeInv.awake $w _ ?_; simp [afterSignal, *]; done)
  | (intro _; simp only [ipc_doUnlock, opc_doUnlock, st_doUnlock, touch_cl, cl_raise, cl_raiseIf, updCl_cl_same, *]
     refine WakeInv.started $w _ ?_; simp [ipcHasOut, *]; done)
  | (intro _; refine opc_signalU_ns _ _ ?_; simp only [touch_cl]; refine WakeInv.started $w _ ?_; simp [ipcHasOut, *]; done))

macro "wake_strip" hr:ident w:ident : tactic => `(tactic| repeat' (first
  | exact $w
  | (rw [wake_doLock ‹doLock _ _ _ _ = some _›])
  | (simp only [wake_doUnlock, wake_touch, wake_raise, wake_raiseIf, wake_setC, wake_setAapi, wake_setLisDown,
      wake_setLjoined, wake_setN, wake_setAlkT, wake_incRef, wake_decRef])
  | (exact wake_x1_x2 $hr $w ‹_›)
  | (exact wake_alloc $w (bnd_reach $hr))
  | (refine (wake_updCl _ _ _ ?neutral).2 ?_
     case neutral => (intro x; simp))
  | (with_reducible refine wake_signalU _ ?_)
  | (with_reducible refine wake_signalD _ ?_)
  | (with_reducible refine wake_setSt ?_ ?_)
  | (with_reducible refine wake_setI ?_ ?_ ?_ ?_)
  | (with_reducible refine wake_setO ?_ ?_ ?_)
  | wake_side $w))

theorem wake_out {s : State} {c : Nat} {l : Lbl} {s' : State} (hr : Reach s) (w : WakeInv s)
    (hs : (l, s') ∈ outSucc s c) : WakeInv s' := by
  unfold outSucc at hs
  split at hs
  all_goals (try unfold storeSt at hs)
  all_goals (try simp only [] at hs)
  all_goals (try split at hs)
  all_goals first
    | (simp at hs; done)
    | (simp at hs; crack_hyps
       all_goals (subst_vars; dl_facts; dl_facts2; wake_strip hr w))

theorem wake_inp {s : State} {c : Nat} {l : Lbl} {s' : State} (hr : Reach s) (w : WakeInv s)
    (hs : (l, s') ∈ inpSucc s c) : WakeInv s' := by
  unfold inpSucc at hs
  split at hs
  all_goals (try unfold storeSt at hs)
  all_goals (try unfold goneSucc at hs)
  all_goals (try simp only [] at hs)
  all_goals (try split at hs)
  all_goals (try split at hs)
  all_goals first
    | (simp at hs; done)
    | (simp at hs; crack_hyps
       all_goals (subst_vars; dl_facts; dl_facts2; wake_strip hr w))

theorem wake_caller {s : State} {t : Tid} (ht : t = .app ∨ t = .lis) (hp : t = .lis → lisPc s.lpc = true)
    {l : Lbl} {s' : State} (hr : Reach s) (w : WakeInv s) (hs : (l, s') ∈ callerSucc s t) : WakeInv s' := by
  unfold callerSucc at hs
  rcases ht with rfl | rfl
  all_goals (
    simp only [getC] at hs
    split at hs
    all_goals (try unfold iterSucc at hs)
    all_goals (try unfold bodySucc at hs)
    all_goals (try unfold closeSucc at hs)
    all_goals (try unfold nfSucc at hs)
    all_goals (try unfold crSucc at hs)
    all_goals (try unfold goneSucc at hs)
    all_goals (try unfold storeSt at hs)
    all_goals (try simp only [] at hs)
    all_goals (repeat' (split at hs))
    all_goals first
      | (simp at hs; done)
      | (exfalso; have := hp rfl; simp [lisPc, *] at this; done)
      | (simp at hs; crack_hyps
         all_goals (subst_vars; dl_facts; dl_facts2; wake_strip hr w)))

theorem wake_step {s s' : State} (hr : Reach s) (w : WakeInv s) (hs : Step s s') : WakeInv s' := by
  obtain ⟨t, l, hm⟩ := hs
  cases t with
  | app => exact wake_caller (Or.inl rfl) (fun e => by cases e) hr w hm
  | lis =>
    simp only [succ] at hm
    split at hm
    · exact wake_caller (Or.inr rfl) (fun _ => ‹_›) hr w hm
    · simp at hm
  | inp c => exact wake_inp hr w hm
  | out c => exact wake_out hr w hm

theorem wake_reach {s : State} (h : Reach s) : WakeInv s := by
  induction h with
  | init => exact wake_init
  | step hr hs ih => exact wake_step hr ih hs

/-- an output thread that has been created, has not ended and is not asleep in its condition wait
can take a step or waits for a mutex that somebody owns -/
theorem out_progress (s : State) (c : Nat) (h1 : (s.cl c).opc ≠ .notStarted) (h2 : (s.cl c).opc ≠ .exited)
    (h3 : (s.cl c).opc ≠ .blocked) : Enabled s (.out c) ∨ WaitsMutex s (.out c) := by
  unfold Enabled WaitsMutex
  simp only [succ, outSucc, pendOf]
  cases hpc : (s.cl c).opc <;> simp only [hpc] at h1 h2 h3 ⊢
  all_goals first
    | (exact absurd rfl h1)
    | (exact absurd rfl h2)
    | (exact absurd rfl h3)
    | (left; exact ⟨_, List.mem_append_right _ (List.mem_singleton.2 rfl)⟩)
    | (rename_i st; cases st <;> prog)
    | prog
    | (generalize hd : doLock _ _ _ _ = d at *
       cases d with
       | none => right; refine ⟨_, ?_, own_of_doLock_none hd⟩; simp [mkey, MCls.perClient, pendO]; done
       | some a => left; simp)

/-- **the join of the output thread cannot hang on a lost wake-up**: while the input thread waits in
pthread_join for its output thread (clientInput's exit path), the output thread has been created, is
not asleep in WAIT(updateCond) and `state` is RFB_SHUTDOWN; it has ended, or some thread of the system
can take a step -/
theorem output_join_progresses {s : State} (h : Reach s) (c : Nat) (hi : (s.cl c).ipc = .x3) :
    (s.cl c).st = .shutdown ∧ (s.cl c).opc ≠ .blocked ∧ (s.cl c).opc ≠ .inU ∧
    ((s.cl c).opc = .exited ∨ ∃ t, Enabled s t) := by
  have w := wake_reach h
  have h1 := w.st_sd c (by rw [hi]; rfl)
  have h2 := w.awake c (by rw [hi]; rfl)
  have h3 := w.started c (by rw [hi]; rfl)
  refine ⟨h1, h2.1, h2.2, ?_⟩
  by_cases he : (s.cl c).opc = .exited
  · exact Or.inl he
  · right
    rcases out_progress s c h3 he h2.1 with e | ⟨k, hk, ho⟩
    · exact ⟨_, e⟩
    · obtain ⟨t', ht'⟩ := Option.ne_none_iff_exists'.1 ho
      exact mutex_wait_resolves h k (.out c) t' hk ht'

end VncModel.Threads
